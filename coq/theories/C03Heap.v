(* C03 — shared batches.  shark::Data keeps its batches behind reference-counted pointers
   (detail::SharedContainer::m_data : vector<shared_ptr<Batch>>): copies of a Data object, indexedSubset
   results, appended containers, the dataset kept inside a CVFolds object or a DataView all point to the SAME
   batch objects.  This file models that with an explicit heap of batches.

   state  = heap (list of batch contents, batch id = position; ids are never reused) + a fixed number of
            handles (the containers that exist: registers of the harness, the dataset inside a CVFolds object,
            the dataset inside a DataView);
   handle = element shape (Data::m_shape) + list of batch ids.

   Every operation below follows the C++ text (Dataset.h / Impl/Dataset.inl): which operations copy
   pointers, which allocate new batches, which refuse to work on a shared container
   (SHARK_RUNTIME_CHECK(isIndependent()) -> None here, an exception there), and where the shape goes.
   Definitions only; proofs in C03HeapProofs.v. *)
From Coq Require Import List Arith Bool.
From SharkV Require Import ListAux C03Model C12Model.
Import ListNotations.

Section Heap.
Context {A Sh : Type}.
Variable dflt : A.
Variable shape0 : Sh.           (* the default-constructed Shape() *)

Record handle := mkH { h_shape : Sh; h_ids : list nat }.
Record state := mkSt { st_heap : list (list A); st_handles : list handle }.

Definition hempty : handle := mkH shape0 [].
Definition hnd (st : state) (r : nat) : handle := nth r (st_handles st) hempty.
Definition cell (hp : list (list A)) (id : nat) : list A := nth id hp [].
Definition contents_of (hp : list (list A)) (ids : list nat) : @data A := map (cell hp) ids.
(* what a reader of container r sees: its batches, in order *)
Definition contents (st : state) (r : nat) : @data A := contents_of (st_heap st) (h_ids (hnd st r)).
Definition valid (st : state) (r : nat) : bool := r <? length (st_handles st).
Definition set_h (st : state) (r : nat) (h : handle) : state := mkSt (st_heap st) (upd r h (st_handles st)).

(* shared_ptr::use_count of a batch = number of pointers to it in all containers that exist *)
Definition all_ids (st : state) : list nat := flat_map h_ids (st_handles st).
Definition refcount (st : state) (id : nat) : nat := count_occ Nat.eq_dec (all_ids st) id.
(* SharedContainer::isIndependent(): every batch pointer is unique() *)
Definition independent (st : state) (r : nat) : bool :=
  forallb (fun id => refcount st id =? 1) (h_ids (hnd st r)).

(* make_shared<BatchType>(...): new batches at fresh ids *)
Definition alloc (st : state) (bs : @data A) : state * list nat :=
  (mkSt (st_heap st ++ bs) (st_handles st), seq (length (st_heap st)) (length bs)).
(* container r gets freshly allocated batches with the given contents, its shape stays *)
Definition realloc (st : state) (r : nat) (d : @data A) : state :=
  let '(st1, ids) := alloc st d in set_h st1 r (mkH (h_shape (hnd st r)) ids).

(* position of element k: (batch position, position in batch) — what DataElementIterator + k reaches *)
Fixpoint locate (szs : list nat) (k : nat) : option (nat * nat) :=
  match szs with
  | [] => None
  | s :: ss => if k <? s then Some (0, k)
               else match locate ss (k - s) with Some (b, j) => Some (S b, j) | None => None end
  end.

Inductive op : Type :=
| OCreate (r : nat) (s : Sh) (l : list A) (m : nat)   (* R[r] = createDataFromRange(l, m); shape inferred = s *)
| OCopy (r q : nat)                                  (* R[q] = R[r]  (copy constructor / assignment: pointers) *)
| OClear (r : nat)                                   (* R[r] = Data()  *)
| OSubset (r q : nat) (idx : list nat)               (* R[q] = R[r].indexedSubset(idx) *)
| OSubset3 (r q t : nat) (idx : list nat)            (* R[r].indexedSubset(idx, R[q], R[t]) *)
| OSplice (r q b : nat)                              (* R[q] = R[r].splice(b) *)
| OAppend (r q : nat)                                (* R[r].append(R[q]) *)
| OPushBack (r q b : nat)                            (* R[r].push_back(R[q].batch(b)) *)
| OWrite (r k : nat) (v : A)                         (* R[r].element(k) = v *)
| OWriteBatch (r b j : nat) (v : A)                  (* getBatchElement(R[r].batch(b), j) = v *)
| OMakeIndep (r : nat)                               (* R[r].makeIndependent() *)
| ORepartition (r : nat) (szs : list nat)            (* R[r].repartition(szs) *)
| OSplitBatch (r b k : nat)                          (* R[r].splitBatch(b, k) *)
| OReorder (r : nat) (idx : list nat)                (* R[r].reorderElements(idx) *)
| ORegroup (r : nat) (order bs : list nat).          (* newSet(numBatches) filled by subBatch(view(R[r]), ..); swap(R[r], newSet) *)

Definition is_write (o : op) : bool :=
  match o with OWrite _ _ _ | OWriteBatch _ _ _ _ => true | _ => false end.

Definition write_batch (st : state) (r b j : nat) (v : A) : option state :=
  let ids := h_ids (hnd st r) in
  if valid st r && (b <? length ids) then
    let c := nth b ids 0 in
    if j <? length (cell (st_heap st) c)
    then Some (mkSt (upd c (upd j v (cell (st_heap st) c)) (st_heap st)) (st_handles st))
    else None
  else None.

Definition step (o : op) (st : state) : option state :=
  match o with
  | OCreate r s l m =>
    if valid st r then
      match create l m with
      | Some d => let '(st1, ids) := alloc st d in Some (set_h st1 r (mkH s ids))
      | None => None
      end
    else None
  | OCopy r q => if valid st r && valid st q then Some (set_h st q (hnd st r)) else None
  | OClear r => if valid st r then Some (set_h st r hempty) else None
  | OSubset r q idx =>
    let hr := hnd st r in
    if valid st r && valid st q && forallb (fun i => i <? length (h_ids hr)) idx
    then Some (set_h st q (mkH (h_shape hr) (map (fun i => nth i (h_ids hr) 0) idx)))
    else None
  | OSubset3 r q t idx =>
    (* subset.m_data = Container(m_data, indices); complement.m_data = Container(m_data, comp);
       subset.m_shape = complement.m_shape = m_shape  (the three containers are distinct objects) *)
    let hr := hnd st r in
    if valid st r && valid st q && valid st t && negb (r =? q) && negb (r =? t) && negb (q =? t)
       && forallb (fun i => i <? length (h_ids hr)) idx
    then
      let st1 := set_h st q (mkH (h_shape hr) (map (fun i => nth i (h_ids hr) 0) idx)) in
      Some (set_h st1 t (mkH (h_shape hr) (map (fun i => nth i (h_ids hr) 0) (complement idx (length (h_ids hr))))))
    else None
  | OSplice r q b =>
    (* SHARK_RUNTIME_CHECK(isIndependent()); right gets the pointers [b, end), they are erased on the left;
       right.m_shape = m_shape *)
    let hr := hnd st r in
    if valid st r && valid st q && negb (r =? q) && independent st r && (b <=? length (h_ids hr))
    then
      let st1 := set_h st r (mkH (h_shape hr) (firstn b (h_ids hr))) in
      Some (set_h st1 q (mkH (h_shape hr) (skipn b (h_ids hr))))
    else None
  | OAppend r q =>
    (* m_data.insert(end, other.m_data.begin(), other.m_data.end()): the pointers of the other container *)
    if valid st r && valid st q && negb (r =? q)
    then Some (set_h st r (mkH (h_shape (hnd st r)) (h_ids (hnd st r) ++ h_ids (hnd st q))))
    else None
  | OPushBack r q b =>
    (* m_data.push_back(make_shared<BatchType>(batch)): a new batch object holding a copy *)
    if valid st r && valid st q && (b <? length (h_ids (hnd st q)))
    then
      let '(st1, ids) := alloc st [nth b (contents st q) []] in
      Some (set_h st1 r (mkH (h_shape (hnd st r)) (h_ids (hnd st r) ++ ids)))
    else None
  | OWriteBatch r b j v => write_batch st r b j v
  | OWrite r k v =>
    match locate (sizes (contents st r)) k with
    | Some (b, j) => write_batch st r b j v
    | None => None
    end
  | OMakeIndep r =>
    (* if (isIndependent()) return; otherwise EVERY batch is copied into a new batch object *)
    if valid st r then
      if independent st r then Some st else Some (realloc st r (contents st r))
    else None
  | ORepartition r szs =>
    if valid st r && independent st r then
      match repartition szs (contents st r) with
      | Some d => Some (realloc st r d)
      | None => None
      end
    else None
  | OSplitBatch r b k =>
    (* two new batch objects replace the pointer at position b; nothing happens when one side would be empty *)
    let hr := hnd st r in
    if valid st r && independent st r && (b <? length (h_ids hr)) then
      let src := nth b (contents st r) [] in
      if length src <? k then None
      else if (k =? 0) || (k =? length src) then Some st
      else
        let '(st1, ids) := alloc st [firstn k src; skipn k src] in
        Some (set_h st1 r (mkH (h_shape hr) (firstn b (h_ids hr) ++ ids ++ skipn (S b) (h_ids hr))))
    else None
  | OReorder r idx =>
    (* Data dataCopy(numberOfBatches()); dataCopy.shape() = shape(); ... *this = dataCopy: new batch objects,
       no independence required; the other holders keep the old batches *)
    if valid st r then
      match reorder dflt idx (contents st r) with
      | Some d => Some (realloc st r d)
      | None => None
      end
    else None
  | ORegroup r order bs =>
    (* createCVIndexed / FullyIndexed / SameSizeBalanced: newSet(numBatches) with the shapes of the set, every batch
       built by subBatch through a DataView of the old set, then swap(set, newSet) *)
    if valid st r && forallb (fun i => i <? nelems (contents st r)) order && (sum bs =? length order)
    then Some (realloc st r (regroup dflt order bs (contents st r)))
    else None
  end.

(* a history: operations that throw leave everything as it was (the harness catches the exception) *)
Fixpoint run (ops : list op) (st : state) : state :=
  match ops with
  | [] => st
  | o :: r => run r (match step o st with Some st' => st' | None => st end)
  end.
(* the operations of a history that did not throw *)
Fixpoint ok_ops (ops : list op) (st : state) : list op :=
  match ops with
  | [] => []
  | o :: r => match step o st with Some st' => o :: ok_ops r st' | None => ok_ops r st end
  end.

Definition init (nreg : nat) : state := mkSt [] (repeat hempty nreg).

(* ---------------- the value-semantics model: every container is its own list of batches ---------------- *)
Definition astate := list (Sh * @data A).
Definition aget (a : astate) (r : nat) : Sh * @data A := nth r a (shape0, []).
Definition avalid (a : astate) (r : nat) : bool := r <? length a.

Definition abs (st : state) : astate :=
  map (fun h => (h_shape h, contents_of (st_heap st) (h_ids h))) (st_handles st).

Definition astep (o : op) (a : astate) : option astate :=
  match o with
  | OCreate r s l m =>
    if avalid a r then match create l m with Some d => Some (upd r (s, d) a) | None => None end else None
  | OCopy r q => if avalid a r && avalid a q then Some (upd q (aget a r) a) else None
  | OClear r => if avalid a r then Some (upd r (shape0, []) a) else None
  | OSubset r q idx =>
    if avalid a r && avalid a q then
      match indexed_subset idx (snd (aget a r)) with
      | Some d => Some (upd q (fst (aget a r), d) a)
      | None => None
      end
    else None
  | OSubset3 r q t idx =>
    if avalid a r && avalid a q && avalid a t && negb (r =? q) && negb (r =? t) && negb (q =? t) then
      let d := snd (aget a r) in
      match indexed_subset idx d, indexed_subset (complement idx (length d)) d with
      | Some x, Some y => Some (upd t (fst (aget a r), y) (upd q (fst (aget a r), x) a))
      | _, _ => None
      end
    else None
  | OSplice r q b =>
    if avalid a r && avalid a q && negb (r =? q) then
      match splice b (snd (aget a r)) with
      | Some (x, y) => Some (upd q (fst (aget a r), y) (upd r (fst (aget a r), x) a))
      | None => None
      end
    else None
  | OAppend r q =>
    if avalid a r && avalid a q && negb (r =? q)
    then Some (upd r (fst (aget a r), append (snd (aget a r)) (snd (aget a q))) a)
    else None
  | OPushBack r q b =>
    if avalid a r && avalid a q && (b <? length (snd (aget a q)))
    then Some (upd r (fst (aget a r), append (snd (aget a r)) [nth b (snd (aget a q)) []]) a)
    else None
  | OWrite _ _ _ | OWriteBatch _ _ _ _ => None       (* not a structural operation *)
  | OMakeIndep r => if avalid a r then Some a else None
  | ORepartition r szs =>
    if avalid a r then
      match repartition szs (snd (aget a r)) with
      | Some d => Some (upd r (fst (aget a r), d) a)
      | None => None
      end
    else None
  | OSplitBatch r b k =>
    if avalid a r then
      match split_batch b k (snd (aget a r)) with
      | Some d => Some (upd r (fst (aget a r), d) a)
      | None => None
      end
    else None
  | OReorder r idx =>
    if avalid a r then
      match reorder dflt idx (snd (aget a r)) with
      | Some d => Some (upd r (fst (aget a r), d) a)
      | None => None
      end
    else None
  | ORegroup r order bs =>
    if avalid a r && forallb (fun i => i <? nelems (snd (aget a r))) order && (sum bs =? length order)
    then Some (upd r (fst (aget a r), regroup dflt order bs (snd (aget a r))) a)
    else None
  end.

Fixpoint arun (ops : list op) (a : astate) : option astate :=
  match ops with
  | [] => Some a
  | o :: r => match astep o a with Some a' => arun r a' | None => None end
  end.

(* value-semantics write: only the container written through changes *)
Definition awrite_batch (a : astate) (r b j : nat) (v : A) : astate :=
  let d := snd (aget a r) in upd r (fst (aget a r), upd b (upd j v (nth b d [])) d) a.

(* the operations that start with SHARK_RUNTIME_CHECK(isIndependent(), "Container is not Independent") *)
Definition guarded (o : op) : option nat :=
  match o with
  | OSplice r _ _ | ORepartition r _ | OSplitBatch r _ _ => Some r
  | _ => None
  end.

(* (c) where the element shape goes: a function of the operation alone (old = the shapes before) *)
Definition shape_after (o : op) (old : nat -> Sh) (y : nat) : Sh :=
  match o with
  | OCreate r s _ _ => if y =? r then s else old y
  | OCopy r q | OSubset r q _ | OSplice r q _ => if y =? q then old r else old y
  | OClear r => if y =? r then shape0 else old y
  | OSubset3 r q t _ => if (y =? q) || (y =? t) then old r else old y
  | _ => old y
  end.

(* the operations that hand the batches of container x to another container *)
Definition exports (o : op) (x : nat) : bool :=
  match o with
  | OCopy r q => (r =? x) && negb (q =? x)
  | OSubset r q _ => (r =? x) && negb (q =? x)
  | OSubset3 r _ _ _ => r =? x
  | OAppend r q => (q =? x) || (r =? x)
  | _ => false
  end.
(* the operations that replace the batch list of container x by pointers taken from another container *)
Definition imports (o : op) (x : nat) : bool :=
  match o with
  | OCopy r q => (q =? x) && negb (r =? x)
  | OSubset r q _ => (q =? x)
  | OSubset3 _ q t _ => (q =? x) || (t =? x)
  | OSplice r q _ => false
  | OAppend r q => r =? x
  | _ => false
  end.

(* ---- compositions used by the fold constructors and by DataView (each is a short history of the operations above) ---- *)

(* createCVIndexed(R[r], k, idx, m) assigned to the fold object whose dataset is handle fd:
   the reorganised set gets new batches and is swapped into R[r]; CVFolds(set, partitionStart) keeps a COPY of the
   set (pointers) *)
Definition cv_indexed_shared (r fd : nat) (idx : list nat) (k m : nat) (st : state) : option (state * list (list nat)) :=
  let d := contents st r in
  if negb (length idx =? nelems d) || negb (forallb (fun i => i <? k) idx) then None else
  match batch_partitioning (map (count_eq idx) (seq 0 k)) m 0 with
  | None => None
  | Some (starts, bs) =>
    match step (ORegroup r (indexed_order idx k) bs) st with
    | Some st1 =>
      match step (OCopy r fd) st1 with
      | Some st2 => Some (st2, folds_from_starts starts (length bs))
      | None => None
      end
    | None => None
    end
  end.

(* CVFolds::validation(p) / training(p) assigned to R[q]: indexedSubset of the dataset kept by the fold object *)
Definition fold_validation_shared (fd q : nat) (folds : list (list nat)) (p : nat) : op :=
  OSubset fd q (nth p folds []).
Definition fold_training_shared (fd q : nat) (folds : list (list nat)) (p : nat) (st : state) : op :=
  OSubset fd q (complement (nth p folds []) (length (h_ids (hnd st fd)))).

(* DataView(R[r]) keeps a copy of the dataset (pointers) in handle vd; view[i] = v writes through the index triple
   (batch, positionInBatch, _) built by the constructor *)
Definition view_shared (r vd : nat) : op := OCopy r vd.
Definition view_write (vd i : nat) (v : A) (st : state) : option op :=
  match nth_error (view_of (contents st vd)) i with
  | Some (b, j, _) => Some (OWriteBatch vd b j v)
  | None => None
  end.

End Heap.

Arguments handle : clear implicits.
Arguments state : clear implicits.
Arguments op : clear implicits.
Arguments astate : clear implicits.
