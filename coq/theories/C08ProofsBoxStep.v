(* C08 — BoxConstrainedProblem::updateSMO (single-variable step i = j through solveQuadraticEdge, two-variable
   step through solveQuadratic2DBox, gradient update over the active set, flag update) keeps
   g = lin - K alpha on the active set, the box and the bound flags, leaves everything else alone and never
   decreases the dual objective; lifted to every history of the box-constrained solver without shrinking.
   Needs only: K symmetric with non-negative diagonal (true of every kernel matrix).  Axiom-free. *)
From Coq Require Import QArith Qminmax Lqa Arith Bool List Lia.
From SharkV Require Import C08Model C08Defs C08Aux C08Proofs C08ProofsBox.
Import ListNotations.
Open Scope Q_scope.

Section BoxStep.
Variable n : nat.
Variable K0 : nat -> nat -> Q.
Hypothesis Hsym : Ksym K0.
Hypothesis Hdiag : forall p, 0 <= K0 p p.

Local Notation Kq := (Kq K0).

Lemma diag_nonneg (s : qst) a : 0 <= diag K0 s a.
Proof. unfold diag, K. apply Hdiag. Qed.

(* flags after set_flags on i (and j) of a state whose alpha was updated at i (and j) only *)
Lemma flags_after (s : qst) (al g : nat -> Q) i j :
  Inv_flags n s -> (forall a, a <> i -> a <> j -> al a = alpha s a) ->
  Inv_flags n (set_flags qops (set_flags qops (with_alpha_grad s al g) i) j).
Proof.
  intros F Hoth a Ha. unfold set_flags, with_alpha_grad.
  cbn [alpha grad gedge lin lo hi perm fl fu active unshr o_eqb qops]. unfold updf.
  destruct (Nat.eqb_spec a j) as [->|Naj]; [auto|].
  destruct (Nat.eqb_spec a i) as [->|Nai]; [auto|].
  rewrite (Hoth a Nai Naj). apply F; assumption.
Qed.

Lemma flags_after1 (s : qst) (al g : nat -> Q) i :
  Inv_flags n s -> (forall a, a <> i -> al a = alpha s a) ->
  Inv_flags n (set_flags qops (with_alpha_grad s al g) i).
Proof.
  intros F Hoth a Ha. unfold set_flags, with_alpha_grad.
  cbn [alpha grad gedge lin lo hi perm fl fu active unshr o_eqb qops]. unfold updf.
  destruct (Nat.eqb_spec a i) as [->|Nai]; [auto|].
  rewrite (Hoth a Nai). apply F; assumption.
Qed.

(* what one BoxConstrainedProblem::updateSMO does to the state *)
Lemma box_update_char (s : qst) i j :
  (i < n)%nat -> (j < n)%nat -> Inv_box n s -> Inv_flags n s ->
  let s' := box_update qops K0 s i j in
  exists mi mj,
    (i = j -> mj == 0) /\
    (forall a, alpha s' a == two_pt (alpha s) i j mi mj a) /\
    (forall a, a <> i -> a <> j -> alpha s' a = alpha s a) /\
    (forall a, (a < active s)%nat -> grad s' a == grad s a - (mi * Kq s i a + mj * Kq s j a)) /\
    (forall a, ~ (a < active s)%nat -> grad s' a = grad s a) /\
    lin s' = lin s /\ lo s' = lo s /\ hi s' = hi s /\ perm s' = perm s /\ active s' = active s /\
    unshr s' = unshr s /\ gedge s' = gedge s /\
    Inv_flags n s' /\
    lo s i <= alpha s' i /\ alpha s' i <= hi s i /\ lo s j <= alpha s' j /\ alpha s' j <= hi s j /\
    0 <= mi * grad s i + mj * grad s j
         - (1 # 2) * (mi * mi * Kq s i i + 2 * mi * mj * Kq s i j + mj * mj * Kq s j j).
Proof.
  intros Hi Hj B F s'. subst s'. unfold box_update.
  destruct (B i Hi) as [Bi1 Bi2]. destruct (B j Hj) as [Bj1 Bj2].
  pose proof (bmin_lo n s i Hi F) as Li. pose proof (bmax_hi n s i Hi F) as Ui.
  pose proof (bmin_lo n s j Hj F) as Lj. pose proof (bmax_hi n s j Hj F) as Uj.
  destruct (Nat.eqb_spec i j) as [Eij|Nij].
  - (* single-variable step *)
    subst j.
    set (a' := solve_edge qops (alpha s i) (grad s i) (diag K0 s i) (bmin s i) (bmax s i)).
    assert (Bm : bmin s i <= alpha s i) by lra. assert (BM : alpha s i <= bmax s i) by lra.
    destruct (solve_edge_in_box (alpha s i) (grad s i) (diag K0 s i) (bmin s i) (bmax s i) ltac:(lra)) as [I1 I2].
    pose proof (solve_edge_gain_nonneg_all (alpha s i) (grad s i) (diag K0 s i) (bmin s i) (bmax s i) Bm BM) as G.
    fold a' in I1, I2, G.
    exists (a' - alpha s i), 0.
    cbn [o_sub o_mul o_add qops].
    assert (AL : forall a, updf (alpha s) i a' a == two_pt (alpha s) i i (a' - alpha s i) 0 a).
    { intros a. unfold two_pt, updf, delta. destruct (Nat.eqb_spec a i) as [->|]; lra. }
    assert (OT : forall a, a <> i -> updf (alpha s) i a' a = alpha s a).
    { intros a Na. unfold updf. destruct (Nat.eqb_spec a i); [congruence|reflexivity]. }
    assert (AI : updf (alpha s) i a' i = a') by (unfold updf; rewrite Nat.eqb_refl; reflexivity).
    splits; try reflexivity;
      unfold set_flags, with_alpha_grad; cbn [alpha grad gedge lin lo hi perm fl fu active unshr].
    + exact AL.
    + intros a Na _. apply OT; exact Na.
    + intros a Ha. apply Nat.ltb_lt in Ha. rewrite Ha. unfold Kq. ring.
    + intros a Ha. destruct (Nat.ltb_spec a (active s)); [contradiction|reflexivity].
    + apply flags_after1; [exact F|exact OT].
    + rewrite AI. lra.
    + rewrite AI. lra.
    + rewrite AI. lra.
    + rewrite AI. lra.
    + unfold gain1 in G. unfold diag in G. fold (Kq s i i) in G.
      set (m := a' - alpha s i) in *. lra.
  - (* two-variable step *)
    destruct (solve_2d qops (alpha s i) (alpha s j) (grad s i) (grad s j) (diag K0 s i) (K K0 s i j) (diag K0 s j)
                       (bmin s i) (bmax s i) (bmin s j) (bmax s j)) as [ai aj] eqn:ES.
    pose proof (solve_2d_in_box (alpha s i) (alpha s j) (grad s i) (grad s j) (diag K0 s i) (K K0 s i j) (diag K0 s j)
                  (bmin s i) (bmax s i) (bmin s j) (bmax s j) ltac:(lra) ltac:(lra)) as IB.
    pose proof (box2d_gain_nonneg (alpha s i) (alpha s j) (grad s i) (grad s j) (diag K0 s i) (K K0 s i j) (diag K0 s j)
                  (bmin s i) (bmax s i) (bmin s j) (bmax s j) ltac:(lra) ltac:(lra) ltac:(lra) ltac:(lra)
                  (diag_nonneg s i) (diag_nonneg s j)) as G.
    cbv zeta in IB, G. rewrite ES in IB, G. cbn [fst snd] in IB, G.
    destruct IB as (I1 & I2 & I3 & I4).
    exists (ai - alpha s i), (aj - alpha s j).
    cbn [o_sub o_mul o_add qops].
    assert (Nji : j <> i) by congruence.
    assert (AL : forall a, updf (updf (alpha s) i ai) j aj a == two_pt (alpha s) i j (ai - alpha s i) (aj - alpha s j) a).
    { intros a. unfold two_pt, updf, delta.
      destruct (Nat.eqb_spec a j) as [->|Naj].
      - destruct (Nat.eqb_spec j i); [congruence|]. lra.
      - destruct (Nat.eqb_spec a i) as [->|Nai]; lra. }
    assert (OT : forall a, a <> i -> a <> j -> updf (updf (alpha s) i ai) j aj a = alpha s a).
    { intros a Nai Naj. unfold updf. destruct (Nat.eqb_spec a j); [congruence|].
      destruct (Nat.eqb_spec a i); [congruence|reflexivity]. }
    assert (AI : updf (updf (alpha s) i ai) j aj i = ai).
    { unfold updf. destruct (Nat.eqb_spec i j); [congruence|]. rewrite Nat.eqb_refl. reflexivity. }
    assert (AJ : updf (updf (alpha s) i ai) j aj j = aj) by (unfold updf; rewrite Nat.eqb_refl; reflexivity).
    splits; try reflexivity;
      unfold set_flags, with_alpha_grad; cbn [alpha grad gedge lin lo hi perm fl fu active unshr].
    + intros E; congruence.
    + exact AL.
    + exact OT.
    + intros a Ha. apply Nat.ltb_lt in Ha. rewrite Ha. unfold Kq. ring.
    + intros a Ha. destruct (Nat.ltb_spec a (active s)); [contradiction|reflexivity].
    + apply flags_after; [exact F|exact OT].
    + rewrite AI. lra.
    + rewrite AI. lra.
    + rewrite AJ. lra.
    + rewrite AJ. lra.
    + rewrite gain2_q in G. unfold diag in G. fold (Kq s i i) (Kq s i j) (Kq s j j) in G.
      set (mi := ai - alpha s i) in *. set (mj := aj - alpha s j) in *. lra.
Qed.

(* ---- the BoxConstrainedProblem step keeps the invariants and does not lose objective ---- *)
Theorem box_update_preserves (s : qst) i j :
  (i < active s)%nat -> (j < active s)%nat -> (active s <= n)%nat ->
  Inv_grad n K0 s -> Inv_box n s -> Inv_flags n s ->
  let s' := box_update qops K0 s i j in
  Inv_grad n K0 s' /\ Inv_box n s' /\ Inv_flags n s' /\
  obj n K0 s <= obj n K0 s' /\
  (forall a, a <> i -> a <> j -> alpha s' a = alpha s a) /\
  lin s' = lin s /\ lo s' = lo s /\ hi s' = hi s /\ perm s' = perm s /\ active s' = active s /\
  unshr s' = unshr s /\ gedge s' = gedge s /\ (forall a, ~ (a < active s)%nat -> grad s' a = grad s a).
Proof.
  intros Hi Hj Hact IG B F s'.
  assert (Hi' : (i < n)%nat) by lia. assert (Hj' : (j < n)%nat) by lia.
  destruct (box_update_char s i j Hi' Hj' B F) as
    (mi & mj & Hz & Hal & Hoth & Hg & Hg' & El & Elo & Ehi & Ep & Ea & Eu & Ee & F' & Bi1 & Bi2 & Bj1 & Bj2 & GN).
  fold s' in Hal, Hoth, Hg, Hg', El, Elo, Ehi, Ep, Ea, Eu, Ee, F', Bi1, Bi2, Bj1, Bj2.
  assert (EK : forall a b, Kq s' a b = Kq s a b) by (intros; unfold C08Defs.Kq, K; rewrite Ep; reflexivity).
  assert (EKv : forall a, Kalpha n K0 s' a == Kalpha n K0 s a + mi * Kq s i a + mj * Kq s j a).
  { intros a. unfold Kalpha at 1.
    rewrite (sumn_ext n (fun b => Kq s' a b * alpha s' b) (fun b => Kq s a b * two_pt (alpha s) i j mi mj b)) by
      (intros b Hb; rewrite EK, Hal; reflexivity).
    fold (Kv n (Kq s) (two_pt (alpha s) i j mi mj) a).
    rewrite Kv_two_pt by assumption. rewrite Kalpha_Kv.
    rewrite (Kq_sym K0 Hsym s a i), (Kq_sym K0 Hsym s a j). ring. }
  splits; auto.
  - intros a Ha. rewrite Ea in Ha. rewrite (Hg a Ha), El, EKv, (IG a Ha). ring.
  - intros a Ha. rewrite Elo, Ehi. destruct (B a Ha) as [B1 B2].
    destruct (Nat.eq_dec a i) as [->|Ni]; [|destruct (Nat.eq_dec a j) as [->|Nj]].
    + split; assumption.
    + split; assumption.
    + rewrite (Hoth a Ni Nj). auto.
  - assert (EO : obj n K0 s' - obj n K0 s ==
                 mi * grad s i + mj * grad s j
                 - (1 # 2) * (mi * mi * Kq s i i + 2 * mi * mj * Kq s i j + mj * mj * Kq s j j)).
    { rewrite !obj_objf. rewrite El.
      assert (E1 : objf n (Kq s') (lin s) (alpha s') == objf n (Kq s) (lin s) (two_pt (alpha s) i j mi mj)).
      { unfold objf, Kv.
        rewrite (sumn_ext n (fun a => lin s a * alpha s' a) (fun a => lin s a * two_pt (alpha s) i j mi mj a))
          by (intros; rewrite Hal; reflexivity).
        rewrite (sumn_ext n (fun a => alpha s' a * sumn n (fun b => Kq s' a b * alpha s' b))
                            (fun a => two_pt (alpha s) i j mi mj a * sumn n (fun b => Kq s a b * two_pt (alpha s) i j mi mj b))).
        - reflexivity.
        - intros a Ha. rewrite Hal.
          rewrite (sumn_ext n (fun b => Kq s' a b * alpha s' b) (fun b => Kq s a b * two_pt (alpha s) i j mi mj b))
            by (intros; rewrite EK, Hal; reflexivity).
          reflexivity. }
      rewrite E1.
      rewrite (objf_two_pt n (Kq s) (Kq_sym K0 Hsym s) (lin s) (alpha s) i j mi mj Hi' Hj').
      rewrite <- !Kalpha_Kv. rewrite (IG i Hi), (IG j Hj). ring. }
    lra.
Qed.

(* ---- histories of the box-constrained solver (kind = false) without shrinking ---- *)
Definition wf_op_box (s : qst) (o : op Q) : Prop :=
  match o with
  | OSmo i j => (i < active s)%nat /\ (j < active s)%nat
  | _ => True
  end.
Fixpoint wf_run_box (s : qst) (ops : list (op Q)) : Prop :=
  match ops with
  | [] => True
  | o :: r => wf_op_box s o /\ wf_run_box (stepQ n K0 false false s o) r
  end.

Lemma step_noshrink_box s o :
  Inv_noshrink n K0 s -> wf_op_box s o ->
  let s' := stepQ n K0 false false s o in
  Inv_noshrink n K0 s' /\ obj n K0 s <= obj n K0 s' /\
  lin s' = lin s /\ lo s' = lo s /\ hi s' = hi s /\ perm s' = perm s.
Proof.
  intros (Ha & IG & B & F) W. destruct o as [i j|e|]; cbn [stepQ step].
  - destruct W as (Wi & Wj).
    unfold smo_step. cbn [edge_update negb orb].
    assert (ES : (if (i =? j)%nat then box_update qops K0 s i j else box_update qops K0 s i j) = box_update qops K0 s i j)
      by (destruct (i =? j)%nat; reflexivity).
    rewrite ES.
    destruct (box_update_preserves s i j Wi Wj ltac:(lia) IG B F) as
      (IG' & B' & F' & O' & _ & El & Elo & Ehi & Ep & Ea & _).
    splits; auto. unfold Inv_noshrink. splits; auto. congruence.
  - unfold shrink. cbn [negb]. splits; try reflexivity; try lra. unfold Inv_noshrink; auto.
  - unfold unshrink. rewrite Ha, Nat.eqb_refl. splits; try reflexivity; try lra. unfold Inv_noshrink; auto.
Qed.

Theorem run_noshrink_box ops : forall s,
  Inv_noshrink n K0 s -> wf_run_box s ops ->
  let s' := runQ n K0 false false s ops in
  Inv_noshrink n K0 s' /\ obj n K0 s <= obj n K0 s' /\
  lin s' = lin s /\ lo s' = lo s /\ hi s' = hi s /\ perm s' = perm s.
Proof.
  induction ops as [|o r IH]; intros s I W; cbn [runQ run fold_left].
  - splits; auto; try reflexivity; lra.
  - destruct W as [W1 W2].
    destruct (step_noshrink_box s o I W1) as (I1 & O1 & E1 & E2 & E3 & E4).
    destruct (IH _ I1 W2) as (I2 & O2 & F1 & F2 & F3 & F4).
    unfold runQ, stepQ, run in *. cbv zeta in *. splits; auto.
    + eapply Qle_trans; [exact O1|exact O2].
    + rewrite F1; exact E1.
    + rewrite F2; exact E2.
    + rewrite F3; exact E3.
    + rewrite F4; exact E4.
Qed.

End BoxStep.

(* the hypotheses are satisfiable: two points, K = identity (symmetric, diagonal 1 >= 0), bias-free C-SVM cold
   start with C = 1 (labels +1, -1: boxes [0,1] and [-1,0]), all variables active, working sets (0,1) and (0,0) *)
Definition exb_K0 (p q : nat) : Q := if (p =? q)%nat then 1 else 0.
Definition exb_s : qst :=
  mk (fun _ => 0) (fun a => if (a =? 0)%nat then 1 else - (1))
     (fun a => if (a =? 0)%nat then 1 else - (1)) (fun a => if (a =? 0)%nat then 1 else - (1))
     (fun a => if (a =? 0)%nat then 0 else - (1)) (fun a => if (a =? 0)%nat then 1 else 0)
     (fun a => a) (fun a => (a =? 0)%nat) (fun a => negb (a =? 0)%nat) 2 false.

Example exb_hyps : Ksym exb_K0 /\ (forall p, 0 <= exb_K0 p p) /\ Inv_noshrink 2 exb_K0 exb_s /\
  wf_run_box 2 exb_K0 exb_s [OSmo 0%nat 1%nat; OSmo 0%nat 0%nat].
Proof.
  split; [|split; [|split]].
  - intros p q. unfold exb_K0. rewrite (Nat.eqb_sym q p). reflexivity.
  - intros p. unfold exb_K0. rewrite Nat.eqb_refl. discriminate.
  - unfold Inv_noshrink. split; [reflexivity|]. split; [|split].
    + intros a Ha. cbn in Ha. assert (a = 0 \/ a = 1)%nat as [->| ->] by lia; vm_compute; reflexivity.
    + intros a Ha. assert (a = 0 \/ a = 1)%nat as [->| ->] by lia; split; vm_compute; discriminate.
    + intros a Ha. assert (a = 0 \/ a = 1)%nat as [->| ->] by lia; split; vm_compute; reflexivity.
  - cbn [wf_run_box wf_op_box]. split; [split; vm_compute; lia|]. split; [|exact I].
    split; vm_compute; lia.
Qed.

Print Assumptions box_update_preserves.
Print Assumptions run_noshrink_box.
