(* C13 — with HOY proved (C13HoyProofs.v) the theorems that carried "not 4 objectives, or HOY = hv_spec" hold
   unconditionally for the extracted instance [hoy] in the HOY slot.  Axiom-free. *)
From Coq Require Import List ZArith Lia Bool Arith Permutation Sorted.
From SharkV Require Import ListAux C13Model C13Proofs C13ProofsFast C13ProofsContrib C13Wfg C13WfgProofs C13Disp C13DispProofs.
From SharkV Require Import C13ContribMd C13ContribMdProofs C13Contrib3d C13ContribNoref C13ContribNorefProofs.
From SharkV Require Import C13Hoy C13HoyProofs.
Import ListNotations.

Lemma hoy_slot : forall ref S, length ref = 4 -> below_ref ref S -> hoy ref S = hv_spec ref S.
Proof. intros ref S H HB. apply hoy_correct; auto. destruct ref; [discriminate|congruence]. Qed.

Theorem hv_dispatch_hoy_correct ref S : below_ref ref S -> hv_dispatch hoy ref S = hv_spec ref S.
Proof. apply hv_dispatch_correct_all. exact hoy_slot. Qed.

Theorem contribs_md_hoy_correct ref S : 2 <= length ref -> below_ref ref S ->
  contribs_md_inst hoy ref S = combine (contribs_spec ref S) (seq 0 (length S)).
Proof. intros H2 HB. apply contribs_md_inst_correct; auto. right. exact hoy_slot. Qed.

Theorem md_smallest_hoy_correct ref S k : 2 <= length ref -> below_ref ref S -> k <= length S ->
  let res := smallest_kv k (contribs_md_inst hoy ref S) in
  map fst res = smallest_k k (contribs_spec ref S) /\ length res = k /\ NoDup (map snd res) /\
  forall v i, In (v, i) res -> i < length S /\ v = contrib_spec ref S i.
Proof. intros H2 HB Hk. apply md_smallest_correct; auto. right. exact hoy_slot. Qed.

Theorem md_largest_hoy_correct ref S k : 2 <= length ref -> below_ref ref S -> k <= length S ->
  let res := largest_kv k (contribs_md_inst hoy ref S) in
  map fst res = largest_k k (contribs_spec ref S) /\ length res = k /\ NoDup (map snd res) /\
  forall v i, In (v, i) res -> i < length S /\ v = contrib_spec ref S i.
Proof. intros H2 HB Hk. apply md_largest_correct; auto. right. exact hoy_slot. Qed.

Lemma hoy_ok_hoy ref : hoy_ok hoy ref.
Proof. right. exact hoy_slot. Qed.

Theorem contribs_front_hoy_correct ref S : 2 <= length ref -> below_ref ref S ->
  (length ref <= 3 -> mutually_nondominated S) ->
  Permutation (contribs_front hoy ref S) (combine (contribs_spec ref S) (seq 0 (length S))).
Proof. intros. apply contribs_front_correct; auto. apply hoy_ok_hoy. Qed.

Theorem contrib_front_smallest_hoy_correct ref S k : 2 <= length ref -> below_ref ref S ->
  (length ref <= 3 -> mutually_nondominated S) -> k <= length S ->
  let res := contrib_front_smallest hoy ref S k in
  map fst res = smallest_k k (contribs_spec ref S) /\ length res = k /\ NoDup (map snd res) /\
  forall v i, In (v, i) res -> i < length S /\ v = contrib_spec ref S i.
Proof. intros. apply contrib_front_smallest_correct; auto. apply hoy_ok_hoy. Qed.

Theorem contrib_front_largest_hoy_correct ref S k : 2 <= length ref -> below_ref ref S ->
  (length ref <= 3 -> mutually_nondominated S) -> k <= length S ->
  let res := contrib_front_largest hoy ref S k in
  map fst res = largest_k k (contribs_spec ref S) /\ length res = k /\ NoDup (map snd res) /\
  forall v i, In (v, i) res -> i < length S /\ v = contrib_spec ref S i.
Proof. intros. apply contrib_front_largest_correct; auto. apply hoy_ok_hoy. Qed.

Theorem noref_front_hoy_correct largest S k d : S <> [] -> same_dim d S -> 2 <= d ->
  (d <= 3 -> mutually_nondominated S) -> k <= length S ->
  length (noref_front hoy largest S k) = k /\ NoDup (map snd (noref_front hoy largest S k)) /\
  forall v i, In (v, i) (noref_front hoy largest S k) -> i < length S /\ v = contrib_spec (implicit_ref S) S i.
Proof. intros. apply (noref_front_correct hoy largest S k d); auto. right. exact hoy_slot. Qed.
