(* C07 — certified result checker.  Definitions only (proofs: C07CertProofs.v).

   [certify] takes a quadratic program
        maximise  lin.alpha - 1/2 alpha^T K alpha   s.t.  lo <= alpha <= hi  [and sum(alpha) = target]
   (K a matrix of rationals, given as a function of the two indices), a candidate alpha (+ bias)
   and the accuracy eps, recomputes the gradient lin - K alpha ITSELF and returns true iff
     - lo <= alpha <= hi,
     - with equality constraint: |sum(alpha) - target| <= slack_eq   (the C++ result satisfies the
       equality constraint only up to rounding, hence the explicit slack),
     - the maximal KKT violation — the proved functions check_kkt_svm / check_kkt_box_upto of the
       solver model C08Model.v, evaluated on the state (alpha, recomputed gradient, flags
       alpha == lo / alpha == hi) — is <= eps,
     - with equality constraint and bias: the bias is an admissible multiplier up to eps + slack_b:
       g_a <= bias + eps + slack_b for every a below its upper bound,
       bias - eps - slack_b <= g_a for every a above its lower bound.
   Everything is exact rational arithmetic.  Inputs are doubles converted exactly, i.e. dyadic
   rationals; [qdy] keeps the accumulated sums small by cancelling common powers of two
   (qdy x == x, so it is invisible in the theorems). *)
From Coq Require Import QArith List Arith Bool.
From SharkV Require Import C08Model C08Defs C07Setup.
Import ListNotations.
Open Scope Q_scope.

(* cancel common factors of two of numerator and denominator *)
Fixpoint strip2 (p q : positive) : positive * positive :=
  match p, q with
  | xO p', xO q' => strip2 p' q'
  | _, _ => (p, q)
  end.
Definition qdy (x : Q) : Q :=
  match Qnum x with
  | Z0 => 0
  | Zpos p => let (a, b) := strip2 p (Qden x) in Zpos a # b
  | Zneg p => let (a, b) := strip2 p (Qden x) in Zneg a # b
  end.

(* sumn with normalisation after every addition *)
Fixpoint sumn_dy (m : nat) (f : nat -> Q) : Q :=
  match m with
  | O => 0
  | S k => qdy (sumn_dy k f + f k)
  end.

Fixpoint forallb_n (m : nat) (f : nat -> bool) : bool :=
  match m with
  | O => true
  | S k => forallb_n k f && f k
  end.

(* the gradient lin - K alpha, computed once per variable and stored *)
Definition cert_grad_list (n : nat) (K : nat -> nat -> Q) (lin al : nat -> Q) : list Q :=
  map (fun a => qdy (lin a - sumn_dy n (fun b => K a b * al b))) (seq 0 n).

(* the solver state the candidate corresponds to: identity permutation, everything active,
   flags as SvmProblem::updateAlphaStatus sets them (alpha == boxMin / alpha == boxMax) *)
Definition cert_state (n : nat) (lin lo hi al : nat -> Q) (gl : list Q) : qst :=
  let g := fun a => nth a gl 0 in
  mk al g g lin lo hi (fun a => a)
     (fun a => Qeq_bool (al a) (lo a)) (fun a => Qeq_bool (al a) (hi a)) n true.

Definition cert_st (n : nat) (K : nat -> nat -> Q) (lin lo hi al : nat -> Q) : qst :=
  cert_state n lin lo hi al (cert_grad_list n K lin al).

Definition box_ok (n : nat) (lo hi al : nat -> Q) : bool :=
  forallb_n n (fun a => Qle_bool (lo a) (al a) && Qle_bool (al a) (hi a)).

Definition eq_ok (n : nat) (al : nat -> Q) (target slack : Q) : bool :=
  let s := sumn_dy n al in Qle_bool (s - target) slack && Qle_bool (target - s) slack.

(* the bias is inside the interval the optimality conditions allow, up to tol *)
Definition bias_ok (n : nat) (s : qst) (b tol : Q) : bool :=
  forallb_n n (fun a => (fu s a || Qle_bool (grad s a) (b + tol)) &&
                        (fl s a || Qle_bool (b - tol) (grad s a))).

(* the value the solver compares with eps: SvmProblem::checkKKT / BoxConstrainedProblem::checkKKT *)
Definition cert_kkt (n : nat) (K : nat -> nat -> Q) (lin lo hi : nat -> Q) (eq : bool) (al : nat -> Q) : Q :=
  check_kkt qops n eq (cert_st n K lin lo hi al).

(* the multiplier of the equality constraint the near-optimality bound uses:
   the smallest gradient among the variables above their lower bound (SvmProblem::checkKKT's
   smallestDown; 1e100 when there is none) *)
Definition cert_mult (n : nat) (K : nat -> nat -> Q) (lin lo hi al : nat -> Q) : Q :=
  smallest_down qops (cert_st n K lin lo hi al) n.

(* 0 = accepted; 1 negative eps/slack, 2 box, 3 equality, 4 KKT, 5 bias *)
Definition cert_code (n : nat) (K : nat -> nat -> Q) (lin lo hi : nat -> Q) (eq : bool) (target : Q)
                     (al : nat -> Q) (hasbias : bool) (bias eps slack_eq slack_b : Q) : nat :=
  let s := cert_st n K lin lo hi al in
  if negb (Qle_bool 0 eps && Qle_bool 0 slack_eq && Qle_bool 0 slack_b) then 1%nat
  else if negb (box_ok n lo hi al) then 2%nat
  else if eq && negb (eq_ok n al target slack_eq) then 3%nat
  else if negb (Qle_bool (check_kkt qops n eq s) eps) then 4%nat
  else if eq && hasbias && negb (bias_ok n s bias (eps + slack_b)) then 5%nat
  else 0%nat.

Definition certify (n : nat) (K : nat -> nat -> Q) (lin lo hi : nat -> Q) (eq : bool) (target : Q)
                   (al : nat -> Q) (hasbias : bool) (bias eps slack_eq slack_b : Q) : bool :=
  (cert_code n K lin lo hi eq target al hasbias bias eps slack_eq slack_b =? 0)%nat.

(* the linear-kernel Gram matrix of rational data X (n points, d coordinates): K = X X^T *)
Definition gram (d : nat) (X : nat -> nat -> Q) (a b : nat) : Q :=
  sumn_dy d (fun k => X a k * X b k).

(* certification of a problem assembled by C07Setup (the matrix of the eps-SVR problem is the
   2x2 block matrix) *)
Definition certify_qp (K : nat -> nat -> Q) (p : qp Q) (target : Q) (al : nat -> Q)
                      (hasbias : bool) (bias eps slack_eq slack_b : Q) : bool :=
  certify (q_dim p) K (q_lin p) (q_lo p) (q_hi p) (q_eq p) target al hasbias bias eps slack_eq slack_b.
