(* C04 — executable models of PoolingLayer (max pooling) and ResizeLayer (cubic B-spline interpolation), definitions only,
   index level, as coded.
   Anchors:
     include/shark/Core/Images/CPU/Pooling.h               maxPooling, maxPoolingDerivative
     include/shark/Models/PoolingLayer.h                   eval, weightedInputDerivative, parameters (none)
     include/shark/Core/Images/CPU/SplineInterpolation2D.h splineInterpolation2D, splineInterpolation2DDerivative
     include/shark/Models/ResizeLayer.h                    setStructure (the sample points), eval, weightedInputDerivative
   Images are stored pixel by pixel, channels contiguous (index (i * W + j) * C + c).  Result buffers that the code
   clears and then accumulates into (`derivatives.clear()` + `+=`) are modelled exactly like that: a list of zeros
   updated in the order of the loops. *)
From Coq Require Import List Arith Bool.
From SharkV Require Import C04Model C04Conv.
Import ListNotations.
Set Implicit Arguments.

Section Pool.
Variable A : Type.
Variables (zero : A) (add mul : A -> A -> A).
Variable ltb : A -> A -> bool.       (* x < y *)

(* v(i) = f (v(i)), nothing happens outside the vector *)
Fixpoint upd (v : list A) (i : nat) (f : A -> A) : list A :=
  match v, i with
  | [], _ => []
  | x :: v', 0 => f x :: v'
  | x :: v', S i' => x :: upd v' i' f
  end.

(* ---------- max pooling ---------- *)
Record pgeo := { pH : nat; pW : nat; pC : nat; pph : nat; ppw : nat }.
Definition pool_oh (g : pgeo) : nat := pH g / pph g.
Definition pool_ow (g : pgeo) : nat := pW g / ppw g.
Definition pool_nin (g : pgeo) : nat := pH g * pW g * pC g.
Definition pool_nout (g : pgeo) : nat := pool_oh g * pool_ow g * pC g.
(* for(i = starti; i != endi; ++i) for(j = startj; j != endj; ++j) index = i * shape[1] + j *)
Definition patch (g : pgeo) (p : nat) : list nat :=
  let si := (p / pool_ow g) * pph g in
  let sj := (p mod pool_ow g) * ppw g in
  flat_map (fun i => map (fun j => i * pW g + j) (seq sj (ppw g))) (seq si (pph g)).
Definition patch_start (g : pgeo) (p : nat) : nat := (p / pool_ow g) * pph g * pW g + (p mod pool_ow g) * ppw g.

(* maxPooling: pixel = row(start); pixel = max(pixel, row(index)) over the patch; std::max(a, b) = (a < b) ? b : a *)
Definition pool_max (g : pgeo) (x : list A) (p c : nat) : A :=
  fold_left (fun mv idx => let v := get zero x (idx * pC g + c) in if ltb mv v then v else mv)
            (patch g p) (get zero x (patch_start g p * pC g + c)).
(* maxPoolingDerivative: maxIndex = start, maxVal = in(start); if(val > maxVal){ maxVal = val; maxIndex = index; } *)
Definition pool_amax (g : pgeo) (x : list A) (p c : nat) : nat :=
  snd (fold_left (fun (st : A * nat) idx => let v := get zero x (idx * pC g + c) in if ltb (fst st) v then (v, idx) else st)
                 (patch g p) (get zero x (patch_start g p * pC g + c), patch_start g p)).

Definition pool_eval_img (g : pgeo) (x : list A) : list A :=
  tab (pool_nout g) (fun q => pool_max g x (q / pC g) (q mod pC g)).
Definition pool_eval_batch (g : pgeo) (X : list (list A)) : list (list A) := map (pool_eval_img g) X.
Definition pool_eval (g : pgeo) (x : list A) : list A := nth 0 (pool_eval_batch g [x]) [].

(* derivatives.clear(); for p, for c: imageDer(maxIndex, c) += imageCoeffs(p, c) *)
Definition pool_wid_img (g : pgeo) (x coef : list A) : list A :=
  fold_left (fun der p =>
     fold_left (fun der c => upd der (pool_amax g x p c * pC g + c) (fun d => add d (get zero coef (p * pC g + c))))
               (seq 0 (pC g)) der)
    (seq 0 (pool_oh g * pool_ow g)) (zeros zero (pool_nin g)).
Definition pool_wid (g : pgeo) (X Cf : list (list A)) : list (list A) := map2 (pool_wid_img g) X Cf.
(* no parameters: parameterVector() is empty, weightedParameterDerivative resizes the gradient to 0 *)
Definition pool_params : list A := [].
Definition pool_wpd : list A := [].

(* ---------- ResizeLayer: cubic B-spline interpolation at the points of setStructure ---------- *)
Variables (sub div : A -> A -> A) (opp : A -> A).
Variable ofnat : nat -> A.          (* conversion size_t -> T *)
Variable floorn : A -> nat.         (* std::floor of a non-negative value, as an index *)
Record rgeo := { rH : nat; rW : nat; rC : nat; roh : nat; row_ : nat }.
Definition resize_nin (g : rgeo) : nat := rH g * rW g * rC g.
Definition resize_npoints (g : rgeo) : nat := roh g * row_ g.
Definition resize_nout (g : rgeo) : nat := roh g * row_ g * rC g.
(* setStructure: for i < outputShape[1], j < outputShape[0]:
     points(i * outputShape[0] + j, 0) = T(i) / outputShape[1];  points(.., 1) = T(j) / outputShape[0] *)
Definition point_y (g : rgeo) (p : nat) : A := div (ofnat (p / roh g)) (ofnat (row_ g)).
Definition point_x (g : rgeo) (p : nat) : A := div (ofnat (p mod roh g)) (ofnat (roh g)).
(* {-t3+3*t2-3*t+1, 3*t3-6*t2+4, -3*t3+3*t2+3*t+1, t3}, operations in the order of the C++ expression *)
Definition bspline (t : A) (l : nat) : A :=
  let t2 := mul t t in
  let t3 := mul t2 t in
  match l with
  | 0 => add (sub (add (opp t3) (mul (ofnat 3) t2)) (mul (ofnat 3) t)) (ofnat 1)
  | 1 => add (sub (mul (ofnat 3) t3) (mul (ofnat 6) t2)) (ofnat 4)
  | 2 => add (add (add (mul (opp (ofnat 3)) t3) (mul (ofnat 3) t2)) (mul (ofnat 3) t)) (ofnat 1)
  | _ => t3
  end.
(* {min(max(base-1,0),n-1), max(min(base,n-1),0), min(max(base+1,0),n-1), max(min(base+2,n-1),0)} *)
Definition clampi (base n l : nat) : nat :=
  match l with
  | 0 => Nat.min (base - 1) (n - 1)
  | 1 => Nat.min base (n - 1)
  | 2 => Nat.min (base + 1) (n - 1)
  | _ => Nat.min (base + 2) (n - 1)
  end.
(* tap kl = 4 * k + l of point p: (pixel index px[l] + width * py[k], weight x[l] * y[k] / 36) *)
Definition tap_index (g : rgeo) (p kl : nat) : nat :=
  let basex := floorn (mul (point_x g p) (ofnat (rW g))) in
  let basey := floorn (mul (point_y g p) (ofnat (rH g))) in
  clampi basex (rW g) (kl mod 4) + rW g * clampi basey (rH g) (kl / 4).
Definition tap_weight (g : rgeo) (p kl : nat) : A :=
  let cx := mul (point_x g p) (ofnat (rW g)) in
  let cy := mul (point_y g p) (ofnat (rH g)) in
  let tx := sub cx (ofnat (floorn cx)) in
  let ty := sub cy (ofnat (floorn cy)) in
  div (mul (bspline tx (kl mod 4)) (bspline ty (kl / 4))) (ofnat 36).

(* values.clear(); for p, for k, for l: row(v, p) += weight * row(image, index) *)
Definition resize_eval_img (g : rgeo) (x : list A) : list A :=
  tab (resize_nout g) (fun q =>
    let p := q / rC g in
    let c := q mod rC g in
    bsum zero add 16 (fun kl => mul (tap_weight g p kl) (get zero x (tap_index g p kl * rC g + c)))).
Definition resize_eval_batch (g : rgeo) (X : list (list A)) : list (list A) := map (resize_eval_img g) X.
Definition resize_eval (g : rgeo) (x : list A) : list A := nth 0 (resize_eval_batch g [x]) [].

(* results.clear(); for p, for k, for l: row(result, index) += weight * row(imageDer, p) *)
Definition resize_wid_img (g : rgeo) (coef : list A) : list A :=
  fold_left (fun res p =>
     fold_left (fun res kl =>
        fold_left (fun res c =>
           upd res (tap_index g p kl * rC g + c) (fun d => add d (mul (tap_weight g p kl) (get zero coef (p * rC g + c)))))
          (seq 0 (rC g)) res)
       (seq 0 16) res)
    (seq 0 (resize_npoints g)) (zeros zero (resize_nin g)).
Definition resize_wid (g : rgeo) (Cf : list (list A)) : list (list A) := map (resize_wid_img g) Cf.

End Pool.
