(* C04 — generic lemmas about the polymorphic model of C04Model.v: the evaluation code commutes with every
   homomorphism of the arithmetic (so running it on symbolic expressions and interpreting the result equals
   interpreting first), and evaluation only depends on weights, offsets and the forward part of the activations. *)
From Coq Require Import List Arith.
From SharkV Require Import C04Model.
Import ListNotations.

(* coefficient-weighted sum of a batch of outputs *)
Section WSum.
Variable B : Type.
Variables (z : B) (a m : B -> B -> B).
Fixpoint wsum (C Y : list (list B)) : B :=
  match C, Y with c :: C', y :: Y' => a (dot z a m c y) (wsum C' Y') | _, _ => z end.
End WSum.
Arguments wsum {B} z a m C Y.

Section Hom.
Variables B1 B2 : Type.
Variables (z1 : B1) (a1 m1 : B1 -> B1 -> B1) (z2 : B2) (a2 m2 : B2 -> B2 -> B2).
Variable h : B1 -> B2.
Hypothesis hz : h z1 = z2.
Hypothesis ha : forall x y, h (a1 x y) = a2 (h x) (h y).
Hypothesis hm : forall x y, h (m1 x y) = m2 (h x) (h y).

Lemma hom_dot u v : h (dot z1 a1 m1 u v) = dot z2 a2 m2 (map h u) (map h v).
Proof. revert v; induction u as [|x u IH]; intros [|y v]; simpl; auto. rewrite ha, hm, IH. reflexivity. Qed.

Lemma hom_vadd u v : map h (vadd a1 u v) = vadd a2 (map h u) (map h v).
Proof. revert v; induction u as [|x u IH]; intros [|y v]; simpl; auto. rewrite ha, IH. reflexivity. Qed.

Lemma hom_mv W x : map h (mv z1 a1 m1 W x) = mv z2 a2 m2 (map (map h) W) (map h x).
Proof. unfold mv. rewrite !map_map. apply map_ext. intros w. apply hom_dot. Qed.

Lemma hom_addoff y b : map h (addoff a1 y b) = addoff a2 (map h y) (map h b).
Proof. destruct b; simpl; auto. destruct y; simpl; auto. rewrite ha, hom_vadd. reflexivity. Qed.

(* image of a layer: weights and offsets mapped, a given activation on the other side *)
Definition hl (ac : act B2) (l : layer B1) : layer B2 := {| lW := map (map h) (lW l); lb := map h (lb l); lact := ac |}.

Lemma hom_lin_eval ac l x :
  (forall u, aphi (lact l) u = u) -> (forall u, aphi ac u = u) ->
  map h (lin_eval z1 a1 m1 l x) = lin_eval z2 a2 m2 (hl ac l) (map h x).
Proof. intros H1 H2. unfold lin_eval, lin_pre. rewrite H1, H2. simpl. rewrite hom_addoff, hom_mv. reflexivity. Qed.

Lemma hom_wsum C Y : h (wsum z1 a1 m1 C Y) = wsum z2 a2 m2 (map (map h) C) (map (map h) Y).
Proof. revert Y; induction C as [|c C IH]; intros [|y Y]; simpl; auto. rewrite ha, hom_dot, IH. reflexivity. Qed.

Definition hN (ac : act B2) (N : net B1) : net B2 := map (fun e => (fst (fst e), snd (fst e), hl ac (snd e))) N.

Lemma hom_net_eval ac N : (forall u, aphi ac u = u) -> (forall e, In e N -> forall u, aphi (lact (snd e)) u = u) ->
  forall x, map h (net_eval z1 a1 m1 N x) = net_eval z2 a2 m2 (hN ac N) (map h x).
Proof.
  intros Hac. induction N as [|[[i o] l] N IH]; intros H x; simpl; auto.
  rewrite IH by (intros e He; apply H; right; auto).
  rewrite (hom_lin_eval ac l x); auto. apply (H (i, o, l)). left; auto.
Qed.
End Hom.

Section Eval.
Variable B : Type.
Variables (z : B) (a m : B -> B -> B).

Lemma dot_comm_gen (mc : forall x y, m x y = m y x) u v : dot z a m u v = dot z a m v u.
Proof. revert v; induction u as [|x u IH]; intros [|y v]; simpl; auto. rewrite IH, mc. reflexivity. Qed.

Lemma lin_batch_is_map_gen (mc : forall x y, m x y = m y x) (l : layer B) X :
  lin_eval_batch z a m l X = map (lin_eval z a m l) X.
Proof.
  unfold lin_eval_batch, lin_pre_batch, lin_eval, lin_pre, mm_nt, mv. rewrite !map_map.
  apply map_ext. intros x. do 2 f_equal. apply map_ext. intros w. apply dot_comm_gen; auto.
Qed.

Lemma net_batch_is_map_gen (mc : forall x y, m x y = m y x) (N : net B) X :
  net_eval_batch z a m N X = map (net_eval z a m N) X.
Proof.
  revert X; induction N as [|[[i o] l] N IH]; intros X; simpl.
  - symmetry; apply map_id.
  - rewrite IH, lin_batch_is_map_gen, map_map; auto.
Qed.

(* evaluation depends only on weights, offsets and the forward part of the activation *)
Lemma lin_eval_ext (l1 l2 : layer B) x :
  lW l1 = lW l2 -> lb l1 = lb l2 -> (forall u, aphi (lact l1) u = aphi (lact l2) u) ->
  lin_eval z a m l1 x = lin_eval z a m l2 x.
Proof. intros HW Hb Ha. unfold lin_eval, lin_pre. rewrite HW, Hb, Ha. reflexivity. Qed.

Lemma net_eval_map_ext {E} (f g : E -> nat * nat * layer B) (N : list E) :
  (forall e, In e N -> lW (snd (f e)) = lW (snd (g e)) /\ lb (snd (f e)) = lb (snd (g e)) /\
                       forall u, aphi (lact (snd (f e))) u = aphi (lact (snd (g e))) u) ->
  forall x, net_eval z a m (map f N) x = net_eval z a m (map g N) x.
Proof.
  induction N as [|e N IH]; intros H x; simpl; auto.
  destruct (H e (or_introl eq_refl)) as [HW [Hb Ha]].
  destruct (f e) as [[i1 o1] l1], (g e) as [[i2 o2] l2]. simpl in *.
  rewrite (lin_eval_ext l1 l2 x HW Hb Ha). apply IH. intros e' He'. apply H. right; auto.
Qed.
End Eval.
