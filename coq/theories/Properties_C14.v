(* C14 — Multi-objective optimizers keep a consistent, feasible, elitist population.
   Only statements + `exact`; executable models (definitions only): C14Model.v (selection, one-at-a-time loop, penalizing
   evaluator, steady-state step), C14Ind.v (epsilon / hypervolume / crowding indicators), C14Nsga3.v, C14Var.v (SBX, polynomial
   mutation, tournament, elitist selection), C14Loop.v (generation loop), C14Init.v (init(function, startingPoints) + doInit of
   the seven optimisers); proofs: C14Proofs.v, C14IndProofs.v, C14CrowdProofs.v, C14Nsga3Proofs.v, C14VarProofs.v,
   C14LoopProofs.v, C14InitProofs.v; dominance / rank definition / hv_spec /
   contrib2d are imported from C13Model.v, C13Proofs.v, C13ProofsContrib.v.

   PROVED here (axiom-free; lists, nat, Z, Q; all population sizes, dimensions, mu):
     * the model of IndicatorBasedSelection::operator() (whole fronts deselected from the worst rank
       while the rest still has >= mu members, then one leastContributors(front, archive, popSize-mu)
       call) marks exactly mu individuals and never keeps a worse-ranked individual while
       discarding a better-ranked one — for ANY indicator whose leastContributors returns K
       distinct indices into the front it is given (valid_oracle), and for any rank list with
       ranks >= 1, in particular the rank definition of C13;
     * the one-at-a-time leastContributors loop of HypervolumeIndicator / AdditiveEpsilonIndicator /
       CrowdingDistance is such a valid oracle for ANY leastContributor returning an index into its
       non-empty argument;
     * PenalizingEvaluator: unpenalized = f(repaired point) (also with re-evaluations of a
       deterministic f), penalized = unpenalized + alpha*|t-s|^2, both = f(s) for feasible s;
       the box handler's closest point is feasible and is the identity on feasible points;
     * steady-state step (push offspring, select mu, overwrite the first unselected parent): if the
       indicator's leastContributor returns an index of minimal EXACT hypervolume contribution
       w.r.t. the reference point r (contribution measured inside the front it is given), then
       hv_spec r never decreases and the size stays mu; such a leastContributor exists (hv_lc).
     * the indicator classes AS CODED (C14Ind.v, run next to the C++ on every check, stream I and field mown= of stream S):
       - AdditiveEpsilonIndicator: leastContributors is a valid oracle; the inner loop computes
         min_{j<>i} max_k (f_j[k] - f_i[k]) (C14_epsilon_value_is_definition, C14_max_diff_is_largest_component) and
         leastContributor is the FIRST index of minimal value (C14_epsilon_least_contributor_first_minimum);
       - HypervolumeIndicator (dispatch on setReference / number of objectives, 2-D routines = C13's contrib2d_ref /
         contrib2d_noref + the 2-slot heap of bestContributors(front,1) + appendExtremePoints): valid oracle with and
         without reference point for any 3-D/MD routine that returns an index into its argument; for 2 objectives with
         reference point it returns an index of minimal EXACT contribution contrib_spec on every mutually non-dominated
         front below the reference point (uses C13_contrib2d_value_per_index);
       - CrowdingDistance (model over an abstract carrier: floats in the driver): valid oracle for every carrier,
         comparison and sort routine; rational instance = the DEFINITION of the crowding distance for every sort routine
         that returns a key-ordered permutation (std::sort leaves ties unspecified) and `keep` > number of objectives:
         a front member that is first or last of some per-objective order of front ++ archive has distance `keep`, every
         other one has sum_i (next_i - prev_i)/(max_i - min_i) (C14_crowding_distance_is_definition), leastContributor
         is the FIRST member of minimal distance (C14_crowding_least_contributor_first_minimum); the model's insertion
         sort is such a routine (C14_crowding_model_sort_ok).  In Q a zero range gives the term 0; the C++ computes 0/0 =
         NaN there -- see "NOT PROVED" below;
       - NSGA3Indicator (C14Nsga3.v, abstract carrier; plane solver = Section variable): the niche-selection loop never
         exhausts its fuel (every round assigns a point or retires a reference direction) and leastContributors returns K
         distinct indices into the front for every solver answer, PROVIDED there is a reference direction and every
         association distance compares below DBL_MAX (n3_finite: no NaN/overflow -- what commit 87210a93 restores for a
         constant objective); association = a reference direction of the point itself (C14_nsga3_association); the
         normalizer is > 0 in every component for every solver answer (C14_nsga3_normalizer_positive, rational instance:
         the plane branch needs min(w) > 0, the nadir branch replaces a component that is not > 0 by 1);
       - the selection theorems need the indicator to be valid only on the one call the selection makes
         (C14_selection_valid_on_the_call_made), which covers NSGA3Indicator whenever n3_finite holds for that call;
     * variation and mating-selection operators AS CODED (C14Var.v, random draws explicit, std::pow / std::abs arbitrary
       functions; run next to the C++ on every check, stream V, bit-exact on floats):
       - SimulatedBinaryCrossover / PolynomialMutator: for every sequence of draws, crossover probability and distribution
         index, children of parents inside the box lie inside the box (C14_sbx_children_in_box,
         C14_polynomial_mutation_child_in_box: "bounded variation operators never report a point outside the box"); every
         coordinate the operators recompute is inside the box even if the parent's was not (the clipping);
       - TournamentSelection<RankOrdering>: the winner is a drawn individual of least rank among the drawn ones;
       - ElitistSelection: exactly mu individuals marked, none of them after an unmarked one in the ordering, for every
         sort routine returning an ordered permutation (the model's insertion sort is one);
       These are statements over Q with the DIVISION AN ARBITRARY FUNCTION (they do not lean on Q's x/0 = 0).  History: before
       /repo commit c8cdcf67 PolynomialMutator divided by the width upper - lower also when it is 0; the rational model
       evaluated 0/0 = 0, the clipping made the in-box statement true, and so the Q-model HID the NaN the C++ produced
       (0/0 = NaN is not caught by `if (x < lower) .. if (x > upper)`).  The repaired code takes an explicit branch for
       upper == lower; the model follows it (C14_polynomial_mutation_degenerate_coordinate_unchanged: value kept, one draw
       consumed; C14_polynomial_mutation_divides_by_positive_width_only), and tools/c14.py checks, independently of the
       model, that every child coordinate the C++ operators print is a finite number inside [lower, upper];
     * the generation loop shared by RealCodedNSGAII / NSGAIII / MOCMA (offspring -> PenalizingEvaluator -> merge -> selection ->
       partition -> erase) and by SMS-EMOA / steady-state MOCMA (C14Loop.v; updatePopulation runs next to the model on every
       check, stream U): for every valid indicator, every history of offspring points (whatever variation and random numbers
       produce) and every number of generations the population has exactly mu members, every member is a parent or an
       offspring of its generation, solution() reports (point, f(closest feasible point)) = (point, f(point)) for feasible
       points, and every predicate on search points that holds initially and for all offspring (inside the box, by the
       variation theorems) holds for every reported point (C14_generation_loop_invariant);
     * INITIALISATION from caller-supplied starting points AS CODED (C14Init.v: values[i] = f(P[i]); numPoints = |P| if |P| <= mu
       else 0; slots below numPoints = the starting points in order, every other slot = P[index] for a random index, the (penalized,
       unpenalized) pair read from the SAME index; m_best = (search point, unpenalized fitness); RVEA's population size from the
       lattice; SteadyStateMOCMA's sortRankOneToFront; random indices = explicit oracle list; run next to init(function, points)
       and init(function) of all seven optimisers on every check, stream N).  For every non-empty P (duplicates allowed), every
       mu and EVERY oracle: exactly mu members (C14_init_population_has_mu_members); every member's search point is an element
       of P and its fitness pair is (f x, f x) = (fp x, f x) for ITS OWN search point x, fp any penalized evaluation agreeing with
       f on P (C14_init_members_from_starting_points_consistent, C14_init_fitness_pair_of_own_point); with |P| <= mu the first
       |P| members are P in order (C14_init_keeps_all_points_when_at_most_mu); for an oracle as random::discrete produces it the
       population is P's first numPoints points followed by P[oracle[k]] -- with MORE than mu points that is mu random copies
       with replacement, NOT the first mu points (C14_init_population_structure,
       C14_init_more_than_mu_points_all_random_copies: the code's behaviour, stated as it is); solution() after init has mu
       elements (x, f x), x in P (C14_init_solution_consistent); sortRankOneToFront is a permutation that puts the rank-1
       individuals first and leaves a partitioned population unchanged, for ANY rank test, so SteadyStateMOCMA's initial
       parents / solution are a permutation of the above with the same member-wise statements (C14_sort_rank_one_to_front,
       C14_init_steady_state_mocma); the initial population satisfies the loop invariant, hence for every list of feasible
       starting points, oracle, history and number of generations solution() keeps mu elements (x, f(closest feasible x))
       (C14_init_then_generations_invariant); RVEA's computed population size is >= approxMu
       (C14_rvea_population_size_at_least_approx_mu); C14_init_examples: worked instances (fewer / more points than mu);
     * the steady-state theorem with its hypothesis restricted to the fronts the selection can hand over
       (C14_steady_state_hv_monotone_front_hypothesis) and DISCHARGED for the coded 2-objective HypervolumeIndicator path
       (C14_steady_state_hv_monotone_coded_indicator_2d: hypotheses only on the data: 2 objectives, all points <= ref);
   ASSUMPTION of the last theorem (boundary of the claim, see DESIGN.md C14): the indicator is
   configured with the SAME fixed reference point (indicator().setReference(r)); with the default
   (no reference) the implicit reference moves and the statement is false for the code.
   NOT PROVED, only compared/monitored on every run (tools/c14.py):
     * that the C++ contribution routines for 3 and more objectives return a least contributor (Section variable `other`
       of the model; exact brute-force check in Python on small-integer fronts, and against contribs_spec extracted from
       Coq); for 2 objectives the tie order std::sort leaves among equal points (the model sorts stably: what libstdc++
       does on <= 16 elements; the generated fronts stay below that size);
     * CrowdingDistance when some objective is constant over front ++ archive: the C++ divides 0/0, the interior members
       get NaN and std::min_element may then return a boundary member (the float instance of the model reproduces this
       bit for bit and is compared; the rational theorem does not speak about NaN); counted in the evidence notes;
     * absence of NaN / overflow in the floating-point evaluation of the variation operators in general (the theorems are over
       Q; on the C++ output finiteness and box membership are monitored on every run, keys variation:*-nan / *-outside-box);
     * NSGA3Indicator: the plane solver (its answer is re-derived by the harness and handed to the model); that the
       niche counts equal the number of assigned associated points (only termination + validity of the index set and
       positivity of the normalizer are proved);
     * mating selection + variation inside generateOffspring / createOffspring of the optimisers (the operators are
       modelled and proved separately; their composition with the optimiser's random stream is only observed);
       MOEAD and RVEA (different update rules: monitored only); CMA step-size / covariance updates (C11);
     * initialisation: that init() REJECTS a list containing an infeasible starting point (observed: shark::Exception from every
       optimiser; the monitor accepts rejection or a run that satisfies all monitors); the ranks the selection inside doInit assigns
       (argument is1 of the SteadyStateMOCMA model; monitored against the rank definition); MOEAD's weight-lattice sampling and
       NSGA-III's reference points (only their effect on the generator stream is replayed by the harness); that the random indices
       of the model run ARE the generator's stream (compared on every run: the harness replays random::discrete on a copy of the
       generator; a population that is a legal outcome for other indices only is reported as a broken correspondence);
       RealCodedNSGAIII::doInit (preference points) is not reachable through init() and is not modelled;
     * the per-generation invariants on the REAL optimiser runs of MOCMA, SteadyStateMOCMA, SMSEMOA, RealCodedNSGAII/III,
       MOEAD, RVEA (size, value = objective at the closest feasible point, box, hypervolume monotone): monitored;
     * serialization: a run that is written to a text archive after k steps, read into a fresh optimizer object and continued
       must equal the uninterrupted run and keep all per-generation invariants (stream K of tools/c14.py; SMSEMOA,
       SteadyStateMOCMA, MOCMA, RealCodedNSGAII x 3, RealCodedNSGAIII, MOEAD; RVEA cannot be serialized): monitored only. *)
From Coq Require Import List ZArith Arith QArith.
From SharkV Require Import ListAux C13Model C13Proofs C13ProofsContrib C14Model C14Proofs C14Ind C14IndProofs.
From SharkV Require Import C14Nsga3 C14Nsga3Proofs C14CrowdProofs C14Var C14VarProofs C14Loop C14LoopProofs.
From SharkV Require Import C14Init C14InitProofs.
From Coq Require Import Permutation.
Import ListNotations.
Close Scope Q_scope.

Theorem C14_indicator_selection_count :
  forall lcs d S mu, valid_oracle lcs -> same_dim d S -> 1 <= mu <= length S ->
    let sel := o_sel (snd (indicator_selection lcs S mu)) in
    count_true sel = mu /\ length sel = length S.
Proof. exact indicator_selection_count. Qed.
Print Assumptions C14_indicator_selection_count.

Theorem C14_indicator_selection_rank_monotone :
  forall lcs d S mu, valid_oracle lcs -> same_dim d S -> 1 <= mu <= length S ->
    let r := fst (indicator_selection lcs S mu) in
    let sel := o_sel (snd (indicator_selection lcs S mu)) in
    is_rank_assignment S r /\
    forall i j, i < length S -> j < length S ->
      nth i sel false = true -> nth j sel false = false -> nth i r 0 <= nth j r 0.
Proof. exact indicator_selection_rank_monotone. Qed.
Print Assumptions C14_indicator_selection_rank_monotone.

(* the same two facts for an arbitrary rank list (whatever sorting algorithm produced it) *)
Theorem C14_selection_any_ranks :
  forall lcs, valid_oracle lcs -> forall r S mu,
    1 <= mu <= length r -> (forall i, i < length r -> 1 <= nth i r 0) ->
    let sel := o_sel (select_with_ranks lcs r S mu) in
    (count_true sel = mu /\ length sel = length r) /\
    forall i j, i < length r -> j < length r ->
      nth i sel false = true -> nth j sel false = false -> nth i r 0 <= nth j r 0.
Proof.
  intros lcs V r S mu Hmu R1. split.
  - exact (selection_count lcs V r S mu Hmu R1).
  - exact (selection_rank_monotone lcs V r S mu Hmu R1).
Qed.
Print Assumptions C14_selection_any_ranks.

Theorem C14_one_at_a_time_least_contributors_valid :
  forall lc, (forall P A, P <> [] -> lc P A < length P) -> valid_oracle (least_contributors lc).
Proof. exact least_contributors_valid. Qed.
Print Assumptions C14_one_at_a_time_least_contributors_valid.

Theorem C14_penalized_eval_identity :
  forall f feasible closest alpha m s,
    let t := repaired feasible closest s in
    let '(unp, pen) := penalized_eval f feasible closest alpha m s in
    unp = f t /\
    pen = map (fun v => (v + alpha * norm_sqr_diff t s)%Z) (f t) /\
    (feasible s = true -> unp = f s /\ pen = f s).
Proof. exact penalized_eval_spec. Qed.
Print Assumptions C14_penalized_eval_identity.

Theorem C14_box_closest_point_feasible :
  forall lo hi s, Forall2 Z.le lo hi ->
    box_feasible lo hi (box_closest lo hi s) = true /\
    (box_feasible lo hi s = true -> box_closest lo hi s = s).
Proof. intros. split; [now apply box_closest_feasible|apply box_closest_id]. Qed.
Print Assumptions C14_box_closest_point_feasible.

Theorem C14_steady_state_hv_monotone :
  forall (lc : list point -> list point -> nat) (ref : point),
    (forall F A, F <> [] ->
       lc F A < length F /\
       forall j, j < length F -> (contrib_spec ref F (lc F A) <= contrib_spec ref F j)%Z) ->
    forall d P o, same_dim d (P ++ [o]) -> 1 <= length P ->
      (hv_spec ref P <= hv_spec ref (ss_step lc P o))%Z /\ length (ss_step lc P o) = length P.
Proof. exact steady_state_step. Qed.
Print Assumptions C14_steady_state_hv_monotone.

(* the hypothesis is satisfiable: the exact least contributor w.r.t. ref *)
Theorem C14_steady_state_hv_monotone_exact_indicator :
  forall d ref P o, same_dim d (P ++ [o]) -> 1 <= length P ->
    (hv_spec ref P <= hv_spec ref (ss_step (hv_lc ref) P o))%Z /\
    length (ss_step (hv_lc ref) P o) = length P.
Proof. exact steady_state_hv_lc. Qed.
Print Assumptions C14_steady_state_hv_monotone_exact_indicator.

Theorem C14_selection_example :
  let S := [[1; 5]; [2; 3]; [2; 3]; [4; 4]; [3; 1]; [5; 5]; [1; 5]]%Z in
  same_dim 2 S /\
  fst (indicator_selection (least_contributors (hv_lc [6; 6]%Z)) S 5) = [1; 1; 1; 2; 1; 3; 1] /\
  o_sel (snd (indicator_selection (least_contributors (hv_lc [6; 6]%Z)) S 5)) =
    [true; true; true; false; true; false; true] /\
  o_K (snd (indicator_selection (least_contributors (hv_lc [6; 6]%Z)) S 4)) = 1 /\
  count_true (o_sel (snd (indicator_selection (least_contributors (hv_lc [6; 6]%Z)) S 4))) = 4.
Proof. exact selection_example. Qed.
Print Assumptions C14_selection_example.

Theorem C14_steady_state_example :
  ss_step (hv_lc [6; 6]%Z) [[1; 5]; [3; 3]; [5; 1]]%Z [2; 2]%Z = [[1; 5]; [2; 2]; [5; 1]]%Z /\
  hv_spec [6; 6]%Z [[1; 5]; [3; 3]; [5; 1]]%Z = 13%Z /\
  hv_spec [6; 6]%Z [[1; 5]; [2; 2]; [5; 1]]%Z = 18%Z.
Proof. exact steady_state_example. Qed.
Print Assumptions C14_steady_state_example.

(* ------------------------------------------------------------------------------------------ *)
(* the indicator classes as coded (C14Ind.v) *)

Theorem C14_epsilon_indicator_valid : valid_oracle eps_lcs.
Proof. exact eps_lcs_valid. Qed.
Print Assumptions C14_epsilon_indicator_valid.

Theorem C14_max_diff_is_largest_component :
  forall a b : point, length a = length b -> 1 <= length a ->
    (exists k, k < length a /\ max_diff a b = (nth k a 0 - nth k b 0)%Z) /\
    forall k, k < length a -> (nth k a 0 - nth k b 0 <= max_diff a b)%Z.
Proof. exact max_diff_spec. Qed.
Print Assumptions C14_max_diff_is_largest_component.

Theorem C14_epsilon_value_is_definition :
  forall (F : list point) i,
    match eps_result F i with
    | None => forall j, j < length F -> j = i
    | Some v => (exists j, j < length F /\ j <> i /\ v = max_diff (nth j F []) (nth i F [])) /\
                forall j, j < length F -> j <> i -> (v <= max_diff (nth j F []) (nth i F []))%Z
    end.
Proof. exact eps_result_spec. Qed.
Print Assumptions C14_epsilon_value_is_definition.

Theorem C14_epsilon_least_contributor_first_minimum :
  forall F A : list point, F <> [] ->
    let i0 := eps_lc F A in
    i0 < length F /\
    (forall j, j < length F -> ez_leb (eps_result F i0) (eps_result F j) = true) /\
    (forall j, j < i0 -> ez_ltb (eps_result F i0) (eps_result F j) = true).
Proof. exact eps_lc_spec. Qed.
Print Assumptions C14_epsilon_least_contributor_first_minimum.

Theorem C14_hypervolume_indicator_valid :
  forall other : point -> list point -> nat,
    (forall ref F, F <> [] -> other ref F < length F) ->
    forall ref, valid_oracle (hv_ind_lcs other ref).
Proof. exact hv_ind_lcs_valid. Qed.
Print Assumptions C14_hypervolume_indicator_valid.

Theorem C14_hypervolume_indicator_2d_least_contribution :
  forall other ref F A, length ref = 2 -> F <> [] -> below_ref ref F -> mutually_nondominated F ->
    hv_ind_lc other ref F A < length F /\
    forall j, j < length F -> (contrib_spec ref F (hv_ind_lc other ref F A) <= contrib_spec ref F j)%Z.
Proof. exact hv_ind_lc_2d_spec. Qed.
Print Assumptions C14_hypervolume_indicator_2d_least_contribution.

Theorem C14_crowding_distance_valid :
  forall (T : Type) (zero keep : T) (add sub div : T -> T -> T) (ltb eqb : T -> T -> bool)
         (sort : list (T * nat) -> list (T * nat)),
    valid_oracle_g (cd_lcs T zero keep add sub div ltb eqb sort).
Proof. exact cd_lcs_valid. Qed.
Print Assumptions C14_crowding_distance_valid.

(* the proved selection theorems apply to the coded indicators without further hypotheses *)
Theorem C14_selection_with_coded_indicators :
  forall other : point -> list point -> nat,
    (forall ref F, F <> [] -> other ref F < length F) ->
  forall lcs, (lcs = eps_lcs \/ exists ref, lcs = hv_ind_lcs other ref) ->
  forall d S mu, same_dim d S -> 1 <= mu <= length S ->
    let r := fst (indicator_selection lcs S mu) in
    let sel := o_sel (snd (indicator_selection lcs S mu)) in
    count_true sel = mu /\ length sel = length S /\ is_rank_assignment S r /\
    forall i j, i < length S -> j < length S ->
      nth i sel false = true -> nth j sel false = false -> nth i r 0 <= nth j r 0.
Proof. exact selection_with_coded_indicators. Qed.
Print Assumptions C14_selection_with_coded_indicators.

Theorem C14_steady_state_hv_monotone_front_hypothesis :
  forall (lc : list point -> list point -> nat) (ref : point) (d : nat),
    (forall F A, F <> [] -> lc F A < length F) ->
    (forall F A, F <> [] -> same_dim d F -> below_ref ref F -> mutually_nondominated F ->
       forall j, j < length F -> (contrib_spec ref F (lc F A) <= contrib_spec ref F j)%Z) ->
    forall P o, same_dim d (P ++ [o]) -> below_ref ref (P ++ [o]) -> 1 <= length P ->
      (hv_spec ref P <= hv_spec ref (ss_step lc P o))%Z /\ length (ss_step lc P o) = length P.
Proof. exact steady_state_step_front. Qed.
Print Assumptions C14_steady_state_hv_monotone_front_hypothesis.

Theorem C14_steady_state_hv_monotone_coded_indicator_2d :
  forall other ref P o,
    length ref = 2 -> same_dim 2 (P ++ [o]) -> below_ref ref (P ++ [o]) -> 1 <= length P ->
    (hv_spec ref P <= hv_spec ref (ss_step (hv_ind_lc other ref) P o))%Z /\
    length (ss_step (hv_ind_lc other ref) P o) = length P.
Proof. exact steady_state_hv_indicator_2d. Qed.
Print Assumptions C14_steady_state_hv_monotone_coded_indicator_2d.

Theorem C14_coded_indicator_examples :
  let F := [[1; 5]; [2; 3]; [4; 2]; [5; 1]]%Z in
  eps_lcs F [] 2 = [0; 2] /\ map (eps_result F) [0; 1; 2; 3] = [Some 1; Some 2; Some 1; Some 1]%Z /\
  hv_ind_lcs (fun _ _ => 0) [6; 6]%Z F [] 2 = [3; 0] /\
  hv_ind_lcs (fun _ _ => 0) [] F [] 4 = [2; 1; 0; 3] /\
  below_ref [6; 6]%Z F /\ mutually_nondominated F /\
  ss_step (hv_ind_lc (fun _ _ => 0) [6; 6]%Z) [[1; 5]; [3; 3]; [5; 1]]%Z [2; 2]%Z = [[1; 5]; [2; 2]; [5; 1]]%Z.
Proof. exact coded_indicator_examples. Qed.
Print Assumptions C14_coded_indicator_examples.

(* ------------------------------------------------------------------------------------------ *)
(* NSGA3Indicator as coded (C14Nsga3.v) *)

Theorem C14_nsga3_niche_selection_valid :
  forall (T : Type) (maxval : T) (ltb : T -> T -> bool) nZ nA K (pairing : list (pair_t T)),
    let n := length pairing in
    1 <= nZ -> nA + K <= n ->
    (forall j, j < n -> pfirst T (nth j pairing (pdflt T maxval)) = j /\
                        psecond T (nth j pairing (pdflt T maxval)) < nZ /\
                        ltb (fst (nth j pairing (pdflt T maxval))) maxval = true) ->
    let res := n3_select T maxval ltb nZ nA K pairing in
    length res = K /\ NoDup res /\ forall i, In i res -> i < n - nA.
Proof. exact n3_select_valid. Qed.
Print Assumptions C14_nsga3_niche_selection_valid.

Theorem C14_nsga3_association :
  forall (T : Type) (zero maxval : T) (add sub mul : T -> T -> T) (ltb : T -> T -> bool) Zr j p,
    Zr <> [] ->
    (forall i, i < length Zr -> ltb (n3_dist T zero add sub mul (nth i Zr []) p) maxval = true) ->
    assoc_ok T maxval ltb (length Zr) j (n3_assoc T zero maxval add sub mul ltb Zr j p).
Proof. exact n3_assoc_spec. Qed.
Print Assumptions C14_nsga3_association.

Theorem C14_nsga3_least_contributors_valid :
  forall (T : Type) (zero one maxval eps : T) (add sub mul div : T -> T -> T) (ltb : T -> T -> bool)
         (solve : list (list T) -> option (list T)) Zr F A K,
    Zr <> [] -> K <= length F ->
    n3_finite T zero maxval add sub mul ltb Zr
      (n3_normalize T zero one maxval eps add sub mul div ltb solve (A ++ F)) ->
    let res := nsga3_lcs T zero one maxval eps add sub mul div ltb solve Zr F A K in
    length res = K /\ NoDup res /\ forall i, In i res -> i < length F.
Proof. exact nsga3_lcs_valid. Qed.
Print Assumptions C14_nsga3_least_contributors_valid.

Theorem C14_nsga3_normalizer_positive :
  forall (maxval eps : Q) (solve : list (list Q) -> option (list Q)) points x,
    In x (n3_normalizer Q 0%Q 1%Q maxval eps Qplus Qminus Qmult Qdiv qlt solve points) -> (0 < x)%Q.
Proof. exact n3_normalizer_positive. Qed.
Print Assumptions C14_nsga3_normalizer_positive.

Theorem C14_selection_valid_on_the_call_made :
  forall (lcs : list point -> list point -> nat -> list nat) r S mu,
    1 <= mu <= length r -> (forall i, i < length r -> 1 <= nth i r 0) ->
    let o := select_with_ranks lcs r S mu in
    (o_K o <= length (o_front o) -> valid_call lcs (pts S (o_front o)) (pts S (o_archive o)) (o_K o)) ->
    (count_true (o_sel o) = mu /\ length (o_sel o) = length r) /\
    forall i j, i < length r -> j < length r ->
      nth i (o_sel o) false = true -> nth j (o_sel o) false = false -> nth i r 0 <= nth j r 0.
Proof. exact selection_valid_on_call. Qed.
Print Assumptions C14_selection_valid_on_the_call_made.

Theorem C14_nsga3_example :
  let F := q_pts [[1; 5]; [2; 3]; [4; 2]; [5; 1]]%Z in
  let Zr := q_pts [[1; 0]; [0; 1]]%Z in
  n3_finite Q 0%Q (1000000 # 1)%Q Qplus Qminus Qmult qlt Zr
    (n3_normalize Q 0%Q 1%Q (1000000 # 1)%Q (1 # 100000)%Q Qplus Qminus Qmult Qdiv qlt (fun _ => None) ([] ++ F)) /\
  q_nsga3 Zr F [] 2 = [2; 1] /\ q_nsga3 Zr F [] 0 = [] /\ length (q_nsga3 Zr F [] 4) = 4.
Proof. exact nsga3_example. Qed.
Print Assumptions C14_nsga3_example.

(* ------------------------------------------------------------------------------------------ *)
(* CrowdingDistance = its definition (rational instance, any key-ordered sort) *)

Theorem C14_crowding_distance_is_definition :
  forall (keep : Q) (sort : list (Q * nat) -> list (Q * nat)),
    (forall l, Permutation.Permutation (sort l) l) -> (forall l, Sorted.StronglySorted key_le (sort l)) ->
  forall F A j,
    (inject_Z (Z.of_nat (length (hd [] F))) < keep)%Q -> j < length F ->
    (nth j (cd_distances Q 0%Q keep Qplus Qminus Qdiv Qeq_bool sort F A) 0%Q == cd_def keep sort F A j)%Q /\
    (bnd_any sort F A (seq 0 (length (hd [] F))) j = true ->
     nth j (cd_distances Q 0%Q keep Qplus Qminus Qdiv Qeq_bool sort F A) 0%Q = keep).
Proof. exact cd_distances_meaning. Qed.
Print Assumptions C14_crowding_distance_is_definition.

Theorem C14_crowding_least_contributor_first_minimum :
  forall (keep : Q) (sort : list (Q * nat) -> list (Q * nat)),
    (forall l, Permutation.Permutation (sort l) l) -> (forall l, Sorted.StronglySorted key_le (sort l)) ->
  forall F A,
    (inject_Z (Z.of_nat (length (hd [] F))) < keep)%Q -> 2 <= length F ->
    let i0 := cd_lc Q 0%Q keep Qplus Qminus Qdiv qltb Qeq_bool sort F A in
    i0 < length F /\
    (forall j, j < length F -> (cd_def keep sort F A i0 <= cd_def keep sort F A j)%Q) /\
    (forall j, j < i0 -> (cd_def keep sort F A i0 < cd_def keep sort F A j)%Q).
Proof. exact cd_lc_meaning. Qed.
Print Assumptions C14_crowding_least_contributor_first_minimum.

(* the shape of a term: neighbours' key difference over the key range, between 0 and 1 *)
Theorem C14_crowding_term_shape :
  forall (l : list (Q * nat)) j,
    Sorted.StronglySorted key_le l ->
    (0 <= term_of l j)%Q /\ (term_of l j <= 1)%Q /\
    forall df, nbr_diff l j = Some df ->
      term_of l j = (df / range_of l)%Q /\
      exists p, 0 < p /\ p + 1 < length l /\ snd (nth p l qd0) = j /\
                df = (fst (nth (p + 1) l qd0) - fst (nth (p - 1) l qd0))%Q.
Proof. exact term_shape. Qed.
Print Assumptions C14_crowding_term_shape.

Theorem C14_crowding_model_sort_ok :
  (forall l, Permutation.Permutation (cd_isort Q qltb l) l) /\
  (forall l, Sorted.StronglySorted key_le (cd_isort Q qltb l)).
Proof. exact (conj cd_isort_perm cd_isort_sorted). Qed.
Print Assumptions C14_crowding_model_sort_ok.

Theorem C14_crowding_distance_valid_on_integer_points :
  forall keep, valid_oracle (cdq_lcs keep).
Proof. exact cdq_lcs_valid. Qed.
Print Assumptions C14_crowding_distance_valid_on_integer_points.

Theorem C14_crowding_example :
  let F := [[1; 5]; [2; 3]; [4; 2]; [5; 1]]%Z in
  map Qred (cd_distances Q 0%Q 1000%Q Qplus Qminus Qdiv Qeq_bool (cd_isort Q qltb) (cq_pts F) []) =
    [1000%Q; (3 # 2)%Q; (5 # 4)%Q; 1000%Q] /\
  cdq_lcs 1000%Q F [] 4 = [2; 1; 0; 3] /\
  map (fun j => Qred (cd_def 1000%Q (cd_isort Q qltb) (cq_pts F) [] j)) [0; 1; 2; 3] =
    [1000%Q; (3 # 2)%Q; (5 # 4)%Q; 1000%Q].
Proof. exact crowding_example. Qed.
Print Assumptions C14_crowding_example.

(* ------------------------------------------------------------------------------------------ *)
(* variation and mating-selection operators as coded (C14Var.v), rational instance *)

Theorem C14_sbx_children_in_box :
  forall (two half tol nexpp iexpp : Q) (abs : Q -> Q) (pow dv : Q -> Q -> Q) prob lower upper p1 p2 us,
    box_ok lower upper -> in_box lower upper p1 -> in_box lower upper p2 ->
    let r := sbx Q 0%Q 1%Q two half tol Qplus Qminus Qmult dv abs pow qltb nexpp iexpp prob lower upper p1 p2 us in
    in_box lower upper (fst (fst r)) /\ in_box lower upper (snd (fst r)).
Proof. exact sbx_in_box. Qed.
Print Assumptions C14_sbx_children_in_box.

Theorem C14_sbx_recomputed_coordinate_in_box :
  forall (two half tol nexpp iexpp : Q) (abs : Q -> Q) (pow dv : Q -> Q -> Q) prob lo hi x1 x2 us,
    (lo <= hi)%Q ->
    let r := sbx_coord Q 0%Q 1%Q two half tol Qplus Qminus Qmult dv abs pow qltb nexpp iexpp prob lo hi x1 x2 us in
    (fst (fst r) = x1 /\ snd (fst r) = x2) \/
    ((lo <= fst (fst r) <= hi)%Q /\ (lo <= snd (fst r) <= hi)%Q).
Proof. exact sbx_recomputed_coordinate_in_box. Qed.
Print Assumptions C14_sbx_recomputed_coordinate_in_box.

Theorem C14_polynomial_mutation_child_in_box :
  forall (two half nm1 inm1 : Q) (pow dv : Q -> Q -> Q) prob lower upper p us,
    box_ok lower upper -> in_box lower upper p ->
    in_box lower upper (fst (pm Q 0%Q 1%Q two half Qplus Qminus Qmult dv pow qltb nm1 inm1 Qeq_bool prob lower upper p us)).
Proof. exact pm_in_box. Qed.
Print Assumptions C14_polynomial_mutation_child_in_box.

Theorem C14_polynomial_mutation_mutated_coordinate_in_box :
  forall (two half nm1 inm1 : Q) (pow dv : Q -> Q -> Q) prob lo hi x us,
    (lo <= hi)%Q -> qltb (hd 0%Q us) prob = true -> (0 <= hd 0%Q (tl us) <= 1)%Q ->
    (lo <= fst (pm_coord Q 0%Q 1%Q two half Qplus Qminus Qmult dv pow qltb nm1 inm1 Qeq_bool prob lo hi x us) <= hi)%Q.
Proof. exact pm_mutated_coordinate_in_box. Qed.
Print Assumptions C14_polynomial_mutation_mutated_coordinate_in_box.

(* the explicit branch of /repo commit c8cdcf67: a coordinate with lower == upper keeps its value, one draw consumed *)
Theorem C14_polynomial_mutation_degenerate_coordinate_unchanged :
  forall (two half nm1 inm1 : Q) (pow dv : Q -> Q -> Q) prob lo hi x us,
    (lo == hi)%Q -> (lo <= x <= hi)%Q ->
    pm_coord Q 0%Q 1%Q two half Qplus Qminus Qmult dv pow qltb nm1 inm1 Qeq_bool prob lo hi x us = (x, tl us).
Proof. exact pm_degenerate_coordinate_unchanged. Qed.
Print Assumptions C14_polynomial_mutation_degenerate_coordinate_unchanged.

Theorem C14_polynomial_mutation_divides_by_positive_width_only :
  forall (two half nm1 inm1 : Q) (pow dv : Q -> Q -> Q) prob lo hi x us,
    (lo <= hi)%Q -> qltb (hd 0%Q us) prob = true -> (qltb x lo || qltb hi x) = false ->
    snd (pm_coord Q 0%Q 1%Q two half Qplus Qminus Qmult dv pow qltb nm1 inm1 Qeq_bool prob lo hi x us) <> tl us ->
    (0 < hi - lo)%Q.
Proof. exact pm_formula_branch_has_positive_width. Qed.
Print Assumptions C14_polynomial_mutation_divides_by_positive_width_only.

Theorem C14_tournament_selection_returns_best_drawn :
  forall (key : nat -> nat) (drawn : list nat), drawn <> [] ->
    let r := tournament (fun i j => key i <? key j) drawn in
    In r drawn /\ forall d, In d drawn -> key r <= key d.
Proof. exact tournament_spec. Qed.
Print Assumptions C14_tournament_selection_returns_best_drawn.

Theorem C14_elitist_selection_selects_mu_best :
  forall (key : nat -> nat) (sort : list nat -> list nat),
    (forall l, Permutation.Permutation (sort l) l) ->
    (forall l, Sorted.StronglySorted (fun a b => key a <= key b) (sort l)) ->
  forall n mu, mu <= n ->
    let sel := elitist sort n mu in
    length sel = n /\ count_true sel = mu /\
    forall i j, i < n -> j < n -> nth i sel false = true -> nth j sel false = false -> key i <= key j.
Proof. exact elitist_spec. Qed.
Print Assumptions C14_elitist_selection_selects_mu_best.

Theorem C14_elitist_model_sort_ok :
  forall key, (forall l, Permutation.Permutation (pos_isort key l) l) /\
              (forall l, Sorted.StronglySorted (fun a b => key a <= key b) (pos_isort key l)).
Proof. exact (fun key => conj (pos_isort_perm key) (pos_isort_sorted key)). Qed.
Print Assumptions C14_elitist_model_sort_ok.

Theorem C14_variation_example :
  let lower := [0; 0]%Q in let upper := [1; 1]%Q in
  box_ok lower upper /\ in_box lower upper [1 # 4; 1 # 2]%Q /\ in_box lower upper [3 # 4; 1 # 2]%Q /\
  (let r := sbx Q 0%Q 1%Q 2%Q (1 # 2)%Q (1 # 10000000)%Q Qplus Qminus Qmult Qdiv Qabs.Qabs (fun x _ => x) qltb (-21)%Q (1 # 21)%Q
              1%Q lower upper [1 # 4; 1 # 2]%Q [3 # 4; 1 # 2]%Q [1 # 2; 1 # 4; 3 # 4; 1 # 8]%Q in
   in_box lower upper (fst (fst r)) /\ in_box lower upper (snd (fst r)) /\ length (snd r) = 0) /\
  tournament (fun i j => nth i [3; 1; 2; 1; 5] 0 <? nth j [3; 1; 2; 1; 5] 0) [0; 3; 1] = 3 /\
  elitist (pos_isort (fun i => nth i [3; 1; 2; 1; 5] 0)) 5 2 = [false; true; false; true; false].
Proof. exact variation_example. Qed.
Print Assumptions C14_variation_example.

(* ------------------------------------------------------------------------------------------ *)
(* the generation loop (C14Loop.v) *)

Theorem C14_generational_update_keeps_mu_selected :
  forall (f : list Z -> list Z) feasible closest alpha lcs mu,
    valid_oracle lcs -> 1 <= mu -> forall d, (forall x, length (f x) = d) ->
  forall parents offspring,
    Forall (consistent f feasible closest alpha) (parents ++ offspring) -> mu <= length (parents ++ offspring) ->
    gen_update lcs mu parents offspring = keep_g (flags lcs mu (parents ++ offspring)) (parents ++ offspring) /\
    length (gen_update lcs mu parents offspring) = mu /\
    forall i, In i (gen_update lcs mu parents offspring) -> In i (parents ++ offspring).
Proof. exact gen_update_spec. Qed.
Print Assumptions C14_generational_update_keeps_mu_selected.

Theorem C14_steady_state_update_keeps_size :
  forall lcs mu parents o,
    length (ss_update lcs mu parents o) = length parents /\
    forall i, In i (ss_update lcs mu parents o) -> In i (parents ++ [o]).
Proof. exact ss_update_spec. Qed.
Print Assumptions C14_steady_state_update_keeps_size.

Theorem C14_generation_loop_invariant :
  forall (f : list Z -> list Z) feasible closest alpha m lcs mu d (P : list Z -> Prop),
    valid_oracle lcs -> 1 <= mu -> (forall x, length (f x) = d) ->
    forall pop0, inv f feasible closest alpha mu P pop0 ->
    (forall history, Forall (Forall P) history ->
       let pop := run_gen f feasible closest alpha m lcs mu history pop0 in
       inv f feasible closest alpha mu P pop /\
       length (solution pop) = mu /\
       forall x v, In (x, v) (solution pop) ->
         P x /\ v = f (repaired feasible closest x) /\ (feasible x = true -> v = f x)) /\
    (forall history, Forall P history ->
       let pop := run_ss f feasible closest alpha m lcs mu history pop0 in
       inv f feasible closest alpha mu P pop /\
       length (solution pop) = mu /\
       forall x v, In (x, v) (solution pop) ->
         P x /\ v = f (repaired feasible closest x) /\ (feasible x = true -> v = f x)).
Proof. exact generation_loop_invariant. Qed.
Print Assumptions C14_generation_loop_invariant.

Theorem C14_initial_population_satisfies_invariant :
  forall (f : list Z -> list Z) feasible closest alpha mu (P : list Z -> Prop) (points : list (list Z)),
    1 <= mu -> length points = mu -> Forall (fun x => feasible x = true /\ P x) points ->
    inv f feasible closest alpha mu P (map (fun x => mk_ind x (f x) (f x)) points).
Proof. exact initial_population_inv. Qed.
Print Assumptions C14_initial_population_satisfies_invariant.

Theorem C14_loop_example :
  let feasible := box_feasible [0%Z] [6%Z] in let closest := box_closest [0%Z] [6%Z] in
  let pop0 := map (fun x => mk_ind x (loop_fex x) (loop_fex x)) [[1]; [3]; [5]]%Z in
  valid_oracle eps_lcs /\ (forall x, length (loop_fex x) = 2) /\
  inv loop_fex feasible closest 1000%Z 3 (fun _ => True) pop0 /\
  solution (run_gen loop_fex feasible closest 1000%Z 0 eps_lcs 3 [[[2]; [9]]; [[4]; [0]]]%Z pop0) =
    [([2], [2; 4]); ([4], [4; 2]); ([0], [0; 6])]%Z /\
  solution (run_ss loop_fex feasible closest 1000%Z 0 eps_lcs 3 [[2]; [9]; [4]]%Z pop0) =
    [([4], [4; 2]); ([3], [3; 3]); ([5], [5; 1])]%Z.
Proof. exact loop_example. Qed.
Print Assumptions C14_loop_example.

(* ---------------------------------------------------------------------------------------------------------------------- *)
(* INITIALISATION from caller-supplied starting points (C14Init.v: init + doInit of the seven optimisers as coded, the random
   indices an explicit oracle list).  X: search points, V: objective vectors, f: the deterministic objective.  Every statement is
   for EVERY non-empty list of starting points P (duplicates allowed), every mu and every oracle (valid or not). *)

Theorem C14_init_population_has_mu_members :
  forall (X V : Type) (f : X -> V) (P : list X) (mu : nat) (oracle : list nat),
    P <> [] -> length (init_parents X V f P mu oracle) = mu.
Proof. exact init_parents_length. Qed.
Print Assumptions C14_init_population_has_mu_members.

(* every member's search point is one of the starting points, and its fitness pair belongs to ITS OWN search point *)
Theorem C14_init_members_from_starting_points_consistent :
  forall (X V : Type) (f : X -> V) (P : list X) (mu : nat) (oracle : list nat) (m : iind X V),
    In m (init_parents X V f P mu oracle) ->
    In (ipt m) P /\ ipen m = f (ipt m) /\ iunp m = f (ipt m).
Proof. exact init_parents_member. Qed.
Print Assumptions C14_init_members_from_starting_points_consistent.

(* (penalized, unpenalized) = (fp x, f x) for every penalized evaluation fp that agrees with f on the starting points: the
   PenalizingEvaluator on feasible points (C14_penalized_eval_identity); init() rejects infeasible starting points *)
Theorem C14_init_fitness_pair_of_own_point :
  forall (X V : Type) (f : X -> V) (P : list X) (mu : nat) (oracle : list nat) (fp : X -> V),
    (forall x, In x P -> fp x = f x) ->
    forall m, In m (init_parents X V f P mu oracle) -> (ipen m, iunp m) = (fp (ipt m), f (ipt m)).
Proof. exact init_parents_fitness_pair. Qed.
Print Assumptions C14_init_fitness_pair_of_own_point.

(* at most mu starting points: the first |P| members are P in order (for any oracle) *)
Theorem C14_init_keeps_all_points_when_at_most_mu :
  forall (X V : Type) (f : X -> V) (P : list X) (mu : nat) (oracle : list nat),
    P <> [] -> length P <= mu ->
    firstn (length P) (init_parents X V f P mu oracle) = map (ind_of X V f) P /\
    firstn (length P) (map ipt (init_parents X V f P mu oracle)) = P.
Proof. exact init_parents_prefix. Qed.
Print Assumptions C14_init_keeps_all_points_when_at_most_mu.

(* the whole population for an oracle as random::discrete produces it: the first numPoints starting points (all of P if
   |P| <= mu, NONE if |P| > mu), then P[oracle[k]] *)
Theorem C14_init_population_structure :
  forall (X V : Type) (f : X -> V) (P : list X) (mu : nat) (oracle : list nat) (d : X),
    P <> [] -> oracle_ok (length P) mu oracle = true ->
    init_parents X V f P mu oracle =
    map (ind_of X V f) (firstn (num_points (length P) mu) P) ++ map (fun i => ind_of X V f (nth i P d)) oracle.
Proof. exact init_parents_structure. Qed.
Print Assumptions C14_init_population_structure.

(* more than mu starting points: what the code does is mu random copies (with replacement), NOT the first mu points *)
Theorem C14_init_more_than_mu_points_all_random_copies :
  forall (X V : Type) (f : X -> V) (P : list X) (mu : nat) (oracle : list nat) (d : X),
    mu < length P -> oracle_ok (length P) mu oracle = true ->
    init_parents X V f P mu oracle = map (fun i => ind_of X V f (nth i P d)) oracle /\ length oracle = mu.
Proof. exact init_parents_more_than_mu. Qed.
Print Assumptions C14_init_more_than_mu_points_all_random_copies.

(* solution() after init *)
Theorem C14_init_solution_consistent :
  forall (X V : Type) (f : X -> V) (P : list X) (mu : nat) (oracle : list nat),
    P <> [] ->
    length (init_solution X V (init_parents X V f P mu oracle)) = mu /\
    (forall x v, In (x, v) (init_solution X V (init_parents X V f P mu oracle)) -> In x P /\ v = f x) /\
    init_solution X V (init_parents X V f P mu oracle) =
      map (fun x => (x, f x)) (map ipt (init_parents X V f P mu oracle)).
Proof. exact init_solution_spec. Qed.
Print Assumptions C14_init_solution_consistent.

(* SteadyStateMOCMA: sortRankOneToFront permutes parents and solution, rank-1 individuals first, for ANY rank-1 test *)
Theorem C14_init_steady_state_mocma :
  forall (X V : Type) (f : X -> V) (is1 : iind X V -> bool) (P : list X) (mu : nat) (oracle : list nat),
    P <> [] ->
    Permutation (ssmocma_init X V f is1 P mu oracle) (init_parents X V f P mu oracle) /\
    length (ssmocma_init X V f is1 P mu oracle) = mu /\
    (forall m, In m (ssmocma_init X V f is1 P mu oracle) ->
       In (ipt m) P /\ ipen m = f (ipt m) /\ iunp m = f (ipt m)) /\
    partitioned (iind X V) is1 (ssmocma_init X V f is1 P mu oracle) /\
    Permutation (init_solution X V (ssmocma_init X V f is1 P mu oracle))
                (init_solution X V (init_parents X V f P mu oracle)).
Proof. exact ssmocma_init_spec. Qed.
Print Assumptions C14_init_steady_state_mocma.

Theorem C14_sort_rank_one_to_front :
  forall (A : Type) (is1 : A -> bool) (l : list A),
    Permutation (ss_sort is1 l) l /\ partitioned A is1 (ss_sort is1 l) /\
    (forall a b, Forall (fun x => is1 x = true) a -> Forall (fun x => is1 x = false) b -> ss_sort is1 (a ++ b) = a ++ b).
Proof.
  intros A is1 l. split; [apply ss_sort_perm|]. split; [apply ss_sort_partitioned|]. apply ss_sort_partitioned_id.
Qed.
Print Assumptions C14_sort_rank_one_to_front.

(* composition with the generation loop: started from ANY non-empty list of feasible starting points (fewer, as many or more
   than mu, duplicates allowed), after init and after any number of generations of the generational / steady-state loop
   solution() has mu elements (x, f(closest feasible x)) = (x, f x) for feasible x, and every reported point satisfies every
   predicate that holds for the starting points and all offspring *)
Theorem C14_init_then_generations_invariant :
  forall (f : list Z -> list Z) feasible closest alpha m lcs mu d (Pred : list Z -> Prop),
    valid_oracle lcs -> 1 <= mu -> (forall x, length (f x) = d) ->
    forall (P : list (list Z)) oracle, P <> [] -> Forall (fun x => feasible x = true /\ Pred x) P ->
    let pop0 := map to_ind (init_parents _ _ f P mu oracle) in
    (forall history, Forall (Forall Pred) history ->
       let pop := run_gen f feasible closest alpha m lcs mu history pop0 in
       length (solution pop) = mu /\
       forall x v, In (x, v) (solution pop) ->
         Pred x /\ v = f (repaired feasible closest x) /\ (feasible x = true -> v = f x)) /\
    (forall history, Forall Pred history ->
       let pop := run_ss f feasible closest alpha m lcs mu history pop0 in
       length (solution pop) = mu /\
       forall x v, In (x, v) (solution pop) ->
         Pred x /\ v = f (repaired feasible closest x) /\ (feasible x = true -> v = f x)).
Proof. exact init_then_generations. Qed.
Print Assumptions C14_init_then_generations_invariant.

(* RVEA: the population size computed from approxMu (lattice ticks) is at least approxMu *)
Theorem C14_rvea_population_size_at_least_approx_mu :
  forall objectives approx_mu, 2 <= objectives -> 1 <= approx_mu -> approx_mu <= rvea_mu objectives approx_mu.
Proof. exact rvea_mu_ge. Qed.
Print Assumptions C14_rvea_population_size_at_least_approx_mu.

Theorem C14_init_examples :
  (oracle_ok 2 4 [1; 0] = true /\
   init_parents nat nat sq [3; 5] 4 [1; 0] = [mk_iind 3 9 9; mk_iind 5 25 25; mk_iind 5 25 25; mk_iind 3 9 9] /\
   init_solution nat nat (init_parents nat nat sq [3; 5] 4 [1; 0]) = [(3, 9); (5, 25); (5, 25); (3, 9)]) /\
  (oracle_ok 4 2 [3; 3] = true /\
   init_parents nat nat sq [3; 5; 7; 2] 2 [3; 3] = [mk_iind 2 4 4; mk_iind 2 4 4] /\
   init_parents nat nat sq [3; 5; 7; 2] 2 [2; 0] = [mk_iind 7 49 49; mk_iind 3 9 9]) /\
  (rvea_mu 2 5 = 5 /\ rvea_mu 3 7 = 10 /\ rvea_mu 3 10 = 10 /\ rvea_mu 3 11 = 15).
Proof. exact (conj init_example_fewer_than_mu (conj init_example_more_than_mu rvea_mu_examples)). Qed.
Print Assumptions C14_init_examples.
