(* C14 — Multi-objective optimizers keep a consistent, feasible, elitist population.
   Only statements + `exact`; proofs live in C14Proofs.v, the executable model in C14Model.v;
   dominance / rank definition / hv_spec are imported from C13Model.v, C13Proofs.v.

   PROVED here (axiom-free; lists, nat, Z; all population sizes, dimensions, mu):
     * the model of IndicatorBasedSelection::operator() (whole fronts deselected from the worst rank
       while the rest still has >= mu members, then one leastContributors(front, archive, popSize-mu)
       call) marks exactly mu individuals and never keeps a worse-ranked individual while
       discarding a better-ranked one — for ANY indicator whose leastContributors returns K
       distinct indices into the front it is given (valid_oracle), and for any rank list with
       ranks >= 1, in particular the rank definition of C13;
     * the one-at-a-time leastContributors loop of HypervolumeIndicator / AdditiveEpsilonIndicator /
       CrowdingDistance is such a valid oracle for ANY leastContributor returning an index into its
       non-empty argument;
     * PenalizingEvaluator: unpenalized = f(repaired point) (also with re-evaluations of a
       deterministic f), penalized = unpenalized + alpha*|t-s|^2, both = f(s) for feasible s;
       the box handler's closest point is feasible and is the identity on feasible points;
     * steady-state step (push offspring, select mu, overwrite the first unselected parent): if the
       indicator's leastContributor returns an index of minimal EXACT hypervolume contribution
       w.r.t. the reference point r (contribution measured inside the front it is given), then
       hv_spec r never decreases and the size stays mu; such a leastContributor exists (hv_lc).
   ASSUMPTION of the last theorem (boundary of the claim, see DESIGN.md C14): the indicator is
   configured with the SAME fixed reference point (indicator().setReference(r)); with the default
   (no reference) the implicit reference moves and the statement is false for the code.
   NOT PROVED, only compared/monitored on every run (tools/c14.py):
     * that the C++ contribution routines return a least contributor (exact brute-force check
       in Python on small-integer fronts, and against contribs_spec extracted from Coq);
     * NSGA3Indicator / CrowdingDistance choices (only validity of the returned index set);
     * the per-generation invariants of MOCMA, SteadyStateMOCMA, SMSEMOA, RealCodedNSGAII/III, MOEAD,
       RVEA (size, value = objective at the closest feasible point, box, hypervolume monotone). *)
From Coq Require Import List ZArith Arith.
From SharkV Require Import ListAux C13Model C13Proofs C14Model C14Proofs.
Import ListNotations.

Theorem C14_indicator_selection_count :
  forall lcs d S mu, valid_oracle lcs -> same_dim d S -> 1 <= mu <= length S ->
    let sel := o_sel (snd (indicator_selection lcs S mu)) in
    count_true sel = mu /\ length sel = length S.
Proof. exact indicator_selection_count. Qed.
Print Assumptions C14_indicator_selection_count.

Theorem C14_indicator_selection_rank_monotone :
  forall lcs d S mu, valid_oracle lcs -> same_dim d S -> 1 <= mu <= length S ->
    let r := fst (indicator_selection lcs S mu) in
    let sel := o_sel (snd (indicator_selection lcs S mu)) in
    is_rank_assignment S r /\
    forall i j, i < length S -> j < length S ->
      nth i sel false = true -> nth j sel false = false -> nth i r 0 <= nth j r 0.
Proof. exact indicator_selection_rank_monotone. Qed.
Print Assumptions C14_indicator_selection_rank_monotone.

(* the same two facts for an arbitrary rank list (whatever sorting algorithm produced it) *)
Theorem C14_selection_any_ranks :
  forall lcs, valid_oracle lcs -> forall r S mu,
    1 <= mu <= length r -> (forall i, i < length r -> 1 <= nth i r 0) ->
    let sel := o_sel (select_with_ranks lcs r S mu) in
    (count_true sel = mu /\ length sel = length r) /\
    forall i j, i < length r -> j < length r ->
      nth i sel false = true -> nth j sel false = false -> nth i r 0 <= nth j r 0.
Proof.
  intros lcs V r S mu Hmu R1. split.
  - exact (selection_count lcs V r S mu Hmu R1).
  - exact (selection_rank_monotone lcs V r S mu Hmu R1).
Qed.
Print Assumptions C14_selection_any_ranks.

Theorem C14_one_at_a_time_least_contributors_valid :
  forall lc, (forall P A, P <> [] -> lc P A < length P) -> valid_oracle (least_contributors lc).
Proof. exact least_contributors_valid. Qed.
Print Assumptions C14_one_at_a_time_least_contributors_valid.

Theorem C14_penalized_eval_identity :
  forall f feasible closest alpha m s,
    let t := repaired feasible closest s in
    let '(unp, pen) := penalized_eval f feasible closest alpha m s in
    unp = f t /\
    pen = map (fun v => (v + alpha * norm_sqr_diff t s)%Z) (f t) /\
    (feasible s = true -> unp = f s /\ pen = f s).
Proof. exact penalized_eval_spec. Qed.
Print Assumptions C14_penalized_eval_identity.

Theorem C14_box_closest_point_feasible :
  forall lo hi s, Forall2 Z.le lo hi ->
    box_feasible lo hi (box_closest lo hi s) = true /\
    (box_feasible lo hi s = true -> box_closest lo hi s = s).
Proof. intros. split; [now apply box_closest_feasible|apply box_closest_id]. Qed.
Print Assumptions C14_box_closest_point_feasible.

Theorem C14_steady_state_hv_monotone :
  forall (lc : list point -> list point -> nat) (ref : point),
    (forall F A, F <> [] ->
       lc F A < length F /\
       forall j, j < length F -> (contrib_spec ref F (lc F A) <= contrib_spec ref F j)%Z) ->
    forall d P o, same_dim d (P ++ [o]) -> 1 <= length P ->
      (hv_spec ref P <= hv_spec ref (ss_step lc P o))%Z /\ length (ss_step lc P o) = length P.
Proof. exact steady_state_step. Qed.
Print Assumptions C14_steady_state_hv_monotone.

(* the hypothesis is satisfiable: the exact least contributor w.r.t. ref *)
Theorem C14_steady_state_hv_monotone_exact_indicator :
  forall d ref P o, same_dim d (P ++ [o]) -> 1 <= length P ->
    (hv_spec ref P <= hv_spec ref (ss_step (hv_lc ref) P o))%Z /\
    length (ss_step (hv_lc ref) P o) = length P.
Proof. exact steady_state_hv_lc. Qed.
Print Assumptions C14_steady_state_hv_monotone_exact_indicator.

Theorem C14_selection_example :
  let S := [[1; 5]; [2; 3]; [2; 3]; [4; 4]; [3; 1]; [5; 5]; [1; 5]]%Z in
  same_dim 2 S /\
  fst (indicator_selection (least_contributors (hv_lc [6; 6]%Z)) S 5) = [1; 1; 1; 2; 1; 3; 1] /\
  o_sel (snd (indicator_selection (least_contributors (hv_lc [6; 6]%Z)) S 5)) =
    [true; true; true; false; true; false; true] /\
  o_K (snd (indicator_selection (least_contributors (hv_lc [6; 6]%Z)) S 4)) = 1 /\
  count_true (o_sel (snd (indicator_selection (least_contributors (hv_lc [6; 6]%Z)) S 4))) = 4.
Proof. exact selection_example. Qed.
Print Assumptions C14_selection_example.

Theorem C14_steady_state_example :
  ss_step (hv_lc [6; 6]%Z) [[1; 5]; [3; 3]; [5; 1]]%Z [2; 2]%Z = [[1; 5]; [2; 2]; [5; 1]]%Z /\
  hv_spec [6; 6]%Z [[1; 5]; [3; 3]; [5; 1]]%Z = 13%Z /\
  hv_spec [6; 6]%Z [[1; 5]; [2; 2]; [5; 1]]%Z = 18%Z.
Proof. exact steady_state_example. Qed.
Print Assumptions C14_steady_state_example.
