(* C04 — executable model of KernelExpansion (definitions only), as coded.
   Anchor: include/shark/Models/Kernels/KernelExpansion.h (setStructure, parameterVector, setParameterVector,
   numberOfParameters, eval).  The kernel is an abstract function of two inputs (the batch evaluation
   mep_kernel->operator()(basisBatch, patterns) is the matrix of its values; that this holds for every kernel class is property C05).
   The basis is a list of batches; alpha has one row per basis element (row-major in the parameter vector), then the offset. *)
From Coq Require Import List Arith Bool.
From SharkV Require Import C04Model.
Import ListNotations.
Set Implicit Arguments.

Section Kexp.
Variable A : Type.
Variables (zero : A) (add mul : A -> A -> A).
Variable X : Type.                       (* InputType *)
Variable k : X -> X -> A.                (* the kernel *)

Record kexp := { ke_basis : list (list X); ke_nout : nat; ke_alpha : list (list A); ke_b : list A (* [] = no offset *) }.
Definition ke_nb (m : kexp) : nat := length (concat (ke_basis m)).
(* numberOfParameters / parameterVector / setParameterVector: to_vector(m_alpha) | m_b *)
Definition ke_nparams (m : kexp) : nat := ke_nb m * ke_nout m + length (ke_b m).
Definition ke_params (m : kexp) : list A := concat (ke_alpha m) ++ ke_b m.
Definition ke_set (m : kexp) (theta : list A) : kexp :=
  let n := ke_nb m * ke_nout m in
  {| ke_basis := ke_basis m; ke_nout := ke_nout m;
     ke_alpha := chunk (ke_nout m) (ke_nb m) (firstn n theta);
     ke_b := match ke_b m with [] => [] | _ => firstn (length (ke_b m)) (skipn n theta) end |}.

(* eval: output = repeat(b) or 0; for every basis batch: K = kernel(batch, patterns);
   output += trans(K) * alpha(batchStart .. batchEnd) *)
Definition ke_eval_batch (m : kexp) (P : list X) : list (list A) :=
  let out0 := map (fun _ => match ke_b m with [] => zeros zero (ke_nout m) | b => b end) P in
  fst (fold_left (fun (st : list (list A) * nat) batch =>
                    let (out, start) := st in
                    let K := map (fun bx => map (fun x => k bx x) P) batch in
                    let Ab := firstn (length batch) (skipn start (ke_alpha m)) in
                    (* row p of trans(K) * Ab = sum_j K(j, p) * Ab(j) *)
                    let upd := map (fun p => vm zero add mul (ke_nout m) (map (fun Kj => nth p Kj zero) K) Ab) (seq 0 (length P)) in
                    (madd add out upd, start + length batch))
                 (ke_basis m) (out0, 0)).
(* AbstractModel::eval(InputType const&, OutputType&): a batch of one *)
Definition ke_eval (m : kexp) (x : X) : list A := nth 0 (ke_eval_batch m [x]) [].

End Kexp.

(* the two kernels used in the exact runs (the same definitions as C05Model.k_lin / k_poly) *)
Section KexpKernels.
Variable A : Type.
Variables (zero one : A) (add mul : A -> A -> A).
Fixpoint kpow (b : A) (n : nat) : A := match n with 0 => one | S n' => mul b (kpow b n') end.
Definition kx_lin (x z : list A) : A := dot zero add mul x z.
Definition kx_poly (d : nat) (c : A) (x z : list A) : A := kpow (add (dot zero add mul x z) c) d.
End KexpKernels.
