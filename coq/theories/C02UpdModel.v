(* C02 — cholesky_decomposition::update(alpha, beta, v), the rank-one update of a Cholesky factor: executable model,
   definitions only.

   Mirrors  /repo/include/shark/LinAlg/BLAS/decompositions.hpp  cholesky_decomposition::update as coded:
     if(beta == 0){ m_cholesky *= sqrt(alpha); return; }
     temp = v; beta_prime = 1; a = sqrt(alpha);
     for j: Ljj = a*L(j,j); dj = Ljj*Ljj; wj = temp(j); swj2 = beta*wj*wj; gamma = dj*beta_prime + swj2;
            x = dj + swj2/beta_prime; if(x <= 0) throw; nLjj = sqrt(x); L(j,j) = nLjj; beta_prime += swj2/dj;
            if(j+1 < n){ col *= a; temp -= (wj/Ljj)*col; if(gamma == 0) continue; col *= nLjj/Ljj; col += (nLjj*beta*wj/gamma)*temp; }
   (col = rows j+1..n-1 of column j).  (C11Model.chol_update is the list-based model used for the CMA proofs over R; this one
   is over the abstract field record of C02Model.v, extractable with Qc, with the exact-sqrt-on-the-values-met device.)
   GHOST: the result carries the list of the arguments the square root was taken of (alpha, then x of every column). *)
From Coq Require Import List Arith Bool.
From SharkV Require Import C02Model.
Import ListNotations.

Section Upd.
Variable A : Type.
Variable F : ops A.
Local Notation "0" := (fzero F).
Local Notation "1" := (fone F).
Local Infix "+" := (fadd F).
Local Infix "*" := (fmul F).
Local Infix "-" := (fsub F).
Local Infix "/" := (fdiv F).
Local Notation mat := (mat A).
Local Notation vec := (vec A).

Inductive ustate :=
| UGo (L : mat) (temp : vec) (bp : A) (sq : list A)
| UThrow (j : nat) (L : mat).          (* std::invalid_argument at column j; the matrix as left behind *)

(* one iteration of the loop over the columns *)
Definition upd_col (n j : nat) (a beta : A) (L : mat) (temp : vec) (bp : A) (sq : list A) : ustate :=
  let Ljj := a * L j j in
  let dj := Ljj * Ljj in
  let wj := temp j in
  let swj2 := beta * wj * wj in
  let gamma := dj * bp + swj2 in
  let x := dj + swj2 / bp in
  if fleb F x 0 then UThrow j L
  else
    let nLjj := fsqrt F x in
    let bp' := bp + swj2 / dj in
    let l1 := fun i => L i j * a in
    let t1 := memo A F n (fun i => if Nat.ltb j i && Nat.ltb i n then temp i - (wj / Ljj) * l1 i else temp i) in
    UGo (memo2 A F n (fun i c =>
           if Nat.eqb c j then
             (if Nat.eqb i j then nLjj
              else if Nat.ltb j i && Nat.ltb i n then
                (if feqb F gamma 0 then l1 i else l1 i * (nLjj / Ljj) + (nLjj * beta * wj / gamma) * t1 i)
              else L i c)
           else L i c))
        t1 bp' (sq ++ [x]).

Fixpoint upd_loop (n : nat) (a beta : A) (k : nat) (L : mat) (temp : vec) (bp : A) (sq : list A) : ustate :=
  match k with
  | O => UGo L temp bp sq
  | S k' =>
    match upd_loop n a beta k' L temp bp sq with
    | UGo L1 t1 bp1 sq1 => upd_col n k' a beta L1 t1 bp1 sq1
    | r => r
    end
  end.

Inductive uresult :=
| UOk (L : mat) (sq : list A)
| UExc (j : nat) (L : mat).

(* update(alpha, beta, v) on an n x n factor, n = v.size() *)
Definition chol_update (n : nat) (alpha beta : A) (L : mat) (v : vec) : uresult :=
  if feqb F beta 0 then UOk (memo2 A F n (fun i c => L i c * fsqrt F alpha)) [alpha]
  else
    match upd_loop n (fsqrt F alpha) beta n L v 1 [alpha] with
    | UGo L' _ _ sq => UOk L' sq
    | UThrow j L' => UExc j L'
    end.

End Upd.
