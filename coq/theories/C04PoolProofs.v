(* C04 — PoolingLayer and ResizeLayer: batch = single, the pooled value is the input at the coded arg max, the coded
   derivatives are the adjoints (scatter into a cleared buffer).  Any commutative ring, axiom-free.  Model: C04Pool.v. *)
From Coq Require Import List Arith Bool Lia Ring PeanoNat ArithRing.
From SharkV Require Import C04Model C04Conv C04Pool C04Aux C04Proofs C04SumProofs C04ConvProofs C04ConvThmProofs.
Import ListNotations.

Section PoolProofs.
Variable A : Type.
Variables (zero one : A) (add mul sub : A -> A -> A) (opp : A -> A).
Hypothesis Rth : ring_theory zero one add mul sub opp eq.
Add Ring AringP : Rth.

Infix "+" := add : CA_scope.
Infix "*" := mul : CA_scope.
Local Open Scope CA_scope.
Notation getA := (get zero).
Notation bsumA := (bsum zero add).
Notation dotA := (dot zero add mul).
Notation vaddA := (vadd add).
Notation vscaleA := (vscale mul).
Notation frA := (fr A zero add mul).
Notation bsum_addR := (bsum_add A zero one add mul sub opp Rth).
Notation bsum_mul_lR := (bsum_mul_l A zero one add mul sub opp Rth).
Notation bsum_mul_rR := (bsum_mul_r A zero one add mul sub opp Rth).
Notation bsum_swapR := (bsum_swap A zero one add mul sub opp Rth).
Notation bsum_prodR := (bsum_prod A zero one add mul sub opp Rth).
Notation bsum_S_lR := (bsum_S_l A zero one add mul sub opp Rth).
Notation dot_getR := (dot_get A zero one add mul sub opp Rth).
Notation fr_bsumR := (fr_bsum A zero one add mul sub opp Rth).
Notation get_vaddR := (get_vadd A zero one add mul sub opp Rth).
Notation get_vscaleR := (get_vscale A zero one add mul sub opp Rth).

(* ---------------- accumulating into a buffer ---------------- *)
Lemma upd_length (v : list A) i f : length (upd v i f) = length v.
Proof. revert i; induction v as [|x v IH]; intros [|i]; simpl; auto. Qed.

Lemma dot_upd (v dx : list A) i a :
  length v = length dx -> dotA (upd v i (fun d => d + a)) dx = dotA v dx + a * getA dx i.
Proof.
  unfold get. revert dx i; induction v as [|x v IH]; intros [|y dx] i L; simpl in *; try discriminate.
  - destruct i; simpl; ring.
  - destruct i; simpl; [ring|]. rewrite IH by lia. ring.
Qed.

(* a loop of accumulating steps: the scalar product with dx grows by the sum of the steps' contributions *)
Lemma loop_dot (dx : list A) (step : list A -> nat -> list A) (val : nat -> A) n :
  (forall v k, length v = length dx -> length (step v k) = length dx /\ dotA (step v k) dx = dotA v dx + val k) ->
  forall s v, length v = length dx ->
    length (fold_left step (seq s n) v) = length dx /\
    dotA (fold_left step (seq s n) v) dx = dotA v dx + bsumA n (fun k => val (s + k)%nat).
Proof.
  intros H. induction n; intros s v L; cbn [seq fold_left].
  - split; auto. simpl. ring.
  - destruct (H v s L) as [L1 D1]. destruct (IHn (S s) (step v s) L1) as [L2 D2]. split; auto.
    rewrite D2, D1, bsum_S_lR. rewrite Nat.add_0_r.
    rewrite (bsum_ext A zero add n (fun k => val (S s + k)%nat) (fun i => val (s + S i)%nat)) by (intros; f_equal; lia).
    ring.
Qed.

Lemma zeros_dot n dx : dotA (zeros zero n) dx = zero.
Proof. apply (dot_zeros_l A zero one add mul sub opp Rth). Qed.

(* ---------------- max pooling ---------------- *)
Variable ltb : A -> A -> bool.
Notation pool_maxA := (pool_max zero ltb).
Notation pool_amaxA := (pool_amax zero ltb).
Notation pool_eval_imgA := (pool_eval_img zero ltb).
Notation pool_wid_imgA := (pool_wid_img zero add ltb).

(* the value loop and the arg-max loop run in lockstep: the pooled value is the input at the coded arg max, whatever `<` is *)
Lemma pool_lockstep C (x : list A) c l mv mi :
  mv = getA x (mi * C + c)%nat ->
  let st := fold_left (fun (st : A * nat) idx => let v := getA x (idx * C + c)%nat in if ltb (fst st) v then (v, idx) else st) l (mv, mi) in
  fst st = fold_left (fun mv idx => let v := getA x (idx * C + c)%nat in if ltb mv v then v else mv) l mv /\
  fst st = getA x (snd st * C + c)%nat.
Proof.
  revert mv mi; induction l as [|idx l IH]; intros mv mi E; cbn [fold_left].
  - simpl. auto.
  - cbv zeta. cbn [fst]. destruct (ltb mv (getA x (idx * C + c)%nat)).
    + apply IH. reflexivity.
    + apply IH. exact E.
Qed.

Theorem pool_value g (x : list A) p c :
  p < (pool_oh g * pool_ow g)%nat -> c < pC g ->
  getA (pool_eval_imgA g x) (p * pC g + c)%nat = getA x (pool_amaxA g x p c * pC g + c)%nat.
Proof.
  intros Hp Hc. unfold pool_eval_img.
  rewrite get_tab by (unfold pool_nout; apply lt_prod_l; auto).
  rewrite (dm_div p (pC g) c Hc), (dm_mod p (pC g) c Hc).
  unfold pool_max, pool_amax.
  destruct (pool_lockstep (pC g) x c (patch g p) (getA x (patch_start g p * pC g + c)%nat) (patch_start g p) eq_refl) as [E1 E2].
  cbv zeta in E1, E2. rewrite <- E1. exact E2.
Qed.

Lemma pool_eval_length g (x : list A) : length (pool_eval_imgA g x) = pool_nout g.
Proof. apply tab_length. Qed.

(* the derivative routes every coefficient to the arg max of its patch and channel; the rest of the cleared buffer stays 0 *)
Theorem pool_wid_adjoint g (x coef dx : list A) :
  length dx = pool_nin g ->
  length (pool_wid_imgA g x coef) = pool_nin g /\
  dotA (pool_wid_imgA g x coef) dx =
  bsumA (pool_oh g * pool_ow g)%nat (fun p => bsumA (pC g) (fun c =>
    getA coef (p * pC g + c)%nat * getA dx (pool_amaxA g x p c * pC g + c)%nat)).
Proof.
  intros L. unfold pool_wid_img.
  assert (LZ : length (zeros zero (pool_nin g)) = length dx) by (unfold zeros; rewrite repeat_length; auto).
  pose proof (loop_dot dx
     (fun der p => fold_left (fun der c => upd der (pool_amaxA g x p c * pC g + c) (fun d => d + getA coef (p * pC g + c)%nat)) (seq 0 (pC g)) der)
     (fun p => bsumA (pC g) (fun c => getA coef (p * pC g + c)%nat * getA dx (pool_amaxA g x p c * pC g + c)%nat))
     (pool_oh g * pool_ow g)) as LP.
  destruct (LP) with (s := 0%nat) (v := zeros zero (pool_nin g)) as [L1 D1]; auto.
  - intros v p Lv.
    destruct (loop_dot dx
       (fun der c => upd der (pool_amaxA g x p c * pC g + c) (fun d => d + getA coef (p * pC g + c)%nat))
       (fun c => getA coef (p * pC g + c)%nat * getA dx (pool_amaxA g x p c * pC g + c)%nat) (pC g)) with (s := 0%nat) (v := v) as [L2 D2]; auto.
    intros v' c Lv'. split; [rewrite upd_length; auto|]. apply dot_upd; auto.
  - split; [rewrite L1; auto|]. rewrite D1, zeros_dot. cbn [Nat.add]. ring.
Qed.

(* where the arg max does not move, max pooling is the linear selection and the coded derivative is its adjoint: exact identity *)
Theorem pool_derivative g (x dx coef : list A) t :
  length x = pool_nin g -> length dx = pool_nin g -> length coef = pool_nout g ->
  (forall p c, p < (pool_oh g * pool_ow g)%nat -> c < pC g ->
      pool_amaxA g (vaddA x (vscaleA t dx)) p c = pool_amaxA g x p c) ->
  dotA coef (pool_eval_imgA g (vaddA x (vscaleA t dx))) =
  dotA coef (pool_eval_imgA g x) + t * dotA (pool_wid_imgA g x coef) dx.
Proof.
  intros Lx Ld Lc Hs.
  destruct (pool_wid_adjoint g x coef dx Ld) as [_ D]. rewrite D.
  rewrite !dot_getR, Lc. unfold pool_nout. rewrite !(bsum_prodR (pool_oh g * pool_ow g)%nat (pC g)).
  rewrite bsum_mul_lR, <- bsum_addR. apply bsum_ext; intros p Hp.
  rewrite bsum_mul_lR, <- bsum_addR. apply bsum_ext; intros c Hc.
  rewrite !pool_value by auto. rewrite (Hs p c Hp Hc).
  rewrite get_vaddR by (unfold vscale; rewrite map_length; lia). rewrite get_vscaleR. ring.
Qed.

(* batch = single (the kernel loops over the images) *)
Theorem pool_batch_eq_single g (X X' : list (list A)) r r' :
  r < length X -> r' < length X' -> nth r X [] = nth r' X' [] ->
  nth r (pool_eval_batch zero ltb g X) [] = pool_eval zero ltb g (nth r X []) /\
  nth r (pool_eval_batch zero ltb g X) [] = nth r' (pool_eval_batch zero ltb g X') [].
Proof.
  intros H1 H2 E. unfold pool_eval, pool_eval_batch.
  rewrite (nth_map_in _ X r [] []) by auto. rewrite (nth_map_in _ X' r' [] []) by auto. rewrite E. simpl. auto.
Qed.

(* ---------------- the tie rule: the FIRST maximum in scan order (row by row through the patch) wins ---------------- *)
Definition strict_weak (lt : A -> A -> bool) : Prop :=
  (forall a b c, lt a b = true -> lt b c = true -> lt a c = true) /\
  (forall a b c, lt a b = true -> lt a c = true \/ lt c b = true).

Definition scan_inv (v : nat -> A) (P : list nat) (m : A) (i : nat) : Prop :=
  exists P1 P2, P = P1 ++ i :: P2 /\ m = v i /\
    (forall j, In j P1 -> ltb (v j) m = true) /\ (forall j, In j P2 -> ltb m (v j) = false).

Lemma scan_fold (v : nat -> A) : strict_weak ltb ->
  forall rest P m i, scan_inv v P m i ->
    scan_inv v (P ++ rest)
      (fst (fold_left (fun (st : A * nat) idx => if ltb (fst st) (v idx) then (v idx, idx) else st) rest (m, i)))
      (snd (fold_left (fun (st : A * nat) idx => if ltb (fst st) (v idx) then (v idx, idx) else st) rest (m, i))).
Proof.
  intros [TR CT]. induction rest as [|e rest IH]; intros P m i Inv; cbn [fold_left].
  - rewrite app_nil_r. exact Inv.
  - replace (P ++ e :: rest) with ((P ++ [e]) ++ rest) by (rewrite <- app_assoc; reflexivity).
    cbn [fst]. destruct (ltb m (v e)) eqn:E; apply IH.
    + destruct Inv as (P1 & P2 & EP & Em & H1 & H2). exists (P1 ++ i :: P2), []. repeat split.
      * rewrite EP. reflexivity.
      * intros j Hj. apply in_app_or in Hj. destruct Hj as [Hj|[<-|Hj]].
        -- apply (TR _ m); auto.
        -- rewrite <- Em. exact E.
        -- destruct (CT m (v e) (v j) E) as [Q|Q]; auto. rewrite (H2 j Hj) in Q. discriminate.
      * intros j [].
    + destruct Inv as (P1 & P2 & EP & Em & H1 & H2). exists P1, (P2 ++ [e]). repeat split; auto.
      * rewrite EP, <- app_assoc. reflexivity.
      * intros j Hj. apply in_app_or in Hj. destruct Hj as [Hj|[<-|[]]]; auto.
Qed.

Theorem pool_tie_rule g (x : list A) p c :
  strict_weak ltb ->
  let a := pool_amaxA g x p c in
  let val := fun idx => getA x (idx * pC g + c)%nat in
  exists L1 L2, patch_start g p :: patch g p = L1 ++ a :: L2 /\
    (forall j, In j L1 -> ltb (val j) (val a) = true) /\ (forall j, In j L2 -> ltb (val a) (val j) = false).
Proof.
  intros SW a val.
  pose proof (scan_fold val SW (patch g p) [patch_start g p] (val (patch_start g p)) (patch_start g p)) as SF.
  set (st := fold_left (fun (st : A * nat) idx => if ltb (fst st) (val idx) then (val idx, idx) else st) (patch g p)
                       (val (patch_start g p), patch_start g p)) in SF.
  assert (Ea : a = snd st) by reflexivity.
  destruct SF as (L1 & L2 & EL & Em & H1 & H2).
  { exists [], []. repeat split; auto; intros j []. }
  exists L1, L2. rewrite Ea. repeat split.
  - exact EL.
  - intros j Hj. rewrite <- Em. apply H1; auto.
  - intros j Hj. rewrite <- Em. apply H2; auto.
Qed.

(* ---------------- ResizeLayer: a linear map (any weights, any tap positions) and its adjoint ---------------- *)
Variables (rsub rdiv : A -> A -> A) (ropp : A -> A) (ofnat : nat -> A) (floorn : A -> nat).
Notation tap_indexA := (tap_index mul rdiv ofnat floorn).
Notation tap_weightA := (tap_weight add mul rsub rdiv ropp ofnat floorn).
Notation resize_eval_imgA := (resize_eval_img zero add mul rsub rdiv ropp ofnat floorn).
Notation resize_wid_imgA := (resize_wid_img zero add mul rsub rdiv ropp ofnat floorn).

Lemma resize_eval_get g (x : list A) p c :
  p < resize_npoints g -> c < rC g ->
  getA (resize_eval_imgA g x) (p * rC g + c)%nat =
  bsumA 16 (fun kl => tap_weightA g p kl * getA x (tap_index mul rdiv ofnat floorn g p kl * rC g + c)%nat).
Proof.
  intros Hp Hc. unfold resize_eval_img.
  rewrite get_tab by (unfold resize_nout; apply lt_prod_l; auto).
  rewrite (dm_div p (rC g) c Hc), (dm_mod p (rC g) c Hc). reflexivity.
Qed.

Theorem resize_wid_adjoint g (coef dx : list A) :
  length dx = resize_nin g -> length coef = resize_nout g ->
  length (resize_wid_imgA g coef) = resize_nin g /\
  dotA (resize_wid_imgA g coef) dx = dotA coef (resize_eval_imgA g dx).
Proof.
  intros L Lc. unfold resize_wid_img.
  assert (LZ : length (zeros zero (resize_nin g)) = length dx) by (unfold zeros; rewrite repeat_length; auto).
  set (contrib := fun p kl c => tap_weightA g p kl * getA coef (p * rC g + c)%nat * getA dx (tap_indexA g p kl * rC g + c)%nat).
  destruct (loop_dot dx
     (fun res p => fold_left (fun res kl => fold_left (fun res c =>
        upd res (tap_indexA g p kl * rC g + c) (fun d => d + tap_weightA g p kl * getA coef (p * rC g + c)%nat)) (seq 0 (rC g)) res) (seq 0 16) res)
     (fun p => bsumA 16 (fun kl => bsumA (rC g) (fun c => contrib p kl c)))
     (resize_npoints g)) with (s := 0%nat) (v := zeros zero (resize_nin g)) as [L1 D1]; auto.
  - intros v p Lv.
    destruct (loop_dot dx
       (fun res kl => fold_left (fun res c =>
          upd res (tap_indexA g p kl * rC g + c) (fun d => d + tap_weightA g p kl * getA coef (p * rC g + c)%nat)) (seq 0 (rC g)) res)
       (fun kl => bsumA (rC g) (fun c => contrib p kl c)) 16) with (s := 0%nat) (v := v) as [L2 D2]; auto.
    intros v' kl Lv'.
    destruct (loop_dot dx
       (fun res c => upd res (tap_indexA g p kl * rC g + c) (fun d => d + tap_weightA g p kl * getA coef (p * rC g + c)%nat))
       (fun c => contrib p kl c) (rC g)) with (s := 0%nat) (v := v') as [L3 D3]; auto.
    intros v'' c Lv''. split; [rewrite upd_length; auto|]. unfold contrib. apply dot_upd; auto.
  - split; [rewrite L1; auto|]. rewrite D1, zeros_dot. cbn [Nat.add].
    rewrite dot_getR, Lc. unfold resize_nout. fold (resize_npoints g). rewrite (bsum_prodR (resize_npoints g) (rC g)).
    replace (zero + bsumA (resize_npoints g) (fun k => bsumA 16 (fun kl => bsumA (rC g) (fun c => contrib k kl c))))
      with (bsumA (resize_npoints g) (fun k => bsumA 16 (fun kl => bsumA (rC g) (fun c => contrib k kl c)))) by ring.
    apply bsum_ext; intros p Hp. rewrite bsum_swapR. apply bsum_ext; intros c Hc.
    rewrite resize_eval_get by auto. rewrite bsum_mul_lR. apply bsum_ext; intros kl _. unfold contrib. ring.
Qed.

Lemma resize_eval_length g (x : list A) : length (resize_eval_imgA g x) = resize_nout g.
Proof. apply tab_length. Qed.

(* the interpolation is linear in the image, so the coded input derivative IS the derivative: exact, no remainder *)
Theorem resize_derivative g (x dx coef : list A) t :
  length x = resize_nin g -> length dx = resize_nin g -> length coef = resize_nout g ->
  dotA coef (resize_eval_imgA g (vaddA x (vscaleA t dx))) =
  dotA coef (resize_eval_imgA g x) + t * dotA (resize_wid_imgA g coef) dx.
Proof.
  intros Lx Ld Lc. destruct (resize_wid_adjoint g coef dx Ld Lc) as [_ D]. rewrite D.
  rewrite !dot_getR, Lc. unfold resize_nout. fold (resize_npoints g). rewrite !(bsum_prodR (resize_npoints g) (rC g)).
  rewrite bsum_mul_lR, <- bsum_addR. apply bsum_ext; intros p Hp.
  rewrite bsum_mul_lR, <- bsum_addR. apply bsum_ext; intros c Hc.
  rewrite !resize_eval_get by auto.
  rewrite !bsum_mul_lR, <- bsum_addR. apply bsum_ext; intros kl _.
  rewrite get_vaddR by (unfold vscale; rewrite map_length; lia). rewrite get_vscaleR. ring.
Qed.

Theorem resize_batch_eq_single g (X X' : list (list A)) r r' :
  r < length X -> r' < length X' -> nth r X [] = nth r' X' [] ->
  nth r (resize_eval_batch zero add mul rsub rdiv ropp ofnat floorn g X) [] = resize_eval zero add mul rsub rdiv ropp ofnat floorn g (nth r X []) /\
  nth r (resize_eval_batch zero add mul rsub rdiv ropp ofnat floorn g X) [] = nth r' (resize_eval_batch zero add mul rsub rdiv ropp ofnat floorn g X') [].
Proof.
  intros H1 H2 E. unfold resize_eval, resize_eval_batch.
  rewrite (nth_map_in _ X r [] []) by auto. rewrite (nth_map_in _ X' r' [] []) by auto. rewrite E. simpl. auto.
Qed.

(* ---------------- batch versions (the C++ loops over the images) ---------------- *)
Theorem resize_batch_derivative g (X dX Cf : list (list A)) t :
  rows (resize_nin g) X -> rows (resize_nin g) dX -> length dX = length X -> rows (resize_nout g) Cf -> length Cf = length X ->
  frA Cf (resize_eval_batch zero add mul rsub rdiv ropp ofnat floorn g (madd add X (map (vscaleA t) dX))) =
  frA Cf (resize_eval_batch zero add mul rsub rdiv ropp ofnat floorn g X) +
  t * frA (resize_wid zero add mul rsub rdiv ropp ofnat floorn g Cf) dX.
Proof.
  revert dX Cf; induction X as [|x X IH]; intros [|dx dX] [|c Cf] RX RD LD RC LC; simpl in *; try discriminate; try ring.
  inversion RX; inversion RD; inversion RC; subst.
  rewrite IH by (auto; lia). rewrite resize_derivative by auto. ring.
Qed.

Theorem pool_batch_derivative g (X dX Cf : list (list A)) t :
  rows (pool_nin g) X -> rows (pool_nin g) dX -> length dX = length X -> rows (pool_nout g) Cf -> length Cf = length X ->
  (forall r p c, r < length X -> p < (pool_oh g * pool_ow g)%nat -> c < pC g ->
      pool_amaxA g (vaddA (nth r X []) (vscaleA t (nth r dX []))) p c = pool_amaxA g (nth r X []) p c) ->
  frA Cf (pool_eval_batch zero ltb g (madd add X (map (vscaleA t) dX))) =
  frA Cf (pool_eval_batch zero ltb g X) + t * frA (pool_wid zero add ltb g X Cf) dX.
Proof.
  revert dX Cf; induction X as [|x X IH]; intros [|dx dX] [|c Cf] RX RD LD RC LC Hs; simpl in *; try discriminate; try ring.
  pose proof (Forall_inv RX) as Hx. pose proof (Forall_inv_tail RX) as RX'.
  pose proof (Forall_inv RD) as Hdx. pose proof (Forall_inv_tail RD) as RD'.
  pose proof (Forall_inv RC) as Hc. pose proof (Forall_inv_tail RC) as RC'. cbv beta in Hx, Hdx, Hc.
  assert (E1 : dotA c (pool_eval_imgA g (vaddA x (vscaleA t dx))) = dotA c (pool_eval_imgA g x) + t * dotA (pool_wid_imgA g x c) dx).
  { apply pool_derivative; auto. intros p c0 Hp Hc0. apply (Hs 0%nat p c0); auto. lia. }
  assert (E2 : frA Cf (pool_eval_batch zero ltb g (madd add X (map (vscaleA t) dX))) =
               frA Cf (pool_eval_batch zero ltb g X) + t * frA (pool_wid zero add ltb g X Cf) dX).
  { apply IH; auto; try lia. intros r p c0 Hr Hp Hc0. apply (Hs (S r) p c0); auto. lia. }
  unfold pool_wid in E2. rewrite E1, E2. ring.
Qed.

End PoolProofs.
