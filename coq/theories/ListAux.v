(* Shared list helpers: functional update, transposition, totals.  Axiom-free. *)
From Coq Require Import List Arith Lia Bool Permutation.
Import ListNotations.

Section Upd.
Context {A : Type}.

Fixpoint upd (k : nat) (v : A) (l : list A) : list A :=
  match l, k with
  | [], _ => []
  | _ :: t, 0 => v :: t
  | h :: t, S k' => h :: upd k' v t
  end.

Lemma upd_length k v l : length (upd k v l) = length l.
Proof. revert k; induction l as [|h t IH]; intros [|k]; simpl; auto. Qed.

Lemma nth_upd_eq k v l d : k < length l -> nth k (upd k v l) d = v.
Proof.
  revert k; induction l as [|h t IH]; intros [|k] H; simpl in *; try lia; auto.
  apply IH; lia.
Qed.

Lemma nth_upd_neq k k' v l d : k <> k' -> nth k' (upd k v l) d = nth k' l d.
Proof.
  revert k k'; induction l as [|h t IH]; intros [|k] [|k'] H; simpl; auto; try lia.
Qed.

Lemma upd_oob k v l : length l <= k -> upd k v l = l.
Proof.
  revert k; induction l as [|h t IH]; intros [|k] H; simpl in *; auto; try lia.
  f_equal; apply IH; lia.
Qed.

Lemma nth_upd k k' v l d :
  nth k' (upd k v l) d = if (k =? k') && (k <? length l) then v else nth k' l d.
Proof.
  destruct (Nat.eqb_spec k k') as [->|Hne]; simpl.
  - destruct (Nat.ltb_spec k' (length l)).
    + apply nth_upd_eq; auto.
    + rewrite upd_oob; auto.
  - apply nth_upd_neq; auto.
Qed.

Lemma upd_upd k v w l : upd k v (upd k w l) = upd k v l.
Proof.
  revert k; induction l as [|h t IH]; intros [|k]; simpl; auto. f_equal. apply IH.
Qed.

Lemma upd_nth_same k l d : upd k (nth k l d) l = l.
Proof.
  revert k; induction l as [|h t IH]; intros [|k]; simpl; auto. f_equal. apply IH.
Qed.

End Upd.

(* transposition of two indices *)
Definition tr (i j k : nat) : nat :=
  if k =? i then j else if k =? j then i else k.

Lemma tr_invol i j k : tr i j (tr i j k) = k.
Proof.
  unfold tr.
  destruct (Nat.eqb_spec k i) as [->|H1].
  - destruct (Nat.eqb_spec j i) as [->|H2]; auto. rewrite Nat.eqb_refl. auto.
  - destruct (Nat.eqb_spec k j) as [->|H2].
    + rewrite Nat.eqb_refl. auto.
    + destruct (Nat.eqb_spec k i); try lia. destruct (Nat.eqb_spec k j); lia.
Qed.

Lemma tr_lt i j k n : i < n -> j < n -> k < n -> tr i j k < n.
Proof.
  unfold tr; intros.
  destruct (k =? i); [lia|]. destruct (k =? j); lia.
Qed.

Lemma tr_inj i j a b : tr i j a = tr i j b -> a = b.
Proof. intros H. rewrite <- (tr_invol i j a), <- (tr_invol i j b). congruence. Qed.

Lemma tr_l i j : tr i j i = j.
Proof. unfold tr. rewrite Nat.eqb_refl. auto. Qed.
Lemma tr_r i j : tr i j j = i.
Proof. unfold tr. destruct (Nat.eqb_spec j i); auto. rewrite Nat.eqb_refl. auto. Qed.
Lemma tr_other i j k : k <> i -> k <> j -> tr i j k = k.
Proof.
  unfold tr; intros. destruct (Nat.eqb_spec k i); try lia. destruct (Nat.eqb_spec k j); lia.
Qed.

(* swap two positions of a list: element at k becomes old element at tr i j k *)
Definition swapl {A} (d : A) (i j : nat) (l : list A) : list A :=
  upd i (nth j l d) (upd j (nth i l d) l).

Lemma swapl_length {A} (d : A) i j l : length (swapl d i j l) = length l.
Proof. unfold swapl. rewrite !upd_length. auto. Qed.

Lemma swapl_same {A} (d : A) i l : swapl d i i l = l.
Proof. unfold swapl. rewrite upd_upd. apply upd_nth_same. Qed.

Lemma nth_swapl {A} (d : A) i j l k :
  i < length l -> j < length l ->
  nth k (swapl d i j l) d = nth (tr i j k) l d.
Proof.
  intros Hi Hj. unfold swapl, tr. rewrite !nth_upd, upd_length.
  apply Nat.ltb_lt in Hi, Hj. rewrite Hi, Hj, !andb_true_r.
  rewrite (Nat.eqb_sym i k), (Nat.eqb_sym j k).
  destruct (k =? i); auto. destruct (k =? j); auto.
Qed.

Definition tot {A} (l : list (list A)) : nat :=
  fold_right (fun x a => length x + a) 0 l.

Lemma tot_upd {A} k (v : list A) l :
  k < length l ->
  tot (upd k v l) + length (nth k l []) = tot l + length v.
Proof.
  revert k; induction l as [|h t IH]; intros [|k] H; simpl in *; try lia.
  specialize (IH k ltac:(lia)). lia.
Qed.

Lemma tot_nth_le {A} k (l : list (list A)) : length (nth k l []) <= tot l.
Proof.
  revert k; induction l as [|h t IH]; intros [|k]; simpl; try lia.
  specialize (IH k). lia.
Qed.

Lemma tot_ext_length {A B} (l : list (list A)) (l' : list (list B)) :
  length l = length l' ->
  (forall k, length (nth k l []) = length (nth k l' [])) ->
  tot l = tot l'.
Proof.
  revert l'; induction l as [|h t IH]; intros [|h' t'] HL H; simpl in *; try lia.
  pose proof (H 0) as H0; simpl in H0.
  rewrite H0. f_equal. apply IH; [lia|]. intros k. apply (H (S k)).
Qed.

Lemma tot_swapl {A} i j (l : list (list A)) :
  i < length l -> j < length l -> tot (swapl [] i j l) = tot l.
Proof.
  intros Hi Hj. unfold swapl.
  pose proof (tot_upd j (nth i l []) l Hj) as E1.
  pose proof (tot_upd i (nth j l []) (upd j (nth i l []) l)) as E2.
  rewrite upd_length in E2. specialize (E2 Hi).
  rewrite nth_upd in E2. apply Nat.ltb_lt in Hj. rewrite Hj, andb_true_r in E2.
  destruct (Nat.eqb_spec j i) as [->|Hne]; lia.
Qed.

(* sum over a duplicate-free index list is bounded by the total *)
Lemma tot_two {A} (l : list (list A)) i j :
  i <> j -> length (nth i l []) + length (nth j l []) <= tot l.
Proof.
  revert i j; induction l as [|h t IH]; intros [|i] [|j] H; simpl; try lia.
  - pose proof (tot_nth_le j t). lia.
  - pose proof (tot_nth_le i t). lia.
  - specialize (IH i j ltac:(lia)). lia.
Qed.

Fixpoint last_opt {A} (l : list A) : option A :=
  match l with
  | [] => None
  | [x] => Some x
  | _ :: t => last_opt t
  end.

Lemma last_opt_In {A} (l : list A) x : last_opt l = Some x -> In x l.
Proof.
  induction l as [|h t IH]; simpl; [discriminate|].
  destruct t; [intros [= ->]; auto|]. intros H. right. apply IH. exact H.
Qed.

Lemma last_opt_None {A} (l : list A) : last_opt l = None -> l = [].
Proof.
  induction l as [|h t IH]; simpl; auto. destruct t; [discriminate|].
  intros H. apply IH in H. discriminate.
Qed.

Fixpoint remove_nat (k : nat) (l : list nat) : list nat :=
  match l with
  | [] => []
  | h :: t => if h =? k then remove_nat k t else h :: remove_nat k t
  end.

Lemma In_remove_nat k x l : In x (remove_nat k l) <-> In x l /\ x <> k.
Proof.
  induction l as [|h t IH]; simpl; [tauto|].
  destruct (Nat.eqb_spec h k); simpl; rewrite ?IH; split; intros; try tauto.
  - destruct H as [[H|H] H2]; [subst; contradiction | tauto].
  - destruct H as [H|H]; [subst; auto | tauto].
Qed.

Lemma NoDup_remove_nat k l : NoDup l -> NoDup (remove_nat k l).
Proof.
  induction 1 as [|h t Hn Hd IH]; simpl; [constructor|].
  destruct (Nat.eqb_spec h k); auto. constructor; auto.
  rewrite In_remove_nat. tauto.
Qed.

Lemma remove_nat_length_lt k l : In k l -> length (remove_nat k l) < length l.
Proof.
  induction l as [|h t IH]; simpl; [tauto|].
  destruct (Nat.eqb_spec h k).
  - intros _. clear IH. induction t as [|a t IHt]; simpl; [lia|].
    destruct (a =? k); simpl; lia.
  - intros [H|H]; [congruence|]. simpl. apply IH in H. lia.
Qed.

Lemma skipn_skipn_add {A} n m (l : list A) : skipn n (skipn m l) = skipn (m + n) l.
Proof.
  revert l; induction m as [|m IH]; intros l; simpl; auto.
  destruct l; simpl; [destruct n; auto|apply IH].
Qed.

(* reading a contiguous range of positions out of pre ++ mid ++ post gives mid *)
Lemma flat_map_nth_range {A} (pre mid post : list (list A)) :
  flat_map (fun i => nth i (pre ++ mid ++ post) []) (seq (length pre) (length mid)) = concat mid.
Proof.
  revert pre; induction mid as [|x mid IH]; intros pre; simpl; auto.
  rewrite app_nth2, Nat.sub_diag by lia. simpl. f_equal.
  specialize (IH (pre ++ [x])). rewrite app_length in IH. simpl in IH.
  rewrite Nat.add_1_r in IH. rewrite <- IH. apply flat_map_ext. intros i.
  rewrite <- app_assoc. reflexivity.
Qed.

Lemma filter_split_perm {A} (f : A -> bool) (l : list A) :
  Permutation (filter f l ++ filter (fun x => negb (f x)) l) l.
Proof.
  induction l as [|x l IH]; simpl; auto.
  destruct (f x); simpl.
  - constructor. exact IH.
  - apply Permutation_sym. apply Permutation_cons_app. apply Permutation_sym. exact IH.
Qed.

Lemma Permutation_concat {A} (l l' : list (list A)) :
  Permutation l l' -> Permutation (concat l) (concat l').
Proof.
  induction 1; simpl; auto.
  - apply Permutation_app_head; auto.
  - rewrite !app_assoc. apply Permutation_app_tail. apply Permutation_app_comm.
  - eapply perm_trans; eauto.
Qed.
