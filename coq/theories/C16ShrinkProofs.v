(* C16 — QpMcBoxDecomp::shrink / unshrink on the state model: the full invariant (tables, data, gradient on the
   active set, box) is kept, no variable value changes (alpha, linear term, diagonal by data-set index), the
   objective is the same, and a variable is only removed when no feasible first-order step through it improves
   the objective.  Also the composite deactivateVariable of the simplex class (with deactivateExample). *)
From Coq Require Import QArith Qminmax Lqa Arith Bool List Lia.
From SharkV Require Import C08Model C08Defs C08Aux C08Proofs C16Model C16State C16Proofs C16ProofsMc C16StateDefs
  C16GradProofs C16SmoProofs C16SmoSimplexProofs C16TablesProofs C16DeactProofs C16UnshrinkProofs.
Import ListNotations.
Open Scope Q_scope.

Section Shrink.
Variable P ncl n : nat.
Variable C : Q.
Variable Mrow : nat -> list (nat * Q).
Variable Mdef : nat -> Q.
Variable K0 : nat -> nat -> Q.
Hypothesis HM : Mwf P Mrow.
Variable y0 : nat -> nat.
Variable lin0 : nat -> nat -> Q.

Notation Inv_tab := (Inv_tab P n).
Notation nv := (nv P n).
Notation Qe := (Qe P ncl Mrow Mdef K0).
Notation Qalpha := (Qalpha P ncl n Mrow Mdef K0).
Notation Inv_grad := (Inv_grad P ncl n Mrow Mdef K0).
Notation mobj := (mobj P ncl n Mrow Mdef K0).
Notation Inv_data := (Inv_data P ncl n Mrow Mdef K0).
Notation Inv_boxc := (Inv_boxc P n C).
Notation Inv_simplex := (Inv_simplex P n C).
Notation same_vars := (same_vars P n).
Notation unshrinkQ := (unshrinkQ P ncl n Mrow Mdef K0).

(* the full invariant of a solver state; simplex = true: QpMcSimplexDecomp, false: QpMcBoxDecomp *)
Definition Inv_all (simplex : bool) (s : qmst) : Prop :=
  Inv_tab s /\ Inv_data y0 lin0 s /\ Inv_grad s /\ (if simplex then Inv_simplex s else Inv_boxc s).

(* values are the same up to the position of examples / variables in the tables (the active set may differ) *)
Definition same_vals (s s' : qmst) : Prop :=
  forall e, (e < n)%nat -> exists e', (e' < n)%nat /\
    eorig s' e' = eorig s e /\ ey s' e' = ey s e /\ evsum s' e' = evsum s e /\ ediag s' e' = ediag s e /\
    forall p, (p < P)%nat ->
      malpha s' (evar s' e' p) = malpha s (evar s e p) /\
      mlin s' (evar s' e' p) = mlin s (evar s e p) /\
      vdiag s' (evar s' e' p) = vdiag s (evar s e p) /\
      ((evar s e p < actvar s)%nat -> (evar s' e' p < actvar s')%nat -> mgrad s' (evar s' e' p) = mgrad s (evar s e p)).

Lemma same_vars_vals s s' : same_vars s s' -> same_vals s s'.
Proof.
  intros H e He. destruct (H e He) as (e' & He' & A1 & A2 & A3 & A4 & A5). exists e'.
  split; [exact He'|]. split; [exact A1|]. split; [exact A2|]. split; [exact A3|]. split; [exact A4|].
  intros p Hp. destruct (A5 p Hp) as (X1 & X2 & X3 & X4).
  split; [exact X1|]. split; [exact X2|]. split; [exact X3|]. intros _ Y. apply (X4 Y).
Qed.

Lemma same_vals_refl s : same_vals s s.
Proof. intros e He. exists e. repeat split; auto. Qed.

(* composition needs the middle state to keep a variable active that is active at both ends; this holds for
   shrinking (active sets only get smaller): use same_vars for those steps *)
Lemma same_vals_vars_trans s1 s2 s3 : same_vals s1 s2 -> same_vars s2 s3 -> same_vals s1 s3.
Proof.
  intros H1 H2 e He. destruct (H1 e He) as (e' & He' & A1 & A2 & A3 & A4 & A5).
  destruct (H2 e' He') as (e'' & He'' & B1 & B2 & B3 & B4 & B5).
  exists e''. split; [exact He''|]. split; [congruence|]. split; [congruence|]. split; [congruence|]. split; [congruence|].
  intros p Hp. destruct (A5 p Hp) as (X1 & X2 & X3 & X4). destruct (B5 p Hp) as (Y1 & Y2 & Y3 & Y4).
  split; [congruence|]. split; [congruence|]. split; [congruence|].
  intros Ha1 Ha3. destruct (Y4 Ha3) as (Y5 & Y6). rewrite Y6. apply X4; assumption.
Qed.

Definition Rel (s s' : qmst) : Prop := same_vars s s' /\ mobj s' == mobj s.

Lemma Rel_refl s : Rel s s.
Proof. split; [apply same_vars_refl | reflexivity]. Qed.
Lemma Rel_trans s1 s2 s3 : Rel s1 s2 -> Rel s2 s3 -> Rel s1 s3.
Proof. intros [A1 A2] [B1 B2]. split; [apply (same_vars_trans P n s1 s2 s3); assumption | rewrite B2; exact A2]. Qed.

(* ---------------- single operations ---------------- *)
Lemma deact_var_all b (s : qmst) v : Inv_all b s -> (v < actvar s)%nat ->
  Inv_all b (deact_var s v) /\ Rel s (deact_var s v).
Proof.
  intros (I & D & G & Cn) Hv. split; [|split].
  - split; [apply deact_var_tab; assumption|]. split; [apply deact_var_data; assumption|].
    split; [apply deact_var_grad; assumption|].
    destruct b; [apply deact_var_simplex | apply deact_var_boxc]; assumption.
  - apply deact_var_same; assumption.
  - apply deact_var_obj; assumption.
Qed.

Lemma deact_ex_all b (s : qmst) e : Inv_all b s -> (e < actex s)%nat -> eact s e = 0%nat ->
  Inv_all b (deact_ex P s e) /\ Rel s (deact_ex P s e).
Proof.
  intros (I & D & G & Cn) He Hz. split; [|split].
  - split; [apply deact_ex_tab; assumption|]. split; [apply deact_ex_data; assumption|].
    split; [apply deact_ex_grad; assumption|].
    destruct b; [apply deact_ex_simplex | apply deact_ex_boxc]; assumption.
  - apply deact_ex_same; assumption.
  - apply deact_ex_obj; assumption.
Qed.

Lemma sdeact_var_all b (s : qmst) v : Inv_all b s -> (v < actvar s)%nat ->
  Inv_all b (sdeact_var P s v) /\ Rel s (sdeact_var P s v).
Proof.
  intros IA Hv. destruct (deact_var_all b s v IA Hv) as [IA1 R1]. unfold sdeact_var.
  destruct (Nat.eqb_spec (eact (deact_var s v) (vex s v)) 0) as [Z|_]; [|split; assumption].
  destruct IA as (I & _).
  assert (He : (vex s v < actex (deact_var s v))%nat).
  { destruct (dv_counts s v) as (_ & K2 & _). rewrite K2. apply (it_actex _ _ _ I). exact Hv. }
  destruct (deact_ex_all b _ _ IA1 He Z) as [IA2 R2]. split; [exact IA2 | apply (Rel_trans _ _ _ R1 R2)].
Qed.

Lemma Inv_all_set_unshr b (s : qmst) u : Inv_all b s -> Inv_all b (set_unshr s u).
Proof.
  intros ([H1 H2 H3 H4 H5 H6 H7 H8 H9 H10] & [D1 D2] & G & Cn).
  split; [constructor; cbn; assumption|]. split; [split; cbn; assumption|]. split; [exact G|].
  destruct b; exact Cn.
Qed.

Lemma unshrink_all b (s : qmst) : Inv_all b s ->
  Inv_all b (unshrinkQ s) /\ Inv_grad_all P ncl n Mrow Mdef K0 (unshrinkQ s) /\ same_vals s (unshrinkQ s) /\
  mobj (unshrinkQ s) == mobj s.
Proof.
  intros (I & D & G & Cn).
  pose proof (unshrink_grad_all P ncl n Mrow Mdef K0 HM s I G) as GA.
  destruct (Nat.eq_dec (actvar s) nv) as [E|N].
  { rewrite (unshrink_id P ncl n Mrow Mdef K0 s E) in *.
    split; [split; [exact I | split; [exact D | split; [exact G | exact Cn]]]|].
    split; [exact GA|]. split; [apply same_vals_refl | reflexivity]. }
  destruct (unshrink_fields P ncl n Mrow Mdef K0 s N) as (F1 & F2 & F3 & F4 & F5 & F6 & F7 & F8 & F9 & F10 & F11 & F12 & F13 & F14 & F15 & F16).
  split; [|split; [exact GA|split]].
  - split; [apply unshrink_tab; exact I|]. split.
    + destruct D as [D1 D2]. split.
      * intros e He. rewrite F8, F7, F12. apply D1. exact He.
      * intros x Hx. rewrite F2, F7, F3, F4, F6. rewrite Qe_unshrink. apply D2. exact Hx.
    + split.
      * intros f Hf. apply GA. rewrite F14 in Hf. exact Hf.
      * destruct b.
        -- intros e He. rewrite F11. unfold valpha. rewrite F9, F1. apply Cn. exact He.
        -- intros x Hx. rewrite F1. apply Cn. exact Hx.
  - intros e He. exists e. split; [exact He|]. rewrite F7, F8, F11, F12, F9, F1, F2, F6.
    repeat split; try reflexivity. intros Hact _. apply (unshrink_grad_active P ncl n Mrow Mdef K0 s _ I Hact).
  - unfold C16StateDefs.mobj. rewrite F1, F2. apply objf_ext3; try (intros; reflexivity).
    intros a c _ _. rewrite Qe_unshrink. reflexivity.
Qed.

(* ---------------- QpMcBoxDecomp::shrink ---------------- *)

(* a variable is only removed when it sits at a bound and the gradient pushes it against the bound: no
   feasible change of this variable improves the objective to first order *)
Lemma box_can_shrink_sound (s : qmst) a : box_can_shrink qops C s a = true ->
  ((malpha s a == 0 /\ mgrad s a <= 0) \/ (malpha s a == C /\ 0 <= mgrad s a)) /\
  (forall d, 0 <= malpha s a + d -> malpha s a + d <= C -> d * mgrad s a <= 0).
Proof.
  unfold box_can_shrink. cbn [o_eqb o_ltb o_zero qops]. intros H.
  apply orb_true_iff in H.
  assert (X : (malpha s a == 0 /\ mgrad s a <= 0) \/ (malpha s a == C /\ 0 <= mgrad s a)).
  { destruct H as [H|H]; apply andb_true_iff in H; destruct H as [H1 H2];
      apply qeqb_true in H1; apply negb_true_iff in H2; apply qltb_false in H2; [left|right]; split; assumption. }
  split; [exact X|]. intros d D1 D2. destruct X as [[X1 X2]|[X1 X2]].
  - assert (0 <= d) by lra. assert (0 <= d * (- mgrad s a)) by (apply Qmult_le_0_compat; lra). lra.
  - assert (d <= 0) by lra. assert (0 <= (- d) * mgrad s a) by (apply Qmult_le_0_compat; lra). lra.
Qed.

Lemma box_shrink_vars_all : forall a (st : qmst * bool), Inv_all false (fst st) -> (a <= actvar (fst st))%nat ->
  Inv_all false (fst (box_shrink_vars qops C a st)) /\ Rel (fst st) (fst (box_shrink_vars qops C a st)).
Proof.
  induction a as [|a IH]; intros st IA Ha; cbn [box_shrink_vars]; [split; [exact IA | apply Rel_refl]|].
  destruct (box_can_shrink qops C (fst st) a).
  - assert (Hv : (a < actvar (fst st))%nat) by lia.
    destruct (deact_var_all false (fst st) a IA Hv) as [IA1 R1].
    destruct (IH (deact_var (fst st) a, snd st || (eact (deact_var (fst st) a) (vex (fst st) a) =? 0)%nat)) as [IA2 R2].
    + exact IA1.
    + cbn [fst]. destruct (dv_counts (fst st) a) as (K1 & _). rewrite K1. lia.
    + split; [exact IA2 | apply (Rel_trans _ _ _ R1 R2)].
  - apply IH; [exact IA | lia].
Qed.

Lemma box_shrink_exs_all b : forall a (s : qmst), Inv_all b s -> (a <= actex s)%nat ->
  Inv_all b (box_shrink_exs P a s) /\ Rel s (box_shrink_exs P a s).
Proof.
  induction a as [|a IH]; intros s IA Ha; cbn [box_shrink_exs]; [split; [exact IA | apply Rel_refl]|].
  destruct (Nat.eqb_spec (eact s a) 0) as [Z|_].
  - assert (He : (a < actex s)%nat) by lia.
    destruct (deact_ex_all b s a IA He Z) as [IA1 R1].
    destruct (IH (deact_ex P s a) IA1) as [IA2 R2].
    + destruct IA as (I & _). destruct (deact_ex_plain P s a) as (_ & _ & _ & _ & _ & _ & X & _). rewrite X. lia.
    + split; [exact IA2 | apply (Rel_trans _ _ _ R1 R2)].
  - apply IH; [exact IA | lia].
Qed.

Theorem box_shrink_all shrinking eps (s : qmst) : Inv_all false s ->
  let s' := box_shrinkQ P ncl n C Mrow Mdef K0 shrinking eps s in
  Inv_all false s' /\ same_vals s s' /\ mobj s' == mobj s.
Proof.
  intros IA s'. unfold s', box_shrinkQ, box_shrink.
  destruct shrinking; cbn [negb]; [|split; [exact IA | split; [apply same_vals_refl | reflexivity]]].
  set (s1 := if negb (munshr s) && o_ltb qops (box_largest qops C s (actvar s)) (o_mul qops (o_ten qops) eps)
             then set_unshr (unshrink qops P ncl n Mrow Mdef K0 s) true else s).
  assert (H1 : Inv_all false s1 /\ same_vals s s1 /\ mobj s1 == mobj s).
  { unfold s1. destruct (negb (munshr s) && o_ltb qops (box_largest qops C s (actvar s)) (o_mul qops (o_ten qops) eps)).
    - destruct (unshrink_all false s IA) as (A1 & _ & A3 & A4).
      split; [apply Inv_all_set_unshr; exact A1|]. split; [exact A3 | exact A4].
    - split; [exact IA | split; [apply same_vals_refl | reflexivity]]. }
  destruct H1 as (IA1 & SV1 & O1).
  destruct (box_shrink_vars_all (actvar s1) (s1, false) IA1 (le_n _)) as [IA2 [SV2 O2]].
  cbn [fst] in SV2, O2.
  set (r := box_shrink_vars qops C (actvar s1) (s1, false)) in *.
  destruct (snd r).
  - destruct (box_shrink_exs_all false (actex (fst r)) (fst r) IA2 (le_n _)) as [IA3 [SV3 O3]].
    split; [exact IA3|]. split.
    + apply (same_vals_vars_trans s s1 _ SV1). apply (same_vars_trans P n s1 (fst r)); assumption.
    + rewrite O3, O2. exact O1.
  - split; [exact IA2|]. split; [apply (same_vals_vars_trans s s1 _ SV1 SV2) | rewrite O2; exact O1].
Qed.

End Shrink.
