(* C11 — Cholesky-factor optimizers (CMSA, ElitistCMA / CMAChromosome): proofs about the models in C11Model.v
   over the real numbers (the models take square roots; over R [sqrt] is the real one, so no hypothesis about the
   arithmetic is needed).  Assumptions: only those of the standard library's real numbers
   (sig_forall_dec, sig_not_dec, functional_extensionality_dep, classic). *)
From Coq Require Import List Arith Bool Reals Lra Lia Psatz.
From SharkV Require Import C11Model.
Import ListNotations.
Open Scope R_scope.

Definition Rltb (a b : R) : bool := if Rlt_dec a b then true else false.

Lemma Rltb_true a b : Rltb a b = true <-> a < b.
Proof. unfold Rltb. destruct (Rlt_dec a b); split; intro; auto; discriminate. Qed.
Lemma Rltb_false a b : Rltb a b = false <-> b <= a.
Proof. unfold Rltb. destruct (Rlt_dec a b); split; intro; auto; try discriminate; lra. Qed.

Definition RO : ops R := mkOps 0 1 2 Rplus Rminus Rmult Rdiv Rltb sqrt exp Rpower INR.
Local Notation O := RO.

Ltac rd := unfold vadd, vsub, vscale, vzero, normsqr in *;
  cbn [dot vadd vsub vscale map2 map repeat vzero nth ltx lmulz fquad
       o_zero o_one o_two o_add o_sub o_mul o_div o_sqrt o_ltb RO normsqr length] in *.

Ltac rdg := unfold vadd, vsub, vscale, vzero, normsqr;
  cbn [dot vadd vsub vscale map2 map repeat vzero nth ltx lmulz fquad
       o_zero o_one o_two o_add o_sub o_mul o_div o_sqrt o_ltb RO normsqr length].

Ltac vlia := unfold vec, mat in *; lia.

Implicit Types u v x : list R.
Implicit Types cols : list (list R).

(* ---------------------------------------------------------------- vectors *)
Lemma vadd_len u : forall v, length u = length v -> length (vadd O u v) = length u.
Proof. induction u; intros [|b v] L; rd; simpl in *; try discriminate; auto. Qed.
Lemma vsub_len u : forall v, length u = length v -> length (vsub O u v) = length u.
Proof. induction u; intros [|b v] L; rd; simpl in *; try discriminate; auto. Qed.
Lemma vscale_len k u : length (vscale O k u) = length u.
Proof. unfold vscale. apply map_length. Qed.

Lemma dot_vadd_l u : forall v x, length u = length v -> dot O (vadd O u v) x = dot O u x + dot O v x.
Proof.
  induction u as [|a u IH]; intros [|b v] [|e x] L; rd; simpl in L; try discriminate; try ring.
  rewrite IH by lia. ring.
Qed.
Lemma dot_vsub_l u : forall v x, length u = length v -> dot O (vsub O u v) x = dot O u x - dot O v x.
Proof.
  induction u as [|a u IH]; intros [|b v] [|e x] L; rd; simpl in L; try discriminate; try ring.
  rewrite IH by lia. ring.
Qed.
Lemma dot_vscale_l k u : forall x, dot O (vscale O k u) x = k * dot O u x.
Proof. induction u as [|a u IH]; intros [|e x]; rd; try ring. rewrite IH. ring. Qed.
Lemma dot_comm u : forall v, dot O u v = dot O v u.
Proof. induction u as [|a u IH]; intros [|b v]; rd; try ring. rewrite IH. ring. Qed.
Lemma dot_self_nonneg u : 0 <= dot O u u.
Proof. induction u as [|a u IH]; rd; [lra|]. nra. Qed.
Lemma dot_self_zero u : dot O u u = 0 -> Forall (fun a => a = 0) u.
Proof.
  induction u as [|a u IH]; rd; intros H; constructor.
  - pose proof (dot_self_nonneg u). nra.
  - apply IH. pose proof (dot_self_nonneg u). nra.
Qed.

(* the elimination step of the update: (z0*c + T) - k*(a*c) = T when k*a = z0 *)
Lemma elim_step z0 k a (c : list R) : forall T : list R, length c = length T -> k * a = z0 ->
  vsub O (vadd O (vscale O z0 c) T) (vscale O k (vscale O a c)) = T.
Proof.
  induction c as [|e c IH]; intros [|f T] L E; rd; simpl in L; try discriminate; auto.
  f_equal; [rewrite <- E; ring|]. apply IH; auto.
Qed.

(* ---------------------------------------------------------------- factors as trailing columns *)
Fixpoint wf cols : Prop :=
  match cols with [] => True | c :: cs => length c = S (length cs) /\ wf cs end.
Definition dnz cols := Forall (fun c => hd 0 c <> 0) cols.      (* non-singular: no zero on the diagonal *)
Definition dpos cols := Forall (fun c => 0 < hd 0 c) cols.      (* the Cholesky factor: positive diagonal *)

Lemma dpos_dnz cols : dpos cols -> dnz cols.
Proof. apply Forall_impl. intros c H. lra. Qed.

Lemma lmulz_len cols : forall z : list R, wf cols -> length z = length cols -> length (lmulz O cols z) = length cols.
Proof.
  induction cols as [|c cs IH]; intros [|z0 zs] W L; simpl in L; try discriminate; auto.
  destruct W as [Lc W]. cbn [lmulz]. rewrite vadd_len; rewrite vscale_len; auto.
  simpl. rewrite IH; auto.
Qed.

Fixpoint sumsq (z : list R) : R := match z with [] => 0 | a :: t => a * a + sumsq t end.

Lemma sumsq_normsqr z : sumsq z = normsqr O z.
Proof. induction z as [|a z IH]; rd; auto. simpl. rewrite IH. reflexivity. Qed.

Lemma sumsq_nonneg z : 0 <= sumsq z.
Proof. induction z; simpl; [lra|nra]. Qed.

Lemma sumsq_firstn_le k : forall z : list R, sumsq (firstn k z) <= sumsq z.
Proof.
  induction k as [|k IH]; intros [|a z]; simpl; try lra.
  - pose proof (sumsq_nonneg z). nra.
  - pose proof (IH z). lra.
Qed.

(* determinant of L L^T = squared product of the diagonal *)
Fixpoint detsq cols : R := match cols with [] => 1 | c :: cs => hd 0 c * hd 0 c * detsq cs end.

(* ================================================================ 1. when the update goes through *)
(* v = L z.  The loop succeeds (no exception) and returns a factor of the same shape with POSITIVE diagonal as soon as
   every partial sum  bp + beta/a^2 * (z_0^2 + ... + z_{k-1}^2)  is positive. *)
Lemma chol_loop_ok a beta : a <> 0 -> forall cols (z : list R) bp,
  wf cols -> dnz cols -> length z = length cols -> 0 < bp ->
  (forall k, (k <= length z)%nat -> 0 < bp + beta / (a * a) * sumsq (firstn k z)) ->
  exists cols', chol_loop O a beta bp cols (lmulz O cols z) = Some cols' /\
                wf cols' /\ length cols' = length cols /\ dpos cols' /\
                detsq cols' * bp = (a * a) ^ length cols * detsq cols * (bp + beta / (a * a) * sumsq z).
Proof.
  intros Ha. induction cols as [|c cs IH]; intros z bp W D L Hb Hs.
  - exists []. destruct z; simpl in L; try discriminate. cbn. repeat split; try constructor. unfold Rdiv. ring.
  - destruct z as [|z0 zs]; simpl in L; try discriminate.
    destruct W as [Lc W]. inversion D as [|? ? Dc D']; subst.
    destruct c as [|l0 c0]; simpl in Lc; try discriminate. cbn [hd] in Dc.
    assert (length c0 = length (lmulz O cs zs)) as Lt by (rewrite lmulz_len; auto; lia).
    cbn [lmulz]. rd. cbn [chol_loop]. cbv zeta. rd.
    set (wj := z0 * l0 + 0).
    assert (0 < a * a) as Haa by nra.
    assert (0 < l0 * l0) as Hll by nra.
    pose proof (Hs 1%nat ltac:(simpl; lia)) as H1. cbn [firstn sumsq] in H1.
    set (x := a * l0 * (a * l0) + beta * wj * wj / bp).
    assert (x = (a * a) * (l0 * l0) * (bp + beta / (a * a) * (z0 * z0 + 0)) / bp) as Ex.
    { unfold x, wj. field. split; lra. }
    assert (0 < x) as Hx.
    { rewrite Ex. apply Rdiv_lt_0_compat; auto. apply Rmult_lt_0_compat; auto. apply Rmult_lt_0_compat; auto. }
    unfold leb0. rd. fold x. replace (Rltb 0 x) with true by (symmetry; apply Rltb_true; auto). cbn [negb].
    set (bp' := bp + beta * wj * wj / (a * l0 * (a * l0))).
    assert (bp' = bp + beta / (a * a) * (z0 * z0)) as Eb.
    { unfold bp', wj. field. split; auto. }
    set (t' := map2 Rminus _ _).
    assert (t' = lmulz O cs zs) as Et.
    { unfold t'. apply (elim_step z0 (wj / (a * l0)) a c0); auto. unfold wj. field. split; auto. }
    rewrite Et.
    destruct (IH zs bp' W D' ltac:(lia)) as (r & Hr & Wr & Lr & Dr & Er).
    + rewrite Eb. replace (z0 * z0) with (z0 * z0 + 0) by ring. exact H1.
    + intros k Hk. pose proof (Hs (S k) ltac:(simpl; lia)) as HS. cbn [firstn sumsq] in HS.
      rewrite Eb. lra.
    + rewrite Hr. eexists. split; [reflexivity|]. split; [|split; [|split]].
      * cbn [wf]. split; auto. cbn [length]. f_equal. rewrite Lr.
        destruct (eqb0 O _); [rewrite map_length; lia|].
        change (length (vadd O (vscale O (sqrt x / (a * l0)) (vscale O a c0))
                              (vscale O (sqrt x * beta * wj / (a * l0 * (a * l0) * bp + beta * wj * wj)) (lmulz O cs zs))) = length cs).
        rewrite vadd_len; rewrite ?vscale_len; lia.
      * simpl. lia.
      * constructor; auto. cbn [hd]. apply sqrt_lt_R0. exact Hx.
      * cbn [detsq hd length pow sumsq]. rewrite (sqrt_sqrt x) by lra.
        replace (x * detsq r * bp) with (a * a * (l0 * l0) * (detsq r * bp')) by (rewrite Ex, Eb; field; lra).
        rewrite Er, Eb. field. lra.
Qed.

(* ================================================================ 2. what the update computes *)
(* Whenever the loop returns (for ANY work vector), the result is a factor of the same shape with positive diagonal
   and   x^T L' L'^T x  =  a^2 * x^T L L^T x  +  beta/bp * (temp . x)^2   for every x. *)
Lemma chol_loop_quad a beta : a <> 0 -> forall cols (temp : list R) bp cols',
  wf cols -> dnz cols -> length temp = length cols -> 0 < bp ->
  chol_loop O a beta bp cols temp = Some cols' ->
  wf cols' /\ length cols' = length cols /\ dpos cols' /\
  forall x, length x = length cols ->
    fquad O cols' x = a * a * fquad O cols x + beta / bp * (dot O temp x * dot O temp x).
Proof.
  intros Ha. induction cols as [|c cs IH]; intros temp bp cols' W D L Hb H.
  - destruct temp; simpl in L; try discriminate. cbn in H. inversion H; subst.
    repeat split; try constructor. intros [|? ?] Lx; simpl in Lx; try discriminate. rd. cbn. unfold Rdiv. ring.
  - destruct temp as [|wj t]; simpl in L; try discriminate.
    destruct W as [Lc W]. inversion D as [|? ? Dc D']; subst.
    destruct c as [|l0 c0]; simpl in Lc; try discriminate. cbn [hd] in Dc.
    cbn [chol_loop] in H. cbv zeta in H. rd.
    set (X := a * l0 * (a * l0) + beta * wj * wj / bp) in *.
    unfold leb0 in H. rd.
    destruct (Rltb 0 X) eqn:EX; cbn [negb] in H; try discriminate.
    apply Rltb_true in EX.
    set (g := a * l0 * (a * l0) * bp + beta * wj * wj) in *.
    assert (0 < a * a) as Haa by nra.
    assert (0 < l0 * l0) as Hll by nra.
    assert (g = bp * X) as Eg by (unfold g, X; field; lra).
    assert (0 < g) as Hg by (rewrite Eg; apply Rmult_lt_0_compat; auto).
    set (bp' := bp + beta * wj * wj / (a * l0 * (a * l0))) in *.
    assert (bp' = g / (a * l0 * (a * l0))) as Eb by (unfold bp', g; field; split; auto).
    assert (0 < bp') as Hb'.
    { rewrite Eb. apply Rdiv_lt_0_compat; auto. nra. }
    unfold eqb0 in H. rd. fold g in H.
    replace (Rltb 0 g) with true in H by (symmetry; apply Rltb_true; auto).
    rewrite andb_false_r in H.
    set (c1 := map (fun e : R => a * e) c0) in *.
    set (t' := map2 Rminus t (map (fun e : R => wj / (a * l0) * e) c1)) in *.
    assert (length c1 = length c0) as Lc1 by (unfold c1; apply map_length).
    assert (length t' = length cs) as Lt'.
    { change t' with (vsub O t (vscale O (wj / (a * l0)) c1)). rewrite vsub_len; rewrite ?vscale_len; lia. }
    destruct (chol_loop O a beta bp' cs t') as [r|] eqn:Hr; try discriminate.
    inversion H; subst cols'. clear H.
    destruct (IH t' bp' r W D' Lt' Hb' Hr) as (Wr & Lr & Dr & Qr).
    set (c2 := map2 Rplus _ _).
    assert (c2 = vadd O (vscale O (sqrt X / (a * l0)) c1) (vscale O (sqrt X * beta * wj / g) t')) as Ec2 by reflexivity.
    assert (length c2 = length cs) as Lc2.
    { rewrite Ec2. rewrite vadd_len; rewrite ?vscale_len; lia. }
    split; [|split; [|split]].
    + cbn [wf]. split; auto. cbn [length]. lia.
    + simpl. lia.
    + constructor; auto. cbn [hd]. apply sqrt_lt_R0. exact EX.
    + intros [|x0 xs] Lx; simpl in Lx; try discriminate.
      cbn [fquad ltx]. unfold normsqr. cbn [dot]. rdg.
      fold (normsqr O (ltx O r xs)). fold (fquad O r xs).
      fold (normsqr O (ltx O cs xs)). fold (fquad O cs xs).
      rewrite (Qr xs ltac:(lia)).
      assert (dot O c2 xs = sqrt X / (a * l0) * (a * dot O c0 xs)
                            + sqrt X * beta * wj / g * (dot O t xs - wj / (a * l0) * (a * dot O c0 xs))) as Ed.
      { rewrite Ec2. rewrite dot_vadd_l by (rewrite !vscale_len; lia).
        rewrite !dot_vscale_l.
        change t' with (vsub O t (vscale O (wj / (a * l0)) c1)).
        rewrite dot_vsub_l by (rewrite vscale_len; lia).
        rewrite dot_vscale_l. change c1 with (vscale O a c0). rewrite dot_vscale_l. reflexivity. }
      rewrite Ed.
      assert (dot O t' xs = dot O t xs - wj / (a * l0) * (a * dot O c0 xs)) as Et.
      { change t' with (vsub O t (vscale O (wj / (a * l0)) c1)).
        rewrite dot_vsub_l by (rewrite vscale_len; lia).
        rewrite dot_vscale_l. change c1 with (vscale O a c0). rewrite dot_vscale_l. reflexivity. }
      rewrite Et.
      set (C := dot O c0 xs). set (T := dot O t xs). set (Q := fquad O cs xs).
      pose proof (sqrt_sqrt X ltac:(lra)) as SS. set (nl := sqrt X) in *.
      set (K := 1 / (a * l0) * (a * C) + beta * wj / g * (T - wj / (a * l0) * (a * C))).
      replace (nl * x0 + (nl / (a * l0) * (a * C) + nl * beta * wj / g * (T - wj / (a * l0) * (a * C))))
        with (nl * (x0 + K)) by (unfold K; field; repeat split; auto; lra).
      replace (nl * (x0 + K) * (nl * (x0 + K))) with (nl * nl * ((x0 + K) * (x0 + K))) by ring.
      rewrite SS. rewrite Eb. unfold K, X, g. field. repeat split; auto; try lra.
      fold g. lra.
Qed.

(* for beta >= 0 the loop goes through on every work vector *)
Lemma chol_loop_ok_pos a beta : a <> 0 -> 0 <= beta -> forall cols (temp : list R) bp,
  wf cols -> dnz cols -> length temp = length cols -> 0 < bp ->
  exists cols', chol_loop O a beta bp cols temp = Some cols'.
Proof.
  intros Ha Hbeta. induction cols as [|c cs IH]; intros temp bp W D L Hb.
  - exists []. destruct temp; reflexivity.
  - destruct temp as [|wj t]; simpl in L; try discriminate.
    destruct W as [Lc W]. inversion D as [|? ? Dc D']; subst.
    destruct c as [|l0 c0]; simpl in Lc; try discriminate. cbn [hd] in Dc.
    cbn [chol_loop]. cbv zeta. rdg.
    set (X := a * l0 * (a * l0) + beta * wj * wj / bp).
    assert (0 < a * a) as Haa by nra.
    assert (0 < l0 * l0) as Hll by nra.
    assert (0 <= beta * wj * wj / bp) as H0.
    { apply Rmult_le_pos; [|left; apply Rinv_0_lt_compat; auto]. rewrite Rmult_assoc. apply Rmult_le_pos; auto. nra. }
    assert (0 < X) as HX by (unfold X; nra).
    unfold leb0. rdg. fold X. replace (Rltb 0 X) with true by (symmetry; apply Rltb_true; auto). cbn [negb].
    set (bp' := bp + _). set (t' := map2 Rminus _ _).
    assert (0 < bp') as Hb'.
    { unfold bp'. assert (0 <= beta * wj * wj / (a * l0 * (a * l0))); [|lra].
      apply Rmult_le_pos; [|left; apply Rinv_0_lt_compat; nra]. rewrite Rmult_assoc. apply Rmult_le_pos; auto. nra. }
    assert (length t' = length cs) as Lt'.
    { change t' with (vsub O t (vscale O (wj / (a * l0)) (vscale O a c0))). rewrite vsub_len; rewrite ?vscale_len; lia. }
    destruct (IH t' bp' W D' Lt' Hb') as (r & Hr). rewrite Hr. eexists. reflexivity.
Qed.

(* ---------------------------------------------------------------- the represented covariance L L^T *)
Lemma ltx_scale s cols : forall x, ltx O (map (vscale O s) cols) x = vscale O s (ltx O cols x).
Proof.
  induction cols as [|c cs IH]; intros [|x0 xs]; cbn [map ltx]; try reflexivity.
  rewrite IH, dot_vscale_l. reflexivity.
Qed.

Lemma normsqr_vscale s u : normsqr O (vscale O s u) = s * s * normsqr O u.
Proof.
  unfold normsqr, vscale. induction u as [|a u IH]; cbn [map dot o_mul o_add o_zero RO] in *; [ring|rewrite IH; ring].
Qed.

Lemma fquad_scale s cols x : fquad O (map (vscale O s) cols) x = s * s * fquad O cols x.
Proof. unfold fquad. rewrite ltx_scale. apply normsqr_vscale. Qed.

Lemma fquad_nonneg cols x : 0 <= fquad O cols x.
Proof. unfold fquad, normsqr. apply dot_self_nonneg. Qed.

Lemma dot_zero_r c : forall x, Forall (fun a => a = 0) x -> dot O c x = 0.
Proof.
  induction c as [|e c IH]; intros [|x0 xs] F; rdg; try reflexivity.
  inversion F; subst. rewrite IH by auto. ring.
Qed.

(* a factor with non-zero diagonal is non-singular: L^T x = 0 only for x = 0; hence L L^T is positive definite *)
Lemma fquad_zero cols : forall x, wf cols -> dnz cols -> length x = length cols ->
  fquad O cols x = 0 -> Forall (fun a => a = 0) x.
Proof.
  induction cols as [|c cs IH]; intros [|x0 xs] W D L H; simpl in L; try discriminate; [constructor|].
  destruct W as [Lc W]. inversion D as [|? ? Dc D']; subst.
  destruct c as [|l0 c0]; simpl in Lc; try discriminate. cbn [hd] in Dc.
  unfold fquad in *. cbn [ltx] in H. unfold normsqr in *. cbn [dot] in H. rdg.
  cbn [o_add o_mul RO] in H.
  pose proof (dot_self_nonneg (ltx O cs xs)) as N.
  set (d := l0 * x0 + dot O c0 xs) in *.
  assert (dot O (ltx O cs xs) (ltx O cs xs) = 0) as Z by nra.
  assert (d = 0) as Zd by nra.
  pose proof (IH xs W D' ltac:(lia) Z) as F.
  constructor; auto. unfold d in Zd.
  rewrite (dot_zero_r c0 xs F) in Zd.
  destruct (Rmult_integral l0 x0 ltac:(lra)); [contradiction|auto].
Qed.

Definition rnonzero (x : list R) := ~ Forall (fun a => a = 0) x.

Lemma fquad_pos cols x : wf cols -> dnz cols -> length x = length cols -> rnonzero x -> 0 < fquad O cols x.
Proof.
  intros W D L N. destruct (Rle_lt_or_eq_dec _ _ (fquad_nonneg cols x)) as [H|H]; auto.
  exfalso. apply N. apply (fquad_zero cols); auto.
Qed.

(* ================================================================ 3. cholesky_decomposition::update *)
Lemma eqb0_true b : eqb0 O b = true <-> b = 0.
Proof.
  unfold eqb0. rdg. rewrite andb_true_iff, !negb_true_iff, !Rltb_false. split; intro; lra.
Qed.

Lemma dnz_scale s cols : s <> 0 -> dnz cols -> dnz (map (vscale O s) cols).
Proof.
  intros Hs D. unfold dnz in *. rewrite Forall_map. eapply Forall_impl; [|exact D].
  intros [|e c] H; cbn in *; auto; intro E; destruct (Rmult_integral _ _ E); auto.
Qed.
Lemma dpos_scale s cols : 0 < s -> dpos cols -> dpos (map (vscale O s) cols).
Proof.
  intros Hs D. unfold dpos in *. rewrite Forall_map. eapply Forall_impl; [|exact D].
  intros [|e c] H; cbn in *; [lra|apply Rmult_lt_0_compat; auto].
Qed.
Lemma wf_scale s cols : wf cols -> wf (map (vscale O s) cols).
Proof.
  induction cols as [|c cs IH]; cbn [map wf]; auto. intros [L W]. split; auto.
  rewrite vscale_len, map_length. exact L.
Qed.

(* SPECIFICATION of update(alpha, beta, v): whenever it returns, the new factor has the same shape, a non-zero
   (positive, if it was positive) diagonal, and represents  alpha * L L^T + beta * v v^T. *)
Lemma chol_update_spec alpha beta cols (v : list R) cols' :
  0 < alpha -> wf cols -> dnz cols -> (beta <> 0 -> length v = length cols) ->
  chol_update O alpha beta cols v = Some cols' ->
  wf cols' /\ length cols' = length cols /\ dnz cols' /\ (dpos cols -> dpos cols') /\
  forall x, length x = length cols ->
    fquad O cols' x = alpha * fquad O cols x + beta * (dot O v x * dot O v x).
Proof.
  intros Ha W D L H. unfold chol_update in H. rdg.
  pose proof (sqrt_sqrt alpha ltac:(lra)) as SS. pose proof (sqrt_lt_R0 alpha Ha) as SP.
  destruct (eqb0 O beta) eqn:E.
  - apply eqb0_true in E. inversion H; subst cols' beta. clear H.
    split; [apply wf_scale; auto|]. split; [apply map_length|].
    split; [apply dnz_scale; auto; lra|]. split; [apply dpos_scale; auto|].
    intros x Lx. rewrite fquad_scale, SS. ring.
  - assert (beta <> 0) as Nb by (intro Z; apply eqb0_true in Z; congruence).
    destruct (chol_loop_quad (sqrt alpha) beta ltac:(lra) cols v 1 cols' W D (L Nb) ltac:(lra) H) as (W' & L' & D' & Q).
    split; auto. split; auto. split; [apply dpos_dnz; auto|]. split; auto.
    intros x Lx. rewrite (Q x Lx), SS. field.
Qed.

Lemma chol_update_ok_pos alpha beta cols (v : list R) :
  0 < alpha -> 0 <= beta -> wf cols -> dnz cols -> (beta <> 0 -> length v = length cols) ->
  exists cols', chol_update O alpha beta cols v = Some cols'.
Proof.
  intros Ha Hb W D L. unfold chol_update. rdg. destruct (eqb0 O beta) eqn:E; [eexists; reflexivity|].
  assert (beta <> 0) as Nb by (intro Z; apply eqb0_true in Z; congruence).
  apply chol_loop_ok_pos; auto; try lra. pose proof (sqrt_lt_R0 alpha Ha). lra.
Qed.

(* negative updates: v = L z.  The update goes through iff-style condition  alpha + beta |z|^2 > 0;
   determinant factor:  det(L'L'^T) = alpha^n * det(L L^T) * (1 + beta/alpha |z|^2). *)
Lemma chol_update_ok_neg alpha beta cols (z : list R) :
  0 < alpha -> beta < 0 -> wf cols -> dnz cols -> length z = length cols ->
  0 < alpha + beta * sumsq z ->
  exists cols', chol_update O alpha beta cols (lmulz O cols z) = Some cols' /\
                detsq cols' = alpha ^ length cols * detsq cols * (1 + beta / alpha * sumsq z).
Proof.
  intros Ha Hb W D L Hz. unfold chol_update. rdg.
  pose proof (sqrt_sqrt alpha ltac:(lra)) as SS. pose proof (sqrt_lt_R0 alpha Ha) as SP.
  destruct (eqb0 O beta) eqn:E; [apply eqb0_true in E; lra|].
  destruct (chol_loop_ok (sqrt alpha) beta ltac:(lra) cols z 1 W D L ltac:(lra)) as (r & Hr & _ & _ & _ & Er).
  - intros k Hk. rewrite SS. pose proof (sumsq_firstn_le k z) as Hle. pose proof (sumsq_nonneg (firstn k z)) as H0.
    assert (0 < 1 + beta / alpha * sumsq z) as H1.
    { replace (1 + beta / alpha * sumsq z) with ((alpha + beta * sumsq z) / alpha) by (field; lra).
      apply Rdiv_lt_0_compat; auto. }
    assert (beta / alpha < 0) as Hn.
    { unfold Rdiv. pose proof (Rinv_0_lt_compat alpha Ha). nra. }
    nra.
  - exists r. split; auto. rewrite SS in Er. lra.
Qed.

(* ================================================================ 4. CMSA::updatePopulation *)
Fixpoint sumf (ys : list (list R)) (g : list R -> R) : R :=
  match ys with [] => 0 | y :: t => g y + sumf t g end.

Lemma sumf_nonneg ys g : (forall y, 0 <= g y) -> 0 <= sumf ys g.
Proof. intros G. induction ys as [|y ys IH]; simpl; [lra|]. pose proof (G y). lra. Qed.

Lemma cmsa_cov_loop_ok beta : 0 <= beta -> forall (steps : list (list R)) cols,
  wf cols -> dnz cols -> Forall (fun y => length y = length cols) steps ->
  exists cols', cmsa_cov_loop O beta cols steps = Some cols' /\
    wf cols' /\ length cols' = length cols /\ dnz cols' /\ (dpos cols -> dpos cols') /\
    forall x, length x = length cols ->
      fquad O cols' x = fquad O cols x + beta * sumf steps (fun y => dot O y x * dot O y x).
Proof.
  intros Hb. induction steps as [|y ys IH]; intros cols W D F.
  - exists cols. cbn. repeat split; auto. intros. ring.
  - inversion F as [|? ? Ly F']; subst. cbn [cmsa_cov_loop]. change (o_one O) with 1.
    destruct (chol_update_ok_pos 1 beta cols y ltac:(lra) Hb W D (fun _ => Ly)) as (c1 & H1).
    rewrite H1.
    destruct (chol_update_spec 1 beta cols y c1 ltac:(lra) W D (fun _ => Ly) H1) as (W1 & L1 & D1 & P1 & Q1).
    destruct (IH c1 W1 D1) as (c2 & H2 & W2 & L2 & D2 & P2 & Q2).
    { rewrite L1. exact F'. }
    exists c2. split; auto. split; auto. split; [lia|]. split; auto. split; auto.
    intros x Lx. rewrite Q2 by lia. rewrite Q1 by auto. cbn [sumf]. ring.
Qed.

(* C' = (1 - 1/cC) C + 1/(mu cC) * sum_i y_i y_i^T on the factor, as coded (one scaling + mu rank-one updates):
   for cC > 1 every call goes through and the new factor is non-singular (positive diagonal if the old one was). *)
Lemma cmsa_cov_ok mu cC cols (steps : list (list R)) :
  1 < cC -> 0 < mu -> wf cols -> dnz cols -> Forall (fun y => length y = length cols) steps ->
  exists cols', cmsa_cov O mu cC cols steps = Some cols' /\
    wf cols' /\ length cols' = length cols /\ dnz cols' /\ (dpos cols -> dpos cols') /\
    (forall x, length x = length cols ->
      fquad O cols' x = (1 - 1 / cC) * fquad O cols x
                        + 1 / mu * 1 / cC * sumf steps (fun y => dot O y x * dot O y x)) /\
    (forall x, length x = length cols -> rnonzero x -> 0 < fquad O cols' x).
Proof.
  intros HC Hmu W D F. unfold cmsa_cov. rdg.
  assert (0 < 1 - 1 / cC) as Ha.
  { assert (1 / cC < 1); [|lra]. apply Rmult_lt_reg_r with cC; [lra|]. unfold Rdiv. rewrite Rmult_assoc, Rinv_l by lra. lra. }
  assert (0 <= 1 / mu * 1 / cC) as Hb.
  { unfold Rdiv. pose proof (Rinv_0_lt_compat mu Hmu). pose proof (Rinv_0_lt_compat cC ltac:(lra)). nra. }
  destruct (chol_update_ok_pos (1 - 1 / cC) 0 cols [] Ha ltac:(lra) W D ltac:(intro; lra)) as (c0 & H0).
  rewrite H0.
  destruct (chol_update_spec (1 - 1 / cC) 0 cols [] c0 Ha W D ltac:(intro; lra) H0) as (W0 & L0 & D0 & P0 & Q0).
  destruct (cmsa_cov_loop_ok (1 / mu * 1 / cC) Hb steps c0 W0 D0) as (c1 & H1 & W1 & L1 & D1 & P1 & Q1).
  { rewrite L0. exact F. }
  exists c1. split; auto. split; auto. split; [lia|]. split; auto. split; auto. split.
  - intros x Lx. rewrite Q1 by lia. rewrite Q0 by auto. ring.
  - intros x Lx Nx. apply fquad_pos; auto. lia.
Qed.

(* the corner cC = 1 as coded: the first call  rankOneUpdate(1 - 1/cC, 0, ())  multiplies the factor by sqrt(0) = 0;
   the factor handed to the mu rank-one updates is the ZERO matrix (singular; their pivots dj = 0 are divided by). *)
Lemma cmsa_corner_cC_1 cols :
  exists cols0, chol_update O (1 - 1 / 1) 0 cols [] = Some cols0 /\ forall x, fquad O cols0 x = 0.
Proof.
  unfold chol_update. cbn [o_zero o_one o_sub o_div o_sqrt RO]. replace (eqb0 O 0) with true by (symmetry; apply eqb0_true; reflexivity).
  eexists. split; [reflexivity|]. intros x. rewrite fquad_scale.
  replace (1 - 1 / 1) with 0 by field. rewrite sqrt_0. ring.
Qed.

(* ... which the constants of CMSA::doInit never reach:  cC = 1 + n(n+1)/(2 mu) > 1 *)
Lemma cmsa_cC_gt_1 (n mu : nat) : (0 < n)%nat -> (0 < mu)%nat ->
  1 < 1 + (INR n * (INR n + 1)) / (2 * INR mu).
Proof.
  intros Hn Hm. apply lt_0_INR in Hn, Hm.
  assert (0 < INR n * (INR n + 1) / (2 * INR mu)); [|lra].
  apply Rdiv_lt_0_compat; nra.
Qed.

(* step size: the mean of positive numbers *)
Lemma cmsa_sigma_mono mu : 0 < mu -> forall (l : list R) acc, Forall (fun s => 0 < s) l ->
  acc <= fold_left (fun s si => o_add O s (o_mul O (o_div O (o_one O) mu) si)) l acc.
Proof.
  intros Hm. induction l as [|s l IH]; intros acc F; cbn [fold_left]; [lra|].
  inversion F; subst. eapply Rle_trans; [|apply IH; auto]. rdg.
  assert (0 < 1 / mu * s); [|lra]. apply Rmult_lt_0_compat; auto. apply Rdiv_lt_0_compat; lra.
Qed.

Lemma cmsa_sigma_pos mu (sigmas : list R) :
  0 < mu -> sigmas <> [] -> Forall (fun s => 0 < s) sigmas -> 0 < cmsa_sigma O mu sigmas.
Proof.
  intros Hm Ne F. destruct sigmas as [|s l]; [congruence|]. inversion F; subst.
  unfold cmsa_sigma. cbn [fold_left]. eapply Rlt_le_trans; [|apply cmsa_sigma_mono; auto]. rdg.
  assert (0 < 1 / mu * s); [|lra]. apply Rmult_lt_0_compat; auto. apply Rdiv_lt_0_compat; lra.
Qed.

(* selection keeps every per-individual property and is non-empty for mu >= 1 *)
Section Sel.
Variable P : Type.
Lemma insert_Forall (R0 : R * P -> Prop) (i : R * P) l : R0 i -> Forall R0 l -> Forall R0 (insert O i l).
Proof.
  intros Hx. induction 1 as [|y t Hy F IH]; cbn [insert]; [repeat constructor; auto|].
  destruct (o_ltb O (fst y) (fst i)); repeat constructor; auto.
Qed.
Lemma isort_Forall (R0 : R * P -> Prop) l : Forall R0 l -> Forall R0 (isort O l).
Proof. induction 1; cbn [isort fold_right]; [constructor|]. apply insert_Forall; auto. Qed.
Lemma rselect_Forall (R0 : R * P -> Prop) mu l : Forall R0 l -> Forall R0 (select O mu l).
Proof.
  intros F. unfold select. pose proof (isort_Forall R0 l F) as G.
  rewrite <- (firstn_skipn mu (isort O l)) in G. apply Forall_app in G. tauto.
Qed.
Lemma insert_nonempty (i : R * P) l : insert O i l <> [].
Proof. destruct l; cbn [insert]; [discriminate|]. destruct (o_ltb O _ _); discriminate. Qed.
Lemma select_nonempty mu (l : list (R * P)) : (0 < mu)%nat -> l <> [] -> select O mu l <> [].
Proof.
  intros Hm Ne. destruct l as [|i l]; [congruence|]. unfold select. cbn [isort fold_right].
  pose proof (insert_nonempty i (fold_right (insert O (P:=P)) [] l)) as H.
  destruct (insert O i _); [congruence|]. destruct mu; [lia|]. discriminate.
Qed.
End Sel.

(* CMSA::updatePopulation as coded keeps sigma > 0 and the factor non-singular / the covariance positive definite *)
Lemma cmsa_update_ok (n mu : nat) cC cols (offspring : list (R * (list R * (list R * R)))) :
  1 < cC -> (0 < mu)%nat -> offspring <> [] ->
  wf cols -> dpos cols -> length cols = n ->
  Forall (fun i => length (fst (snd (snd i))) = n /\ 0 < snd (snd (snd i))) offspring ->
  exists m s cols', cmsa_update O n mu cC cols offspring = Some (m, s, cols') /\
    0 < s /\ wf cols' /\ length cols' = n /\ dpos cols' /\
    (forall x, length x = n -> rnonzero x -> 0 < fquad O cols' x) /\
    (forall x, length x = n ->
       fquad O cols' x = (1 - 1 / cC) * fquad O cols x + 1 / INR mu * 1 / cC *
          sumf (map (fun i => fst (snd (snd i))) (select O mu offspring)) (fun y => dot O y x * dot O y x)).
Proof.
  intros HC Hmu Ne W D Ln F. unfold cmsa_update. cbv zeta. change (o_ofnat O mu) with (INR mu).
  assert (0 < INR mu) as HM by (apply lt_0_INR; auto).
  unfold vec, indiv.
  set (sel := select O mu offspring).
  assert (Forall (fun i : R * (list R * (list R * R)) => length (fst (snd (snd i))) = n /\ 0 < snd (snd (snd i))) sel) as Fs
    by (apply rselect_Forall; auto).
  assert (sel <> []) as Nes by (apply select_nonempty; auto).
  destruct (cmsa_cov_ok (INR mu) cC cols (map (fun i => fst (snd (snd i))) sel) HC HM W (dpos_dnz _ D))
    as (c1 & H1 & W1 & L1 & D1 & P1 & Q1 & PD1).
  { rewrite Forall_map. eapply Forall_impl; [|exact Fs]. cbv beta. intros i [Hi _]. lia. }
  rewrite H1. do 3 eexists. split; [reflexivity|]. split; [|split; [|split; [|split; [|split]]]]; auto.
  - apply cmsa_sigma_pos; auto.
    + destruct sel; [congruence|discriminate].
    + rewrite Forall_map. eapply Forall_impl; [|exact Fs]. cbv beta. tauto.
  - lia.
  - intros x Lx. apply PD1. lia.
  - intros x Lx. apply Q1. lia.
Qed.

(* ================================================================ 5. CMAChromosome (ElitistCMA) *)
Lemma chrom_sigma_pos k sigma psucc : 0 < sigma -> 0 < chrom_sigma O k sigma psucc.
Proof. intros H. unfold chrom_sigma. rdg. cbn [o_exp RO]. apply Rmult_lt_0_compat; auto. apply exp_pos. Qed.

(* the guard of updateAsParent: the rate actually used keeps  1 - rate/(1+rate) |z|^2  positive *)
Lemma active_rate_ok cu zz : 0 < cu -> 0 <= zz ->
  let r := active_rate O cu zz in 0 < r /\ r * (zz - 1) < 1.
Proof.
  intros Hc Hz. unfold active_rate. rdg.
  destruct (Rltb 1 zz) eqn:E1; cbn [andb].
  - apply Rltb_true in E1. destruct (Rltb 1 (cu * (2 * zz - 1))) eqn:E2.
    + assert (0 < 2 * zz - 1) as Hp by lra. pose proof (Rinv_0_lt_compat _ Hp) as Hi.
      split; [unfold Rdiv; lra|].
      apply Rmult_lt_reg_r with (2 * zz - 1); auto.
      replace (1 / (2 * zz - 1) * (zz - 1) * (2 * zz - 1)) with (zz - 1) by (field; lra). lra.
    + apply Rltb_false in E2. split; auto. nra.
  - apply Rltb_false in E1. split; auto. nra.
Qed.

Definition chrom_ok (n : nat) (c : chrom R) :=
  wf (h_L c) /\ length (h_L c) = n /\ dpos (h_L c) /\ length (h_pc c) = n /\
  length (h_z c) = n /\ h_step c = lmulz O (h_L c) (h_z c) /\ 0 < h_sigma c.

Definition chrom_consts_ok (k : chrom_consts R) :=
  0 <= q_ccov k /\ q_ccov k < 1 /\ 0 <= q_cc k /\ q_cc k <= 2 /\ 0 < q_cu k.

(* the result of an update: factor of the same shape with positive diagonal, hence covariance positive definite; sigma > 0 *)
Definition chrom_good (n : nat) (c' : chrom R) :=
  wf (h_L c') /\ length (h_L c') = n /\ dpos (h_L c') /\ length (h_pc c') = n /\ 0 < h_sigma c' /\
  forall x, length x = n -> rnonzero x -> 0 < fquad O (h_L c') x.

Lemma good_of n L pc st z sg ps :
  wf L -> length L = n -> dpos L -> length pc = n -> 0 < sg -> chrom_good n (mkChrom L pc st z sg ps).
Proof.
  intros W Ln D Lp Hs. repeat split; auto. cbn [h_L]. intros x Lx Nx. apply fquad_pos; auto; [apply dpos_dnz; auto|lia].
Qed.

Lemma chrom_round_ok k n c sigma psucc :
  chrom_consts_ok k -> chrom_ok n c -> 0 < sigma ->
  exists c', chrom_round O k c sigma psucc = Some c' /\ chrom_good n c' /\
    forall x, length x = n ->
      fquad O (h_L c') x = (1 - q_ccov k + q_cc k * (2 - q_cc k)) * fquad O (h_L c) x
                           + q_ccov k * (dot O (h_pc c') x * dot O (h_pc c') x).
Proof.
  intros (C0 & C1 & E0 & E2 & U) (W & Ln & D & Lp & Lz & St & Sg) Hs. unfold chrom_round. rdg.
  set (pc := map _ (h_pc c)).
  assert (length pc = n) as Lpc by (unfold pc; rewrite map_length; auto).
  assert (0 < 1 - q_ccov k + q_cc k * (2 - q_cc k)) as Ha by nra.
  destruct (chol_update_ok_pos _ (q_ccov k) (h_L c) pc Ha C0 W (dpos_dnz _ D) ltac:(intro; vlia)) as (L' & H).
  rewrite H.
  destruct (chol_update_spec _ (q_ccov k) (h_L c) pc L' Ha W (dpos_dnz _ D) ltac:(intro; vlia) H) as (W' & L1 & _ & P' & Q').
  eexists. split; [reflexivity|]. split.
  - apply good_of; auto; vlia.
  - intros x Lx. cbn [h_L h_pc]. apply Q'. vlia.
Qed.

Lemma chrom_offspring_ok k n c :
  chrom_consts_ok k -> chrom_ok n c ->
  exists c', chrom_offspring O k c = Some c' /\ chrom_good n c' /\
    forall x, length x = n ->
      fquad O (h_L c') x =
        (if Rltb (h_psucc c') (q_pthresh k) then 1 - q_ccov k else 1 - q_ccov k + q_cc k * (2 - q_cc k))
          * fquad O (h_L c) x
        + q_ccov k * (dot O (h_pc c') x * dot O (h_pc c') x).
Proof.
  intros K Ok. pose proof K as (C0 & C1 & E0 & E2 & U). pose proof Ok as (W & Ln & D & Lp & Lz & St & Sg).
  unfold chrom_offspring. cbv zeta. rdg.
  set (psucc := (1 - q_cp k) * h_psucc c + q_cp k).
  pose proof (chrom_sigma_pos k (h_sigma c) psucc Sg) as Hs.
  destruct (Rltb psucc (q_pthresh k)) eqn:E.
  - set (pc := map2 Rplus _ _).
    assert (length pc = n) as Lpc.
    { change pc with (vadd O (vscale O (1 - q_cc k) (h_pc c)) (vscale O (sqrt (q_cc k * (2 - q_cc k))) (h_step c))).
      rewrite vadd_len; rewrite !vscale_len; auto. rewrite St, lmulz_len; auto; vlia. }
    assert (0 < 1 - q_ccov k) as Ha by lra.
    destruct (chol_update_ok_pos _ (q_ccov k) (h_L c) pc Ha C0 W (dpos_dnz _ D) ltac:(intro; vlia)) as (L' & H).
    rewrite H.
    destruct (chol_update_spec _ (q_ccov k) (h_L c) pc L' Ha W (dpos_dnz _ D) ltac:(intro; vlia) H) as (W' & L1 & _ & P' & Q').
    eexists. split; [reflexivity|]. split.
    + apply good_of; auto; vlia.
    + intros x Lx. cbn [h_L h_pc h_psucc]. rewrite E. apply Q'. vlia.
  - destruct (chrom_round_ok k n c (chrom_sigma O k (h_sigma c) psucc) psucc K Ok Hs) as (c' & H & G & Q).
    exists c'. split; auto. split; auto. intros x Lx.
    assert (h_psucc c' = psucc) as Ep.
    { unfold chrom_round in H. destruct (chol_update O _ _ _ _); inversion H; reflexivity. }
    rewrite Ep, E. apply Q; auto.
Qed.

Lemma chrom_parent_ok k n s c :
  chrom_consts_ok k -> chrom_ok n c ->
  exists c', chrom_parent O k s c = Some c' /\ chrom_good n c' /\
    (s <> Failure -> h_L c' = h_L c) /\
    (s = Failure -> forall x, length x = n ->
       fquad O (h_L c') x =
         if Rltb (h_psucc c') (q_pthresh k)
         then let r := active_rate O (q_cu k) (normsqr O (h_z c)) in
              (1 + r) * fquad O (h_L c) x - r * (dot O (h_step c) x * dot O (h_step c) x)
         else (1 - q_ccov k + q_cc k * (2 - q_cc k)) * fquad O (h_L c) x
              + q_ccov k * (dot O (h_pc c') x * dot O (h_pc c') x)) /\
    (s = Failure -> Rltb (h_psucc c') (q_pthresh k) = true ->
       let r := active_rate O (q_cu k) (normsqr O (h_z c)) in
       detsq (h_L c') = (1 + r) ^ n * detsq (h_L c) * (1 - r / (1 + r) * normsqr O (h_z c))).
Proof.
  intros K Ok. pose proof K as (C0 & C1 & E0 & E2 & U). pose proof Ok as (W & Ln & D & Lp & Lz & St & Sg).
  unfold chrom_parent. cbv zeta.
  set (psucc := o_add O _ _).
  pose proof (chrom_sigma_pos k (h_sigma c) psucc Sg) as Hs.
  destruct s.
  - eexists. split; [reflexivity|]. split; [apply good_of; auto|]. split; [reflexivity|]. split; discriminate.
  - eexists. split; [reflexivity|]. split; [apply good_of; auto|]. split; [reflexivity|]. split; discriminate.
  - cbn [o_ltb RO]. destruct (Rltb psucc (q_pthresh k)) eqn:E.
    + set (r := active_rate O (q_cu k) (normsqr O (h_z c))).
      pose proof (sumsq_nonneg (h_z c)) as Hz0. rewrite sumsq_normsqr in Hz0.
      destruct (active_rate_ok (q_cu k) (normsqr O (h_z c)) U Hz0) as (Hr & Hg). fold r in Hr, Hg.
      cbn [o_add o_sub o_one o_zero RO].
      assert (0 < 1 + r) as Ha by lra.
      rewrite St.
      destruct (chol_update_ok_neg (1 + r) (0 - r) (h_L c) (h_z c) Ha ltac:(lra) W (dpos_dnz _ D) ltac:(vlia)) as (L' & H & Dt).
      { rewrite sumsq_normsqr. nra. }
      rewrite H.
      destruct (chol_update_spec _ (0 - r) (h_L c) (lmulz O (h_L c) (h_z c)) L' Ha W (dpos_dnz _ D) ltac:(intro; rewrite lmulz_len; auto; vlia) H) as (W' & L1 & _ & P' & Q').
      eexists. split; [reflexivity|]. split; [apply good_of; auto; vlia|]. split; [congruence|]. split.
      * intros _ x Lx. cbn [h_L h_psucc]. rewrite E. cbv zeta. rewrite Q' by vlia. ring.
      * intros _ _. cbn [h_L]. cbv zeta. fold r. unfold vec in *. rewrite Dt, Ln, sumsq_normsqr. field. lra.
    + destruct (chrom_round_ok k n c (chrom_sigma O k (h_sigma c) psucc) psucc K Ok Hs) as (c' & H & G & Q).
      exists c'.
      assert (h_psucc c' = psucc) as Ep.
      { unfold chrom_round in H. destruct (chol_update O _ _ _ _); inversion H; reflexivity. }
      split; auto. split; auto. split; [congruence|]. split.
      * intros _ x Lx. rewrite Ep, E. apply Q; auto.
      * intros _ T. rewrite Ep, E in T. discriminate.
Qed.

(* one step of ElitistCMA on the strategy parameters, every branch (successful / unsuccessful / failure with the active
   negative update under its guard / round update): never throws, sigma > 0, factor non-singular, covariance positive definite *)
Lemma ecma_chrom_step_ok k n active anc pen c :
  chrom_consts_ok k -> chrom_ok n c ->
  exists c', ecma_chrom_step O k active anc pen c = Some c' /\ chrom_good n c'.
Proof.
  intros K Ok. unfold ecma_chrom_step. destruct (classify O active anc pen) eqn:E.
  - destruct (chrom_offspring_ok k n c K Ok) as (c' & H & G & _). eauto.
  - destruct (chrom_parent_ok k n Unsuccessful c K Ok) as (c' & H & G & _). eauto.
  - destruct (chrom_parent_ok k n Failure c K Ok) as (c' & H & G & _). eauto.
Qed.

(* ================================================================ 6. VDCMA::createSample *)
(* y = (I + a vn vn^T) z with a = sqrt(1 + |v|^2) - 1 and |vn| = 1 has |y|^2 = |z|^2 + (v . z)^2 for v = normv * vn:
   the (symmetric) sampling matrix A satisfies A A^T = I + v v^T, so x = mean + sigma * D * y has covariance
   sigma^2 D (I + v v^T) D  — the matrix [vd_cov] of C11MoreProofs.vd_cov_pd. *)
Lemma vd_sample_spec mean sigma D vn normv (z : list R) :
  length z = length vn -> dot O vn vn = 1 ->
  let r := vd_sample O mean sigma D vn normv z in
  fst r = vadd O mean (vmul O (vscale O sigma D) (snd r)) /\
  snd r = vadd O z (vscale O ((sqrt (1 + normv * normv) - 1) * dot O z vn) vn) /\
  normsqr O (snd r) = normsqr O z + dot O (vscale O normv vn) z * dot O (vscale O normv vn) z.
Proof.
  intros L U. unfold vd_sample. cbv zeta. cbn [fst snd]. split; [reflexivity|]. split; [reflexivity|].
  cbn [o_sqrt o_add o_sub o_mul o_one RO].
  set (s := sqrt (1 + normv * normv)). set (p := dot O z vn). set (a := (s - 1) * p).
  assert (s * s = 1 + normv * normv) as SS by (apply sqrt_sqrt; nra).
  set (w := vscale O a vn).
  assert (length z = length w) as Lw by (unfold w; rewrite vscale_len; auto).
  unfold normsqr.
  rewrite dot_vadd_l by auto.
  rewrite (dot_comm z (vadd O z w)), (dot_comm w (vadd O z w)), !dot_vadd_l by auto.
  unfold w. rewrite !dot_vscale_l. rewrite (dot_comm z (vscale O a vn)), !dot_vscale_l.
  rewrite (dot_comm vn (vscale O a vn)), dot_vscale_l.
  rewrite (dot_comm vn z). fold p. rewrite U.
  replace (dot O z z + a * p + (a * p + a * (a * 1))) with (dot O z z + ((s - 1) * (s - 1) + 2 * (s - 1)) * (p * p))
    by (unfold a; ring).
  replace ((s - 1) * (s - 1) + 2 * (s - 1)) with (s * s - 1) by ring. rewrite SS. ring.
Qed.
