(* C11 — CrossEntropyMethod (the cem functions of C11DirectModel): proofs.  Generic part over any [ops] (no axioms), order/variance part over Q. *)
From Coq Require Import List Arith Bool QArith Lia Lqa Permutation.
From SharkV Require Import C11Model C11DirectModel C11Proofs C11SimplexProofs.
Import ListNotations.
Set Implicit Arguments.

(* ================================================================ generic: what is selected, what is reported *)
Section TagMore.
Variables (A P : Type) (O : ops A).

Lemma pinsert_in (k : P -> A) x y l : In y (pinsert O k x l) <-> y = x \/ In y l.
Proof.
  induction l as [|z t IH]; cbn [pinsert In].
  - split; intros [H|H]; auto.
  - destruct (o_ltb O (k z) (k x)); cbn [In]; [rewrite IH|]; split; intro H; intuition.
Qed.

Lemma psort_in (k : P -> A) y l : In y (psort O k l) <-> In y l.
Proof.
  induction l as [|x t IH]; cbn [psort fold_right In]; [reflexivity|].
  change (fold_right (pinsert O k) [] t) with (psort O k t). rewrite pinsert_in, IH. split; intros [H|H]; auto.
Qed.
Lemma firstn_in (x : P) n l : In x (firstn n l) -> In x l.
Proof. intro I. rewrite <- (firstn_skipn n l). apply in_or_app. left. exact I. Qed.
End TagMore.

Section CemGeneric.
Variable A : Type.
Variable O : ops A.
Notation pt := (pvec A).

Definition cem_samples (st : cem_state A) (zs : list pt) : list pt := map (cem_sample O (c_mean st) (c_var st)) zs.

(* the elite of a step: the mu best samples in rank order *)
Definition cem_elite (ev : pt -> A) (mu : nat) (st : cem_state A) (zs : list pt) : list pt :=
  firstn mu (psort O ev (cem_samples st zs)).

Lemma hd_tagged (k : pt -> A) (l : list pt) : snd (hd (sd_dflt O) (map (tag k) l)) = hd [] l.
Proof. destruct l; reflexivity. Qed.

(* the step, spelled out: it throws iff population <= selection size; otherwise mean / variance are cem_update of the elite with
   noise(counter + 1), and the reported solution is (ev p, p) for the best-ranked sample p *)
Lemma cem_step_nf ev noise n mu st zs :
  cem_step O ev noise n mu st zs =
  if Nat.ltb mu (length zs) then
    Some (mkCem (fst (cem_update O n (cem_elite ev mu st zs) (noise (S (c_counter st)))))
                (snd (cem_update O n (cem_elite ev mu st zs) (noise (S (c_counter st)))))
                (S (c_counter st))
                (hd (sd_dflt O) (map (tag ev) (cem_elite ev mu st zs))))
  else None.
Proof.
  unfold cem_step, cem_select_update. rewrite map_length.
  destruct (Nat.ltb mu (length zs)); [|reflexivity].
  change (sd_eval ev) with (tag ev).
  rewrite <- (map_map (cem_sample O (c_mean st) (c_var st)) (tag ev)).
  fold (cem_samples st zs). rewrite select_tag, payload_tag. reflexivity.
Qed.

Lemma cem_step_none_iff ev noise n mu st zs : cem_step O ev noise n mu st zs = None <-> (length zs <= mu)%nat.
Proof.
  rewrite cem_step_nf. destruct (Nat.ltb mu (length zs)) eqn:D.
  - apply Nat.ltb_lt in D. split; [discriminate|lia].
  - apply Nat.ltb_ge in D. split; auto.
Qed.

Lemma elite_length ev mu st zs : (mu < length zs)%nat -> length (cem_elite ev mu st zs) = mu.
Proof. intro L. unfold cem_elite, cem_samples. rewrite firstn_length, psort_length, map_length. lia. Qed.

Theorem cem_reports_objective_generic ev noise n mu st zs st' :
  (0 < mu)%nat -> cem_step O ev noise n mu st zs = Some st' ->
  fst (c_best st') = ev (snd (c_best st')) /\
  In (snd (c_best st')) (cem_samples st zs) /\
  snd (c_best st') = hd [] (cem_elite ev mu st zs) /\
  c_counter st' = S (c_counter st).
Proof.
  intros M E. rewrite cem_step_nf in E. destruct (Nat.ltb mu (length zs)) eqn:D; [|discriminate].
  apply Nat.ltb_lt in D. injection E as <-. cbn [c_best c_counter].
  pose proof (@elite_length ev mu st zs D) as Le.
  destruct (cem_elite ev mu st zs) as [|q qt] eqn:Eq; [cbn [length] in Le; lia|].
  cbn [map hd tag fst snd]. repeat split.
  assert (In q (cem_elite ev mu st zs)) as I by (rewrite Eq; left; reflexivity).
  unfold cem_elite in I. apply firstn_in, psort_in in I. exact I.
Qed.

(* ---------------------------------------------------------------- rank invariance *)
Definition cem_proj (st : cem_state A) := (c_mean st, c_var st, c_counter st, snd (c_best st)).

Section TwoOracles.
Variables ev ev' : pt -> A.
Hypothesis H : oeq O ev ev'.

Lemma cem_elite_oeq mu st zs : cem_elite ev mu st zs = cem_elite ev' mu st zs.
Proof. unfold cem_elite. rewrite (psort_oeq H). reflexivity. Qed.

Lemma cem_step_rank_invariant noise n mu s1 s2 zs :
  c_mean s1 = c_mean s2 -> c_var s1 = c_var s2 -> c_counter s1 = c_counter s2 ->
  option_map cem_proj (cem_step O ev noise n mu s1 zs) = option_map cem_proj (cem_step O ev' noise n mu s2 zs).
Proof.
  intros Em Ev Ec. rewrite !cem_step_nf.
  assert (cem_elite ev mu s1 zs = cem_elite ev' mu s2 zs) as Ee.
  { rewrite cem_elite_oeq. unfold cem_elite, cem_samples. rewrite Em, Ev. reflexivity. }
  destruct (Nat.ltb mu (length zs)); [|reflexivity].
  cbn [option_map]. unfold cem_proj. cbn [c_mean c_var c_counter c_best]. rewrite !hd_tagged, Ee, Ec. reflexivity.
Qed.

Theorem cem_run_rank_invariant noise n mu : forall zss s1 s2,
  c_mean s1 = c_mean s2 -> c_var s1 = c_var s2 -> c_counter s1 = c_counter s2 -> snd (c_best s1) = snd (c_best s2) ->
  option_map cem_proj (cem_run O ev noise n mu s1 zss) = option_map cem_proj (cem_run O ev' noise n mu s2 zss).
Proof.
  induction zss as [|zs rest IH]; intros s1 s2 Em Ev Ec Eb; cbn [cem_run].
  - cbn [option_map]. unfold cem_proj. rewrite Em, Ev, Ec, Eb. reflexivity.
  - pose proof (cem_step_rank_invariant noise n mu s1 s2 zs Em Ev Ec) as S.
    destruct (cem_step O ev noise n mu s1 zs) as [a|], (cem_step O ev' noise n mu s2 zs) as [b|]; cbn [option_map] in S; try discriminate; auto.
    unfold cem_proj in S. injection S as E1 E2 E3 E4. apply IH; auto.
Qed.
End TwoOracles.

End CemGeneric.

(* ================================================================ over Q: mean, variance, noise *)
Section CemQ.
Variables (sq ex : Q -> Q) (pw : Q -> Q -> Q).
Notation QO := (QO sq ex pw).
Notation pt := (pvec Q).
Open Scope Q_scope.

Definition cj (j : nat) (x : pt) : Q := nth j x 0.
Fixpoint cem_sumf (h : pt -> Q) (l : list pt) : Q := match l with [] => 0 | x :: t => h x + cem_sumf h t end.
Definition qlen (l : list pt) : Q := inject_Z (Z.of_nat (length l)).

Lemma fold_left_sumf (h : pt -> Q) l : forall a, fold_left (fun s x => s + h x) l a == a + cem_sumf h l.
Proof.
  induction l as [|x t IH]; intro a; cbn [fold_left cem_sumf]; [ring|]. rewrite IH. ring.
Qed.

Lemma qlen_cons x l : qlen (x :: l) == 1 + qlen l.
Proof.
  unfold qlen. cbn [length]. rewrite Nat2Z.inj_succ, <- Z.add_1_l, inject_Z_plus. reflexivity.
Qed.

Lemma qlen_nonneg l : 0 <= qlen l.
Proof. unfold qlen. change 0 with (inject_Z 0). rewrite <- Zle_Qle. lia. Qed.

Lemma qlen_pos l : l <> [] -> 0 < qlen l.
Proof. destruct l as [|x t]; [congruence|]. intros _. rewrite qlen_cons. pose proof (qlen_nonneg t). lra. Qed.

Lemma sumf_const (h : pt -> Q) c l : Forall (fun x => h x == c) l -> cem_sumf h l == qlen l * c.
Proof.
  induction 1 as [|x t E F IH]; cbn [cem_sumf]; [unfold qlen; cbn; ring|]. rewrite qlen_cons, IH, E. ring.
Qed.

Lemma sumf_nonneg (h : pt -> Q) l : (forall x, 0 <= h x) -> 0 <= cem_sumf h l.
Proof. intro N. induction l as [|x t IH]; cbn [cem_sumf]; [lra|]. pose proof (N x). lra. Qed.

Lemma sumf_zero (h : pt -> Q) l : (forall x, 0 <= h x) -> (cem_sumf h l == 0 <-> Forall (fun x => h x == 0) l).
Proof.
  intro N. induction l as [|x t IH]; cbn [cem_sumf]; [split; [constructor|reflexivity]|].
  pose proof (N x). pose proof (sumf_nonneg h t N). split.
  - intro E. constructor; [lra|]. apply IH. lra.
  - intro F. inversion F as [|? ? E F']; subst. apply IH in F'. lra.
Qed.

Lemma sq_zero (a : Q) : a * a == 0 <-> a == 0.
Proof. split; intro E; [destruct (Qmult_integral _ _ E); auto|rewrite E; ring]. Qed.

(* ---- the entries of cem_mean / cem_var *)
Lemma nth_map_seq (h : nat -> Q) n j : (j < n)%nat -> nth j (map h (seq 0 n)) 0 = h j.
Proof.
  intro L. rewrite (nth_indep _ 0 (h 0%nat)) by (rewrite map_length, seq_length; exact L).
  rewrite map_nth, seq_nth by exact L. reflexivity.
Qed.

Lemma mean_entry n ps j : (j < n)%nat -> nth j (cem_mean QO n ps) 0 == cem_sumf (cj j) ps / qlen ps.
Proof.
  intro L. unfold cem_mean. rewrite (nth_map_seq _ L).
  cbn [o_add o_div o_zero o_ofnat C11Proofs.QO]. fold (qlen ps).
  change (fold_left (fun s x => s + coord QO j x) ps 0) with (fold_left (fun s x => s + cj j x) ps 0).
  rewrite fold_left_sumf. apply Qdiv_comp; [ring|reflexivity].
Qed.

Definition sqdev (j : nat) (c : Q) (x : pt) : Q := (cj j x - c) * (cj j x - c).

Lemma var_entry n m ps noise j : (j < n)%nat ->
  nth j (cem_var QO n m ps noise) 0 == cem_sumf (sqdev j (cj j m)) ps * (1 / qlen ps) + noise.
Proof.
  intro L. unfold cem_var. rewrite (nth_map_seq _ L). unfold cem_sumsq.
  cbn [o_add o_sub o_mul o_div o_zero o_one o_ofnat C11Proofs.QO]. fold (qlen ps).
  change (fold_left (fun s x => s + (coord QO j x - coord QO j m) * (coord QO j x - coord QO j m)) ps 0)
    with (fold_left (fun s x => s + sqdev j (cj j m) x) ps 0).
  rewrite fold_left_sumf. ring.
Qed.

Lemma sqdev_nonneg j c x : 0 <= sqdev j c x.
Proof.
  unfold sqdev. set (a := cj j x - c).
  destruct (Qlt_le_dec a 0) as [N|N].
  - setoid_replace (a * a) with ((- a) * (- a)) by ring. apply Qmult_le_0_compat; lra.
  - apply Qmult_le_0_compat; exact N.
Qed.

Lemma inv_qlen_pos ps : ps <> [] -> 0 < 1 / qlen ps.
Proof. intro NE. apply Qlt_shift_div_l; [apply qlen_pos, NE|lra]. Qed.

(* all elite points agree in coordinate j  <->  all equal the mean there *)
Lemma agree_iff_mean n ps j : ps <> [] -> (j < n)%nat ->
  ((forall x y, In x ps -> In y ps -> cj j x == cj j y) <-> Forall (fun x => cj j x == nth j (cem_mean QO n ps) 0) ps).
Proof.
  intros NE L. pose proof (qlen_pos NE) as LP. split.
  - intro Ag. destruct ps as [|x0 t]; [congruence|].
    assert (Forall (fun x => cj j x == cj j x0) (x0 :: t)) as F.
    { apply Forall_forall. intros x I. apply Ag; [exact I|left; reflexivity]. }
    assert (nth j (cem_mean QO n (x0 :: t)) 0 == cj j x0) as Em.
    { rewrite (mean_entry _ L), (sumf_const _ F). field. lra. }
    eapply Forall_impl; [|exact F]. cbn beta. intros x E. rewrite E, Em. reflexivity.
  - intros F x y Ix Iy. rewrite Forall_forall in F. rewrite (F x Ix), (F y Iy). reflexivity.
Qed.

(* ---- the theorem about one update *)
Theorem cem_update_spec n ps noise j :
  ps <> [] -> (j < n)%nat -> 0 <= noise ->
  let m := fst (cem_update QO n ps noise) in
  let v := snd (cem_update QO n ps noise) in
  nth j m 0 * qlen ps == cem_sumf (cj j) ps /\
  noise <= nth j v 0 /\
  (0 < noise -> 0 < nth j v 0) /\
  (nth j v 0 == 0 <-> noise == 0 /\ forall x y, In x ps -> In y ps -> cj j x == cj j y).
Proof.
  intros NE L N. cbv zeta. unfold cem_update. cbn [fst snd].
  pose proof (qlen_pos NE) as LP. pose proof (inv_qlen_pos NE) as IP.
  set (m := cem_mean QO n ps).
  pose proof (sumf_nonneg (sqdev j (cj j m)) ps (sqdev_nonneg j (cj j m))) as SN.
  assert (0 <= cem_sumf (sqdev j (cj j m)) ps * (1 / qlen ps)) as PN by (apply Qmult_le_0_compat; lra).
  rewrite (var_entry _ _ _ L).
  split; [unfold m; rewrite (mean_entry _ L); field; lra|].
  split; [lra|]. split; [intro; lra|].
  rewrite (agree_iff_mean NE L). fold m.
  assert (Forall (fun x => cj j x == nth j m 0) ps <-> cem_sumf (sqdev j (cj j m)) ps == 0) as K.
  { rewrite (sumf_zero _ _ (sqdev_nonneg j (cj j m))). split; intro F; (eapply Forall_impl; [|exact F]); cbn beta; intros x E.
    - unfold sqdev, cj in *. rewrite E. ring.
    - unfold sqdev in E. apply (proj1 (sq_zero _)) in E. unfold cj in *. lra. }
  rewrite K. split.
  - intro E. assert (cem_sumf (sqdev j (cj j m)) ps * (1 / qlen ps) == 0) as Z by lra.
    split; [lra|]. destruct (Qmult_integral _ _ Z) as [Z'|Z']; [exact Z'|lra].
  - intros [E1 E2]. rewrite E1, E2. ring.
Qed.

(* ---- the noise schedules *)
Theorem cem_noise_spec (c a b : Q) (t : nat) :
  0 <= cem_noise_const QO c t /\ 0 <= cem_noise_linear QO a b t /\
  (0 < cem_noise_const QO c t <-> 0 < c) /\
  (0 < cem_noise_linear QO a b t <-> 0 < a + inject_Z (Z.of_nat t) * b).
Proof.
  unfold cem_noise_const, cem_noise_linear, omax. cbn [o_ltb o_add o_mul o_zero o_ofnat C11Proofs.QO].
  destruct (Qltb c 0) eqn:D1; destruct (Qltb (a + inject_Z (Z.of_nat t) * b) 0) eqn:D2;
    try apply Qltb_spec in D1; try apply Qltb_false in D1; try apply Qltb_spec in D2; try apply Qltb_false in D2;
    repeat split; intros; lra.
Qed.

(* ---- one step: the updated distribution in terms of the elite *)
Theorem cem_step_spec (ev : pt -> Q) noise n mu st zs st' j :
  (0 < mu)%nat -> (j < n)%nat -> 0 <= noise (S (c_counter st)) ->
  cem_step QO ev noise n mu st zs = Some st' ->
  let elite := cem_elite QO ev mu st zs in
  let nz := noise (S (c_counter st)) in
  length elite = mu /\ (mu < length zs)%nat /\
  nth j (c_mean st') 0 * inject_Z (Z.of_nat mu) == cem_sumf (cj j) elite /\
  nz <= nth j (c_var st') 0 /\
  (0 < nz -> 0 < nth j (c_var st') 0) /\
  (nth j (c_var st') 0 == 0 <-> nz == 0 /\ forall x y, In x elite -> In y elite -> cj j x == cj j y).
Proof.
  intros M L N E. cbv zeta. rewrite cem_step_nf in E. destruct (Nat.ltb mu (length zs)) eqn:D; [|discriminate].
  apply Nat.ltb_lt in D. injection E as <-. cbn [c_mean c_var].
  pose proof (@elite_length Q QO ev mu st zs D) as Le.
  assert (cem_elite QO ev mu st zs <> []) as NE by (intro Z; rewrite Z in Le; cbn in Le; lia).
  destruct (@cem_update_spec n _ (noise (S (c_counter st))) j NE L N) as (S1 & S2 & S3 & S4).
  unfold qlen in S1. rewrite Le in S1. unfold cem_update in S1, S2, S3, S4. cbn [fst snd] in S1, S2, S3, S4.
  split; [exact Le|]. split; [exact D|]. split; [exact S1|]. split; [exact S2|]. split; [exact S3|exact S4].
Qed.

(* a strictly increasing, ==-compatible rescaling orders every pair of points as the objective does *)
Lemma cem_incr_oeq (phi : Q -> Q) (ev : pt -> Q) :
  (forall a b, a < b -> phi a < phi b) -> (forall a b, a == b -> phi a == phi b) -> oeq QO ev (fun x => phi (ev x)).
Proof. apply incr_oeq. Qed.

Theorem cem_rank_invariant_lemma (ev ev' : pt -> Q) noise n mu zss st :
  (forall x y, ev x < ev y <-> ev' x < ev' y) ->
  option_map (@cem_proj Q) (cem_run QO ev noise n mu st zss) = option_map (@cem_proj Q) (cem_run QO ev' noise n mu st zss).
Proof. intro H. apply cem_run_rank_invariant; auto. apply order_oeq, H. Qed.

Theorem cem_elite_rank_invariant_lemma (phi : Q -> Q) (ev : pt -> Q) mu st zs :
  (forall a b, a < b -> phi a < phi b) -> (forall a b, a == b -> phi a == phi b) ->
  cem_elite QO (fun x => phi (ev x)) mu st zs = cem_elite QO ev mu st zs.
Proof. intros Hi He. symmetry. apply cem_elite_oeq, incr_oeq; auto. Qed.

End CemQ.
