(* C13 — HypervolumeCalculator.h (front end, useApproximation = false) as coded: executable model (definitions only).
   empty set -> 0; 2 objectives -> HypervolumeCalculator2D; 3 -> HypervolumeCalculator3D; 4 -> HypervolumeCalculatorMDHOY;
   otherwise HypervolumeCalculatorMDWFG.  The HOY algorithm is not modelled: it is the parameter [hoy]. *)
From Coq Require Import List ZArith.
From SharkV Require Import ListAux C13Model C13Wfg C13Sweep3d.
Import ListNotations.

Definition hv_dispatch (hoy : point -> list point -> Z) (ref : point) (S : list point) : Z :=
  match S with
  | [] => 0%Z
  | _ => match length ref with
         | 2 => hv2d ref S
         | 3 => hv3d ref S
         | 4 => hoy ref S
         | _ => wfg ref S
         end
  end.
