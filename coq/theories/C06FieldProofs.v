(* C06 — proofs about the Section-polymorphic part of C06Model.v (cross-entropy with both label encodings,
   HuberLoss, AbsoluteLoss) over EVERY ordered field with Leibniz equality that carries
     exp/log with  exp(a+b) = exp a * exp b,  0 < exp a,  log(exp a) = a,  0 < y -> exp(log y) = y
     sqrt     with  0 < x -> 0 < sqrt x /\ sqrt x * sqrt x = x,  sqrt 0 = 0.
   The real numbers are such a structure (C06RealProofs.v); the driver runs the same functions on IEEE
   doubles.  No axioms. *)
From Coq Require Import List Arith Bool Field Ring Lia.
From SharkV Require Import ListAux C06Model.
Import ListNotations.

Declare Scope OF_scope.
Delimit Scope OF_scope with OF.

Definition lt {A : Type} (ltb : A -> A -> bool) (a b : A) : Prop := ltb a b = true.

(* the laws, bundled *)
Record OrdFieldLaws {A : Type} (zero one : A) (add sub mul div : A -> A -> A) (opp inv : A -> A)
       (ltb : A -> A -> bool) : Prop := {
  ofl_field : field_theory zero one add mul sub opp div inv eq;
  ofl_irrefl : forall a, ~ lt ltb a a;
  ofl_trans : forall a b c, lt ltb a b -> lt ltb b c -> lt ltb a c;
  ofl_total : forall a b, lt ltb a b \/ a = b \/ lt ltb b a;
  ofl_add : forall a b c, lt ltb a b -> lt ltb (add a c) (add b c);
  ofl_mul : forall a b, lt ltb zero a -> lt ltb zero b -> lt ltb zero (mul a b)
}.
Record OfnatLaws {A : Type} (zero one : A) (add : A -> A -> A) (ofnat : nat -> A) : Prop := {
  onl_0 : ofnat 0 = zero;
  onl_S : forall n, ofnat (S n) = add (ofnat n) one
}.
Record SqrtLaws {A : Type} (zero : A) (mul : A -> A -> A) (ltb : A -> A -> bool) (sqrtA : A -> A) : Prop := {
  sql_spec : forall x, lt ltb zero x -> lt ltb zero (sqrtA x) /\ mul (sqrtA x) (sqrtA x) = x;
  sql_0 : sqrtA zero = zero
}.
Record ExpLogLaws {A : Type} (zero : A) (add mul : A -> A -> A) (ltb : A -> A -> bool) (expA logA : A -> A) : Prop := {
  ell_exp_add : forall a b, expA (add a b) = mul (expA a) (expA b);
  ell_exp_pos : forall a, lt ltb zero (expA a);
  ell_log_exp : forall a, logA (expA a) = a;
  ell_exp_log : forall y, lt ltb zero y -> expA (logA y) = y
}.

Section OrderedField.
Variable A : Type.
Variables (zero one : A) (add sub mul div : A -> A -> A) (opp inv : A -> A) (ltb : A -> A -> bool).
Variables (expA logA sqrtA : A -> A) (ofnat : nat -> A).

Hypothesis OF : OrdFieldLaws zero one add sub mul div opp inv ltb.
Hypothesis NA : OfnatLaws zero one add ofnat.

Let Fth := ofl_field _ _ _ _ _ _ _ _ _ OF.
Let lt_irrefl := ofl_irrefl _ _ _ _ _ _ _ _ _ OF.
Let lt_trans := ofl_trans _ _ _ _ _ _ _ _ _ OF.
Let lt_total := ofl_total _ _ _ _ _ _ _ _ _ OF.
Let lt_add := ofl_add _ _ _ _ _ _ _ _ _ OF.
Let lt_mul := ofl_mul _ _ _ _ _ _ _ _ _ OF.
Let ofnat_0 := onl_0 _ _ _ _ NA.
Let ofnat_S := onl_S _ _ _ _ NA.

Add Field C06field : Fth.

Notation "0" := zero : OF_scope.
Notation "1" := one : OF_scope.
Infix "+" := add : OF_scope.
Infix "*" := mul : OF_scope.
Infix "-" := sub : OF_scope.
Infix "/" := div : OF_scope.
Notation "- x" := (opp x) : OF_scope.
Notation "a < b" := (lt ltb a b) : OF_scope.
Local Open Scope OF_scope.
Notation two := (1 + 1).

Notation asum := (asum A zero add).
Notation amax := (amax A ltb).
Notation adot := (adot A zero add mul).
Notation asub := (asub A sub).
Notation anormsq := (anormsq A zero add mul).
Notation amap2 := (amap2 A).
Notation ahalf := (ahalf A one add div).

(* ------------------------------------------------------------------------------------------ *)
(* order *)
Lemma pos_neq a : 0 < a -> a <> 0.
Proof. intros H E. rewrite E in H. exact (lt_irrefl _ H). Qed.

Lemma add_pos a b : 0 < a -> 0 < b -> 0 < a + b.
Proof.
  intros Ha Hb. apply (lt_trans _ b); [exact Hb|].
  pose proof (lt_add 0 a b Ha) as H. replace (0 + b) with b in H by ring. exact H.
Qed.

Lemma opp_pos a : a < 0 -> 0 < - a.
Proof.
  intros H. pose proof (lt_add a 0 (- a) H) as H1.
  replace (a + - a) with 0 in H1 by ring. replace (0 + - a) with (- a) in H1 by ring. exact H1.
Qed.

Lemma sq_not_neg a : ~ a * a < 0.
Proof.
  intros H. destruct (lt_total 0 a) as [Ha|[Ha|Ha]].
  - exact (lt_irrefl _ (lt_trans _ _ _ (lt_mul a a Ha Ha) H)).
  - rewrite <- Ha in H. replace (0 * 0) with 0 in H by ring. exact (lt_irrefl _ H).
  - pose proof (opp_pos a Ha) as Hn. pose proof (lt_mul _ _ Hn Hn) as H2.
    replace (- a * - a) with (a * a) in H2 by ring. exact (lt_irrefl _ (lt_trans _ _ _ H2 H)).
Qed.

Lemma lt_0_1 : 0 < 1.
Proof.
  destruct (lt_total 0 1) as [H|[H|H]]; [exact H | |].
  - exfalso. apply (F_1_neq_0 Fth). symmetry. exact H.
  - exfalso. apply (sq_not_neg 1). replace (1 * 1) with 1 by ring. exact H.
Qed.

Lemma lt_0_2 : 0 < two.
Proof. apply add_pos; apply lt_0_1. Qed.

Lemma two_neq : two <> 0.
Proof. apply pos_neq, lt_0_2. Qed.

(* a value strictly above a square is positive *)
Lemma above_sq_pos d n : d * d < n -> 0 < n.
Proof.
  intros H. destruct (lt_total 0 n) as [Hn|[Hn|Hn]]; [exact Hn | |].
  - exfalso. rewrite <- Hn in H. exact (sq_not_neg d H).
  - exfalso. exact (sq_not_neg d (lt_trans _ _ _ H Hn)).
Qed.

(* ------------------------------------------------------------------------------------------ *)
(* finite sums: asum is the left fold `error += x` *)
Fixpoint rsum (l : list A) : A := match l with [] => 0 | x :: l' => x + rsum l' end.

Lemma fold_add_acc l : forall acc, fold_left add l acc = acc + rsum l.
Proof.
  induction l as [|x l IH]; intros acc; simpl; [ring|]. rewrite IH. ring.
Qed.

Lemma asum_rsum l : asum l = rsum l.
Proof. unfold C06Model.asum. rewrite fold_add_acc. ring. Qed.

Lemma asum_nil : asum [] = 0.
Proof. reflexivity. Qed.

Lemma asum_cons x l : asum (x :: l) = x + asum l.
Proof. rewrite !asum_rsum. reflexivity. Qed.

Lemma asum_app l1 l2 : asum (l1 ++ l2) = asum l1 + asum l2.
Proof.
  induction l1 as [|x l1 IH]; simpl app.
  - rewrite asum_nil. ring.
  - rewrite !asum_cons, IH. ring.
Qed.

Lemma asum_single x : asum [x] = x.
Proof. rewrite asum_cons, asum_nil. ring. Qed.

Lemma asum_map_mul {T} c (f : T -> A) l : asum (map (fun x => c * f x) l) = c * asum (map f l).
Proof.
  induction l as [|x l IH]; simpl map.
  - rewrite asum_nil. ring.
  - rewrite !asum_cons, IH. ring.
Qed.

Lemma asum_map_ext {T} (f g : T -> A) l : (forall x, In x l -> f x = g x) -> asum (map f l) = asum (map g l).
Proof.
  intros H. induction l as [|x l IH]; simpl map; [reflexivity|].
  rewrite !asum_cons, IH, (H x); [reflexivity | left; reflexivity | intros y Hy; apply H; right; exact Hy].
Qed.

Lemma asum_map_add3 {T} (f g h : T -> A) l :
  asum (map (fun x => f x - g x + h x) l) = asum (map f l) - asum (map g l) + asum (map h l).
Proof.
  induction l as [|x l IH]; simpl map.
  - rewrite !asum_nil. ring.
  - rewrite !asum_cons, IH. ring.
Qed.

Lemma asum_concat (ll : list (list A)) : asum (concat ll) = asum (map asum ll).
Proof.
  induction ll as [|l ll IH]; simpl concat; simpl map; [reflexivity|].
  rewrite asum_app, asum_cons, IH. reflexivity.
Qed.

Lemma asum_pos l : l <> [] -> (forall x, In x l -> 0 < x) -> 0 < asum l.
Proof.
  induction l as [|x l IH]; intros Hne Hp; [contradiction|].
  rewrite asum_cons. destruct l as [|y l].
  - rewrite asum_nil. replace (x + 0) with x by ring. apply Hp. left. reflexivity.
  - apply add_pos; [apply Hp; left; reflexivity|].
    apply IH; [discriminate | intros z Hz; apply Hp; right; exact Hz].
Qed.

(* ------------------------------------------------------------------------------------------ *)
(* vectors *)
Fixpoint avaxpy (t : A) (v p : list A) : list A :=
  match v, p with vi :: v', pi :: p' => (pi + t * vi) :: avaxpy t v' p' | _, _ => [] end.

Lemma anormsq_cons x v : anormsq (x :: v) = x * x + anormsq v.
Proof. reflexivity. Qed.

Lemma anormsq_asub_step l : forall p v t, length p = length l -> length v = length l ->
  anormsq (asub (avaxpy t v p) l) = anormsq (asub p l) + t * (two * adot (asub p l) v + t * anormsq v).
Proof.
  induction l as [|a l IH]; intros [|x p] [|y v] t Hp Hv; simpl in Hp, Hv; try discriminate.
  - simpl. unfold C06Model.anormsq. simpl. ring.
  - cbn [avaxpy C06Model.asub]. rewrite !anormsq_cons. rewrite IH by lia.
    cbn [C06Model.adot]. ring.
Qed.

Lemma adot_scale c : forall x y, adot (map (mul c) x) y = c * adot x y.
Proof.
  induction x as [|a x IH]; intros [|b y]; simpl; try ring. rewrite IH. ring.
Qed.

Lemma anormsq_not_neg v : ~ anormsq v < 0.
Proof.
  induction v as [|x v IH]; unfold C06Model.anormsq; simpl.
  - apply lt_irrefl.
  - fold (anormsq v). intros H.
    destruct (lt_total 0 (anormsq v)) as [Hv|[Hv|Hv]]; [| |exact (IH Hv)].
    + destruct (lt_total 0 (x * x)) as [Hx|[Hx|Hx]]; [| |exact (sq_not_neg x Hx)].
      * exact (lt_irrefl _ (lt_trans _ _ _ (add_pos _ _ Hx Hv) H)).
      * rewrite <- Hx in H. replace (0 + anormsq v) with (anormsq v) in H by ring.
        exact (lt_irrefl _ (lt_trans _ _ _ Hv H)).
    + rewrite <- Hv in H. replace (x * x + 0) with (x * x) in H by ring. exact (sq_not_neg x H).
Qed.

Lemma amap2_mul_sum : forall a b, asum (amap2 mul a b) = adot a b.
Proof.
  induction a as [|x a IH]; intros [|y b]; cbn [C06Model.amap2 C06Model.adot]; try reflexivity.
  rewrite asum_cons, IH. reflexivity.
Qed.

(* ------------------------------------------------------------------------------------------ *)
(* HuberLoss / AbsoluteLoss *)
Section Sqrt.
Hypothesis SQ : SqrtLaws zero mul ltb sqrtA.
Let sqrt_spec := sql_spec _ _ _ _ SQ.
Let sqrt_0 := sql_0 _ _ _ _ SQ.

Notation huberA_s := (huberA_s A zero one add sub mul div ltb sqrtA).
Notation huberA_g := (huberA_g A zero add sub mul div ltb sqrtA).
Notation huberA_eval := (huberA_eval A zero one add sub mul div ltb sqrtA).
Notation huberA_evald := (huberA_evald A zero one add sub mul div ltb sqrtA).
Notation absA_single := (absA_single A zero add sub mul sqrtA).
Notation absA_eval := (absA_eval A zero add sub mul sqrtA).

Definition huberA_outer_rem (delta s s' D V t : A) : A :=
  delta * (V * s * (s + s') - D * (two * D + t * V)) / (s * ((s + s') * (s + s'))).

Lemma huberA_outer_algebra delta s s' D V t :
  s <> 0 -> s + s' <> 0 -> s' * s' = s * s + t * (two * D + t * V) ->
  delta * s' - delta * s = t * (delta / s * D + t * huberA_outer_rem delta s s' D V t).
Proof.
  intros Hs Hss H. unfold huberA_outer_rem.
  replace (delta * s' - delta * s)
    with (t * (delta / s * D + t * (delta * (V * s * (s + s') - D * (two * D + t * V)) / (s * ((s + s') * (s + s')))))
          + delta * (s * (s + s') - t * D) / (s * ((s + s') * (s + s'))) * (s' * s' - (s * s + t * (two * D + t * V))))
    by (field; split; assumption).
  rewrite H. field. split; assumption.
Qed.

(* linear region: both points strictly outside the ball (the only side condition: the step does not
   cross or touch the sphere |p-l| = delta); explicit remainder *)
Theorem huberA_outer_gradient delta l p v t : length p = length l -> length v = length l ->
  let n := anormsq (asub p l) in let n' := anormsq (asub (avaxpy t v p) l) in
  delta * delta < n -> delta * delta < n' ->
  huberA_s delta l (avaxpy t v p) - huberA_s delta l p
  = t * (adot (huberA_g delta l p) v
         + t * huberA_outer_rem delta (sqrtA n) (sqrtA n') (adot (asub p l) v) (anormsq v) t).
Proof.
  intros Hp Hv n n' H1 H2. unfold C06Model.huberA_s, C06Model.huberA_g. fold n n'.
  unfold lt in H1, H2. rewrite H1, H2.
  destruct (sqrt_spec n (above_sq_pos _ _ H1)) as [P1 S1].
  destruct (sqrt_spec n' (above_sq_pos _ _ H2)) as [P2 S2].
  rewrite adot_scale.
  assert (Hstep : sqrtA n' * sqrtA n' = sqrtA n * sqrtA n + t * (two * adot (asub p l) v + t * anormsq v)).
  { rewrite S1, S2. subst n n'. apply anormsq_asub_step; assumption. }
  pose proof (huberA_outer_algebra delta _ _ _ _ t (pos_neq _ P1) (pos_neq _ (add_pos _ _ P1 P2)) Hstep) as E.
  rewrite <- E. ring.
Qed.

(* quadratic region: both points inside the closed ball *)
Theorem huberA_inner_gradient delta l p v t : length p = length l -> length v = length l ->
  ltb (delta * delta) (anormsq (asub p l)) = false ->
  ltb (delta * delta) (anormsq (asub (avaxpy t v p) l)) = false ->
  huberA_s delta l (avaxpy t v p) - huberA_s delta l p
  = t * (adot (huberA_g delta l p) v + t * (ahalf * anormsq v)).
Proof.
  intros Hp Hv H1 H2. unfold C06Model.huberA_s, C06Model.huberA_g. rewrite H1, H2.
  rewrite (anormsq_asub_step l p v t Hp Hv). unfold C06Model.ahalf. field. exact two_neq.
Qed.

Theorem huberA_paths delta b : fst (huberA_evald delta b) = huberA_eval delta b.
Proof. reflexivity. Qed.

Theorem huberA_batch_is_sum delta b :
  huberA_eval delta b = asum (map (fun e => huberA_eval delta [e]) b) /\
  snd (huberA_evald delta b) = map (fun e => nth 0 (snd (huberA_evald delta [e])) []) b.
Proof.
  split.
  - unfold C06Model.huberA_eval. apply asum_map_ext. intros e _. cbn [map]. rewrite asum_single. reflexivity.
  - unfold C06Model.huberA_evald. cbn [snd map nth]. reflexivity.
Qed.

(* AbsoluteLoss: the value is THE Euclidean distance (non-negative, squares to |p-l|^2) *)
Theorem absA_is_distance l p :
  absA_single l p * absA_single l p = anormsq (asub p l) /\ ~ absA_single l p < 0.
Proof.
  unfold C06Model.absA_single. set (n := anormsq (asub p l)).
  destruct (lt_total 0 n) as [Hn|[Hn|Hn]].
  - destruct (sqrt_spec n Hn) as [P S]. split; [exact S|]. intros H. exact (lt_irrefl _ (lt_trans _ _ _ P H)).
  - rewrite <- Hn, sqrt_0. split; [ring | apply lt_irrefl].
  - exfalso. exact (anormsq_not_neg _ Hn).
Qed.

Theorem absA_batch_is_sum b : absA_eval b = asum (map (fun e => absA_eval [e]) b).
Proof.
  unfold C06Model.absA_eval. apply asum_map_ext. intros e _. cbn [map]. rewrite asum_single. reflexivity.
Qed.
End Sqrt.

(* ------------------------------------------------------------------------------------------ *)
(* cross-entropy *)
Section ExpLog.
Hypothesis EL : ExpLogLaws zero add mul ltb expA logA.
Let exp_add := ell_exp_add _ _ _ _ _ _ EL.
Let exp_pos := ell_exp_pos _ _ _ _ _ _ EL.
Let log_exp := ell_log_exp _ _ _ _ _ _ EL.
Let exp_log := ell_exp_log _ _ _ _ _ _ EL.

Notation ce_eval := (ce_eval A zero one add sub mul opp expA logA ltb ofnat).
Notation ce_evald := (ce_evald A zero one add sub mul div opp expA logA ltb ofnat).
Notation ce_evalError := (ce_evalError A one add mul opp logA ltb ofnat).
Notation ce_batch_eval := (ce_batch_eval A zero one add sub mul opp expA logA ltb ofnat).
Notation ce_batch_evald := (ce_batch_evald A zero one add sub mul div opp expA logA ltb ofnat).
Notation cev_shift := (cev_shift A zero sub expA ltb).
Notation cev_eval := (cev_eval A zero add sub mul expA logA ltb).
Notation cev_evald := (cev_evald A zero add sub mul div expA logA ltb).

Lemma exp_neq a : expA a <> 0.
Proof. apply pos_neq, exp_pos. Qed.

Lemma exp_0 : expA 0 = 1.
Proof.
  pose proof (exp_add 0 0) as H. replace (0 + 0) with 0 in H by ring.
  assert (E : expA 0 * (expA 0 - 1) = 0) by (replace (expA 0 * (expA 0 - 1)) with (expA 0 * expA 0 - expA 0) by ring; rewrite <- H; ring).
  assert (E2 : expA 0 - 1 = 0).
  { replace (expA 0 - 1) with (expA 0 * (expA 0 - 1) / expA 0) by (field; apply exp_neq). rewrite E. field. apply exp_neq. }
  replace (expA 0) with (expA 0 - 1 + 1) by ring. rewrite E2. ring.
Qed.

Lemma exp_sub a b : expA (a - b) = expA a / expA b.
Proof.
  assert (H : expA (a - b) * expA b = expA a) by (rewrite <- exp_add; f_equal; ring).
  rewrite <- H. field. apply exp_neq.
Qed.

Lemma exp_opp a : expA (- a) = 1 / expA a.
Proof. replace (- a) with (0 - a) by ring. rewrite exp_sub, exp_0. reflexivity. Qed.

Lemma log_mul_exp a y : 0 < y -> logA (expA a * y) = a + logA y.
Proof. intros Hy. rewrite <- (exp_log y Hy) at 1. rewrite <- exp_add, log_exp. reflexivity. Qed.

Lemma log_exp_div a y : 0 < y -> logA (expA a / y) = a - logA y.
Proof.
  intros Hy. rewrite <- (exp_log y Hy) at 1. rewrite <- exp_sub, log_exp. reflexivity.
Qed.

Definition expsum (p : list A) : A := asum (map expA p).
Definition softmax (p : list A) : list A := map (fun x => expA x / expsum p) p.

Lemma expsum_pos p : p <> [] -> 0 < expsum p.
Proof.
  intros Hne. unfold expsum. apply asum_pos.
  - destruct p; [contradiction | discriminate].
  - intros x Hx. apply in_map_iff in Hx as (y & <- & _). apply exp_pos.
Qed.

(* the shifted sum: exp(x - m) summed = exp(-m) * sum exp(x), for ANY shift m *)
Lemma shifted_sum p m : asum (map (fun x => expA (x - m)) p) = expA (- m) * expsum p.
Proof.
  unfold expsum. rewrite <- asum_map_mul. apply asum_map_ext. intros x _.
  replace (x - m) with (- m + x) by ring. apply exp_add.
Qed.

(* log-sum-exp as coded (maximum subtracted before exponentiation, added back after the logarithm)
   equals the unshifted definition *)
Theorem lse_shift p m : p <> [] ->
  logA (asum (map (fun x => expA (x - m)) p)) + m = logA (expsum p).
Proof.
  intros Hne. rewrite shifted_sum, (log_mul_exp _ _ (expsum_pos p Hne)). ring.
Qed.

(* ---- CrossEntropy<unsigned int, RealVector>, several outputs ---- *)
Theorem ce_eval_multiclass c p : (length p =? 1)%nat = false -> p <> [] ->
  ce_eval c p = logA (expsum p) - nth c p 0.
Proof.
  intros Hd Hne. unfold C06Model.ce_eval. rewrite Hd. cbv zeta. rewrite (lse_shift p _ Hne). reflexivity.
Qed.

(* ... which is -log(softmax_c) *)
Theorem ce_eval_is_neg_log_softmax c p : (length p =? 1)%nat = false -> p <> [] ->
  ce_eval c p = - logA (expA (nth c p 0) / expsum p).
Proof.
  intros Hd Hne. rewrite (ce_eval_multiclass c p Hd Hne), (log_exp_div _ _ (expsum_pos p Hne)). ring.
Qed.

(* evalDerivative returns the value of eval (every label, every prediction, one or several outputs) *)
Theorem ce_paths c p : fst (ce_evald c p) = ce_eval c p.
Proof.
  unfold C06Model.ce_evald, C06Model.ce_eval. destruct (length p =? 1)%nat; cbv zeta; cbn [fst]; [reflexivity | ring].
Qed.

Lemma shifted_softmax p m : p <> [] ->
  map (fun x => x / asum (map (fun x => expA (x - m)) p)) (map (fun x => expA (x - m)) p) = softmax p.
Proof.
  intros Hne. unfold softmax. rewrite map_map. apply map_ext_in. intros x _.
  rewrite shifted_sum, exp_sub, exp_opp. field.
  split; [apply pos_neq, expsum_pos, Hne | apply exp_neq].
Qed.

(* the returned gradient row is softmax(prediction) - one_hot(label) *)
Theorem ce_grad_multiclass c p : (length p =? 1)%nat = false -> p <> [] ->
  snd (ce_evald c p) = upd c (nth c (softmax p) 0 - 1) (softmax p).
Proof.
  intros Hd Hne. unfold C06Model.ce_evald. rewrite Hd. cbv zeta. cbn [snd].
  rewrite (shifted_softmax p _ Hne). reflexivity.
Qed.

Corollary ce_grad_multiclass_coord c p j : (length p =? 1)%nat = false -> (j < length p)%nat ->
  nth j (snd (ce_evald c p)) 0 = expA (nth j p 0) / expsum p - (if (j =? c)%nat then 1 else 0).
Proof.
  intros Hd Hj. assert (Hne : p <> []) by (destruct p; [simpl in Hj; lia | discriminate]).
  rewrite (ce_grad_multiclass c p Hd Hne).
  assert (Hs : forall i, (i < length p)%nat -> nth i (softmax p) 0 = expA (nth i p 0) / expsum p).
  { intros i Hi. unfold softmax.
    rewrite (nth_indep _ 0 ((fun x => expA x / expsum p) 0)) by (rewrite map_length; exact Hi).
    rewrite (map_nth (fun x => expA x / expsum p)). reflexivity. }
  destruct (Nat.eqb_spec j c) as [->|Hjc].
  - rewrite nth_upd_eq by (unfold softmax; rewrite map_length; exact Hj). rewrite Hs by exact Hj. reflexivity.
  - rewrite nth_upd_neq by (intro E; apply Hjc; symmetry; exact E). rewrite Hs by exact Hj. ring.
Qed.

(* ---- one output: label in {0,1} is mapped to y = 2c-1 ---- *)
Lemma ofnat_1 : ofnat 1 = 1.
Proof. rewrite ofnat_S, ofnat_0. ring. Qed.
Lemma ofnat_2 : ofnat 2 = two.
Proof. rewrite ofnat_S, ofnat_1. reflexivity. Qed.

Definition ylabel (c : nat) : A := ofnat 2 * ofnat c - 1.

(* below the cut-off -200 the code returns the asymptote -y*x instead; everywhere else: ln(1 + exp(-y x)) *)
Theorem ce_eval_binary c x :
  ltb (x * ylabel c) (- ofnat 200) = false ->
  ce_eval c [x] = logA (1 + expA (- ylabel c * x)).
Proof.
  intros H. unfold C06Model.ce_eval. cbn [length Nat.eqb nth]. cbv zeta. unfold C06Model.ce_evalError.
  fold (ylabel c). rewrite H. reflexivity.
Qed.

Theorem ce_eval_binary_cutoff c x :
  ltb (x * ylabel c) (- ofnat 200) = true -> ce_eval c [x] = - (x * ylabel c).
Proof.
  intros H. unfold C06Model.ce_eval. cbn [length Nat.eqb nth]. cbv zeta. unfold C06Model.ce_evalError.
  fold (ylabel c). rewrite H. reflexivity.
Qed.

Definition sigmoid (x : A) : A := 1 / (1 + expA (- x)).

Lemma one_plus_exp_neq a : 1 + expA a <> 0.
Proof. apply pos_neq, add_pos; [apply lt_0_1 | apply exp_pos]. Qed.

(* the returned gradient is sigmoid(x) - c, with and without the cut-off *)
Theorem ce_grad_binary c x : (c < 2)%nat ->
  snd (ce_evald c [x]) = [sigmoid x - ofnat c].
Proof.
  intros Hc. unfold C06Model.ce_evald. cbn [length Nat.eqb nth]. cbv zeta. cbn [snd]. f_equal. unfold sigmoid.
  destruct c as [|[|c]]; [| |lia].
  - rewrite ofnat_0, ofnat_2.
    replace (- (two * 0 - 1) * x) with x by ring. rewrite exp_opp. field.
    split; [apply exp_neq|].
    replace (expA x + 1) with (1 + expA x) by ring. apply one_plus_exp_neq.
  - rewrite ofnat_1, ofnat_2.
    replace (- (two * 1 - 1) * x) with (- x) by ring. field. apply one_plus_exp_neq.
Qed.

(* the one-output form is the two-class form on the logits (0, x) *)
Theorem ce_binary_is_two_class c x : (c < 2)%nat ->
  ltb (x * ylabel c) (- ofnat 200) = false ->
  ce_eval c [x] = ce_eval c [0; x].
Proof.
  intros Hc H. rewrite (ce_eval_binary c x H).
  rewrite (ce_eval_multiclass c [0; x]) by (reflexivity || discriminate).
  unfold expsum. cbn [map]. rewrite !asum_cons, asum_nil, exp_0.
  destruct c as [|[|c]]; [| |lia]; unfold ylabel; cbn [nth].
  - rewrite ofnat_0. replace (- (ofnat 2 * 0 - 1) * x) with x by ring.
    replace (1 + (expA x + 0)) with (1 + expA x) by ring. ring.
  - rewrite ofnat_1, ofnat_2. replace (- (two * 1 - 1) * x) with (- x) by ring.
    assert (P : 0 < 1 + expA x) by (apply add_pos; [apply lt_0_1 | apply exp_pos]).
    replace (1 + (expA x + 0)) with (1 + expA x) by ring.
    replace (1 + expA (- x)) with (expA (- x) * (1 + expA x))
      by (rewrite exp_opp; field; apply exp_neq).
    rewrite (log_mul_exp _ _ P). ring.
Qed.

(* ---- batch = sum of the single-element calls, gradient rows = single-element gradients ---- *)
Theorem ce_batch_is_sum b :
  ce_batch_eval b = asum (map (fun e => ce_batch_eval [e]) b) /\
  fst (ce_batch_evald b) = asum (map (fun e => fst (ce_batch_evald [e])) b) /\
  snd (ce_batch_evald b) = map (fun e => nth 0 (snd (ce_batch_evald [e])) []) b /\
  fst (ce_batch_evald b) = ce_batch_eval b /\
  (forall e, ce_batch_eval [e] = ce_eval (fst e) (snd e)).
Proof.
  unfold C06Model.ce_batch_eval, C06Model.ce_batch_evald. cbn [fst snd].
  split; [|split; [|split; [|split]]].
  - apply asum_map_ext. intros e _. cbn [map]. rewrite asum_single. reflexivity.
  - apply asum_map_ext. intros e _. cbn [map]. rewrite asum_single. reflexivity.
  - cbn [map nth]. reflexivity.
  - apply asum_map_ext. intros e _. apply ce_paths.
  - intros e. cbn [map]. apply asum_single.
Qed.

(* ---- CrossEntropy<RealVector, RealVector>: probability-vector labels, batch code ---- *)
Definition cev_def (t p : list A) : A := logA (expsum p) - adot t p.

Lemma cev_single t p : p <> [] -> cev_eval [(t, p)] = cev_def t p.
Proof.
  intros Hne. unfold C06Model.cev_eval, cev_def. cbn [map concat fst snd]. rewrite app_nil_r, !asum_single.
  rewrite amap2_mul_sum. unfold C06Model.cev_shift. rewrite <- (lse_shift p (amax p 0) Hne). ring.
Qed.

(* the three batch-wide sums of the code = sum over the rows of (log sum exp - <target, prediction>) *)
Theorem cev_batch_is_sum b :
  cev_eval b = asum (map (fun e => cev_eval [e]) b) /\
  fst (cev_evald b) = cev_eval b /\
  snd (cev_evald b) = map (fun e => nth 0 (snd (cev_evald [e])) []) b.
Proof.
  split; [|split; reflexivity].
  unfold C06Model.cev_eval.
  rewrite asum_concat, map_map.
  rewrite <- (asum_map_add3 (fun e => logA (asum (cev_shift (snd e)))) (fun e => asum (amap2 mul (fst e) (snd e)))
                           (fun e => amax (snd e) 0) b).
  apply asum_map_ext. intros e _. cbn [map concat]. rewrite app_nil_r, !asum_single. reflexivity.
Qed.

Theorem cev_eval_is_definition b : (forall e, In e b -> snd e <> []) ->
  cev_eval b = asum (map (fun e => cev_def (fst e) (snd e)) b).
Proof.
  intros Hne. rewrite (proj1 (cev_batch_is_sum b)). apply asum_map_ext. intros [t p] Hin.
  apply cev_single. exact (Hne _ Hin).
Qed.

(* for a probability vector t (sum = 1) this is the cross entropy  - sum_j t_j log softmax_j(p) *)
Lemma cev_def_aux S : 0 < S -> forall t p,
  asum (amap2 (fun tj pj => tj * logA (expA pj / S)) t p) = adot t p - asum (amap2 (fun tj _ => tj) t p) * logA S.
Proof.
  intros HS. induction t as [|a t IH]; intros [|x p]; cbn [C06Model.amap2 C06Model.adot]; rewrite ?asum_nil; try ring.
  rewrite !asum_cons, IH, (log_exp_div _ _ HS). ring.
Qed.

Lemma amap2_fst : forall t p : list A, length t = length p -> amap2 (fun tj _ => tj) t p = t.
Proof.
  induction t as [|a t IH]; intros [|x p] H; simpl in H; try discriminate; [reflexivity|].
  cbn [C06Model.amap2]. rewrite IH by lia. reflexivity.
Qed.

Theorem cev_def_is_cross_entropy t p : p <> [] -> length t = length p -> asum t = 1 ->
  cev_def t p = - asum (amap2 (fun tj pj => tj * logA (expA pj / expsum p)) t p).
Proof.
  intros Hne HL Ht. rewrite (cev_def_aux _ (expsum_pos p Hne)), (amap2_fst t p HL), Ht. unfold cev_def. ring.
Qed.

(* gradient rows: softmax(prediction) - target *)
Theorem cev_grad b i : (i < length b)%nat -> snd (nth i b ([], [])) <> [] ->
  nth i (snd (cev_evald b)) [] = amap2 sub (softmax (snd (nth i b ([], [])))) (fst (nth i b ([], []))).
Proof.
  intros Hi Hne. unfold C06Model.cev_evald. cbn [snd].
  set (f := fun e : list A * list A => amap2 sub (map (fun x => x / asum (cev_shift (snd e))) (cev_shift (snd e))) (fst e)).
  change [] with (f ([], [])) at 1. rewrite map_nth. subst f. cbv beta.
  unfold C06Model.cev_shift. rewrite (shifted_softmax _ _ Hne). reflexivity.
Qed.
End ExpLog.
End OrderedField.
