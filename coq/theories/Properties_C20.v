(* C20 — Parallel routines are race-free and schedule-independent; data sharing is safe.
   Only statements + `exact`; proofs in C20Proofs.v / C20SplitProofs.v / C20RcProofs.v, executable models in
   C20Model.v / C20SplitModel.v / C20RcModel.v.

   PROVED here (for all thread counts T >= 1, all assignments of iterations to threads, all
   interleavings of the threads admitted by one global lock, all iteration counts):
     * C20_race_free_b_sound / C20_region_sound_any_iteration_count: a region summary accepted by the
       boolean checker `race_free_b` has, in every reachable state of the interleaving machine, no two
       threads about to perform overlapping accesses one of which writes, and no thread-indexed
       access out of bounds.  The per-region obligations `region_k_ok : race_free_b region_k = true`
       are regenerated from the C++ source on every run (coq/gen/C20Regions.v, tools/translate_omp.py).
     * C20_merge_schedule_independent: `acc := acc (+) local_t` under the lock in ANY order is
       fold (+) over a permutation of the thread results, = the in-order fold in a commutative monoid.
     * C20_thread_ranges_tile: the hand-written formulas of the static work split partition [0,batches).
     * C20_parallel_sum_is_sequential: both together: the merged value equals the sequential fold
       over all batches.
     * WORK SPLIT OF THE CURRENT SOURCE (was: only compared).  The integer expressions by which
       ErrorFunctionImpl::eval / ::evalDerivative and NegativeLogLikelihood::evalDerivative compute numThreads,
       batchesPerThread, leftOver and every worker's [start,end), and by which SimpleNearestNeighbors::getNeighbors
       addresses the heap cells of (pattern p, SHARK_THREAD_NUM), are translated from the clang AST into
       coq/gen/C20SplitDefs.v on every run; coq/gen/C20Split.v then holds, per site k, the obligations
           s<k>_tiles  : forall nb nt, 1 <= nb -> 1 <= nt -> tiles 0 nb (bound nb nt) (lo nb nt) (hi nb nt)
           s<k>_slices : forall P nt k, 1 <= nt -> tiles2 (cap ..) P nt (merge lo) (merge hi) (slice lo) (slice hi)
           s<k>_safe   : no divisor is 0, no unsigned subtraction wraps
           s<k>_nowrap : every intermediate value <= nb + nt  (resp. (P+1)(nt+1)(k+1))
       proved by the formula-independent script C20SplitProofs.split_solve (zify + Euclidean division
       equations + lia/nia), and the corollaries s<k>_sum_is_sequential / s<k>_threads_never_share_a_cell.
       What `tiles` / `tiles2` give is proved here once and for all:
       C20_tiles_partition, C20_tiles_disjoint_and_cover, C20_tiles_b_decides, C20_split_sum_is_sequential,
       C20_slices_disjoint_in_bounds, C20_slices_merge_is_union, C20_model_ranges_are_an_instance.
     * SHARED COPIES (was: only exercised at run time).  C20_shared_copy_safe: in the reference-count
       machine of C20RcModel.v (atomic increment for a copy; atomic decrement, then a separate free-check,
       for a destruction; any number of threads; EVERY interleaving of these micro-steps) the counter of a
       batch always equals the number of existing shared_ptr instances, a batch is never freed while an
       instance exists nor is anybody about to free it, it is never freed twice, and once the last
       instance is gone and all started destructions have finished it has been freed exactly once.
       C20_dataset_ops_are_traces: copy / indexedSubset / destruction of datasets are traces of that machine.
   PARTIAL (named `_partial` where the statement is weaker than the property text):
     * the theorems are about region SUMMARIES and about the TRANSLATED expressions; that a summary lists
       every access of the C++ region, and that the translated expression trees are the C++ expressions, is
       the translator's job (trusted, described in the evidence; the translated split expressions are
       additionally executed (extracted) against the real code on every run: which batches each worker
       evaluates, which heap cells each thread writes);
     * unsigned 64-bit arithmetic is modelled by nat under the generated side obligations s<k>_safe,
       s<k>_nowrap and the assumption that batch / thread / pattern counts are < 2^20 (the sources cast them to int);
       an EMPTY dataset (0 batches) is outside the theorems: numThreads = min(threads,0) = 0 and the C++ divides by it;
     * for floating point (+) is not associative: the theorem gives "a reassociation/permutation of
       the sequential sum" (merge_run is a fold over a permutation), the monitors compare at 1e-12
       and exactly on integer-valued data;
     * the reference-count theorem is about the machine: that boost::shared_ptr implements "atomic
       increment / atomic decrement + free iff the old value was 1" and that nobody destroys a shared_ptr
       INSTANCE while another thread copies from that same instance (C++ data-race rule; in Shark the source
       dataset outlives the parallel region) are assumptions; the machine is executed against real Data
       objects (use_count / expiry after every operation, sequentially and from 2..16 threads);
     * the C++/OpenMP memory model and the OpenMP runtime are only exercised at run time (thread-count
       comparison, TSan). *)
From Coq Require Import List Arith Bool PeanoNat Permutation.
From SharkV Require Import C20Model C20Proofs C20SplitModel C20SplitProofs C20RcModel C20RcProofs.
Import ListNotations.

(* schedule  = valid_schedule r s : s gives each of (length s) >= 1 threads its iterations, in order;
               every iteration 0..length r-1 occurs exactly once (Permutation of concat s);
               plus `choices`, the interleaving: which thread moves next (run = Some m: all moves enabled).
   conflict  = race_state m : two DIFFERENT threads both have an access as next instruction, the
               footprints overlap (same object; whole object / same cell / differently indexed /
               out-of-bounds) and at least one writes.  Two accesses inside critical blocks are never
               simultaneously enabled (the machine's Acq needs the free lock), so "not both protected"
               is part of being a race state.
   oob_state = a thread-number-indexed access beyond the allocated cells. *)
Theorem C20_race_free_b_sound :
  forall r, race_free_b r = true ->
  forall s, valid_schedule r s ->
  forall choices m, run (init_state r s) choices = Some m ->
    ~ race_state m /\ ~ oob_state m.
Proof. exact race_free_b_sound_lemma. Qed.
Print Assumptions C20_race_free_b_sound.

(* the generated obligations check two copies of the loop body; this lifts them to every iteration count *)
Theorem C20_region_sound_any_iteration_count :
  forall b, race_free_b [b; b] = true ->
  forall n s, valid_schedule (uniform b n) s ->
  forall choices m, run (init_state (uniform b n) s) choices = Some m ->
    ~ race_state m /\ ~ oob_state m.
Proof.
  intros b H n. apply race_free_b_sound_lemma. apply uniform_region_ok; auto.
Qed.
Print Assumptions C20_region_sound_any_iteration_count.

(* lock discipline of the machine: two threads are never both at an access inside a critical block *)
Theorem C20_critical_sections_exclude :
  forall r s choices m, run (init_state r s) choices = Some m ->
  forall t1 t2 a1 a2 r1 r2,
    prog_of m t1 = IAcc a1 :: r1 -> prog_of m t2 = IAcc a2 :: r2 ->
    c_crit a1 = true -> c_crit a2 = true -> t1 = t2.
Proof.
  intros r s choices m R t1 t2 a1 a2 r1 r2. apply (mutual_exclusion r s).
  eapply Inv_run; eauto. apply Inv_init.
Qed.
Print Assumptions C20_critical_sections_exclude.

(* hypotheses satisfiable / checker not vacuous *)
Theorem C20_checker_accepts_locked_accumulation :
  race_free_b [ex_good_body; ex_good_body] = true.
Proof. exact checker_accepts_locked_accumulation. Qed.
Print Assumptions C20_checker_accepts_locked_accumulation.
Theorem C20_unprotected_accumulation_is_rejected_and_races :
  race_free_b [ex_bad_body; ex_bad_body] = false /\
  exists s, valid_schedule [ex_bad_body; ex_bad_body] s /\ race_state (init_state [ex_bad_body; ex_bad_body] s).
Proof. split; [exact checker_rejects_unprotected_accumulation|exact unprotected_accumulation_races]. Qed.
Print Assumptions C20_unprotected_accumulation_is_rejected_and_races.
(* F6 shape: thread-number index into an array of min(threads, iterations) cells *)
Theorem C20_min_sized_thread_array_is_rejected_and_overflows :
  race_free_b [ex_f6_body; ex_f6_body] = false /\
  exists s, valid_schedule [ex_f6_body] s /\ oob_state (init_state [ex_f6_body] s).
Proof. split; [exact checker_rejects_min_sized_thread_array|exact min_sized_thread_array_overflows]. Qed.
Print Assumptions C20_min_sized_thread_array_is_rejected_and_overflows.

(* (b) *)
Theorem C20_merge_schedule_independent :
  forall (A : Type) (op : A -> A -> A),
    (forall a b c, op (op a b) c = op a (op b c)) -> (forall a b, op a b = op b a) ->
  forall acc locals res, merge_run A op acc locals res ->
    (exists order, Permutation locals order /\ res = fold_left op order acc) /\
    res = merge_in_order A op acc locals.
Proof. intros A op Ha Hc acc locals res R. apply merge_schedule_independent_lemma; auto. Qed.
Print Assumptions C20_merge_schedule_independent.

(* without any law on (+) (floating point): still a fold over a permutation, and every permutation can occur *)
Theorem C20_merge_is_fold_over_permutation :
  forall (A : Type) (op : A -> A -> A) acc locals,
    (forall res, merge_run A op acc locals res ->
       exists order, Permutation locals order /\ res = fold_left op order acc) /\
    (forall order, Permutation locals order -> merge_run A op acc locals (fold_left op order acc)).
Proof.
  intros A op acc locals. split.
  - intros res. apply merge_run_is_fold.
  - intros order P. destruct order as [|x rest].
    + apply Permutation_sym, Permutation_nil in P. subst. constructor.
    + simpl. eapply merge_step; [exact P|]. apply merge_run_any_order.
Qed.
Print Assumptions C20_merge_is_fold_over_permutation.

(* (c) ErrorFunction.inl: thread t of T handles batches [t*q+min(t,r), (t+1)*q+min(t+1,r)) *)
Theorem C20_thread_ranges_tile :
  forall B T, 1 <= T ->
    concat (all_ranges B T) = seq 0 B /\
    (forall t, t < T -> range_start B T t <= range_end B T t <= B) /\
    (forall t, range_end B T t = range_start B T (t + 1)) /\
    range_start B T 0 = 0 /\ range_end B T (T - 1) = B.
Proof. exact thread_ranges_tile_lemma. Qed.
Print Assumptions C20_thread_ranges_tile.

Theorem C20_every_batch_exactly_once :
  forall B T, 1 <= T -> NoDup (concat (all_ranges B T)) /\ forall i, i < B <-> In i (concat (all_ranges B T)).
Proof. exact every_batch_exactly_once. Qed.
Print Assumptions C20_every_batch_exactly_once.

(* (b)+(c): the value ErrorFunction::eval accumulates = the single-threaded sum over all batches *)
Theorem C20_parallel_sum_is_sequential :
  forall (A : Type) (op : A -> A -> A) (e : A),
    (forall a b c, op (op a b) c = op a (op b c)) -> (forall a b, op a b = op b a) -> (forall a, op a e = a) ->
  forall (f : nat -> A) B T res, 1 <= T ->
    merge_run A op e (map (thread_partial A op e f B T) (seq 0 T)) res ->
    res = fold_left op (map f (seq 0 B)) e.
Proof. intros A op e H1 H2 H3. apply parallel_sum_is_sequential_lemma; auto. Qed.
Print Assumptions C20_parallel_sum_is_sequential.

(* ================================================================ work split of the current source: what the
   generated obligations s<k>_tiles / s<k>_slices (coq/gen/C20Split.v) mean.

   tiles lo hi n s e  : the n ranges [s t, e t), t = 0..n-1, are ordered, adjacent, start at lo, end at hi
   tiles2 cap P T ms me s e : the P ranges [ms p, me p) tile [0,cap) and, for every p, the T ranges
                        [s p t, e p t) tile [ms p, me p) *)

(* the workers' index lists, concatenated in worker order, are lo, lo+1, .., hi-1: every index exactly once *)
Theorem C20_tiles_partition :
  forall lo hi n s e, tiles lo hi n s e ->
    concat (split_ranges n s e) = seq lo (hi - lo) /\ lo <= hi /\
    NoDup (concat (split_ranges n s e)) /\
    (forall i, lo <= i < hi <-> In i (concat (split_ranges n s e))).
Proof. exact tiles_partition_lemma. Qed.
Print Assumptions C20_tiles_partition.

Theorem C20_tiles_disjoint_and_cover :
  forall lo hi n s e, tiles lo hi n s e ->
    (forall t t' i, t < n -> t' < n -> s t <= i < e t -> s t' <= i < e t' -> t = t') /\
    (forall i, lo <= i < hi -> exists t, t < n /\ s t <= i < e t) /\
    (forall t, t < n -> lo <= s t /\ e t <= hi).
Proof. exact tiles_disjoint_cover_lemma. Qed.
Print Assumptions C20_tiles_disjoint_and_cover.

(* the boolean procedure used to refute a failed obligation on a concrete input (and by the extracted driver) *)
Theorem C20_tiles_b_decides :
  (forall lo hi n s e, tiles_b lo hi n s e = true <-> tiles lo hi n s e) /\
  (forall cap P T ms me s e, tiles2_b cap P T ms me s e = true <-> tiles2 cap P T ms me s e).
Proof. exact tiles_b_decides_lemma. Qed.
Print Assumptions C20_tiles_b_decides.

(* (b)+(c) for ANY split that tiles: the value accumulated under the lock = the sequential sum over all batches *)
Theorem C20_split_sum_is_sequential :
  forall (A : Type) (op : A -> A -> A) (e0 : A),
    (forall a b c, op (op a b) c = op a (op b c)) -> (forall a b, op a b = op b a) -> (forall a, op a e0 = a) ->
  forall (f : nat -> A) B n s e res, tiles 0 B n s e ->
    merge_run A op e0 (map (split_partial A op e0 f s e) (seq 0 n)) res ->
    res = fold_left op (map f (seq 0 B)) e0.
Proof. exact split_sum_is_sequential. Qed.
Print Assumptions C20_split_sum_is_sequential.

(* SimpleNearestNeighbors: a thread writing through `p*T + thread number` stays inside the array and inside cells
   no other (p', t') uses; the cells merged for p afterwards are exactly the cells of (p, 0..T-1) *)
Theorem C20_slices_disjoint_in_bounds :
  forall cap P T ms me s e, tiles2 cap P T ms me s e ->
  forall p t, p < P -> t < T ->
    (forall i, s p t <= i < e p t -> i < cap /\ ms p <= i < me p) /\
    (forall p' t' i, p' < P -> t' < T -> s p t <= i < e p t -> s p' t' <= i < e p' t' -> p = p' /\ t = t').
Proof. exact tiles2_slices_disjoint. Qed.
Print Assumptions C20_slices_disjoint_in_bounds.

Theorem C20_slices_merge_is_union :
  forall cap P T ms me s e, tiles2 cap P T ms me s e ->
    (forall p, p < P -> concat (split_ranges T (s p) (e p)) = seq (ms p) (me p - ms p)) /\
    concat (map (fun p => concat (split_ranges T (s p) (e p))) (seq 0 P)) = seq 0 cap.
Proof. exact slices_merge_union_lemma. Qed.
Print Assumptions C20_slices_merge_is_union.

(* the hand-written formulas of C20Model (C20_thread_ranges_tile) are one instance; hypotheses satisfiable *)
Theorem C20_model_ranges_are_an_instance :
  forall B T, 1 <= T -> tiles 0 B T (range_start B T) (range_end B T).
Proof. exact model_ranges_tile. Qed.
Print Assumptions C20_model_ranges_are_an_instance.

Example C20_tiles_example : tiles 0 7 3 (range_start 7 3) (range_end 7 3) /\ split_ranges 3 (range_start 7 3) (range_end 7 3) = [[0;1;2];[3;4];[5;6]].
Proof. split; [apply model_ranges_tile; auto|reflexivity]. Qed.
Example C20_tiles2_example :
  tiles2 12 2 3 (fun p => p * 3 * 2) (fun p => p * 3 * 2 + 3 * 2) (fun p t => (p * 3 + t) * 2) (fun p t => (p * 3 + t) * 2 + 2).
Proof. apply tiles2_b_spec. vm_compute. reflexivity. Qed.
(* the left-over computed as numBatches mod batchesPerThread (seeded change C20-1) does not tile: 3 batches, 2 threads *)
Example C20_tiles_counterexample :
  ~ tiles 0 3 2 (fun t => t * (3 / 2) + Nat.min t (3 mod (3 / 2))) (fun t => (t + 1) * (3 / 2) + Nat.min (t + 1) (3 mod (3 / 2))).
Proof. apply tiles_b_false. vm_compute. reflexivity. Qed.

(* ================================================================ shared copies of one dataset

   rc_run (rc_init B) acts = Some s : `acts` is an enabled sequence of micro-steps of arbitrarily many threads
   (copy = atomic increment; destruction = atomic decrement, later the free-check by the same thread), started from
   B batches owned by one dataset.  live_to b = number of existing shared_ptr instances that point to batch b;
   about_to_free b = number of threads that have decremented the counter of b from 1 and not yet freed;
   pending_on b = number of started, unfinished destructions of instances of b. *)
Theorem C20_shared_copy_safe :
  forall B acts s, rc_run (rc_init B) acts = Some s ->
  forall b,
    rc_count s b = live_to b (rc_live s) /\
    rc_freed s b <= 1 /\
    (1 <= live_to b (rc_live s) -> rc_freed s b = 0 /\ about_to_free b (rc_pend s) = 0) /\
    (b < B -> live_to b (rc_live s) = 0 -> pending_on b (rc_pend s) = 0 -> rc_freed s b = 1) /\
    (b < B -> live_to b (rc_live s) = 0 -> rc_freed s b + about_to_free b (rc_pend s) = 1) /\
    (B <= b -> rc_freed s b = 0).
Proof. exact rc_safe_lemma. Qed.
Print Assumptions C20_shared_copy_safe.

(* Data copy / indexedSubset / destruction, in any order by any threads, are traces of the machine: the theorem applies *)
Theorem C20_dataset_ops_are_traces :
  forall B ops s, d_run (d_init B) ops = Some s ->
    exists acts, rc_run (rc_init B) acts = Some (ds_rc s).
Proof. exact d_run_from_init_is_trace. Qed.
Print Assumptions C20_dataset_ops_are_traces.

(* hypotheses satisfiable: two threads copy a 2-batch dataset; one copy is dropped, the owner drops the original while
   thread 2 is half way through dropping its copy of batch 0 *)
Example C20_shared_copy_example :
  exists s, rc_run (rc_init 2) [ACopy 1 0; ACopy 2 0; ACopy 1 1; ACopy 2 1; ADec 1 2; ADec 0 0; ADec 2 3; AFin 2; AFin 1; AFin 0]
            = Some s /\ rc_count s 0 = 0 /\ rc_freed s 0 = 1 /\ rc_count s 1 = 3 /\ rc_freed s 1 = 0.
Proof. exact rc_example_two_threads. Qed.
