(* C20 — Parallel routines are race-free and schedule-independent; data sharing is safe.
   Only statements + `exact`; proofs in C20Proofs.v, executable model in C20Model.v.

   PROVED here (for all thread counts T >= 1, all assignments of iterations to threads, all
   interleavings of the threads admitted by one global lock, all iteration counts):
     * C20_race_free_b_sound / C20_region_sound_any_iteration_count: a region summary accepted by the
       boolean checker `race_free_b` has, in every reachable state of the interleaving machine, no two
       threads about to perform overlapping accesses one of which writes, and no thread-indexed
       access out of bounds.  The per-region obligations `region_k_ok : race_free_b region_k = true`
       are regenerated from the C++ source on every run (coq/gen/C20Regions.v, tools/translate_omp.py).
     * C20_merge_schedule_independent: `acc := acc (+) local_t` under the lock in ANY order is
       fold (+) over a permutation of the thread results, = the in-order fold in a commutative monoid.
     * C20_thread_ranges_tile: the static work split of ErrorFunction.inl partitions [0,batches).
     * C20_parallel_sum_is_sequential: both together: the merged value equals the sequential fold
       over all batches.
   PARTIAL (named `_partial` where the statement is weaker than the property text):
     * the theorems are about region SUMMARIES; that a summary lists every access of the C++ region
       is the translator's job (trusted, described in the evidence), not a theorem;
     * for floating point (+) is not associative: the theorem gives "a reassociation/permutation of
       the sequential sum" (merge_run is a fold over a permutation), the monitors compare at 1e-12
       and exactly on integer-valued data;
     * the C++/OpenMP memory model, the OpenMP runtime and boost::shared_ptr's atomic reference count
       (concurrent dataset copies) are only exercised at run time (thread-count comparison, TSan). *)
From Coq Require Import List Arith Bool PeanoNat Permutation.
From SharkV Require Import C20Model C20Proofs.
Import ListNotations.

(* schedule  = valid_schedule r s : s gives each of (length s) >= 1 threads its iterations, in order;
               every iteration 0..length r-1 occurs exactly once (Permutation of concat s);
               plus `choices`, the interleaving: which thread moves next (run = Some m: all moves enabled).
   conflict  = race_state m : two DIFFERENT threads both have an access as next instruction, the
               footprints overlap (same object; whole object / same cell / differently indexed /
               out-of-bounds) and at least one writes.  Two accesses inside critical blocks are never
               simultaneously enabled (the machine's Acq needs the free lock), so "not both protected"
               is part of being a race state.
   oob_state = a thread-number-indexed access beyond the allocated cells. *)
Theorem C20_race_free_b_sound :
  forall r, race_free_b r = true ->
  forall s, valid_schedule r s ->
  forall choices m, run (init_state r s) choices = Some m ->
    ~ race_state m /\ ~ oob_state m.
Proof. exact race_free_b_sound_lemma. Qed.
Print Assumptions C20_race_free_b_sound.

(* the generated obligations check two copies of the loop body; this lifts them to every iteration count *)
Theorem C20_region_sound_any_iteration_count :
  forall b, race_free_b [b; b] = true ->
  forall n s, valid_schedule (uniform b n) s ->
  forall choices m, run (init_state (uniform b n) s) choices = Some m ->
    ~ race_state m /\ ~ oob_state m.
Proof.
  intros b H n. apply race_free_b_sound_lemma. apply uniform_region_ok; auto.
Qed.
Print Assumptions C20_region_sound_any_iteration_count.

(* lock discipline of the machine: two threads are never both at an access inside a critical block *)
Theorem C20_critical_sections_exclude :
  forall r s choices m, run (init_state r s) choices = Some m ->
  forall t1 t2 a1 a2 r1 r2,
    prog_of m t1 = IAcc a1 :: r1 -> prog_of m t2 = IAcc a2 :: r2 ->
    c_crit a1 = true -> c_crit a2 = true -> t1 = t2.
Proof.
  intros r s choices m R t1 t2 a1 a2 r1 r2. apply (mutual_exclusion r s).
  eapply Inv_run; eauto. apply Inv_init.
Qed.
Print Assumptions C20_critical_sections_exclude.

(* hypotheses satisfiable / checker not vacuous *)
Theorem C20_checker_accepts_locked_accumulation :
  race_free_b [ex_good_body; ex_good_body] = true.
Proof. exact checker_accepts_locked_accumulation. Qed.
Print Assumptions C20_checker_accepts_locked_accumulation.
Theorem C20_unprotected_accumulation_is_rejected_and_races :
  race_free_b [ex_bad_body; ex_bad_body] = false /\
  exists s, valid_schedule [ex_bad_body; ex_bad_body] s /\ race_state (init_state [ex_bad_body; ex_bad_body] s).
Proof. split; [exact checker_rejects_unprotected_accumulation|exact unprotected_accumulation_races]. Qed.
Print Assumptions C20_unprotected_accumulation_is_rejected_and_races.
(* F6 shape: thread-number index into an array of min(threads, iterations) cells *)
Theorem C20_min_sized_thread_array_is_rejected_and_overflows :
  race_free_b [ex_f6_body; ex_f6_body] = false /\
  exists s, valid_schedule [ex_f6_body] s /\ oob_state (init_state [ex_f6_body] s).
Proof. split; [exact checker_rejects_min_sized_thread_array|exact min_sized_thread_array_overflows]. Qed.
Print Assumptions C20_min_sized_thread_array_is_rejected_and_overflows.

(* (b) *)
Theorem C20_merge_schedule_independent :
  forall (A : Type) (op : A -> A -> A),
    (forall a b c, op (op a b) c = op a (op b c)) -> (forall a b, op a b = op b a) ->
  forall acc locals res, merge_run A op acc locals res ->
    (exists order, Permutation locals order /\ res = fold_left op order acc) /\
    res = merge_in_order A op acc locals.
Proof. intros A op Ha Hc acc locals res R. apply merge_schedule_independent_lemma; auto. Qed.
Print Assumptions C20_merge_schedule_independent.

(* without any law on (+) (floating point): still a fold over a permutation, and every permutation can occur *)
Theorem C20_merge_is_fold_over_permutation :
  forall (A : Type) (op : A -> A -> A) acc locals,
    (forall res, merge_run A op acc locals res ->
       exists order, Permutation locals order /\ res = fold_left op order acc) /\
    (forall order, Permutation locals order -> merge_run A op acc locals (fold_left op order acc)).
Proof.
  intros A op acc locals. split.
  - intros res. apply merge_run_is_fold.
  - intros order P. destruct order as [|x rest].
    + apply Permutation_sym, Permutation_nil in P. subst. constructor.
    + simpl. eapply merge_step; [exact P|]. apply merge_run_any_order.
Qed.
Print Assumptions C20_merge_is_fold_over_permutation.

(* (c) ErrorFunction.inl: thread t of T handles batches [t*q+min(t,r), (t+1)*q+min(t+1,r)) *)
Theorem C20_thread_ranges_tile :
  forall B T, 1 <= T ->
    concat (all_ranges B T) = seq 0 B /\
    (forall t, t < T -> range_start B T t <= range_end B T t <= B) /\
    (forall t, range_end B T t = range_start B T (t + 1)) /\
    range_start B T 0 = 0 /\ range_end B T (T - 1) = B.
Proof. exact thread_ranges_tile_lemma. Qed.
Print Assumptions C20_thread_ranges_tile.

Theorem C20_every_batch_exactly_once :
  forall B T, 1 <= T -> NoDup (concat (all_ranges B T)) /\ forall i, i < B <-> In i (concat (all_ranges B T)).
Proof. exact every_batch_exactly_once. Qed.
Print Assumptions C20_every_batch_exactly_once.

(* (b)+(c): the value ErrorFunction::eval accumulates = the single-threaded sum over all batches *)
Theorem C20_parallel_sum_is_sequential :
  forall (A : Type) (op : A -> A -> A) (e : A),
    (forall a b c, op (op a b) c = op a (op b c)) -> (forall a b, op a b = op b a) -> (forall a, op a e = a) ->
  forall (f : nat -> A) B T res, 1 <= T ->
    merge_run A op e (map (thread_partial A op e f B T) (seq 0 T)) res ->
    res = fold_left op (map f (seq 0 B)) e.
Proof. intros A op e H1 H2 H3. apply parallel_sum_is_sequential_lemma; auto. Qed.
Print Assumptions C20_parallel_sum_is_sequential.
