(* C16 — one updateSMO step of QpMcSimplexDecomp on the full state model (C16State.simplex_smo): gradient
   invariant, simplex invariant (with the varsum book-keeping), objective, unchanged rest.
   Objective: the change equals the gain of the 1-D / 2-D sub-problem at the returned point; it is >= 0 in the
   one-variable branch, the two-examples (box) branch and in the triangle branch whenever the final snapping of
   solveQuadratic2DTriangle does not move the point (the snapping CAN lose objective: simplex_snap_loses). *)
From Coq Require Import QArith Qminmax Lqa Arith Bool List Lia.
From SharkV Require Import C08Model C08Defs C08Aux C08Proofs C08ProofsBox C16Model C16State C16Proofs C16ProofsMc
  C16StateDefs C16GradProofs C16SmoProofs.
Import ListNotations.
Open Scope Q_scope.

Section SmoSimplex.
Variable P ncl n : nat.
Variable C : Q.
Variable Mrow : nat -> list (nat * Q).
Variable Mdef : nat -> Q.
Variable K0 : nat -> nat -> Q.
Hypothesis HM : Mwf P Mrow.
Hypothesis HMs : Msym P ncl Mrow Mdef.
Hypothesis HKs : K0sym K0.
Hypothesis HD : Qdiag_nonneg P ncl Mrow Mdef K0.
Hypothesis HC : 0 < C.

Notation Inv_tab := (Inv_tab P n).
Notation nv := (nv P n).
Notation Qe := (Qe P ncl Mrow Mdef K0).
Notation Inv_grad := (Inv_grad P ncl n Mrow Mdef K0).
Notation mobj := (mobj P ncl n Mrow Mdef K0).
Notation Inv_data := (Inv_data P ncl n Mrow Mdef K0).
Notation Inv_simplex := (Inv_simplex P n C).
Notation simplex_smoQ := (simplex_smoQ P ncl C Mrow Mdef K0).

(* the view through m_examples[e].var of an update of one position *)
Lemma valpha_upd_same (s : qmst) al v x : Inv_tab s -> (v < nv)%nat ->
  forall p, (p < P)%nat -> valpha s (updf al v x) (vex s v) p = setr (valpha s al (vex s v)) (vp s v) x p.
Proof.
  intros I Hv p Hp. destruct (it_v _ _ _ I v Hv) as (Ve & Vp & _ & Vvar & _).
  destruct (it_var _ _ _ I (vex s v) p Ve Hp) as (_ & _ & X).
  unfold valpha, updf, setr.
  destruct (Nat.eqb_spec (evar s (vex s v) p) v) as [E|N].
  - rewrite E in X. rewrite X. rewrite Nat.eqb_refl. reflexivity.
  - destruct (Nat.eqb_spec p (vp s v)) as [E|_]; [|reflexivity]. subst p. contradiction.
Qed.

Lemma valpha_upd_other (s : qmst) al v x e : Inv_tab s -> (e < n)%nat -> vex s v <> e ->
  forall p, (p < P)%nat -> valpha s (updf al v x) e p = valpha s al e p.
Proof.
  intros I He N p Hp. destruct (it_var _ _ _ I e p He Hp) as (_ & X & _).
  unfold valpha, updf. destruct (Nat.eqb_spec (evar s e p) v) as [E|_]; [|reflexivity].
  rewrite E in X. contradiction.
Qed.

Lemma setr_congr (f g : nat -> Q) p x q : f q = g q -> setr f p x q = setr g p x q.
Proof. intros H. unfold setr. destruct (q =? p)%nat; [reflexivity | exact H]. Qed.

Lemma ExInv_ext_lt (a b : nat -> Q) V : (forall q, (q < P)%nat -> a q = b q) -> ExInv P C a V -> ExInv P C b V.
Proof.
  intros H (A1 & A2 & A3 & A4 & A5). unfold ExInv.
  rewrite <- (asum_ext a b P) by exact H.
  repeat split; try assumption. intros p Hp. rewrite <- H by exact Hp. apply A1; exact Hp.
Qed.

Lemma upd_varsum_ext (V : Q) (al1 al2 : nat -> nat -> Q) e mu : (forall q, (q < P)%nat -> al1 e q = al2 e q) ->
  upd_varsum qops qtiny P C V al1 e mu = upd_varsum qops qtiny P C V al2 e mu.
Proof. intros H. unfold upd_varsum. rewrite (asum_ext (al1 e) (al2 e) P H). reflexivity. Qed.

(* solveQuadratic2DTriangle returned the point it chose before the snapping *)
Definition smo_tri_nosnap (s : qmst) (v w : nat) : Prop :=
  let av := malpha s v in let aw := malpha s w in
  let ub := C - evsum s (vex s v) + av + aw in
  solve_tri qops qlowest av aw (mgrad s v) (mgrad s w) (vdiag s v) (Qe s v w) (vdiag s w) ub =
  tri_unsnapped av aw (mgrad s v) (mgrad s w) (vdiag s v) (Qe s v w) (vdiag s w) ub.

Theorem simplex_smo_preserves y0 lin0 (s : qmst) v w :
  Inv_tab s -> Inv_data y0 lin0 s -> Inv_grad s -> Inv_simplex s -> (v < actvar s)%nat -> (w < actvar s)%nat ->
  let s' := simplex_smoQ s v w in
  Inv_tab s' /\ Inv_data y0 lin0 s' /\ Inv_grad s' /\ Inv_simplex s' /\
  (v = w \/ vex s v <> vex s w \/ smo_tri_nosnap s v w -> mobj s <= mobj s') /\
  (forall a, a <> v -> a <> w -> malpha s' a = malpha s a) /\
  (forall e, e <> vex s v -> e <> vex s w -> evsum s' e = evsum s e) /\
  mlin s' = mlin s /\ vex s' = vex s /\ vp s' = vp s /\ vidx s' = vidx s /\ vdiag s' = vdiag s /\
  eorig s' = eorig s /\ ey s' = ey s /\ eact s' = eact s /\ evar s' = evar s /\ eavar s' = eavar s /\
  ediag s' = ediag s /\ actex s' = actex s /\ actvar s' = actvar s /\ munshr s' = munshr s.
Proof.
  intros I D G SI Hv Hw s'.
  assert (Hvn : (v < nv)%nat) by (pose proof (it_av _ _ _ I); lia).
  assert (Hwn : (w < nv)%nat) by (pose proof (it_av _ _ _ I); lia).
  destruct (it_v _ _ _ I v Hvn) as (Vev & Vpv & _ & Vvarv & _).
  destruct (it_v _ _ _ I w Hwn) as (Vew & Vpw & _ & Vvarw & _).
  pose proof D as [D1 D2]. destruct (D2 v Hvn) as [_ Dv]. destruct (D2 w Hwn) as [_ Dw].
  assert (Dv0 : 0 <= vdiag s v) by (rewrite Dv; apply (Qe_diag_nonneg P ncl Mrow Mdef K0 HD)).
  assert (Dw0 : 0 <= vdiag s w) by (rewrite Dw; apply (Qe_diag_nonneg P ncl Mrow Mdef K0 HD)).
  assert (Av : malpha s v = valpha s (malpha s) (vex s v) (vp s v)) by (unfold valpha; rewrite Vvarv; reflexivity).
  assert (Aw : malpha s w = valpha s (malpha s) (vex s w) (vp s w)) by (unfold valpha; rewrite Vvarw; reflexivity).
  unfold s', simplex_smoQ, simplex_smo.
  destruct (Nat.eqb_spec v w) as [E|N].
  - (* one variable *)
    subst w. cbn [o_zero o_add o_sub qops].
    set (i := vex s v) in *.
    destruct (SI i Vev) as (A1 & A2 & A3 & A4 & A5).
    set (a := malpha s v) in *.
    assert (Ha : 0 <= a) by (rewrite Av; apply A1; exact Vpv).
    set (ub := C - evsum s i + a).
    assert (Hub : 0 <= ub) by (unfold ub; lra).
    set (a' := solve_edge qops a (mgrad s v) (vdiag s v) 0 ub).
    destruct (solve_edge_in_box a (mgrad s v) (vdiag s v) 0 ub Hub) as [E1 E2]. fold a' in E1, E2.
    assert (Hau : a <= ub) by (unfold ub; lra).
    pose proof (solve_edge_gain_nonneg_all a (mgrad s v) (vdiag s v) 0 ub Ha Hau) as Gn. fold a' in Gn.
    set (mu := 0 - a + a').
    set (al' := updf (malpha s) v a').
    destruct (two_pt_step P ncl n Mrow Mdef K0 HMs HKs s v v mu 0 al'
               (grad_update qops ncl Mrow Mdef K0 s (mgrad s) (P * ey s i + vp s v) mu i)
               (updf (evsum s) i (upd_varsum qops qtiny P C (evsum s i) (valpha s al') i mu))
               I G Hv Hv) as [G' O'].
    + intros b _. unfold two_pt, al'. rewrite updf_delta. fold a. unfold mu. ring.
    + intros f Hf. unfold i. rewrite (grad_update_Qe P ncl n Mrow Mdef K0 HM s (mgrad s) mu v f I Hf). ring.
    + split; [apply Inv_tab_set_agv; exact I|].
      split; [apply Inv_data_set_agv; exact D|].
      split; [exact G'|].
      split.
      { intros e0 He0. cbn. change (valpha (set_agv s al' ?g ?vs) al') with (valpha s al').
        destruct (Nat.eq_dec e0 i) as [->|Ne].
        - rewrite updf_eq.
          rewrite (upd_varsum_ext (evsum s i) (valpha s al') (fun e => setr (valpha s (malpha s) i) (vp s v) a') i mu)
            by (intros q Hq; unfold al', i; apply valpha_upd_same; assumption).
          apply (ExInv_ext_lt (setr (valpha s (malpha s) i) (vp s v) a')).
          { intros q Hq. symmetry. unfold al', i. apply valpha_upd_same; assumption. }
          apply (upd_varsum_inv P C HC (valpha s (malpha s) i) (evsum s i) (fun e => setr (valpha s (malpha s) i) (vp s v) a') i mu).
          + apply SI. exact Vev.
          + intros q Hq. unfold setr. destruct (Nat.eqb_spec q (vp s v)); [exact E1 | apply A1; exact Hq].
          + rewrite asum_setr by exact Vpv. rewrite <- Av. fold a. unfold mu. ring.
          + unfold mu, ub in *. lra.
        - rewrite updf_neq by exact Ne.
          apply (ExInv_ext_lt (valpha s (malpha s) e0)); [|apply SI; exact He0].
          intros q Hq. symmetry. unfold al'. apply valpha_upd_other; try assumption. fold i. intro X. apply Ne. symmetry. exact X. }
      split.
      { intros _.
        assert (X : 0 <= mu * mgrad s v + 0 * mgrad s v
                        - (1 # 2) * (mu * mu * Qe s v v + 2 * mu * 0 * Qe s v v + 0 * 0 * Qe s v v)).
        { unfold gain1 in Gn. rewrite <- Dv. unfold mu.
          assert (Em : 0 - a + a' == a' - a) by ring. rewrite Em. lra. }
        lra. }
      split.
      { intros b Nb _. cbn. unfold al'. apply updf_neq. exact Nb. }
      split.
      { intros e Ne _. cbn. apply updf_neq. exact Ne. }
      cbn. repeat split; reflexivity.
  - (* two variables *)
    cbn [o_zero o_add o_sub o_mul qops].
    set (iv := vex s v) in *. set (iw := vex s w) in *.
    set (av := malpha s v) in *. set (aw := malpha s w) in *.
    set (Qvw := Mq Mrow Mdef (ncl * (P * ey s iv + vp s v) + ey s iw) (vp s w) * kpos K0 s iv iw).
    assert (EQ : Qvw = Qe s v w) by reflexivity.
    destruct (SI iv Vev) as (A1 & A2 & A3 & A4 & A5).
    destruct (SI iw Vew) as (B1 & B2 & B3 & B4 & B5).
    assert (Hav : 0 <= av) by (rewrite Av; apply A1; exact Vpv).
    assert (Haw : 0 <= aw) by (rewrite Aw; apply B1; exact Vpw).
    destruct (Nat.eqb_spec iv iw) as [Ei|Ni].
    + (* same example: triangle *)
      assert (Npp : vp s v <> vp s w).
      { intro X. apply N. rewrite <- Vvarv, <- Vvarw. fold iv iw. rewrite Ei, X. reflexivity. }
      set (ub := C - evsum s iv + av + aw).
      assert (Hsum : av + aw <= ub) by (unfold ub; lra).
      destruct (solve_tri_in_triangle_feasible av aw (mgrad s v) (mgrad s w) (vdiag s v) Qvw (vdiag s w) ub Hav Haw Hsum)
        as (T1 & T2 & T3).
      set (r2 := solve_tri qops qlowest av aw (mgrad s v) (mgrad s w) (vdiag s v) Qvw (vdiag s w) ub) in *.
      set (muv := 0 - av + fst r2). set (muw := 0 - aw + snd r2).
      set (al' := updf (updf (malpha s) v (fst r2)) w (snd r2)).
      destruct (two_pt_step P ncl n Mrow Mdef K0 HMs HKs s v w muv muw al'
                 (grad_update qops ncl Mrow Mdef K0 s
                    (grad_update qops ncl Mrow Mdef K0 s (mgrad s) (P * ey s iv + vp s v) muv iv)
                    (P * ey s iw + vp s w) muw iw)
                 (updf (evsum s) iv (upd_varsum qops qtiny P C (evsum s iv) (valpha s al') iv (muv + muw)))
                 I G Hv Hw) as [G' O'].
      * intros b _. unfold two_pt, al'. rewrite !updf_delta. fold av aw. unfold muv, muw.
        unfold delta. destruct (Nat.eqb_spec w v) as [X|_]; [exfalso; apply N; symmetry; exact X|].
        destruct (Nat.eqb_spec b v), (Nat.eqb_spec b w); try (subst; contradiction); ring.
      * intros f Hf. unfold iv, iw.
        rewrite (grad_update_Qe P ncl n Mrow Mdef K0 HM s _ muw w f I Hf).
        rewrite (grad_update_Qe P ncl n Mrow Mdef K0 HM s (mgrad s) muv v f I Hf). ring.
      * split; [apply Inv_tab_set_agv; exact I|].
        split; [apply Inv_data_set_agv; exact D|].
        split; [exact G'|].
        split.
        { intros e0 He0. cbn. change (valpha (set_agv s al' ?g ?vs) al') with (valpha s al').
          assert (VA : forall q, (q < P)%nat ->
                    valpha s al' iv q = setr (setr (valpha s (malpha s) iv) (vp s v) (fst r2)) (vp s w) (snd r2) q).
          { intros q Hq. unfold al'. rewrite Ei. unfold iw. rewrite valpha_upd_same by assumption.
            apply setr_congr. fold iw. rewrite <- Ei. unfold iv. apply valpha_upd_same; assumption. }
          destruct (Nat.eq_dec e0 iv) as [->|Ne].
          - rewrite updf_eq.
            rewrite (upd_varsum_ext (evsum s iv) (valpha s al')
                       (fun e => setr (setr (valpha s (malpha s) iv) (vp s v) (fst r2)) (vp s w) (snd r2)) iv (muv + muw) VA).
            apply (ExInv_ext_lt (setr (setr (valpha s (malpha s) iv) (vp s v) (fst r2)) (vp s w) (snd r2))).
            { intros q Hq. symmetry. apply VA. exact Hq. }
            apply (upd_varsum_inv P C HC (valpha s (malpha s) iv) (evsum s iv)
                     (fun e => setr (setr (valpha s (malpha s) iv) (vp s v) (fst r2)) (vp s w) (snd r2)) iv (muv + muw)).
            + apply SI. exact Vev.
            + intros q Hq. unfold setr. destruct (Nat.eqb_spec q (vp s w)); [exact T2|].
              destruct (Nat.eqb_spec q (vp s v)); [exact T1 | apply A1; exact Hq].
            + rewrite asum_setr by exact Vpw. rewrite asum_setr by exact Vpv.
              unfold setr at 1. destruct (Nat.eqb_spec (vp s w) (vp s v)) as [X|_]; [exfalso; apply Npp; symmetry; exact X|].
              rewrite <- Av. rewrite Ei at 2. rewrite <- Aw. unfold muv, muw. ring.
            + unfold muv, muw, ub in *. lra.
          - rewrite updf_neq by exact Ne.
            apply (ExInv_ext_lt (valpha s (malpha s) e0)); [|apply SI; exact He0].
            intros q Hq. symmetry. unfold al'.
            rewrite valpha_upd_other; try assumption.
            + apply valpha_upd_other; try assumption. fold iv. intro X. apply Ne. symmetry. exact X.
            + fold iw. rewrite <- Ei. intro X. apply Ne. symmetry. exact X. }
        split.
        { intros [X|[X|X]]; [contradiction | contradiction |].
          unfold smo_tri_nosnap in X. cbv zeta in X. fold iv av aw ub in X. rewrite <- EQ in X. fold r2 in X.
          assert (HS2 : av + aw <= ub) by exact Hsum.
          pose proof (tri_gain_nonneg av aw (mgrad s v) (mgrad s w) (vdiag s v) Qvw (vdiag s w) ub Hav Haw HS2 Dv0 Dw0) as Gn.
          rewrite <- X in Gn. unfold G2 in Gn.
          assert (Y : muv * mgrad s v + muw * mgrad s w
                      - (1 # 2) * (muv * muv * Qe s v v + 2 * muv * muw * Qe s v w + muw * muw * Qe s w w) ==
                      gain2 qops (mgrad s v) (mgrad s w) (vdiag s v) Qvw (vdiag s w) (fst r2 - av) (snd r2 - aw)).
          { rewrite gain2_q. rewrite EQ. unfold muv, muw. rewrite Dv, Dw. ring. }
          lra. }
        split.
        { intros b Nv Nw. cbn. unfold al'. rewrite updf_neq by exact Nw. apply updf_neq. exact Nv. }
        split.
        { intros e Ne _. cbn. apply updf_neq. exact Ne. }
        cbn. repeat split; reflexivity.
    + (* different examples: box *)
      set (Uv := C - evsum s iv + av). set (Uw := C - evsum s iw + aw).
      assert (HUv : av <= Uv) by (unfold Uv; lra).
      assert (HUw : aw <= Uw) by (unfold Uw; lra).
      destruct (box2d_in_box_and_gain av aw (mgrad s v) (mgrad s w) (vdiag s v) Qvw (vdiag s w) 0 Uv 0 Uw
                  Hav HUv Haw HUw Dv0 Dw0) as [(R1 & R2 & R3 & R4) Gn].
      set (r2 := solve_2d qops av aw (mgrad s v) (mgrad s w) (vdiag s v) Qvw (vdiag s w) 0 Uv 0 Uw) in *.
      set (muv := 0 - av + fst r2). set (muw := 0 - aw + snd r2).
      set (al' := updf (updf (malpha s) v (fst r2)) w (snd r2)).
      destruct (two_pt_step P ncl n Mrow Mdef K0 HMs HKs s v w muv muw al'
                 (grad_update qops ncl Mrow Mdef K0 s
                    (grad_update qops ncl Mrow Mdef K0 s (mgrad s) (P * ey s iv + vp s v) muv iv)
                    (P * ey s iw + vp s w) muw iw)
                 (updf (updf (evsum s) iv (upd_varsum qops qtiny P C (evsum s iv) (valpha s al') iv muv))
                       iw (upd_varsum qops qtiny P C (evsum s iw) (valpha s al') iw muw))
                 I G Hv Hw) as [G' O'].
      * intros b _. unfold two_pt, al'. rewrite !updf_delta. fold av aw. unfold muv, muw.
        unfold delta. destruct (Nat.eqb_spec w v) as [X|_]; [exfalso; apply N; symmetry; exact X|].
        destruct (Nat.eqb_spec b v), (Nat.eqb_spec b w); try (subst; contradiction); ring.
      * intros f Hf. unfold iv, iw.
        rewrite (grad_update_Qe P ncl n Mrow Mdef K0 HM s _ muw w f I Hf).
        rewrite (grad_update_Qe P ncl n Mrow Mdef K0 HM s (mgrad s) muv v f I Hf). ring.
      * split; [apply Inv_tab_set_agv; exact I|].
        split; [apply Inv_data_set_agv; exact D|].
        split; [exact G'|].
        split.
        { intros e0 He0. cbn. change (valpha (set_agv s al' ?g ?vs) al') with (valpha s al').
          assert (VAv : forall q, (q < P)%nat -> valpha s al' iv q = setr (valpha s (malpha s) iv) (vp s v) (fst r2) q).
          { intros q Hq. unfold al'. rewrite valpha_upd_other; try assumption.
            - unfold iv. apply valpha_upd_same; assumption.
            - fold iw. intro X. apply Ni. symmetry. exact X. }
          assert (VAw : forall q, (q < P)%nat -> valpha s al' iw q = setr (valpha s (malpha s) iw) (vp s w) (snd r2) q).
          { intros q Hq. unfold al', iw. rewrite valpha_upd_same by assumption.
            apply setr_congr. fold iw. apply valpha_upd_other; try assumption. }
          destruct (Nat.eq_dec e0 iw) as [->|Nw].
          - rewrite updf_eq.
            rewrite (upd_varsum_ext (evsum s iw) (valpha s al') (fun e => setr (valpha s (malpha s) iw) (vp s w) (snd r2)) iw muw VAw).
            apply (ExInv_ext_lt (setr (valpha s (malpha s) iw) (vp s w) (snd r2))).
            { intros q Hq. symmetry. apply VAw. exact Hq. }
            apply (upd_varsum_inv P C HC (valpha s (malpha s) iw) (evsum s iw) (fun e => setr (valpha s (malpha s) iw) (vp s w) (snd r2)) iw muw).
            + apply SI. exact Vew.
            + intros q Hq. unfold setr. destruct (Nat.eqb_spec q (vp s w)); [exact R3 | apply B1; exact Hq].
            + rewrite asum_setr by exact Vpw. rewrite <- Aw. unfold muw. ring.
            + unfold muw, Uw in *. lra.
          - rewrite updf_neq by exact Nw.
            destruct (Nat.eq_dec e0 iv) as [->|Nv].
            + rewrite updf_eq.
              rewrite (upd_varsum_ext (evsum s iv) (valpha s al') (fun e => setr (valpha s (malpha s) iv) (vp s v) (fst r2)) iv muv VAv).
              apply (ExInv_ext_lt (setr (valpha s (malpha s) iv) (vp s v) (fst r2))).
              { intros q Hq. symmetry. apply VAv. exact Hq. }
              apply (upd_varsum_inv P C HC (valpha s (malpha s) iv) (evsum s iv) (fun e => setr (valpha s (malpha s) iv) (vp s v) (fst r2)) iv muv).
              * apply SI. exact Vev.
              * intros q Hq. unfold setr. destruct (Nat.eqb_spec q (vp s v)); [exact R1 | apply A1; exact Hq].
              * rewrite asum_setr by exact Vpv. rewrite <- Av. unfold muv. ring.
              * unfold muv, Uv in *. lra.
            + rewrite updf_neq by exact Nv.
              apply (ExInv_ext_lt (valpha s (malpha s) e0)); [|apply SI; exact He0].
              intros q Hq. symmetry. unfold al'.
              rewrite valpha_upd_other; try assumption.
              * apply valpha_upd_other; try assumption. fold iv. intro X. apply Nv. symmetry. exact X.
              * fold iw. intro X. apply Nw. symmetry. exact X. }
        split.
        { intros _.
          assert (Y : muv * mgrad s v + muw * mgrad s w
                      - (1 # 2) * (muv * muv * Qe s v v + 2 * muv * muw * Qe s v w + muw * muw * Qe s w w) ==
                      gain2 qops (mgrad s v) (mgrad s w) (vdiag s v) Qvw (vdiag s w) (fst r2 - av) (snd r2 - aw)).
          { rewrite gain2_q. rewrite EQ. unfold muv, muw. rewrite Dv, Dw. ring. }
          lra. }
        split.
        { intros b Nv Nw. cbn. unfold al'. rewrite updf_neq by exact Nw. apply updf_neq. exact Nv. }
        split.
        { intros e Nv Nw. cbn. rewrite updf_neq by exact Nw. apply updf_neq. exact Nv. }
        cbn. repeat split; reflexivity.
Qed.

End SmoSimplex.

(* the final snapping of solveQuadratic2DTriangle can lose objective: feasible start, identity block.  The
   point chosen before the snapping, (8e-13, 0), gains; it is snapped to (0, 0), which is worse than the start. *)
Example tri_snap_loses :
  let ai := 1 # 2000000000000 in let gi := 3 # 10000000000000 in
  0 <= ai /\ ai + 0 <= 1 /\
  0 < G2 ai 0 gi (-(1)) 1 0 1 (tri_unsnapped ai 0 gi (-(1)) 1 0 1 1) /\
  solve_tri qops qlowest ai 0 gi (-(1)) 1 0 1 1 = (0, 0) /\
  G2 ai 0 gi (-(1)) 1 0 1 (solve_tri qops qlowest ai 0 gi (-(1)) 1 0 1 1) < 0.
Proof. vm_compute. repeat split; try reflexivity; discriminate. Qed.
