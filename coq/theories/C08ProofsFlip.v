(* C08 — flipCoordinates, the shrink loop, shrink() (both branches, including the one-time unshrink) and
   unshrink() keep every invariant of the solver state, the dual objective, sum(alpha) and the assignment
   original index -> alpha value.  Axiom-free.

   [oalpha s p] is the alpha value of the variable with ORIGINAL index p (the solver permutes positions):
   sum over positions a < n of [perm s a = p] * alpha s a; under Inv_perm it is alpha at the unique position
   holding p ([oalpha_at]).  [Inv_core shr] bundles the invariants that depend on the arithmetic state;
   [same_vars s s'] says that s' is a rearrangement of s. *)
From Coq Require Import QArith Qminmax Lqa Arith Bool List Lia.
From SharkV Require Import C08Model C08Defs C08Aux C08Proofs C08ProofsShrink C08ProofsEdge.
Import ListNotations.
Open Scope Q_scope.

Lemma sw_same i a : sw i i a = a.
Proof. unfold sw. destruct (Nat.eqb_spec a i); [subst; reflexivity|reflexivity]. Qed.

Lemma sw_other i j a : a <> i -> a <> j -> sw i j a = a.
Proof.
  intros Ni Nj. unfold sw. destruct (Nat.eqb_spec a i); [contradiction|].
  destruct (Nat.eqb_spec a j); [contradiction|reflexivity].
Qed.

Lemma sw_right i j : sw i j j = i.
Proof.
  unfold sw. destruct (Nat.eqb_spec j i); [subst; reflexivity|]. rewrite Nat.eqb_refl. reflexivity.
Qed.

(* s' is s with positions i and j exchanged in every per-variable array *)
Definition is_flip (s s' : qst) (i j : nat) : Prop :=
  (forall a, alpha s' a = alpha s (sw i j a)) /\ (forall a, grad s' a = grad s (sw i j a)) /\
  (forall a, gedge s' a = gedge s (sw i j a)) /\ (forall a, lin s' a = lin s (sw i j a)) /\
  (forall a, lo s' a = lo s (sw i j a)) /\ (forall a, hi s' a = hi s (sw i j a)) /\
  (forall a, perm s' a = perm s (sw i j a)) /\ (forall a, fl s' a = fl s (sw i j a)) /\
  (forall a, fu s' a = fu s (sw i j a)) /\ active s' = active s /\ unshr s' = unshr s.

Lemma flip_is_flip (s : qst) i j : is_flip s (flip s i j) i j.
Proof.
  unfold flip, is_flip. destruct (Nat.eqb_spec i j) as [->|N].
  - splits; try reflexivity; intros a; rewrite sw_same; reflexivity.
  - prj. splits; try reflexivity; intros a; apply swapf_sw.
Qed.

Section Flip.
Variable n : nat.
Variable K0 : nat -> nat -> Q.

Local Notation Kq := (Kq K0).

(* alpha as a function of the original index *)
Definition oalpha (s : qst) (p : nat) : Q :=
  sumn n (fun a => if (perm s a =? p)%nat then alpha s a else 0).

Lemma oalpha_at (s : qst) a : Inv_perm n s -> (a < n)%nat -> oalpha s (perm s a) == alpha s a.
Proof.
  intros [_ Inj] Ha. unfold oalpha.
  rewrite (sumn_ext n _ (fun b => delta a b * alpha s b)).
  - apply sumn_delta. exact Ha.
  - intros b Hb. unfold delta. destruct (Nat.eqb_spec (perm s b) (perm s a)) as [E|N].
    + apply (Inj b a Hb Ha) in E. subst b. rewrite Nat.eqb_refl. ring.
    + destruct (Nat.eqb_spec b a); [subst; congruence|ring].
Qed.

Definition Inv_core (shr : bool) (s : qst) : Prop :=
  Inv_grad n K0 s /\ Inv_box n s /\ Inv_flags n s /\ Inv_shrunk n s /\
  (if shr then Inv_edge n K0 s else active s = n).

Definition same_vars (s s' : qst) : Prop :=
  obj n K0 s' == obj n K0 s /\ sumn n (alpha s') == sumn n (alpha s) /\
  (forall p, oalpha s' p == oalpha s p) /\
  (Inv_perm n s -> Inv_perm n s') /\
  (forall lin0 lo0 hi0, Inv_data n lin0 lo0 hi0 s -> Inv_data n lin0 lo0 hi0 s').

Lemma same_vars_refl s : same_vars s s.
Proof. unfold same_vars. splits; auto; try reflexivity. Qed.

Lemma same_vars_trans s1 s2 s3 : same_vars s1 s2 -> same_vars s2 s3 -> same_vars s1 s3.
Proof.
  intros (A1 & A2 & A3 & A4 & A5) (B1 & B2 & B3 & B4 & B5). unfold same_vars. splits; auto.
  - rewrite B1. exact A1.
  - rewrite B2. exact A2.
  - intros p. rewrite B3. apply A3.
Qed.

(* ---------------- flipCoordinates ---------------- *)
Section OneFlip.
Variables (s s' : qst) (i j : nat).
Hypothesis FL : is_flip s s' i j.
Hypothesis Hi : (i < n)%nat.
Hypothesis Hj : (j < n)%nat.

Local Notation sg := (sw i j).

Let Eal : forall a, alpha s' a = alpha s (sg a). Proof. apply FL. Qed.
Let Egr : forall a, grad s' a = grad s (sg a). Proof. apply FL. Qed.
Let Ege : forall a, gedge s' a = gedge s (sg a). Proof. apply FL. Qed.
Let Eli : forall a, lin s' a = lin s (sg a). Proof. apply FL. Qed.
Let Elo : forall a, lo s' a = lo s (sg a). Proof. apply FL. Qed.
Let Ehi : forall a, hi s' a = hi s (sg a). Proof. apply FL. Qed.
Let Epe : forall a, perm s' a = perm s (sg a). Proof. apply FL. Qed.
Let Efl : forall a, fl s' a = fl s (sg a). Proof. apply FL. Qed.
Let Efu : forall a, fu s' a = fu s (sg a). Proof. apply FL. Qed.
Let Eac : active s' = active s. Proof. apply FL. Qed.

Lemma flip_Kq a b : Kq s' a b = Kq s (sg a) (sg b).
Proof. unfold C08Defs.Kq, K. rewrite !Epe. reflexivity. Qed.

Lemma flip_bcontrib b : bcontrib s' b = bcontrib s (sg b).
Proof. unfold bcontrib. rewrite Efl, Efu, Eal. reflexivity. Qed.

Lemma flip_Kalpha a : Kalpha n K0 s' a == Kalpha n K0 s (sg a).
Proof.
  unfold Kalpha.
  rewrite (sumn_ext n (fun b => Kq s' a b * alpha s' b) (fun b => (fun b' => Kq s (sg a) b' * alpha s b') (sg b)))
    by (intros b Hb; cbv beta; rewrite flip_Kq, Eal; reflexivity).
  apply (sumn_sw n i j (fun b' => Kq s (sg a) b' * alpha s b') Hi Hj).
Qed.

Lemma flip_box : Inv_box n s -> Inv_box n s'.
Proof. intros B a Ha. rewrite Elo, Ehi, Eal. apply B. apply sw_lt; assumption. Qed.

Lemma flip_flags : Inv_flags n s -> Inv_flags n s'.
Proof. intros F a Ha. rewrite Efl, Efu, Elo, Ehi, Eal. apply F. apply sw_lt; assumption. Qed.

Lemma flip_edge : Inv_edge n K0 s -> Inv_edge n K0 s'.
Proof.
  intros IE a Ha. rewrite Ege, Eli. rewrite (IE (sg a)) by (apply sw_lt; assumption).
  rewrite (sumn_ext n (fun b => Kq s' a b * bcontrib s' b) (fun b => (fun b' => Kq s (sg a) b' * bcontrib s b') (sg b)))
    by (intros b Hb; cbv beta; rewrite flip_Kq, flip_bcontrib; reflexivity).
  rewrite (sumn_sw n i j (fun b' => Kq s (sg a) b' * bcontrib s b') Hi Hj). reflexivity.
Qed.

Lemma flip_perm : Inv_perm n s -> Inv_perm n s'.
Proof.
  intros [P1 P2]. split.
  - intros a Ha. rewrite Epe. apply P1. apply sw_lt; assumption.
  - intros a b Ha Hb E. rewrite !Epe in E. apply P2 in E; try (apply sw_lt; assumption).
    apply sw_inj in E. exact E.
Qed.

Lemma flip_data lin0 lo0 hi0 : Inv_data n lin0 lo0 hi0 s -> Inv_data n lin0 lo0 hi0 s'.
Proof. intros D a Ha. rewrite Eli, Elo, Ehi, Epe. apply D. apply sw_lt; assumption. Qed.

Lemma flip_obj : obj n K0 s' == obj n K0 s.
Proof.
  rewrite (obj_objf n K0 s). unfold obj, Kalpha.
  rewrite (sumn_ext n (fun a => lin s' a * alpha s' a) (fun a => lin s (sg a) * alpha s (sg a)))
    by (intros a Ha; rewrite Eli, Eal; reflexivity).
  rewrite (sumn_ext n (fun a => alpha s' a * sumn n (fun b => Kq s' a b * alpha s' b))
                      (fun a => alpha s (sg a) * sumn n (fun b => Kq s' a b * alpha s (sg b)))).
  2:{ intros a Ha. rewrite Eal.
      rewrite (sumn_ext n (fun b => Kq s' a b * alpha s' b) (fun b => Kq s' a b * alpha s (sg b)))
        by (intros b Hb; rewrite Eal; reflexivity).
      reflexivity. }
  apply (objf_sw n (Kq s) (lin s) (alpha s) (Kq s') i j Hi Hj).
  intros a b. rewrite flip_Kq. reflexivity.
Qed.

Lemma flip_sum : sumn n (alpha s') == sumn n (alpha s).
Proof.
  rewrite (sumn_ext n (alpha s') (fun a => alpha s (sg a))) by (intros a Ha; rewrite Eal; reflexivity).
  apply (sumn_sw n i j (alpha s) Hi Hj).
Qed.

Lemma flip_oalpha p : oalpha s' p == oalpha s p.
Proof.
  unfold oalpha.
  rewrite (sumn_ext n (fun a => if (perm s' a =? p)%nat then alpha s' a else 0)
                      (fun a => (fun a' => if (perm s a' =? p)%nat then alpha s a' else 0) (sg a)))
    by (intros a Ha; cbv beta; rewrite Epe, Eal; reflexivity).
  apply (sumn_sw n i j (fun a' => if (perm s a' =? p)%nat then alpha s a' else 0) Hi Hj).
Qed.

Lemma flip_same_vars : same_vars s s'.
Proof.
  unfold same_vars. splits.
  - apply flip_obj. - apply flip_sum. - apply flip_oalpha. - apply flip_perm. - apply flip_data.
Qed.

(* g = lin - K alpha on every prefix that contains both exchanged positions *)
Lemma flip_grad_upto m : (i < m)%nat -> (j < m)%nat ->
  (forall a, (a < m)%nat -> grad s a == lin s a - Kalpha n K0 s a) ->
  (forall a, (a < m)%nat -> grad s' a == lin s' a - Kalpha n K0 s' a).
Proof.
  intros Him Hjm IG a Ha. rewrite Egr, Eli, flip_Kalpha. apply IG. apply sw_lt; assumption.
Qed.

Lemma flip_grad : (i < active s)%nat -> (j < active s)%nat -> Inv_grad n K0 s -> Inv_grad n K0 s'.
Proof.
  intros Hia Hja IG a Ha. rewrite Eac in Ha. exact (flip_grad_upto (active s) Hia Hja IG a Ha).
Qed.

End OneFlip.

(* ---- task 2: flipCoordinates(i, j) ---- *)
Theorem flip_preserves (s : qst) i j : (i < n)%nat -> (j < n)%nat ->
  let s' := flip s i j in
  (Inv_box n s -> Inv_box n s') /\ (Inv_flags n s -> Inv_flags n s') /\ (Inv_edge n K0 s -> Inv_edge n K0 s') /\
  (Inv_perm n s -> Inv_perm n s') /\ (forall lin0 lo0 hi0, Inv_data n lin0 lo0 hi0 s -> Inv_data n lin0 lo0 hi0 s') /\
  obj n K0 s' == obj n K0 s /\ sumn n (alpha s') == sumn n (alpha s) /\ (forall p, oalpha s' p == oalpha s p) /\
  ((i < active s)%nat -> (j < active s)%nat -> Inv_grad n K0 s -> Inv_grad n K0 s') /\
  active s' = active s /\ unshr s' = unshr s.
Proof.
  intros Hi Hj s'. pose proof (flip_is_flip s i j) as FL. fold s' in FL. splits.
  - apply (flip_box s s' i j FL Hi Hj).
  - apply (flip_flags s s' i j FL Hi Hj).
  - apply (flip_edge s s' i j FL Hi Hj).
  - apply (flip_perm s s' i j FL Hi Hj).
  - apply (flip_data s s' i j FL Hi Hj).
  - apply (flip_obj s s' i j FL Hi Hj).
  - apply (flip_sum s s' i j FL Hi Hj).
  - apply (flip_oalpha s s' i j FL Hi Hj).
  - apply (flip_grad s s' i j FL Hi Hj).
  - apply FL.
  - apply FL.
Qed.

(* ---------------- one iteration of the shrink loop that fires ---------------- *)
Lemma test_shrink_at_bound kind (s : qst) a lu sd :
  test_shrink qops kind s a lu sd = true -> fl s a || fu s a = true.
Proof.
  unfold test_shrink. destruct (fl s a); [reflexivity|]. destruct (fu s a); [reflexivity|]. cbn [andb orb]. auto.
Qed.

Definition shrink_one (s : qst) (i : nat) : qst :=
  set_active (flip s i (active s - 1)) (active s - 1) (unshr s).

Lemma shrink_one_preserves (s : qst) i :
  (i < active s)%nat -> fl s i || fu s i = true -> Inv_core true s ->
  let s1 := shrink_one s i in
  Inv_core true s1 /\ same_vars s s1 /\ active s1 = (active s - 1)%nat /\ unshr s1 = unshr s.
Proof.
  intros Hia Hbd (IG & B & F & [Hact Hsh] & IE) s1.
  set (m := active s) in *. set (j := (m - 1)%nat).
  assert (Hi : (i < n)%nat) by lia. assert (Hj : (j < n)%nat) by (unfold j; lia).
  assert (Hjm : (j < m)%nat) by (unfold j; lia).
  pose proof (flip_is_flip s i j) as FL. set (f := flip s i j) in *.
  assert (E1 : s1 = set_active f j (unshr s)) by reflexivity.
  unfold Inv_core. splits.
  - (* Inv_grad on the new, smaller active set *)
    intros a Ha. rewrite E1 in *. cbn [set_active active] in Ha.
    exact (flip_grad_upto s f i j FL Hi Hj m Hia Hjm IG a ltac:(lia)).
  - exact (flip_box s f i j FL Hi Hj B).
  - exact (flip_flags s f i j FL Hi Hj F).
  - (* every shrunk variable sits at a bound: the new one by the test, the old ones were not moved *)
    split; [rewrite E1; cbn [set_active active]; lia|].
    intros a Ha. rewrite E1 in *. cbn [set_active active fl fu] in *.
    destruct FL as (_ & _ & _ & _ & _ & _ & _ & Efl & Efu & _). rewrite Efl, Efu.
    destruct (Nat.eq_dec a j) as [->|Naj].
    + rewrite sw_right. exact Hbd.
    + rewrite sw_other by lia. apply Hsh. fold m. lia.
  - exact (flip_edge s f i j FL Hi Hj IE).
  - exact (flip_same_vars s f i j FL Hi Hj).
  - reflexivity.
  - reflexivity.
Qed.

(* ---------------- the shrink loop ---------------- *)
Lemma shrink_loop_preserves kind lu sd a : forall s : qst,
  (a <= active s)%nat -> Inv_core true s ->
  let s' := shrink_loop qops kind lu sd a s in
  Inv_core true s' /\ same_vars s s' /\ (active s' <= active s)%nat /\ unshr s' = unshr s.
Proof.
  induction a as [|i IH]; intros s Ha I; cbn [shrink_loop].
  - splits; auto. apply same_vars_refl.
  - destruct (test_shrink qops kind s i lu sd) eqn:T.
    + apply test_shrink_at_bound in T.
      destruct (shrink_one_preserves s i ltac:(lia) T I) as (I1 & V1 & A1 & U1).
      fold (shrink_one s i).
      destruct (IH (shrink_one s i) ltac:(lia) I1) as (I2 & V2 & A2 & U2).
      split; [exact I2|]. split; [eapply same_vars_trans; eassumption|]. split; [lia|congruence].
    + apply IH; [lia|exact I].
Qed.

(* ---------------- unshrink ---------------- *)
Hypothesis Hsym : Ksym K0.

(* ---- task 4 ---- *)
Theorem unshrink_preserves (s : qst) : Inv_core true s ->
  let u := unshrink qops n K0 s in
  Inv_core true u /\ Inv_grad_all n K0 u /\ same_vars s u /\ active u = n /\
  alpha u = alpha s /\ perm u = perm s /\ lin u = lin s /\ lo u = lo s /\ hi u = hi s /\
  fl u = fl s /\ fu u = fu s /\ gedge u = gedge s.
Proof.
  intros (IG & B & F & SH & IE) u.
  destruct (unshrink_restores n K0 Hsym s IG IE SH) as (GA & R).
  fold u in GA, R. destruct R as (Ea & R).
  assert (FORM : u = s \/ exists G, u = mk (alpha s) G (gedge s) (lin s) (lo s) (hi s) (perm s) (fl s) (fu s) n true).
  { unfold u, unshrink. destruct (active s =? n)%nat; [left; reflexivity|right; eexists; reflexivity]. }
  assert (IGu : Inv_grad n K0 u) by (intros a Ha; apply GA; lia).
  assert (SHu : Inv_shrunk n u) by (split; [lia|intros a Ha; lia]).
  clearbody u. destruct FORM as [E|[G E]]; subst u.
  - split; [unfold Inv_core; splits; assumption|]. split; [exact GA|]. split; [apply same_vars_refl|].
    split; [exact Ea|exact R].
  - split; [unfold Inv_core; splits; [exact IGu|exact B|exact F|exact SHu|exact IE]|].
    split; [exact GA|]. split; [|split; [exact Ea|exact R]].
    unfold same_vars. splits.
    + change (obj n K0 s == obj n K0 s). reflexivity.
    + reflexivity.
    + intros p. change (oalpha s p == oalpha s p). reflexivity.
    + intros P. exact P.
    + intros l0 lo0 hi0 D. exact D.
Qed.

(* ---- task 3: shrink(epsilon), both branches ---- *)
Theorem shrink_preserves kind eps (s : qst) : Inv_core true s ->
  let s' := shrink qops n K0 kind true eps s in
  Inv_core true s' /\ same_vars s s'.
Proof.
  intros I s'. unfold s', shrink. cbn [negb].
  match goal with |- context [if ?c then _ else _] => destruct c end.
  - destruct (unshrink_preserves s I) as (Iu & _ & Vu & Au & _).
    set (u := unshrink qops n K0 s) in *.
    destruct (shrink_loop_preserves kind (largest_up qops u n) (smallest_down qops u n) (active u) u (le_n _) Iu)
      as (I2 & V2 & _).
    split; [exact I2|]. eapply same_vars_trans; eassumption.
  - destruct (shrink_loop_preserves kind (largest_up qops s (active s)) (smallest_down qops s (active s))
                (active s) s (le_n _) I) as (I2 & V2 & _).
    split; assumption.
Qed.

End Flip.

Print Assumptions flip_preserves.
Print Assumptions shrink_loop_preserves.
Print Assumptions unshrink_preserves.
Print Assumptions shrink_preserves.
