(* C05 — the block-wise dataset routines of include/shark/Models/Kernels/KernelHelpers.h that C05Model.v does not
   contain yet.  Definitions only.
     gram_mixed  = calculateMixedKernelMatrix(kernel, dataset1, dataset2): for every batch i of dataset1 the blocks
                   kernel(batch_i, batch_j), j = 0..B2-1, are written side by side (C05Model.row_block)
     kmpd        = calculateKernelMatrixParameterDerivative(kernel, dataset, weights): loops over the batch pairs
                   j <= i, calls weightedParameterDerivative with the sub-matrix
                   subrange(weights, startX, startX+sizeX, startY, startY+sizeY) and adds the block gradient once
                   (i = j) or twice (i <> j: "Symmetry!").  The routine of the kernel is a parameter wp
                   (C05Model.wpdv m p for a kernel with coded parameter gradient p). *)
From Coq Require Import List Arith Bool.
From SharkV Require Import C03Model C05Model.
Import ListNotations.

Section Blocks.
Variable A : Type.
Variables (zero one : A) (add mul : A -> A -> A).
Variable X : Type.
Notation mat := (list (list A)).
Notation vec := (list A).

Definition gram_mixed (bk : list X -> list X -> mat) (d1 d2 : list (list X)) : mat :=
  concat (map (fun bi => row_block A X bk bi d2) d1).

(* subrange(W, r0, r0+nr, c0, c0+nc) *)
Definition subm (W : mat) (r0 nr c0 nc : nat) : mat :=
  map (fun row => firstn nc (skipn c0 row)) (firstn nr (skipn r0 W)).

Section Kmpd.
Variable wp : mat -> list X -> list X -> vec.     (* kernel.weightedParameterDerivative(batch_i, batch_j, weights) *)
Variable W : mat.

(* inner loop j = 0..i: pre = batches 0..i-1 still to visit, startY their offset; the last step is j = i *)
Fixpoint kmpd_row (bi : list X) (startX : nat) (pre : list (list X)) (startY : nat) (acc : vec) : vec :=
  match pre with
  | [] => vadd A add acc (wp (subm W startX (length bi) startY (length bi)) bi bi)
  | bj :: r =>
    kmpd_row bi startX r (startY + length bj)
             (vadd A add acc (vscale A mul (add one one) (wp (subm W startX (length bi) startY (length bj)) bi bj)))
  end.

(* outer loop over i: pre = batches already visited (in order), rest = batches to visit *)
Fixpoint kmpd_loop (pre rest : list (list X)) (startX : nat) (acc : vec) : vec :=
  match rest with
  | [] => acc
  | bi :: rest' => kmpd_loop (pre ++ [bi]) rest' (startX + length bi) (kmpd_row bi startX pre 0 acc)
  end.

Definition kmpd (m : nat) (d : list (list X)) : vec := kmpd_loop [] d 0 (repeat zero m).
End Kmpd.

End Blocks.
