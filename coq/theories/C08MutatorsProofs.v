(* C08 — the public mutators of the shrinking problem classes (C08Mutators.v) preserve the state invariant
   Inv_core (gradient on the active set, box, flags, shrunk variables at a bound, EDGE GRADIENT), so the invariant
   holds along every history that interleaves solver operations with mutator calls (hrun_core).  Axiom-free.

   Preconditions that are needed (and witnessed to be needed):
     setInitialSolution(alpha): the permutation must be the identity (fresh object) - the code indexes the matrix rows by
       POSITION but the argument by ORIGINAL index (set_initial_permuted_refuted); nothing shrunk; no deactivated variable.
     scaleBoxConstraints(f, v): f > 0, no deactivated variable; for f <> v the caller must keep the scaled point inside
       the scaled box, nothing may be shrunk and no variable may land on a non-zero bound (the code resets the edge
       gradient to the linear term).
   The seeded change C08-6 (setLinear reading linear(i) after writing it) breaks Inv_edge:
   set_linear_read_after_write_refuted. *)
From Coq Require Import QArith Qminmax Lqa Arith Bool List Lia.
From SharkV Require Import C08Model C08Defs C08Aux C08Proofs C08ProofsShrink C08ProofsEdge C08ProofsFlip C08ProofsHist
  C08Mutators.
Import ListNotations.
Open Scope Q_scope.

Lemma qeqb_of_eq a b : a == b -> Qeq_bool a b = true.
Proof. intros H. apply Qeq_bool_iff. exact H. Qed.

Lemma qeqb_congr a b a' b' : a == a' -> b == b' -> Qeq_bool a b = Qeq_bool a' b'.
Proof.
  intros Ha Hb. destruct (qeqb_spec a b) as [[E H]|[E H]]; destruct (qeqb_spec a' b') as [[E' H']|[E' H']];
    rewrite E, E'; auto; exfalso.
  - apply H'. rewrite <- Ha, <- Hb. exact H.
  - apply H. rewrite Ha, Hb. exact H'.
Qed.

Section Mut.
Variable n : nat.
Variable K0 : nat -> nat -> Q.
Hypothesis Hsym : Ksym K0.

Local Notation Kq := (Kq K0).
Local Notation Inv_core := (Inv_core n K0).

(* ================= setLinear ================= *)
Section SetLinear.
Variables (s : qst) (i : nat) (v : Q).
Let s' := set_linear qops s i v.

Lemma set_linear_Kalpha a : Kalpha n K0 s' a = Kalpha n K0 s a.
Proof. reflexivity. Qed.

Lemma set_linear_bcontrib b : bcontrib s' b = bcontrib s b.
Proof. reflexivity. Qed.

Theorem set_linear_preserves_inv shr : Inv_core shr s -> Inv_core shr s'.
Proof.
  intros (IG & B & F & SH & IE). unfold C08ProofsFlip.Inv_core. splits.
  - intros a Ha. change (active s') with (active s) in Ha. rewrite set_linear_Kalpha.
    unfold s', set_linear. cbn [grad lin o_add o_sub qops]. unfold updf.
    destruct (Nat.eqb_spec a i) as [->|N]; [rewrite (IG i Ha); ring|exact (IG a Ha)].
  - exact B.
  - exact F.
  - exact SH.
  - destruct shr; [|exact IE]. intros a Ha.
    change (sumn n (fun b => Kq s' a b * bcontrib s' b)) with (sumn n (fun b => Kq s a b * bcontrib s b)).
    unfold s', set_linear. cbn [gedge lin o_add o_sub qops]. unfold updf.
    destruct (Nat.eqb_spec a i) as [->|N]; [rewrite (IE i Ha); ring|exact (IE a Ha)].
Qed.

Lemma set_linear_frame :
  alpha s' = alpha s /\ lo s' = lo s /\ hi s' = hi s /\ perm s' = perm s /\ fl s' = fl s /\ fu s' = fu s /\
  active s' = active s /\ unshr s' = unshr s /\ (forall a, a <> i -> lin s' a = lin s a) /\ lin s' i = v.
Proof.
  unfold s', set_linear. cbn [alpha lo hi perm fl fu active unshr lin]. splits; try reflexivity.
  - intros a Na. unfold updf. destruct (Nat.eqb_spec a i); [contradiction|reflexivity].
  - unfold updf. rewrite Nat.eqb_refl. reflexivity.
Qed.

(* the data seen through the ORIGINAL index: only the linear term of variable perm s i changes *)
Lemma set_linear_data lin0 lo0 hi0 : (i < n)%nat -> Inv_perm n s -> Inv_data n lin0 lo0 hi0 s ->
  Inv_perm n s' /\ Inv_data n (updf lin0 (perm s i) v) lo0 hi0 s'.
Proof.
  intros Hi P D. split; [exact P|]. intros a Ha. destruct (D a Ha) as (D1 & D2 & D3).
  unfold s', set_linear. cbn [lin lo hi perm]. split; [|split; assumption].
  unfold updf. destruct (Nat.eqb_spec a i) as [->|N].
  - rewrite Nat.eqb_refl. reflexivity.
  - destruct (Nat.eqb_spec (perm s a) (perm s i)) as [E|NE]; [|exact D1].
    exfalso. apply N. apply (proj2 P a i Ha Hi E).
Qed.
End SetLinear.

(* ================= activateVariable ================= *)
Lemma set_flags_same (s : qst) i a : Inv_flags n s -> (a < n)%nat ->
  fl (set_flags qops s i) a = fl s a /\ fu (set_flags qops s i) a = fu s a.
Proof.
  intros F Ha. unfold set_flags. cbn [fl fu o_eqb qops]. unfold updf.
  destruct (Nat.eqb_spec a i) as [->|N]; [|split; reflexivity].
  destruct (F i Ha) as [F1 F2]. rewrite F1, F2. split; reflexivity.
Qed.

Theorem activate_preserves_inv shr (s : qst) i : Inv_core shr s -> Inv_core shr (activate_variable qops s i).
Proof.
  intros (IG & B & F & SH & IE). unfold activate_variable. set (s' := set_flags qops s i).
  assert (E : forall a, (a < n)%nat -> fl s' a = fl s a /\ fu s' a = fu s a)
    by (intros a Ha; apply set_flags_same; assumption).
  unfold C08ProofsFlip.Inv_core. splits.
  - exact IG.
  - exact B.
  - intros a Ha. destruct (E a Ha) as [E1 E2]. rewrite E1, E2. exact (F a Ha).
  - destruct SH as [S1 S2]. split; [exact S1|]. intros a Ha. destruct (E a ltac:(lia)) as [E1 E2]. rewrite E1, E2.
    exact (S2 a Ha).
  - destruct shr; [|exact IE]. intros a Ha.
    change (gedge s' a) with (gedge s a). change (lin s' a) with (lin s a).
    assert (X : sumn n (fun b => Kq s' a b * bcontrib s' b) == sumn n (fun b => Kq s a b * bcontrib s b)).
    { apply sumn_ext. intros b Hb. unfold bcontrib. destruct (E b Hb) as [E1 E2]. rewrite E1, E2. reflexivity. }
    rewrite X. exact (IE a Ha).
Qed.

(* ================= flipCoordinates as a public call ================= *)
Theorem mflip_preserves_inv shr (s : qst) i j : (i < active s)%nat -> (j < active s)%nat ->
  Inv_core shr s -> Inv_core shr (flip s i j).
Proof.
  intros Hi Hj (IG & B & F & [S1 S2] & IE).
  assert (Hi' : (i < n)%nat) by lia. assert (Hj' : (j < n)%nat) by lia.
  destruct (flip_preserves n K0 s i j Hi' Hj') as (P1 & P2 & P3 & _ & _ & _ & _ & _ & P9 & P10 & _).
  pose proof (flip_is_flip s i j) as (_ & _ & _ & _ & _ & _ & _ & Efl & Efu & _).
  unfold C08ProofsFlip.Inv_core. splits; auto.
  - split; [rewrite P10; exact S1|]. intros a Ha. rewrite P10 in Ha. rewrite Efl, Efu, sw_other by lia. exact (S2 a Ha).
  - destruct shr; [auto|]. rewrite P10. exact IE.
Qed.

(* ================= scaleBoxConstraints ================= *)
Section Scale.
Variables (s : qst) (cp cn f v : Q).
Let s' := scale_box qops n s cp cn f v.

Lemma scale_alpha_eq a : scale_alpha qops s cp cn f v a == alpha s a * v.
Proof.
  unfold scale_alpha. cbn [o_eqb o_mul o_sub o_zero qops].
  destruct (qeqb_spec f v) as [[E H]|[E H]]; rewrite E; cbn [andb]; [|reflexivity].
  destruct (qeqb_spec (alpha s a) cp) as [[E1 H1]|[E1 H1]]; rewrite E1; [rewrite H1, H; reflexivity|].
  destruct (qeqb_spec (alpha s a) (0 - cn)) as [[E2 H2]|[E2 H2]]; rewrite E2; [rewrite H2, H; ring|reflexivity].
Qed.

Lemma scale_alpha_at a : (a < n)%nat -> alpha s' a == alpha s a * v.
Proof.
  intros Ha. unfold s', scale_box. cbn [alpha]. apply Nat.ltb_lt in Ha. rewrite Ha. apply scale_alpha_eq.
Qed.

Lemma scale_Kalpha a : Kalpha n K0 s' a == Kalpha n K0 s a * v.
Proof.
  unfold Kalpha. rewrite <- sumn_scal_r. apply sumn_ext. intros b Hb.
  change (Kq s' a b) with (Kq s a b). rewrite (scale_alpha_at b Hb). ring.
Qed.

Hypothesis Hnd : forall a, (a < n)%nat -> deact s a = false.

Lemma scale_fields a : (a < n)%nat ->
  grad s' a = (grad s a - lin s a) * v + lin s a /\ lo s' a = lo s a * f /\ hi s' a = hi s a * f /\
  lin s' a = lin s a /\ fl s' a = Qeq_bool (alpha s' a) (lo s' a) /\ fu s' a = Qeq_bool (alpha s' a) (hi s' a) /\
  gedge s' a = (if Qeq_bool f v then (gedge s a - lin s a) * f + lin s a else lin s a).
Proof.
  intros Ha. unfold s', scale_box. cbn [grad lo hi lin fl fu gedge alpha o_eqb o_mul o_add o_sub qops].
  rewrite (Hnd a Ha). apply Nat.ltb_lt in Ha. rewrite Ha. cbn [andb negb]. splits; reflexivity.
Qed.

Lemma scale_grad : Inv_grad n K0 s -> (active s <= n)%nat -> Inv_grad n K0 s'.
Proof.
  intros IG Hact a Ha. change (active s') with (active s) in Ha. assert (Han : (a < n)%nat) by lia.
  destruct (scale_fields a Han) as (G & _ & _ & L & _). rewrite G, L, scale_Kalpha, (IG a Ha). ring.
Qed.

Lemma scale_flags : Inv_flags n s'.
Proof. intros a Ha. destruct (scale_fields a Ha) as (_ & _ & _ & _ & F1 & F2 & _). split; assumption. Qed.

(* ---- equal factors: alpha, the box and the bound contributions are all scaled by f ---- *)
Section Same.
Hypothesis Hfv : f == v.
Hypothesis Hf : 0 < f.

Lemma scale_flag_same a : (a < n)%nat -> Inv_flags n s -> fl s' a = fl s a /\ fu s' a = fu s a.
Proof.
  intros Ha F. destruct (scale_fields a Ha) as (_ & L & H & _ & F1 & F2 & _). destruct (F a Ha) as [G1 G2].
  pose proof (scale_alpha_at a Ha) as A. rewrite F1, F2, G1, G2, L, H.
  assert (X : forall x y, Qeq_bool (x * f) (y * f) = Qeq_bool x y).
  { intros x y. destruct (qeqb_spec x y) as [[E Hx]|[E Hx]]; rewrite E.
    - apply qeqb_of_eq. rewrite Hx. reflexivity.
    - apply qeqb_false. intros C. apply Hx. apply (Qmult_inj_r x y f); [lra|exact C]. }
  split.
  - rewrite (qeqb_congr (alpha s' a) (lo s a * f) (alpha s a * f) (lo s a * f)); [apply X|rewrite A, Hfv; reflexivity|reflexivity].
  - rewrite (qeqb_congr (alpha s' a) (hi s a * f) (alpha s a * f) (hi s a * f)); [apply X|rewrite A, Hfv; reflexivity|reflexivity].
Qed.

Theorem scale_box_same_preserves_inv : Inv_core true s -> Inv_core true s'.
Proof.
  intros (IG & B & F & [S1 S2] & IE). unfold C08ProofsFlip.Inv_core. splits.
  - apply scale_grad; assumption.
  - intros a Ha. destruct (scale_fields a Ha) as (_ & L & H & _). rewrite L, H, (scale_alpha_at a Ha), <- Hfv.
    destruct (B a Ha) as [B1 B2]. split; apply Qmult_le_compat_r; lra.
  - apply scale_flags.
  - split; [exact S1|]. intros a Ha. destruct (scale_flag_same a ltac:(lia) F) as [E1 E2]. rewrite E1, E2. exact (S2 a Ha).
  - intros a Ha. destruct (scale_fields a Ha) as (_ & _ & _ & L & _ & _ & GE).
    rewrite GE, L, (qeqb_of_eq f v Hfv), (IE a Ha).
    assert (X : sumn n (fun b => Kq s' a b * bcontrib s' b) == sumn n (fun b => Kq s a b * bcontrib s b) * f).
    { rewrite <- sumn_scal_r. apply sumn_ext. intros b Hb. change (Kq s' a b) with (Kq s a b).
      unfold bcontrib. destruct (scale_flag_same b Hb F) as [E1 E2]. rewrite E1, E2.
      destruct (fl s b || fu s b); [rewrite (scale_alpha_at b Hb), Hfv; ring|ring]. }
    rewrite X. ring.
Qed.
End Same.

(* ---- different factors: the code resets the edge gradient to the linear term ---- *)
Section Diff.
Hypothesis Hne : ~ f == v.
Hypothesis Hbox : forall a, (a < n)%nat -> lo s a * f <= alpha s a * v <= hi s a * f.
Hypothesis Hnob : forall a, (a < n)%nat -> alpha s a * v == lo s a * f \/ alpha s a * v == hi s a * f -> alpha s a * v == 0.
Hypothesis Hall : active s = n.

Theorem scale_box_diff_preserves_inv : Inv_core true s -> Inv_core true s'.
Proof.
  intros (IG & B & F & [S1 S2] & IE). unfold C08ProofsFlip.Inv_core. splits.
  - apply scale_grad; assumption.
  - intros a Ha. destruct (scale_fields a Ha) as (_ & L & H & _). rewrite L, H, (scale_alpha_at a Ha). apply Hbox. exact Ha.
  - apply scale_flags.
  - split; [exact S1|]. intros a Ha. change (active s') with (active s) in Ha. lia.
  - intros a Ha. destruct (scale_fields a Ha) as (_ & _ & _ & L & _ & _ & GE).
    rewrite GE, L. apply qeqb_false in Hne. rewrite Hne.
    rewrite (sumn_0 n (fun b => Kq s' a b * bcontrib s' b)); [ring|].
    intros b Hb. unfold bcontrib. destruct (scale_fields b Hb) as (_ & Lb & Hb' & _ & F1 & F2 & _).
    pose proof (scale_alpha_at b Hb) as A.
    destruct (fl s' b || fu s' b) eqn:E; [|ring].
    assert (Z : alpha s' b == 0).
    { rewrite A. apply (Hnob b Hb). apply orb_prop in E. destruct E as [E|E].
      - left. rewrite F1 in E. apply Qeq_bool_iff in E. rewrite <- A, E, Lb. reflexivity.
      - right. rewrite F2 in E. apply Qeq_bool_iff in E. rewrite <- A, E, Hb'. reflexivity. }
    rewrite Z. ring.
Qed.
End Diff.
End Scale.

(* ================= setInitialSolution(alpha) ================= *)
Section SetInitial.
Variables (s : qst) (arg : nat -> Q).
Let s' := set_initial qops n K0 s arg.
Hypothesis Hid : forall a, (a < n)%nat -> perm s a = a.
Hypothesis Hnd : forall a, (a < n)%nat -> deact s a = false.

Lemma find_pos_id p : forall m, (p < m)%nat -> (m <= n)%nat -> find_pos s p m = p.
Proof.
  induction m as [|k IH]; intros Hp Hm; [lia|]. cbn [find_pos]. rewrite (Hid k) by lia.
  destruct (Nat.eqb_spec k p) as [->|N]; [reflexivity|]. apply IH; lia.
Qed.

Lemma init_grad_sum b m : init_grad qops K0 s arg b m == lin s b - sumn m (fun k => arg k * Kq s k b).
Proof.
  induction m as [|k IH]; cbn [init_grad sumn]; [ring|]. cbv zeta. cbn [o_eqb o_zero o_sub o_mul qops].
  destruct (qeqb_spec (arg k) 0) as [[E H]|[E H]]; rewrite E; rewrite IH; [rewrite H; ring|].
  change (K K0 s k b) with (Kq s k b). ring.
Qed.

Definition at_bound (k : nat) : bool := Qeq_bool (arg k) (lo s k) || Qeq_bool (arg k) (hi s k).

Lemma init_edge_sum b m : (m <= n)%nat ->
  init_edge qops n K0 s arg b m == lin s b - sumn m (fun k => (if at_bound k then arg k else 0) * Kq s k b).
Proof.
  induction m as [|k IH]; intros Hm; cbn [init_edge sumn]; [ring|]. cbv zeta. cbn [o_eqb o_zero o_sub o_mul qops].
  rewrite (find_pos_id k n ltac:(lia) (le_n _)).
  unfold bmin, bmax. rewrite (Hnd k) by lia. fold (at_bound k).
  change (K K0 s k b) with (Kq s k b).
  destruct (qeqb_spec (arg k) 0) as [[E H]|[E H]]; rewrite E; destruct (at_bound k); rewrite IH by lia; try rewrite H; ring.
Qed.

Lemma set_initial_fields a : (a < n)%nat ->
  alpha s' a = arg a /\ grad s' a = init_grad qops K0 s arg a n /\ gedge s' a = init_edge qops n K0 s arg a n /\
  fl s' a = Qeq_bool (arg a) (lo s a) /\ fu s' a = Qeq_bool (arg a) (hi s a).
Proof.
  intros Ha. unfold s', set_initial. cbn [alpha grad gedge fl fu o_eqb qops]. rewrite (Hid a Ha).
  apply Nat.ltb_lt in Ha. rewrite Ha. splits; reflexivity.
Qed.

Hypothesis Hbox : forall a, (a < n)%nat -> lo s a <= arg a <= hi s a.
Hypothesis Hall : active s = n.

Theorem set_initial_preserves_inv : Inv_core true s' /\ (forall a, (a < n)%nat -> alpha s' a = arg a).
Proof.
  split; [|intros a Ha; apply set_initial_fields; exact Ha].
  unfold C08ProofsFlip.Inv_core. splits.
  - intros a Ha. change (active s') with (active s) in Ha. rewrite Hall in Ha.
    destruct (set_initial_fields a Ha) as (_ & G & _). rewrite G, init_grad_sum. change (lin s' a) with (lin s a).
    unfold Kalpha.
    assert (X : sumn n (fun b => Kq s' a b * alpha s' b) == sumn n (fun k => arg k * Kq s k a)).
    { apply sumn_ext. intros b Hb. destruct (set_initial_fields b Hb) as (A & _). rewrite A.
      change (Kq s' a b) with (Kq s a b). rewrite (Kq_sym K0 Hsym s a b). ring. }
    rewrite X. reflexivity.
  - intros a Ha. destruct (set_initial_fields a Ha) as (A & _). rewrite A. exact (Hbox a Ha).
  - intros a Ha. destruct (set_initial_fields a Ha) as (A & _ & _ & F1 & F2). rewrite A. split; assumption.
  - split; [change (active s') with (active s); lia|]. intros a Ha. change (active s') with (active s) in Ha. lia.
  - intros a Ha. destruct (set_initial_fields a Ha) as (_ & _ & GE & _). rewrite GE, (init_edge_sum a n (le_n _)).
    change (lin s' a) with (lin s a).
    assert (X : sumn n (fun b => Kq s' a b * bcontrib s' b) == sumn n (fun k => (if at_bound k then arg k else 0) * Kq s k a)).
    { apply sumn_ext. intros b Hb. destruct (set_initial_fields b Hb) as (A & _ & _ & F1 & F2).
      unfold bcontrib. rewrite A, F1, F2. fold (at_bound b). change (Kq s' a b) with (Kq s a b).
      rewrite (Kq_sym K0 Hsym s a b). ring. }
    rewrite X. reflexivity.
Qed.
End SetInitial.

(* ================= histories of solver operations and mutator calls ================= *)
Variable kind : bool.
Hypothesis HK : Kok K0 kind.

Definition wf_mop (s : qst) (m : mop Q) : Prop :=
  match m with
  | MSetLinear i v => True
  | MActivate i => True
  | MFlip i j => (i < active s)%nat /\ (j < active s)%nat
  | MScale cp cn f v =>
      0 < f /\ (forall a, (a < n)%nat -> deact s a = false) /\
      (f == v \/ (~ f == v /\ active s = n /\
                  (forall a, (a < n)%nat -> lo s a * f <= alpha s a * v <= hi s a * f) /\
                  (forall a, (a < n)%nat -> alpha s a * v == lo s a * f \/ alpha s a * v == hi s a * f -> alpha s a * v == 0)))
  | MSetInitial arg =>
      (forall a, (a < n)%nat -> perm s a = a) /\ (forall a, (a < n)%nat -> deact s a = false) /\
      (forall a, (a < n)%nat -> lo s a <= arg a <= hi s a) /\ active s = n
  end.

Theorem mstep_preserves_inv (s : qst) (m : mop Q) :
  Inv_core true s -> wf_mop s m -> Inv_core true (mstep qops n K0 s m).
Proof.
  intros I W. destruct m as [i v|i|cp cn f v|arg|i j]; cbn [mstep wf_mop] in *.
  - apply set_linear_preserves_inv. exact I.
  - apply activate_preserves_inv. exact I.
  - destruct W as (Hf & Hnd & [E|(NE & Hall & Hb & Hnob)]).
    + apply scale_box_same_preserves_inv; assumption.
    + apply scale_box_diff_preserves_inv; assumption.
  - destruct W as (Hid & Hnd & Hb & Hall). apply set_initial_preserves_inv; assumption.
  - destruct W as [Hi Hj]. apply mflip_preserves_inv; assumption.
Qed.

Definition wf_hop (s : qst) (h : hop Q) : Prop :=
  match h with
  | HSolver o => wf_opF kind s o
  | HMut m => wf_mop s m
  end.
Fixpoint wf_hrun (s : qst) (hs : list (hop Q)) : Prop :=
  match hs with
  | [] => True
  | h :: r => wf_hop s h /\ wf_hrun (hstep qops n K0 kind true s h) r
  end.

Lemma hstep_preserves_inv (s : qst) (h : hop Q) :
  Inv_core true s -> wf_hop s h -> Inv_core true (hstep qops n K0 kind true s h).
Proof.
  intros I W. destruct h as [o|m]; cbn [hstep wf_hop] in *.
  - exact (proj1 (step_full n K0 Hsym kind HK true s o I W)).
  - apply mstep_preserves_inv; assumption.
Qed.

(* every history that interleaves updateSMO / shrink / unshrink with mutator calls keeps the state invariant *)
Theorem hrun_core hs : forall s : qst,
  Inv_core true s -> wf_hrun s hs -> Inv_core true (hrun qops n K0 kind true s hs).
Proof.
  induction hs as [|h r IH]; intros s I W; cbn [hrun fold_left]; [exact I|].
  destruct W as [W1 W2]. apply IH; [apply hstep_preserves_inv; assumption|exact W2].
Qed.

(* between two mutator calls the solver part of a history enjoys everything C08_every_history says (run_core) *)
Lemma hrun_app hs1 hs2 (s : qst) :
  hrun qops n K0 kind true s (hs1 ++ hs2) = hrun qops n K0 kind true (hrun qops n K0 kind true s hs1) hs2.
Proof. unfold hrun. apply fold_left_app. Qed.

Lemma hrun_solver ops (s : qst) :
  hrun qops n K0 kind true s (map (@HSolver Q) ops) = runQ n K0 kind true s ops.
Proof.
  revert s. induction ops as [|o r IH]; intros s; [reflexivity|].
  cbn [map hrun fold_left hstep]. unfold hrun in IH. rewrite IH. reflexivity.
Qed.

End Mut.

(* ---------------- witnesses ---------------- *)
(* C08-6: on the example state of C08ProofsHist (variable 2 shrunk at its upper bound) the reordered setLinear leaves
   the edge gradient of variable 0 at its old value *)
Theorem set_linear_read_after_write_refuted :
  exists (n : nat) (K0 : nat -> nat -> Q) (s : qst) (i : nat) (v : Q),
    Ksym K0 /\ Inv_core n K0 true s /\ (i < n)%nat /\
    Inv_edge n K0 (set_linear qops s i v) /\ ~ Inv_edge n K0 (set_linear_read_after_write qops s i v).
Proof.
  exists 3%nat, exh_K0, exh_s, 0%nat, 5.
  split; [intros p q; unfold exh_K0; rewrite (Nat.eqb_sym q p); reflexivity|].
  split; [exact exh_core|]. split; [lia|]. split.
  - apply (set_linear_preserves_inv 3 exh_K0 exh_s 0 5 true exh_core).
  - intros H. specialize (H 0%nat ltac:(lia)). vm_compute in H. discriminate.
Qed.

(* setInitialSolution(alpha) on an object whose variables have been permuted: two variables, K = diag(1,2), the two
   positions exchanged (as after a shrink + unshrink), alpha = (1, 0) by original index: the gradient is wrong *)
Definition si_K0 (p q : nat) : Q := if (p =? q)%nat then (if (p =? 0)%nat then 1 else 2) else 0.
Definition nth2 (x y : Q) (a : nat) : Q := match a with O => x | _ => y end.
Definition si_s : qst :=
  mk (nth2 0 0) (nth2 5 7) (nth2 5 7) (nth2 5 7) (nth2 0 0) (nth2 10 10)
     (fun a => match a with O => 1%nat | S O => 0%nat | _ => a end)
     (fun _ => true) (fun _ => false) 2 true.

Theorem set_initial_permuted_refuted :
  exists (n : nat) (K0 : nat -> nat -> Q) (s : qst) (arg : nat -> Q),
    Ksym K0 /\ Inv_core n K0 true s /\ Inv_perm n s /\ active s = n /\
    (forall a, (a < n)%nat -> deact s a = false) /\
    (forall a, (a < n)%nat -> lo s a <= arg (perm s a) <= hi s a) /\
    ~ Inv_grad n K0 (set_initial qops n K0 s arg).
Proof.
  exists 2%nat, si_K0, si_s, (nth2 1 0).
  assert (two : forall a, (a < 2)%nat -> a = 0%nat \/ a = 1%nat) by (intros; lia).
  split.
  { intros p q. unfold si_K0. rewrite (Nat.eqb_sym q p). destruct (Nat.eqb_spec p q) as [->|]; reflexivity. }
  split.
  { unfold Inv_core. splits.
    - intros a Ha. destruct (two a Ha) as [->| ->]; vm_compute; reflexivity.
    - intros a Ha. destruct (two a Ha) as [->| ->]; split; vm_compute; discriminate.
    - intros a Ha. destruct (two a Ha) as [->| ->]; split; vm_compute; reflexivity.
    - split; [cbn; lia|]. intros a Ha. cbn in Ha. lia.
    - intros a Ha. destruct (two a Ha) as [->| ->]; vm_compute; reflexivity. }
  split.
  { split.
    - intros a Ha. destruct (two a Ha) as [->| ->]; cbn; lia.
    - intros a b Ha Hb. destruct (two a Ha) as [->| ->]; destruct (two b Hb) as [->| ->]; cbn; lia. }
  split; [reflexivity|]. split.
  { intros a Ha. destruct (two a Ha) as [->| ->]; reflexivity. }
  split.
  { intros a Ha. destruct (two a Ha) as [->| ->]; split; vm_compute; discriminate. }
  intros H. specialize (H 0%nat ltac:(cbn; lia)). vm_compute in H. discriminate.
Qed.

(* the hypotheses of hrun_core are satisfiable: solve a little, adapt a linear term, re-activate, scale the box,
   solve again (example state of C08ProofsHist) *)
Definition exm_hs : list (hop Q) :=
  [HSolver (OSmo 0%nat 1%nat); HSolver (OShrink (1 # 10)); HSolver OUnshrink;
   HMut (MSetLinear 2%nat (1 # 2)); HMut (MActivate 1%nat); HMut (MScale 1 1 2 2);
   HSolver (OShrink (1 # 10)); HSolver OUnshrink].

Example exm_hyps :
  Inv_core 3 exh_K0 true exh_s /\ wf_hrun 3 exh_K0 true exh_s exm_hs /\
  ~ lin (hrun qops 3 exh_K0 true true exh_s exm_hs) 2%nat == lin exh_s 2%nat.
Proof.
  split; [exact exh_core|]. split.
  - cbn [wf_hrun exm_hs wf_hop wf_opF wf_mop wf_pair]. splits; try exact I; try (vm_compute; lia); try (vm_compute; discriminate);
      try (vm_compute; reflexivity).
    intros a Ha. three a Ha; vm_compute; reflexivity.
  - vm_compute. discriminate.
Qed.

Print Assumptions set_linear_preserves_inv.
Print Assumptions activate_preserves_inv.
Print Assumptions mflip_preserves_inv.
Print Assumptions scale_box_same_preserves_inv.
Print Assumptions scale_box_diff_preserves_inv.
Print Assumptions set_initial_preserves_inv.
Print Assumptions mstep_preserves_inv.
Print Assumptions hrun_core.
Print Assumptions set_linear_read_after_write_refuted.
Print Assumptions set_initial_permuted_refuted.
