(* C13 — DC sort proofs, part 1: coordinate form of the restricted dominance relations, the
   specifications SpecA / SpecB of ndHelperA / ndHelperB, and the three loops baseB, sweepB, sweepA. *)
From Coq Require Import List ZArith Lia Bool Arith Permutation Sorted.
From SharkV Require Import ListAux C13Model C13Proofs C13HsspFrontProofs C13Dc C13DcAuxProofs.
Import ListNotations.

Lemma nth_firstn_lt {A} (l : list A) d : forall k c, c < k -> nth c (firstn k l) d = nth c l d.
Proof.
  induction l as [|x l IH]; intros [|k] [|c] H; cbn [firstn nth]; auto; try lia. apply IH. lia.
Qed.

Lemma frt_raise_same f i v : i < length f -> frt_of (raise f i v) i = Nat.max (frt_of f i) v.
Proof. intros H. unfold frt_of, raise. now rewrite nth_upd_eq. Qed.
Lemma frt_raise_other f i v j : i <> j -> frt_of (raise f i v) j = frt_of f j.
Proof. intros H. unfold frt_of, raise. now rewrite nth_upd_neq. Qed.
Lemma raise_length f i v : length (raise f i v) = length f.
Proof. apply upd_length. Qed.

Lemma mxf_cons g p x X :
  mxf g p (x :: X) = if p x then Nat.max (g x) (mxf g p X) else mxf g p X.
Proof. unfold mxf. cbn [filter]. destruct (p x); auto. Qed.

Section DcCtx.
Variable pts : list point.
Variable m : nat.
Hypothesis Hm : 2 <= m.
Hypothesis Hlen : forall i, i < length pts -> length (P pts i) = m.
Hypothesis Hlex : forall i j, i < j < length pts -> lexlt (P pts i) (P pts j).

Local Notation n := (length pts).
Local Notation obj := (obj pts).
Local Notation wdomb := (wdomb pts).
Local Notation sdomb := (sdomb pts).
Local Open Scope Z_scope.

(* coordinate form *)
Definition W (k i j : nat) : Prop := forall c, (c < k)%nat -> obj i c <= obj j c.
Definition D (k i j : nat) : Prop := W k i j /\ exists c, (c < k)%nat /\ obj i c < obj j c.

Lemma firstn_P_len k i : (k <= m)%nat -> (i < n)%nat -> length (firstn k (P pts i)) = k.
Proof. intros Hk Hi. rewrite firstn_length, Hlen by auto. lia. Qed.

Lemma wdomb_iff k i j : (k <= m)%nat -> (i < n)%nat -> (j < n)%nat -> (wdomb k i j = true <-> W k i j).
Proof.
  intros Hk Hi Hj. unfold C13Dc.wdomb, domk, W.
  pose proof (firstn_P_len k i Hk Hi) as La. pose proof (firstn_P_len k j Hk Hj) as Lb.
  set (a := firstn k (P pts i)) in *. set (b := firstn k (P pts j)) in *.
  assert (Hnth : forall c, (c < k)%nat -> nth c a 0 = obj i c /\ nth c b 0 = obj j c).
  { intros c Hc. unfold a, b, C13Dc.obj. rewrite !nth_firstn_lt by auto. auto. }
  destruct (dominance_spec a b ltac:(lia)) as [S1 [S2 [S3 S4]]].
  assert (HW : leq_all a b <-> forall c, (c < k)%nat -> obj i c <= obj j c).
  { rewrite leq_all_nth. rewrite La. split.
    - intros [_ H] c Hc. destruct (Hnth c Hc) as [<- <-]. auto.
    - intros H. split; [lia|]. intros c Hc. destruct (Hnth c Hc) as [-> ->]. auto. }
  rewrite <- HW. destruct (dominance a b) eqn:E.
  - split; [discriminate|]. intros H. exfalso. apply (proj1 (proj1 S4 eq_refl)); auto.
  - split; auto. intros _. apply S1; auto.
  - split; [discriminate|]. intros H. exfalso. pose proof (proj1 S2 eq_refl) as [_ HS].
    exact (lt_some_not_geq b a HS H).
  - split; auto. intros _. rewrite (proj1 S3 eq_refl). apply leq_all_refl.
Qed.

Lemma sdomb_iff k i j : (k <= m)%nat -> (i < n)%nat -> (j < n)%nat -> (sdomb k i j = true <-> D k i j).
Proof.
  intros Hk Hi Hj. unfold C13Dc.sdomb, domk, D, W.
  pose proof (firstn_P_len k i Hk Hi) as La. pose proof (firstn_P_len k j Hk Hj) as Lb.
  set (a := firstn k (P pts i)) in *. set (b := firstn k (P pts j)) in *.
  assert (Hnth : forall c, (c < k)%nat -> nth c a 0 = obj i c /\ nth c b 0 = obj j c).
  { intros c Hc. unfold a, b, C13Dc.obj. rewrite !nth_firstn_lt by auto. auto. }
  destruct (dominance_spec a b ltac:(lia)) as [S1 _].
  assert (HD : dominates a b <-> (forall c, (c < k)%nat -> obj i c <= obj j c) /\ exists c, (c < k)%nat /\ obj i c < obj j c).
  { rewrite dominates_componentwise. rewrite La. split.
    - intros [_ [H [c [Hc Hlt]]]]. split.
      + intros c' Hc'. destruct (Hnth c' Hc') as [<- <-]. auto.
      + exists c. split; auto. destruct (Hnth c Hc) as [<- <-]. auto.
    - intros [H [c [Hc Hlt]]]. split; [lia|]. split.
      + intros c' Hc'. destruct (Hnth c' Hc') as [-> ->]. auto.
      + exists c. split; auto. destruct (Hnth c Hc) as [-> ->]. auto. }
  rewrite <- HD, <- S1. destruct (dominance a b); split; congruence.
Qed.

Lemma lex_coord i j : (i < j < n)%nat ->
  exists c, (c < m)%nat /\ obj i c < obj j c /\ forall c', (c' < c)%nat -> obj i c' = obj j c'.
Proof.
  intros Hij. pose proof (Hlex i j Hij) as HL. unfold lexlt in HL.
  destruct (lex_ltb_coord (P pts i) (P pts j)) as [c [H1 [H2 H3]]]; auto.
  { rewrite !Hlen; auto; lia. }
  exists c. rewrite Hlen in H1 by lia. auto.
Qed.

Lemma D_irrefl k i : ~ D k i i.
Proof. intros [_ [c [_ H]]]. lia. Qed.

Lemma later_not_D k i j : (i < j < n)%nat -> ~ D k j i.
Proof.
  intros Hij [HW [c [Hc Hlt]]]. destruct (lex_coord i j Hij) as [c0 [H1 [H2 H3]]].
  destruct (Nat.lt_ge_cases c0 k) as [Hlt0|Hge].
  - specialize (HW c0 Hlt0). lia.
  - rewrite (H3 c) in Hlt by lia. lia.
Qed.

Lemma W_distinct_D k i j : W k i j -> (exists c, (c < k)%nat /\ obj i c <> obj j c) -> D k i j.
Proof. intros HW [c [Hc Hne]]. split; auto. exists c. split; auto. specialize (HW c Hc). lia. Qed.

Lemma D_W k i j : D k i j -> W k i j.
Proof. intros [H _]. exact H. Qed.

(* order on the first two objectives *)
Definition lex2le (i j : nat) : Prop := obj i 0 < obj j 0 \/ (obj i 0 = obj j 0 /\ obj i 1 <= obj j 1).

Lemma lex2_of_lt i j : (i < j < n)%nat -> lex2le i j.
Proof.
  intros Hij. destruct (lex_coord i j Hij) as [c [H1 [H2 H3]]]. unfold lex2le.
  destruct c as [|[|c]].
  - left. auto.
  - right. split; [apply H3; lia|lia].
  - right. split; [apply H3; lia|]. rewrite (H3 1%nat); lia.
Qed.

Lemma lex2le_refl i : lex2le i i.
Proof. right. lia. Qed.

Lemma lex2le_trans i j l : lex2le i j -> lex2le j l -> lex2le i l.
Proof. unfold lex2le. lia. Qed.

Lemma W2_iff i j : W 2 i j <-> obj i 0 <= obj j 0 /\ obj i 1 <= obj j 1.
Proof.
  unfold W. split.
  - intros H. split; apply H; lia.
  - intros [H0 H1] [|[|c]] Hc; auto; lia.
Qed.

Lemma W2_lex2le i j : W 2 i j -> lex2le i j.
Proof. rewrite W2_iff. unfold lex2le. lia. Qed.

Lemma lex2le_W2 i j : lex2le i j -> (W 2 i j <-> obj i 1 <= obj j 1).
Proof. rewrite W2_iff. unfold lex2le. lia. Qed.

(* index lists *)
Definition incr (X : list nat) : Prop := StronglySorted lt X /\ forall x, In x X -> (x < n)%nat.
Definition distinctk (k : nat) (X : list nat) : Prop :=
  forall x y, In x X -> In y X -> x <> y -> exists c, (c < k)%nat /\ obj x c <> obj y c.
Definition fpos (f : list nat) : Prop := length f = n /\ forall i, (i < n)%nat -> (1 <= frt_of f i)%nat.

Lemma incr_NoDup X : incr X -> NoDup X.
Proof.
  intros [HS _]. induction HS as [|x X HS IH HF]; constructor; auto.
  rewrite Forall_forall in HF. intros Hin. specialize (HF x Hin). lia.
Qed.

Lemma incr_filter p X : incr X -> incr (filter p X).
Proof. intros [HS HB]. split; [now apply SS_filter|]. intros x Hx. apply filter_In in Hx. apply HB, Hx. Qed.

Lemma incr_app X Y : incr (X ++ Y) -> incr X /\ incr Y /\ forall x y, In x X -> In y Y -> (x < y)%nat.
Proof.
  intros [HS HB]. apply SS_app in HS. destruct HS as [H1 [H2 H3]].
  split; [split; auto; intros x Hx; apply HB, in_or_app; auto|].
  split; [split; auto; intros x Hx; apply HB, in_or_app; auto|auto].
Qed.

Lemma incr_cons x X : incr (x :: X) -> (x < n)%nat /\ incr X /\ forall y, In y X -> (x < y)%nat.
Proof.
  intros [HS HB]. apply StronglySorted_inv in HS. destruct HS as [H1 H2]. rewrite Forall_forall in H2.
  split; [apply HB; now left|]. split; [split; auto; intros y Hy; apply HB; now right|auto].
Qed.

(* specifications *)
Definition SpecB (L H : list nat) (k : nat) (f f' : list nat) : Prop :=
  length f' = length f /\
  (forall x, ~ In x H -> frt_of f' x = frt_of f x) /\
  forall h, In h H ->
    frt_of f' h = Nat.max (frt_of f h) (mxf (fun l => (frt_of f l + 1)%nat) (fun l => wdomb k l h) L).

Definition SpecA (S : list nat) (k : nat) (f f' : list nat) : Prop :=
  length f' = length f /\
  (forall x, ~ In x S -> frt_of f' x = frt_of f x) /\
  forall x, In x S ->
    frt_of f' x = Nat.max (frt_of f x) (mxf (fun y => (frt_of f' y + 1)%nat) (fun y => sdomb k y x) S).

Lemma SpecB_mono L H k f f' : SpecB L H k f f' -> forall x, (frt_of f x <= frt_of f' x)%nat.
Proof.
  intros [_ [H1 H2]] x. destruct (in_dec Nat.eq_dec x H) as [Hin|Hnin].
  - rewrite (H2 x Hin). lia.
  - rewrite (H1 x Hnin). lia.
Qed.

Lemma SpecA_mono S k f f' : SpecA S k f f' -> forall x, (frt_of f x <= frt_of f' x)%nat.
Proof.
  intros [_ [H1 H2]] x. destruct (in_dec Nat.eq_dec x S) as [Hin|Hnin].
  - rewrite (H2 x Hin). lia.
  - rewrite (H1 x Hnin). lia.
Qed.

Lemma SpecB_fpos L H k f f' : SpecB L H k f f' -> fpos f -> fpos f'.
Proof.
  intros HS [HL HP]. split; [destruct HS as [-> _]; auto|].
  intros i Hi. pose proof (SpecB_mono _ _ _ _ _ HS i). specialize (HP i Hi). lia.
Qed.

Lemma SpecA_fpos S k f f' : SpecA S k f f' -> fpos f -> fpos f'.
Proof.
  intros HS [HL HP]. split; [destruct HS as [-> _]; auto|].
  intros i Hi. pose proof (SpecA_mono _ _ _ _ HS i). specialize (HP i Hi). lia.
Qed.

Lemma SpecB_refl_nilH L k f : SpecB L [] k f f.
Proof. split; auto. split; auto. intros h []. Qed.

Lemma SpecB_refl_nilL H k f : SpecB [] H k f f.
Proof. split; auto. split; auto. intros h _. rewrite mxf_nil. lia. Qed.

(* ---------------------------------------------------------------------------------------- *)
(* baseB: the double loop *)
Local Close Scope Z_scope.

Lemma baseB_inner k j : forall L f, ~ In j L -> j < length f ->
  let g := fold_left (fun f i => if wdomb k i j then raise f j (frt_of f i + 1) else f) L f in
  length g = length f /\ (forall x, x <> j -> frt_of g x = frt_of f x) /\
  frt_of g j = Nat.max (frt_of f j) (mxf (fun l => frt_of f l + 1) (fun l => wdomb k l j) L).
Proof.
  induction L as [|i L IH]; intros f Hnin Hj; cbn [fold_left].
  - split; auto. split; auto. rewrite mxf_nil. lia.
  - assert (Hij : i <> j) by (intros ->; apply Hnin; now left).
    assert (Hnin' : ~ In j L) by (intros H; apply Hnin; now right).
    set (f1 := if wdomb k i j then raise f j (frt_of f i + 1) else f).
    assert (L1 : length f1 = length f) by (unfold f1; destruct (wdomb k i j); auto; apply raise_length).
    assert (O1 : forall x, x <> j -> frt_of f1 x = frt_of f x).
    { intros x Hx. unfold f1. destruct (wdomb k i j); auto. apply frt_raise_other. auto. }
    destruct (IH f1 Hnin' ltac:(lia)) as [A [B C]]. cbv zeta in *.
    split; [lia|]. split; [intros x Hx; rewrite B, O1; auto|].
    rewrite C. rewrite mxf_cons.
    rewrite (mxf_ext (fun l => frt_of f1 l + 1) (fun l => frt_of f l + 1) (fun l => wdomb k l j) (fun l => wdomb k l j) L L).
    + unfold f1. destruct (wdomb k i j); [|lia]. rewrite frt_raise_same by auto. lia.
    + tauto.
    + intros x Hx _. rewrite O1; auto. intros ->. contradiction.
Qed.

Lemma baseB_spec k L : forall H f, NoDup H -> (forall x, In x H -> ~ In x L) -> (forall x, In x H -> x < length f) ->
  SpecB L H k f (baseB pts L H k f).
Proof.
  unfold baseB. induction H as [|j H IH]; intros f HN HD HB; cbn [fold_left].
  - apply SpecB_refl_nilH.
  - inversion HN as [|? ? Hj HN']; subst.
    destruct (baseB_inner k j L f (HD j (or_introl eq_refl)) (HB j (or_introl eq_refl))) as [A [B C]].
    set (f1 := fold_left (fun f i => if wdomb k i j then raise f j (frt_of f i + 1) else f) L f) in *.
    cbv zeta in *.
    destruct (IH f1 HN') as [A' [B' C']].
    { intros x Hx. apply HD. now right. } { intros x Hx. rewrite A. apply HB. now right. }
    split; [lia|]. split.
    + intros x Hx. rewrite B', B; auto; [intros ->; apply Hx; now left|intros Hc; apply Hx; now right].
    + intros h [<-|Hh].
      * rewrite B' by auto. exact C.
      * rewrite C' by auto. rewrite B by (intros ->; contradiction). f_equal.
        apply mxf_ext; [tauto|]. intros x Hx _. rewrite B; auto. intros ->. apply (HD j); auto. now left.
Qed.

(* ---------------------------------------------------------------------------------------- *)
(* sweepB *)
Definition TInv (f0 : list nat) (Lp : list nat) (T : tmap) : Prop :=
  NoDup (map fst T) /\
  (forall q v, In (q, v) T -> exists l, In l Lp /\ frt_of f0 l = q /\ obj l 1 = v) /\
  (forall l, In l Lp -> exists v, In (frt_of f0 l, v) T /\ (v <= obj l 1)%Z).

Definition tupd (f : list nat) (i : nat) (T : tmap) : tmap :=
  match tfind (frt_of f i) T with
  | Some v => if (obj i 1 <? v)%Z then tset (frt_of f i) (obj i 1) T else T
  | None => tset (frt_of f i) (obj i 1) T
  end.

Lemma TInv_weaken f0 Lp i T : TInv f0 Lp T ->
  (exists v, In (frt_of f0 i, v) T /\ (v <= obj i 1)%Z) -> TInv f0 (Lp ++ [i]) T.
Proof.
  intros [A [B C]] Hi. split; auto. split.
  - intros q v Hin. destruct (B q v Hin) as [l [H1 H2]]. exists l. split; auto. apply in_or_app; auto.
  - intros l Hl. apply in_app_or in Hl. destruct Hl as [Hl|[<-|[]]]; auto.
Qed.

Lemma TInv_set f0 Lp i T : TInv f0 Lp T ->
  (forall l v, In l Lp -> frt_of f0 l = frt_of f0 i -> In (frt_of f0 i, v) T -> (obj i 1 <= obj l 1)%Z) ->
  (forall l, In l Lp -> frt_of f0 l = frt_of f0 i -> exists v, In (frt_of f0 i, v) T) ->
  TInv f0 (Lp ++ [i]) (tset (frt_of f0 i) (obj i 1) T).
Proof.
  intros [A [B C]] Hle Hex. split; [now apply tset_keys_nodup|]. split.
  - intros q v Hin. apply tset_In in Hin. destruct Hin as [[-> ->]|[Hne Hin]].
    + exists i. split; auto. apply in_or_app. right. now left.
    + destruct (B q v Hin) as [l [H1 H2]]. exists l. split; auto. apply in_or_app; auto.
  - intros l Hl. apply in_app_or in Hl. destruct Hl as [Hl|[<-|[]]].
    + destruct (Nat.eq_dec (frt_of f0 l) (frt_of f0 i)) as [E|NE].
      * exists (obj i 1). split; [apply tset_In; left; auto|].
        destruct (Hex l Hl E) as [v Hv]. apply (Hle l v); auto.
      * destruct (C l Hl) as [v [H1 H2]]. exists v. split; auto. apply tset_In. right. auto.
    + exists (obj i 1). split; [apply tset_In; left; auto|lia].
Qed.

Lemma TInv_step f0 Lp T i : TInv f0 Lp T -> TInv f0 (Lp ++ [i]) (tupd f0 i T).
Proof.
  intros HT. pose proof HT as [A [B C]]. unfold tupd. destruct (tfind (frt_of f0 i) T) as [v|] eqn:E.
  - apply tfind_Some in E. destruct (Z.ltb_spec (obj i 1) v).
    + apply TInv_set; auto.
      * intros l v' Hl Hq Hin. destruct (C l Hl) as [w [H1 H2]]. rewrite Hq in H1.
        rewrite (keys_functional T _ _ _ A H1 E) in H2. lia.
      * intros l _ _. exists v. auto.
    + apply TInv_weaken; auto. exists v. split; auto.
  - apply TInv_set; auto.
    + intros l v Hl Hq Hin. exfalso. exact (tfind_None _ _ E v Hin).
    + intros l Hl Hq. destruct (C l Hl) as [w [H1 H2]]. rewrite Hq in H1. exfalso. exact (tfind_None _ _ E w H1).
Qed.

Lemma sweepB_adv_ext j : forall Lrem T f g, (forall i, In i Lrem -> frt_of f i = frt_of g i) ->
  sweepB_adv pts Lrem j T f = sweepB_adv pts Lrem j T g.
Proof.
  induction Lrem as [|i Lr IH]; intros T f g H; cbn [sweepB_adv]; auto.
  rewrite (H i (or_introl eq_refl)).
  destruct (obj j 0 <? obj i 0)%Z; auto. destruct ((obj i 0 =? obj j 0)%Z && (obj j 1 <? obj i 1)%Z); auto.
  apply IH. intros x Hx. apply H. now right.
Qed.

Lemma sweepB_adv_spec f0 j : forall Lrem Lp T Lrem' T',
  TInv f0 Lp T -> sweepB_adv pts Lrem j T f0 = (Lrem', T') ->
  exists taken, Lrem = taken ++ Lrem' /\ (forall l, In l taken -> lex2le l j) /\
    (match Lrem' with [] => True | l :: _ => ~ lex2le l j end) /\ TInv f0 (Lp ++ taken) T'.
Proof.
  induction Lrem as [|i Lr IH]; intros Lp T Lrem' T' HT E; cbn [sweepB_adv] in E.
  - inversion E; subst. exists []. rewrite (app_nil_r Lp). split; auto. split; [intros l []|]. split; auto.
  - destruct (Z.ltb_spec (obj j 0) (obj i 0)) as [H1|H1].
    { inversion E; subst. exists []. rewrite (app_nil_r Lp). split; auto. split; [intros l []|]. split; auto.
      unfold lex2le. lia. }
    destruct ((obj i 0 =? obj j 0)%Z && (obj j 1 <? obj i 1)%Z) eqn:H2.
    { apply andb_true_iff in H2. destruct H2 as [H2 H3]. apply Z.eqb_eq in H2. apply Z.ltb_lt in H3.
      inversion E; subst. exists []. rewrite (app_nil_r Lp). split; auto. split; [intros l []|]. split; auto.
      unfold lex2le. lia. }
    apply andb_false_iff in H2.
    assert (Hi : lex2le i j).
    { unfold lex2le. destruct H2 as [H2|H2]; [apply Z.eqb_neq in H2|apply Z.ltb_ge in H2]; lia. }
    change (sweepB_adv pts Lr j (tupd f0 i T) f0 = (Lrem', T')) in E.
    destruct (IH (Lp ++ [i]) _ _ _ (TInv_step f0 Lp T i HT) E) as [taken [A [B [C Dd]]]].
    exists (i :: taken). split; [cbn; now f_equal|]. split; [intros l [<-|Hl]; auto|]. split; auto.
    rewrite <- app_assoc in Dd. exact Dd.
Qed.

Lemma wdomb2_iff l h : (l < n)%nat -> (h < n)%nat -> (wdomb 2 l h = true <-> W 2 l h).
Proof. intros. apply wdomb_iff; auto. Qed.

Lemma sweepB_loop L f0 : incr L -> fpos f0 ->
  forall Hr Hp Lp Lrem T f, incr (Hp ++ Hr) -> (forall x, In x (Hp ++ Hr) -> ~ In x L) ->
    L = Lp ++ Lrem -> TInv f0 Lp T ->
    (forall l h, In l Lp -> In h Hr -> lex2le l h) ->
    length f = length f0 -> (forall x, ~ In x Hp -> frt_of f x = frt_of f0 x) ->
    (forall h, In h Hp -> frt_of f h =
       Nat.max (frt_of f0 h) (mxf (fun l => frt_of f0 l + 1) (fun l => wdomb 2 l h) L)) ->
    let f' := snd (fold_left (sweepB_step pts) Hr (Lrem, T, f)) in
    length f' = length f0 /\ (forall x, ~ In x (Hp ++ Hr) -> frt_of f' x = frt_of f0 x) /\
    forall h, In h (Hp ++ Hr) -> frt_of f' h =
       Nat.max (frt_of f0 h) (mxf (fun l => frt_of f0 l + 1) (fun l => wdomb 2 l h) L).
Proof.
  intros HL [Hf0 Hpos]. induction Hr as [|j Hr IH]; intros Hp Lp Lrem T f HH Hdisj EL HT Hlex2 Hlen' Hout Hin; cbn [fold_left].
  - cbn [snd]. rewrite app_nil_r in *. auto.
  - destruct (incr_app _ _ HH) as [HHp [HHr Hord]].
    destruct (incr_cons _ _ HHr) as [Hjn [HHr' Hjlt]].
    assert (HjL : ~ In j L) by (apply Hdisj, in_or_app; right; now left).
    assert (HjHp : ~ In j Hp).
    { intros Hc. specialize (Hord j j Hc (or_introl eq_refl)). lia. }
    assert (HLn : forall l, In l L -> (l < n)%nat) by (intros l Hl; apply HL; auto).
    cbn [sweepB_step].
    rewrite (sweepB_adv_ext j Lrem T f f0).
    2:{ intros i Hi. apply Hout. intros Hc. apply (Hdisj i); [apply in_or_app; auto|]. rewrite EL. apply in_or_app; auto. }
    destruct (sweepB_adv pts Lrem j T f0) as [Lrem' T'] eqn:E.
    destruct (sweepB_adv_spec f0 j Lrem Lp T Lrem' T' HT E) as [taken [ELr [Htk [Hhd HT']]]].
    set (r := tquery T' (obj j 1)).
    assert (Hproc : forall l, In l (Lp ++ taken) -> lex2le l j).
    { intros l Hl. apply in_app_or in Hl. destruct Hl; auto. apply Hlex2; auto. now left. }
    assert (Hr_eq : r = mxf (frt_of f0) (fun l => wdomb 2 l j) L).
    { unfold r. destruct HT' as [TA [TB TC]]. apply tquery_char.
      - intros q z Hqz Hz. destruct (TB q z Hqz) as [l [Hl [Hq Ho]]]. subst q.
        assert (HlL : In l L).
        { rewrite EL, ELr. rewrite app_assoc. apply in_or_app. auto. }
        apply mxf_ge; auto. apply wdomb2_iff; auto. apply lex2le_W2; auto. lia.
      - destruct (mxf_att (frt_of f0) (fun l => wdomb 2 l j) L) as [H0|[x [Hx [Hw Hv]]]]; [now left|right].
        apply wdomb2_iff in Hw; auto.
        assert (Hxp : In x (Lp ++ taken)).
        { rewrite EL, ELr, app_assoc in Hx. apply in_app_or in Hx. destruct Hx as [Hx|Hx]; auto. exfalso.
          destruct Lrem' as [|hd tl]; [destruct Hx|]. apply Hhd.
          destruct Hx as [<-|Hx]; [apply W2_lex2le; auto|].
          apply (lex2le_trans hd x j); [|apply W2_lex2le; auto].
          apply lex2_of_lt. rewrite EL, ELr, app_assoc in HL. destruct (incr_app _ _ HL) as [_ [HLr _]].
          destruct (incr_cons _ _ HLr) as [_ [[_ HB] Hlt]]. split; auto. }
        destruct (TC x Hxp) as [v [H1 H2]]. exists v. rewrite <- Hv. split; auto.
        pose proof (proj1 (lex2le_W2 x j (Hproc x Hxp)) Hw). lia. }
    set (f1 := if 0 <? r then raise f j (r + 1) else f).
    assert (L1 : length f1 = length f0).
    { unfold f1. destruct (0 <? r); auto. rewrite raise_length. auto. }
    assert (O1 : forall x, x <> j -> frt_of f1 x = frt_of f x).
    { intros x Hx. unfold f1. destruct (0 <? r); auto. apply frt_raise_other. auto. }
    assert (J1 : frt_of f1 j = Nat.max (frt_of f0 j) (mxf (fun l => frt_of f0 l + 1) (fun l => wdomb 2 l j) L)).
    { rewrite mxf_succ by (intros x Hx _; apply Hpos; auto). rewrite <- Hr_eq.
      rewrite <- (Hout j HjHp). rewrite <- raise_if_max. unfold f1. destruct (0 <? r); auto.
      apply frt_raise_same. lia. }
    specialize (IH (Hp ++ [j]) (Lp ++ taken) Lrem' T' f1). rewrite <- app_assoc in IH. cbn [app] in IH.
    apply IH; auto.
    + rewrite EL, ELr. now rewrite app_assoc.
    + intros l h Hl Hh. apply (lex2le_trans l j h); auto. apply lex2_of_lt. split; auto. apply HHr'. auto.
    + intros x Hx. rewrite O1; [apply Hout|]; intros Hc; apply Hx, in_or_app; auto. right. subst. now left.
    + intros h Hh. apply in_app_or in Hh. destruct Hh as [Hh|[<-|[]]]; auto.
      rewrite O1; auto. intros ->. contradiction.
Qed.

Lemma sweepB_spec L H f : incr L -> incr H -> (forall x, In x H -> ~ In x L) -> fpos f ->
  SpecB L H 2 f (sweepB pts L H f).
Proof.
  intros HL HH HD Hf. unfold sweepB.
  destruct (sweepB_loop L f HL Hf H [] [] L [] f) as [A [B C]]; auto.
  - split; [constructor|]. split; [intros q v []|intros l []].
  - intros l h [].
  - intros h [].
  - split; auto.
Qed.

(* ---------------------------------------------------------------------------------------- *)
(* sweepA *)
Definition TInvA (f : list nat) (Sp : list nat) (T : tmap) : Prop :=
  (forall q v, In (q, v) T -> exists y, In y Sp /\ frt_of f y = q /\ obj y 1 = v) /\
  (forall y, In y Sp -> exists v, In (frt_of f y, v) T /\ (v <= obj y 1)%Z).

Lemma sdomb2_earlier y x : (y < x < n)%nat -> (exists c, (c < 2)%nat /\ obj y c <> obj x c) ->
  (sdomb 2 y x = true <-> (obj y 1 <= obj x 1)%Z).
Proof.
  intros Hyx Hd. rewrite sdomb_iff by lia. pose proof (lex2_of_lt y x Hyx) as HL. split.
  - intros HD. apply (proj1 (lex2le_W2 y x HL)). apply D_W. auto.
  - intros Hle. apply W_distinct_D; auto. apply (proj2 (lex2le_W2 y x HL)). auto.
Qed.

Lemma sweepA_loop f0 : fpos f0 -> forall Sr Sp T f,
   incr (Sp ++ Sr) -> distinctk 2 (Sp ++ Sr) ->
   TInvA f Sp T -> length f = length f0 ->
   (forall x, frt_of f0 x <= frt_of f x) ->
   (forall x, ~ In x Sp -> frt_of f x = frt_of f0 x) ->
   (forall x, In x Sp -> frt_of f x =
      Nat.max (frt_of f0 x) (mxf (fun y => frt_of f y + 1) (fun y => sdomb 2 y x) Sp)) ->
   SpecA (Sp ++ Sr) 2 f0 (snd (fold_left (sweepA_step pts) Sr (T, f))).
Proof.
  intros [Hf0 Hpos]. induction Sr as [|x Sr IH]; intros Sp T f HS Hdist HT Hlen' Hmono Hout Hin; cbn [fold_left].
  - cbn [snd]. rewrite app_nil_r in *. split; auto.
  - destruct (incr_app _ _ HS) as [HSp [HSr Hord]].
    destruct (incr_cons _ _ HSr) as [Hxn [HSr' Hxlt]].
    assert (HxSp : ~ In x Sp).
    { intros Hc. specialize (Hord x x Hc (or_introl eq_refl)). lia. }
    assert (Hearlier : forall y, In y Sp -> (sdomb 2 y x = true <-> (obj y 1 <= obj x 1)%Z)).
    { intros y Hy. apply sdomb2_earlier.
      - split; auto. apply Hord; auto. now left.
      - apply Hdist; [apply in_or_app; auto|apply in_or_app; right; now left|].
        intros ->. contradiction. }
    assert (HposSp : forall y, In y Sp -> 1 <= frt_of f y).
    { intros y Hy. specialize (Hmono y). specialize (Hpos y (proj2 HSp y Hy)). lia. }
    cbn [sweepA_step].
    set (r := tquery T (obj x 1)).
    assert (Hr_eq : r = mxf (frt_of f) (fun y => sdomb 2 y x) Sp).
    { unfold r. destruct HT as [TB TC]. apply tquery_char.
      - intros q z Hqz Hz. destruct (TB q z Hqz) as [y [Hy [Hq Ho]]]. subst q.
        apply mxf_ge; auto. apply Hearlier; auto. lia.
      - destruct (mxf_att (frt_of f) (fun y => sdomb 2 y x) Sp) as [H0|[y [Hy [Hw Hv]]]]; [now left|right].
        apply Hearlier in Hw; auto. destruct (TC y Hy) as [v [H1 H2]]. exists v. rewrite <- Hv. split; auto. lia. }
    set (f1 := if 0 <? r then raise f x (r + 1) else f).
    assert (L1 : length f1 = length f0).
    { unfold f1. destruct (0 <? r); auto. rewrite raise_length. auto. }
    assert (O1 : forall y, y <> x -> frt_of f1 y = frt_of f y).
    { intros y Hy. unfold f1. destruct (0 <? r); auto. apply frt_raise_other. auto. }
    assert (X1 : frt_of f1 x = Nat.max (frt_of f x) (if 0 <? r then r + 1 else 0)).
    { rewrite <- raise_if_max. unfold f1. destruct (0 <? r); auto. apply frt_raise_same. lia. }
    assert (J1 : frt_of f1 x = Nat.max (frt_of f0 x) (mxf (fun y => frt_of f y + 1) (fun y => sdomb 2 y x) Sp)).
    { rewrite X1, (Hout x HxSp). rewrite mxf_succ by (intros y Hy _; apply HposSp; auto). now rewrite <- Hr_eq. }
    specialize (IH (Sp ++ [x]) (tset (frt_of f1 x) (obj x 1) T) f1). rewrite <- app_assoc in IH. cbn [app] in IH.
    apply IH; auto.
    + (* TInvA *)
      destruct HT as [TB TC]. split.
      * intros q v Hqv. apply tset_In in Hqv. destruct Hqv as [[-> ->]|[Hne Hqv]].
        -- exists x. split; auto. apply in_or_app. right. now left.
        -- destruct (TB q v Hqv) as [y [Hy [H1 H2]]]. exists y. split; [apply in_or_app; auto|].
           split; auto. rewrite O1; auto. intros ->. contradiction.
      * intros y Hy. apply in_app_or in Hy. destruct Hy as [Hy|[<-|[]]].
        -- assert (Hyx : y <> x) by (intros ->; contradiction).
           rewrite (O1 y Hyx). destruct (TC y Hy) as [v [H1 H2]].
           destruct (Nat.eq_dec (frt_of f y) (frt_of f1 x)) as [Eq|Ne].
           ++ exists (obj x 1). split; [apply tset_In; left; auto|].
              destruct (Z.le_gt_cases (obj y 1) (obj x 1)) as [Hle|Hgt]; [|lia]. exfalso.
              apply Hearlier in Hle; auto.
              pose proof (mxf_ge (frt_of f) (fun y => sdomb 2 y x) Sp y Hy Hle) as Hge. rewrite <- Hr_eq in Hge.
              specialize (HposSp y Hy). rewrite X1 in Eq. destruct (Nat.ltb_spec 0 r); lia.
           ++ exists v. split; auto. apply tset_In. right. auto.
        -- exists (obj x 1). split; [apply tset_In; left; auto|lia].
    + intros y. destruct (Nat.eq_dec y x) as [->|Hne].
      * rewrite X1. specialize (Hmono x). lia.
      * rewrite O1; auto.
    + intros y Hy. rewrite O1; [apply Hout|]; intros Hc; apply Hy, in_or_app; auto. right. subst. now left.
    + intros y Hy. apply in_app_or in Hy. destruct Hy as [Hy|[<-|[]]].
      * assert (Hyx : y <> x) by (intros ->; contradiction).
        rewrite (O1 y Hyx), (Hin y Hy). f_equal. apply mxf_ext.
        -- intros z. split; [intros [H1 H2]; split; auto; apply in_or_app; auto|].
           intros [H1 H2]. split; auto. apply in_app_or in H1. destruct H1 as [H1|[<-|[]]]; auto. exfalso.
           apply sdomb_iff in H2; try lia; [|apply HSp; auto].
           apply (later_not_D 2 y x); auto. split; auto. apply Hord; auto. now left.
        -- intros z Hz _. rewrite O1; auto. intros ->. contradiction.
      * rewrite J1. f_equal. apply mxf_ext.
        -- intros z. split; [intros [H1 H2]; split; auto; apply in_or_app; auto|].
           intros [H1 H2]. split; auto. apply in_app_or in H1. destruct H1 as [H1|[<-|[]]]; auto. exfalso.
           apply sdomb_iff in H2; try lia. exact (D_irrefl 2 x H2).
        -- intros z Hz _. rewrite O1; auto. intros ->. contradiction.
Qed.

Lemma sweepA_spec S f : incr S -> distinctk 2 S -> fpos f -> SpecA S 2 f (sweepA pts S f).
Proof.
  intros HS Hd Hf. unfold sweepA. destruct S as [|s0 S']; [split; auto; split; auto; intros x []|].
  destruct (incr_cons _ _ HS) as [Hs0 _].
  apply (sweepA_loop f Hf S' [s0]); auto.
  - split.
    + intros q v [E|[]]. inversion E; subst. exists s0. split; [now left|auto].
    + intros y [<-|[]]. exists (obj s0 1). split; [now left|lia].
  - intros x [<-|[]]. rewrite mxf_none; [lia|].
    intros y [<-|[]]. destruct (sdomb 2 s0 s0) eqn:E; auto. apply sdomb_iff in E; try lia. destruct (D_irrefl 2 s0 E).
Qed.

End DcCtx.
