(* C09 — theorems about the models of C09More.v: DataView lookups on unequal batches,
   DifferenceKernelMatrix (entries, flips, Gram form / symmetry / positive semi-definiteness for the
   linear kernel), GaussianKernelMatrix (distance formula = squared Euclidean distance, norms follow the
   flips), PartlyPrecomputedMatrix (row count, memory bound, every entry = base entry). *)
From Coq Require Import List Arith ZArith Lia Bool Permutation.
From SharkV Require Import ListAux C09Derived C09DerivedProofs C09Comp C09CompProofs C09More C09InstProofs.
Import ListNotations.
Local Open Scope Z_scope.

(* ---------------- finite sums ---------------- *)
Lemma zsum_ext n f g : (forall i, (i < n)%nat -> f i = g i) -> zsum n f = zsum n g.
Proof.
  induction n as [|n IH]; intros H; simpl; auto.
  rewrite IH by (intros; apply H; lia). rewrite H by lia. reflexivity.
Qed.

Lemma zsum_add n f g : zsum n (fun i => f i + g i) = zsum n f + zsum n g.
Proof. induction n as [|n IH]; simpl; [reflexivity|]. rewrite IH. ring. Qed.

Lemma zsum_scal n c f : zsum n (fun i => c * f i) = c * zsum n f.
Proof. induction n as [|n IH]; simpl; [ring|]. rewrite IH. ring. Qed.

Lemma zsum_swap n m (f : nat -> nat -> Z) :
  zsum n (fun i => zsum m (fun j => f i j)) = zsum m (fun j => zsum n (fun i => f i j)).
Proof.
  induction n as [|n IH]; simpl.
  - induction m as [|m IHm]; simpl; [reflexivity|]. rewrite <- IHm. reflexivity.
  - rewrite IH. rewrite <- zsum_add. reflexivity.
Qed.

Lemma zsum_mul n m a b : zsum n a * zsum m b = zsum n (fun i => zsum m (fun j => a i * b j)).
Proof.
  induction n as [|n IH]; simpl; [reflexivity|].
  rewrite Z.mul_add_distr_r, IH, zsum_scal. reflexivity.
Qed.

Lemma zsum_nonneg n f : (forall i, (i < n)%nat -> 0 <= f i) -> 0 <= zsum n f.
Proof.
  induction n as [|n IH]; intros H; simpl; [lia|].
  pose proof (IH ltac:(intros; apply H; lia)). pose proof (H n ltac:(lia)). lia.
Qed.

(* sum_ij c_i c_j <d_i,d_j> = sum_t (sum_i c_i d_it)^2 *)
Lemma quad_form m dim (c : nat -> Z) (d : nat -> nat -> Z) :
  zsum m (fun i => zsum m (fun j => c i * c j * zsum dim (fun t => d i t * d j t))) =
  zsum dim (fun t => zsum m (fun i => c i * d i t) * zsum m (fun i => c i * d i t)).
Proof.
  transitivity (zsum m (fun i => zsum m (fun j => zsum dim (fun t => (c i * d i t) * (c j * d j t))))).
  { apply zsum_ext; intros i _. apply zsum_ext; intros j _. rewrite <- zsum_scal.
    apply zsum_ext; intros t _. ring. }
  transitivity (zsum m (fun i => zsum dim (fun t => zsum m (fun j => (c i * d i t) * (c j * d j t))))).
  { apply zsum_ext; intros i _. apply zsum_swap. }
  rewrite zsum_swap. apply zsum_ext; intros t _. rewrite zsum_mul. reflexivity.
Qed.

Lemma lin_diff dim gi si gj sj :
  lin dim gi gj - lin dim gi sj - lin dim si gj + lin dim si sj =
  zsum dim (fun t => (nth t gi 0 - nth t si 0) * (nth t gj 0 - nth t sj 0)).
Proof. unfold lin. induction dim as [|d IH]; cbn [zsum]; [ring|]. rewrite <- IH. ring. Qed.

Lemma lin_sqdist dim x y :
  lin dim x x - 2 * lin dim x y + lin dim y y = zsum dim (fun t => (nth t x 0 - nth t y 0) * (nth t x 0 - nth t y 0)).
Proof. unfold lin. induction dim as [|d IH]; cbn [zsum]; [ring|]. rewrite <- IH. ring. Qed.

Local Close Scope Z_scope.

(* ---------------- datasets, DataView ---------------- *)
Section DataProofs.
Variable P : Type.
Variable pd : P.

Lemma sum_sizes_min opt rem batches :
  list_sum (map (fun i => if i <? rem then S opt else opt) (seq 0 batches)) = batches * opt + Nat.min rem batches.
Proof.
  induction batches as [|b IH]; [simpl; lia|].
  rewrite seq_S, map_app, list_sum_app, IH. simpl.
  destruct (Nat.ltb_spec b rem); lia.
Qed.

Lemma sum_sizes opt rem batches : rem <= batches ->
  list_sum (map (fun i => if i <? rem then S opt else opt) (seq 0 batches)) = batches * opt + rem.
Proof. intros H. rewrite sum_sizes_min. lia. Qed.

(* the batches made by createDataFromRange hold all points: sizes sum up to the number of points;
   they differ by at most one (UNEQUAL whenever the batch count does not divide it) *)
Theorem batch_sizes_spec npts mb l :
  batch_sizes npts mb = Some l ->
  list_sum l = npts /\ 0 < npts /\
  exists opt, 0 < opt /\ forall s, In s l -> s = opt \/ s = S opt.
Proof.
  unfold batch_sizes. set (m := if mb =? 0 then 256 else mb).
  set (b1 := npts / m). set (batches := if b1 * m <? npts then S b1 else b1).
  destruct (Nat.eqb_spec batches 0) as [|Hb]; [discriminate|]. intros E. inversion E; subst l; clear E.
  set (opt := npts / batches). set (rem := npts - batches * opt).
  assert (Hm : m <> 0) by (unfold m; destruct (Nat.eqb_spec mb 0); lia).
  assert (Hrem : rem < batches).
  { unfold rem, opt. pose proof (Nat.mod_upper_bound npts batches Hb). rewrite Nat.mod_eq in H by auto. exact H. }
  assert (Hle : batches * opt <= npts) by (apply Nat.mul_div_le; auto).
  assert (Hn : 0 < npts).
  { destruct (Nat.eq_dec npts 0) as [Z|]; [|lia]. exfalso. apply Hb. unfold batches, b1. rewrite Z.
    rewrite Nat.div_0_l by auto. simpl. reflexivity. }
  assert (Hopt : 0 < opt).
  { unfold opt. apply Nat.div_str_pos. split; [lia|].
    unfold batches, b1. pose proof (Nat.mul_div_le npts m Hm).
    destruct (Nat.ltb_spec (npts / m * m) npts) as [Hlt|Hge].
    - destruct (Nat.eq_dec (npts / m) 0) as [Z|Z]; [rewrite Z; lia|].
      assert (1 <= m) by lia. assert (npts / m < npts / m * m \/ m = 1) as [?|E1] by nia; [lia|].
      rewrite E1, Nat.div_1_r, Nat.mul_1_r in Hlt. lia.
    - nia. }
  split; [rewrite sum_sizes by lia; unfold rem; lia|]. split; [exact Hn|].
  exists opt. split; [exact Hopt|]. intros s Hs. apply in_map_iff in Hs. destruct Hs as (i & <- & _).
  destruct (i <? rem); auto.
Qed.

Lemma split_concat sizes (pts : list P) :
  list_sum sizes = length pts -> concat (split_batches P sizes pts) = pts.
Proof.
  revert pts; induction sizes as [|s r IH]; intros pts H; simpl in *.
  - destruct pts; simpl in *; [reflexivity|lia].
  - rewrite IH; [apply firstn_skipn|]. rewrite skipn_length. lia.
Qed.

(* DataView: (batch, positionInBatch) of element p points at the p-th element of the dataset *)
Lemma view_lookup_gen bs : forall pre p, p < length (concat bs) ->
  elem P pd (pre ++ bs) (nth p (view_from P (length pre) bs) (0, 0)) = nth p (concat bs) pd.
Proof.
  induction bs as [|b r IH]; intros pre p Hp; simpl in *; [lia|].
  rewrite app_length in Hp.
  destruct (Nat.lt_ge_cases p (length b)) as [Hlt|Hge].
  - rewrite app_nth1 by (rewrite map_length, seq_length; exact Hlt).
    rewrite nth_indep with (d' := pair (length pre) 0) by (rewrite map_length, seq_length; exact Hlt).
    rewrite map_nth, seq_nth by exact Hlt. unfold elem. simpl.
    rewrite nth_middle. rewrite app_nth1 by exact Hlt. reflexivity.
  - rewrite app_nth2 by (rewrite map_length, seq_length; exact Hge).
    rewrite map_length, seq_length. rewrite (app_nth2 b) by exact Hge.
    specialize (IH (pre ++ [b]) (p - length b)).
    rewrite app_length, Nat.add_1_r, <- app_assoc in IH. simpl in IH. apply IH. lia.
Qed.

Theorem view_lookup bs p : p < length (concat bs) ->
  elem P pd bs (nth p (view_index P bs) (0, 0)) = nth p (concat bs) pd.
Proof. intros H. apply (view_lookup_gen bs [] p H). Qed.

Lemma view_length bs : forall i, length (view_from P i bs) = length (concat bs).
Proof.
  induction bs as [|b r IH]; intros i; simpl; auto.
  rewrite !app_length, map_length, seq_length, IH. reflexivity.
Qed.

(* ---------------- DifferenceKernelMatrix ---------------- *)
Variable k : P -> P -> Z.

Definition pairs_ok (npts : nat) (pairs : list (nat * nat)) : Prop :=
  forall sg, In sg pairs -> fst sg < npts /\ snd sg < npts.

(* the entry in terms of the points the pairs name, for datasets with ANY batch structure *)
Theorem dk_init_entry bs pairs i j :
  let pts := concat bs in
  pairs_ok (length pts) pairs -> i < length pairs -> j < length pairs ->
  let s_ x := nth (fst (nth x pairs (0, 0))) pts pd in
  let g_ x := nth (snd (nth x pairs (0, 0))) pts pd in
  dk_entry P pd k (dk_init P bs pairs) i j =
  (k (g_ i) (g_ j) - k (g_ i) (s_ j) - k (s_ i) (g_ j) + k (s_ i) (s_ j))%Z.
Proof.
  intros pts OK Hi Hj s_ g_. unfold dk_entry, dk_init. simpl.
  set (f := fun sg : nat * nat => (nth (fst sg) (view_index P bs) (0, 0), nth (snd sg) (view_index P bs) (0, 0))).
  assert (N : forall x, x < length pairs -> nth x (map f pairs) tup0 = f (nth x pairs (0, 0))).
  { intros x Hx. rewrite nth_indep with (d' := f (0, 0)) by (rewrite map_length; exact Hx). apply map_nth. }
  rewrite !N by auto. unfold f. simpl.
  assert (Ii : In (nth i pairs (0, 0)) pairs) by (apply nth_In; exact Hi).
  assert (Ij : In (nth j pairs (0, 0)) pairs) by (apply nth_In; exact Hj).
  destruct (OK _ Ii) as [A1 A2]. destruct (OK _ Ij) as [B1 B2].
  rewrite !view_lookup by assumption. fold pts. unfold s_, g_. ring.
Qed.

Lemma dk_flip_aware : flip_aware (M := dk_ops P pd k) (fun _ => True).
Proof.
  constructor; simpl; auto.
  - intros b i j _ _ _. unfold dk_size, dk_flip. simpl. apply swapl_length.
  - intros b i j a c _ Hi Hj _ _. unfold dk_entry, dk_flip, dk_size in *. simpl.
    rewrite !nth_swapl by assumption. reflexivity.
Qed.

Lemma dk_mat_ok s : mat_ok (M := dk_ops P pd k) s.
Proof. reflexivity. Qed.

Lemma dk_init_size bs pairs : dk_size P (dk_init P bs pairs) = length pairs.
Proof. unfold dk_size, dk_init. simpl. apply map_length. Qed.
End DataProofs.

(* linear kernel on integer points: Gram matrix of the difference features *)
Section DiffLinear.
Variable dim : nat.
Variable bs : list (list (list Z)).
Variable pairs : list (nat * nat).
Hypothesis OK : pairs_ok (length (concat bs)) pairs.
Local Notation m := (length pairs).
Local Notation pts := (concat bs).

(* difference feature of pair x, coordinate t:  g_x - s_x *)
Definition pt_s (x : nat) : list Z := nth (fst (nth x pairs (0, 0))) pts [].
Definition pt_g (x : nat) : list Z := nth (snd (nth x pairs (0, 0))) pts [].
Definition dfeat (x t : nat) : Z := (nth t (pt_g x) 0 - nth t (pt_s x) 0)%Z.

Theorem dk_linear_gram i j : i < m -> j < m ->
  dk_entry _ [] (lin dim) (dk_init _ bs pairs) i j = zsum dim (fun t => (dfeat i t * dfeat j t)%Z).
Proof.
  intros Hi Hj. rewrite dk_init_entry by assumption. cbv zeta.
  rewrite lin_diff. reflexivity.
Qed.

Theorem dk_linear_symmetric i j : i < m -> j < m ->
  dk_entry _ [] (lin dim) (dk_init _ bs pairs) i j = dk_entry _ [] (lin dim) (dk_init _ bs pairs) j i.
Proof.
  intros Hi Hj. rewrite !dk_linear_gram by assumption. apply zsum_ext. intros t _. apply Z.mul_comm.
Qed.

Theorem dk_linear_psd (c : nat -> Z) :
  (0 <= zsum m (fun i => zsum m (fun j => c i * c j * dk_entry _ [] (lin dim) (dk_init _ bs pairs) i j)))%Z.
Proof.
  rewrite (zsum_ext m _ (fun i => zsum m (fun j => (c i * c j * zsum dim (fun t => dfeat i t * dfeat j t))%Z))).
  2:{ intros i Hi. apply zsum_ext. intros j Hj. rewrite dk_linear_gram by assumption. reflexivity. }
  rewrite quad_form. apply zsum_nonneg. intros t _. apply Z.square_nonneg.
Qed.
End DiffLinear.

(* ---------------- GaussianKernelMatrix ---------------- *)
Section GaussProofs.
Variable V : Type.
Variable ex : Z -> V.
Variable vd : V.
Variable dim : nat.

Definition gk_okP (s : gkm) : Prop := length (g_n s) = length (g_x s).
(* the norms belong to the points *)
Definition gk_norms_ok (s : gkm) : Prop := g_n s = map (fun x => lin dim x x) (g_x s).

Lemma gk_init_norms pts : gk_norms_ok (gk_init dim pts).
Proof. reflexivity. Qed.

Lemma gk_flip_norms i j s : gk_norms_ok s -> i < gk_size s -> j < gk_size s -> gk_norms_ok (gk_flip i j s).
Proof.
  unfold gk_norms_ok, gk_flip, gk_size. intros H Hi Hj. simpl. rewrite H.
  apply swapl_map'; assumption.
Qed.

(* distance formula as coded = squared Euclidean distance, whenever the norms belong to the points *)
Theorem gk_dist_spec s i j : gk_norms_ok s -> i < gk_size s -> j < gk_size s ->
  gk_dist dim s i j =
  zsum dim (fun t => ((nth t (nth i (g_x s) []) 0 - nth t (nth j (g_x s) []) 0) *
                      (nth t (nth i (g_x s) []) 0 - nth t (nth j (g_x s) []) 0))%Z).
Proof.
  unfold gk_norms_ok, gk_size, gk_dist. intros H Hi Hj. rewrite H.
  set (f := fun x : list Z => lin dim x x).
  rewrite (nth_indep (map f (g_x s)) 0%Z (f []) (n := i)) by (rewrite map_length; assumption).
  rewrite (nth_indep (map f (g_x s)) 0%Z (f []) (n := j)) by (rewrite map_length; assumption).
  rewrite !map_nth. unfold f. apply lin_sqdist.
Qed.

Lemma gk_flip_aware : flip_aware (M := gk_ops V ex vd dim) gk_okP.
Proof.
  constructor; simpl.
  - intros b i j OK _ _. unfold gk_okP, gk_flip in *. simpl. rewrite !swapl_length. exact OK.
  - intros b i j _ _ _. unfold gk_size, gk_flip. simpl. apply swapl_length.
  - intros b i j a c OK Hi Hj _ _. unfold gk_entry, gk_dist, gk_flip, gk_size, gk_okP in *. simpl.
    rewrite !nth_swapl by lia. reflexivity.
  - intros b k a e _ _ _. reflexivity.
Qed.

Lemma gk_mat_ok s : mat_ok (M := gk_ops V ex vd dim) s.
Proof.
  unfold mat_ok. simpl. unfold gk_mat, gk_row. rewrite Nat.sub_0_r. reflexivity.
Qed.

Lemma gk_init_ok pts : gk_okP (gk_init dim pts).
Proof. unfold gk_okP, gk_init. simpl. apply map_length. Qed.

(* entry of the freshly constructed matrix: ex(|x_i - x_j|^2) *)
Theorem gk_init_entry pts i j : i < length pts -> j < length pts ->
  gk_entry V ex dim (gk_init dim pts) i j =
  ex (zsum dim (fun t => ((nth t (nth i pts []) 0 - nth t (nth j pts []) 0) *
                          (nth t (nth i pts []) 0 - nth t (nth j pts []) 0))%Z)).
Proof.
  intros Hi Hj. unfold gk_entry. rewrite gk_dist_spec; auto. apply gk_init_norms.
Qed.
End GaussProofs.

(* ---------------- PartlyPrecomputedMatrix ---------------- *)
Section PartlyProofs.
Context {V B : Type} {M : MatOps V B}.

Theorem pp_init_spec w cb (b : B) :
  let n := bsize b in
  match pp_init w cb b with
  | PPdiv0 => n * w = 0
  | PPexc => n * w <> 0 /\ cb < n * w
  | PPok tab =>
      n * w <> 0 /\ length tab = Nat.min n (cb / (n * w)) /\ 1 <= length tab /\
      length tab * (n * w) <= cb /\
      pp_max_cache_size b tab * w <= cb /\
      (forall k, pp_is_cached tab k = true <-> k < length tab) /\
      (forall i j, i < n -> j < n -> pp_entry b tab i j = bentry b i j) /\
      (forall k, k < n -> pp_row b tab k = map (bentry b k) (seq 0 n))
  end.
Proof.
  intros n. unfold pp_init. fold n.
  destruct (Nat.eqb_spec (n * w) 0) as [Z|NZ]; [exact Z|].
  destruct (Nat.eqb_spec (cb / (n * w)) 0) as [Z|RZ].
  { split; [exact NZ|]. apply Nat.div_small_iff in Z; auto. }
  set (r := cb / (n * w)) in *. set (r' := if n <? r then n else r).
  assert (Hr' : r' = Nat.min n r) by (unfold r'; destruct (Nat.ltb_spec n r); lia).
  set (tab := map (fun i => map (bentry b i) (seq 0 n)) (seq 0 r')).
  assert (LT : length tab = r') by (unfold tab; rewrite map_length, seq_length; reflexivity).
  assert (Hn : 0 < n) by (destruct n; simpl in NZ; lia).
  assert (Hrb : r * (n * w) <= cb) by (unfold r; rewrite Nat.mul_comm; apply Nat.mul_div_le; exact NZ).
  assert (ROW : forall i, i < r' -> nth i tab [] = map (bentry b i) (seq 0 n)).
  { intros i Hi. unfold tab. apply (nth_map_seq (fun i => map (bentry b i) (seq 0 n))). exact Hi. }
  split; [exact NZ|]. split; [rewrite LT; exact Hr'|]. split; [rewrite LT; lia|].
  assert (MB : length tab * (n * w) <= cb) by (rewrite LT; nia).
  split; [exact MB|]. split; [unfold pp_max_cache_size; fold n; lia|].
  split; [intros k; unfold pp_is_cached; apply Nat.ltb_lt|].
  split.
  - intros i j Hi Hj. unfold pp_entry, pp_is_cached. rewrite LT.
    destruct (Nat.ltb_spec i r') as [Hc|Hc]; [|reflexivity].
    rewrite ROW by exact Hc. apply (nth_map_seq_gen (bentry b i) 0 n j gv Hj).
  - intros k Hk. unfold pp_row, pp_is_cached. rewrite LT. fold n.
    destruct (Nat.ltb_spec k r') as [Hc|Hc]; [|reflexivity].
    rewrite ROW by exact Hc. apply map_seq_ext. intros c Hc'. simpl.
    apply (nth_map_seq_gen (bentry b k) 0 n c gv Hc').
Qed.
End PartlyProofs.
