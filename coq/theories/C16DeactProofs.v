(* C16 — deactivateVariable / deactivateExample move data, they do not change it: per-variable data (alpha, linear
   term, diagonal entry, gradient) travels with the variable, per-example data (data-set index, label, varsum) with
   the example; the gradient invariant on the (smaller) active set, the constraints and the dual objective are kept;
   the example table stays a permutation with consistent cross indices (deact_ex_tab). *)
From Coq Require Import QArith Qminmax Lqa Arith Bool List Lia.
From SharkV Require Import C08Model C08Defs C08Aux C08Proofs C16Model C16State C16Proofs C16ProofsMc C16StateDefs
  C16GradProofs C16SmoSimplexProofs C16TablesProofs.
Import ListNotations.
Open Scope Q_scope.

Lemma objf_ext3 m (K K' : nat -> nat -> Q) (ln ln' al al' : nat -> Q) :
  (forall a, (a < m)%nat -> ln a == ln' a) -> (forall a, (a < m)%nat -> al a == al' a) ->
  (forall a b, (a < m)%nat -> (b < m)%nat -> K a b == K' a b) ->
  objf m K ln al == objf m K' ln' al'.
Proof.
  intros H1 H2 H3. unfold objf, Kv.
  rewrite (sumn_ext m (fun a => ln a * al a) (fun a => ln' a * al' a))
    by (intros a Ha; rewrite (H1 a Ha), (H2 a Ha); reflexivity).
  rewrite (sumn_ext m (fun a => al a * sumn m (fun b => K a b * al b)) (fun a => al' a * sumn m (fun b => K' a b * al' b))).
  - reflexivity.
  - intros a Ha. rewrite (H2 a Ha).
    rewrite (sumn_ext m (fun b => K a b * al b) (fun b => K' a b * al' b))
      by (intros b Hb; rewrite (H2 b Hb), (H3 a b Ha Hb); reflexivity).
    reflexivity.
Qed.

Section Deact.
Variable P ncl n : nat.
Variable C : Q.
Variable Mrow : nat -> list (nat * Q).
Variable Mdef : nat -> Q.
Variable K0 : nat -> nat -> Q.

Notation Inv_tab := (Inv_tab P n).
Notation nv := (nv P n).
Notation Qe := (Qe P ncl Mrow Mdef K0).
Notation Qalpha := (Qalpha P ncl n Mrow Mdef K0).
Notation Inv_grad := (Inv_grad P ncl n Mrow Mdef K0).
Notation mobj := (mobj P ncl n Mrow Mdef K0).
Notation Inv_data := (Inv_data P ncl n Mrow Mdef K0).
Notation Inv_boxc := (Inv_boxc P n C).
Notation Inv_simplex := (Inv_simplex P n C).

(* per-variable and per-example data are the same, up to the position of the example in the table *)
Definition same_vars (s s' : qmst) : Prop :=
  forall e, (e < n)%nat -> exists e', (e' < n)%nat /\
    eorig s' e' = eorig s e /\ ey s' e' = ey s e /\ evsum s' e' = evsum s e /\ ediag s' e' = ediag s e /\
    forall p, (p < P)%nat ->
      malpha s' (evar s' e' p) = malpha s (evar s e p) /\
      mlin s' (evar s' e' p) = mlin s (evar s e p) /\
      vdiag s' (evar s' e' p) = vdiag s (evar s e p) /\
      ((evar s' e' p < actvar s')%nat -> (evar s e p < actvar s)%nat /\ mgrad s' (evar s' e' p) = mgrad s (evar s e p)).

Lemma same_vars_refl s : same_vars s s.
Proof. intros e He. exists e. repeat split; auto. Qed.

Lemma same_vars_trans s1 s2 s3 : same_vars s1 s2 -> same_vars s2 s3 -> same_vars s1 s3.
Proof.
  intros H1 H2 e He. destruct (H1 e He) as (e' & He' & A1 & A2 & A3 & A4 & A5).
  destruct (H2 e' He') as (e'' & He'' & B1 & B2 & B3 & B4 & B5).
  exists e''. split; [exact He''|]. repeat split; try congruence.
  - destruct (A5 p H) as (X & _). destruct (B5 p H) as (Y & _). congruence.
  - destruct (A5 p H) as (_ & X & _). destruct (B5 p H) as (_ & Y & _). congruence.
  - destruct (A5 p H) as (_ & _ & X & _). destruct (B5 p H) as (_ & _ & Y & _). congruence.
  - destruct (A5 p H) as (_ & _ & _ & X). destruct (B5 p H) as (_ & _ & _ & Y). destruct (Y H0) as (Y1 & _). apply (X Y1).
  - destruct (A5 p H) as (_ & _ & _ & X). destruct (B5 p H) as (_ & _ & _ & Y). destruct (Y H0) as (Y1 & Y2).
    destruct (X Y1) as (_ & X2). congruence.
Qed.

(* ---------------- deactivateVariable ---------------- *)
Section DeactVar.
Variable s : qmst.
Variable v : nat.
Hypothesis I : Inv_tab s.
Hypothesis Hv : (v < actvar s)%nat.
Let j := (actvar s - 1)%nat.
Let sg := sw v j.
Let s' := deact_var s v.

Lemma Qe_deact_var a b : Qe s' a b = Qe s (sg a) (sg b).
Proof.
  destruct (dv_counts s v) as (_ & _ & K3 & K4 & _).
  unfold s', Qe. rewrite !dv_vex, !dv_vp, K3, K4. reflexivity.
Qed.

Lemma sg_lt' x : (x < nv)%nat -> (sg x < nv)%nat.
Proof. apply (sg_lt P n s v I Hv). Qed.

Lemma deact_var_data y0 lin0 : Inv_data y0 lin0 s -> Inv_data y0 lin0 s'.
Proof.
  intros [D1 D2]. destruct (dv_counts s v) as (_ & _ & K3 & K4 & _ & K6 & _). split.
  - intros e He. unfold s'. rewrite K3, K4, K6. apply D1. exact He.
  - intros x Hx. destruct (D2 (sg x) (sg_lt' x Hx)) as [A B]. split.
    + unfold s'. rewrite dv_lin, dv_vex, dv_vp, K3. exact A.
    + rewrite Qe_deact_var. unfold s'. rewrite dv_diag. exact B.
Qed.

Lemma Qalpha_deact_var f : Qalpha s' f == Qalpha s (sg f).
Proof.
  unfold C16StateDefs.Qalpha.
  rewrite (sumn_ext nv (fun w => Qe s' w f * malpha s' w) (fun w => (fun w' => Qe s w' (sg f) * malpha s w') (sw v j w))).
  - apply (sumn_sw nv v j (fun w' => Qe s w' (sg f) * malpha s w')); [apply (dv_vn P n s v I Hv) | apply (dv_jn P n s v I Hv)].
  - intros w _. cbv beta. rewrite Qe_deact_var. unfold s'. rewrite dv_alpha. reflexivity.
Qed.

Lemma deact_var_grad : Inv_grad s -> Inv_grad s'.
Proof.
  intros G f Hf. destruct (dv_counts s v) as (K1 & _). unfold s' in Hf. rewrite K1 in Hf.
  rewrite Qalpha_deact_var. unfold s'. rewrite dv_grad, dv_lin. apply G.
  pose proof (dv_ja s v Hv). unfold sg, sw, j. destruct (f =? v)%nat; [assumption|]. destruct (f =? (actvar s - 1))%nat; [assumption|lia].
Qed.

Lemma deact_var_obj : mobj s' == mobj s.
Proof.
  unfold C16StateDefs.mobj.
  rewrite <- (objf_sw nv (Qe s) (mlin s) (malpha s) (fun a b => Qe s (sg a) (sg b)) v j
               (dv_vn P n s v I Hv) (dv_jn P n s v I Hv)) by (intros; reflexivity).
  unfold objf, Kv.
  rewrite (sumn_ext nv (fun a => mlin s' a * malpha s' a) (fun a => mlin s (sw v j a) * malpha s (sw v j a)))
    by (intros a _; unfold s'; rewrite dv_lin, dv_alpha; reflexivity).
  rewrite (sumn_ext nv (fun a => malpha s' a * sumn nv (fun b => Qe s' a b * malpha s' b))
                       (fun a => malpha s (sw v j a) * sumn nv (fun b => Qe s (sg a) (sg b) * malpha s (sw v j b)))).
  - reflexivity.
  - intros a _. unfold s' at 1. rewrite dv_alpha.
    rewrite (sumn_ext nv (fun b => Qe s' a b * malpha s' b) (fun b => Qe s (sg a) (sg b) * malpha s (sw v j b)))
      by (intros b _; rewrite Qe_deact_var; unfold s'; rewrite dv_alpha; reflexivity).
    reflexivity.
Qed.

Lemma deact_var_same : same_vars s s'.
Proof.
  destruct (dv_counts s v) as (K1 & _ & K3 & K4 & K5 & K6 & _).
  intros e He. exists e. split; [exact He|]. unfold s'. rewrite K3, K4, K5, K6.
  repeat split; try reflexivity.
  - rewrite (dv_evar P n s v I Hv), dv_alpha by assumption. unfold sg. rewrite sw_invol. reflexivity.
  - rewrite (dv_evar P n s v I Hv), dv_lin by assumption. unfold sg. rewrite sw_invol. reflexivity.
  - rewrite (dv_evar P n s v I Hv), dv_diag by assumption. unfold sg. rewrite sw_invol. reflexivity.
  - rewrite (dv_evar P n s v I Hv), K1 in H0 by assumption. apply (sg_active s v Hv) in H0. apply H0.
  - rewrite (dv_evar P n s v I Hv), dv_grad by assumption. unfold sg. rewrite sw_invol. reflexivity.
Qed.

(* exactly the variable v leaves the active set *)
Lemma deact_var_active e p : (e < n)%nat -> (p < P)%nat ->
  ((evar s' e p < actvar s')%nat <-> (evar s e p < actvar s)%nat /\ evar s e p <> v).
Proof.
  intros He Hp. destruct (dv_counts s v) as (K1 & _). unfold s'. rewrite (dv_evar P n s v I Hv), K1 by assumption.
  apply (sg_active s v Hv).
Qed.

Lemma deact_var_valpha e p : (e < n)%nat -> (p < P)%nat -> valpha s' (malpha s') e p = valpha s (malpha s) e p.
Proof.
  intros He Hp. unfold valpha, s'. rewrite (dv_evar P n s v I Hv), dv_alpha by assumption. unfold sg. rewrite sw_invol. reflexivity.
Qed.

Lemma deact_var_boxc : Inv_boxc s -> Inv_boxc s'.
Proof. intros B x Hx. unfold s'. rewrite dv_alpha. apply B. apply sg_lt'. exact Hx. Qed.

Lemma deact_var_simplex : Inv_simplex s -> Inv_simplex s'.
Proof.
  intros SI e He. destruct (dv_counts s v) as (_ & _ & _ & _ & K5 & _).
  assert (E : evsum s' e = evsum s e) by (unfold s'; rewrite K5; reflexivity). rewrite E.
  apply (ExInv_ext_lt P C (valpha s (malpha s) e)); [|apply SI; exact He].
  intros q Hq. symmetry. apply deact_var_valpha; assumption.
Qed.

End DeactVar.

(* ---------------- deactivateExample ---------------- *)
Section DeactEx.
Variable s : qmst.
Variable e : nat.
Hypothesis I : Inv_tab s.
Hypothesis He : (e < actex s)%nat.
Hypothesis Hz : eact s e = 0%nat.           (* the solvers only remove an example without active variables *)
Let j := (actex s - 1)%nat.
Let rho := sw e j.
Let s' := deact_ex P s e.

Lemma de_en : (e < n)%nat. Proof. pose proof (it_ae _ _ _ I). lia. Qed.
Lemma de_jn : (j < n)%nat. Proof. pose proof (it_ae _ _ _ I). unfold j. lia. Qed.
Lemma rho_lt a : (a < n)%nat -> (rho a < n)%nat.
Proof. intros. apply sw_lt; [exact de_en | exact de_jn | assumption]. Qed.

(* no active variable belongs to e *)
Lemma de_noact x : (x < actvar s)%nat -> vex s x <> e.
Proof.
  intros Hx E. assert (Hxn : (x < nv)%nat) by (pose proof (it_av _ _ _ I); lia).
  destruct (it_v _ _ _ I x Hxn) as (A & _ & B & _ & D).
  assert (X : (vidx s x < eact s (vex s x))%nat) by (apply (it_act _ _ _ I _ _ A B); rewrite D; exact Hx).
  rewrite E, Hz in X. lia.
Qed.

Lemma relabel_spec : e <> j -> forall m, (m <= P)%nat -> forall x, (x < nv)%nat ->
  relabel (vex s) (evar s j) (evar s e) e j m x =
  if (vex s x =? j)%nat && (vp s x <? m)%nat then e
  else if (vex s x =? e)%nat && (vp s x <? m)%nat then j else vex s x.
Proof.
  intros Nej. induction m as [|k IH]; intros Hm x Hx.
  - cbn [relabel]. rewrite !andb_false_r. reflexivity.
  - cbn [relabel]. assert (Hk : (k < P)%nat) by lia.
    pose proof (evar_eq P n s e k x I de_en Hk Hx) as Qe1. pose proof (evar_eq P n s j k x I de_jn Hk Hx) as Qj1.
    unfold updf at 1. destruct (Nat.eqb_spec x (evar s e k)) as [E1|N1].
    + symmetry in E1. apply Qe1 in E1. destruct E1 as [E1 E2]. rewrite <- E1, <- E2.
      destruct (Nat.eqb_spec e j); [contradiction|]. cbn [andb]. rewrite Nat.eqb_refl.
      destruct (Nat.ltb_spec k (S k)); [reflexivity|lia].
    + unfold updf at 1. destruct (Nat.eqb_spec x (evar s j k)) as [E1|N2].
      * symmetry in E1. apply Qj1 in E1. destruct E1 as [E1 E2]. rewrite <- E1, <- E2. rewrite Nat.eqb_refl.
        destruct (Nat.ltb_spec k (S k)); [reflexivity|lia].
      * rewrite IH by (try assumption; lia).
        destruct (Nat.eqb_spec (vex s x) j) as [E1|_]; cbn [andb].
        -- assert (vp s x <> k) by (intro E2; apply N2; symmetry; apply Qj1; split; symmetry; assumption).
           destruct (Nat.ltb_spec (vp s x) k), (Nat.ltb_spec (vp s x) (S k)); try lia; reflexivity.
        -- destruct (Nat.eqb_spec (vex s x) e) as [E1|_]; cbn [andb]; [|reflexivity].
           assert (vp s x <> k) by (intro E2; apply N1; symmetry; apply Qe1; split; symmetry; assumption).
           destruct (Nat.ltb_spec (vp s x) k), (Nat.ltb_spec (vp s x) (S k)); try lia; reflexivity.
Qed.

(* fields of the new state when two different examples are exchanged *)
Section Swap.
Hypothesis Nej : e <> j.

Lemma de_unfold : s' =
  mkst (malpha s) (mgrad s) (mlin s) (relabel (vex s) (evar s j) (evar s e) e j P) (vp s) (vidx s) (vdiag s)
       (swapf (eorig s) e j) (swapf (ey s) e j) (swapf (eact s) e j) (swapf (evar s) e j) (swapf (eavar s) e j)
       (swapf (evsum s) e j) (swapf (ediag s) e j) j (actvar s) (munshr s).
Proof.
  unfold s', deact_ex. fold j. destruct (Nat.eqb_spec e j) as [X|_]; [contradiction|].
  unfold swapf at 1 2. rewrite Nat.eqb_refl.
  destruct (Nat.eqb_spec j e) as [X|_]; [exfalso; apply Nej; symmetry; exact X|]. rewrite Nat.eqb_refl. reflexivity.
Qed.

Lemma de_vex x : (x < nv)%nat -> vex s' x = rho (vex s x).
Proof.
  intros Hx. rewrite de_unfold. cbn [vex]. rewrite (relabel_spec Nej P (le_n P) x Hx).
  destruct (it_v _ _ _ I x Hx) as (_ & Hp & _). destruct (Nat.ltb_spec (vp s x) P); [|lia]. rewrite !andb_true_r.
  unfold rho, sw. destruct (Nat.eqb_spec (vex s x) j) as [E1|_].
  - destruct (Nat.eqb_spec (vex s x) e) as [E2|_]; [congruence|reflexivity].
  - reflexivity.
Qed.

Lemma de_fields : vp s' = vp s /\ vidx s' = vidx s /\ vdiag s' = vdiag s /\ malpha s' = malpha s /\ mgrad s' = mgrad s /\
  mlin s' = mlin s /\ actvar s' = actvar s /\ actex s' = j /\ munshr s' = munshr s /\
  (forall a, eorig s' a = eorig s (rho a)) /\ (forall a, ey s' a = ey s (rho a)) /\ (forall a, eact s' a = eact s (rho a)) /\
  (forall a, evar s' a = evar s (rho a)) /\ (forall a, eavar s' a = eavar s (rho a)) /\
  (forall a, evsum s' a = evsum s (rho a)) /\ (forall a, ediag s' a = ediag s (rho a)).
Proof. rewrite de_unfold. cbn. repeat split; intros; apply swapf_sw. Qed.

Lemma rho_invol a : rho (rho a) = a. Proof. apply sw_invol. Qed.

Lemma deact_ex_tab_swap : Inv_tab s'.
Proof.
  destruct de_fields as (F1 & F2 & F3 & F4 & F5 & F6 & F7 & F8 & F9 & G1 & G2 & G3 & G4 & G5 & G6 & G7).
  constructor.
  - rewrite F7. apply (it_av _ _ _ I).
  - rewrite F8. pose proof de_jn. lia.
  - intros a p Ha Hp. rewrite G4. destruct (it_var _ _ _ I (rho a) p (rho_lt a Ha) Hp) as (X & Y & Z).
    split; [exact X|]. rewrite (de_vex _ X), F1, Y, rho_invol. split; [reflexivity | exact Z].
  - intros x Hx. destruct (it_v _ _ _ I x Hx) as (Y1 & Y2 & Y3 & Y4 & Y5).
    rewrite (de_vex x Hx), F1, F2, G4, G5, rho_invol. repeat split; try assumption. apply rho_lt. exact Y1.
  - intros a b Ha Hb. rewrite G5. destruct (it_avar _ _ _ I (rho a) b (rho_lt a Ha) Hb) as (X & Y & Z).
    split; [exact X|]. rewrite (de_vex _ X), F2, Y, rho_invol. split; [reflexivity | exact Z].
  - intros a b Ha Hb. rewrite G3, G5, F7. apply (it_act _ _ _ I); [apply rho_lt; exact Ha | exact Hb].
  - intros a Ha. rewrite G3. apply (it_actle _ _ _ I). apply rho_lt. exact Ha.
  - intros x Hx. rewrite F7 in Hx. rewrite F8.
    assert (Hxn : (x < nv)%nat) by (pose proof (it_av _ _ _ I); lia).
    rewrite (de_vex x Hxn). pose proof (it_actex _ _ _ I x Hx) as X. pose proof (de_noact x Hx) as Y.
    unfold rho, sw. destruct (Nat.eqb_spec (vex s x) e); [contradiction|].
    destruct (Nat.eqb_spec (vex s x) j); unfold j in *; lia.
  - intros a Ha. rewrite G1. apply (it_orig _ _ _ I). apply rho_lt. exact Ha.
  - intros a b Ha Hb E. rewrite !G1 in E. apply (it_orig_inj _ _ _ I) in E; try (apply rho_lt; assumption).
    apply (sw_inj e j). exact E.
Qed.

Lemma Qe_deact_ex a b : (a < nv)%nat -> (b < nv)%nat -> Qe s' a b = Qe s a b.
Proof.
  intros Ha Hb. destruct de_fields as (F1 & _ & _ & _ & _ & _ & _ & _ & _ & G1 & G2 & _).
  unfold Qe. rewrite !G1, !G2, (de_vex a Ha), (de_vex b Hb), F1, !rho_invol. reflexivity.
Qed.

End Swap.

Theorem deact_ex_tab : Inv_tab s'.
Proof.
  destruct (Nat.eq_dec e j) as [E|N]; [|apply deact_ex_tab_swap; exact N].
  unfold s', deact_ex. fold j. destruct (Nat.eqb_spec e j) as [_|X]; [|contradiction].
  destruct I as [H1 H2 H3 H4 H5 H6 H7 H8 H9 H10]. constructor; cbn; try assumption.
  - pose proof de_jn. lia.
  - intros x Hx. pose proof (H8 x Hx). pose proof (de_noact x Hx). unfold j in *. lia.
Qed.

(* everything that is not a table: unchanged up to the exchange of the two example positions *)
Lemma deact_ex_plain : malpha s' = malpha s /\ mgrad s' = mgrad s /\ mlin s' = mlin s /\ vp s' = vp s /\ vdiag s' = vdiag s /\
  actvar s' = actvar s /\ actex s' = j /\ munshr s' = munshr s.
Proof.
  destruct (Nat.eq_dec e j) as [E|N].
  - unfold s', deact_ex. fold j. destruct (Nat.eqb_spec e j) as [_|X]; [|contradiction]. cbn. repeat split.
  - destruct (de_fields N) as (F1 & F2 & F3 & F4 & F5 & F6 & F7 & F8 & F9 & _). repeat split; assumption.
Qed.

Lemma Qe_deact_ex' a b : (a < nv)%nat -> (b < nv)%nat -> Qe s' a b = Qe s a b.
Proof.
  intros Ha Hb. destruct (Nat.eq_dec e j) as [E|N]; [|apply Qe_deact_ex; assumption].
  unfold s', deact_ex. fold j. destruct (Nat.eqb_spec e j) as [_|X]; [|contradiction]. reflexivity.
Qed.

Lemma deact_ex_data y0 lin0 : Inv_data y0 lin0 s -> Inv_data y0 lin0 s'.
Proof.
  intros [D1 D2]. destruct (Nat.eq_dec e j) as [E|N].
  - unfold s', deact_ex. fold j. destruct (Nat.eqb_spec e j) as [_|X]; [|contradiction]. split; cbn; assumption.
  - destruct (de_fields N) as (F1 & F2 & F3 & F4 & F5 & F6 & F7 & F8 & F9 & G1 & G2 & G3 & G4 & G5 & G6 & G7). split.
    + intros a Ha. rewrite G1, G2, G7. apply D1. apply rho_lt. exact Ha.
    + intros x Hx. destruct (D2 x Hx) as [A B]. destruct (it_v _ _ _ I x Hx) as (Y1 & _).
      rewrite F6, F3, F1, G1, (de_vex N x Hx), rho_invol, (Qe_deact_ex N x x Hx Hx). split; assumption.
Qed.

Lemma Qalpha_deact_ex f : (f < nv)%nat -> Qalpha s' f == Qalpha s f.
Proof.
  intros Hf. destruct deact_ex_plain as (A1 & _). unfold C16StateDefs.Qalpha. apply sumn_ext. intros w Hw.
  rewrite (Qe_deact_ex' w f Hw Hf), A1. reflexivity.
Qed.

Lemma deact_ex_grad : Inv_grad s -> Inv_grad s'.
Proof.
  intros G f Hf. destruct deact_ex_plain as (A1 & A2 & A3 & _ & _ & A6 & _). rewrite A6 in Hf.
  assert (Hfn : (f < nv)%nat) by (pose proof (it_av _ _ _ I); lia).
  rewrite (Qalpha_deact_ex f Hfn), A2, A3. apply G. exact Hf.
Qed.

Lemma deact_ex_obj : mobj s' == mobj s.
Proof.
  destruct deact_ex_plain as (A1 & A2 & A3 & _). unfold C16StateDefs.mobj. rewrite A1, A3.
  apply objf_ext3; try (intros; reflexivity). intros a b Ha Hb. rewrite (Qe_deact_ex' a b Ha Hb). reflexivity.
Qed.

Lemma deact_ex_boxc : Inv_boxc s -> Inv_boxc s'.
Proof. intros B x Hx. destruct deact_ex_plain as (A1 & _). rewrite A1. apply B. exact Hx. Qed.

Lemma deact_ex_same : same_vars s s'.
Proof.
  destruct (Nat.eq_dec e j) as [E|N].
  - intros a Ha. exists a. split; [exact Ha|].
    unfold s', deact_ex. fold j. destruct (Nat.eqb_spec e j) as [_|X]; [|contradiction]. cbn. repeat split; auto.
  - destruct (de_fields N) as (F1 & F2 & F3 & F4 & F5 & F6 & F7 & F8 & F9 & G1 & G2 & G3 & G4 & G5 & G6 & G7).
    intros a Ha. exists (rho a). split; [apply rho_lt; exact Ha|].
    rewrite G1, G2, G6, G7, G4, F4, F5, F6, F3, F7, !rho_invol. repeat split; auto.
Qed.

Lemma deact_ex_simplex : Inv_simplex s -> Inv_simplex s'.
Proof.
  intros SI a Ha. destruct (Nat.eq_dec e j) as [E|N].
  - unfold s', deact_ex. fold j. destruct (Nat.eqb_spec e j) as [_|X]; [|contradiction]. cbn. apply SI. exact Ha.
  - destruct (de_fields N) as (F1 & F2 & F3 & F4 & F5 & F6 & F7 & F8 & F9 & G1 & G2 & G3 & G4 & G5 & G6 & G7).
    rewrite G6, F4. apply (ExInv_ext_lt P C (valpha s (malpha s) (rho a))); [|apply SI; apply rho_lt; exact Ha].
    intros q Hq. unfold valpha. rewrite G4. reflexivity.
Qed.

(* the active variables are the same positions *)
Lemma deact_ex_actvar : actvar s' = actvar s.
Proof. apply deact_ex_plain. Qed.

End DeactEx.

End Deact.
