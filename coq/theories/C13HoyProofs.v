(* C13 — HOY: the recursion stream computes the measure of the dominated part of its region (for every call state
   the recursion can reach), the fuel of the entry point is sufficient, the model of operator() equals hv_spec.
   Axiom-free. *)
From Coq Require Import List ZArith Lia Bool Arith Permutation Sorted.
From SharkV Require Import ListAux C13Model C13Proofs C13ProofsContrib C13Wfg C13WfgProofs.
From SharkV Require Import C13Hoy C13HoyBoxProofs C13HoyCoverProofs C13HoyPileProofs C13HoySplitProofs.
Import ListNotations.
Local Open Scope Z_scope.

Lemma F2_of_nth : forall a b : list Z, length a = length b ->
  (forall j, (j < length a)%nat -> nth j a 0 <= nth j b 0) -> Forall2 Z.le a b.
Proof.
  induction a as [|x a IH]; intros [|y b] HL H; try discriminate; constructor.
  - apply (H 0%nat). cbn. lia.
  - apply IH; [now injection HL|]. intros j Hj. apply (H (S j)). cbn. lia.
Qed.

Lemma nth_of_F2 (a b : list Z) : Forall2 Z.le a b -> forall j, nth j a 0 <= nth j b 0.
Proof. induction 1; intros [|j]; cbn [nth]; auto; lia. Qed.

(* ---------------------------------------------------------------------------------------- *)
(* the two halves of a region *)
Lemma vol_split low up s b zlo cover P : length low = length up -> (s < length low)%nat ->
  nth s low 0 <= b <= nth s up 0 ->
  vol low up zlo cover P = vol low (upd s b up) zlo cover P + vol (upd s b low) up zlo cover P.
Proof.
  intros HL Hs Hb. unfold vol. rewrite <- zsum_plus. apply zsum_ext. intros z _. apply bsum_split; auto.
Qed.

(* only the points that partly cover a region dominate cells of it *)
Lemma vol_filter_part lo up zlo cover (P : list hpt) : length lo = length up ->
  (forall p, In p P -> length (fst p) = length up) ->
  vol lo up zlo cover (filter (fun p => part_covers (fst p) up) P) = vol lo up zlo cover P.
Proof.
  intros HL HP. apply vol_ext. intros z c Hz Hb. apply existsb_ext_in.
  - intros p Hp Hd. apply filter_In in Hp. exists p. split; [apply Hp|auto].
  - intros p Hp Hd. exists p. split; auto. apply filter_In. split; auto.
    apply inbox_nth in Hb; auto. destruct Hb as [Lc Hc].
    unfold dom1 in Hd. apply andb_true_iff in Hd. destruct Hd as [Hd _].
    specialize (HP p Hp). unfold part_covers. apply all2_nth; [lia|]. intros j Hj.
    pose proof (all2_true_nth Z.leb (fst p) c ltac:(lia) Hd j Hj) as H1. apply Z.leb_le in H1. apply Z.ltb_lt.
    specialize (Hc j ltac:(lia)). lia.
Qed.

Lemma child_eq (l : list hpt) (X V : Z) : (l = [] -> V = 0) -> (l <> [] -> X = V) ->
  match l with [] => 0 | _ => X end = V.
Proof. destruct l; intros H1 H2; [symmetry; auto|apply H2; discriminate]. Qed.

Lemma stream_S f sq low up pts split cover :
  stream (S f) sq low up pts split cover =
  match stream_node sq low up pts split cover with
  | NLeaf r => r
  | NStuck r => r
  | NSplit r s b pu pl cv =>
    r + (match pu with [] => 0 | _ => stream f sq low (upd s b up) pu s cv end)
      + (match pl with [] => 0 | _ => stream f sq (upd s b low) up pl s cv end)
  end.
Proof. reflexivity. Qed.

Lemma open_at_upd low s b c j : nth s low 0 <= b -> open_at (upd s b low) c j = true -> open_at low c j = true.
Proof.
  unfold open_at. intros Hb H. apply Z.ltb_lt in H. apply Z.ltb_lt. rewrite nth_upd in H.
  destruct (Nat.eqb_spec s j) as [->|Hne]; cbn [andb] in H; [|exact H].
  destruct (j <? length low)%nat; lia.
Qed.

Definition wf_pts (low up : list Z) (zlo cover : Z) (pts : list hpt) : Prop :=
  forall p, In p pts -> length (fst p) = length low /\ part_covers (fst p) up = true /\ zlo <= snd p < cover.

(* the recursion: every reachable call returns the measure of the dominated part of region x [zlo, cover) *)
Theorem stream_correct : forall fuel sq low up pts split cover zlo,
  length low = length up -> Forall2 Z.le low up -> wf_pts low up zlo cover pts ->
  StronglySorted by_last pts -> split_inv low pts split -> (mu low pts < fuel)%nat ->
  stream fuel sq low up pts split cover = vol low up zlo cover pts.
Proof.
  induction fuel as [|f IH]; intros sq low up pts split cover zlo HL Hbox Hwf HS HI Hmu; [lia|].
  rewrite stream_S. unfold stream_node.
  destruct (cover_step low up pts cover) as [[cover' k] res] eqn:EC.
  assert (HLp : forall p, In p pts -> length (fst p) = length low) by (intros p Hp; apply (Hwf p Hp)).
  assert (Hrange : forall p, In p pts -> zlo <= snd p < cover) by (intros p Hp; apply (Hwf p Hp)).
  destruct (cover_step_spec low up pts cover zlo HL HS Hrange _ _ _ EC) as [Lk [HPin [HPnc _]]].
  rewrite (cover_step_vol low up pts cover zlo HL HLp HS Hrange Hbox _ _ _ EC).
  cbv zeta in Lk, HPin, HPnc.
  destruct k as [|k'].
  - cbn [firstn]. rewrite vol_nil. lia.
  - set (P := firstn (S k') pts) in *.
    assert (HPsub : forall p, In p P -> In p pts) by (intros p Hp; apply HPin, Hp).
    assert (HPne : P <> []) by (intros E; rewrite E in Lk; discriminate).
    assert (HSP : StronglySorted by_last P) by (apply SS_firstn; auto).
    assert (HmuP : (mu low P <= mu low pts)%nat) by apply mu_firstn.
    assert (HwfP : wf_pts low up zlo cover' P).
    { intros p Hp. destruct (Hwf p (HPsub p Hp)) as [H1 [H2 H3]]. split; auto. split; auto.
      apply HPin in Hp. lia. }
    destruct (pile_list low P) as [pl|] eqn:EPL.
    + apply (pile_sweep_vol low up HL Hbox P pl zlo cover' res EPL HPne); auto.
      intros p Hp. destruct (HwfP p Hp) as [H1 [_ H3]]. auto.
    + destruct (pile_list_None low P EPL) as [q [Hq Hnp]].
      destruct (not_pile_two low (fst q) Hnp) as [j1 [j2 [H12 [Hj2 [O1 O2]]]]].
      assert (Lq : length (fst q) = length low) by apply (HwfP q Hq).
      assert (HIP : split_inv low P split) by (eapply split_inv_incl; eauto).
      assert (Hs2 : (split <= j2)%nat).
      { destruct (Nat.le_gt_cases split j2) as [|Hgt]; auto. exfalso.
        assert (j1 = j2) by (apply (HIP q j1 j2); auto; lia). lia. }
      assert (HPpc : forall p, In p P -> length (fst p) = length low /\ part_covers (fst p) up = true).
      { intros p Hp. destruct (HwfP p Hp) as [H1 [H2 _]]. auto. }
      destruct (find_bound (length low - split) sq low P split) as [[s b]|] eqn:EF.
      2:{ exfalso. apply (find_bound_exists sq low up P HL (length low - split) split q j1 j2); auto; lia. }
      destruct (find_bound_good sq low up P HL HPpc (length low - split)%nat split s b ltac:(lia) HIP EF) as [Hss [Hs [HIs [Hb [[pa [Hpa [Oa Ha]]] [pb [Hpb [Ob Hb']]]]]]]].
      rewrite (vol_split low up s b zlo cover' P HL Hs ltac:(lia)).
      rewrite <- Z.add_assoc. f_equal. f_equal.
      * (* child Up *)
        set (upC := upd s b up).
        assert (HLC : length low = length upC) by (unfold upC; now rewrite upd_length).
        rewrite <- (vol_filter_part low upC zlo cover' P HLC).
        2:{ intros p Hp. rewrite <- HLC. apply (HwfP p Hp). }
        set (pu := filter (fun p => part_covers (fst p) upC) P).
        apply child_eq; [intros ->; apply vol_nil|intros _].
        apply IH; auto.
        -- apply F2_of_nth; auto. intros j Hj. unfold upC. rewrite nth_upd.
           destruct (Nat.eqb_spec s j) as [->|Hne]; cbn [andb].
           ++ destruct (Nat.ltb_spec j (length up)); lia.
           ++ apply nth_of_F2; auto.
        -- intros p Hp. apply filter_In in Hp. destruct Hp as [Hp Hc]. destruct (HwfP p Hp) as [H1 [_ H3]]. auto.
        -- apply SS_filter; auto.
        -- eapply split_inv_incl; [|exact HIs]. intros p Hp. apply filter_In in Hp. apply Hp.
        -- assert (mu low pu < mu low P)%nat; [|lia].
           apply (mu_filter_lt low _ P pa Hpa).
           destruct (part_covers (fst pa) upC) eqn:Epc; auto. exfalso.
           destruct (HPpc pa Hpa) as [La _].
           pose proof (all2_true_nth Z.ltb (fst pa) upC ltac:(lia) Epc s ltac:(lia)) as Hlt.
           apply Z.ltb_lt in Hlt. unfold upC in Hlt. rewrite nth_upd_eq in Hlt by lia. lia.
      * (* child Low *)
        set (lowC := upd s b low).
        assert (HLC : length lowC = length up) by (unfold lowC; now rewrite upd_length).
        rewrite <- (vol_filter_part lowC up zlo cover' P HLC).
        2:{ intros p Hp. rewrite <- HL. apply (HwfP p Hp). }
        set (pl := filter (fun p => part_covers (fst p) up) P).
        assert (Hopen : forall (p : hpt) j, open_at lowC (fst p) j = true -> open_at low (fst p) j = true).
        { intros p j. unfold lowC. apply open_at_upd. lia. }
        apply child_eq; [intros ->; apply vol_nil|intros _].
        apply IH; auto.
        -- apply F2_of_nth; [lia|]. intros j Hj. unfold lowC. rewrite nth_upd.
           destruct (Nat.eqb_spec s j) as [->|Hne]; cbn [andb].
           ++ destruct (Nat.ltb_spec j (length low)); [lia|]. apply nth_of_F2; auto.
           ++ apply nth_of_F2; auto.
        -- intros p Hp. apply filter_In in Hp. destruct Hp as [Hp Hc]. destruct (HwfP p Hp) as [H1 [_ H3]].
           split; [unfold lowC; rewrite upd_length; auto|]. auto.
        -- apply SS_filter; auto.
        -- apply (split_inv_low low lowC); [intros; apply Hopen; auto|].
           eapply split_inv_incl; [|exact HIs]. intros p Hp. apply filter_In in Hp. apply Hp.
        -- assert (mu lowC pl <= mu lowC P)%nat by apply mu_filter_le.
           assert (mu lowC P < mu low P)%nat; [|lia].
           apply (mu_low_lt low lowC P pb s); auto.
           ++ destruct (HPpc pb Hpb) as [Lb _]. lia.
           ++ unfold open_at, lowC. rewrite nth_upd_eq by lia. apply Z.ltb_ge. lia.
Qed.

(* the search for the split bound never leaves the first m-1 objectives *)
Corollary stream_node_not_stuck sq low up pts split cover zlo r :
  length low = length up -> wf_pts low up zlo cover pts -> StronglySorted by_last pts -> split_inv low pts split ->
  stream_node sq low up pts split cover <> NStuck r.
Proof.
  intros HL Hwf HS HI. unfold stream_node.
  destruct (cover_step low up pts cover) as [[cover' k] res] eqn:EC.
  assert (Hrange : forall p, In p pts -> zlo <= snd p < cover) by (intros p Hp; apply (Hwf p Hp)).
  destruct (cover_step_spec low up pts cover zlo HL HS Hrange _ _ _ EC) as [Lk [HPin [HPnc _]]].
  cbv zeta in Lk, HPin, HPnc.
  destruct k as [|k']; [discriminate|]. set (P := firstn (S k') pts) in *.
  destruct (pile_list low P) as [pl|] eqn:EPL; [discriminate|].
  destruct (pile_list_None low P EPL) as [q [Hq Hnp]].
  destruct (not_pile_two low (fst q) Hnp) as [j1 [j2 [H12 [Hj2 [O1 O2]]]]].
  assert (HPsub : forall p, In p P -> In p pts) by (intros p Hp; apply HPin, Hp).
  assert (Lq : length (fst q) = length low) by apply (Hwf q (HPsub q Hq)).
  assert (HIP : split_inv low P split) by (eapply split_inv_incl; eauto).
  assert (Hs2 : (split <= j2)%nat).
  { destruct (Nat.le_gt_cases split j2) as [|Hgt]; auto. exfalso.
    assert (j1 = j2) by (apply (HIP q j1 j2); auto; lia). lia. }
  destruct (find_bound (length low - split) sq low P split) as [[s b]|] eqn:EF; [discriminate|].
  exfalso. apply (find_bound_exists sq low up P HL (length low - split) split q j1 j2); auto; lia.
Qed.

(* ---------------------------------------------------------------------------------------- *)
(* operator() *)
Lemma removelast_length {A} (l : list A) : length (removelast l) = (length l - 1)%nat.
Proof.
  destruct l as [|x l]; [reflexivity|]. rewrite (app_removelast_last x (l := x :: l)) at 2 by discriminate.
  rewrite app_length. cbn [length]. lia.
Qed.

Lemma removelast_nth (l : list Z) j : (j < length l - 1)%nat -> nth j (removelast l) 0 = nth j l 0.
Proof.
  intros Hj. destruct l as [|x l]; [cbn in Hj; lia|].
  rewrite (app_removelast_last 0 (l := x :: l)) at 2 by discriminate.
  rewrite app_nth1; auto. rewrite removelast_length. exact Hj.
Qed.

Lemma all2_removelast r (a b : list Z) : length a = length b -> all2 r a b = true ->
  all2 r (removelast a) (removelast b) = true.
Proof.
  intros HL H. apply all2_nth; [rewrite !removelast_length; lia|]. intros j Hj. rewrite removelast_length in Hj.
  rewrite !removelast_nth by lia. apply (all2_true_nth r a b HL H). lia.
Qed.

Lemma last_nth (l : list Z) : last l 0 = nth (length l - 1) l 0.
Proof.
  induction l as [|x l IH]; [reflexivity|]. destruct l as [|y t]; [reflexivity|].
  change (last (x :: y :: t) 0) with (last (y :: t) 0). rewrite IH. cbn [length].
  replace (S (S (length t)) - 1)%nat with (S (length t)) by lia.
  replace (S (length t) - 1)%nat with (length t) by lia. reflexivity.
Qed.

Lemma pmin_length p : forall q, length p = length q -> length (pmin p q) = length p.
Proof. induction p as [|x p IH]; intros [|y q] H; try discriminate; cbn; auto. Qed.

Lemma pmin_nth p : forall q j, length p = length q -> nth j (pmin p q) 0 = Z.min (nth j p 0) (nth j q 0).
Proof.
  induction p as [|x p IH]; intros [|y q] j H; try discriminate.
  - destruct j; reflexivity.
  - injection H as H. destruct j; cbn [pmin nth]; auto.
Qed.

Lemma fold_pmin_spec m : forall rest acc, length acc = m -> (forall p, In p rest -> length p = m) ->
  length (fold_left pmin rest acc) = m /\
  forall j, nth j (fold_left pmin rest acc) 0 <= nth j acc 0 /\
            (forall p, In p rest -> nth j (fold_left pmin rest acc) 0 <= nth j p 0) /\
            forall lo, lo <= nth j acc 0 -> (forall p, In p rest -> lo <= nth j p 0) -> lo <= nth j (fold_left pmin rest acc) 0.
Proof.
  induction rest as [|q rest IH]; intros acc La Lr; cbn [fold_left].
  - split; auto. intros j. split; [lia|]. split; [intros p []|]. auto.
  - assert (Lq : length q = m) by (apply Lr; now left).
    destruct (IH (pmin acc q)) as [H1 H2]; [rewrite pmin_length; lia|intros; apply Lr; now right|].
    split; auto. intros j. destruct (H2 j) as [Ha [Hb Hc]]. rewrite pmin_nth in Ha by lia. split; [lia|]. split.
    + intros p [<-|Hp]; [lia|auto].
    + intros lo Hlo Hall. apply Hc; [rewrite pmin_nth by lia; specialize (Hall q (or_introl eq_refl)); lia|].
      intros; apply Hall; now right.
Qed.

Lemma mu_bound low k (pts : list hpt) : (forall p, In p pts -> length (fst p) = k) -> (mu low pts <= length pts * S k)%nat.
Proof.
  induction pts as [|p pts IH]; intros H; [cbn; lia|]. rewrite mu_cons. cbn [length].
  assert (length (open_dims low (fst p)) <= k)%nat.
  { unfold open_dims. rewrite <- (H p (or_introl eq_refl)).
    etransitivity; [apply filter_length_le with (g := fun _ => true); auto|]. rewrite filter_all_true, seq_length. lia. }
  specialize (IH (fun q Hq => H q (or_intror Hq))). lia.
Qed.

Lemma to_hpt_fst_length p : length (fst (to_hpt p)) = (length p - 1)%nat.
Proof. apply removelast_length. Qed.

Lemma strictly_inside_parts ref p : length p = length ref -> strictly_inside ref p = true ->
  part_covers (fst (to_hpt p)) (removelast ref) = true /\ (ref <> [] -> snd (to_hpt p) < last ref 0).
Proof.
  intros HL H. unfold strictly_inside in H. split.
  - apply all2_removelast; auto.
  - intros Hne. cbn [to_hpt snd]. rewrite !last_nth, HL.
    assert (0 < length ref)%nat by (destruct ref; [congruence|cbn; lia]).
    pose proof (all2_true_nth Z.ltb p ref HL H (length ref - 1)%nat ltac:(lia)) as Hlt. now apply Z.ltb_lt in Hlt.
Qed.

Lemma dominated_inside ref p c z : length p = length ref -> ref <> [] -> length c = (length ref - 1)%nat ->
  (forall j, (j < length ref - 1)%nat -> nth j c 0 < nth j (removelast ref) 0) -> z < last ref 0 ->
  dom1 c z (to_hpt p) = true -> strictly_inside ref p = true.
Proof.
  intros HL Hne Lc Hc Hz Hd. unfold dom1 in Hd. apply andb_true_iff in Hd. destruct Hd as [H1 H2].
  apply Z.leb_le in H2. cbn [to_hpt fst snd] in H1, H2.
  assert (0 < length ref)%nat by (destruct ref; [congruence|cbn; lia]).
  unfold strictly_inside. apply all2_nth; auto. intros j Hj. apply Z.ltb_lt.
  destruct (Nat.eq_dec j (length ref - 1)) as [->|Hne'].
  - rewrite last_nth in H2, Hz. rewrite HL in H2. lia.
  - pose proof (all2_true_nth Z.leb (removelast p) c ltac:(rewrite removelast_length; lia) H1 j
                  ltac:(rewrite removelast_length; lia)) as Hle.
    apply Z.leb_le in Hle. rewrite removelast_nth in Hle by lia.
    specialize (Hc j ltac:(lia)). rewrite removelast_nth in Hc by lia. lia.
Qed.

Lemma repeat_nth (x : Z) n j : (j < n)%nat -> nth j (repeat x n) 0 = x.
Proof. revert j. induction n as [|n IH]; intros [|j] H; cbn; try lia; auto. apply IH. lia. Qed.

Section Top.
Variable arr : list hpt -> list hpt.
Hypothesis arr_perm : forall l, Permutation (arr l) l.
Hypothesis arr_sorted : forall l, StronglySorted by_last (arr l).

Theorem hoy_top_correct ref T : ref <> [] -> below_ref ref T -> hoy_top arr ref T = hv_spec ref T.
Proof.
  intros Hne HB.
  assert (HLT : forall p, In p T -> length p = length ref) by (intros p Hp; apply leq_all_length, HB, Hp).
  assert (Hm : (0 < length ref)%nat) by (destruct ref; [congruence|cbn; lia]).
  pose proof (min_coord_lower_bound ref T) as LB. set (lo := min_coord ref T) in *.
  set (d := (length ref - 1)%nat). set (u := removelast ref). set (rl := last ref 0).
  set (set_ := filter (strictly_inside ref) T).
  assert (Lu : length u = d) by apply removelast_length.
  (* the spec only sees the points strictly below the reference point *)
  assert (Hspec : hv_spec ref T = vol (repeat lo d) u lo rl (map to_hpt set_)).
  { rewrite (hv_spec_vol ref T lo Hne HLT LB). fold d u rl. apply vol_ext. intros z c Hz Hb.
    apply inbox_nth in Hb; [|now rewrite repeat_length]. rewrite repeat_length in Hb. destruct Hb as [Lc Hc].
    apply existsb_ext_in.
    - intros hp Hp Hd. exists hp. split; auto. apply in_map_iff in Hp. destruct Hp as [p [<- Hp]].
      apply in_map. apply filter_In. split; auto.
      apply (dominated_inside ref p c z (HLT p Hp) Hne); [exact Lc|intros j Hj; apply Hc; exact Hj|apply Hz|exact Hd].
    - intros hp Hp Hd. exists hp. split; auto. apply in_map_iff in Hp. destruct Hp as [p [<- Hp]].
      apply in_map. apply filter_In in Hp. apply Hp. }
  unfold hoy_top. destruct T as [|t0 T']; [now rewrite hv_spec_nil|]. set (T := t0 :: T') in *.
  fold set_. destruct set_ as [|p0 rest] eqn:Eset.
  { rewrite Hspec. cbn [map]. symmetry. apply vol_nil. }
  rewrite <- Eset. rewrite <- Eset in Hspec.
  assert (Hset : forall p, In p set_ -> In p T /\ strictly_inside ref p = true) by (intros p Hp; apply filter_In, Hp).
  assert (Lset : forall p, In p set_ -> length p = length ref) by (intros p Hp; apply HLT, Hset, Hp).
  destruct (fold_pmin_spec (length ref) rest p0) as [LrL HrL].
  { apply Lset. rewrite Eset. now left. }
  { intros p Hp. apply Lset. rewrite Eset. now right. }
  set (regLow := fold_left pmin rest p0) in *. set (low := removelast regLow).
  assert (Llow : length low = d) by (unfold low; rewrite removelast_length, LrL; reflexivity).
  assert (Hlowle : forall p j, In p set_ -> (j < d)%nat -> nth j low 0 <= nth j (fst (to_hpt p)) 0).
  { intros p j Hp Hj. unfold low. cbn [to_hpt fst]. rewrite !removelast_nth by (rewrite ?LrL, ?(Lset p Hp); exact Hj).
    destruct (HrL j) as [Ha [Hb _]]. rewrite Eset in Hp. destruct Hp as [<-|Hp]; auto. }
  assert (Hlolow : forall j, (j < d)%nat -> lo <= nth j low 0).
  { intros j Hj. unfold low. rewrite removelast_nth by (rewrite LrL; exact Hj). destruct (HrL j) as [_ [_ Hc]].
    assert (Hco : forall p, In p set_ -> lo <= nth j p 0).
    { intros p Hp. apply (LB p); [apply Hset, Hp|]. apply nth_In. rewrite (Lset p Hp). unfold d in Hj. lia. }
    apply Hc; [apply Hco; rewrite Eset; now left|]. intros p Hp. apply Hco. rewrite Eset. now right. }
  set (pts := arr (map to_hpt set_)).
  assert (Hpts : forall hp, In hp pts <-> In hp (map to_hpt set_)).
  { intros hp. split; apply Permutation_in; [apply arr_perm|apply Permutation_sym, arr_perm]. }
  assert (Hwf : wf_pts low u lo rl pts).
  { intros hp Hp. apply Hpts in Hp. apply in_map_iff in Hp. destruct Hp as [p [<- Hp]].
    destruct (Hset p Hp) as [HpT Hin]. destruct (strictly_inside_parts ref p (Lset p Hp) Hin) as [H1 H2].
    split; [rewrite to_hpt_fst_length, (Lset p Hp), Llow; reflexivity|]. split; [exact H1|].
    split; [|apply H2; auto]. apply (LB p HpT). cbn [to_hpt snd]. rewrite last_nth. apply nth_In.
    rewrite (Lset p Hp). lia. }
  assert (HF2 : Forall2 Z.le low u).
  { apply F2_of_nth; [lia|]. intros j Hj. rewrite Llow in Hj.
    assert (Hp0 : In p0 set_) by (rewrite Eset; now left).
    specialize (Hlowle p0 j Hp0 Hj).
    destruct (strictly_inside_parts ref p0 (Lset p0 Hp0) (proj2 (Hset p0 Hp0))) as [H1 _].
    assert (L1 : length (fst (to_hpt p0)) = length (removelast ref))
      by (rewrite to_hpt_fst_length, removelast_length, (Lset p0 Hp0); reflexivity).
    assert (L2 : (j < length (fst (to_hpt p0)))%nat) by (rewrite to_hpt_fst_length, (Lset p0 Hp0); exact Hj).
    pose proof (all2_true_nth Z.ltb (fst (to_hpt p0)) (removelast ref) L1 H1 j L2) as Hlt.
    apply Z.ltb_lt in Hlt. fold u in Hlt. lia. }
  rewrite (stream_correct _ _ low u pts 0 rl lo); auto; try lia.
  - rewrite Hspec. unfold vol. apply zsum_ext. intros z Hz. symmetry.
    rewrite (bsum_lower (repeat lo d) low u).
    + apply bsum_ext. intros c Hb. apply ind_ext. apply existsb_ext_in.
      * intros hp Hp Hd. exists hp. split; auto. now apply Hpts.
      * intros hp Hp Hd. exists hp. split; auto. now apply Hpts.
    + apply F2_of_nth; [rewrite repeat_length; lia|]. rewrite repeat_length. intros j Hj.
      rewrite repeat_nth by exact Hj. auto.
    + exact HF2.
    + intros c Hb Hnb. unfold ind.
      destruct (existsb (dom1 c z) (map to_hpt set_)) eqn:E; auto. exfalso. apply Hnb.
      apply existsb_exists in E. destruct E as [hp [Hp Hd]]. apply in_map_iff in Hp. destruct Hp as [p [<- Hp]].
      apply inbox_nth in Hb; [|rewrite repeat_length; lia]. rewrite repeat_length in Hb. destruct Hb as [Lc Hc].
      apply inbox_nth; [lia|]. split; [lia|]. rewrite Llow. intros j Hj. specialize (Hc j Hj).
      split; [|lia]. unfold dom1 in Hd. apply andb_true_iff in Hd. destruct Hd as [Hd _].
      assert (L1 : length (fst (to_hpt p)) = length c) by (rewrite to_hpt_fst_length, (Lset p Hp); fold d; lia).
      assert (L2 : (j < length (fst (to_hpt p)))%nat) by (rewrite to_hpt_fst_length, (Lset p Hp); exact Hj).
      pose proof (all2_true_nth Z.leb (fst (to_hpt p)) c L1 Hd j L2) as Hle.
      apply Z.leb_le in Hle. specialize (Hlowle p j Hp Hj). lia.
  - apply arr_sorted.
  - apply split_inv_0.
  - unfold stream_fuel.
    assert (mu low pts <= length pts * S d)%nat.
    { apply mu_bound. intros hp Hp. apply (Hwf hp) in Hp. lia. }
    assert (length pts = length set_).
    { unfold pts. rewrite (Permutation_length (arr_perm _)), map_length. reflexivity. }
    replace (S d) with (length ref) in * by (unfold d; lia). rewrite Eset in *. lia.
Qed.
End Top.

(* ---------------------------------------------------------------------------------------- *)
(* the extracted arrangement *)
Lemma insert_last_perm p l : Permutation (insert_last p l) (p :: l).
Proof.
  induction l as [|q l IH]; cbn [insert_last]; [reflexivity|].
  destruct (snd p <=? snd q); [reflexivity|]. etransitivity; [apply perm_skip, IH|apply perm_swap].
Qed.

Lemma sort_last_perm l : Permutation (sort_last l) l.
Proof.
  induction l as [|p l IH]; [reflexivity|]. cbn [sort_last fold_right].
  etransitivity; [apply insert_last_perm|]. apply perm_skip, IH.
Qed.

Lemma insert_last_sorted p l : StronglySorted by_last l -> StronglySorted by_last (insert_last p l).
Proof.
  induction 1 as [|q l HS IH HF]; cbn [insert_last]; [repeat constructor|].
  destruct (Z.leb_spec (snd p) (snd q)).
  - constructor; [constructor; auto|]. constructor; [exact H|].
    rewrite Forall_forall in *. intros x Hx. specialize (HF x Hx). unfold by_last in *. lia.
  - constructor; auto. rewrite Forall_forall in *. intros x Hx.
    apply (Permutation_in _ (insert_last_perm p l)) in Hx. destruct Hx as [<-|Hx]; [unfold by_last; lia|auto].
Qed.

Lemma sort_last_sorted l : StronglySorted by_last (sort_last l).
Proof. induction l as [|p l IH]; [constructor|]. cbn [sort_last fold_right]. now apply insert_last_sorted. Qed.

(* ---------------------------------------------------------------------------------------- *)
(* doubling *)
Lemma zsum_n_scal n k : forall lo g, zsum_n n lo (fun z => k * g z) = k * zsum_n n lo g.
Proof. induction n as [|n IH]; intros lo g; cbn [zsum_n]; [lia|]. rewrite IH. lia. Qed.

Lemma half_even a : (2 * a) / 2 = a.
Proof. pose proof (Z.div_mod (2 * a) 2 ltac:(lia)). pose proof (Z.mod_pos_bound (2 * a) 2 ltac:(lia)). lia. Qed.
Lemma half_odd a : (2 * a + 1) / 2 = a.
Proof. pose proof (Z.div_mod (2 * a + 1) 2 ltac:(lia)). pose proof (Z.mod_pos_bound (2 * a + 1) 2 ltac:(lia)). lia. Qed.

Lemma zsum_n_dbl n : forall a g, zsum_n (2 * n) (2 * a) (fun z => g (z / 2)) = 2 * zsum_n n a g.
Proof.
  induction n as [|n IH]; intros a g; [reflexivity|].
  replace (2 * S n)%nat with (S (S (2 * n))) by lia. cbn [zsum_n].
  replace (2 * a + 1 + 1) with (2 * (a + 1)) by lia. rewrite IH, half_even, half_odd. lia.
Qed.

Lemma zsum_dbl a b g : zsum (2 * a) (2 * b) (fun z => g (z / 2)) = 2 * zsum a b g.
Proof.
  unfold zsum. replace (Z.to_nat (2 * b - 2 * a)) with (2 * Z.to_nat (b - a))%nat by lia. apply zsum_n_dbl.
Qed.

Lemma slice_dbl z S : slice z (map dbl S) = map dbl (slice (z / 2) S).
Proof.
  induction S as [|p S IH]; [reflexivity|]. cbn [map]. rewrite !slice_cons, map_app, IH. f_equal.
  destruct p as [|x t]; [reflexivity|]. cbn [dbl map].
  pose proof (Z.div_mod z 2 ltac:(lia)). pose proof (Z.mod_pos_bound z 2 ltac:(lia)).
  destruct (Z.leb_spec (2 * x) z); destruct (Z.leb_spec x (z / 2)); try lia; reflexivity.
Qed.

Lemma hv_box_dbl : forall ref lo S, hv_box (2 * lo) (dbl ref) (map dbl S) = 2 ^ Z.of_nat (length ref) * hv_box lo ref S.
Proof.
  induction ref as [|r ref IH]; intros lo S.
  - cbn. destruct S; reflexivity.
  - cbn [dbl map hv_box length]. fold (dbl ref).
    transitivity (2 * zsum lo r (fun y => 2 ^ Z.of_nat (length ref) * hv_box lo ref (slice y S))).
    + rewrite <- zsum_dbl. apply zsum_ext. intros z _. rewrite slice_dbl. apply IH.
    + unfold zsum. rewrite zsum_n_scal. rewrite Nat2Z.inj_succ, Z.pow_succ_r by lia. lia.
Qed.

Lemma dbl_rev p : rev (dbl p) = dbl (rev p).
Proof. unfold dbl. now rewrite map_rev. Qed.

Lemma hv_spec_dbl ref S : hv_spec (dbl ref) (map dbl S) = 2 ^ Z.of_nat (length ref) * hv_spec ref S.
Proof.
  pose proof (min_coord_lower_bound ref S) as LB. set (lo := min_coord ref S) in *.
  rewrite (hv_spec_any_lo ref S lo LB).
  rewrite (hv_spec_any_lo (dbl ref) (map dbl S) (2 * lo)).
  - rewrite dbl_rev, map_map.
    rewrite (map_ext (fun x => rev (dbl x)) (fun x => dbl (rev x))) by (intros; apply dbl_rev).
    rewrite <- (map_map (@rev Z) dbl). rewrite hv_box_dbl, rev_length. reflexivity.
  - intros p Hp x Hx. apply in_map_iff in Hp. destruct Hp as [q [<- Hq]]. unfold dbl in Hx.
    apply in_map_iff in Hx. destruct Hx as [y [<- Hy]]. specialize (LB q Hq y Hy). lia.
Qed.

Lemma below_ref_dbl ref S : below_ref ref S -> below_ref (dbl ref) (map dbl S).
Proof.
  intros HB p Hp. apply in_map_iff in Hp. destruct Hp as [q [<- Hq]]. specialize (HB q Hq). unfold leq_all in *. clear Hq.
  unfold dbl. induction HB as [|x y a b Hxy H IH]; cbn [map]; [constructor|]. constructor; [lia|exact IH].
Qed.

(* ---------------------------------------------------------------------------------------- *)
(* HypervolumeCalculatorMDHOY = hv_spec, any number of objectives >= 1, every point set below the reference point *)
Theorem hoy_correct ref S : ref <> [] -> below_ref ref S -> hoy ref S = hv_spec ref S.
Proof.
  intros Hne HB. unfold hoy.
  rewrite (hoy_top_correct sort_last sort_last_perm sort_last_sorted).
  - rewrite hv_spec_dbl. rewrite Z.mul_comm. apply Z.div_mul.
    apply Z.pow_nonzero; lia.
  - destruct ref; [congruence|discriminate].
  - now apply below_ref_dbl.
Qed.

(* the fuel statement on its own: with the fuel of the entry point, the top-level call never runs out of fuel
   (the recursion measure of the call is below the fuel; see stream_correct for the decrease) *)
Lemma hoy_top_fuel_sufficient low (pts : list hpt) m :
  (forall p, In p pts -> S (length (fst p)) = m) -> (mu low pts < stream_fuel (length pts) m)%nat.
Proof.
  intros H. unfold stream_fuel. destruct m as [|k]; [destruct pts as [|p pts]; [cbn; lia|specialize (H p (or_introl eq_refl)); lia]|].
  pose proof (mu_bound low k pts) as Hb. assert (forall p, In p pts -> length (fst p) = k) by (intros p Hp; specialize (H p Hp); lia).
  specialize (Hb H0). lia.
Qed.

Example hoy_example :
  below_ref [4; 4; 4; 4] [[0; 3; 2; 1]; [1; 2; 3; 0]; [2; 1; 0; 3]; [3; 0; 1; 2]; [1; 1; 2; 2]; [0; 2; 2; 3]; [2; 2; 1; 4]; [1; 3; 0; 2]; [1; 3; 0; 2]] /\
  hoy [4; 4; 4; 4] [[0; 3; 2; 1]; [1; 2; 3; 0]; [2; 1; 0; 3]; [3; 0; 1; 2]; [1; 1; 2; 2]; [0; 2; 2; 3]; [2; 2; 1; 4]; [1; 3; 0; 2]; [1; 3; 0; 2]] = 87 /\
  hv_spec [4; 4; 4; 4] [[0; 3; 2; 1]; [1; 2; 3; 0]; [2; 1; 0; 3]; [3; 0; 1; 2]; [1; 1; 2; 2]; [0; 2; 2; 3]; [2; 2; 1; 4]; [1; 3; 0; 2]; [1; 3; 0; 2]] = 87.
Proof.
  split; [|split; vm_compute; reflexivity].
  intros p Hp. cbn in Hp. unfold leq_all.
  repeat (destruct Hp as [<-|Hp]; [repeat constructor; lia|]). destruct Hp.
Qed.

