(* C12 — the fold constructors and the CVFolds accessors never look at the elements (naturality), hence a
   LabeledData, whose input and label container the library drives separately with the same arguments, keeps
   every input next to its label: in the reorganised set and in every validation / training part. *)
From Coq Require Import List Arith Lia Bool.
From SharkV Require Import ListAux C03Model C03Proofs C12Model C12Folds.
Import ListNotations.

Section Natural.
Context {A B : Type} (f : A -> B).
Variable dflt : A.

Definition cv_map (c : @cv A) : @cv B := mkCV (transform f (cv_set c)) (cv_folds c).

Lemma length_transform (d : @data A) : length (transform f d) = length d.
Proof. unfold transform. apply map_length. Qed.

Lemma regroup_natural order bs (d : @data A) :
  regroup (f dflt) order bs (transform f d) = transform f (regroup dflt order bs d).
Proof.
  unfold regroup. rewrite elems_map, <- chunk_map. f_equal.
  rewrite map_map. apply map_ext. intros i. apply map_nth.
Qed.

Theorem cv_create_natural req (d : @data A) :
  cv_create (f dflt) req (transform f d) = omap cv_map (cv_create dflt req d).
Proof.
  destruct req as [sigma k m|idx k m|first second k m|members k m|idx k m|bperm k]; cbn [cv_create].
  - unfold cv_same_size. rewrite nelems_map. destruct (k =? 0); [reflexivity|].
    destruct (batch_partitioning _ _ _) as [[starts bs]|]; [|reflexivity].
    rewrite repartition_natural. destruct (repartition bs d) as [d1|]; [|reflexivity]. cbn [omap].
    rewrite reorder_natural. destruct (reorder dflt sigma d1) as [d2|]; [|reflexivity]. cbn [omap].
    unfold cv_map. cbn [cv_set cv_folds]. rewrite length_transform. reflexivity.
  - unfold cv_indexed. rewrite nelems_map. destruct (_ || _); [reflexivity|].
    destruct (batch_partitioning _ _ _) as [[starts bs]|]; [|reflexivity]. cbn [omap].
    unfold cv_map. cbn [cv_set cv_folds]. rewrite regroup_natural, length_transform. reflexivity.
  - unfold cv_fully_indexed. rewrite nelems_map. destruct (_ || _); [reflexivity|].
    destruct (batch_partitioning _ _ _) as [[starts bs]|]; [|reflexivity]. cbn [omap].
    unfold cv_map. cbn [cv_set cv_folds]. rewrite regroup_natural, length_transform. reflexivity.
  - unfold cv_balanced. rewrite nelems_map. destruct (_ || _); [reflexivity|].
    destruct (batch_partitioning _ _ _) as [[starts bs]|]; [|reflexivity]. cbn [omap].
    unfold cv_map. cbn [cv_set cv_folds]. rewrite regroup_natural, length_transform. reflexivity.
  - unfold cv_iid, cv_indexed. rewrite nelems_map. destruct (_ || _); [reflexivity|].
    destruct (batch_partitioning _ _ _) as [[starts bs]|]; [|reflexivity]. cbn [omap].
    unfold cv_map. cbn [cv_set cv_folds]. rewrite regroup_natural, length_transform. reflexivity.
  - unfold cv_batch. rewrite length_transform. destruct (_ || _); reflexivity.
Qed.

Theorem validation_natural (c : @cv A) p :
  validation (cv_map c) p = omap (transform f) (validation c p).
Proof. unfold validation, cv_map. cbn [cv_set cv_folds]. apply indexed_subset_natural. Qed.

Theorem training_natural (c : @cv A) p :
  training (cv_map c) p = omap (transform f) (training c p).
Proof. unfold training, cv_map. cbn [cv_set cv_folds]. rewrite length_transform. apply indexed_subset_natural. Qed.

Theorem accessors_natural (c : @cv A) p :
  validation (cv_map c) p = omap (transform f) (validation c p) /\
  training (cv_map c) p = omap (transform f) (training c p).
Proof. split; [apply validation_natural|apply training_natural]. Qed.

End Natural.

Section Pairing.
Context {I L : Type}.

(* the two fold objects the library builds for the inputs and for the labels of a LabeledData are the two
   projections of ONE fold object over the (input,label) pairs: same folds, aligned sets *)
Theorem cv_create_pairing di dl req (z : @data (I * L)) :
  match cv_create di req (inputs (paired z)), cv_create dl req (labels (paired z)) with
  | Some a, Some b => Some (a, b)
  | _, _ => None
  end = omap (fun c => (cv_map fst c, cv_map snd c)) (cv_create (di, dl) req z).
Proof.
  unfold paired. cbn [inputs labels].
  change di with (fst (di, dl)) at 1. change dl with (snd (di, dl)) at 2.
  rewrite !cv_create_natural. destruct (cv_create (di, dl) req z); reflexivity.
Qed.

Theorem validation_pairing (c : @cv (I * L)) p :
  match validation (cv_map fst c) p, validation (cv_map snd c) p with
  | Some a, Some b => Some (mkL a b)
  | _, _ => None
  end = omap paired (validation c p).
Proof. rewrite !validation_natural. destruct (validation c p); reflexivity. Qed.

Theorem training_pairing (c : @cv (I * L)) p :
  match training (cv_map fst c) p, training (cv_map snd c) p with
  | Some a, Some b => Some (mkL a b)
  | _, _ => None
  end = omap paired (training c p).
Proof. rewrite !training_natural. destruct (training c p); reflexivity. Qed.

Theorem parts_pairing (c : @cv (I * L)) p :
  match validation (cv_map fst c) p, validation (cv_map snd c) p with
  | Some a, Some b => Some (mkL a b)
  | _, _ => None
  end = omap paired (validation c p) /\
  match training (cv_map fst c) p, training (cv_map snd c) p with
  | Some a, Some b => Some (mkL a b)
  | _, _ => None
  end = omap paired (training c p).
Proof. split; [apply validation_pairing|apply training_pairing]. Qed.

(* in particular the reorganised labelled set is again a set of pairs *)
Corollary cv_set_pairing (c : @cv (I * L)) :
  mkL (cv_set (cv_map fst c)) (cv_set (cv_map snd c)) = paired (cv_set c) /\
  cv_folds (cv_map fst c) = cv_folds c /\ cv_folds (cv_map snd c) = cv_folds c.
Proof. repeat split. Qed.

End Pairing.
