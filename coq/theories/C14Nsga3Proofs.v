(* C14 — proofs about NSGA3Indicator's model (C14Nsga3.v), axiom-free.
   Main result: the niche-selection loop terminates within the fuel it is given and the returned list consists of
   exactly K distinct indices into the front, for every carrier / comparison / solver answer, provided there is
   at least one reference direction and every association distance compares below DBL_MAX (no NaN / overflow:
   what the repair 87210a93 of the constant-objective case restores). *)
From Coq Require Import List Arith Bool Lia.
From SharkV Require Import ListAux C14Ind C14IndProofs C14Nsga3.
Import ListNotations.

(* ------------------------------------------------------------------------------------------ *)
(* list helpers *)
Lemma filter_upd_same {A} (f : A -> bool) i v (l : list A) d :
  i < length l -> f (nth i l d) = f v -> length (filter f (upd i v l)) = length (filter f l).
Proof.
  revert i. induction l as [|a l IH]; intros [|i] H E; simpl in *; try lia.
  - rewrite E. destruct (f v); reflexivity.
  - specialize (IH i ltac:(lia) E). destruct (f a); simpl; lia.
Qed.

Lemma filter_upd_off {A} (f : A -> bool) i v (l : list A) d :
  i < length l -> f (nth i l d) = true -> f v = false ->
  length (filter f (upd i v l)) + 1 = length (filter f l).
Proof.
  revert i. induction l as [|a l IH]; intros [|i] H E1 E2; simpl in *; try lia.
  - rewrite E1, E2. simpl. lia.
  - specialize (IH i ltac:(lia) E1 E2). destruct (f a); simpl; lia.
Qed.

Lemma filter_length_le {A} (f : A -> bool) (l : list A) : length (filter f l) <= length l.
Proof. induction l as [|a l IH]; simpl; [lia|]. destruct (f a); simpl; lia. Qed.

Lemma NoDup_map_nth_inj {A B} (g : A -> B) (d : A) (l : list A) :
  (forall i j, i < length l -> j < length l -> i <> j -> g (nth i l d) <> g (nth j l d)) -> NoDup (map g l).
Proof.
  intros H. apply (proj2 (NoDup_nth (map g l) (g d))). intros i j Hi Hj E.
  rewrite map_length in Hi, Hj. rewrite !map_nth in E.
  destruct (Nat.eq_dec i j) as [|N]; auto. exfalso. exact (H i j Hi Hj N E).
Qed.

Lemma nth_skipn {A} (d : A) : forall k l i, nth i (skipn k l) d = nth (k + i) l d.
Proof.
  induction k as [|k IH]; intros l i; [reflexivity|].
  destruct l as [|a l]; simpl; [destruct i; reflexivity|apply IH].
Qed.

Lemma nat_ltb_leb x y : Nat.ltb x y = negb (Nat.leb y x).
Proof. destruct (Nat.ltb_spec x y), (Nat.leb_spec y x); simpl; auto; lia. Qed.
Lemma nat_leb_total x y : Nat.leb x y = true \/ Nat.leb y x = true.
Proof. destruct (Nat.leb_spec x y), (Nat.leb_spec y x); auto; lia. Qed.
Lemma nat_leb_trans x y z : Nat.leb x y = true -> Nat.leb y z = true -> Nat.leb x z = true.
Proof. rewrite !Nat.leb_le. lia. Qed.

(* ------------------------------------------------------------------------------------------ *)
Section N3Loop.
  Variable T : Type.
  Variable maxval : T.
  Variable ltb : T -> T -> bool.

  Notation pair_t := (pair_t T).
  Notation pdflt := (pdflt T maxval).
  Definition pfirst (e : pair_t) : nat := fst (snd e).
  Definition psecond (e : pair_t) : nat := snd (snd e).

  (* ---- the search for the closest unassigned associated point *)
  Definition search_step (pairing : list pair_t) (index : nat) (st : bool * (T * nat)) (i : nat) :=
    let e := nth i pairing pdflt in
    if snd (snd e) =? index then (true, kv_min T ltb (snd st) (fst e, i)) else st.

  Lemma search_fold pairing index k n : forall l st,
    (forall i, In i l -> k <= i < n /\ ltb (fst (nth i pairing pdflt)) maxval = true) ->
    (fst st = true -> k <= snd (snd st) < n /\ psecond (nth (snd (snd st)) pairing pdflt) = index) ->
    (fst st = false -> snd st = (maxval, 0)) ->
    let r := fold_left (search_step pairing index) l st in
    (fst r = true -> k <= snd (snd r) < n /\ psecond (nth (snd (snd r)) pairing pdflt) = index) /\
    (fst r = false -> snd r = (maxval, 0) /\ fst st = false /\
                      forall i, In i l -> psecond (nth i pairing pdflt) <> index).
  Proof.
    induction l as [|a l IH]; intros st HL HT HF; cbn zeta; cbn [fold_left].
    - split; [exact HT|]. intros E. split; [auto|]. split; [exact E|]. intros i [].
    - destruct (HL a (or_introl eq_refl)) as [Ra Fa].
      assert (HL' : forall i, In i l -> k <= i < n /\ ltb (fst (nth i pairing pdflt)) maxval = true)
        by (intros; apply HL; now right).
      assert (ST : search_step pairing index st a =
                   if snd (snd (nth a pairing pdflt)) =? index
                   then (true, kv_min T ltb (snd st) (fst (nth a pairing pdflt), a)) else st) by reflexivity.
      rewrite ST. clear ST.
      destruct (Nat.eqb_spec (snd (snd (nth a pairing pdflt))) index) as [E|N].
      + set (st' := (true, kv_min T ltb (snd st) (fst (nth a pairing pdflt), a))).
        assert (HT' : fst st' = true -> k <= snd (snd st') < n /\ psecond (nth (snd (snd st')) pairing pdflt) = index).
        { intros _. unfold st', kv_min. cbn [snd fst].
          destruct (fst st) eqn:Fs.
          - destruct (ltb (fst (nth a pairing pdflt)) (fst (snd st))); cbn [snd]; auto.
          - rewrite (HF eq_refl). cbn [fst]. rewrite Fa. cbn [snd]. auto. }
        destruct (IH st' HL' HT' ltac:(discriminate)) as [R1 R2]. split; [exact R1|].
        intros Er. destruct (R2 Er) as [_ [X _]]. discriminate.
      + destruct (IH st HL' HT HF) as [R1 R2]. split; [exact R1|].
        intros Er. destruct (R2 Er) as [D [Fs NA]]. repeat split; auto.
        intros i [<-|Hi]; auto.
  Qed.

  Lemma n3_search_spec pairing index k n :
    (forall i, k <= i < n -> ltb (fst (nth i pairing pdflt)) maxval = true) ->
    let r := n3_search T maxval ltb pairing index k n in
    (fst r = true -> k <= snd (snd r) < n /\ psecond (nth (snd (snd r)) pairing pdflt) = index) /\
    (fst r = false -> forall i, k <= i < n -> psecond (nth i pairing pdflt) <> index).
  Proof.
    intros HFin. cbn zeta. unfold n3_search.
    change (fold_left _ (seq k (n - k)) (false, (maxval, 0)))
      with (fold_left (search_step pairing index) (seq k (n - k)) (false, (maxval, 0))).
    destruct (search_fold pairing index k n (seq k (n - k)) (false, (maxval, 0))) as [R1 R2].
    - intros i Hi. apply in_seq in Hi. split; [lia|]. apply HFin. lia.
    - discriminate.
    - reflexivity.
    - split; auto. intros E i Hi. destruct (R2 E) as [_ [_ NA]]. apply NA. apply in_seq. lia.
  Qed.

  (* ---- the loop *)
  Definition enabled (n : nat) (rho : list nat) : nat := length (filter (fun v => v <=? n) rho).

  Definition n3_inv (n nA nZ k : nat) (rho : list nat) (pr : list pair_t) : Prop :=
    length pr = n /\ length rho = nZ /\ nA <= k <= n /\
    (forall p, p < n -> pfirst (nth p pr pdflt) < n) /\
    (forall p q, p < n -> q < n -> p <> q -> pfirst (nth p pr pdflt) <> pfirst (nth q pr pdflt)) /\
    (forall p, p < nA -> pfirst (nth p pr pdflt) = p) /\
    (forall p, p < n -> psecond (nth p pr pdflt) < nZ) /\
    (forall p, p < n -> ltb (fst (nth p pr pdflt)) maxval = true) /\
    (forall i, i < nZ -> nth i rho 0 <= k \/
                         (nth i rho 0 = n + 1 /\ forall p, k <= p < n -> psecond (nth p pr pdflt) <> i)).

  Lemma n3_loop_spec n nA nZ K : 1 <= nZ -> forall fuel k rho pr,
    n3_inv n nA nZ k rho pr -> k <= n - K -> (n - K - k) + enabled n rho < fuel ->
    let r := n3_loop T maxval ltb fuel n K k rho pr in
    fst r = n - K /\ exists rho', n3_inv n nA nZ (fst r) rho' (snd r).
  Proof.
    intros HZ. induction fuel as [|fuel IH]; intros k rho pr INV Hk HF; [lia|].
    cbn zeta. cbn [n3_loop].
    destruct (Nat.ltb_spec k (n - K)) as [Hlt|Hge]; [|cbn [fst snd]; split; [lia|exists rho; auto]].
    destruct INV as [Lp [Lr [Rk [FR [FI [FA [SR [FIN RHO]]]]]]]].
    set (index := min_element Nat.ltb rho).
    assert (Nr : rho <> []) by (destruct rho; simpl in *; [lia|discriminate]).
    destruct (min_element_spec Nat.ltb Nat.leb nat_ltb_leb nat_leb_total nat_leb_trans 0 rho Nr) as [Li [MIN _]].
    fold index in Li, MIN. rewrite Lr in Li, MIN.
    (* the reference direction of the unassigned point k is enabled, hence so is the minimum *)
    assert (EN : nth index rho 0 <= k).
    { pose proof (SR k ltac:(lia)) as Hr. set (r := psecond (nth k pr pdflt)) in *.
      assert (nth r rho 0 <= k).
      { destruct (RHO r Hr) as [|[_ NA]]; auto. exfalso. apply (NA k); [lia|reflexivity]. }
      specialize (MIN r Hr). apply Nat.leb_le in MIN. lia. }
    pose proof (n3_search_spec pr index k n ltac:(intros; apply FIN; lia)) as SS. cbn zeta in SS.
    destruct (n3_search T maxval ltb pr index k n) as [found closest]. cbn [fst snd] in SS.
    destruct SS as [S1 S2]. destruct found.
    - (* assign the closest associated point *)
      destruct (S1 eq_refl) as [Rc Ec]. set (c := snd closest) in *.
      apply IH.
      + unfold n3_inv. rewrite swapl_length, upd_length.
        assert (NS : forall p, p < n -> nth p (swapl pdflt k c pr) pdflt = nth (tr k c p) pr pdflt).
        { intros p Hp. apply nth_swapl; lia. }
        assert (TL : forall p, p < n -> tr k c p < n) by (intros; apply tr_lt; lia).
        repeat split; auto; try lia.
        * intros p Hp. rewrite NS by auto. apply FR. auto.
        * intros p q Hp Hq Npq. rewrite !NS by auto. apply FI; auto.
          intros E. apply Npq. eapply tr_inj; eauto.
        * intros p Hp. rewrite NS by lia. rewrite tr_other by lia. auto.
        * intros p Hp. rewrite NS by auto. apply SR. auto.
        * intros p Hp. rewrite NS by auto. apply FIN. auto.
        * intros i Hi. destruct (Nat.eq_dec i index) as [->|Ni].
          -- left. rewrite nth_upd_eq by lia. lia.
          -- rewrite nth_upd_neq by auto. destruct (RHO i Hi) as [|[E NA]]; [left; lia|right].
             split; auto. intros p Hp. rewrite NS by lia. apply NA.
             unfold tr. destruct (p =? k); [lia|]. destruct (p =? c); lia.
      + lia.
      + unfold enabled. rewrite (filter_upd_same _ index _ rho 0); [fold (enabled n rho); lia|lia|].
        destruct (Nat.leb_spec (nth index rho 0) n), (Nat.leb_spec (Datatypes.S (nth index rho 0)) n); auto; lia.
    - (* retire the reference direction *)
      apply IH.
      + unfold n3_inv. rewrite upd_length. repeat split; auto; try lia.
        intros i Hi. destruct (Nat.eq_dec i index) as [->|Ni].
        * right. rewrite nth_upd_eq by lia. split; [reflexivity|exact (S2 eq_refl)].
        * rewrite nth_upd_neq by auto. apply RHO. auto.
      + lia.
      + pose proof (filter_upd_off (fun v => v <=? n) index (n + 1) rho 0 ltac:(lia)) as D.
        unfold enabled in *. rewrite <- D in HF; [lia| |].
        * apply Nat.leb_le. lia.
        * apply Nat.leb_gt. lia.
  Qed.

  (* ---- initial niche counts *)
  Lemma n3_rho0_spec nZ pairing : forall l rho,
    length rho = nZ -> forall m, (forall i, nth i rho 0 <= m) ->
    let r := fold_left (fun rho k => let i := snd (snd (nth k pairing pdflt)) in upd i (Datatypes.S (nth i rho 0)) rho) l rho in
    length r = nZ /\ forall i, nth i r 0 <= m + length l.
  Proof.
    induction l as [|a l IH]; intros rho L m B; cbn zeta; cbn [fold_left length].
    - split; auto. intros i. specialize (B i). lia.
    - set (ia := snd (snd (nth a pairing pdflt))).
      destruct (IH (upd ia (Datatypes.S (nth ia rho 0)) rho) ltac:(now rewrite upd_length) (Datatypes.S m)) as [L' B'].
      + intros i. rewrite nth_upd. destruct (_ && _); [specialize (B ia)|specialize (B i)]; lia.
      + cbn zeta in L', B'. split; [exact L'|]. intros i. specialize (B' i). lia.
  Qed.

  (* ---- the selection part returns K distinct indices into the front *)
  Theorem n3_select_valid nZ nA K (pairing : list pair_t) :
    let n := length pairing in
    1 <= nZ -> nA + K <= n ->
    (forall j, j < n -> pfirst (nth j pairing pdflt) = j /\ psecond (nth j pairing pdflt) < nZ /\
                        ltb (fst (nth j pairing pdflt)) maxval = true) ->
    let res := n3_select T maxval ltb nZ nA K pairing in
    length res = K /\ NoDup res /\ forall i, In i res -> i < n - nA.
  Proof.
    intros n HZ HK HP. cbn zeta. unfold n3_select. fold n.
    destruct (n3_rho0_spec nZ pairing (seq 0 nA) (repeat 0 nZ) (repeat_length 0 nZ) 0) as [L0 B0].
    { intros i. destruct (Nat.lt_ge_cases i nZ).
      - rewrite nth_repeat. lia. - rewrite nth_overflow; [lia|now rewrite repeat_length]. }
    cbn zeta in L0, B0. fold (n3_rho0 T maxval nZ nA pairing) in L0, B0. rewrite seq_length in B0.
    set (rho0 := n3_rho0 T maxval nZ nA pairing) in *.
    assert (INV : n3_inv n nA nZ nA rho0 pairing).
    { unfold n3_inv. repeat split; auto; try lia.
      - intros p Hp. destruct (HP p Hp) as [-> _]. auto.
      - intros p q Hp Hq Npq. destruct (HP p Hp) as [-> _]. destruct (HP q Hq) as [-> _]. auto.
      - intros p Hp. apply HP. lia.
      - intros p Hp. apply HP. auto.
      - intros p Hp. apply HP. auto. }
    pose proof (n3_loop_spec n nA nZ K HZ (n + nZ + 1) nA rho0 pairing INV ltac:(lia)) as LS.
    assert (EB : enabled n rho0 <= nZ) by (unfold enabled; rewrite <- L0; apply filter_length_le).
    specialize (LS ltac:(lia)). cbn zeta in LS.
    destruct (n3_loop T maxval ltb (n + nZ + 1) n K nA rho0 pairing) as [k pr]. cbn [fst snd] in LS.
    destruct LS as [-> [rho' INV']].
    destruct INV' as [Lp [_ [_ [FR [FI [FA _]]]]]].
    assert (GE : forall p, n - K <= p < n -> nA <= pfirst (nth p pr pdflt)).
    { intros p Hp. destruct (Nat.lt_ge_cases (pfirst (nth p pr pdflt)) nA) as [Hlt|]; auto. exfalso.
      apply (FI p (pfirst (nth p pr pdflt))); try lia. rewrite (FA _ Hlt). reflexivity. }
    assert (LS : length (skipn (n - K) pr) = K) by (rewrite skipn_length; lia).
    split; [now rewrite map_length|]. split.
    - apply (NoDup_map_nth_inj _ pdflt). rewrite LS. intros i j Hi Hj Nij.
      rewrite !nth_skipn.
      pose proof (GE (n - K + i) ltac:(lia)). pose proof (GE (n - K + j) ltac:(lia)).
      pose proof (FI (n - K + i) (n - K + j) ltac:(lia) ltac:(lia) ltac:(lia)).
      unfold pfirst in *. lia.
    - intros i Hi. apply in_map_iff in Hi. destruct Hi as [e [<- He]].
      destruct (In_nth _ _ pdflt He) as [t [Ht <-]]. rewrite LS in Ht. rewrite nth_skipn.
      pose proof (GE (n - K + t) ltac:(lia)). pose proof (FR (n - K + t) ltac:(lia)).
      unfold pfirst in *. lia.
  Qed.
End N3Loop.

(* ------------------------------------------------------------------------------------------ *)
(* association and the whole leastContributors *)
Section N3Top.
  Variable T : Type.
  Variables zero one maxval eps : T.
  Variables add sub mul div : T -> T -> T.
  Variable ltb : T -> T -> bool.
  Variable solve : list (list T) -> option (list T).

  Notation dist := (n3_dist T zero add sub mul).
  Notation assoc := (n3_assoc T zero maxval add sub mul ltb).
  Notation pdflt := (pdflt T maxval).

  Definition assoc_ok (m j : nat) (e : pair_t T) : Prop :=
    pfirst T e = j /\ psecond T e < m /\ ltb (fst e) maxval = true.

  Lemma n3_assoc_fold Zr j p : forall l best,
    (forall i, In i l -> i < length Zr /\ ltb (dist (nth i Zr []) p) maxval = true) ->
    assoc_ok (length Zr) j best ->
    assoc_ok (length Zr) j
      (fold_left (fun best i => kv_min T ltb best (dist (nth i Zr []) p, (j, i))) l best).
  Proof.
    induction l as [|a l IH]; intros best HL OK; cbn [fold_left]; auto.
    apply IH; [intros; apply HL; now right|].
    destruct (HL a (or_introl eq_refl)) as [La Fa].
    unfold kv_min. cbn [fst]. destruct (ltb (dist (nth a Zr []) p) (fst best)); auto.
    unfold assoc_ok, pfirst, psecond. cbn [fst snd]. auto.
  Qed.

  Lemma n3_assoc_spec Zr j p : Zr <> [] ->
    (forall i, i < length Zr -> ltb (dist (nth i Zr []) p) maxval = true) ->
    assoc_ok (length Zr) j (assoc Zr j p).
  Proof.
    intros N HF. unfold n3_assoc.
    destruct Zr as [|z0 Zr']; [congruence|]. set (Zr := z0 :: Zr') in *.
    change (seq 0 (length Zr)) with (0 :: seq 1 (length Zr')). cbn [fold_left].
    apply n3_assoc_fold.
    - intros i Hi. apply in_seq in Hi. assert (i < length Zr) by (unfold Zr; simpl; lia). auto.
    - pose proof (HF 0 ltac:(unfold Zr; simpl; lia)) as F0.
      unfold kv_min. cbn [fst]. unfold C14Nsga3.pdflt at 1. cbn [fst]. rewrite F0.
      unfold assoc_ok, pfirst, psecond. cbn [fst snd]. repeat split; auto. unfold Zr; simpl; lia.
  Qed.

  Definition n3_finite (Zr : list (list T)) (points : list (list T)) : Prop :=
    forall j i, j < length points -> i < length Zr ->
      ltb (dist (nth i Zr []) (nth j points [])) maxval = true.

  Lemma n3_normalize_length points :
    length (n3_normalize T zero one maxval eps add sub mul div ltb solve points) = length points.
  Proof. unfold n3_normalize, n3_translate. now rewrite !map_length. Qed.

  (* NSGA3Indicator::leastContributors returns K distinct indices into the front *)
  Theorem nsga3_lcs_valid Zr F A K :
    Zr <> [] -> K <= length F ->
    n3_finite Zr (n3_normalize T zero one maxval eps add sub mul div ltb solve (A ++ F)) ->
    let res := nsga3_lcs T zero one maxval eps add sub mul div ltb solve Zr F A K in
    length res = K /\ NoDup res /\ forall i, In i res -> i < length F.
  Proof.
    intros NZ HK FIN. cbn zeta. unfold nsga3_lcs.
    set (points := n3_normalize T zero one maxval eps add sub mul div ltb solve (A ++ F)) in *.
    assert (LP : length points = length A + length F) by (unfold points; now rewrite n3_normalize_length, app_length).
    set (pairing := n3_pairing T zero maxval add sub mul ltb Zr points).
    assert (LQ : length pairing = length points) by (unfold pairing, n3_pairing; now rewrite map_length, seq_length).
    pose proof (n3_select_valid T maxval ltb (length Zr) (length A) K pairing) as V. cbn zeta in V.
    rewrite LQ, LP in V.
    destruct V as [V1 [V2 V3]].
    - destruct Zr; simpl; [congruence|lia].
    - lia.
    - intros j Hj. unfold pairing, n3_pairing.
      rewrite (nth_indep _ _ ((fun j => assoc Zr j (nth j points [])) 0)) by (rewrite map_length, seq_length; lia).
      rewrite (map_nth (fun j => assoc Zr j (nth j points []))). rewrite seq_nth by lia. cbn [Nat.add].
      apply n3_assoc_spec; auto. intros i Hi. apply FIN; auto. lia.
    - repeat split; auto. intros i Hi. specialize (V3 i Hi). lia.
  Qed.
End N3Top.

(* ------------------------------------------------------------------------------------------ *)
(* The selection theorems need the indicator's answer to be valid only on the ONE call the selection makes
   (an indicator that is valid under a side condition on its input, like NSGA3Indicator, is covered whenever
   the side condition holds for the split front and its archive). *)
From Coq Require Import ZArith.
From SharkV Require Import C13Model C14Model C14Proofs.

Section LocalOracle.
  Variable lcs : list point -> list point -> nat -> list nat.

  Definition valid_call (F A : list point) (K : nat) : Prop :=
    length (lcs F A K) = K /\ NoDup (lcs F A K) /\ (forall i, In i (lcs F A K) -> i < length F).

  Definition lpt_eq_dec : forall a b : list point, {a = b} + {a <> b} := list_eq_dec (list_eq_dec Z.eq_dec).

  (* lcs on the recorded call, a trivially valid answer elsewhere *)
  Definition patched (F0 A0 : list point) (K0 : nat) (F A : list point) (K : nat) : list nat :=
    if lpt_eq_dec F F0 then if lpt_eq_dec A A0 then if Nat.eq_dec K K0 then lcs F A K
    else seq 0 K else seq 0 K else seq 0 K.

  Lemma patched_valid F0 A0 K0 : (K0 <= length F0 -> valid_call F0 A0 K0) -> valid_oracle (patched F0 A0 K0).
  Proof.
    intros V F A K HK. unfold patched.
    assert (D : length (seq 0 K) = K /\ NoDup (seq 0 K) /\ (forall i, In i (seq 0 K) -> i < length F)).
    { rewrite seq_length. repeat split; [apply seq_NoDup|]. intros i Hi. apply in_seq in Hi. lia. }
    destruct (lpt_eq_dec F F0) as [->|]; auto. destruct (lpt_eq_dec A A0) as [->|]; auto.
    destruct (Nat.eq_dec K K0) as [->|]; auto. apply V. auto.
  Qed.

  Lemma select_patched r S mu :
    let o := select_with_ranks lcs r S mu in
    select_with_ranks (patched (pts S (o_front o)) (pts S (o_archive o)) (o_K o)) r S mu = o.
  Proof.
    cbn zeta. unfold select_with_ranks.
    destruct (drop_loop r mu (list_max r) (length r) (repeat true (length r))) as [[rk ps] s1].
    cbn [o_front o_archive o_K]. unfold patched.
    destruct (lpt_eq_dec _ _) as [_|N]; [|congruence]. destruct (lpt_eq_dec _ _) as [_|N]; [|congruence].
    destruct (Nat.eq_dec _ _) as [_|N]; [|congruence]. reflexivity.
  Qed.

  Theorem selection_valid_on_call r S mu :
    1 <= mu <= length r -> (forall i, i < length r -> 1 <= nth i r 0) ->
    let o := select_with_ranks lcs r S mu in
    (o_K o <= length (o_front o) -> valid_call (pts S (o_front o)) (pts S (o_archive o)) (o_K o)) ->
    (count_true (o_sel o) = mu /\ length (o_sel o) = length r) /\
    forall i j, i < length r -> j < length r ->
      nth i (o_sel o) false = true -> nth j (o_sel o) false = false -> nth i r 0 <= nth j r 0.
  Proof.
    intros Hmu R1 o V.
    assert (VO : valid_oracle (patched (pts S (o_front o)) (pts S (o_archive o)) (o_K o))).
    { apply patched_valid. intros HK. apply V. unfold pts in HK. now rewrite map_length in HK. }
    pose proof (select_patched r S mu) as E. cbn zeta in E. fold o in E.
    split.
    - rewrite <- E. apply selection_count; auto.
    - rewrite <- E. apply selection_rank_monotone; auto.
  Qed.
End LocalOracle.

(* ------------------------------------------------------------------------------------------ *)
(* satisfiability: rational instance, four points, the two coordinate axes as reference directions *)
From Coq Require Import QArith.
Definition qlt (x y : Q) : bool := negb (Qle_bool y x).
Definition q_nsga3 := nsga3_lcs Q 0%Q 1%Q (1000000 # 1)%Q (1 # 100000)%Q Qplus Qminus Qmult Qdiv qlt (fun _ => None).
Definition q_pts (l : list (list Z)) : list (list Q) := map (map inject_Z) l.

Example nsga3_example :
  let F := q_pts [[1; 5]; [2; 3]; [4; 2]; [5; 1]]%Z in
  let Zr := q_pts [[1; 0]; [0; 1]]%Z in
  n3_finite Q 0%Q (1000000 # 1)%Q Qplus Qminus Qmult qlt Zr
    (n3_normalize Q 0%Q 1%Q (1000000 # 1)%Q (1 # 100000)%Q Qplus Qminus Qmult Qdiv qlt (fun _ => None) ([] ++ F)) /\
  q_nsga3 Zr F [] 2 = [2; 1]%nat /\ q_nsga3 Zr F [] 0 = [] /\ length (q_nsga3 Zr F [] 4) = 4%nat.
Proof.
  cbv zeta. split; [|vm_compute; repeat split; reflexivity].
  intros j i Hj Hi. vm_compute in Hj, Hi.
  destruct j as [|[|[|[|j]]]]; try lia; destruct i as [|[|i]]; try lia; vm_compute; reflexivity.
Qed.

(* ------------------------------------------------------------------------------------------ *)
(* the normalizer is positive in every component, whatever the plane solver answers (rational instance):
   the plane branch is only taken when min(w) > 0, the nadir branch replaces every component that is not > 0
   (objective constant over front and archive: /repo commit 87210a93) by 1.  No division by zero, no NaN. *)
From Coq Require Import Lqa.

Lemma qlt_true x y : qlt x y = true -> (x < y)%Q.
Proof.
  unfold qlt. intros H. apply negb_true_iff in H. apply Qnot_le_lt. intros L.
  apply Qle_bool_iff in L. congruence.
Qed.

Lemma fold_tmin_le : forall (w : list Q) acc,
  (fold_left (tmin Q qlt) w acc <= acc)%Q /\ forall x, In x w -> (fold_left (tmin Q qlt) w acc <= x)%Q.
Proof.
  induction w as [|a w IH]; intros acc; simpl; [split; [lra|intros x []]|].
  destruct (IH (tmin Q qlt acc a)) as [H1 H2]. unfold tmin in *.
  destruct (qlt a acc) eqn:C.
  - apply qlt_true in C. split; [lra|]. intros x [<-|Hx]; auto.
  - unfold qlt in C. apply negb_false_iff in C. apply Qle_bool_iff in C. split; auto.
    intros x [<-|Hx]; [lra|auto].
Qed.

Theorem n3_normalizer_positive (maxval eps : Q) (solve : list (list Q) -> option (list Q)) points x :
  In x (n3_normalizer Q 0%Q 1%Q maxval eps Qplus Qminus Qmult Qdiv qlt solve points) -> (0 < x)%Q.
Proof.
  unfold n3_normalizer.
  assert (NAD : In x (n3_nadir Q 0%Q 1%Q qlt points) -> (0 < x)%Q).
  { unfold n3_nadir. intros H. apply in_map_iff in H. destruct H as [y [<- _]].
    destruct (qlt 0 y) eqn:C; [now apply qlt_true in C|lra]. }
  destruct (solve _) as [w|]; auto.
  destruct (qlt 0 (fold_left (tmin Q qlt) w maxval)) eqn:C; auto.
  apply qlt_true in C. intros H. apply in_map_iff in H. destruct H as [y [<- Hy]].
  destruct (fold_tmin_le w maxval) as [_ LE]. specialize (LE y Hy).
  unfold Qdiv. rewrite Qmult_1_l. apply Qinv_lt_0_compat. lra.
Qed.
