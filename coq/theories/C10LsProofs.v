(* C10 — proofs about the line searches of C10LsModel.v (wolfecubic, dlinmin, the dispatch, the optimizer
   step for all line-search types).  Every statement is for EVERY oracle of trial step lengths.  Axiom-free. *)
From Coq Require Import List QArith Qreduction Qabs Bool Arith Lia Lqa.
From SharkV Require Import C10Model C10Proofs C10LsModel.
Import ListNotations.
Open Scope Q_scope.

Lemma ray_zero : forall point d, ray point d 0 = point.
Proof. reflexivity. Qed.

Lemma ray_cases : forall point d t, ray point d t = point \/ ray point d t = vadd point (vscale t d).
Proof. intros. unfold ray. destruct (Qeq_bool t 0); auto. Qed.

Lemma qltb_false_le a b : qltb a b = false -> b <= a.
Proof.
  unfold qltb. rewrite negb_false_iff. intro H. apply Qle_bool_iff. exact H.
Qed.

(* p' is on the line / on the ray through point with direction d *)
Definition on_line (point d p' : vec) : Prop := p' = point \/ exists t, p' = vadd point (vscale t d).
Definition on_ray (point d p' : vec) : Prop := p' = point \/ exists t, 0 <= t /\ p' = vadd point (vscale t d).

Lemma ray_on_line : forall point d t, on_line point d (ray point d t).
Proof. intros. destruct (ray_cases point d t) as [E|E]; [left | right; exists t]; exact E. Qed.

Lemma ray_on_ray : forall point d t, 0 <= t -> on_ray point d (ray point d t).
Proof. intros. destruct (ray_cases point d t) as [E|E]; [left | right; exists t; split]; auto. Qed.

Section Objective.
  Variable f : vec -> Q.
  Variable grad : vec -> vec.
  Variable feasible : vec -> bool.

  Notation eval3 := (eval3 f grad).

  (* an entry is good when its value and gradient are the objective's at point + t*d *)
  Definition good (point d : vec) (e : entry) : Prop :=
    e_f e = f (ray point d (e_t e)) /\ e_g e = grad (ray point d (e_t e)).

  Lemma eval3_good : forall point d t, good point d (eval3 point d t).
  Proof. intros. split; reflexivity. Qed.

  Lemma start_good : forall point d value g, value = f point -> g = grad point -> good point d (0, value, g).
  Proof. intros point d value g Hv Hg. split; cbn [e_f e_g e_t fst snd]; rewrite ray_zero; assumption. Qed.

  (* ---------------- wolfecubic: every kept entry is one of the evaluated ones ---------------- *)
  Section Pres.
    Variable P : entry -> Prop.
    Variables (point d : vec) (value gtd : Q).
    Hypothesis P_eval : forall t, P (eval3 point d t).

    Lemma wc_update_pres : forall e0 e1 new, P e0 -> P e1 -> P new ->
      P (fst (fst (wc_update d value gtd e0 e1 new))) /\ P (snd (fst (wc_update d value gtd e0 e1 new))).
    Proof.
      intros e0 e1 new H0 H1 Hn. unfold wc_update.
      destruct (qltb (e_f e1) (e_f e0));
        repeat match goal with |- context [if ?c then _ else _] => destruct c end; cbn [fst snd]; auto.
    Qed.

    Lemma wc_zoom_pres : forall fuel iter zo e0 e1, P e0 -> P e1 ->
      P (fst (fst (wc_zoom f grad fuel iter zo point d value gtd e0 e1))) /\
      P (snd (fst (wc_zoom f grad fuel iter zo point d value gtd e0 e1))).
    Proof.
      induction fuel as [|fuel IH]; intros iter zo e0 e1 H0 H1; cbn [wc_zoom]; [auto|].
      destruct (Nat.ltb iter wc_max_iter); [|auto].
      pose proof (wc_update_pres e0 e1 (eval3 point d (zo (S iter))) H0 H1 (P_eval _)) as [A B].
      destruct (wc_update d value gtd e0 e1 _) as [[a b] done]. cbn [fst snd] in A, B.
      destruct done; [auto|]. destruct (qltb _ wc_tol); [auto|]. apply IH; auto.
    Qed.

    Lemma wc_bracketing_pres : forall fuel k ex prev new, P prev -> P new ->
      match wc_bracketing f grad fuel k ex point d value gtd prev new with
      | WB_pair e0 e1 _ => P e0 /\ P e1
      | WB_single e0 _ => P e0
      | WB_exhausted e => P e
      end.
    Proof.
      induction fuel as [|fuel IH]; intros k ex prev new Hp Hn; cbn [wc_bracketing]; [exact Hp|].
      destruct (_ || _); [auto|]. destruct (Qle_bool (Qabs _) _); [auto|]. destruct (Qle_bool 0 _); [auto|].
      apply IH; auto.
    Qed.
  End Pres.

  (* shape of the result of wolfecubic: unchanged triple, or one of the entries, written as coded *)
  Lemma wolfecubic_shape : forall (P : entry -> Prop) o point d value g t0 r,
    (forall t, P (eval3 point d t)) -> P (0, value, g) ->
    wolfecubic f grad o point d value g t0 = Some r ->
    r = (point, value, g) \/ exists e, P e /\ r = wc_write point d e.
  Proof.
    intros P o point d value g t0 r Pe P0 H. unfold wolfecubic in H.
    pose proof (wc_bracketing_pres P point d value (dot g d) Pe wc_max_iter 1%nat (o_wexp o)
                  (0, value, g) (eval3 point d t0) P0 (Pe t0)) as B.
    destruct (wc_bracketing _ _ _ _ _ _ _ _ _ _ _) as [e0 e1 iter | e0 iter | e].
    - destruct B as [B0 B1].
      pose proof (wc_zoom_pres P point d value (dot g d) Pe wc_max_iter iter (o_wzoom o) e0 e1 B0 B1) as [Z0 Z1].
      destruct (wc_zoom _ _ _ _ _ _ _ _ _ _ _) as [[b0 b1] it]. cbn [fst snd] in Z0, Z1.
      destruct (_ || _).
      + right. destruct (qltb (e_f b0) (e_f b1)); inversion H; eauto.
      + left. inversion H. reflexivity.
    - destruct (_ || _); [|discriminate]. right. inversion H. eauto.
    - destruct (qltb (e_f e) value); inversion H; [right; eauto | left; reflexivity].
  Qed.

  (* STATE CONSISTENCY of wolfecubic, every oracle *)
  Theorem wolfecubic_consistent : forall o point d value g t0 p' v' g',
    value = f point -> g = grad point ->
    wolfecubic f grad o point d value g t0 = Some (p', v', g') ->
    v' = f p' /\ g' = grad p'.
  Proof.
    intros o point d value g t0 p' v' g' Hv Hg H.
    destruct (wolfecubic_shape (good point d) o point d value g t0 _ (eval3_good point d)
                (start_good point d value g Hv Hg) H) as [E | (e & [G1 G2] & E)].
    - inversion E; subst. auto.
    - unfold wc_write in E. inversion E; subst. auto.
  Qed.

  (* the new point lies on the search line through the old one; the step length is 0 (nothing written or
     bracket end 0 written), the initial one, or one the oracle produced *)
  Theorem wolfecubic_on_line : forall o point d value g t0 p' v' g',
    wolfecubic f grad o point d value g t0 = Some (p', v', g') ->
    on_line point d p'.
  Proof.
    intros o point d value g t0 p' v' g' H.
    destruct (wolfecubic_shape (fun _ => True) o point d value g t0 _ (fun _ => I) I H) as [E | (e & _ & E)].
    - left. inversion E. reflexivity.
    - unfold wc_write in E. inversion E. apply ray_on_line.
  Qed.

  (* ... on the search RAY (t >= 0) when the oracle never proposes a negative step length (the C++ clamps the
     interpolated step into the bracket, whose ends are step lengths already used) *)
  Theorem wolfecubic_on_ray : forall o point d value g t0 p' v' g',
    0 <= t0 -> (forall k q, 0 <= q -> 0 <= o_wexp o k q) -> (forall k, 0 <= o_wzoom o k) ->
    wolfecubic f grad o point d value g t0 = Some (p', v', g') ->
    on_ray point d p'.
  Proof.
    intros o point d value g t0 p' v' g' Ht Hex Hzo H. unfold wolfecubic in H.
    set (gtd := dot g d) in *.
    (* bracketing keeps non-negative step lengths *)
    assert (forall fuel k prev new, 0 <= e_t prev -> 0 <= e_t new ->
      match wc_bracketing f grad fuel k (o_wexp o) point d value gtd prev new with
      | WB_pair e0 e1 _ => 0 <= e_t e0 /\ 0 <= e_t e1
      | WB_single e0 _ => 0 <= e_t e0
      | WB_exhausted e => 0 <= e_t e
      end) as BR.
    { induction fuel as [|fuel IH]; intros k prev new Hp Hn; cbn [wc_bracketing]; [exact Hp|].
      destruct (_ || _); [auto|]. destruct (Qle_bool (Qabs _) _); [auto|]. destruct (Qle_bool 0 _); [auto|].
      apply IH; [exact Hn|]. cbn [eval3 C10LsModel.eval3 e_t fst]. apply Hex. rewrite qmul_eq. lra. }
    (* zoom: entries are old ones or evaluated at an oracle step length *)
    assert (forall fuel iter e0 e1, 0 <= e_t e0 -> 0 <= e_t e1 ->
      0 <= e_t (fst (fst (wc_zoom f grad fuel iter (o_wzoom o) point d value gtd e0 e1))) /\
      0 <= e_t (snd (fst (wc_zoom f grad fuel iter (o_wzoom o) point d value gtd e0 e1)))) as ZM.
    { induction fuel as [|fuel IH]; intros iter e0 e1 H0 H1; cbn [wc_zoom]; [auto|].
      destruct (Nat.ltb iter wc_max_iter); [|auto].
      pose proof (wc_update_pres (fun e => 0 <= e_t e) d value gtd e0 e1 (eval3 point d (o_wzoom o (S iter)))
                    H0 H1 (Hzo _)) as [A B].
      destruct (wc_update d value gtd e0 e1 _) as [[a b] done]. cbn [fst snd] in A, B.
      destruct done; [auto|]. destruct (qltb _ wc_tol); [auto|]. apply IH; auto. }
    specialize (BR wc_max_iter 1%nat (0, value, g) (eval3 point d t0) (Qle_refl 0) Ht).
    destruct (wc_bracketing _ _ _ _ _ _ _ _ _ _ _) as [e0 e1 iter | e0 iter | e].
    - destruct BR as [B0 B1]. specialize (ZM wc_max_iter iter e0 e1 B0 B1).
      destruct (wc_zoom _ _ _ _ _ _ _ _ _ _ _) as [[b0 b1] it]. cbn [fst snd] in ZM. destruct ZM as [Z0 Z1].
      destruct (_ || _).
      + destruct (qltb (e_f b0) (e_f b1)); inversion H; apply ray_on_ray; assumption.
      + inversion H. left. reflexivity.
    - destruct (_ || _); [|discriminate]. inversion H. apply ray_on_ray; assumption.
    - destruct (qltb (e_f e) value); inversion H; [apply ray_on_ray; assumption | left; reflexivity].
  Qed.

  (* MONOTONICITY of wolfecubic: along a non-ascent direction with a non-negative initial step length the value
     never increases, for every oracle *)
  Lemma armijo_le : forall value t gtd fnew,
    0 <= t -> gtd <= 0 -> qltb (qadd value (qmul (qmul c1 t) gtd)) fnew = false -> fnew <= value.
  Proof.
    intros value t gtd fnew Ht Hg H. apply qltb_false_le in H. rewrite qadd_eq, !qmul_eq in H.
    assert (c1 * t * gtd <= 0).
    { apply mul_nonneg_nonpos; auto. apply mul_nonneg; auto. pose proof c1_pos. lra. }
    lra.
  Qed.

  Lemma wc_update_min : forall d value gtd e0 e1 new,
    (e_f e0 <= value \/ e_f e1 <= value) ->
    let r := wc_update d value gtd e0 e1 new in
    e_f (fst (fst r)) <= value \/ e_f (snd (fst r)) <= value.
  Proof.
    intros d value gtd e0 e1 new H. unfold wc_update.
    destruct (qltb (e_f e1) (e_f e0)) eqn:L.
    - apply qltb_lt in L.
      assert (e_f e1 <= value) as Hlo by (destruct H; lra).
      destruct (_ || _) eqn:C; cbn [fst snd]; [auto|].
      apply orb_false_iff in C. destruct C as [_ C]. apply qltb_false_le in C.
      repeat match goal with |- context [if ?c then _ else _] => destruct c end; cbn [fst snd]; right; lra.
    - apply qltb_false_le in L.
      assert (e_f e0 <= value) as Hlo by (destruct H; lra).
      destruct (_ || _) eqn:C; cbn [fst snd]; [auto|].
      apply orb_false_iff in C. destruct C as [_ C]. apply qltb_false_le in C.
      repeat match goal with |- context [if ?c then _ else _] => destruct c end; cbn [fst snd]; left; lra.
  Qed.

  Lemma wc_zoom_min : forall fuel iter zo point d value gtd e0 e1,
    (e_f e0 <= value \/ e_f e1 <= value) ->
    let r := wc_zoom f grad fuel iter zo point d value gtd e0 e1 in
    e_f (fst (fst r)) <= value \/ e_f (snd (fst r)) <= value.
  Proof.
    induction fuel as [|fuel IH]; intros iter zo point d value gtd e0 e1 H; cbn [wc_zoom]; [exact H|].
    destruct (Nat.ltb iter wc_max_iter); [|exact H].
    pose proof (wc_update_min d value gtd e0 e1 (eval3 point d (zo (S iter))) H) as U. cbv zeta in U.
    destruct (wc_update d value gtd e0 e1 _) as [[a b] done]. cbn [fst snd] in U.
    destruct done; [exact U|]. destruct (qltb _ wc_tol); [exact U|]. apply IH; exact U.
  Qed.

  Lemma wc_bracketing_min : forall fuel k ex point d value gtd prev new,
    gtd <= 0 -> e_f prev <= value -> (1 <= k)%nat -> ((1 < k)%nat \/ 0 <= e_t new) ->
    match wc_bracketing f grad fuel k ex point d value gtd prev new with
    | WB_pair e0 e1 _ => e_f e0 <= value \/ e_f e1 <= value
    | WB_single e0 _ => e_f e0 <= value
    | WB_exhausted e => e_f e <= value
    end.
  Proof.
    induction fuel as [|fuel IH]; intros k ex point d value gtd prev new Hg Hp Hk1 Hk; cbn [wc_bracketing]; [exact Hp|].
    destruct (_ || _) eqn:C; [auto|].
    apply orb_false_iff in C. destruct C as [C1 C2].
    assert (e_f new <= value) as Hn.
    { destruct Hk as [Hk | Hk].
      - apply Nat.ltb_lt in Hk. rewrite Hk in C2. cbn [andb] in C2.
        destruct (Qle_bool (e_f prev) (e_f new)) eqn:E; [discriminate|].
        assert (~ e_f prev <= e_f new) by (intro X; apply Qle_bool_iff in X; congruence). lra.
      - eapply armijo_le; eauto. }
    destruct (Qle_bool (Qabs _) _); [exact Hn|]. destruct (Qle_bool 0 _); [auto|].
    apply IH; auto; try lia; left; lia.
  Qed.

  Theorem wolfecubic_monotone : forall o point d value g t0 p' v' g',
    0 <= t0 -> dot g d <= 0 ->
    wolfecubic f grad o point d value g t0 = Some (p', v', g') -> v' <= value.
  Proof.
    intros o point d value g t0 p' v' g' Ht Hd H. unfold wolfecubic in H.
    pose proof (wc_bracketing_min wc_max_iter 1%nat (o_wexp o) point d value (dot g d) (0, value, g)
                  (eval3 point d t0) Hd (Qle_refl _) (le_n 1) (or_intror Ht)) as B.
    destruct (wc_bracketing _ _ _ _ _ _ _ _ _ _ _) as [e0 e1 iter | e0 iter | e].
    - pose proof (wc_zoom_min wc_max_iter iter (o_wzoom o) point d value (dot g d) e0 e1 B) as Z. cbv zeta in Z.
      destruct (wc_zoom _ _ _ _ _ _ _ _ _ _ _) as [[b0 b1] it]. cbn [fst snd] in Z.
      destruct (_ || _).
      + destruct (qltb (e_f b0) (e_f b1)) eqn:L; inversion H; subst.
        * apply qltb_lt in L. destruct Z; lra.
        * apply qltb_false_le in L. destruct Z; lra.
      + inversion H; subst. lra.
    - destruct (_ || _); [|discriminate]. inversion H; subst. exact B.
    - destruct (qltb (e_f e) value); inversion H; subst; [exact B | lra].
  Qed.

  (* what is left undefined after the repair 1272c59f: only a strong-Wolfe point found in the very last bracketing
     iteration (iter = maxIter, bracketf[1] unassigned) whose value is not below the old one, so that the write-back test
     goes on to read bracketf[1] *)
  Theorem wolfecubic_undefined_iff : forall o point d value g t0,
    wolfecubic f grad o point d value g t0 = None <->
    match wc_bracketing f grad wc_max_iter 1 (o_wexp o) point d value (dot g d) (0, value, g) (eval3 point d t0) with
    | WB_single e0 iter => (wc_max_iter <= iter)%nat /\ value <= e_f e0
    | _ => False
    end.
  Proof.
    intros. unfold wolfecubic.
    destruct (wc_bracketing _ _ _ _ _ _ _ _ _ _ _) as [e0 e1 iter | e0 iter | e].
    - destruct (wc_zoom _ _ _ _ _ _ _ _ _ _ _) as [[b0 b1] it]. destruct (_ || _); split; intro H; try discriminate; contradiction.
    - destruct (Nat.ltb iter wc_max_iter) eqn:L; cbn [orb].
      + apply Nat.ltb_lt in L. split; [discriminate | intros [A _]; lia].
      + apply Nat.ltb_ge in L. destruct (qltb (e_f e0) value) eqn:E.
        * apply qltb_lt in E. split; [discriminate | intros [_ B]; lra].
        * apply qltb_false_le in E. split; auto.
    - destruct (qltb (e_f e) value); split; intro H; try discriminate; contradiction.
  Qed.

  (* ... and that needs a NEGATIVE initial step length.  Along an ascent direction (gtd > 0) the strong-Wolfe test
     |gtd_new| <= -c2 gtd never holds; otherwise a strong-Wolfe point found in iteration k > 1 lies strictly below the
     first trial, which passed the sufficient-decrease test with t0 >= 0 *)
  Lemma wc_c2_pos : 0 < wc_c2. Proof. reflexivity. Qed.

  Lemma wc_bracketing_no_single_ascent : forall fuel k ex point d value gtd prev new,
    0 < gtd ->
    match wc_bracketing f grad fuel k ex point d value gtd prev new with WB_single _ _ => False | _ => True end.
  Proof.
    induction fuel as [|fuel IH]; intros k ex point d value gtd prev new Hg; cbn [wc_bracketing]; [exact I|].
    destruct (_ || _); [exact I|].
    destruct (Qle_bool (Qabs _) _) eqn:B.
    - apply Qle_bool_iff in B. rewrite qmul_eq in B. pose proof (Qabs_nonneg (dot (e_g new) d)). pose proof wc_c2_pos.
      assert (0 < wc_c2 * gtd) by (apply Qmult_lt_0_compat; assumption).
      assert (- wc_c2 * gtd == - (wc_c2 * gtd)) as E by ring. rewrite E in B. lra.
    - destruct (Qle_bool 0 _); [exact I|]. apply IH. exact Hg.
  Qed.

  Lemma wc_bracketing_single_below : forall fuel k ex point d value gtd prev new,
    gtd <= 0 -> e_f prev <= value -> (1 <= k)%nat -> ((1 < k)%nat \/ 0 <= e_t new) ->
    match wc_bracketing f grad fuel k ex point d value gtd prev new with
    | WB_single e0 iter => (1 < iter)%nat -> e_f e0 < value
    | _ => True
    end.
  Proof.
    induction fuel as [|fuel IH]; intros k ex point d value gtd prev new Hg Hp Hk1 Hk; cbn [wc_bracketing]; [exact I|].
    destruct (_ || _) eqn:C; [exact I|].
    apply orb_false_iff in C. destruct C as [C1 C2].
    assert ((1 < k)%nat -> e_f new < e_f prev) as Hlt.
    { intro K. apply Nat.ltb_lt in K. rewrite K in C2. cbn [andb] in C2.
      destruct (Qle_bool (e_f prev) (e_f new)) eqn:E; [discriminate|].
      assert (~ e_f prev <= e_f new) by (intro X; apply Qle_bool_iff in X; congruence). lra. }
    assert (e_f new <= value) as Hn.
    { destruct Hk as [K | K]; [specialize (Hlt K); lra | eapply armijo_le; eauto]. }
    destruct (Qle_bool (Qabs _) _).
    - intro K. specialize (Hlt K). lra.
    - destruct (Qle_bool 0 _); [exact I|]. apply IH; auto; try lia.
  Qed.

  (* the repaired wolfecubic is DEFINED for every oracle, every objective, every incoming value / gradient (consistent
     or not) as soon as the initial step length is not negative *)
  Theorem wolfecubic_defined : forall o point d value g t0,
    0 <= t0 -> wolfecubic f grad o point d value g t0 <> None.
  Proof.
    intros o point d value g t0 Ht H. apply wolfecubic_undefined_iff in H.
    destruct (Qlt_le_dec 0 (dot g d)) as [Gp | Gn].
    - pose proof (wc_bracketing_no_single_ascent wc_max_iter 1%nat (o_wexp o) point d value (dot g d) (0, value, g)
                    (eval3 point d t0) Gp) as N.
      destruct (wc_bracketing _ _ _ _ _ _ _ _ _ _ _); auto.
    - pose proof (wc_bracketing_single_below wc_max_iter 1%nat (o_wexp o) point d value (dot g d) (0, value, g)
                    (eval3 point d t0) Gn (Qle_refl _) (le_n 1) (or_intror Ht)) as N.
      destruct (wc_bracketing _ _ _ _ _ _ _ _ _ _ _) as [e0 e1 iter | e0 iter | e]; auto.
      destruct H as [A B]. unfold wc_max_iter in A. assert (e_f e0 < value) by (apply N; lia). cbn [e_f fst snd] in *. lra.
  Qed.

  (* ---------------- dlinmin ---------------- *)
  Lemma dl_brent_spec : forall point d us x fx,
    fx = f (ray point d x) ->
    let r := dl_brent f point d x fx us in
    snd r = f (ray point d (fst r)) /\ snd r <= fx /\ (fst r = x \/ In (fst r) us).
  Proof.
    induction us as [|u us IH]; intros x fx H; cbn [dl_brent].
    - cbn [fst snd]. repeat split; auto. lra.
    - destruct (Qle_bool _ fx) eqn:E.
      + apply Qle_bool_iff in E.
        destruct (IH u (f (ray point d u)) eq_refl) as (A & B & C).
        repeat split; [exact A | lra | right; destruct C as [C|C]; [left; symmetry; exact C | right; exact C]].
      + destruct (IH x fx H) as (A & B & C). repeat split; auto.
        destruct C; [left | right; right]; auto.
  Qed.

  (* consistency needs no hypothesis: dlinmin re-evaluates the objective at the starting point *)
  Theorem dlinmin_spec : forall o point d,
    let r := dlinmin f o point d in
    snd r = f (fst r) /\ snd r <= f point /\
    (fst r = point \/ exists u, In u (o_dx0 o :: firstn dl_itmax (o_dus o)) /\ fst r = ray point d u).
  Proof.
    intros o point d. unfold dlinmin.
    destruct (dl_brent_spec point d (firstn dl_itmax (o_dus o)) (o_dx0 o) _ eq_refl) as (A & B & C).
    destruct (dl_brent _ _ _ _ _ _) as [x fx]. cbn [fst snd] in *.
    destruct (qltb fx (f point)) eqn:E; cbn [fst snd].
    - apply qltb_lt in E. repeat split; [exact A | lra |].
      right. exists x. split; [|reflexivity]. destruct C as [C|C]; [left; symmetry; exact C | right; exact C].
    - repeat split; [lra | left; reflexivity].
  Qed.

  (* ---------------- LineSearch::operator(), all types ---------------- *)
  Theorem linesearch_consistent : forall ty o point d value g t0 p' v' g',
    value = f point -> g = grad point ->
    linesearch f grad ty o point d value g t0 = Some (p', v', g') ->
    v' = f p' /\ g' = grad p'.
  Proof.
    intros ty o point d value g t0 p' v' g' Hv Hg H.
    destruct ty as [|[|[|ty]]]; cbn [linesearch] in H.
    - pose proof (dlinmin_spec o point d) as (A & _). destruct (dlinmin f o point d) as [p v].
      cbn [fst snd] in A. inversion H; subst. auto.
    - eapply wolfecubic_consistent; eauto.
    - pose proof (backtracking_consistent f grad point d value g t0 Hv Hg) as B.
      destruct (backtracking _ _ _ _ _ _ _) as [[p v] g0]. inversion H; subst. exact B.
    - inversion H; subst. auto.
  Qed.

  Theorem linesearch_monotone : forall ty o point d value g t0 p' v' g',
    value = f point -> 0 <= t0 -> dot g d <= 0 ->
    linesearch f grad ty o point d value g t0 = Some (p', v', g') -> v' <= value.
  Proof.
    intros ty o point d value g t0 p' v' g' Hv Ht Hd H.
    destruct ty as [|[|[|ty]]]; cbn [linesearch] in H.
    - pose proof (dlinmin_spec o point d) as (_ & B & _). destruct (dlinmin f o point d) as [p v].
      cbn [fst snd] in B. inversion H; subst. exact B.
    - eapply wolfecubic_monotone; eauto.
    - pose proof (backtracking_monotone f grad point d value g t0 Ht Hd) as B.
      destruct (backtracking _ _ _ _ _ _ _) as [[p v] g0]. inversion H; subst. exact B.
    - inversion H; subst. lra.
  Qed.

  (* every call with a non-negative initial step length is defined (all types, every oracle) *)
  Theorem linesearch_defined : forall ty o point d value g t0,
    0 <= t0 -> linesearch f grad ty o point d value g t0 <> None.
  Proof.
    intros ty o point d value g t0 Ht.
    destruct ty as [|[|[|ty]]]; cbn [linesearch]; try discriminate.
    - destruct (dlinmin f o point d). discriminate.
    - apply wolfecubic_defined. exact Ht.
  Qed.

  (* the new point is on the search line (all types) *)
  Theorem linesearch_on_line : forall ty o point d value g t0 p' v' g',
    linesearch f grad ty o point d value g t0 = Some (p', v', g') -> on_line point d p'.
  Proof.
    intros ty o point d value g t0 p' v' g' H.
    destruct ty as [|[|[|ty]]]; cbn [linesearch] in H.
    - pose proof (dlinmin_spec o point d) as (_ & _ & C). destruct (dlinmin f o point d) as [p v].
      cbn [fst snd] in C. inversion H; subst.
      destruct C as [C | (u & _ & C)]; [left; exact C | rewrite C; apply ray_on_line].
    - eapply wolfecubic_on_line; eauto.
    - pose proof (backtracking_cases f grad point d value g t0) as B.
      destruct (backtracking _ _ _ _ _ _ _) as [[p v] g0]. inversion H; subst.
      destruct B as [(B & _) | (t & B & _)]; [left; exact B | right; exists t; exact B].
    - inversion H; subst. left. reflexivity.
  Qed.

  (* backtracking and wolfecubic stay on the search RAY; dlinmin does not (dlinmin_backward_example) *)
  Theorem linesearch_on_ray : forall ty o point d value g t0 p' v' g',
    ty <> 0%nat -> 0 <= t0 -> (forall k q, 0 <= q -> 0 <= o_wexp o k q) -> (forall k, 0 <= o_wzoom o k) ->
    linesearch f grad ty o point d value g t0 = Some (p', v', g') -> on_ray point d p'.
  Proof.
    intros ty o point d value g t0 p' v' g' Hty Ht Hex Hzo H.
    destruct ty as [|[|[|ty]]]; cbn [linesearch] in H; [congruence| | |].
    - eapply wolfecubic_on_ray; eauto.
    - pose proof (backtracking_cases f grad point d value g t0) as B.
      destruct (backtracking _ _ _ _ _ _ _) as [[p v] g0]. inversion H; subst.
      destruct B as [(B & _) | (t & B & T)]; [left; exact B | right; exists t; split; [apply T; exact Ht | exact B]].
    - inversion H; subst. left. reflexivity.
  Qed.
End Objective.

(* ---------------- AbstractLineSearchOptimizer::step with any of the three line searches ---------------- *)
Section Lift.
  Variable f : vec -> Q.
  Variable grad : vec -> vec.
  Variable feasible : vec -> bool.
  Variable M : Type.
  Variable init_model : nat -> M.
  Variable compute_dir : ls_state M -> M * vec.

  Notation step_o := (ls_step_o f grad M compute_dir).
  Notation run_o := (ls_run_o f grad M compute_dir).
  Notation init_o := (ls_init_o f grad feasible M init_model).

  (* the state after the line search, before computeSearchDirection *)
  Definition mid_of (s : ls_state M) (p' : vec) (v' : Q) (g' : vec) : ls_state M :=
    {| ls_min := ls_min s; ls_max := ls_max s; ls_type := ls_type s;
       step_len := 1; dim := dim s; pt := p'; val := v'; der := g'; sdir := sdir s;
       last_der := der s; last_pt := pt s; last_val := val s; extra := extra s |}.

  Lemma step_o_inv : forall o s s', step_o o s = Some s' ->
    exists p' v' g',
      linesearch f grad (ls_type s) o (pt s) (sdir s) (val s) (der s) (step_len s) = Some (p', v', g') /\
      pt s' = p' /\ val s' = v' /\ der s' = g' /\ step_len s' = 1 /\ dim s' = dim s /\ ls_type s' = ls_type s /\
      last_pt s' = pt s /\ last_val s' = val s /\ last_der s' = der s /\
      extra s' = fst (compute_dir (mid_of s p' v' g')) /\ sdir s' = snd (compute_dir (mid_of s p' v' g')).
  Proof.
    intros o s s' H. unfold ls_step_o in H.
    destruct (linesearch _ _ _ _ _ _ _ _ _) as [[[p' v'] g']|]; [|discriminate].
    exists p', v', g'. split; [reflexivity|]. fold (mid_of s p' v' g') in H.
    destruct (compute_dir (mid_of s p' v' g')) as [m' d']. inversion H. cbn. repeat split; reflexivity.
  Qed.

  Lemma step_o_consistent : forall o s s', consistent f grad M s -> step_o o s = Some s' -> consistent f grad M s'.
  Proof.
    intros o s s' [Hv Hd] H. destruct (step_o_inv o s s' H) as (p' & v' & g' & L & A & B & C & _).
    destruct (linesearch_consistent f grad _ _ _ _ _ _ _ _ _ _ Hv Hd L) as [X Y].
    unfold consistent. rewrite A, B, C. auto.
  Qed.

  Lemma run_o_invariant : forall (Inv : ls_state M -> Prop),
    (forall o s s', Inv s -> step_o o s = Some s' -> Inv s') ->
    forall orcs n k s s', Inv s -> run_o orcs k n s = Some s' -> Inv s'.
  Proof.
    intros Inv Hstep orcs. induction n as [|n IH]; intros k s s' Hs H; cbn [ls_run_o] in H.
    - inversion H; subst. exact Hs.
    - destruct (step_o (orcs k) s) as [s1|] eqn:E; [|discriminate].
      eapply IH; [|exact H]. eapply Hstep; eauto.
  Qed.

  Lemma init_o_consistent : forall c ty x0, consistent f grad M (init_o c ty x0).
  Proof. intros. unfold ls_init_o. apply init_consistent. Qed.

  (* STATE CONSISTENCY after init and after every step, all three line-search types, every oracle *)
  Theorem linesearch_state_consistent_all_types : forall constrained lstype x0 orcs n s,
    run_o orcs 0%nat n (init_o constrained lstype x0) = Some s ->
    val s = f (pt s) /\ der s = grad (pt s).
  Proof.
    intros c ty x0 orcs n s H.
    apply (run_o_invariant (consistent f grad M) step_o_consistent orcs n 0%nat _ s (init_o_consistent c ty x0) H).
  Qed.

  (* a run is undefined only if one of its wolfecubic calls is *)
  Theorem run_o_defined : forall orcs n k s,
    (forall j s1, (j < n)%nat -> run_o orcs k j s = Some s1 ->
       linesearch f grad (ls_type s1) (orcs (k + j)%nat) (pt s1) (sdir s1) (val s1) (der s1) (step_len s1) <> None) ->
    run_o orcs k n s <> None.
  Proof.
    intros orcs. induction n as [|n IH]; intros k s H; cbn [ls_run_o]; [discriminate|].
    pose proof (H 0%nat s (Nat.lt_0_succ n) eq_refl) as H0. rewrite Nat.add_0_r in H0.
    unfold ls_step_o at 1.
    destruct (linesearch _ _ _ _ _ _ _ _ _) as [[[p' v'] g']|] eqn:L; [|congruence].
    fold (mid_of s p' v' g'). destruct (compute_dir (mid_of s p' v' g')) as [m' d'] eqn:C.
    apply IH. intros j s1 Hj R. rewrite Nat.add_succ_comm.
    apply H; [lia|]. cbn [ls_run_o]. unfold ls_step_o. rewrite L. fold (mid_of s p' v' g'). rewrite C. exact R.
  Qed.

  (* init sets a non-negative step length, step sets 1: every run of the optimizer is defined, whatever the oracles *)
  Lemma run_o_total_from : forall orcs n k s, 0 <= step_len s -> run_o orcs k n s <> None.
  Proof.
    intros orcs. induction n as [|n IH]; intros k s Ht; cbn [ls_run_o]; [discriminate|].
    destruct (step_o (orcs k) s) as [s1|] eqn:E.
    - apply IH. destruct (step_o_inv _ _ _ E) as (p' & v' & g' & _ & _ & _ & _ & T & _). rewrite T. lra.
    - exfalso. unfold ls_step_o in E.
      pose proof (linesearch_defined f grad (ls_type s) (orcs k) (pt s) (sdir s) (val s) (der s) (step_len s) Ht) as D.
      destruct (linesearch _ _ _ _ _ _ _ _ _) as [[[p' v'] g']|]; [|congruence].
      destruct (compute_dir _); discriminate.
  Qed.

  Theorem run_o_total : forall constrained lstype x0 orcs n,
    exists s, run_o orcs 0%nat n (init_o constrained lstype x0) = Some s.
  Proof.
    intros c ty x0 orcs n.
    destruct (run_o orcs 0%nat n (init_o c ty x0)) as [s|] eqn:E; [eauto|].
    exfalso. revert E. apply run_o_total_from. unfold ls_init_o, ls_init. cbn [step_len].
    apply halve_feasible_nonneg_pre.
  Qed.

  Lemma step_o_monotone : forall o s s',
    consistent f grad M s -> 0 <= step_len s -> dot (der s) (sdir s) <= 0 ->
    step_o o s = Some s' -> val s' <= val s /\ f (pt s') <= f (pt s).
  Proof.
    intros o s s' C Ht Hd H. pose proof (step_o_consistent o s s' C H) as [C' _].
    destruct (step_o_inv o s s' H) as (p' & v' & g' & L & A & B & _).
    destruct C as [Cv Cd].
    pose proof (linesearch_monotone f grad _ _ _ _ _ _ _ _ _ _ Cv Ht Hd L) as X.
    rewrite <- C', <- Cv, B. auto.
  Qed.

  (* whole runs are monotone for every direction rule that never returns an ascent direction: all line-search types *)
  Section DescentOracle.
    Hypothesis dir_descent : forall s1, dot (der s1) (snd (compute_dir s1)) <= 0.

    Lemma minv_step_o : forall o s s', step_o o s = Some s' -> minv M s'.
    Proof.
      intros o s s' H. destruct (step_o_inv o s s' H) as (p' & v' & g' & _ & _ & _ & C & D & _ & _ & _ & _ & _ & _ & E).
      unfold minv. rewrite D, E. split; [lra|]. rewrite <- C.
      replace (der s') with (der (mid_of s p' v' g')) by (rewrite C; reflexivity). apply dir_descent.
    Qed.

    Theorem run_o_monotone_descent_oracle : forall constrained lstype x0 orcs n o s s',
      run_o orcs 0%nat n (init_o constrained lstype x0) = Some s -> step_o o s = Some s' ->
      val s' <= val s /\ f (pt s') <= f (pt s).
    Proof.
      intros c ty x0 orcs n o s s' R H.
      assert (minv M s) as [Ht Hg].
      { apply (run_o_invariant (minv M) (fun o s s' _ => minv_step_o o s s') orcs n 0%nat (init_o c ty x0) s); [|exact R].
        unfold ls_init_o. apply (minv_init f grad feasible M init_model). }
      apply (step_o_monotone o s s'); auto.
      apply (run_o_invariant (consistent f grad M) step_o_consistent orcs n 0%nat _ s (init_o_consistent c ty x0) R).
    Qed.
  End DescentOracle.
End Lift.

(* ---------------- examples ---------------- *)
(* wolfecubic on a linear objective f(x) = -x along d = 1: every expansion t *= 10 passes the three tests of the
   bracketing phase.  Before the repair 1272c59f the loop ended after maxIter = 25 of them with bracket / bracketf /
   bracketg unassigned (old_wolfecubic = None); now the last tested step length 10^24 is taken. *)
Definition lin_f (x : vec) : Q := - hd 0 x.
Definition lin_grad (_ : vec) : vec := [-1].
Definition id_oracle : ls_oracle := {| o_wexp := fun _ q => q; o_wzoom := fun _ => 1; o_dx0 := 1; o_dus := [] |}.

Example wolfecubic_linear_regression :
  old_wolfecubic lin_f lin_grad id_oracle [0] [1] 0 [-1] 1 = None /\
  wolfecubic lin_f lin_grad id_oracle [0] [1] 0 [-1] 1
    = Some ([1000000000000000000000000], - (1000000000000000000000000), [-1]).
Proof. split; vm_compute; reflexivity. Qed.

(* the path that is still undefined needs a negative initial step length (no caller in the library passes one):
   f = 1 / (10^5 |x|) off 0, reported slope -1 except 0 at x = -10^24, t0 = -1: 24 expansions, strong Wolfe point in
   iteration 25 with a value above the old one: `value > bracketf[0]` fails and bracketf[1] is read unassigned *)
Definition neg_f (x : vec) : Q := let a := hd 0 x in if Qeq_bool a 0 then 0 else Qred (/ (Qabs a * 100000)).
Definition neg_grad (x : vec) : vec := if Qeq_bool (hd 0 x) (- (1000000000000000000000000)) then [0] else [-1].
Example wolfecubic_negative_step_undefined : wolfecubic neg_f neg_grad id_oracle [0] [1] 0 [-1] (-1) = None.
Proof. vm_compute. reflexivity. Qed.

(* the oracle hypotheses of the ray theorem are satisfiable *)
Example id_oracle_nonneg : (forall k q, 0 <= q -> 0 <= o_wexp id_oracle k q) /\ (forall k, 0 <= o_wzoom id_oracle k).
Proof. split; [intros k q H; exact H | intros k; cbn; lra]. Qed.

(* a defined wolfecubic call that moves: quadratic x^2 - x from 0 along d = 1 with t0 = 1: the first trial
   t = 1 gives f = 0 (no sufficient decrease), the zoom oracle proposes 1/2, the minimiser *)
Definition par_f (x : vec) : Q := let a := hd 0 x in Qred (a * a - a).
Definition par_grad (x : vec) : vec := [Qred (2 * hd 0 x - 1)].
Definition half_oracle : ls_oracle := {| o_wexp := fun _ q => q; o_wzoom := fun _ => 1 # 2; o_dx0 := 1; o_dus := [1 # 2] |}.
Example wolfecubic_parabola : wolfecubic par_f par_grad half_oracle [0] [1] 0 [-1] 1 = Some ([1 # 2], - (1 # 4), [0]).
Proof. vm_compute. reflexivity. Qed.
Example dlinmin_parabola : linesearch par_f par_grad 0 half_oracle [0] [1] 0 [-1] 1 = Some ([1 # 2], - (1 # 4), [0]).
Proof. vm_compute. reflexivity. Qed.

(* dlinmin does NOT stay on the search ray: f(t) = t^4 + 2t^3 - t/4 has slope -1/4 at 0 along d = 1 (a descent
   direction), f(1) > f(0) > f(-1.618...) : the bracketing phase of the C++ turns round and the result is at a
   negative step length (here the oracle reports the bracket middle -3/2).  tools/c10.py runs the C++ on it. *)
Definition back_f (x : vec) : Q := let t := hd 0 x in Qred (t * t * t * t + 2 * t * t * t - t * (1 # 4)).
Definition back_grad (x : vec) : vec := let t := hd 0 x in [Qred (4 * t * t * t + 6 * t * t - (1 # 4))].
Definition back_oracle : ls_oracle := {| o_wexp := fun _ q => q; o_wzoom := fun _ => 1; o_dx0 := - (3 # 2); o_dus := [] |}.
Example dlinmin_backward_example :
  dot (back_grad [0]) [1] < 0 /\
  linesearch back_f back_grad 0 back_oracle [0] [1] 0 (back_grad [0]) 1 = Some ([- (3 # 2)], - (21 # 16), [- (1 # 4)]).
Proof. split; vm_compute; reflexivity. Qed.
