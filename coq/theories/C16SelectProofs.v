(* C16 — QpMcBoxDecomp::selectWorkingSet / checkKKT as coded (model C16Select.v), exact arithmetic:
   the returned value is the largest KKT violation over the ACTIVE variables (= checkKKT), so "< eps" with all
   variables active is the eps-KKT condition of the box-constrained multi-class dual; the first variable attains it;
   the second variable maximises the (proved) unconstrained 2-D gain among the admissible candidates as coded, never
   below the 1-D gain of the first; both are active; and whenever the violation is positive the first variable alone
   already admits a feasible step with positive gain (no stalling). *)
From Coq Require Import QArith Qminmax Lqa Arith Bool List Lia.
From SharkV Require Import C08Model C08Defs C08Aux C08Proofs C08ProofsBox C07Proofs C16Model C16State C16Proofs C16ProofsMc
  C16ProofsGain C16StateDefs C16GradProofs C16Select.
Import ListNotations.
Open Scope Q_scope.

Ltac qs := cbn [o_zero o_add o_sub o_mul o_div o_ltb o_eqb o_thr o_two o_half o_big o_ten qops] in *.

Section BoxSel.
Variable C : Q.

(* the documented violation measure of one variable *)
Definition box_viol_le (s : qmst) (a : nat) (v : Q) : Prop :=
  (malpha s a < C -> mgrad s a <= v) /\ (0 < malpha s a -> - mgrad s a <= v).
Definition box_viol_at (s : qmst) (a : nat) (v : Q) : Prop :=
  (malpha s a < C /\ v == mgrad s a) \/ (0 < malpha s a /\ v == - mgrad s a).

Lemma bsel_first_spec (s : qmst) i0 : forall m,
  let r := bsel_first qops C s m i0 in
  0 <= fst r /\ (forall a, (a < m)%nat -> box_viol_le s a (fst r)) /\
  ((fst r = 0 /\ snd r = i0) \/ (0 < fst r /\ (snd r < m)%nat /\ box_viol_at s (snd r) (fst r))).
Proof.
  induction m as [|m IH]; cbn [bsel_first]; qs.
  - cbn [fst snd]. split; [lra|]. split; [intros; lia | left; split; reflexivity].
  - cbv zeta in IH. destruct IH as (N & U & At).
    set (r := bsel_first qops C s m i0) in *.
    destruct (qltb_spec (fst r) (mgrad s m)) as [[E1 X1]|[E1 X1]]; rewrite E1; cbn [andb].
    + destruct (qltb_spec (malpha s m) C) as [[E2 X2]|[E2 X2]]; rewrite E2.
      * cbn [fst snd]. split; [lra|]. split.
        -- intros a Ha. destruct (Nat.eq_dec a m) as [->|Na]; [split; intros; lra|].
           destruct (U a ltac:(lia)) as [U1 U2]. split; intros H; [specialize (U1 H) | specialize (U2 H)]; lra.
        -- right. split; [lra|]. split; [lia|]. left. split; [exact X2 | reflexivity].
      * destruct (qltb_spec (fst r) (0 - mgrad s m)) as [[E3 X3]|[E3 X3]]; rewrite E3; cbn [andb]; [lra|].
        split; [exact N|]. split.
        -- intros a Ha. destruct (Nat.eq_dec a m) as [->|Na]; [split; intros; lra | apply U; lia].
        -- destruct At as [A|(A1 & A2 & A3)]; [left; exact A | right; split; [exact A1 | split; [lia | exact A3]]].
    + destruct (qltb_spec (fst r) (0 - mgrad s m)) as [[E3 X3]|[E3 X3]]; rewrite E3; cbn [andb].
      * destruct (qltb_spec 0 (malpha s m)) as [[E4 X4]|[E4 X4]]; rewrite E4.
        -- cbn [fst snd]. split; [lra|]. split.
           ++ intros a Ha. destruct (Nat.eq_dec a m) as [->|Na]; [split; intros; lra|].
              destruct (U a ltac:(lia)) as [U1 U2]. split; intros H; [specialize (U1 H) | specialize (U2 H)]; lra.
           ++ right. split; [lra|]. split; [lia|]. right. split; [exact X4 | ring].
        -- split; [exact N|]. split.
           ++ intros a Ha. destruct (Nat.eq_dec a m) as [->|Na]; [split; intros; lra | apply U; lia].
           ++ destruct At as [A|(A1 & A2 & A3)]; [left; exact A | right; split; [exact A1 | split; [lia | exact A3]]].
      * split; [exact N|]. split.
        -- intros a Ha. destruct (Nat.eq_dec a m) as [->|Na]; [split; intros; lra | apply U; lia].
        -- destruct At as [A|(A1 & A2 & A3)]; [left; exact A | right; split; [exact A1 | split; [lia | exact A3]]].
Qed.

Lemma box_kkt_spec (s : qmst) : forall m,
  let v := box_kkt qops C s m in
  0 <= v /\ (forall a, (a < m)%nat -> box_viol_le s a v) /\
  (v == 0 \/ exists a, (a < m)%nat /\ box_viol_at s a v).
Proof.
  induction m as [|m IH]; cbn [box_kkt]; qs.
  - split; [lra|]. split; [intros; lia | left; reflexivity].
  - cbv zeta in IH. destruct IH as (N & U & At). set (r := box_kkt qops C s m) in *.
    rewrite !maxA_q.
    assert (Lift : forall v', r <= v' -> forall a, (a < m)%nat -> box_viol_le s a v').
    { intros v' Hv a Ha. destruct (U a Ha) as [U1 U2]. split; intros H; [specialize (U1 H) | specialize (U2 H)]; lra. }
    assert (AtL : forall v', v' == r -> (v' == 0 \/ exists a, (a < S m)%nat /\ box_viol_at s a v')).
    { intros v' Hv. destruct At as [Z|(a & Ha & [[A1 A2]|[A1 A2]])]; [left; lra | right; exists a; split; [lia|left; split; [exact A1|lra]]
                                                                     | right; exists a; split; [lia|right; split; [exact A1|lra]]]. }
    destruct (qltb_spec (malpha s m) C) as [[E1 X1]|[E1 X1]]; rewrite E1.
    + destruct (qltb_spec r (mgrad s m)) as [[E2 X2]|[E2 X2]]; rewrite E2.
      * destruct (qltb_spec 0 (malpha s m)) as [[E3 X3]|[E3 X3]]; rewrite E3.
        -- destruct (qltb_spec (mgrad s m) (0 - mgrad s m)) as [[E4 X4]|[E4 X4]]; rewrite E4.
           ++ split; [lra|]. split.
              ** intros a Ha. destruct (Nat.eq_dec a m) as [->|Na]; [split; intros; lra | apply Lift; [lra|lia]].
              ** right. exists m. split; [lia|]. right. split; [exact X3 | ring].
           ++ split; [lra|]. split.
              ** intros a Ha. destruct (Nat.eq_dec a m) as [->|Na]; [split; intros; lra | apply Lift; [lra|lia]].
              ** right. exists m. split; [lia|]. left. split; [exact X1 | reflexivity].
        -- split; [lra|]. split.
           ++ intros a Ha. destruct (Nat.eq_dec a m) as [->|Na]; [split; intros; lra | apply Lift; [lra|lia]].
           ++ right. exists m. split; [lia|]. left. split; [exact X1 | reflexivity].
      * destruct (qltb_spec 0 (malpha s m)) as [[E3 X3]|[E3 X3]]; rewrite E3.
        -- destruct (qltb_spec r (0 - mgrad s m)) as [[E4 X4]|[E4 X4]]; rewrite E4.
           ++ split; [lra|]. split.
              ** intros a Ha. destruct (Nat.eq_dec a m) as [->|Na]; [split; intros; lra | apply Lift; [lra|lia]].
              ** right. exists m. split; [lia|]. right. split; [exact X3 | ring].
           ++ split; [exact N|]. split; [|apply AtL; reflexivity].
              intros a Ha. destruct (Nat.eq_dec a m) as [->|Na]; [split; intros; lra | apply U; lia].
        -- split; [exact N|]. split; [|apply AtL; reflexivity].
           intros a Ha. destruct (Nat.eq_dec a m) as [->|Na]; [split; intros; lra | apply U; lia].
    + destruct (qltb_spec 0 (malpha s m)) as [[E3 X3]|[E3 X3]]; rewrite E3.
      * destruct (qltb_spec r (0 - mgrad s m)) as [[E4 X4]|[E4 X4]]; rewrite E4.
        -- split; [lra|]. split.
           ++ intros a Ha. destruct (Nat.eq_dec a m) as [->|Na]; [split; intros; lra | apply Lift; [lra|lia]].
           ++ right. exists m. split; [lia|]. right. split; [exact X3 | ring].
        -- split; [exact N|]. split; [|apply AtL; reflexivity].
           intros a Ha. destruct (Nat.eq_dec a m) as [->|Na]; [split; intros; lra | apply U; lia].
      * split; [exact N|]. split; [|apply AtL; reflexivity].
        intros a Ha. destruct (Nat.eq_dec a m) as [->|Na]; [split; intros; lra | apply U; lia].
Qed.

(* two numbers that are both "the maximum" agree *)
Lemma bsel_first_is_kkt (s : qmst) i0 m : fst (bsel_first qops C s m i0) == box_kkt qops C s m.
Proof.
  destruct (bsel_first_spec s i0 m) as (N1 & U1 & A1). destruct (box_kkt_spec s m) as (N2 & U2 & A2).
  cbv zeta in *. set (x := fst (bsel_first qops C s m i0)) in *. set (y := box_kkt qops C s m) in *.
  assert (L1 : x <= y).
  { destruct A1 as [[Z _]|(P1 & P2 & [[B1 B2]|[B1 B2]])]; [rewrite Z; exact N2| |].
    - destruct (U2 _ P2) as [V _]. specialize (V B1). lra.
    - destruct (U2 _ P2) as [_ V]. specialize (V B1). lra. }
  assert (L2 : y <= x).
  { destruct A2 as [Z|(a & Ha & [[B1 B2]|[B1 B2]])]; [lra| |].
    - destruct (U1 a Ha) as [V _]. specialize (V B1). lra.
    - destruct (U1 a Ha) as [_ V]. specialize (V B1). lra. }
  lra.
Qed.

(* eps-KKT: checkKKT < eps iff every active variable violates by less than eps *)
Theorem box_kkt_eps (s : qmst) m eps : 0 < eps ->
  (box_kkt qops C s m < eps <-> forall a, (a < m)%nat -> (malpha s a < C -> mgrad s a < eps) /\ (0 < malpha s a -> - eps < mgrad s a)).
Proof.
  intros He. destruct (box_kkt_spec s m) as (N & U & At). cbv zeta in *. split.
  - intros H a Ha. destruct (U a Ha) as [U1 U2]. split; intros X; [specialize (U1 X) | specialize (U2 X)]; lra.
  - intros H. destruct At as [Z|(a & Ha & [[B1 B2]|[B1 B2]])]; [lra| |].
    + destruct (H a Ha) as [V _]. specialize (V B1). lra.
    + destruct (H a Ha) as [_ V]. specialize (V B1). lra.
Qed.

(* ---------------- second order selection ---------------- *)
Section Second.
Variable micro : Q.
Variable P ncl : nat.
Variable Mrow : nat -> list (nat * Q).
Variable Mdef : nat -> Q.
Variable K0 : nat -> nat -> Q.
Variable s : qmst.
Variable i ii pi yi : nat.
Variable di gi : Q.

(* the gain the code computes for the candidate in slot pf of example a *)
Definition cand_gain (a pf : nat) : Q :=
  max_gain_2d qops micro di (vdiag s (evar s a pf))
    (nth pf (mscan P Mrow Mdef (ncl * (yi * P + pi) + ey s a)) 0 * kpos K0 s ii a) gi (mgrad s (evar s a pf)).
(* admissible candidates as coded *)
Definition cand_ok (a pf : nat) : Prop :=
  (evar s a pf < actvar s)%nat /\ evar s a pf <> i /\ box_can_move qops C s (evar s a pf) = true.

(* state of the scan: j is i or an admissible candidate, and bg is its gain / the start gain *)
Definition scan_ok (g0 : Q) (st : nat * Q) : Prop :=
  g0 <= snd st /\
  ((fst st = i /\ snd st = g0) \/ exists a pf, cand_ok a pf /\ fst st = evar s a pf /\ snd st = cand_gain a pf).

Lemma bsel_inner_spec g0 a : forall m st, scan_ok g0 st ->
  let st' := bsel_inner qops micro C s i di gi (kpos K0 s ii a) (mscan P Mrow Mdef (ncl * (yi * P + pi) + ey s a)) a m st in
  scan_ok g0 st' /\ snd st <= snd st' /\ (forall pf, (pf < m)%nat -> cand_ok a pf -> cand_gain a pf <= snd st').
Proof.
  induction m as [|m IH]; intros st SK; cbn [bsel_inner].
  - split; [exact SK|]. split; [lra | intros; lia].
  - destruct (IH st SK) as (S1 & M1 & B1). cbv zeta in S1, M1, B1.
    set (st1 := bsel_inner qops micro C s i di gi (kpos K0 s ii a) (mscan P Mrow Mdef (ncl * (yi * P + pi) + ey s a)) a m st) in *.
    assert (Keep : forall pf, (pf < S m)%nat -> ~ cand_ok a m -> cand_ok a pf -> cand_gain a pf <= snd st1).
    { intros pf Hp N Ck. destruct (Nat.eq_dec pf m) as [->|Np]; [contradiction | apply B1; [lia | exact Ck]]. }
    destruct (Nat.leb_spec (actvar s) (evar s a m)) as [L|L]; cbn [orb].
    { split; [exact S1|]. split; [exact M1|]. intros pf Hp Ck. apply Keep; try assumption. intros (X & _). lia. }
    destruct (Nat.eqb_spec (evar s a m) i) as [E|N].
    { split; [exact S1|]. split; [exact M1|]. intros pf Hp Ck. apply Keep; try assumption. intros (_ & X & _). contradiction. }
    destruct (box_can_move qops C s (evar s a m)) eqn:Mv; cbn [negb].
    2:{ split; [exact S1|]. split; [exact M1|]. intros pf Hp Ck. apply Keep; try assumption. intros (_ & _ & X). congruence. }
    qs. fold (cand_gain a m).
    assert (Ck : cand_ok a m) by (split; [exact L | split; [exact N | exact Mv]]).
    destruct (qltb_spec (snd st1) (cand_gain a m)) as [[E2 X2]|[E2 X2]]; rewrite E2.
    + cbn [fst snd]. split; [|split; [lra|]].
      * destruct S1 as [G _]. split; [cbn [snd]; lra|]. right. exists a, m. cbn [fst snd]. split; [exact Ck | split; reflexivity].
      * intros pf Hp Ck'. destruct (Nat.eq_dec pf m) as [->|Np]; [lra|]. specialize (B1 pf ltac:(lia) Ck'). lra.
    + split; [exact S1|]. split; [exact M1|].
      intros pf Hp Ck'. destruct (Nat.eq_dec pf m) as [->|Np]; [exact X2 | apply B1; [lia | exact Ck']].
Qed.

Lemma bsel_outer_spec g0 : forall m st, scan_ok g0 st ->
  let st' := bsel_outer qops micro P ncl C Mrow Mdef K0 s i ii pi yi di gi m st in
  scan_ok g0 st' /\ snd st <= snd st' /\ (forall a pf, (a < m)%nat -> (pf < P)%nat -> cand_ok a pf -> cand_gain a pf <= snd st').
Proof.
  induction m as [|m IH]; intros st SK; cbn [bsel_outer].
  - split; [exact SK|]. split; [lra | intros; lia].
  - destruct (IH st SK) as (S1 & M1 & B1). cbv zeta in S1, M1, B1.
    set (st1 := bsel_outer qops micro P ncl C Mrow Mdef K0 s i ii pi yi di gi m st) in *.
    destruct (bsel_inner_spec g0 m P st1 S1) as (S2 & M2 & B2). cbv zeta in S2, M2, B2.
    split; [exact S2|]. split; [lra|].
    intros a pf Ha Hp Ck. destruct (Nat.eq_dec a m) as [->|Na]; [apply B2; assumption|].
    specialize (B1 a pf ltac:(lia) Hp Ck). lra.
Qed.

End Second.

(* ---------------- selectWorkingSet ---------------- *)
Section Sel.
Variable micro : Q.
Variable P ncl : nat.
Variable Mrow : nat -> list (nat * Q).
Variable Mdef : nat -> Q.
Variable K0 : nat -> nat -> Q.
Notation box_selectQ := (box_select qops micro P ncl C Mrow Mdef K0).

Theorem box_select_spec (s : qmst) i0 j0 :
  let r := box_selectQ s i0 j0 in
  let v := fst r in let i := fst (snd r) in let j := snd (snd r) in
  (* the violation *)
  v == box_kkt qops C s (actvar s) /\ 0 <= v /\ (forall a, (a < actvar s)%nat -> box_viol_le s a v) /\
  (* nothing is selected when the active variables are optimal *)
  (v = 0 -> i = i0 /\ j = j0) /\
  (0 < v ->
     (* the first variable is active and attains the violation, the second is active *)
     (i < actvar s)%nat /\ box_viol_at s i v /\ (j < actvar s)%nat /\
     (* the second variable: i itself, or the admissible candidate with the largest gain, at least the 1-D gain *)
     let g1 := mgrad s i * mgrad s i / vdiag s i in
     let gain := cand_gain micro P ncl Mrow Mdef K0 s (vex s i) (vp s i) (ey s (vex s i)) (vdiag s i) (mgrad s i) in
     let ok := cand_ok s i in
     exists bg, g1 <= bg /\
       ((j = i /\ bg = g1) \/ exists a pf, ok a pf /\ j = evar s a pf /\ bg = gain a pf) /\
       (forall a pf, (a < actex s)%nat -> (pf < P)%nat -> ok a pf -> gain a pf <= bg)).
Proof.
  cbv zeta. unfold box_select.
  destruct (bsel_first_spec s i0 (actvar s)) as (N & U & At). cbv zeta in N, U, At.
  pose proof (bsel_first_is_kkt s i0 (actvar s)) as EK.
  set (r := bsel_first qops C s (actvar s) i0) in *. qs.
  destruct (qeqb_spec (fst r) 0) as [[E Z]|[E Z]]; rewrite E; cbn [fst snd].
  - split; [exact EK|]. split; [exact N|]. split; [exact U|]. split.
    + intros _. destruct At as [[_ A]|(A & _)]; [split; [exact A | reflexivity] | lra].
    + intros H. lra.
  - split; [exact EK|]. split; [exact N|]. split; [exact U|]. split.
    + intros H. rewrite H in Z. exfalso. apply Z. reflexivity.
    + intros Hp. destruct At as [[A _]|(A1 & A2 & A3)]; [rewrite A in Hp; lra|].
      set (i := snd r) in *.
      set (g1 := mgrad s i * mgrad s i / vdiag s i).
      assert (S0 : scan_ok micro P ncl Mrow Mdef K0 s i (vex s i) (vp s i) (ey s (vex s i)) (vdiag s i) (mgrad s i) g1 (i, g1)).
      { split; [cbn [snd]; lra | left; split; reflexivity]. }
      destruct (bsel_outer_spec micro P ncl Mrow Mdef K0 s i (vex s i) (vp s i) (ey s (vex s i)) (vdiag s i) (mgrad s i) g1 (actex s) (i, g1) S0)
        as (S1 & M1 & B1). cbv zeta in S1, M1, B1.
      set (st := bsel_outer qops micro P ncl C Mrow Mdef K0 s i (vex s i) (vp s i) (ey s (vex s i)) (vdiag s i) (mgrad s i) (actex s) (i, g1)) in *.
      split; [exact A2|]. split; [exact A3|]. split.
      * destruct S1 as [_ [[X _]|(a & pf & (C1 & _) & X & _)]]; rewrite X; assumption.
      * exists (snd st). destruct S1 as [G J]. split; [exact G|]. split; [exact J | exact B1].
Qed.

End Sel.

(* ---------------- no stalling ---------------- *)

(* a variable that can move in the direction of its gradient gains strictly by its 1-D step *)
Lemma solve_edge_gain_pos a g Qv L U : L <= a -> a <= U -> 0 <= Qv -> (0 < g /\ a < U) \/ (g < 0 /\ L < a) ->
  0 < gain1 g Qv (solve_edge qops a g Qv L U - a).
Proof.
  intros La aU HQ Mv. unfold solve_edge, maxA, minA, gain1. qs.
  destruct (qltb_spec 0 Qv) as [[E X]|[E X]]; rewrite E; cbn [negb].
  - set (t := g / Qv). assert (Ht : g == t * Qv) by (unfold t; field; lra).
    assert (G : forall mu, (0 < mu /\ mu <= t) \/ (t <= mu /\ mu < 0) -> 0 < mu * g - (1 # 2) * Qv * mu * mu).
    { intros mu Hm. rewrite Ht.
      assert (Eq : mu * (t * Qv) - (1 # 2) * Qv * mu * mu == Qv * (mu * (t - (1 # 2) * mu))) by ring. rewrite Eq.
      apply Qmult_lt_0_compat; [exact X|]. destruct Hm as [[H1 H2]|[H1 H2]]; nra. }
    assert (Tp : (0 < g -> 0 < t) /\ (g < 0 -> t < 0)).
    { split; intros Hg; unfold t, Qdiv.
      - apply Qmult_lt_0_compat; [exact Hg | apply Qinv_lt_0_compat; exact X].
      - assert (0 < (- g) * / Qv) by (apply Qmult_lt_0_compat; [lra | apply Qinv_lt_0_compat; exact X]). lra. }
    destruct Tp as [Tp1 Tp2].
    destruct (qltb_spec (a + t) L) as [[E2 X2]|[E2 X2]]; rewrite E2.
    + destruct (qltb_spec U L) as [[E3 X3]|[E3 X3]]; rewrite E3; [lra|].
      apply G. destruct Mv as [[M1 M2]|[M1 M2]]; [specialize (Tp1 M1); lra | right; specialize (Tp2 M1); lra].
    + destruct (qltb_spec U (a + t)) as [[E3 X3]|[E3 X3]]; rewrite E3.
      * apply G. destruct Mv as [[M1 M2]|[M1 M2]]; [left; lra | specialize (Tp2 M1); lra].
      * assert (Eq : a + t - a == t) by ring. rewrite Eq.
        apply G. destruct Mv as [[M1 M2]|[M1 M2]]; [left; specialize (Tp1 M1); lra | right; specialize (Tp2 M1); lra].
  - assert (Q0 : Qv == 0) by lra.
    destruct (qltb_spec 0 g) as [[E2 X2]|[E2 X2]]; rewrite E2.
    + destruct Mv as [[M1 M2]|[M1 M2]]; [|lra]. rewrite Q0. assert (0 < (U - a) * g) by (apply Qmult_lt_0_compat; lra). lra.
    + destruct Mv as [[M1 M2]|[M1 M2]]; [lra|]. rewrite Q0. assert (0 < (a - L) * (- g)) by (apply Qmult_lt_0_compat; lra). lra.
Qed.

(* a positive violation at i means i can move: its updateSMO(i, i) step gains, and so does the feasible point
   (that step, alpha_j unchanged) of any pair (i, j) *)
Theorem box_select_no_stall (s : qmst) i v : 0 <= C -> 0 <= malpha s i -> malpha s i <= C -> 0 <= vdiag s i ->
  0 < v -> box_viol_at s i v ->
  let ai' := solve_edge qops (malpha s i) (mgrad s i) (vdiag s i) 0 C in
  0 < gain1 (mgrad s i) (vdiag s i) (ai' - malpha s i) /\
  forall aj gj Qij Qjj, G2 (malpha s i) aj (mgrad s i) gj (vdiag s i) Qij Qjj (ai', aj) == gain1 (mgrad s i) (vdiag s i) (ai' - malpha s i).
Proof.
  intros HC A0 A1 D Hv At ai'. split.
  - apply solve_edge_gain_pos; try assumption. destruct At as [[B1 B2]|[B1 B2]]; [left; split; lra | right; split; lra].
  - intros. unfold G2. cbn [fst snd]. rewrite gain2_q. unfold gain1. ring.
Qed.

End BoxSel.
