(* C10 — CG.cpp, computeSearchDirection as coded (cg_dir in C10Model.v: beta = g'g / d'(g - g_last), the Dai-Yuan formula;
   automatic reset to -g every m_dimension steps; the branch for gg == 0 or a tiny divisor keeps the old direction:
   d := d - g).  With g_last'd <= 0 (the old direction was not an ascent direction where the line search started):
     * g'd_new = g'g * (g_last'd) / (d'(g - g_last)) in the main branch, so the new direction is an ASCENT direction exactly
       when the slope along d decreased over the step by more than the threshold (d'g < d'g_last - 1e-10 g'g): a negative
       curvature step, which the Armijo test of the backtracking search (and a failed Wolfe search) lets through;
     * the reset branch ("sic" in C10Model.v) and the periodic reset never give an ascent direction;
     * hence CG is monotone on every objective whose slope along a direction does not decrease along the ray (convex
       objectives), with the line searches that stay on the ray (WolfeCubic, Backtracking);
     * a dyadic indefinite quadratic on which the direction after the first step is an ascent direction (the C++ is run
       on the same input by tools/c10.py).  Axiom-free. *)
From Coq Require Import List QArith Qreduction Qabs Bool Arith Lia Lqa Qfield Setoid Morphisms.
From SharkV Require Import C10Model C10Proofs C10LsModel C10LsProofs C10BfgsProofs C10Gen C10LbfgsModel C10LbfgsProofs.
Import ListNotations.
Open Scope Q_scope.

Lemma cg_eps_bounds : 0 < cg_eps /\ cg_eps < 1. Proof. split; reflexivity. Qed.

Lemma dot_self_zero_vzero : forall a, dot a a == 0 -> vzero a.
Proof.
  intros a H. destruct (vzero_dec a) as [Z|NZ]; [exact Z|]. pose proof (dot_self_pos a NZ). lra.
Qed.

Lemma Qinv_neg : forall a, a < 0 -> / a < 0.
Proof.
  intros a H. assert (/ a == - / (- a)) as E by (field; lra).
  assert (0 < / (- a)) by (apply Qinv_lt_0_compat; lra). lra.
Qed.

Section Dir.
  Variable n : nat.
  Variable s : ls_state nat.
  Hypothesis Lg : length (der s) = n.
  Hypothesis Ld : length (sdir s) = n.
  Hypothesis Ll : length (last_der s) = n.

  Let g := der s.
  Let d := sdir s.
  Let gl := last_der s.
  Let gg := dot g g.
  Let divisor := dot d (vsub g gl).

  Lemma divisor_eq : divisor == dot d g - dot d gl.
  Proof. unfold divisor. rewrite dot_vsub_r by (unfold g, gl; congruence). reflexivity. Qed.

  (* the three branches *)
  Lemma cg_dir_counter : Nat.eqb (S (extra s)) (dim s) = true -> snd (cg_dir s) = vneg g.
  Proof. intro E. unfold cg_dir. rewrite E. reflexivity. Qed.

  Lemma cg_dir_reset : Nat.eqb (S (extra s)) (dim s) = false ->
    Qeq_bool gg 0 || Qle_bool (Qabs divisor) (qmul cg_eps gg) = true -> snd (cg_dir s) = vsub d g.
  Proof. intros E1 E2. unfold cg_dir. rewrite E1. fold g d gl gg divisor. rewrite E2. reflexivity. Qed.

  Lemma cg_dir_main : Nat.eqb (S (extra s)) (dim s) = false ->
    Qeq_bool gg 0 || Qle_bool (Qabs divisor) (qmul cg_eps gg) = false ->
    snd (cg_dir s) = vsub (vscale (Qred (gg / divisor)) d) g.
  Proof. intros E1 E2. unfold cg_dir. rewrite E1. fold g d gl gg divisor. rewrite E2. reflexivity. Qed.

  (* the slope along the new direction in the main branch *)
  Lemma cg_main_slope : ~ divisor == 0 ->
    dot g (vsub (vscale (Qred (gg / divisor)) d) g) == gg * dot d gl / divisor.
  Proof.
    intro NZ. rewrite dot_vsub_r by (rewrite vscale_length; unfold g, d; congruence).
    rewrite dot_vscale_r, Qred_correct. fold gg.
    pose proof divisor_eq as E. rewrite (dot_comm g d).
    assert (dot d g == divisor + dot d gl) as E' by lra. rewrite E'. field. exact NZ.
  Qed.

  Lemma gg_nonneg : 0 <= gg. Proof. apply dot_self_nonneg. Qed.

  (* EXACT CHARACTERISATION: the old direction was a descent direction at the old point *)
  Theorem cg_dir_ascent_iff : dot d gl < 0 ->
    (0 < dot g (snd (cg_dir s)) <->
     Nat.eqb (S (extra s)) (dim s) = false /\ 0 < gg /\ divisor < - (cg_eps * gg)).
  Proof.
    intro Hold. pose proof gg_nonneg as G0. destruct cg_eps_bounds as [E0 E1].
    destruct (Nat.eqb (S (extra s)) (dim s)) eqn:EC.
    - rewrite (cg_dir_counter EC). pose proof (dot_neg_nonpos g). split; [lra | intros [X _]; discriminate].
    - destruct (Qeq_bool gg 0 || Qle_bool (Qabs divisor) (qmul cg_eps gg)) eqn:EB.
      + rewrite (cg_dir_reset EC EB).
        rewrite dot_vsub_r by (unfold g, d; congruence). fold gg. rewrite (dot_comm g d).
        pose proof divisor_eq as DE.
        apply orb_true_iff in EB. destruct EB as [Z|B].
        * apply Qeq_bool_iff in Z. pose proof (dot_self_zero_vzero g Z) as VZ.
          rewrite (dot_comm d g), (dot_zero_l g d VZ). split; [lra | intros (_ & P & _); lra].
        * apply Qle_bool_iff in B. rewrite qmul_eq in B.
          assert (- (cg_eps * gg) <= divisor /\ divisor <= cg_eps * gg) as [B1 B2].
          { destruct (Qlt_le_dec divisor 0) as [N|P].
            - rewrite Qabs_neg in B by lra. split; nra.
            - rewrite Qabs_pos in B by lra. split; nra. }
          split; [intro A; exfalso; nra | intros (_ & _ & C); lra].
      + rewrite (cg_dir_main EC EB). apply orb_false_iff in EB. destruct EB as [Z B].
        assert (~ gg == 0) as GZ by (intro E; apply Qeq_bool_iff in E; congruence).
        assert (0 < gg) as GP by (destruct (Qle_lt_or_eq _ _ G0) as [L|L]; [exact L | exfalso; apply GZ; symmetry; exact L]).
        assert (cg_eps * gg < Qabs divisor) as BA.
        { destruct (Qlt_le_dec (cg_eps * gg) (Qabs divisor)) as [L|L]; [exact L|].
          exfalso. rewrite <- qmul_eq in L. apply Qle_bool_iff in L. congruence. }
        assert (~ divisor == 0) as NZ by (intro E; rewrite E in BA; cbn in BA; nra).
        rewrite (cg_main_slope NZ).
        destruct (Qlt_le_dec divisor 0) as [N|P].
        * rewrite Qabs_neg in BA by lra.
          assert (0 < gg * dot d gl / divisor).
          { unfold Qdiv. assert (/ divisor < 0) as I1 by (apply Qinv_neg; exact N). assert (gg * dot d gl < 0) as I2 by nra.
            set (a_ := gg * dot d gl) in *. set (i_ := / divisor) in *. nra. }
          split; [intros _; repeat split; try assumption; lra | intros _; assumption].
        * assert (0 < divisor) as DP by (destruct (Qle_lt_or_eq _ _ P) as [L|L]; [exact L | exfalso; apply NZ; symmetry; exact L]).
          assert (gg * dot d gl / divisor < 0).
          { unfold Qdiv. assert (0 < / divisor) as I1 by (apply Qinv_lt_0_compat; exact DP). assert (gg * dot d gl < 0) as I2 by nra.
            set (a_ := gg * dot d gl) in *. set (i_ := / divisor) in *. nra. }
          split; [lra | intros (_ & _ & C); nra].
  Qed.

  (* the GUARD: if the slope along the old direction did not decrease over the step, the new direction is not an ascent
     direction (old direction not an ascent direction at the old point) *)
  Theorem cg_dir_nonascent : dot d gl <= 0 -> 0 <= divisor -> dot g (snd (cg_dir s)) <= 0.
  Proof.
    intros Hold Hdiv. pose proof gg_nonneg as G0. destruct cg_eps_bounds as [E0 E1].
    destruct (Nat.eqb (S (extra s)) (dim s)) eqn:EC.
    - rewrite (cg_dir_counter EC). apply dot_neg_nonpos.
    - destruct (Qeq_bool gg 0 || Qle_bool (Qabs divisor) (qmul cg_eps gg)) eqn:EB.
      + rewrite (cg_dir_reset EC EB).
        rewrite dot_vsub_r by (unfold g, d; congruence). fold gg. rewrite (dot_comm g d).
        pose proof divisor_eq as DE.
        apply orb_true_iff in EB. destruct EB as [Z|B].
        * apply Qeq_bool_iff in Z. pose proof (dot_self_zero_vzero g Z) as VZ.
          rewrite (dot_comm d g), (dot_zero_l g d VZ). lra.
        * apply Qle_bool_iff in B. rewrite qmul_eq in B. rewrite Qabs_pos in B by exact Hdiv. nra.
      + rewrite (cg_dir_main EC EB). apply orb_false_iff in EB. destruct EB as [Z B].
        assert (cg_eps * gg < Qabs divisor) as BA.
        { destruct (Qlt_le_dec (cg_eps * gg) (Qabs divisor)) as [L|L]; [exact L|].
          exfalso. rewrite <- qmul_eq in L. apply Qle_bool_iff in L. congruence. }
        rewrite Qabs_pos in BA by exact Hdiv.
        assert (0 < divisor) as DP by nra.
        assert (~ divisor == 0) as NZ by lra.
        rewrite (cg_main_slope NZ). unfold Qdiv. assert (0 < / divisor) as I1 by (apply Qinv_lt_0_compat; exact DP).
        assert (gg * dot d gl <= 0) as I2 by nra. set (a_ := gg * dot d gl) in *. set (i_ := / divisor) in *. nra.
  Qed.
End Dir.

(* ---------------- CG runs on objectives whose slope along a direction does not decrease along the ray ---------------- *)
Section CgRun.
  Variable f : vec -> Q.
  Variable grad : vec -> vec.
  Variable feasible : vec -> bool.
  Variable n : nat.
  Hypothesis grad_length : forall x, length x = n -> length (grad x) = n.
  (* convexity along rays, in the form the direction rule needs *)
  Hypothesis ray_monotone : forall x d t, length x = n -> length d = n -> 0 <= t ->
    0 <= dot d (vsub (grad (vadd x (vscale t d))) (grad x)).

  Notation step_o := (ls_step_o f grad nat cg_dir).
  Notation run_o := (ls_run_o f grad nat cg_dir).
  Notation init_o := (ls_init_o f grad feasible nat cg_init_model).

  Definition good_oracle (o : ls_oracle) : Prop :=
    (forall k q, 0 <= q -> 0 <= o_wexp o k q) /\ (forall k, 0 <= o_wzoom o k).

  Definition cginv (s : ls_state nat) : Prop :=
    consistent f grad nat s /\ length (pt s) = n /\ length (sdir s) = n /\ ls_type s <> 0%nat /\
    0 <= step_len s /\ dot (der s) (sdir s) <= 0.

  Lemma cginv_init : forall c ty x0, length x0 = n -> (c = true \/ ty <> 0%nat) -> cginv (init_o c ty x0).
  Proof.
    intros c ty x0 L0 T. unfold cginv. split; [apply init_o_consistent|].
    unfold ls_init_o, ls_init. cbn [pt sdir ls_type step_len der]. repeat split.
    - exact L0.
    - rewrite vneg_length. apply grad_length. exact L0.
    - destruct c; [discriminate | destruct T as [T|T]; [discriminate | exact T]].
    - apply halve_feasible_nonneg_pre.
    - apply dot_neg_nonpos.
  Qed.

  Lemma cginv_step : forall o s s', good_oracle o -> cginv s -> step_o o s = Some s' -> cginv s'.
  Proof.
    intros o s s' [O1 O2] (C & Lp & Ld & Ty & Ht & Hd) H.
    pose proof (step_o_consistent f grad nat cg_dir o s s' C H) as C'.
    destruct (step_o_inv f grad nat cg_dir o s s' H) as (p' & v' & g' & L & A & B & Gd & T & D & TY & _ & _ & _ & E & S).
    destruct C as [Cv Cd].
    destruct (linesearch_consistent f grad _ _ _ _ _ _ _ _ _ _ Cv Cd L) as [_ G'].
    assert (length (der s) = n) as Lg by (rewrite Cd; apply grad_length; exact Lp).
    assert (length p' = n) as Lp'.
    { destruct (linesearch_on_line f grad _ _ _ _ _ _ _ _ _ _ L) as [P | (t & P)]; rewrite P; [exact Lp|].
      rewrite vadd_length; [exact Lp | rewrite vscale_length; congruence]. }
    assert (length g' = n) as Lg' by (rewrite G'; apply grad_length; exact Lp').
    (* the slope along the old direction did not decrease *)
    assert (0 <= dot (sdir s) (vsub g' (der s))) as Hdiv.
    { destruct (linesearch_on_ray f grad _ _ _ _ _ _ _ _ _ _ Ty Ht O1 O2 L) as [P | (t & T0 & P)].
      - rewrite G', P, <- Cd. rewrite dot_vsub_r by congruence. lra.
      - rewrite G', P, Cd. apply ray_monotone; assumption. }
    set (mid := mid_of nat s p' v' g') in *.
    assert (dot (der mid) (snd (cg_dir mid)) <= 0) as Q.
    { apply (cg_dir_nonascent n mid); unfold mid, mid_of; cbn [der sdir last_der]; try assumption.
      rewrite dot_comm. exact Hd. }
    unfold cginv. split; [exact C'|]. rewrite A, S, TY, T, Gd. split; [exact Lp'|]. split.
    - (* length of the new direction *)
      unfold cg_dir. cbn [snd]. destruct (Nat.eqb _ _); cbn [snd].
      + rewrite vneg_length. unfold mid, mid_of. cbn [der]. exact Lg'.
      + destruct (_ || _); cbn [snd]; unfold mid, mid_of; cbn [der sdir last_der];
          rewrite vsub_length; rewrite ?vscale_length; congruence.
    - split; [exact Ty|]. split; [lra|]. exact Q.
  Qed.

  (* every CG step is monotone: WolfeCubic or Backtracking (also the forced Backtracking of constrained objectives), every
     oracle without negative proposals, every such objective: the hypothesis of C10_linesearch_monotone_all_types_partial
     is discharged for CG on this class *)
  Theorem cg_monotone_on_convex : forall constrained lstype x0 orcs k o s s',
    length x0 = n -> (constrained = true \/ lstype <> 0%nat) -> (forall j, good_oracle (orcs j)) ->
    run_o orcs 0%nat k (init_o constrained lstype x0) = Some s -> step_o o s = Some s' ->
    dot (der s) (sdir s) <= 0 /\ val s' <= val s /\ f (pt s') <= f (pt s).
  Proof.
    intros c ty x0 orcs k o s s' L0 T GO R H.
    assert (forall k0 j s0 s1, cginv s0 -> run_o orcs j k0 s0 = Some s1 -> cginv s1) as RI.
    { induction k0 as [|k0 IH]; intros j s0 s1 I0 R0; cbn [ls_run_o] in R0.
      - inversion R0; subst. exact I0.
      - destruct (step_o (orcs j) s0) as [sm|] eqn:E; [|discriminate].
        apply (IH (S j) sm s1); [|exact R0]. apply (cginv_step (orcs j) s0 sm (GO j) I0 E). }
    destruct (RI k 0%nat _ s (cginv_init c ty x0 L0 T) R) as (C & _ & _ & _ & Ht & Hd).
    split; [exact Hd|]. apply (step_o_monotone f grad nat cg_dir o s s' C Ht Hd H).
  Qed.
End CgRun.

(* ---------------- examples ---------------- *)
(* the hypothesis is satisfiable: the gradient of x^2 + 2y^2 - x - y/2 *)
Example exq_ray_monotone : forall x d t, length x = 2%nat -> length d = 2%nat -> 0 <= t ->
  0 <= dot d (vsub (exq_grad (vadd x (vscale t d))) (exq_grad x)).
Proof.
  intros [|a [|b [|? ?]]] [|d1 [|d2 [|? ?]]] t Lx Ld Ht; try discriminate.
  cbn [vscale map vadd exq_grad vsub dot]. repeat (rewrite ?qadd_eq, ?qmul_eq, ?qsub_eq, ?Qred_correct).
  assert (0 <= t * (2 * (d1 * d1) + 4 * (d2 * d2))) as H.
  { apply mul_nonneg; [exact Ht|]. pose proof (sq_nonneg d1). pose proof (sq_nonneg d2). lra. }
  lra.
Qed.

(* WITNESS: f = 1/2 x'Ax - b'x with the indefinite A = [[-1, 1/2], [1/2, -1/2]], b = (-3/2, 1/2), start (1/2, -4),
   Backtracking: after the first step the direction of CG is an ASCENT direction (g'd = 993005/48224 > 0).  In this instance
   the next line search still finds a lower value (negative curvature: the objective falls further out along d) *)
Definition cgx_A : list vec := [[-1; 1 # 2]; [1 # 2; - (1 # 2)]].
Definition cgx_b : vec := [- (3 # 2); 1 # 2].
Definition cgx (k : nat) := ls_run (quad_f cgx_A cgx_b) (quad_grad cgx_A cgx_b) nat cg_dir k
  (ls_init (quad_f cgx_A cgx_b) (quad_grad cgx_A cgx_b) all_true nat cg_init_model 2 [1 # 2; -4]).
Example cg_ascent_direction_refuted :
  dot (last_der (cgx 1)) (sdir (cgx 0)) < 0 /\ 0 < dot (der (cgx 1)) (sdir (cgx 1)) /\
  Qeq_bool (dot (der (cgx 1)) (sdir (cgx 1))) (993005 # 48224) = true /\ val (cgx 2) < val (cgx 1).
Proof. vm_compute. repeat split. Qed.
