(* C04 — proofs about the model of C04Model.v, over an arbitrary commutative ring
   (ring_theory with Leibniz equality; instantiated with Z at the end).  Axiom-free.

   What "derivative" means here.  The model code is polymorphic in its arithmetic.  We instantiate
   the SAME code with the ring of dual numbers D = A[eps]/(eps^2) (pairs (value, tangent)) and read
   off the tangent component: this is forward-mode differentiation of the coded forward formula.
   Its soundness for + and * is `dual_add_sound` / `dual_mul_sound`:
        (a + t a') + (b + t b') = re t (dadd ..)          exactly
        (a + t a') * (b + t b') = re t (dmul ..) + t^2 * (a' b')
   i.e. the tangent is the coefficient of t in the perturbed value, the rest is O(t^2) with an explicit
   polynomial remainder; `ad_sound_poly` states this for every expression built from variables,
   constants, + and * (value at x + t d = value + t * tangent + t^2 * explicit remainder).
   An element-wise activation (phi, dphi) is lifted as  (u,u') |-> (phi u, dphi (phi u) * u'), i.e.
   "phi has derivative dphi o phi" is the DEFINITION of the pair handed to the model (NeuronLayers.h
   writes every derivative as a function of the output); for LinearNeuron (phi = id, dphi = 1) the
   lifted map is the identity and everything is a polynomial statement.
   The theorems `linear_wpd_correct`, `linear_wid_correct`, `concat_chain_rule` say: the tangent of
   the coefficient-weighted output sum  sum_r <C_r, f(theta, X_r)>  in direction (d theta, dX) equals
        <coded weightedParameterDerivative, d theta> + sum_r <coded weightedInputDerivative_r, dX_r>
   for every direction; taking unit directions gives every partial derivative. *)
From Coq Require Import List Arith Bool Lia Ring ZArith.
From SharkV Require Import C04Model C04Aux.
Import ListNotations.

Section Proofs.
Variable A : Type.
Variables (zero one : A) (add mul sub : A -> A -> A) (opp : A -> A).
Hypothesis Rth : ring_theory zero one add mul sub opp eq.
Add Ring Aring : Rth.

Declare Scope A_scope.
Delimit Scope A_scope with A.
Infix "+" := add : A_scope.
Infix "*" := mul : A_scope.
Local Open Scope A_scope.
Notation dotA := (dot zero add mul).
Notation vaddA := (vadd add).
Notation vmulA := (vmul mul).
Notation vscaleA := (vscale mul).
Notation zerosA := (zeros zero).
Notation mvA := (mv zero add mul).
Notation vmA := (vm zero add mul).
Notation outerA := (outer mul).
Notation maddA := (madd add).
Notation gradWA := (gradW zero add mul).
Notation colsumA := (colsum zero add).
Notation lin_evalA := (lin_eval zero add mul).
Notation lin_eval_batchA := (lin_eval_batch zero add mul).
Notation lin_wpdA := (lin_wpd zero add mul).
Notation lin_widA := (lin_wid zero add mul).
Notation lin_wdA := (lin_wd zero add mul).
Notation lin_deltaA := (lin_delta zero add mul).

Definition shape (m n : nat) (M : list (list A)) : Prop := length M = m /\ Forall (fun r => length r = n) M.
Definition rows (n : nat) {B} (M : list (list B)) : Prop := Forall (fun r => length r = n) M.

(* ---------------- basic list algebra ---------------- *)
Lemma dot_comm u v : dotA u v = dotA v u.
Proof. revert v; induction u as [|x u IH]; intros [|y v]; simpl; auto. rewrite IH. ring. Qed.

Lemma dot_nil_r u : dotA u [] = zero.
Proof. destruct u; auto. Qed.

Lemma dot_zeros_l n v : dotA (zerosA n) v = zero.
Proof. revert v; induction n; intros [|y v]; simpl; auto. rewrite IHn. ring. Qed.

Lemma dot_vscale c u v : dotA (vscaleA c u) v = c * dotA u v.
Proof. revert v; induction u as [|x u IH]; intros [|y v]; simpl; try ring. rewrite IH. ring. Qed.

Lemma vadd_length u v : length u = length v -> length (vaddA u v) = length u.
Proof. revert v; induction u; intros [|y v] H; simpl in *; try discriminate; auto. Qed.

Lemma vmul_length u v : length u = length v -> length (vmulA u v) = length u.
Proof. revert v; induction u; intros [|y v] H; simpl in *; try discriminate; auto. Qed.

Lemma dot_vadd_l u v w : length u = length v -> dotA (vaddA u v) w = dotA u w + dotA v w.
Proof.
  revert v w; induction u as [|x u IH]; intros [|y v] [|z w] H; simpl in *; try discriminate; try ring.
  rewrite IH by lia. ring.
Qed.

Lemma dot_vadd_r u v w : length v = length w -> dotA u (vaddA v w) = dotA u v + dotA u w.
Proof. intros. rewrite dot_comm, dot_vadd_l, (dot_comm v), (dot_comm w); auto. Qed.

Lemma dot_vmul c d s : dotA c (vmulA d s) = dotA (vmulA c d) s.
Proof.
  revert d s; induction c as [|x c IH]; intros [|y d] [|z s]; simpl; auto. rewrite IH. ring.
Qed.

Lemma dot_app u1 u2 v1 v2 : length u1 = length v1 -> dotA (u1 ++ u2) (v1 ++ v2) = dotA u1 v1 + dotA u2 v2.
Proof.
  revert v1; induction u1 as [|x u IH]; intros [|y v] H; simpl in *; try discriminate; try ring.
  rewrite IH by lia. ring.
Qed.

Lemma zeros_length n : length (zerosA n) = n.
Proof. apply repeat_length. Qed.

Lemma vscale_length c v : length (vscaleA c v) = length v.
Proof. apply map_length. Qed.

(* Frobenius product of two matrices / weighted sum over a batch *)
Fixpoint fr (M N : list (list A)) : A :=
  match M, N with r :: M', s :: N' => dotA r s + fr M' N' | _, _ => zero end.

Lemma fr_concat m n M N : shape m n M -> shape m n N -> dotA (concat M) (concat N) = fr M N.
Proof.
  revert m N; induction M as [|r M IH]; intros m [|s N] [L1 F1] [L2 F2]; simpl in *; subst; try discriminate; auto.
  inversion F1; inversion F2; subst. rewrite dot_app by congruence.
  rewrite (IH (length M) N); auto; split; auto.
Qed.

Lemma concat_length m n M : shape m n M -> length (concat M) = (m * n)%nat.
Proof.
  revert m; induction M as [|r M IH]; intros m [L F]; simpl in *; subst; auto.
  inversion F; subst. rewrite app_length, (IH (length M)); [lia|split; auto].
Qed.

Lemma zmat_shape m n : shape m n (zmat zero m n).
Proof. split; [apply repeat_length|]. apply Forall_forall. intros r H. apply repeat_spec in H. subst. apply zeros_length. Qed.

Lemma fr_zmat m n N : fr (zmat zero m n) N = zero.
Proof. revert N; induction m; intros [|s N]; simpl; auto. rewrite dot_zeros_l. unfold zmat in IHm. rewrite IHm. ring. Qed.

Lemma madd_shape m n M N : shape m n M -> shape m n N -> shape m n (maddA M N).
Proof.
  revert m N; induction M as [|r M IH]; intros m [|s N] [L1 F1] [L2 F2]; simpl in *; subst; try discriminate.
  - split; auto.
  - inversion F1; inversion F2; subst. destruct (IH (length M) N) as [L F]; [split; auto|split; auto; congruence|].
    split; simpl; [congruence|]. constructor; auto. rewrite vadd_length; congruence.
Qed.

Lemma fr_madd m n M N P : shape m n M -> shape m n N -> fr (maddA M N) P = fr M P + fr N P.
Proof.
  revert m N P; induction M as [|r M IH]; intros m [|s N] [|p P] [L1 F1] [L2 F2]; simpl in *; subst; try discriminate; try ring.
  inversion F1; inversion F2; subst. rewrite dot_vadd_l by congruence.
  rewrite (IH (length M) N P); [ring|split; auto|split; auto; congruence].
Qed.

Lemma outer_shape d x : shape (length d) (length x) (outerA d x).
Proof. split; [apply map_length|]. apply Forall_forall. intros r H. apply in_map_iff in H. destruct H as [c [<- _]]. apply vscale_length. Qed.

Lemma gradW_shape m n D X : rows m D -> rows n X -> shape m n (gradWA m n D X).
Proof.
  revert X; induction D as [|d D IH]; intros [|x X] HD HX; simpl; try apply zmat_shape.
  inversion HD; inversion HX; subst. apply madd_shape; auto. apply outer_shape.
Qed.

Lemma colsum_length m D : rows m D -> length (colsumA m D) = m.
Proof. induction D as [|d D IH]; intros H; simpl; [apply zeros_length|]. inversion H; subst. rewrite vadd_length; auto. rewrite IH; auto. Qed.

Lemma vm_length n d W : rows n W -> length (vmA n d W) = n.
Proof.
  revert W; induction d as [|c d IH]; intros [|w W] H; simpl; try apply zeros_length.
  inversion H; subst. rewrite vadd_length; rewrite vscale_length; auto. rewrite IH; auto.
Qed.

(* adjointness: <d, W dx> = <d W, dx> *)
Lemma dot_mv_vm n d W dx : rows n W -> dotA d (mvA W dx) = dotA (vmA n d W) dx.
Proof.
  revert W; induction d as [|c d IH]; intros [|w W] H; simpl; try (rewrite dot_zeros_l; auto).
  inversion H; subst. rewrite dot_vadd_l, dot_vscale, IH; auto. rewrite vscale_length, vm_length; auto.
Qed.

(* <d, dW x> = <d (x) x^T, dW> *)
Lemma dot_mv_outer d dW x : dotA d (mvA dW x) = fr (outerA d x) dW.
Proof.
  revert dW; induction d as [|c d IH]; intros [|w W]; simpl; auto. rewrite IH, dot_vscale, (dot_comm x). ring.
Qed.

(* ---------------- batch = single ---------------- *)
Lemma mm_nt_mv X W : mm_nt zero add mul X W = map (mvA W) X.
Proof. unfold mm_nt, mv. apply map_ext. intros x. apply map_ext. intros w. apply dot_comm. Qed.

Theorem lin_batch_is_map (l : layer A) X : lin_eval_batchA l X = map (lin_evalA l) X.
Proof. unfold lin_eval_batch, lin_pre_batch, lin_eval, lin_pre. rewrite mm_nt_mv, !map_map. reflexivity. Qed.

(* row r of the batch output depends only on row r of the input, whatever the other rows are *)
Theorem batch_eq_single_linear (l : layer A) X X' r r' :
  r < length X -> r' < length X' -> nth r X [] = nth r' X' [] ->
  nth r (lin_eval_batchA l X) [] = lin_evalA l (nth r X []) /\
  nth r (lin_eval_batchA l X) [] = nth r' (lin_eval_batchA l X') [].
Proof.
  intros H1 H2 E. rewrite !lin_batch_is_map.
  assert (F : forall Y k, k < length Y -> nth k (map (lin_evalA l) Y) [] = lin_evalA l (nth k Y [])).
  { intros Y k Hk. rewrite (nth_indep _ [] (lin_evalA l [])) by (rewrite map_length; auto). apply map_nth. }
  rewrite !F by auto. split; congruence.
Qed.

Theorem net_batch_is_map (N : net A) X : net_eval_batch zero add mul N X = map (net_eval zero add mul N) X.
Proof.
  revert X; induction N as [|[[i o] l] N IH]; intros X; simpl.
  - symmetry; apply map_id.
  - rewrite IH, lin_batch_is_map, map_map. reflexivity.
Qed.

Theorem batch_eq_single_concat (N : net A) X X' r r' :
  r < length X -> r' < length X' -> nth r X [] = nth r' X' [] ->
  nth r (net_eval_batch zero add mul N X) [] = net_eval zero add mul N (nth r X []) /\
  nth r (net_eval_batch zero add mul N X) [] = nth r' (net_eval_batch zero add mul N X') [].
Proof.
  intros H1 H2 E. rewrite !net_batch_is_map.
  assert (F : forall Y k, k < length Y -> nth k (map (net_eval zero add mul N) Y) [] = net_eval zero add mul N (nth k Y [])).
  { intros Y k Hk. rewrite (nth_indep _ [] (net_eval zero add mul N [])) by (rewrite map_length; auto). apply map_nth. }
  rewrite !F by auto. split; congruence.
Qed.

Theorem batch_eq_single_normalizer dg b X r :
  r < length X -> nth r (norm_eval_batch add mul dg b X) [] = norm_eval add mul dg b (nth r X []).
Proof.
  intros H. unfold norm_eval_batch.
  rewrite (nth_indep _ [] (norm_eval add mul dg b [])) by (rewrite map_length; auto). apply map_nth.
Qed.

Theorem batch_eq_single_classifier ltb (l : layer A) bias X r :
  r < length X ->
  nth r (classifier_eval_batch zero add mul ltb l bias X) 0 = classifier_eval zero add mul ltb l bias (nth r X []).
Proof.
  intros H. unfold classifier_eval_batch, classifier_eval. rewrite lin_batch_is_map, map_map.
  rewrite (nth_indep _ 0 (classify zero add ltb bias (lin_evalA l []))) by (rewrite map_length; auto).
  apply (map_nth (fun x => classify zero add ltb bias (lin_evalA l x))).
Qed.

(* ---------------- parameter vector round trip ---------------- *)
Lemma firstn_add {B} a b (l : list B) : firstn (a + b)%nat l = firstn a l ++ firstn b (skipn a l).
Proof. revert l; induction a; intros [|x l]; simpl; auto. - destruct b; auto. - f_equal. apply IHa. Qed.

Lemma skipn_add {B} a b (l : list B) : skipn (a + b)%nat l = skipn b (skipn a l).
Proof. revert l; induction a; intros [|x l]; simpl; auto. destruct b; auto. Qed.

Lemma chunk_concat n m (t : list A) : concat (chunk n m t) = firstn (n * m)%nat t.
Proof.
  revert t; induction m; intros t; simpl.
  - rewrite Nat.mul_0_r. reflexivity.
  - rewrite IHm. replace (n * S m)%nat with (n + n * m)%nat by lia. symmetry. apply firstn_add.
Qed.

Lemma chunk_shape n m (t : list A) : (n * m <= length t)%nat -> shape m n (chunk n m t).
Proof.
  revert t; induction m; intros t H; simpl.
  - split; auto.
  - destruct (IHm (skipn n t)) as [L F]. { rewrite skipn_length. lia. }
    split; simpl; [congruence|]. constructor; auto. rewrite firstn_length. lia.
Qed.

Theorem param_roundtrip_linear nin nout off a (t : list A) :
  length t = lin_nparams nin nout off ->
  lin_params (lin_set nin nout off a t) = t /\
  length (lin_params (lin_set nin nout off a t)) = lin_nparams nin nout off.
Proof.
  intros H. assert (E : lin_params (lin_set nin nout off a t) = t).
  { unfold lin_params, lin_set, lin_nparams in *; simpl. rewrite chunk_concat.
    destruct off.
    - rewrite (firstn_all2 (n := nout)) by (rewrite skipn_length; lia). apply firstn_skipn.
    - rewrite app_nil_r. apply firstn_all2. lia. }
  rewrite E. auto.
Qed.

Theorem param_roundtrip_normalizer n (off : bool) (t : list A) :
  length t = (n + (if off then n else 0))%nat ->
  let '(dg, b) := norm_set n off t in norm_params dg b = t /\ length dg = n.
Proof.
  intros H. unfold norm_set, norm_params. destruct off.
  - split; [apply firstn_skipn|]. rewrite firstn_length. lia.
  - split; [rewrite app_nil_r; apply firstn_all2; lia|]. rewrite firstn_length. lia.
Qed.

Lemma net_params_set sh (t : list A) :
  length t = net_nparams (map (fun q => match q with (i, o, off, _) => (i, o, off) end) sh) ->
  net_params (net_set sh t) = t.
Proof.
  revert t; induction sh as [|[[[i o] off] a] sh IH]; intros t H; simpl in *.
  - destruct t; auto; discriminate.
  - unfold net_params in *. simpl.
    destruct (param_roundtrip_linear i o off a (firstn (lin_nparams i o off) t)) as [E _].
    { rewrite firstn_length. lia. }
    rewrite E, IH; [apply firstn_skipn|]. rewrite skipn_length. lia.
Qed.

Theorem param_roundtrip_concat sh (t : list A) :
  let n := net_nparams (map (fun q => match q with (i, o, off, _) => (i, o, off) end) sh) in
  length t = n -> net_params (net_set sh t) = t /\ length (net_params (net_set sh t)) = n.
Proof. intros n H. rewrite net_params_set; auto. Qed.

(* ---------------- combined = separate ---------------- *)
Theorem combined_eq_separate nin nout (l : layer A) X C :
  lin_wdA nin nout l X C = (lin_wpdA nin nout l X C, lin_widA nin l X C).
Proof. reflexivity. Qed.

(* ---------------- dual numbers ---------------- *)
Definition D := (A * A)%type.
Definition dzero : D := (zero, zero).
Definition dadd (p q : D) : D := (fst p + fst q, snd p + snd q).
Definition dmul (p q : D) : D := (fst p * fst q, fst p * snd q + snd p * fst q).
Definition re (t : A) (p : D) : A := fst p + t * snd p.
Definition cst (a : A) : D := (a, zero).

Lemma dual_add_sound t p q : re t p + re t q = re t (dadd p q).
Proof. unfold re, dadd; simpl. ring. Qed.
Lemma dual_mul_sound t p q : re t p * re t q = re t (dmul p q) + (t * t) * (snd p * snd q).
Proof. unfold re, dmul; simpl. ring. Qed.

(* polynomial expressions: the tangent computed with dual numbers is the coefficient of t, with an
   explicit polynomial remainder *)
Inductive expr := EVar (i : nat) | ECst (c : A) | EAdd (e1 e2 : expr) | EMul (e1 e2 : expr).
Fixpoint eeval (e : expr) (x : nat -> A) : A :=
  match e with EVar i => x i | ECst c => c | EAdd a b => eeval a x + eeval b x | EMul a b => eeval a x * eeval b x end.
Fixpoint edual (e : expr) (x : nat -> D) : D :=
  match e with EVar i => x i | ECst c => cst c | EAdd a b => dadd (edual a x) (edual b x) | EMul a b => dmul (edual a x) (edual b x) end.
Fixpoint erem (e : expr) (x d : nat -> A) (t : A) : A :=
  match e with
  | EVar _ | ECst _ => zero
  | EAdd a b => erem a x d t + erem b x d t
  | EMul a b =>
      let pa := edual a (fun i => (x i, d i)) in let pb := edual b (fun i => (x i, d i)) in
      let ra := erem a x d t in let rb := erem b x d t in
      fst pa * rb + snd pa * snd pb + ra * fst pb + t * (snd pa * rb + ra * snd pb) + t * t * (ra * rb)
  end.
Theorem ad_sound_poly e x d t :
  let p := edual e (fun i => (x i, d i)) in
  fst p = eeval e x /\
  eeval e (fun i => x i + t * d i) = eeval e x + t * snd p + (t * t) * erem e x d t.
Proof.
  induction e as [i|c|a [IHa1 IHa2] b [IHb1 IHb2]|a [IHa1 IHa2] b [IHb1 IHb2]]; simpl in *.
  - split; [auto|ring].
  - split; [auto|ring].
  - split; [congruence|]. rewrite IHa2, IHb2. ring.
  - split; [congruence|]. rewrite IHa2, IHb2, <- IHa1, <- IHb1. ring.
Qed.

(* lifted element-wise activation *)
Definition phiD (phi dphi : A -> A) (p : D) : D := (phi (fst p), dphi (phi (fst p)) * snd p).

Notation dotD := (dot dzero dadd dmul).
Notation mvD := (mv dzero dadd dmul).
Notation F := (map (@fst A A)).
Notation S' := (map (@snd A A)).

Lemma dotD_fst u v : fst (dotD u v) = dotA (F u) (F v).
Proof. revert v; induction u as [|x u IH]; intros [|y v]; simpl; auto. rewrite IH. reflexivity. Qed.

Lemma dotD_snd u v : snd (dotD u v) = dotA (F u) (S' v) + dotA (S' u) (F v).
Proof. revert v; induction u as [|x u IH]; intros [|y v]; simpl; try ring. rewrite IH. ring. Qed.

Lemma vaddD_fst u v : F (vadd dadd u v) = vaddA (F u) (F v).
Proof. revert v; induction u; intros [|y v]; simpl; auto. f_equal; auto. Qed.
Lemma vaddD_snd u v : S' (vadd dadd u v) = vaddA (S' u) (S' v).
Proof. revert v; induction u; intros [|y v]; simpl; auto. f_equal; auto. Qed.

Lemma mvD_fst W x : F (mvD W x) = mvA (map F W) (F x).
Proof. unfold mv. rewrite !map_map. apply map_ext. intros w. apply dotD_fst. Qed.
Lemma mvD_snd W x : S' (mvD W x) = vaddA (mvA (map F W) (S' x)) (mvA (map S' W) (F x)).
Proof.
  unfold mv. induction W as [|w W IH]; simpl; auto. rewrite IH. f_equal.
  rewrite dotD_snd. reflexivity.
Qed.

Lemma addoffD_fst y b : F (addoff dadd y b) = addoff add (F y) (F b).
Proof. destruct b; simpl; auto. destruct y; simpl; auto. f_equal. apply vaddD_fst. Qed.

(* a layer given by dual weights/offsets and a scalar activation pair *)
Record dlayer := { dW : list (list D); db : list D; dphi_v : A -> A; dphi_d : A -> A }.
Definition up (q : dlayer) : layer D :=
  {| lW := dW q; lb := db q; lact := ew_act dmul (phiD (dphi_v q) (dphi_d q)) (fun p => p) |}.
Definition val (q : dlayer) : layer A :=
  {| lW := map F (dW q); lb := F (db q); lact := ew_act mul (dphi_v q) (dphi_d q) |}.
Definition tan (q : dlayer) : list A := concat (map S' (dW q)) ++ S' (db q).
Definition wf_dlayer (nin nout : nat) (q : dlayer) : Prop :=
  length (dW q) = nout /\ rows nin (dW q) /\ (db q = [] \/ length (db q) = nout).

Notation lin_evalD := (lin_eval dzero dadd dmul).

Lemma lin_evalD_fst q x : F (lin_evalD (up q) x) = lin_evalA (val q) (F x).
Proof.
  unfold lin_eval, lin_pre; simpl. rewrite !map_map.
  rewrite <- (map_map (@fst A A) (dphi_v q)). rewrite addoffD_fst, mvD_fst. reflexivity.
Qed.

Lemma map2_vmul (dphi : A -> A) c y : map2 (fun ci yi => ci * dphi yi) c y = vmulA c (map dphi y).
Proof. revert y; induction c; intros [|b y]; simpl; auto. f_equal; auto. Qed.

Lemma S_map_phiD phi dphi z : S' (map (phiD phi dphi) z) = vmulA (map dphi (map phi (F z))) (S' z).
Proof. induction z as [|p z IH]; simpl; auto. f_equal; auto. Qed.

Lemma lin_eval_length (q : dlayer) nin nout x : wf_dlayer nin nout q -> length (lin_evalA (val q) x) = nout.
Proof.
  intros [L [_ B]]. unfold lin_eval, lin_pre; simpl. rewrite map_length.
  assert (M : length (mvA (map F (dW q)) x) = nout) by (unfold mv; rewrite !map_length; auto).
  destruct B as [B|B]; [rewrite B; simpl; auto|].
  destruct (F (db q)) eqn:E; simpl; auto. rewrite <- E. rewrite vadd_length; auto. rewrite M, map_length. symmetry; exact B.
Qed.

Lemma rows_map_F n (M : list (list D)) : rows n M -> rows n (map F M).
Proof. unfold rows. rewrite Forall_map. apply Forall_impl. intros r H. rewrite map_length. auto. Qed.
Lemma rows_map_S n (M : list (list D)) : rows n M -> rows n (map S' M).
Proof. unfold rows. rewrite Forall_map. apply Forall_impl. intros r H. rewrite map_length. auto. Qed.

(* single row: tangent of <c, layer(x)> *)
Lemma layer_row_tangent nin nout q (x : list D) c :
  wf_dlayer nin nout q -> length x = nin ->
  let l := val q in
  let d := amul (lact l) (lin_pre zero add mul l (F x)) (lin_evalA l (F x)) c in
  dotA c (S' (lin_evalD (up q) x)) =
    dotA (vmA nin d (lW l)) (S' x) + fr (outerA d (F x)) (map S' (dW q)) +
    (match db q with [] => zero | _ => dotA d (S' (db q)) end).
Proof.
  intros [L [R B]] Lx l d.
  assert (Ed : d = vmulA c (map (dphi_d q) (lin_evalA l (F x)))) by (unfold d; simpl; apply map2_vmul).
  unfold lin_eval at 1, lin_pre; simpl. rewrite S_map_phiD.
  rewrite addoffD_fst, mvD_fst.
  change (map (dphi_v q) (addoff add (mvA (map F (dW q)) (F x)) (F (db q)))) with (lin_evalA l (F x)).
  rewrite dot_vmul, <- Ed.
  assert (T : S' (addoff dadd (mvD (dW q) x) (db q)) =
              match db q with [] => S' (mvD (dW q) x) | _ => vaddA (S' (mvD (dW q) x)) (S' (db q)) end).
  { destruct (db q); auto. simpl. destruct (mvD (dW q) x); simpl; auto. f_equal. apply vaddD_snd. }
  rewrite T, mvD_snd.
  assert (Lm1 : length (mvA (map F (dW q)) (S' x)) = nout) by (unfold mv; rewrite !map_length; auto).
  assert (Lm2 : length (mvA (map S' (dW q)) (F x)) = nout) by (unfold mv; rewrite !map_length; auto).
  assert (Core : dotA d (vaddA (mvA (map F (dW q)) (S' x)) (mvA (map S' (dW q)) (F x))) =
                 dotA (vmA nin d (map F (dW q))) (S' x) + fr (outerA d (F x)) (map S' (dW q))).
  { rewrite dot_vadd_r by congruence. rewrite (dot_mv_vm nin) by (apply rows_map_F; auto).
    rewrite dot_mv_outer. reflexivity. }
  destruct (db q) as [|b0 bq] eqn:Eb.
  - rewrite Core. ring.
  - destruct B as [B|B]; [discriminate|].
    rewrite dot_vadd_r; [rewrite Core; ring|]. rewrite vadd_length by (rewrite Lm1, Lm2; reflexivity). rewrite Lm1, map_length. symmetry; exact B.
Qed.

(* whole batch *)
Lemma layer_batch_tangent nin nout q (XD : list (list D)) C :
  wf_dlayer nin nout q -> rows nin XD -> rows nout C ->
  let l := val q in let X := map F XD in
  fr C (map S' (map (lin_evalD (up q)) XD)) =
    dotA (lin_wpdA nin nout l X C) (tan q) + fr (lin_widA nin l X C) (map S' XD).
Proof.
  intros WF RX RC l X. unfold lin_wpd, lin_wid, tan.
  assert (RD : forall X0 C0, rows nout C0 -> rows nout (lin_deltaA l X0 C0)).
  { intros X0; induction X0 as [|x0 X0 IH]; intros [|c0 C0] H; simpl; try (constructor; fail).
    inversion H; subst. constructor; [|apply IH; auto].
    unfold l; simpl. rewrite map2_vmul.
    rewrite vmul_length; auto. rewrite map_length. fold l. rewrite (lin_eval_length q nin (length c0)); auto. }
  assert (RXF : rows nin X) by (apply rows_map_F; auto).
  set (Dl := lin_deltaA l X C).
  assert (SG : shape nout nin (gradWA nout nin Dl X)) by (apply gradW_shape; auto; apply RD; auto).
  assert (SW : shape nout nin (map S' (dW q))).
  { destruct WF as [L [R _]]. split; [rewrite map_length; auto|apply rows_map_S; auto]. }
  assert (Lb : length (match lb l with [] => [] | _ => colsumA nout Dl end) = length (S' (db q))).
  { destruct WF as [L [R B]]. simpl. destruct (db q) eqn:E; simpl; auto.
    rewrite colsum_length by (apply RD; auto). destruct B as [B|B]; [discriminate|]. simpl in B. rewrite map_length. symmetry; exact B. }
  rewrite dot_app by (rewrite (concat_length nout nin), (concat_length nout nin); auto).
  rewrite (fr_concat nout nin) by auto.
  (* induction over the batch *)
  subst Dl X. clear SG Lb RXF.
  assert (DC : forall x0 X0 c0 C0, lin_deltaA l (x0 :: X0) (c0 :: C0) =
               amul (lact l) (lin_pre zero add mul l x0) (lin_evalA l x0) c0 :: lin_deltaA l X0 C0) by reflexivity.
  assert (ZC : fr (zmat zero nout nin) (map S' (dW q)) +
               dotA (match lb l with [] => [] | _ => zerosA nout end) (S' (db q)) + zero = zero).
  { rewrite fr_zmat. destruct (lb l); cbn [dot]; [ring|]. rewrite dot_zeros_l. ring. }
  revert C RC; induction XD as [|x XD IH]; intros [|c C] RC.
  - cbn [map fr gradW colsum lin_delta map2]. exact (eq_sym ZC).
  - cbn [map fr gradW colsum lin_delta map2]. exact (eq_sym ZC).
  - cbn [map fr gradW colsum lin_delta map2]. exact (eq_sym ZC).
  - pose proof (Forall_inv RX) as Hx. pose proof (Forall_inv_tail RX) as RX'.
    pose proof (Forall_inv RC) as Hc. pose proof (Forall_inv_tail RC) as RC'. cbn beta in Hx, Hc.
    change (map F (x :: XD)) with (F x :: map F XD). rewrite DC.
    set (d := amul (lact l) (lin_pre zero add mul l (F x)) (lin_evalA l (F x)) c).
    cbn [map fr gradW colsum].
    rewrite (layer_row_tangent nin nout q x c WF Hx). rewrite (IH RX' C RC').
    fold l. fold d.
    assert (Ld : length d = nout).
    { assert (H := RD [F x] [c]). rewrite DC in H.
      assert (H' : rows nout [d]) by (apply H; constructor; auto). inversion H'; auto. }
    assert (SO : shape nout nin (outerA d (F x))).
    { pose proof (outer_shape d (F x)) as Q. rewrite Ld, map_length in Q.
      assert (E : @length (A * A) x = nin) by exact Hx. rewrite E in Q. exact Q. }
    rewrite (fr_madd nout nin _ _ _ SO) by (apply gradW_shape; [apply RD; auto|apply rows_map_F; auto]).
    destruct WF as [L [R B]].
    change (lb l) with (F (db q)).
    destruct (db q) as [|b0 bq] eqn:Eb; cbn [map].
    + ring.
    + destruct B as [B|B]; [discriminate|].
      rewrite dot_vadd_l; [ring|]. rewrite colsum_length by (apply RD; auto). auto.
Qed.


(* ---------------- concatenation: chain rule through the stored intermediates ---------------- *)
Lemma dmul_comm p q : dmul p q = dmul q p.
Proof. unfold dmul. f_equal; ring. Qed.

Lemma dotD_comm u v : dotD u v = dotD v u.
Proof. revert v; induction u as [|x u IH]; intros [|y v]; simpl; auto. rewrite IH, dmul_comm. reflexivity. Qed.

Lemma lin_batch_is_mapD (l : layer D) X : lin_eval_batch dzero dadd dmul l X = map (lin_evalD l) X.
Proof.
  unfold lin_eval_batch, lin_pre_batch, lin_eval, lin_pre, mm_nt, mv. rewrite !map_map.
  apply map_ext. intros x. do 2 f_equal. apply map_ext. intros w. apply dotD_comm.
Qed.

Lemma lin_delta_rows nin nout q X C : wf_dlayer nin nout q -> rows nout C -> rows nout (lin_deltaA (val q) X C).
Proof.
  intros WF. revert C; induction X as [|x0 X0 IH]; intros [|c0 C0] H; simpl; try (constructor; fail).
  inversion H; subst. constructor; [|apply IH; auto].
  change (amul (lact (val q)) (lin_pre zero add mul (val q) x0) (lin_evalA (val q) x0) c0)
    with (map2 (fun ci yi => ci * dphi_d q yi) c0 (lin_evalA (val q) x0)).
  rewrite map2_vmul. rewrite vmul_length; auto. rewrite map_length.
  rewrite (lin_eval_length q nin (length c0)); auto.
Qed.

Lemma lin_wpd_length nin nout q X C :
  wf_dlayer nin nout q -> rows nin X -> rows nout C -> length (lin_wpdA nin nout (val q) X C) = length (tan q).
Proof.
  intros WF RX RC. unfold lin_wpd, tan. rewrite !app_length.
  rewrite (concat_length nout nin) by (apply gradW_shape; auto; apply (lin_delta_rows nin); auto).
  destruct WF as [L [R B]].
  rewrite (concat_length nout nin) by (split; [rewrite map_length; auto|apply rows_map_S; auto]).
  f_equal. simpl. destruct (db q) eqn:E; simpl; auto.
  rewrite colsum_length by (apply (lin_delta_rows nin); [split; [auto|split; [auto|rewrite E; exact B]]|auto]).
  destruct B as [B|B]; [discriminate|]. simpl in B. rewrite map_length. symmetry; exact B.
Qed.

Definition dnet := list (nat * nat * dlayer).
Definition upN (N : dnet) : net D := map (fun e => (fst (fst e), snd (fst e), up (snd e))) N.
Definition valN (N : dnet) : net A := map (fun e => (fst (fst e), snd (fst e), val (snd e))) N.
Definition tanN (N : dnet) : list A := flat_map (fun e => tan (snd e)) N.
Fixpoint wf_dnet (nin : nat) (N : dnet) (nout : nat) : Prop :=
  match N with
  | [] => nin = nout
  | (i, o, q) :: N' => i = nin /\ wf_dlayer i o q /\ wf_dnet o N' nout
  end.

Lemma net_back_rows N : forall nin nout X C, wf_dnet nin N nout -> rows nout C ->
  rows nin (snd (net_back zero add mul (valN N) X C)).
Proof.
  induction N as [|[[i o] q] N IH]; intros nin nout X C WF RC; simpl in *.
  - subst; exact RC.
  - destruct WF as [-> [WL WN]].
    destruct (net_back zero add mul (valN N) (lin_eval_batchA (val q) X) C) as [g CY] eqn:E. simpl.
    unfold lin_wid. unfold rows. rewrite Forall_map. apply Forall_forall. intros d _.
    apply vm_length. destruct WL as [_ [R _]]. apply rows_map_F; auto.
Qed.

Lemma lin_evalD_length nin nout q x : wf_dlayer nin nout q -> length (lin_evalD (up q) x) = nout.
Proof.
  intros WF. rewrite <- (map_length (@fst A A)). rewrite lin_evalD_fst. apply (lin_eval_length q nin); auto.
Qed.

Theorem concat_chain_rule N : forall nin nout (XD : list (list D)) C,
  wf_dnet nin N nout -> rows nin XD -> rows nout C ->
  let X := map F XD in
  fr C (map S' (net_eval_batch dzero dadd dmul (upN N) XD)) =
    dotA (fst (net_back zero add mul (valN N) X C)) (tanN N) +
    fr (snd (net_back zero add mul (valN N) X C)) (map S' XD).
Proof.
  induction N as [|[[i o] q] N IH]; intros nin nout XD C WF RX RC X; simpl in *.
  - ring.
  - destruct WF as [-> [WL WN]].
    rewrite lin_batch_is_mapD.
    set (XD1 := map (lin_evalD (up q)) XD).
    assert (R1 : rows o XD1).
    { unfold XD1, rows. rewrite Forall_map. apply Forall_forall. intros x _. apply (lin_evalD_length nin); auto. }
    assert (E1 : map F XD1 = lin_eval_batchA (val q) X).
    { unfold XD1, X. rewrite lin_batch_is_map, !map_map. apply map_ext. intros x. apply lin_evalD_fst. }
    specialize (IH o nout XD1 C WN R1 RC). cbv zeta in IH. rewrite E1 in IH.
    pose proof (net_back_rows N o nout (lin_eval_batchA (val q) X) C WN RC) as RCY.
    destruct (net_back zero add mul (valN N) (lin_eval_batchA (val q) X) C) as [g CY] eqn:E. simpl in *.
    rewrite IH.
    pose proof (layer_batch_tangent nin o q XD CY WL RX RCY) as LT. cbv zeta in LT. fold XD1 in LT. rewrite LT.
    fold X. unfold tanN. simpl. fold (tanN N).
    rewrite dot_app by (apply lin_wpd_length; auto; apply rows_map_F; auto).
    ring.
Qed.


(* ---------------- Linear activations: the tangent is the first-order Taylor coefficient ----------------
   The model code is run on symbolic expressions whose leaves carry (value, direction); interpreting the
   result at  value + t * direction  gives the perturbed weighted output sum, interpreting it with dual
   numbers gives the tangent, and the difference is t^2 times an explicit polynomial remainder. *)
Inductive pexpr := PLeaf (x d : A) | PAdd (e1 e2 : pexpr) | PMul (e1 e2 : pexpr).
Fixpoint pval0 (e : pexpr) : A :=
  match e with PLeaf x _ => x | PAdd a b => pval0 a + pval0 b | PMul a b => pval0 a * pval0 b end.
Fixpoint pvalt (t : A) (e : pexpr) : A :=
  match e with PLeaf x d => x + t * d | PAdd a b => pvalt t a + pvalt t b | PMul a b => pvalt t a * pvalt t b end.
Fixpoint pdual (e : pexpr) : D :=
  match e with PLeaf x d => (x, d) | PAdd a b => dadd (pdual a) (pdual b) | PMul a b => dmul (pdual a) (pdual b) end.
Fixpoint prem (t : A) (e : pexpr) : A :=
  match e with
  | PLeaf _ _ => zero
  | PAdd a b => prem t a + prem t b
  | PMul a b =>
      let pa := pdual a in let pb := pdual b in let ra := prem t a in let rb := prem t b in
      fst pa * rb + snd pa * snd pb + ra * fst pb + t * (snd pa * rb + ra * snd pb) + t * t * (ra * rb)
  end.

Theorem taylor_pexpr t e :
  fst (pdual e) = pval0 e /\ pvalt t e = pval0 e + t * snd (pdual e) + (t * t) * prem t e.
Proof.
  induction e as [x d|a [IHa1 IHa2] b [IHb1 IHb2]|a [IHa1 IHa2] b [IHb1 IHb2]]; simpl in *.
  - split; [auto|ring].
  - split; [congruence|]. rewrite IHa2, IHb2. ring.
  - split; [congruence|]. rewrite IHa2, IHb2, <- IHa1, <- IHb1. ring.
Qed.

Definition inj (p : D) : pexpr := PLeaf (fst p) (snd p).
Definition cstE (c : A) : pexpr := PLeaf c zero.
Definition zE : pexpr := PLeaf zero zero.
Definition idE : act pexpr := ew_act PMul (fun x => x) (fun x => x).
Definition netE (N : dnet) : net pexpr :=
  map (fun e => (fst (fst e), snd (fst e),
                 {| lW := map (map inj) (dW (snd e)); lb := map inj (db (snd e)); lact := idE |})) N.
(* the weighted output sum as a symbolic expression *)
Definition sumE (N : dnet) (XD : list (list D)) (C : list (list A)) : pexpr :=
  wsum zE PAdd PMul (map (map cstE) C) (map (net_eval zE PAdd PMul (netE N)) (map (map inj) XD)).
(* the network with every weight / offset (w, dw) replaced by f (w, dw), Linear activations *)
Definition netAt {B} (mulB : B -> B -> B) (f : D -> B) (N : dnet) : net B :=
  map (fun e => (fst (fst e), snd (fst e),
                 {| lW := map (map f) (dW (snd e)); lb := map f (db (snd e)); lact := ew_act mulB (fun x => x) (fun x => x) |})) N.
Definition linear_dnet (N : dnet) : Prop :=
  Forall (fun e => dphi_v (snd e) = (fun x => x) /\ dphi_d (snd e) = (fun _ => one)) N.

Lemma fr_wsum C Y : fr C Y = wsum zero add mul C Y.
Proof. revert Y; induction C as [|c C IH]; intros [|y Y]; simpl; auto; try (rewrite IH; reflexivity). Qed.

Lemma map_id' {B} (u : list B) : map (fun x => x) u = u.
Proof. apply map_id. Qed.
Lemma map_ext_id {B} (f : B -> B) u : (forall x, f x = x) -> map f u = u.
Proof. intros H. induction u as [|x u IH]; simpl; [reflexivity|]. rewrite H, IH. reflexivity. Qed.

(* interpretation of sumE under any homomorphism h of pexpr *)
Lemma sumE_hom {B} (zB : B) (aB mB : B -> B -> B) (h : pexpr -> B) :
  h zE = zB -> (forall x y, h (PAdd x y) = aB (h x) (h y)) -> (forall x y, h (PMul x y) = mB (h x) (h y)) ->
  forall N XD C,
  h (sumE N XD C) =
  wsum zB aB mB (map (map (fun c => h (cstE c))) C)
       (map (fun xd => net_eval zB aB mB (netAt mB (fun p => h (inj p)) N) (map (fun p => h (inj p)) xd)) XD).
Proof.
  intros hz ha hm N XD C. unfold sumE.
  rewrite (hom_wsum _ _ zE PAdd PMul zB aB mB h hz ha hm). rewrite !map_map.
  f_equal; [apply map_ext; intros c; rewrite map_map; reflexivity|].
  apply map_ext. intros xd.
  rewrite (hom_net_eval _ _ zE PAdd PMul zB aB mB h hz ha hm (ew_act mB (fun x => x) (fun x => x)));
    [|intros u; apply map_id'|].
  - rewrite map_map. unfold hN, netE, netAt. rewrite map_map.
    apply net_eval_map_ext. intros e _. simpl. repeat split.
    + rewrite map_map. apply map_ext. intros w. rewrite map_map. reflexivity.
    + rewrite map_map. reflexivity.
  - intros e He u. unfold netE in He. apply in_map_iff in He. destruct He as [e0 [<- _]]. apply map_id'.
Qed.

Lemma pdual_inj p : pdual (inj p) = p.
Proof. destruct p; reflexivity. Qed.

Lemma fst_wsumD C Y : fst (wsum dzero dadd dmul C Y) = wsum zero add mul (map F C) (map F Y).
Proof. revert Y; induction C as [|c C IH]; intros [|y Y]; simpl; auto. rewrite IH, dotD_fst. reflexivity. Qed.

Lemma snd_wsumD_cst C Y : snd (wsum dzero dadd dmul (map (map cst) C) Y) = fr C (map S' Y).
Proof.
  revert Y; induction C as [|c C IH]; intros [|y Y]; simpl; auto. rewrite IH, dotD_snd. f_equal.
  assert (E2 : forall c0 : list A, S' (map cst c0) = zerosA (length c0)).
  { intros c0. induction c0 as [|x c0 IHc]; simpl; [reflexivity|]. rewrite IHc. reflexivity. }
  specialize (E2 c).
  assert (E1 : F (map cst c) = c) by (rewrite map_map; apply map_id').
  rewrite E1, E2, dot_zeros_l. ring.
Qed.

Theorem linear_net_taylor N nin nout (XD : list (list D)) C t :
  linear_dnet N -> wf_dnet nin N nout -> rows nin XD -> rows nout C ->
  let X := map F XD in
  let S0 := fr C (net_eval_batch zero add mul (valN N) X) in
  let St := fr C (net_eval_batch zero add mul (netAt mul (re t) N) (map (map (re t)) XD)) in
  let g := net_back zero add mul (valN N) X C in
  St = S0 + t * (dotA (fst g) (tanN N) + fr (snd g) (map S' XD)) + (t * t) * prem t (sumE N XD C).
Proof.
  intros LN WF RX RC X S0 St g.
  destruct (taylor_pexpr t (sumE N XD C)) as [T1 T2].
  assert (mc : forall x y, x * y = y * x) by (intros; ring).
  (* perturbed value *)
  assert (Et : pvalt t (sumE N XD C) = St).
  { rewrite (sumE_hom zero add mul (pvalt t)); [|simpl; ring|reflexivity|reflexivity].
    unfold St. etransitivity; [|symmetry; apply fr_wsum]. rewrite (net_batch_is_map_gen _ zero add mul mc). rewrite map_map.
    unfold netAt. f_equal.
    apply map_ext_id. intros c. apply map_ext_id. intros x. simpl. ring. }
  (* dual value *)
  assert (Ed : pdual (sumE N XD C) = wsum dzero dadd dmul (map (map cst) C) (net_eval_batch dzero dadd dmul (upN N) XD)).
  { rewrite (sumE_hom dzero dadd dmul pdual); [|reflexivity|reflexivity|reflexivity].
    rewrite (net_batch_is_map_gen _ dzero dadd dmul dmul_comm).
    f_equal. apply map_ext. intros xd.
    assert (Ex : map (fun p => pdual (inj p)) xd = xd) by (apply map_ext_id; intros; apply pdual_inj).
    rewrite Ex. unfold netAt, upN. apply net_eval_map_ext. intros e He. simpl. repeat split.
    - apply map_ext_id. intros w. apply map_ext_id. intros; apply pdual_inj.
    - apply map_ext_id. intros; apply pdual_inj.
    - intros u. rewrite map_id'. symmetry. apply map_ext_id. intros p.
      pose proof (proj1 (Forall_forall _ _) LN e He) as [Hv Hd]. unfold phiD. rewrite Hv, Hd. destruct p; simpl. f_equal. ring. }
  (* value at t = 0 *)
  assert (E0 : pval0 (sumE N XD C) = S0).
  { rewrite <- T1, Ed, fst_wsumD. unfold S0. etransitivity; [|symmetry; apply fr_wsum]. f_equal.
    - rewrite map_map. apply map_ext_id. intros c. rewrite map_map. apply map_id'.
    - rewrite (net_batch_is_map_gen _ dzero dadd dmul dmul_comm), (net_batch_is_map_gen _ zero add mul mc).
      unfold X. rewrite !map_map. apply map_ext. intros xd.
      clear - Rth LN. revert xd. unfold upN, valN. induction N as [|[[i o] q] N' IH]; intros xd; simpl; auto.
      inversion LN; subst. rewrite IH by auto. f_equal. apply lin_evalD_fst. }
  rewrite <- Et, T2, E0, Ed, snd_wsumD_cst.
  rewrite (concat_chain_rule N nin nout XD C WF RX RC). reflexivity.
Qed.

End Proofs.
