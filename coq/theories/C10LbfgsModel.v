(* C10 — third part of the executable model (definitions only): src/Algorithms/GradientDescent/LBFGS.cpp
     initModel, updateHist, multBInv (two-loop recursion), multB (compact representation), computeSearchDirection
     (unconstrained and box-constrained: getBoxConstrainedDirection as coded after the repairs e082c2d6 and 42faa67e),
     read / write.
   Exact rationals, same conventions as C10Model.v.  Deviations from the text of the C++, all stated here:
     * the history is ONE list of pairs (step, gradient difference), oldest first, instead of two deques of equal length;
     * multB: the rows of A are kept unnormalised together with their normaliser n_i = s_i'a_i: the C++ divides the row by
       sqrt(n_i) and later uses A'A, i.e. a_i a_i' / n_i; the square root cancels and is not modelled;
     * the arrays rho / alpha of multBInv have m_numHist entries in the C++; the model's lists are as long as the history
       (C10LbfgsProofs.lb_hist_bounded: the history never gets longer than m_numHist >= 1 in a run that starts with init;
       lowering m_numHist with setHistCount between two steps is outside the model);
     * m_updThres is set by initModel and is NOT archived: it is a field of the model that [lb_restore_extra] takes from
       the instance that is read into. *)
From Coq Require Import List QArith Qreduction Qabs Bool Arith.
From SharkV Require Import C10Model C10LsModel.
Import ListNotations.
Open Scope Q_scope.

(* the double 1e-10 (m_updThres); the double 1e-13 of getBoxConstrainedDirection is C10Model.box_eps *)
Definition lb_upd_thres : Q := 7737125245533627 # 77371252455336267181195264.

Definition qdiv (a b : Q) : Q := Qred (a / b).
Definition qmin (a b : Q) : Q := if qltb b a then b else a.      (* std::min(a, b) *)
Definition qmax (a b : Q) : Q := if qltb a b then b else a.      (* std::max(a, b) *)
Definition vdiv (v : vec) (b : Q) : vec := map (fun a => qdiv a b) v.

Record lb_model : Type := mkLB {
  lb_hist : nat;                     (* m_numHist *)
  lb_bdiag : Q;                      (* m_bdiag *)
  lb_thres : Q;                      (* m_updThres *)
  lb_pairs : list (vec * vec) }.     (* (m_steps[i], m_gradientDifferences[i]), i = 0 (oldest) ... *)

(* initModel(); m_numHist is configuration (setHistCount) and is left alone *)
Definition lb_init_model (numhist : nat) (n : nat) : lb_model := mkLB numhist 1 lb_upd_thres [].

(* updateHist(y, step) *)
Definition lb_update_hist (m : lb_model) (y s : vec) : lb_model :=
  let ys := dot y s in
  if qltb (lb_thres m) ys then
    let ps := if Nat.leb (lb_hist m) (length (lb_pairs m)) then tl (lb_pairs m) else lb_pairs m in
    mkLB (lb_hist m) (qdiv (dot y y) ys) (lb_thres m) (ps ++ [(s, y)])
  else m.

(* ---------------- multBInv: the two loops as coded ---------------- *)
Definition lb_rho (p : vec * vec) : Q := qdiv 1 (dot (snd p) (fst p)).

(* for (i = size; i > 0; --i): [rp] is the history NEWEST first; returns x and the alphas, newest first *)
Fixpoint lb_loop1 (rp : list (vec * vec)) (x : vec) : vec * list Q :=
  match rp with
  | [] => (x, [])
  | p :: r =>
    let a := qmul (lb_rho p) (dot (fst p) x) in
    let '(x', al) := lb_loop1 r (vsub x (vscale a (snd p))) in
    (x', a :: al)
  end.

(* for (i = 0; i < size; ++i): history and alphas OLDEST first *)
Fixpoint lb_loop2 (ps : list (vec * vec)) (al : list Q) (x : vec) : vec :=
  match ps, al with
  | p :: r, a :: al' =>
    let beta := qmul (lb_rho p) (dot (snd p) x) in
    lb_loop2 r al' (vadd x (vscale (qsub a beta) (fst p)))
  | _, _ => x
  end.

Definition lb_mult_binv (bdiag : Q) (ps : list (vec * vec)) (x : vec) : vec :=
  let '(q, al) := lb_loop1 (rev ps) x in
  lb_loop2 ps (rev al) (vdiv q bdiag).

(* ---------------- multB: compact representation ---------------- *)
(* one processed history entry: y_j, beta_j = y_j's_j, the unnormalised row a_j = B_j s_j, its normaliser s_j'a_j *)
Definition lb_row : Type := (vec * Q * vec * Q)%type.
Definition lb_yterms (proc : list lb_row) (v acc : vec) : vec :=
  fold_left (fun acc (r : lb_row) => let '(y, beta, _, _) := r in vadd acc (vscale (qdiv (dot y v) beta) y)) proc acc.
Definition lb_aterms (proc : list lb_row) (v acc : vec) : vec :=
  fold_left (fun acc (r : lb_row) => let '(_, _, a, nn) := r in vsub acc (vscale (qdiv (dot a v) nn) a)) proc acc.
Definition lb_bapply (bdiag : Q) (proc : list lb_row) (v : vec) : vec :=
  lb_aterms proc v (lb_yterms proc v (vscale bdiag v)).
Fixpoint lb_build (bdiag : Q) (ps : list (vec * vec)) (proc : list lb_row) : list lb_row :=
  match ps with
  | [] => proc
  | (s, y) :: r => let a := lb_bapply bdiag proc s in lb_build bdiag r (proc ++ [(y, dot y s, a, dot s a)])
  end.
Definition lb_mult_b (bdiag : Q) (ps : list (vec * vec)) (x : vec) : vec :=
  lb_bapply bdiag (lb_build bdiag ps []) x.

(* ---------------- getBoxConstrainedDirection ---------------- *)
(* true = "active" in the naming of the C++ (the variable may move) *)
Fixpoint lb_mask (l u x p0 : vec) : list bool :=
  match l, u, x, p0 with
  | a :: l', b :: u', c :: x', p :: p0' =>
    negb ((qltb (qsub c box_eps) a && qltb p 0) || (qltb b (qadd c box_eps) && qltb 0 p)) :: lb_mask l' u' x' p0'
  | _, _, _, _ => []
  end.
Fixpoint vmask (m : list bool) (v : vec) : vec :=
  match m, v with
  | b :: m', a :: v' => (if b then a else 0) :: vmask m' v'
  | _, _ => []
  end.
(* the feasibility test of the full quasi-Newton step, active coordinates only *)
Fixpoint lb_step_ok (m : list bool) (l u x st : vec) : bool :=
  match m, l, u, x, st with
  | b :: m', a :: l', c :: u', xi :: x', si :: st' =>
    (negb b || negb (qltb (qadd (qadd xi box_eps) si) a || qltb c (qadd (qsub xi box_eps) si)))
    && lb_step_ok m' l' u' x' st'
  | _, _, _, _, _ => true
  end.
(* the ratio test: largest alpha <= alpha0 with l <= x + alpha c <= u in the active coordinates, 0 if a bound is passed *)
Fixpoint lb_ratio (m : list bool) (l u x c : vec) (alpha : Q) : Q :=
  match m, l, u, x, c with
  | b :: m', a :: l', bb :: u', xi :: x', ci :: c' =>
    let alpha' :=
      if negb b || Qeq_bool ci 0 then alpha
      else if qltb ci 0 then qmin alpha (qmax 0 (qdiv (qsub a xi) ci))
      else qmin alpha (qmax 0 (qdiv (qsub bb xi) ci)) in
    lb_ratio m' l' u' x' c' alpha'
  | _, _, _, _, _ => alpha
  end.

Definition lb_box_dir (bdiag : Q) (ps : list (vec * vec)) (l u x g : vec) : vec :=
  let m := lb_mask l u x (vneg g) in
  let p0 := vmask m (vneg g) in
  let step := vmask m (lb_mult_binv bdiag ps p0) in
  if lb_step_ok m l u x step then step
  else
    let cauchy := vdiv p0 (dot p0 (lb_mult_b bdiag ps p0)) in
    let alpha := lb_ratio m l u x cauchy 1 in
    if qltb alpha 1 then vscale alpha cauchy
    else
      let point := vadd x cauchy in
      let dir := vsub step cauchy in
      let alpha2 := lb_ratio m l u point dir 1 in
      vadd cauchy (vscale alpha2 dir).

(* ---------------- computeSearchDirection ---------------- *)
Definition lbfgs_hist (s : ls_state lb_model) : lb_model :=
  lb_update_hist (extra s) (vsub (der s) (last_der s)) (vsub (pt s) (last_pt s)).

(* function.isConstrained() == false *)
Definition lbfgs_dir (s : ls_state lb_model) : lb_model * vec :=
  let m := lbfgs_hist s in
  (m, lb_mult_binv (lb_bdiag m) (lb_pairs m) (vneg (der s))).

(* box constraints [l, u] (BoxConstraintHandler).  The SHARK_RUNTIME_CHECK "internal error" that follows in the C++
   (isFeasible (point + direction)) never fires in exact arithmetic: C10LbfgsProofs.lb_box_dir_feasible *)
Definition lbfgs_dir_box (l u : vec) (s : ls_state lb_model) : lb_model * vec :=
  let m := lbfgs_hist s in
  (m, lb_box_dir (lb_bdiag m) (lb_pairs m) l u (pt s) (der s)).

(* ---------------- LBFGS::write / read ---------------- *)
(* m_numHist, m_bdiag, m_steps, m_gradientDifferences (a deque is archived as its size followed by its elements) *)
Definition lb_save_extra (m : lb_model) : list field :=
  [FN (lb_hist m); FQ (lb_bdiag m); FN (length (lb_pairs m))] ++ map (fun p => FV (fst p)) (lb_pairs m)
  ++ [FN (length (lb_pairs m))] ++ map (fun p => FV (snd p)) (lb_pairs m).

Fixpoint take_vecs (k : nat) (fs : list field) : option (list vec * list field) :=
  match k with
  | O => Some ([], fs)
  | S k' => match fs with
            | FV v :: r => match take_vecs k' r with Some (vs, rest) => Some (v :: vs, rest) | None => None end
            | _ => None
            end
  end.

(* [thres]: m_updThres of the instance that is read into (the member is not in the archive) *)
Definition lb_restore_extra (thres : Q) (fs : list field) : option lb_model :=
  match fs with
  | FN h :: FQ b :: FN k1 :: r1 =>
    match take_vecs k1 r1 with
    | Some (ss, FN k2 :: r2) =>
      match take_vecs k2 r2 with
      | Some (ys, []) => if Nat.eqb k1 k2 then Some (mkLB h b thres (combine ss ys)) else None
      | _ => None
      end
    | _ => None
    end
  | _ => None
  end.

(* ---------------- the matrix the two-loop recursion applies (used by the theorems, not executed) ---------------- *)
(* [rp]: history NEWEST first.  H = the BFGS inverse updates (C10LsModel.bfgs_update) of the pairs, oldest applied first,
   starting from (1/bdiag) I *)
Fixpoint lb_Hrev (n : nat) (bdiag : Q) (rp : list (vec * vec)) : mat :=
  match rp with
  | [] => mscale (qdiv 1 bdiag) (identity n)
  | (s, y) :: r => bfgs_update (lb_Hrev n bdiag r) y s (dot y s)
  end.
Definition lb_H (n : nat) (bdiag : Q) (ps : list (vec * vec)) : mat := lb_Hrev n bdiag (rev ps).
