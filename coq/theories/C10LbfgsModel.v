(* C10 — third part of the executable model (definitions only): src/Algorithms/GradientDescent/LBFGS.cpp
     initModel, updateHist, multBInv (two-loop recursion), multB (compact representation), computeSearchDirection
     (unconstrained and box-constrained: getBoxConstrainedDirection as coded after the repairs e082c2d6 and 42faa67e),
     read / write.
   The functions themselves are written once over an abstract number type in C10Gen.v; this file instantiates them with
   the exact rationals of C10Model.v (same conventions) and adds what is specific to the line-search optimizer state.
   Deviations from the text of the C++, all stated here:
     * the history is ONE list of pairs (step, gradient difference), oldest first, instead of two deques of equal length;
     * multB: the rows of A are kept unnormalised together with their normaliser n_i = s_i'a_i: the C++ divides the row by
       sqrt(n_i) and later uses A'A, i.e. a_i a_i' / n_i; the square root cancels and is not modelled;
     * the arrays rho / alpha of multBInv have m_numHist entries in the C++; the model's lists are as long as the history
       (C10LbfgsProofs.lb_hist_bounded: the history never gets longer than m_numHist >= 1 in a run that starts with init;
       lowering m_numHist with setHistCount between two steps is outside the model);
     * m_updThres is set by initModel and is NOT archived: it is a field of the model that [lb_restore_extra] takes from
       the instance that is read into. *)
From Coq Require Import List QArith Qreduction Qabs Bool Arith.
From SharkV Require Import C10Model C10LsModel C10Gen.
Import ListNotations.
Open Scope Q_scope.

(* the double 1e-10 (m_updThres); the double 1e-13 of getBoxConstrainedDirection is C10Model.box_eps *)
Definition lb_upd_thres : Q := 7737125245533627 # 77371252455336267181195264.

(* ---------------- the rational instance of the generic operations (C10Gen.v) ---------------- *)
Definition qdiv (a b : Q) : Q := Qred (a / b).
Definition qpow (a : Q) (k : nat) : Q := Qred (Qpower a (Z.of_nat k)).
(* [sq]: what stands for std::sqrt (used by Adam only) *)
Definition qops (sq : Q -> Q) : ops Q := mkOps Q 0 1 qadd qsub qmul qdiv Qopp qltb Qeq_bool sq qpow.
Definition QO : ops Q := qops (fun x => x).

Definition qmin : Q -> Q -> Q := gmin Q QO.
Definition qmax : Q -> Q -> Q := gmax Q QO.
Definition vdiv : vec -> Q -> vec := gvdiv Q QO.

(* m_numHist, m_bdiag, m_updThres, (m_steps[i], m_gradientDifferences[i]) oldest first *)
Definition lb_model : Type := glb_model Q.

(* initModel(); m_numHist is configuration (setHistCount) and is left alone *)
Definition lb_init_model (numhist : nat) (n : nat) : lb_model := mkLB numhist 1 lb_upd_thres [].

Definition lb_update_hist : lb_model -> vec -> vec -> lb_model := g_update_hist Q QO.       (* updateHist *)
Definition lb_rho : vec * vec -> Q := g_rho Q QO.
Definition lb_loop1 : list (vec * vec) -> vec -> vec * list Q := g_loop1 Q QO.
Definition lb_loop2 : list (vec * vec) -> list Q -> vec -> vec := g_loop2 Q QO.
Definition lb_mult_binv : Q -> list (vec * vec) -> vec -> vec := g_mult_binv Q QO.          (* multBInv *)
Definition lb_mult_b : Q -> list (vec * vec) -> vec -> vec := g_mult_b Q QO.                (* multB *)
Definition lb_mask : vec -> vec -> vec -> vec -> list bool := g_mask Q QO box_eps.
Definition vmask : list bool -> vec -> vec := gvmask Q QO.
Definition lb_step_ok : list bool -> vec -> vec -> vec -> vec -> bool := g_step_ok Q QO box_eps.
Definition lb_ratio : list bool -> vec -> vec -> vec -> vec -> Q -> Q := g_ratio Q QO.
Definition lb_box_dir : Q -> list (vec * vec) -> vec -> vec -> vec -> vec -> vec := g_box_dir Q QO box_eps.   (* getBoxConstrainedDirection *)

(* ---------------- computeSearchDirection ---------------- *)
Definition lbfgs_hist (s : ls_state lb_model) : lb_model :=
  lb_update_hist (extra s) (vsub (der s) (last_der s)) (vsub (pt s) (last_pt s)).

(* function.isConstrained() == false *)
Definition lbfgs_dir (s : ls_state lb_model) : lb_model * vec :=
  let m := lbfgs_hist s in
  (m, lb_mult_binv (lb_bdiag m) (lb_pairs m) (vneg (der s))).

(* box constraints [l, u] (BoxConstraintHandler).  The SHARK_RUNTIME_CHECK "internal error" that follows in the C++
   (isFeasible (point + direction)) never fires in exact arithmetic: C10LbfgsProofs.lb_box_dir_feasible *)
Definition lbfgs_dir_box (l u : vec) (s : ls_state lb_model) : lb_model * vec :=
  let m := lbfgs_hist s in
  (m, lb_box_dir (lb_bdiag m) (lb_pairs m) l u (pt s) (der s)).

(* ---------------- LBFGS::write / read ---------------- *)
(* m_numHist, m_bdiag, m_steps, m_gradientDifferences (a deque is archived as its size followed by its elements) *)
Definition lb_save_extra (m : lb_model) : list field :=
  [FN (lb_hist m); FQ (lb_bdiag m); FN (length (lb_pairs m))] ++ map (fun p : vec * vec => FV (fst p)) (lb_pairs m)
  ++ [FN (length (lb_pairs m))] ++ map (fun p : vec * vec => FV (snd p)) (lb_pairs m).

Fixpoint take_vecs (k : nat) (fs : list field) : option (list vec * list field) :=
  match k with
  | O => Some ([], fs)
  | S k' => match fs with
            | FV v :: r => match take_vecs k' r with Some (vs, rest) => Some (v :: vs, rest) | None => None end
            | _ => None
            end
  end.

(* [thres]: m_updThres of the instance that is read into (the member is not in the archive) *)
Definition lb_restore_extra (thres : Q) (fs : list field) : option lb_model :=
  match fs with
  | FN h :: FQ b :: FN k1 :: r1 =>
    match take_vecs k1 r1 with
    | Some (ss, FN k2 :: r2) =>
      match take_vecs k2 r2 with
      | Some (ys, []) => if Nat.eqb k1 k2 then Some (mkLB h b thres (combine ss ys)) else None
      | _ => None
      end
    | _ => None
    end
  | _ => None
  end.

(* ---------------- the matrix the two-loop recursion applies (used by the theorems, not executed) ---------------- *)
(* [rp]: history NEWEST first.  H = the BFGS inverse updates (C10LsModel.bfgs_update) of the pairs, oldest applied first,
   starting from (1/bdiag) I *)
Fixpoint lb_Hrev (n : nat) (bdiag : Q) (rp : list (vec * vec)) : mat :=
  match rp with
  | [] => mscale (qdiv 1 bdiag) (identity n)
  | (s, y) :: r => bfgs_update (lb_Hrev n bdiag r) y s (dot y s)
  end.
Definition lb_H (n : nat) (bdiag : Q) (ps : list (vec * vec)) : mat := lb_Hrev n bdiag (rev ps).
