(* C20 — work split by thread number: generic proofs + the proof script used by the generated
   obligations of coq/gen/C20Split.v. *)
From Coq Require Import List Arith Bool PeanoNat Lia ZArith Permutation ZifyNat.
From SharkV Require Import C20Model C20Proofs C20SplitModel.
Import ListNotations.

(* ================================================================ tiles *)

Lemma tiles_S lo hi n s e : tiles lo hi (S n) s e -> tiles lo (s n) n s e /\ s n <= e n /\ e n = hi.
Proof.
  intros (H0 & H1 & H2 & H3 & H4). split; [|split].
  - unfold tiles. repeat split.
    + intros ->. symmetry. apply H1. lia.
    + intros L. apply H1. lia.
    + intros t L. apply H2. lia.
    + intros t L. apply H3. lia.
    + intros t E. rewrite <- E. apply H3. lia.
  - apply H2. lia.
  - apply H4. lia.
Qed.

Theorem tiles_concat lo hi n s e : tiles lo hi n s e ->
  concat (split_ranges n s e) = seq lo (hi - lo) /\ lo <= hi.
Proof.
  revert hi. induction n as [|n IH]; intros hi T.
  - destruct T as (H0 & _). rewrite <- (H0 eq_refl). rewrite Nat.sub_diag. simpl. auto.
  - destruct (tiles_S _ _ _ _ _ T) as (T' & L & E). destruct (IH _ T') as [C L'].
    unfold split_ranges in *. rewrite seq_S, map_app, concat_app, C. simpl. rewrite app_nil_r.
    unfold split_range. subst hi. split; [|lia].
    replace (e n - lo) with ((s n - lo) + (e n - s n)) by lia.
    rewrite seq_app. f_equal. f_equal. lia.
Qed.

Lemma tiles_within lo hi n s e : tiles lo hi n s e -> forall t, t < n -> lo <= s t /\ e t <= hi.
Proof.
  revert hi. induction n as [|n IH]; intros hi T t L; [lia|].
  destruct (tiles_S _ _ _ _ _ T) as (T' & L1 & E).
  destruct (tiles_concat _ _ _ _ _ T') as [_ L2].
  destruct (Nat.eq_dec t n) as [->|N].
  - lia.
  - destruct (IH _ T' t ltac:(lia)). lia.
Qed.

Lemma tiles_ordered lo hi n s e : tiles lo hi n s e -> forall t t', t < t' -> t' < n -> e t <= s t'.
Proof.
  revert hi. induction n as [|n IH]; intros hi T t t' L L'; [lia|].
  destruct (tiles_S _ _ _ _ _ T) as (T' & L1 & E).
  destruct (Nat.eq_dec t' n) as [->|N].
  - destruct (tiles_within _ _ _ _ _ T' t L). lia.
  - apply (IH _ T'); lia.
Qed.

(* no index is handed to two workers *)
Theorem tiles_disjoint lo hi n s e : tiles lo hi n s e ->
  forall t t' i, t < n -> t' < n -> s t <= i < e t -> s t' <= i < e t' -> t = t'.
Proof.
  intros T t t' i L L' I I'.
  destruct (Nat.lt_trichotomy t t') as [Q|[Q|Q]]; auto.
  - pose proof (tiles_ordered _ _ _ _ _ T t t' Q L'). lia.
  - pose proof (tiles_ordered _ _ _ _ _ T t' t Q L). lia.
Qed.

(* every index of [lo,hi) is handed to some worker *)
Theorem tiles_cover lo hi n s e : tiles lo hi n s e ->
  forall i, lo <= i < hi -> exists t, t < n /\ s t <= i < e t.
Proof.
  revert hi. induction n as [|n IH]; intros hi T i I.
  - destruct T as (H0 & _). specialize (H0 eq_refl). lia.
  - destruct (tiles_S _ _ _ _ _ T) as (T' & L1 & E).
    destruct (Nat.lt_ge_cases i (s n)) as [Q|Q].
    + destruct (IH _ T' i ltac:(lia)) as (t & L & J). exists t. split; [lia|auto].
    + exists n. split; [lia|]. lia.
Qed.

Theorem tiles_exactly_once lo hi n s e : tiles lo hi n s e ->
  NoDup (concat (split_ranges n s e)) /\ forall i, lo <= i < hi <-> In i (concat (split_ranges n s e)).
Proof.
  intros T. destruct (tiles_concat _ _ _ _ _ T) as [E L]. rewrite E. split; [apply seq_NoDup|].
  intros i. rewrite in_seq. lia.
Qed.

(* ---------------------------------------------------------------- the decision procedure *)

Lemma forallb_seq_spec (f : nat -> bool) a n :
  forallb f (seq a n) = true <-> forall t, a <= t < a + n -> f t = true.
Proof.
  rewrite forallb_forall. split.
  - intros H t L. apply H. apply in_seq. lia.
  - intros H t I. apply in_seq in I. apply H. lia.
Qed.

Theorem tiles_b_spec lo hi n s e : tiles_b lo hi n s e = true <-> tiles lo hi n s e.
Proof.
  destruct n as [|m]; unfold tiles_b.
  - rewrite Nat.eqb_eq. unfold tiles. split.
    + intros ->. repeat split; intros; try lia.
    + intros (H0 & _). auto.
  - rewrite !andb_true_iff, !Nat.eqb_eq, !forallb_seq_spec. unfold tiles. split.
    + intros [[[A B] C] D]. repeat split.
      * discriminate.
      * auto.
      * intros t L. apply Nat.leb_le. apply C. lia.
      * intros t L. apply Nat.eqb_eq. apply D. lia.
      * intros t E. replace t with m by lia. auto.
    + intros (H0 & H1 & H2 & H3 & H4). repeat split.
      * apply H1. lia.
      * apply H4. lia.
      * intros t L. apply Nat.leb_le. apply H2. lia.
      * intros t L. apply Nat.eqb_eq. apply H3. lia.
Qed.

Corollary tiles_b_false lo hi n s e : tiles_b lo hi n s e = false -> ~ tiles lo hi n s e.
Proof. intros F T. apply tiles_b_spec in T. congruence. Qed.

(* ================================================================ two levels *)

Theorem tiles2_b_spec cap P T ms me s e : tiles2_b cap P T ms me s e = true <-> tiles2 cap P T ms me s e.
Proof.
  unfold tiles2_b, tiles2. rewrite andb_true_iff, tiles_b_spec, forallb_seq_spec. split.
  - intros [A B]. split; auto. intros p L. apply tiles_b_spec. apply B. lia.
  - intros [A B]. split; auto. intros p L. apply tiles_b_spec. apply B. lia.
Qed.

(* every cell of a slice lies inside the array, and two different (p,t) never share a cell:
   an access through `p*T + thread number` stays inside the caller's own cells *)
Theorem tiles2_slices_disjoint cap P T ms me s e : tiles2 cap P T ms me s e ->
  forall p t, p < P -> t < T ->
    (forall i, s p t <= i < e p t -> i < cap /\ ms p <= i < me p) /\
    (forall p' t' i, p' < P -> t' < T -> s p t <= i < e p t -> s p' t' <= i < e p' t' -> p = p' /\ t = t').
Proof.
  intros [T1 T2] p t Lp Lt.
  assert (W : forall p t i, p < P -> t < T -> s p t <= i < e p t -> ms p <= i < me p).
  { intros q u i Lq Lu I. destruct (tiles_within _ _ _ _ _ (T2 q Lq) u Lu). lia. }
  split.
  - intros i I. pose proof (W p t i Lp Lt I) as J. split; auto.
    destruct (tiles_within _ _ _ _ _ T1 p Lp). lia.
  - intros p' t' i Lp' Lt' I I'.
    assert (p = p').
    { apply (tiles_disjoint _ _ _ _ _ T1 p p' i); auto; [apply (W p t)|apply (W p' t')]; auto. }
    subst p'. split; auto.
    apply (tiles_disjoint _ _ _ _ _ (T2 p Lp) t t' i); auto.
Qed.

(* the cells merged for p afterwards are exactly the cells of the slices (p, 0..T-1) *)
Theorem tiles2_merge_is_union cap P T ms me s e : tiles2 cap P T ms me s e ->
  forall p, p < P -> concat (split_ranges T (s p) (e p)) = seq (ms p) (me p - ms p).
Proof. intros [_ T2] p L. apply (tiles_concat _ _ _ _ _ (T2 p L)). Qed.

Theorem tiles2_all_cells cap P T ms me s e : tiles2 cap P T ms me s e ->
  concat (map (fun p => concat (split_ranges T (s p) (e p))) (seq 0 P)) = seq 0 cap.
Proof.
  intros [T1 T2]. destruct (tiles_concat _ _ _ _ _ T1) as [E _]. rewrite Nat.sub_0_r in E. rewrite <- E.
  unfold split_ranges at 2. f_equal. apply map_ext_in. intros p I. apply in_seq in I.
  unfold split_range. apply (tiles_concat _ _ _ _ _ (T2 p ltac:(lia))).
Qed.

(* ================================================================ the accumulated value *)

Section SplitSum.
  Variable A : Type.
  Variable op : A -> A -> A.
  Variable e0 : A.
  Hypothesis op_assoc : forall a b c, op (op a b) c = op a (op b c).
  Hypothesis op_comm : forall a b, op a b = op b a.
  Hypothesis op_unit_r : forall a, op a e0 = a.

  (* worker t folds its range sequentially starting from the neutral element *)
  Definition split_partial (f : nat -> A) (s e : nat -> nat) (t : nat) : A :=
    fold_left op (map f (split_range s e t)) e0.

  Theorem split_sum_is_sequential (f : nat -> A) B n s e res : tiles 0 B n s e ->
    merge_run A op e0 (map (split_partial f s e) (seq 0 n)) res ->
    res = fold_left op (map f (seq 0 B)) e0.
  Proof.
    intros T R.
    destruct (merge_schedule_independent_lemma A op op_assoc op_comm _ _ _ R) as [_ E]. rewrite E.
    destruct (tiles_concat _ _ _ _ _ T) as [Tile _]. rewrite Nat.sub_0_r in Tile. rewrite <- Tile.
    unfold split_ranges. rewrite <- (fold_partials A op op_assoc e0 op_unit_r f).
    rewrite map_map. reflexivity.
  Qed.
End SplitSum.

(* the hand-written formulas of C20Model are one instance *)
Lemma model_ranges_tile B T : 1 <= T -> tiles 0 B T (range_start B T) (range_end B T).
Proof.
  intros H. destruct (thread_ranges_tile_lemma B T H) as (_ & A & N & Z & L).
  unfold tiles. split; [|split; [|split; [|split]]].
  - lia.
  - auto.
  - intros t Lt. destruct (A t Lt). auto.
  - intros t _. apply N.
  - intros t E. replace t with (T - 1) by lia. exact L.
Qed.


(* ---------------------------------------------------------------- statements as used in Properties_C20.v *)

Lemma tiles_partition_lemma lo hi n s e : tiles lo hi n s e ->
    concat (split_ranges n s e) = seq lo (hi - lo) /\ lo <= hi /\
    NoDup (concat (split_ranges n s e)) /\
    (forall i, lo <= i < hi <-> In i (concat (split_ranges n s e))).
Proof.
  intros T. destruct (tiles_concat _ _ _ _ _ T) as [A B]. destruct (tiles_exactly_once _ _ _ _ _ T) as [C D]. auto.
Qed.

Lemma tiles_disjoint_cover_lemma lo hi n s e : tiles lo hi n s e ->
    (forall t t' i, t < n -> t' < n -> s t <= i < e t -> s t' <= i < e t' -> t = t') /\
    (forall i, lo <= i < hi -> exists t, t < n /\ s t <= i < e t) /\
    (forall t, t < n -> lo <= s t /\ e t <= hi).
Proof.
  intros T. split; [|split].
  - exact (tiles_disjoint _ _ _ _ _ T).
  - exact (tiles_cover _ _ _ _ _ T).
  - exact (tiles_within _ _ _ _ _ T).
Qed.

Lemma slices_merge_union_lemma cap P T ms me s e : tiles2 cap P T ms me s e ->
    (forall p, p < P -> concat (split_ranges T (s p) (e p)) = seq (ms p) (me p - ms p)) /\
    concat (map (fun p => concat (split_ranges T (s p) (e p))) (seq 0 P)) = seq 0 cap.
Proof. intros H. split; [exact (tiles2_merge_is_union _ _ _ _ _ _ _ H)|exact (tiles2_all_cells _ _ _ _ _ _ _ H)]. Qed.

Lemma tiles_b_decides_lemma :
  (forall lo hi n s e, tiles_b lo hi n s e = true <-> tiles lo hi n s e) /\
  (forall cap P T ms me s e, tiles2_b cap P T ms me s e = true <-> tiles2 cap P T ms me s e).
Proof. split; [exact tiles_b_spec|exact tiles2_b_spec]. Qed.

(* ================================================================ proof script of the generated obligations

   The generated goals are closed formulas of linear arithmetic over nat extended with
   `*`, `/`, `mod`, `Nat.min`, `Nat.max`, truncated `-` and conditionals.  The script
     1. unfolds the generated definitions (hint database c20split) and the predicates,
     2. splits conjunctions, introduces the bound variables,
     3. replaces every a / b, a mod b by its Euclidean specification (zify + Z.to_euclidean_division_equations),
     4. calls lia, then nia (both complete certificates are re-checked by the kernel).
   It contains nothing specific to the formulas of today's source: an equivalent reformulation in the
   C++ (e.g. leftOver = numBatches % numThreads) is still proved; a formula that does not tile is not. *)

Create HintDb c20split.

Ltac split_arith :=
  first [ lia
        | Z.to_euclidean_division_equations; lia
        | nia
        | Z.to_euclidean_division_equations; nia ].

Ltac split_case_if :=
  repeat match goal with
  | |- context [if ?b then _ else _] => destruct b eqn:?
  | H : context [if ?b then _ else _] |- _ => destruct b eqn:?
  end.

Ltac split_pre :=
  autounfold with c20split in *; unfold tiles2, tiles in *; cbn [nth] in *;
  repeat match goal with
  | |- _ /\ _ => split
  | |- forall _, _ => intro
  | H : _ /\ _ |- _ => destruct H
  end.

Ltac split_to_Z :=
  repeat match goal with
  | H : (_ <? _) = true |- _ => apply Nat.ltb_lt in H
  | H : (_ <? _) = false |- _ => apply Nat.ltb_ge in H
  | H : (_ <=? _) = true |- _ => apply Nat.leb_le in H
  | H : (_ <=? _) = false |- _ => apply Nat.leb_gt in H
  | H : (_ =? _) = true |- _ => apply Nat.eqb_eq in H
  | H : (_ =? _) = false |- _ => apply Nat.eqb_neq in H
  end;
  zify.

Ltac split_solve :=
  split_pre; split_case_if; subst;
  try (timeout 120 (split_to_Z; split_arith)).
