(* C16 — the constructor of QpMcBoxDecomp / QpMcSimplexDecomp (C16State.init_state) establishes every invariant:
   consistent tables, data attached to the right variable, gradient = linear (alpha = 0), constraints. *)
From Coq Require Import QArith Qminmax Lqa Arith Bool List Lia.
From SharkV Require Import C08Model C08Defs C08Aux C08Proofs C16Model C16State C16Proofs C16ProofsMc C16StateDefs.
Import ListNotations.
Open Scope Q_scope.

Section Init.
Variable P ncl n : nat.
Variable C : Q.
Variable Mrow : nat -> list (nat * Q).
Variable Mdef : nat -> Q.
Variable K0 : nat -> nat -> Q.
Hypothesis HP : (0 < P)%nat.
Variable y0 : nat -> nat.
Variable lin0 : nat -> nat -> Q.

Notation s0 := (init_stateQ P ncl n Mrow Mdef K0 y0 lin0).

Lemma div_pe e p : (p < P)%nat -> ((P * e + p) / P = e)%nat.
Proof. intros Hp. rewrite Nat.mul_comm, Nat.div_add_l by lia. rewrite Nat.div_small by exact Hp. lia. Qed.
Lemma mod_pe e p : (p < P)%nat -> ((P * e + p) mod P = p)%nat.
Proof. intros Hp. rewrite Nat.add_comm, Nat.mul_comm, Nat.mod_add by lia. apply Nat.mod_small. exact Hp. Qed.
Lemma lt_pe e p : (e < n)%nat -> (p < P)%nat -> (P * e + p < P * n)%nat.
Proof. intros. nia. Qed.

Theorem init_tab : Inv_tab P n s0.
Proof.
  constructor; unfold init_stateQ, init_state, nvar, nv; cbn.
  - lia.
  - lia.
  - intros e p He Hp. split; [apply lt_pe; assumption|]. split; [apply div_pe | apply mod_pe]; exact Hp.
  - intros v Hv.
    assert (Hd : (v / P < n)%nat) by (apply Nat.div_lt_upper_bound; lia).
    assert (Hm : (v mod P < P)%nat) by (apply Nat.mod_upper_bound; lia).
    repeat split; try assumption; symmetry; apply Nat.div_mod; lia.
  - intros e b He Hb. split; [apply lt_pe; assumption|]. split; [apply div_pe | apply mod_pe]; exact Hb.
  - intros e b He Hb. split; intros _; [apply lt_pe; assumption | exact Hb].
  - intros. lia.
  - intros v Hv. apply Nat.div_lt_upper_bound; lia.
  - intros e He. exact He.
  - intros a b _ _ E. exact E.
Qed.

Theorem init_data : Inv_data P ncl n Mrow Mdef K0 y0 lin0 s0.
Proof.
  split; unfold init_stateQ, init_state; cbn.
  - intros e He. split; reflexivity.
  - intros v Hv. split; [reflexivity|].
    unfold Qe, Mfour. cbn. rewrite (Nat.mul_comm (y0 (v / P)) P). reflexivity.
Qed.

Theorem init_grad : Inv_grad_all P ncl n Mrow Mdef K0 s0.
Proof.
  intros f Hf. unfold Qalpha. unfold init_stateQ, init_state at 1 2. cbn [mgrad mlin].
  rewrite sumn_0; [ring|]. intros a _. unfold init_stateQ, init_state. cbn [malpha o_zero qops]. ring.
Qed.

Theorem init_boxc : 0 <= C -> Inv_boxc P n C s0.
Proof. intros HC v Hv. unfold init_stateQ, init_state. cbn. split; [lra | exact HC]. Qed.

Theorem init_simplex : 0 < C -> Inv_simplex P n C s0.
Proof.
  intros HC e He. unfold init_stateQ, init_state, valpha. cbn.
  assert (Z : asumQ (fun _ : nat => 0) P == 0).
  { clear. induction P as [|m IH]; cbn [asum o_zero o_add qops]; [reflexivity | rewrite IH; ring]. }
  unfold ExInv. rewrite Z. unfold qtiny. repeat split; try lra. intros; lra.
Qed.

Lemma init_counts : actvar s0 = nv P n /\ actex s0 = n /\ munshr s0 = false.
Proof. repeat split. Qed.

End Init.
