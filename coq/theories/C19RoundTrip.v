(* C19 — export/import round trip of the CSV model for separator-character files:
   importing the text printed by the exporter yields the exported tokens, for every dataset of scientific
   tokens, every admissible separator / comment character, label position and batch size. *)
From Coq Require Import List Arith ZArith NArith Bool Lia.
From SharkV Require Import ListAux C03Model C03Proofs C19Model C19Proofs.
Import ListNotations.
Local Open Scope N_scope.

Definition digits (ds : list byte) : Prop := Forall (fun c => is_digit c = true) ds.

(* a number as operator<< prints it in scientific notation: [-]d.ddddde[+-]dd *)
Definition sci_tok (v : num) : Prop :=
  match v with
  | NDec sg ip true fp (Some (es, ed)) =>
    ip <> [] /\ digits ip /\ digits fp /\ ed <> [] /\ digits ed /\ in_int32 (signed es (digits_val ed)) = true
  | _ => False
  end.

Definition nodigit_head (s : list byte) : Prop := match s with c :: _ => is_digit c = false | [] => True end.

Definition chars_ok (sep cm : byte) : Prop :=
  is_digit sep = false /\ is_space sep = false /\ (sep =? 0) = false /\ (sep =? cm) = false /\
  is_digit cm = false /\ (cm =? 43) = false /\ (cm =? 45) = false /\ (cm =? 10) = false.

Lemma span_digits_app ds rest : digits ds -> nodigit_head rest -> span_digits (ds ++ rest) = (ds, rest).
Proof.
  intros D H. induction D as [|c ds Hc D IH]; cbn.
  - destruct rest as [|c r]; [reflexivity|]. cbn in H. cbn. rewrite H. reflexivity.
  - rewrite Hc, IH. reflexivity.
Qed.

Lemma digit_not_sign c : is_digit c = true -> (c =? 45) = false /\ (c =? 43) = false /\ (c =? 46) = false /\ (c =? 101) = false.
Proof.
  unfold is_digit. intros H. apply andb_true_iff in H. destruct H as (H1 & H2).
  apply N.leb_le in H1, H2. repeat split; apply N.eqb_neq; lia.
Qed.

Lemma lex_sign_digits sg ds rest : ds <> [] -> digits ds ->
  lex_sign (print_sign sg ++ ds ++ rest) = (sg, ds ++ rest).
Proof.
  intros NE D. destruct sg as [[|]|]; cbn; try reflexivity.
  destruct ds as [|c ds']; [contradiction|]. inversion D as [|? ? Hc _]; subst.
  destruct (digit_not_sign c Hc) as (A & B & _). cbn. rewrite A, B. reflexivity.
Qed.

Lemma lex_exp_print es ed rest :
  ed <> [] -> digits ed -> in_int32 (signed es (digits_val ed)) = true -> nodigit_head rest ->
  lex_exp (101 :: print_sign es ++ ed ++ rest) = (Some (es, ed), rest).
Proof.
  intros NE D R H. unfold lex_exp. cbn [N.eqb orb]. 
  replace ((101 =? 101) || (101 =? 69)) with true by reflexivity.
  rewrite (lex_sign_digits es ed rest NE D). rewrite (span_digits_app ed rest D H).
  destruct ed as [|c ed']; [contradiction|]. rewrite R. reflexivity.
Qed.

Lemma lex_print v rest : sci_tok v -> nodigit_head rest -> lex_double (print_num v ++ rest) = Some (v, rest).
Proof.
  destruct v as [sg ip [|] fp [[es ed]|]| | |]; cbn [sci_tok]; try contradiction.
  intros (NE & Dip & Dfp & NEe & Ded & R) H.
  assert (E : print_num (NDec sg ip true fp (Some (es, ed))) ++ rest =
              print_sign sg ++ ip ++ 46 :: fp ++ 101 :: print_sign es ++ ed ++ rest).
  { unfold print_num. repeat (rewrite <- ?app_assoc; cbn [app]). reflexivity. }
  rewrite E. unfold lex_double.
  rewrite (lex_sign_digits sg ip _ NE Dip).
  rewrite (span_digits_app ip (46 :: fp ++ 101 :: print_sign es ++ ed ++ rest) Dip ltac:(reflexivity)).
  destruct ip as [|c0 ip']; [contradiction|].
  replace (46 =? 46) with true by reflexivity.
  rewrite (span_digits_app fp (101 :: print_sign es ++ ed ++ rest) Dfp ltac:(reflexivity)).
  rewrite (lex_exp_print es ed rest NEe Ded R H). reflexivity.
Qed.

(* ---------- skipping ---------- *)
Lemma sk_nonblank cm c r : is_space c = false -> (c =? cm) = false -> sk cm (c :: r) = c :: r.
Proof. intros A B. unfold sk. cbn [skipc]. rewrite A, B. reflexivity. Qed.

Lemma sk_nl cm r : (cm =? 10) = false -> sk cm (10 :: r) = 10 :: r.
Proof.
  intros A. unfold sk. cbn [skipc]. replace (is_space 10 && (false || negb (is_eolc 10))) with false by reflexivity.
  rewrite N.eqb_sym, A. reflexivity.
Qed.

Lemma digit_not_space c : is_digit c = true -> is_space c = false.
Proof.
  unfold is_digit, is_space. intros H. apply andb_true_iff in H. destruct H as (H1 & H2). apply N.leb_le in H1, H2.
  apply orb_false_iff. split; [apply andb_false_iff; right; apply N.leb_gt; lia|apply N.eqb_neq; lia].
Qed.

Lemma tok_head v : sci_tok v -> exists c r, print_num v = c :: r /\ (is_digit c = true \/ c = 43 \/ c = 45).
Proof.
  destruct v as [sg ip [|] fp [[es ed]|]| | |]; cbn [sci_tok]; try contradiction.
  intros (NE & Dip & _). destruct ip as [|c ip']; [contradiction|]. inversion Dip; subst.
  destruct sg as [[|]|]; cbn; eauto 6.
Qed.

Lemma sk_tok cm v rest : is_digit cm = false -> (cm =? 43) = false -> (cm =? 45) = false ->
  sci_tok v -> sk cm (print_num v ++ rest) = print_num v ++ rest.
Proof.
  intros A B C T. destruct (tok_head v T) as (c & r & E & Hc). rewrite E. cbn [app].
  apply sk_nonblank.
  - destruct Hc as [Hc|[->| ->]]; [apply digit_not_space; exact Hc|reflexivity|reflexivity].
  - destruct Hc as [Hc|[->| ->]].
    + apply N.eqb_neq. intros ->. congruence.
    + rewrite N.eqb_sym. exact B.
    + rewrite N.eqb_sym. exact C.
Qed.

(* ---------- one row ---------- *)
Definition tail_text (sep : byte) (vs : list num) : list byte := concat (map (fun v => sep :: print_num v) vs).

Lemma join_cons sep v vs : join sep (map print_num (v :: vs)) = print_num v ++ tail_text sep vs.
Proof.
  revert v; induction vs as [|w vs IH]; intros v.
  - cbn. rewrite app_nil_r. reflexivity.
  - change (join sep (map print_num (v :: w :: vs))) with (print_num v ++ sep :: join sep (map print_num (w :: vs))).
    rewrite IH. reflexivity.
Qed.

Lemma tail_text_length sep vs : (length vs <= length (tail_text sep vs))%nat.
Proof. unfold tail_text. induction vs as [|v vs IH]; cbn [map concat length app]; [lia|]. rewrite app_length. lia. Qed.

Section Sep.
Variables sep cm : byte.
Hypothesis OK : chars_ok sep cm.

Lemma sep_not_nl : (10 =? sep) = false.
Proof.
  destruct OK as (_ & S & _). apply N.eqb_neq. intros <-. discriminate.
Qed.

Lemma cell_sep_print v rest : sci_tok v -> nodigit_head rest ->
  cell_sep cm sep (print_num v ++ rest) = Some (v, rest).
Proof.
  intros T H. destruct OK as (_ & _ & _ & _ & A & B & C & _).
  unfold cell_sep. rewrite (sk_tok cm v rest A B C T). rewrite (lex_print v rest T H). reflexivity.
Qed.

Lemma nodigit_tail vs rest : nodigit_head (tail_text sep vs ++ 10 :: rest).
Proof. destruct OK as (A & _). destruct vs; cbn; [reflexivity|exact A]. Qed.

Lemma cells_sep_print vs : forall fuel rest, (length vs < fuel)%nat -> Forall sci_tok vs ->
  cells_sep cm sep fuel (tail_text sep vs ++ 10 :: rest) = (vs, 10 :: rest).
Proof.
  destruct OK as (A & S & Z & SC & _ & _ & _ & CN).
  induction vs as [|v vs IH]; intros fuel rest Hf T.
  - destruct fuel as [|f]; [lia|]. cbn [tail_text map concat app cells_sep].
    rewrite (sk_nl cm rest CN). rewrite sep_not_nl. reflexivity.
  - destruct fuel as [|f]; [cbn in Hf; lia|]. inversion T as [|? ? Tv Tvs]; subst.
    change (tail_text sep (v :: vs)) with ((sep :: print_num v) ++ tail_text sep vs).
    rewrite <- app_assoc. cbn [app cells_sep].
    rewrite (sk_nonblank cm sep _ S SC). rewrite N.eqb_refl.
    rewrite (cell_sep_print v _ Tv (nodigit_tail vs rest)).
    rewrite (IH f rest ltac:(cbn in Hf; lia) Tvs). reflexivity.
Qed.

Definition body (r : list num) : list byte := join sep (map print_num r).

Lemma row_sep_print v vs rest : Forall sci_tok (v :: vs) ->
  row_sep cm sep (body (v :: vs) ++ 10 :: rest) = Some (v :: vs, 10 :: rest).
Proof.
  intros T. inversion T as [|? ? Tv Tvs]; subst. unfold body. rewrite join_cons, <- app_assoc.
  unfold row_sep. rewrite (cell_sep_print v _ Tv (nodigit_tail vs rest)).
  rewrite cells_sep_print; [reflexivity| |exact Tvs].
  rewrite app_length. pose proof (tail_text_length sep vs). lia.
Qed.

(* ---------- the file ---------- *)
Definition good_row (r : list num) : Prop := r <> [] /\ Forall sci_tok r.

Lemma export_cons r rows : export_data sep (r :: rows) = body r ++ 10 :: export_data sep rows.
Proof. unfold export_data, line, body. cbn [map concat]. rewrite <- app_assoc. reflexivity. Qed.

Lemma export_length rows : (length rows <= length (export_data sep rows))%nat.
Proof.
  induction rows as [|r rows IH]; [cbn; lia|]. rewrite export_cons, app_length. cbn [length]. lia.
Qed.

Lemma row_sep_nil : row_sep cm sep (@nil N) = None.
Proof. reflexivity. Qed.

Lemma rows_list_print rows : forall fuel, (length rows < fuel)%nat -> Forall good_row rows ->
  rows_list cm (row_sep cm sep) fuel (10 :: export_data sep rows) = (rows, [10]).
Proof.
  destruct OK as (_ & _ & _ & _ & _ & _ & _ & CN).
  induction rows as [|r rows IH]; intros fuel Hf G; (destruct fuel as [|f]; [cbn in Hf; lia|]).
  - change (export_data sep []) with (@nil N). cbn [rows_list]. unfold eol_sk. rewrite (sk_nl cm [] CN). cbn [eol].
    replace (10 =? 13) with false by reflexivity. replace (10 =? 10) with true by reflexivity.
    rewrite row_sep_nil. reflexivity.
  - inversion G as [|? ? (NE & T) Gs]; subst. destruct r as [|v vs]; [contradiction|].
    cbn [rows_list]. unfold eol_sk. rewrite (sk_nl cm _ CN). cbn [eol].
    replace (10 =? 13) with false by reflexivity. replace (10 =? 10) with true by reflexivity.
    rewrite export_cons. rewrite (row_sep_print v vs _ T).
    rewrite (IH f ltac:(cbn in Hf; lia) Gs). reflexivity.
Qed.

Theorem read_values_export rows : rows <> [] -> Forall good_row rows ->
  read_values cm sep (export_data sep rows) = Some rows.
Proof.
  intros NE G. destruct OK as (_ & S & Z & _ & _ & _ & _ & CN).
  unfold read_values, ws_mode. rewrite S, Z. cbn [orb].
  destruct rows as [|r rows]; [contradiction|]. inversion G as [|? ? (NEr & T) Gs]; subst.
  destruct r as [|v vs]; [contradiction|].
  unfold file_list. rewrite export_cons. rewrite (row_sep_print v vs _ T).
  rewrite rows_list_print; [| |exact Gs].
  2:{ rewrite app_length. cbn [length]. pose proof (export_length rows). lia. }
  cbn [eols]. unfold eol_sk. rewrite (sk_nl cm [] CN). cbn [eol].
  replace (10 =? 13) with false by reflexivity. replace (10 =? 10) with true by reflexivity.
  destruct (length (body (v :: vs) ++ 10 :: export_data sep rows)); reflexivity.
Qed.

(* import (export d): every element comes back, batches as requested *)
Theorem data_roundtrip rows d m : (1 <= m)%nat -> (1 <= d)%nat -> rows <> [] ->
  Forall (fun r => length r = d /\ Forall sci_tok r) rows ->
  exists ds, csv_import_data sep cm m (export_data sep rows) = Ok ds /\
             map snd (ds_elems ds) = rows /\ ds_dim ds = Z.of_nat d /\ wf_batches m (ds_batches ds).
Proof.
  intros Hm Hd NE F.
  assert (G : Forall good_row rows).
  { eapply Forall_impl; [|exact F]. intros r (L & T). split; [|exact T]. intros ->. cbn in L. lia. }
  unfold csv_import_data. rewrite (read_values_export rows NE G). cbn [lift].
  pose proof (post_data_total rows m Hm) as P. unfold post_data in *.
  destruct rows as [|r0 rest]; [contradiction|].
  destruct (batch_opt _ m) as [bs|] eqn:E; [|contradiction].
  assert (SL : same_len (length r0) (r0 :: rest) = true).
  { unfold same_len. apply forallb_forall. intros r Hr. rewrite Forall_forall in F.
    destruct (F r Hr) as (L & _). destruct (F r0 ltac:(left; reflexivity)) as (L0 & _). apply Nat.eqb_eq. lia. }
  rewrite SL in *. destruct P as (P1 & P2 & P3). eexists. split; [reflexivity|]. split; [exact P1|]. split; [|exact P2].
  cbn [ds_dim]. inversion F as [|? ? (L0 & _) _]; subst. reflexivity.
Qed.

Definition merge (first : bool) (r : list num * list num) : list num := if first then fst r ++ snd r else snd r ++ fst r.

Lemma export_reg_as_data first rows : export_reg first sep rows = export_data sep (map (merge first) rows).
Proof. unfold export_reg, export_data. rewrite map_map. reflexivity. Qed.

Lemma split_merge first nout (r : list num * list num) : length (fst r) = nout -> split_reg first nout (merge first r) = r.
Proof.
  destruct r as [l v]. cbn [fst snd]. intros <-. unfold split_reg, merge. destruct first; cbn [fst snd].
  - rewrite firstn_app, skipn_app, firstn_all, skipn_all, Nat.sub_diag. cbn. rewrite app_nil_r. reflexivity.
  - rewrite app_length. replace (length v + length l - length l)%nat with (length v) by lia.
    rewrite firstn_app, skipn_app, firstn_all, skipn_all, Nat.sub_diag. cbn. rewrite app_nil_r. reflexivity.
Qed.

Theorem reg_roundtrip first nout rows d m : (1 <= m)%nat -> (1 <= nout)%nat -> (1 <= d)%nat -> rows <> [] ->
  Forall (fun r => length (fst r) = nout /\ length (snd r) = d /\ Forall sci_tok (fst r) /\ Forall sci_tok (snd r)) rows ->
  exists ds, csv_import_reg first nout sep cm m (export_reg first sep rows) = Ok ds /\
             ds_elems ds = rows /\ ds_dim ds = Z.of_nat d /\ wf_batches m (ds_batches ds).
Proof.
  intros Hm Hn Hd NE F. rewrite export_reg_as_data.
  set (mrows := map (merge first) rows).
  assert (ML : forall r, In r mrows -> length r = (nout + d)%nat /\ Forall sci_tok r).
  { intros r Hr. apply in_map_iff in Hr. destruct Hr as (x & <- & Hx). rewrite Forall_forall in F.
    destruct (F x Hx) as (A & B & C & D). unfold merge. destruct first; rewrite app_length; split; try lia; apply Forall_app; auto. }
  assert (G : Forall good_row mrows).
  { apply Forall_forall. intros r Hr. destruct (ML r Hr) as (L & T). split; [|exact T]. intros ->. cbn in L. lia. }
  assert (NEm : mrows <> []). { unfold mrows. destruct rows; [contradiction|discriminate]. }
  unfold csv_import_reg. rewrite (read_values_export mrows NEm G). cbn [lift].
  pose proof (post_reg_total first nout mrows m Hm) as P. unfold post_reg in *.
  destruct mrows as [|r0 rest] eqn:EM; [contradiction|].
  destruct (ML r0 ltac:(left; reflexivity)) as (L0 & _).
  destruct (Nat.leb_spec (length r0) nout) as [|_]; [lia|].
  destruct (batch_opt _ m) as [bs|] eqn:E; [|contradiction].
  assert (SL : same_len (length r0) (r0 :: rest) = true).
  { unfold same_len. apply forallb_forall. intros r Hr. destruct (ML r Hr) as (L & _). apply Nat.eqb_eq. lia. }
  rewrite SL in *. destruct P as (P1 & P2 & _). eexists. split; [reflexivity|]. split; [|split; [|exact P2]].
  - rewrite P1, <- EM. unfold mrows. rewrite map_map. rewrite <- (map_id rows) at 2. apply map_ext_in.
    intros r Hr. apply split_merge. rewrite Forall_forall in F. apply (F r Hr).
  - cbn [ds_dim]. f_equal. lia.
Qed.

End Sep.

(* the hypotheses are satisfiable *)
Lemma chars_ok_comma_hash : chars_ok 44 35.
Proof. repeat split. Qed.
Lemma chars_ok_semicolon_percent : chars_ok 59 37.
Proof. repeat split. Qed.

Definition tok_1_5 : num := NDec None [49] true [53;48;48;48;48;48;48;48;48;48] (Some (Some false, [48;48])).      (* 1.5000000000e+00 *)
Definition tok_m2_25em3 : num := NDec (Some true) [50] true [50;53;48;48;48;48;48;48;48;48] (Some (Some true, [48;51])).  (* -2.2500000000e-03 *)

Lemma tok_examples_sci : sci_tok tok_1_5 /\ sci_tok tok_m2_25em3.
Proof.
  split; cbn; (split; [discriminate|]); (split; [repeat constructor|]); (split; [repeat constructor|]);
    (split; [discriminate|]); (split; [repeat constructor|reflexivity]).
Qed.

Lemma roundtrip_example :
  csv_import_data 44 35 1 (export_data 44 [[tok_1_5; tok_m2_25em3]; [tok_m2_25em3; tok_1_5]]) =
  Ok (mkDs [[(tt, [tok_1_5; tok_m2_25em3])]; [(tt, [tok_m2_25em3; tok_1_5])]] 2).
Proof. vm_compute. reflexivity. Qed.

Lemma example_ok :
  csv_import_data 44 35 1 (bytes_of [49;44;50;10;51;44;52;10]%nat) =
  Ok (mkDs [[(tt, [NDec None [49] false [] None; NDec None [50] false [] None])];
            [(tt, [NDec None [51] false [] None; NDec None [52] false [] None])]] 2).
Proof. vm_compute. reflexivity. Qed.
Lemma example_ragged_exc : csv_import_data 44 35 1 (bytes_of [49;44;50;10;51;10]%nat) = Exc.
Proof. vm_compute. reflexivity. Qed.
