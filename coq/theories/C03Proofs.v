(* C03 — dataset containers keep every element, its order and its input-label pairing. *)
From Coq Require Import List Arith Lia Bool Permutation.
From SharkV Require Import ListAux C03Model.
Import ListNotations.

(* ---------- arithmetic of optimalBatchSizes ---------- *)
Lemma sum_app a b : sum (a ++ b) = sum a + sum b.
Proof. induction a; simpl; lia. Qed.

Lemma sum_map_step (q r b s : nat) :
  sum (map (fun j => if j <? r then q + 1 else q) (seq s b)) = b * q + (Nat.min (s + b) r - Nat.min s r).
Proof.
  revert s; induction b as [|b IH]; intros s; simpl.
  - lia.
  - rewrite IH. destruct (Nat.ltb_spec s r); lia.
Qed.

Definition ceil_div (n m : nat) : nat := n / m + (if n mod m =? 0 then 0 else 1).

Lemma ceil_div_bounds n m : 0 < m -> 0 < n -> 0 < ceil_div n m /\ n <= ceil_div n m * m /\ (ceil_div n m - 1) * m < n.
Proof.
  intros Hm Hn. unfold ceil_div.
  pose proof (Nat.div_mod n m ltac:(lia)) as E.
  pose proof (Nat.mod_upper_bound n m ltac:(lia)) as U.
  destruct (Nat.eqb_spec (n mod m) 0) as [Z|Z].
  - rewrite Z in E. assert (0 < n / m) by (destruct (n / m); lia). nia.
  - nia.
Qed.

Theorem opt_sizes_spec n m l :
  opt_sizes n m = Some l ->
  sum l = n /\
  (forall s, In s l -> 1 <= s <= m) /\
  (forall s t, In s l -> In t l -> s <= t + 1) /\
  (n = 0 -> l = []).
Proof.
  unfold opt_sizes. destruct (Nat.eqb_spec m 0) as [|Hm]; [discriminate|].
  destruct (Nat.eqb_spec n 0) as [->|Hn].
  { intros [= <-]. simpl. repeat split; auto; intros; contradiction. }
  fold (ceil_div n m). intros [= <-].
  destruct (ceil_div_bounds n m ltac:(lia) ltac:(lia)) as (Hb & Hle & Hgt).
  set (b := ceil_div n m) in *.
  pose proof (Nat.div_mod n b ltac:(lia)) as E.
  pose proof (Nat.mod_upper_bound n b ltac:(lia)) as U.
  set (q := n / b) in *.
  assert (Hr : n - b * q = n mod b) by lia. rewrite Hr. set (r := n mod b) in *.
  assert (Hq1 : 1 <= q). { destruct q; [|lia]. exfalso. nia. }
  assert (Hqm : q <= m) by nia.
  assert (Hqm' : 0 < r -> q + 1 <= m) by (intros; nia).
  split; [|split; [|split]].
  - rewrite sum_map_step. simpl. rewrite Nat.min_r by lia. lia.
  - intros s Hs. apply in_map_iff in Hs. destruct Hs as (j & <- & Hj). apply in_seq in Hj.
    destruct (Nat.ltb_spec j r); lia.
  - intros s t Hs Ht. apply in_map_iff in Hs, Ht.
    destruct Hs as (j & <- & _). destruct Ht as (k & <- & _).
    destruct (j <? r); destruct (k <? r); lia.
  - lia.
Qed.

(* ---------- chunk ---------- *)
Section Poly.
Context {A : Type}.
Implicit Types (d : @data A).

Lemma firstn_add n m (l : list A) : firstn (n + m) l = firstn n l ++ firstn m (skipn n l).
Proof.
  revert l; induction n as [|n IH]; intros [|x l]; simpl; auto.
  - rewrite firstn_nil. auto.
  - f_equal. apply IH.
Qed.

Lemma chunk_elems szs (l : list A) : elems (chunk szs l) = firstn (sum szs) l.
Proof.
  unfold elems. revert l; induction szs as [|s ss IH]; intros l; simpl; auto.
  rewrite IH. symmetry. apply firstn_add.
Qed.

Lemma chunk_elems_all szs (l : list A) : sum szs = length l -> elems (chunk szs l) = l.
Proof. intros H. rewrite chunk_elems, H. apply firstn_all. Qed.

Lemma chunk_sizes szs (l : list A) : sum szs <= length l -> sizes (chunk szs l) = szs.
Proof.
  unfold sizes. revert l; induction szs as [|s ss IH]; intros l H; simpl in *; auto.
  rewrite firstn_length, Nat.min_l by lia. f_equal. apply IH. rewrite skipn_length. lia.
Qed.

Lemma sum_sizes d : sum (sizes d) = nelems d.
Proof.
  unfold sizes, nelems, elems. induction d as [|b d IH]; simpl; auto.
  rewrite app_length. lia.
Qed.

(* batch sizes always sum to the element count *)
Theorem sizes_sum_to_count d : sum (sizes d) = length (elems d).
Proof. apply sum_sizes. Qed.

(* ---------- each structural operation ---------- *)
Theorem create_spec (l : list A) m d :
  create l m = Some d ->
  elems d = l /\ sum (sizes d) = length l /\
  (forall s, In s (sizes d) -> 1 <= s <= (if m =? 0 then length l else m)).
Proof.
  unfold create. destruct l as [|x l']; [discriminate|]. set (l := x :: l') in *.
  destruct (opt_sizes _ _) as [s|] eqn:E; [|discriminate]. intros [= <-].
  destruct (opt_sizes_spec _ _ _ E) as (S1 & S2 & _).
  split; [apply chunk_elems_all; auto|]. rewrite chunk_sizes by lia. split; auto.
Qed.

Theorem repartition_spec szs d d' :
  repartition szs d = Some d' -> elems d' = elems d /\ sizes d' = szs.
Proof.
  unfold repartition. destruct (Nat.eqb_spec (sum szs) (nelems d)) as [E|]; [|discriminate].
  intros [= <-]. split; [apply chunk_elems_all; auto|apply chunk_sizes; unfold nelems in E; lia].
Qed.

Lemma elems_app d1 d2 : elems (d1 ++ d2) = elems d1 ++ elems d2.
Proof. unfold elems. apply concat_app. Qed.

Lemma nth_split_batches b d :
  b < length d -> d = firstn b d ++ [nth b d []] ++ skipn (S b) d.
Proof.
  revert d; induction b as [|b IH]; intros [|x d] H; simpl in *; try lia; auto.
  f_equal. apply IH. lia.
Qed.

Lemma elems_cons (x : list A) d : elems (x :: d) = x ++ elems d.
Proof. reflexivity. Qed.

Lemma elems_split b d : b < length d -> elems d = elems (firstn b d) ++ nth b d [] ++ elems (skipn (S b) d).
Proof.
  intros H. rewrite (nth_split_batches b d H) at 1. rewrite elems_app. f_equal.
Qed.

Theorem split_batch_spec b k d d' :
  split_batch b k d = Some d' ->
  elems d' = elems d /\
  (((k = 0 \/ k = length (nth b d [])) /\ d' = d) \/
   sizes d' = firstn b (sizes d) ++ [k; length (nth b d []) - k] ++ skipn (S b) (sizes d)).
Proof.
  unfold split_batch. destruct (Nat.ltb_spec b (length d)) as [Hb|]; [|discriminate].
  destruct (Nat.ltb_spec (length (nth b d [])) k) as [|Hk]; [discriminate|].
  destruct ((k =? 0) || (k =? length (nth b d []))) eqn:E; intros [= <-].
  { split; auto. left. split; auto. apply orb_prop in E. destruct E as [E|E]; apply Nat.eqb_eq in E; auto. }
  split.
  - rewrite (elems_split b d Hb). rewrite elems_app. f_equal.
    cbn [app]. rewrite !elems_cons. rewrite app_assoc, firstn_skipn. reflexivity.
  - right. change (match d with | [] => [] | _ :: l => skipn b l end) with (skipn (S b) d).
    unfold sizes. rewrite !map_app, firstn_map, skipn_map. cbn [map app].
    rewrite firstn_length, skipn_length, Nat.min_l by lia. reflexivity.
Qed.

Theorem splice_spec b d l r :
  splice b d = Some (l, r) -> l ++ r = d /\ elems l ++ elems r = elems d /\ length l = b.
Proof.
  unfold splice. destruct (Nat.leb_spec b (length d)); [|discriminate]. intros [= <- <-].
  split; [apply firstn_skipn|]. split; [rewrite <- elems_app, firstn_skipn; auto|].
  rewrite firstn_length. lia.
Qed.

Theorem append_spec d1 d2 : elems (append d1 d2) = elems d1 ++ elems d2 /\ sizes (append d1 d2) = sizes d1 ++ sizes d2.
Proof. unfold append. split; [apply elems_app|unfold sizes; apply map_app]. Qed.

(* reorderElements is the gather new[k] = old[idx[k]], batch structure unchanged *)
Theorem reorder_spec dflt idx d d' :
  reorder dflt idx d = Some d' ->
  elems d' = map (fun i => nth i (elems d) dflt) idx /\ sizes d' = sizes d.
Proof.
  unfold reorder. destruct (_ && _) eqn:E; [|discriminate]. intros [= <-].
  apply andb_prop in E. destruct E as [E1 _]. apply Nat.eqb_eq in E1.
  split.
  - apply chunk_elems_all. rewrite map_length, sum_sizes. auto.
  - apply chunk_sizes. rewrite map_length, sum_sizes. lia.
Qed.

(* ... hence a permutation of the elements whenever the index vector is a permutation *)
Lemma map_nth_seq (l : list A) dflt : map (fun i => nth i l dflt) (seq 0 (length l)) = l.
Proof.
  induction l as [|x l IH]; simpl; auto. f_equal.
  rewrite <- seq_shift, map_map. exact IH.
Qed.

Theorem reorder_permutation dflt idx d d' :
  reorder dflt idx d = Some d' -> Permutation idx (seq 0 (nelems d)) ->
  Permutation (elems d') (elems d).
Proof.
  intros H P. destruct (reorder_spec _ _ _ _ H) as [E _]. rewrite E.
  rewrite (Permutation_map (fun i => nth i (elems d) dflt) P).
  unfold nelems. rewrite map_nth_seq. auto.
Qed.

Theorem indexed_subset_spec idx d d' :
  indexed_subset idx d = Some d' ->
  d' = map (fun i => nth i d []) idx /\ elems d' = flat_map (fun i => nth i d []) idx.
Proof.
  unfold indexed_subset. destruct (forallb _ _); [|discriminate]. intros [= <-].
  split; auto. unfold elems. rewrite flat_map_concat_map. auto.
Qed.

(* splitAtElement: exactly the first k elements stay, the others are returned, in order *)
Lemma find_batch_spec szs k pos :
  k <= sum szs -> 0 < k ->
  let '(bp, st) := find_batch szs k pos in
  pos <= bp /\ bp - pos < length szs /\ st = sum (firstn (bp - pos) szs) /\ st < k /\ k <= st + nth (bp - pos) szs 0.
Proof.
  revert k pos; induction szs as [|s ss IH]; intros k pos Hk H0; simpl in *; [lia|].
  destruct (Nat.ltb_spec s k) as [H|H].
  - specialize (IH (k - s) (S pos) ltac:(lia) ltac:(lia)).
    destruct (find_batch ss (k - s) (S pos)) as [p st]. destruct IH as (A1 & B1 & C1 & D1 & E1).
    replace (p - pos) with (S (p - S pos)) by lia. simpl. repeat split; try lia.
  - rewrite Nat.sub_diag. simpl. lia.
Qed.

Lemma elems_firstn_sum d b :
  b <= length d -> length (elems (firstn b d)) = sum (firstn b (sizes d)).
Proof. intros. unfold sizes. rewrite firstn_map. fold (sizes (firstn b d)). symmetry. apply sum_sizes. Qed.

Lemma sum_firstn_S b (s : list nat) : sum (firstn (S b) s) = sum (firstn b s) + nth b s 0.
Proof.
  revert s; induction b as [|b IH]; intros [|x s]; simpl; try lia.
  specialize (IH s). simpl in IH. lia.
Qed.

Lemma app_inv_length (a b c e : list A) : a ++ b = c ++ e -> length a = length c -> a = c /\ b = e.
Proof.
  revert c; induction a as [|x a IH]; intros [|y c] H HL; simpl in *; try discriminate; auto.
  injection H as -> H. destruct (IH c H ltac:(lia)) as [-> ->]. auto.
Qed.

Theorem split_at_element_spec k d l r :
  split_at_element k d = Some (l, r) ->
  elems l = firstn k (elems d) /\ elems r = skipn k (elems d).
Proof.
  unfold split_at_element. destruct (Nat.leb_spec k (nelems d)) as [Hk|]; [|discriminate].
  destruct d as [|b0 d0]; [intros [= <- <-]; destruct k; auto|]. set (d := b0 :: d0) in *.
  assert (forall l r, elems l ++ elems r = elems d -> length (elems l) = k ->
            elems l = firstn k (elems d) /\ elems r = skipn k (elems d)) as Fin.
  { intros l0 r0 E L. rewrite <- E. rewrite <- L. rewrite firstn_app, firstn_all, Nat.sub_diag. simpl.
    rewrite app_nil_r. rewrite skipn_app, skipn_all, Nat.sub_diag. simpl. auto. }
  destruct (Nat.eq_dec k 0) as [->|K0].
  { simpl. unfold splice. simpl. intros [= <- <-]. auto. }
  pose proof (find_batch_spec (sizes d) k 0 ltac:(rewrite sum_sizes; auto) ltac:(lia)) as F.
  destruct (find_batch (sizes d) k 0) as [bp st]. rewrite Nat.sub_0_r in F.
  destruct F as (_ & Hbp & Hst & Hlt & Hle).
  unfold sizes in Hbp. rewrite map_length in Hbp.
  assert (Hnth : nth bp (sizes d) 0 = length (nth bp d [])).
  { unfold sizes. rewrite nth_indep with (d' := length (@nil A)) by (rewrite map_length; auto).
    apply map_nth. }
  destruct (Nat.eqb_spec (k - st) 0) as [|Hsp]; [lia|].
  destruct (split_batch bp (k - st) d) as [d1|] eqn:SB; [|discriminate].
  intros SP. destruct (splice_spec _ _ _ _ SP) as (E1 & E2 & E3).
  destruct (split_batch_spec _ _ _ _ SB) as (EE & Sz).
  apply Fin; [congruence|].
  (* length of the left part, via the batch sizes *)
  assert (El : l = firstn (S bp) d1).
  { rewrite <- E1. rewrite firstn_app, <- E3, Nat.sub_diag, firstn_all. simpl. rewrite app_nil_r. auto. }
  rewrite El, elems_firstn_sum by (rewrite <- E1, app_length; lia).
  destruct Sz as [[Hk' ->]|Sz].
  - rewrite sum_firstn_S. lia.
  - rewrite Sz. rewrite firstn_app.
    assert (length (firstn bp (sizes d)) = bp) as Lf.
    { rewrite firstn_length. unfold sizes. rewrite map_length. lia. }
    rewrite Lf. replace (S bp - bp) with 1 by lia.
    rewrite firstn_all2 with (n := S bp) by lia. cbn [firstn app]. rewrite sum_app. cbn [sum fold_right]. lia.
Qed.

(* element access by index agrees with the batch sequence, and the iterator steps agree with it *)
Theorem element_spec i d : element i d = nth_error (elems d) i.
Proof. reflexivity. Qed.

End Poly.

(* ---------- naturality: structural operations commute with element-wise maps ---------- *)
Section Natural.
Context {A B : Type} (f : A -> B).

Lemma elems_map (d : @data A) : elems (transform f d) = map f (elems d).
Proof. unfold elems, transform. rewrite concat_map. auto. Qed.

Lemma sizes_map (d : @data A) : sizes (transform f d) = sizes d.
Proof. unfold sizes, transform. rewrite map_map. apply map_ext. intros. apply map_length. Qed.

Lemma nelems_map (d : @data A) : nelems (transform f d) = nelems d.
Proof. unfold nelems. rewrite elems_map, map_length. auto. Qed.

Lemma chunk_map szs (l : list A) : chunk szs (map f l) = transform f (chunk szs l).
Proof.
  revert l; induction szs as [|s ss IH]; intros l; simpl; auto.
  rewrite firstn_map, skipn_map, IH. auto.
Qed.

Definition omap {X Y} (g : X -> Y) (o : option X) : option Y := match o with Some x => Some (g x) | None => None end.

Theorem transform_keeps_structure (d : @data A) :
  elems (transform f d) = map f (elems d) /\ sizes (transform f d) = sizes d.
Proof. split; [apply elems_map|apply sizes_map]. Qed.

Theorem repartition_natural szs (d : @data A) :
  repartition szs (transform f d) = omap (transform f) (repartition szs d).
Proof.
  unfold repartition. rewrite nelems_map. destruct (_ =? _); simpl; auto.
  rewrite elems_map, chunk_map. auto.
Qed.

Lemma nth_transform b (d : @data A) : nth b (transform f d) [] = map f (nth b d []).
Proof. unfold transform. change (@nil B) with (map f []). apply map_nth. Qed.

Theorem split_batch_natural b k (d : @data A) :
  split_batch b k (transform f d) = omap (transform f) (split_batch b k d).
Proof.
  unfold split_batch. unfold transform at 1. rewrite map_length. destruct (_ <? length d); auto.
  rewrite nth_transform, map_length. destruct (_ <? k); auto.
  destruct (_ || _); cbn [omap]; auto.
  f_equal. unfold transform. rewrite !map_app, !firstn_map, !skipn_map. cbn [map app].
  reflexivity.
Qed.

Theorem splice_natural b (d : @data A) :
  splice b (transform f d) = omap (fun p => (transform f (fst p), transform f (snd p))) (splice b d).
Proof.
  unfold splice, transform. rewrite map_length. destruct (_ <=? _); simpl; auto.
  rewrite firstn_map, skipn_map. auto.
Qed.

Theorem append_natural (d1 d2 : @data A) :
  append (transform f d1) (transform f d2) = transform f (append d1 d2).
Proof. unfold append, transform. symmetry. apply map_app. Qed.

Theorem reorder_natural da idx (d : @data A) :
  reorder (f da) idx (transform f d) = omap (transform f) (reorder da idx d).
Proof.
  unfold reorder. rewrite nelems_map. destruct (_ && _); simpl; auto.
  rewrite sizes_map, elems_map, <- chunk_map. f_equal. f_equal.
  rewrite map_map. apply map_ext. intros i. apply map_nth.
Qed.

Theorem indexed_subset_natural idx (d : @data A) :
  indexed_subset idx (transform f d) = omap (transform f) (indexed_subset idx d).
Proof.
  unfold indexed_subset. unfold transform at 1. rewrite map_length. destruct (forallb _ _); simpl; auto.
  f_equal. unfold transform at 2. rewrite map_map. apply map_ext. intros i. apply nth_transform.
Qed.

Theorem split_at_element_natural k (d : @data A) :
  split_at_element k (transform f d) = omap (fun p => (transform f (fst p), transform f (snd p))) (split_at_element k d).
Proof.
  unfold split_at_element. rewrite nelems_map. destruct (_ <=? _); auto.
  destruct d as [|b d]; [reflexivity|]. change (transform f (b :: d)) with (map f b :: transform f d).
  change (map f b :: transform f d) with (transform f (b :: d)).
  rewrite sizes_map. destruct (find_batch _ _ _) as [bp st].
  destruct (_ =? 0); [apply splice_natural|].
  rewrite split_batch_natural. destruct (split_batch bp (k - st) (b :: d)); simpl; auto.
  apply splice_natural.
Qed.

End Natural.

(* ---------- pairing: inputs are never separated from their labels ---------- *)
(* A labelled dataset whose two containers are the projections of one dataset of pairs stays of
   that form under every structural operation (applied, as the C++ does, to the two containers
   separately with the same arguments), and the dataset of pairs undergoes the same operation. *)
Section Pairing.
Context {I L : Type}.
Definition paired (z : @data (I * L)) : labeled I L := mkL (transform fst z) (transform snd z).

Theorem pairing_repartition szs z :
  lift2 (fun X => repartition szs) (paired z) = omap paired (repartition szs z).
Proof.
  unfold lift2, paired. simpl. rewrite !repartition_natural. destruct (repartition szs z); auto.
Qed.

Theorem pairing_split_batch b k z :
  lift2 (fun X => split_batch b k) (paired z) = omap paired (split_batch b k z).
Proof.
  unfold lift2, paired. simpl. rewrite !split_batch_natural. destruct (split_batch b k z); auto.
Qed.

Theorem pairing_reorder di dl idx z :
  match reorder di idx (inputs (paired z)), reorder dl idx (labels (paired z)) with
  | Some a, Some b => Some (mkL a b) | _, _ => None end
  = omap paired (reorder (di, dl) idx z).
Proof.
  unfold paired. simpl.
  change di with (fst (di, dl)) at 1. change dl with (snd (di, dl)) at 2.
  rewrite !reorder_natural. destruct (reorder (di, dl) idx z); auto.
Qed.

Theorem pairing_indexed_subset idx z :
  lift2 (fun X => indexed_subset idx) (paired z) = omap paired (indexed_subset idx z).
Proof.
  unfold lift2, paired. simpl. rewrite !indexed_subset_natural. destruct (indexed_subset idx z); auto.
Qed.

Theorem pairing_append z1 z2 :
  mkL (append (inputs (paired z1)) (inputs (paired z2))) (append (labels (paired z1)) (labels (paired z2)))
  = paired (append z1 z2).
Proof. unfold paired. simpl. rewrite !append_natural. auto. Qed.

Theorem pairing_splice b z :
  match splice b (inputs (paired z)), splice b (labels (paired z)) with
  | Some (a1, a2), Some (b1, b2) => Some (mkL a1 b1, mkL a2 b2) | _, _ => None end
  = omap (fun p => (paired (fst p), paired (snd p))) (splice b z).
Proof.
  unfold paired. simpl. rewrite !splice_natural. destruct (splice b z) as [[x y]|]; auto.
Qed.

Theorem pairing_split_at_element k z :
  match split_at_element k (inputs (paired z)), split_at_element k (labels (paired z)) with
  | Some (a1, a2), Some (b1, b2) => Some (mkL a1 b1, mkL a2 b2) | _, _ => None end
  = omap (fun p => (paired (fst p), paired (snd p))) (split_at_element k z).
Proof.
  unfold paired. simpl. rewrite !split_at_element_natural. destruct (split_at_element k z) as [[x y]|]; auto.
Qed.

(* the i-th input always sits next to the i-th label *)
Theorem paired_elements z :
  combine (elems (inputs (paired z))) (elems (labels (paired z))) = elems z.
Proof.
  unfold paired. simpl. rewrite !elems_map.
  induction (elems z) as [|[a b] t IH]; simpl; auto. f_equal. exact IH.
Qed.
End Pairing.
