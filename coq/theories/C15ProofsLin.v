(* C15 — linear-algebra properties of the closed-form trainers (whitening, ZCA, PCA, LDA) over Q:
   affine equivariance of mean / covariance, whitening identity from the decomposition contract,
   PCA encoder/decoder = orthogonal projection, LDA decision rule. *)
From Coq Require Import List Arith Bool QArith Lia Lqa Setoid.
From SharkV Require Import ListAux C03Model C15Model C15Aux.
Import ListNotations.
Open Scope Q_scope.

(* ---------- generic helpers ---------- *)
Lemma sumn_mul n m f g : sumn n f * sumn m g == sumn n (fun j => sumn m (fun l => f j * g l)).
Proof.
  rewrite <- sumn_scal_r. apply sumn_ext; intros i _. symmetry. apply sumn_scal.
Qed.

Lemma sumn_ext_all n f g : (forall i, f i == g i) -> sumn n f == sumn n g.
Proof. intros H. apply sumn_ext; intros; apply H. Qed.

Lemma mean_ext {X} (f g : X -> Q) (D : @data X) : (forall x, f x == g x) -> mean f D == mean g D.
Proof. intros H. unfold mean. rewrite (dsum_ext f g D H). reflexivity. Qed.

Lemma cov_ext {X} (f f' g g' : X -> Q) (D : @data X) :
  (forall x, f x == f' x) -> (forall x, g x == g' x) -> cov f g D == cov f' g' D.
Proof.
  intros Hf Hg. unfold cov.
  rewrite (dsum_ext (fun x => (f x - mean f D) * (g x - mean g D))
                    (fun x => (f' x - mean f' D) * (g' x - mean g' D))).
  - reflexivity.
  - intros x. rewrite (Hf x), (Hg x), (mean_ext f f' D Hf), (mean_ext g g' D Hg). reflexivity.
Qed.

Lemma var_cov {X} (f : X -> Q) (D : @data X) : var f D == cov f f D.
Proof. reflexivity. Qed.

Section Affine.
Context {X : Type} (d : nat) (F : nat -> X -> Q).

Definition aff (u : nat -> Q) (p : Q) (x : X) : Q := sumn d (fun j => u j * F j x) + p.

Lemma mean_aff u p (D : @data X) : ~ count D == 0 ->
  mean (aff u p) D == sumn d (fun j => u j * mean (F j) D) + p.
Proof.
  intros Hn. unfold mean, aff.
  rewrite dsum_plus, dsum_const, dsum_sumn.
  rewrite (sumn_ext_all d (fun j => dsum (fun x => u j * F j x) D) (fun j => u j * dsum (F j) D))
    by (intros; apply dsum_scal).
  rewrite (sumn_ext_all d (fun j => u j * (dsum (F j) D / count D)) (fun j => (u j * dsum (F j) D) * / count D))
    by (intros; unfold Qdiv; ring).
  rewrite sumn_scal_r. field. exact Hn.
Qed.

Lemma aff_center u p (D : @data X) x : ~ count D == 0 ->
  aff u p x - mean (aff u p) D == sumn d (fun j => u j * (F j x - mean (F j) D)).
Proof.
  intros Hn. rewrite mean_aff by exact Hn. unfold aff.
  rewrite (sumn_ext_all d (fun j => u j * (F j x - mean (F j) D))
             (fun j => u j * F j x - u j * mean (F j) D)) by (intros; ring).
  rewrite sumn_minus. ring.
Qed.

Lemma cov_aff u p v q (D : @data X) : ~ count D == 0 ->
  cov (aff u p) (aff v q) D == sumn d (fun j => sumn d (fun l => u j * cov (F j) (F l) D * v l)).
Proof.
  intros Hn. unfold cov at 1.
  rewrite (dsum_ext _ (fun x => sumn d (fun j => sumn d (fun l =>
             (u j * (F j x - mean (F j) D)) * (v l * (F l x - mean (F l) D)))))).
  2:{ intros x. rewrite !aff_center by exact Hn. apply sumn_mul. }
  rewrite dsum_sumn.
  unfold Qdiv. rewrite <- sumn_scal_r. apply sumn_ext; intros j _.
  rewrite dsum_sumn. rewrite <- sumn_scal_r. apply sumn_ext; intros l _.
  unfold cov.
  rewrite (dsum_ext _ (fun x => (u j * v l) * ((F j x - mean (F j) D) * (F l x - mean (F l) D))))
    by (intros; ring).
  rewrite dsum_scal. unfold Qdiv. ring.
Qed.

End Affine.

(* ---------- A. affine equivariance ---------- *)
Lemma lin_mean d W b a (D : @data (list Q)) : ~ count D == 0 ->
  mean (lin d W b a) D == sumn d (fun j => W a j * mean (feat j) D) + b a.
Proof. intros Hn. exact (mean_aff d feat (W a) (b a) D Hn). Qed.

Lemma lin_cov d W b a c (D : @data (list Q)) : ~ count D == 0 ->
  cov (lin d W b a) (lin d W b c) D == wcw d W D a c.
Proof. intros Hn. exact (cov_aff d feat (W a) (b a) (W c) (b c) D Hn). Qed.

(* ---------- C. PCA ---------- *)
Lemma enc_dec_gram d m V i z :
  sumn d (fun j => V j i * sumn m (fun k => V j k * z k)) == sumn m (fun k => gram d V i k * z k).
Proof.
  rewrite (sumn_ext_all d _ (fun j => sumn m (fun k => V j i * V j k * z k))).
  2:{ intros j. rewrite <- sumn_scal. apply sumn_ext_all; intros; ring. }
  rewrite sumn_swap. apply sumn_ext_all; intros k. unfold gram.
  rewrite <- sumn_scal_r. reflexivity.
Qed.

Lemma pca_enc_dec d m V mu : (forall i k, (i < m)%nat -> (k < m)%nat -> gram d V i k == delta i k) ->
  forall z i, (i < m)%nat -> pca_enc d V mu i (fun j => pca_dec m V mu j z) == z i.
Proof.
  intros HG z i Hi. unfold pca_enc, pca_dec.
  rewrite (sumn_ext_all d _ (fun j => V j i * sumn m (fun k => V j k * z k))) by (intros; ring).
  rewrite enc_dec_gram.
  rewrite (sumn_ext m _ (fun k => delta i k * z k)).
  - apply sumn_delta; exact Hi.
  - intros k Hk. rewrite HG by assumption. reflexivity.
Qed.

Lemma pca_enc_minus d V mu i x y :
  sumn d (fun j => V j i * (x j - y j)) == pca_enc d V mu i x - pca_enc d V mu i y.
Proof.
  unfold pca_enc. rewrite <- sumn_minus. apply sumn_ext_all; intros; ring.
Qed.

Lemma pca_projection_partial d m V mu : (forall i k, (i < m)%nat -> (k < m)%nat -> gram d V i k == delta i k) ->
  forall x,
   (forall i, (i < m)%nat -> pca_enc d V mu i (pca_proj d m V mu x) == pca_enc d V mu i x) /\
   (forall j, pca_proj d m V mu (pca_proj d m V mu x) j == pca_proj d m V mu x j) /\
   (forall i, (i < m)%nat -> sumn d (fun j => V j i * (x j - pca_proj d m V mu x j)) == 0).
Proof.
  intros HG x.
  assert (E : forall i, (i < m)%nat -> pca_enc d V mu i (pca_proj d m V mu x) == pca_enc d V mu i x).
  { intros i Hi. exact (pca_enc_dec d m V mu HG (fun i => pca_enc d V mu i x) i Hi). }
  split; [exact E|]. split.
  - intros j. unfold pca_proj at 1 3. unfold pca_dec.
    rewrite (sumn_ext m (fun i => V j i * pca_enc d V mu i (pca_proj d m V mu x))
                        (fun i => V j i * pca_enc d V mu i x)).
    + reflexivity.
    + intros i Hi. rewrite (E i Hi). reflexivity.
  - intros i Hi. rewrite (pca_enc_minus d V mu i x (pca_proj d m V mu x)).
    rewrite (E i Hi). ring.
Qed.

Lemma wcw_eigen d W V ev (D : @data (list Q)) a c p q :
  (forall j, (j < d)%nat -> eig_residual d V ev D c j == 0) ->
  (forall j, W a j == p * V j a) -> (forall l, W c l == q * V l c) ->
  wcw d W D a c == p * q * ev c * gram d V a c.
Proof.
  intros HE Ha Hc. unfold wcw, gram.
  rewrite <- sumn_scal. apply sumn_ext; intros j Hj.
  rewrite (sumn_ext_all d _ (fun l => (W a j * q) * (cov (feat j) (feat l) D * V l c))).
  2:{ intros l. rewrite (Hc l). ring. }
  rewrite sumn_scal.
  assert (E : sumn d (fun l => cov (feat j) (feat l) D * V l c) == ev c * V j c).
  { specialize (HE j Hj). unfold eig_residual in HE. lra. }
  rewrite E, (Ha j). ring.
Qed.

Lemma pca_variance_is_eigenvalue d V ev i (D : @data (list Q)) : ~ count D == 0 ->
  (forall j, (j < d)%nat -> eig_residual d V ev D i j == 0) -> gram d V i i == 1 ->
  var (lin d (fun a j => V j a) (center_off d (fun a j => V j a) D) i) D == ev i.
Proof.
  intros Hn HE HG. rewrite var_cov, lin_cov by exact Hn.
  rewrite (wcw_eigen d (fun a j => V j a) V ev D i i 1 1 HE) by (intros; ring).
  rewrite HG. ring.
Qed.

(* ---------- B. whitening ---------- *)
Lemma whitening_identity_partial d k W tv (D : @data (list Q)) : ~ count D == 0 ->
  (forall a c, (a < k)%nat -> (c < k)%nat -> wcw d W D a c == tv * delta a c) ->
  forall a c, (a < k)%nat -> (c < k)%nat ->
    mean (lin d W (center_off d W D) a) D == 0 /\
    cov (lin d W (center_off d W D) a) (lin d W (center_off d W D) c) D == tv * delta a c.
Proof.
  intros Hn HW a c Ha Hc. split.
  - rewrite lin_mean by exact Hn. unfold center_off. ring.
  - rewrite lin_cov by exact Hn. apply HW; assumption.
Qed.

Lemma whitening_contract_from_eigen d k V ev s r tv (D : @data (list Q)) :
  (forall i j, (i < k)%nat -> (j < d)%nat -> eig_residual d V ev D i j == 0) ->
  (forall i l, (i < k)%nat -> (l < k)%nat -> gram d V i l == delta i l) ->
  (forall i, (i < k)%nat -> s i * s i == ev i /\ ~ s i == 0) -> r * r == tv ->
  forall a c, (a < k)%nat -> (c < k)%nat -> wcw d (fun a j => r / s a * V j a) D a c == tv * delta a c.
Proof.
  intros HE HG HS Hr a c Ha Hc.
  rewrite (wcw_eigen d (fun a j => r / s a * V j a) V ev D a c (r / s a) (r / s c))
    by (intros; try apply HE; auto; reflexivity).
  rewrite (HG a c Ha Hc). unfold delta.
  destruct (Nat.eqb_spec a c) as [->|Hne]; [|ring].
  destruct (HS c Hc) as [Hs Hs0]. rewrite <- Hs, <- Hr. field. exact Hs0.
Qed.

(* ---------- D. LDA ---------- *)
Lemma lda_rule_partial d (C : nat -> nat -> Q) (m z x y : nat -> Q) :
  (forall j k, C j k == C k j) ->
  (forall k, (k < d)%nat -> lda_residual d C m z k == 0) ->
  (forall k, (k < d)%nat -> sumn d (fun j => C k j * y j) == x k) ->
  - (1 # 2) * sumn d (fun k => (x k - m k) * (y k - z k))
  == sumn d (fun k => z k * x k) + lda_bias_part d m z - (1 # 2) * sumn d (fun k => x k * y k).
Proof.
  intros _ HR HY. unfold lda_bias_part.
  assert (Hm : forall k, (k < d)%nat -> m k == sumn d (fun j => z j * C j k)).
  { intros k Hk. specialize (HR k Hk). unfold lda_residual in HR. lra. }
  assert (Hmy : sumn d (fun k => m k * y k) == sumn d (fun k => z k * x k)).
  { rewrite (sumn_ext d _ (fun k => sumn d (fun j => z j * C j k * y k))).
    2:{ intros k Hk. rewrite (Hm k Hk), <- sumn_scal_r. reflexivity. }
    rewrite sumn_swap. apply sumn_ext; intros j Hj.
    rewrite <- (HY j Hj), <- sumn_scal. apply sumn_ext_all; intros; ring. }
  rewrite (sumn_ext_all d (fun k => (x k - m k) * (y k - z k))
            (fun k => x k * y k - z k * x k - m k * y k + m k * z k)) by (intros; ring).
  rewrite sumn_plus, !sumn_minus, Hmy. ring.
Qed.
