(* C02 — pivoting_lu_decomposition::solve(b, right): trsv<upper,right>, trsv<unit_lower,right>, swap_rows_inverted
   returns x with x A = b.  Needs the invariance of a finite sum under the row permutation of the pivot vector. *)
From Coq Require Import List Arith Bool Lia Field.
From SharkV Require Import C02Model C02Proofs C02BlkModel C02LUProofs.
Import ListNotations.

Section LURight.
Variable A : Type.
Variable F : ops A.
Variable fabs : A -> A.
Notation "0" := (fzero F) : F_scope.
Infix "+" := (fadd F) : F_scope.
Infix "*" := (fmul F) : F_scope.
Hypothesis Fth : field_theory (fzero F) (fone F) (fadd F) (fmul F) (fsub F) (fopp F) (fdiv F) (finv F) (@eq A).
Hypothesis feqb_spec : forall x y, feqb F x y = true <-> x = y.
Add Field FfieldLR : Fth.
Local Open Scope F_scope.
Notation sumr := (sumr A F).
Notation sumr_ext := (sumr_ext A F).
Notation sumr_split := (sumr_split A F Fth).
Notation sumr_first := (sumr_first A F Fth).

Lemma sumr_tr : forall n j p (g : nat -> A), (j <= p < n)%nat -> sumr 0 n (fun i => g (tr j p i)) = sumr 0 n g.
Proof.
  intros n j p g H. destruct (Nat.eq_dec j p) as [->|N].
  - apply sumr_ext. intros i _. unfold tr. bdall; subst; reflexivity.
  - assert (T1 : forall i, i <> j -> i <> p -> tr j p i = i) by (intros; apply tr_fix; assumption).
    assert (Tj : tr j p j = p) by (unfold tr; rewrite Nat.eqb_refl; reflexivity).
    assert (Tp : tr j p p = j) by (unfold tr; bdall; try lia; reflexivity).
    rewrite (sumr_split 0 j n _) by lia. rewrite (sumr_first j n) by lia.
    rewrite (sumr_split (S j) p n _) by lia. rewrite (sumr_first p n) by lia.
    rewrite (sumr_split 0 j n g) by lia. rewrite (sumr_first j n g) by lia.
    rewrite (sumr_split (S j) p n g) by lia. rewrite (sumr_first p n g) by lia.
    rewrite Tj, Tp.
    rewrite (sumr_ext 0 j (fun i => g (tr j p i)) g) by (intros; rewrite T1 by lia; reflexivity).
    rewrite (sumr_ext (S j) p (fun i => g (tr j p i)) g) by (intros; rewrite T1 by lia; reflexivity).
    rewrite (sumr_ext (S p) n (fun i => g (tr j p i)) g) by (intros; rewrite T1 by lia; reflexivity).
    ring.
Qed.

Lemma sumr_perm : forall P n k (f : nat -> A), (k <= n)%nat -> pgood P 0 k n ->
  sumr 0 n (fun i => f (perm_of P 0 k i)) = sumr 0 n f.
Proof.
  intros P n k. induction k; intros f Hk G; cbn [perm_of]; [reflexivity|]. cbn [Nat.add].
  rewrite (sumr_tr n k (P k) (fun i => f (perm_of P 0 k i))) by (pose proof (G k ltac:(lia)); lia).
  apply IHk; [lia|]. intros t Ht. apply G. lia.
Qed.

Lemma perm_inv_peel : forall P s k i, perm_inv P s (S k) i = perm_inv P (S s) k (tr s (P s) i).
Proof.
  intros P s k. induction k; intros i.
  - cbn. rewrite Nat.add_0_r. reflexivity.
  - change (perm_inv P s (S (S k)) i) with (tr (s + S k) (P (s + S k)%nat) (perm_inv P s (S k) i)).
    rewrite IHk. cbn [perm_inv]. replace (S s + k)%nat with (s + S k)%nat by lia. reflexivity.
Qed.

Lemma swap_vec_inv_eq : forall n k P (b : vec A) i, (k <= n)%nat ->
  swap_vec_inv A F n k P b i = b (perm_inv P (n - k) k i).
Proof.
  intros n k P b. induction k; intros i Hk; cbn [swap_vec_inv]; [reflexivity|].
  rewrite (memo_eq A F). rewrite IHk by lia.
  replace (n - S k)%nat with (n - 1 - k)%nat by lia. rewrite perm_inv_peel.
  replace (S (n - 1 - k)) with (n - k)%nat by lia. reflexivity.
Qed.

Theorem lu_solve_right_correct : forall (small : A -> Prop)
  (small_pivot : forall (M : mat A) j k pv p i, pivot_scan A F fabs M j k = (pv, p) -> pv <> fzero F ->
     (j <= i <= j + k)%nat -> small (fdiv F (M i j) pv))
  bs tbs n o (M0 LU : mat A) P b x, (0 < bs)%nat -> (0 < tbs)%nat ->
  getrf A F fabs bs tbs n M0 = LUOk A LU P -> lu_solve_right A F o LU P n b = Some x ->
  forall c, (c < n)%nat -> vm A F n x M0 c = b c.
Proof.
  intros small small_pivot bs tbs n o M0 LU P b x Hb Htb HG H c Hc.
  apply (getrf_correct_gen A F fabs Fth feqb_spec small small_pivot) in HG; [|exact Hb|exact Htb].
  destruct HG as [HLU [G _]].
  unfold lu_solve_right in H.
  destruct (trsv A F true false o false LU n b) as [y|] eqn:E1; [|discriminate].
  destruct (trsv A F false true o false LU n y) as [z|] eqn:E2; [|discriminate].
  inversion H; subst x; clear H.
  pose proof (trsv_correct A F Fth feqb_spec _ _ _ _ _ _ _ _ E1) as Y. cbn beta iota in Y.
  pose proof (trsv_correct A F Fth feqb_spec _ _ _ _ _ _ _ _ E2) as Z. cbn beta iota in Z.
  unfold C02Proofs.vm in *.
  rewrite <- (sumr_perm P n n (fun i => swap_vec_inv A F n n P z i * M0 i c) (le_n _) G).
  rewrite (sumr_ext 0 n _ (fun k => sumr 0 n (fun t => (z k * tri A F false true LU k t) * tri A F true false LU t c))).
  2:{ intros k Hk. rewrite swap_vec_inv_eq by lia. rewrite Nat.sub_diag. rewrite perm_inv_of.
      rewrite <- (HLU k c) by lia. rewrite <- (sumr_mul_l A F Fth). apply sumr_ext. intros; ring. }
  rewrite (sumr_swap A F Fth).
  rewrite (sumr_ext 0 n _ (fun t => y t * tri A F true false LU t c)).
  2:{ intros t Ht. rewrite (sumr_mul_r A F Fth). f_equal. apply Z. lia. }
  apply Y. exact Hc.
Qed.

End LURight.

Section LURightAlg.
Variable A : Type.
Variable F : ops A.
Variable fabs : A -> A.
Hypothesis Fth : field_theory (fzero F) (fone F) (fadd F) (fmul F) (fsub F) (fopp F) (fdiv F) (finv F) (@eq A).
Hypothesis feqb_spec : forall x y, feqb F x y = true <-> x = y.
Theorem lu_solve_right_correct_alg : forall bs tbs n o (M0 LU : mat A) P b x, (0 < bs)%nat -> (0 < tbs)%nat ->
  getrf A F fabs bs tbs n M0 = LUOk A LU P -> lu_solve_right A F o LU P n b = Some x ->
  forall c, (c < n)%nat -> vm A F n x M0 c = b c.
Proof. exact (lu_solve_right_correct A F fabs Fth feqb_spec (fun _ => True) (fun _ _ _ _ _ _ _ _ _ => I)). Qed.
End LURightAlg.
