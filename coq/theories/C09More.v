(* C09 (further matrices and the operation records of all base matrices) — definitions only.

   1. DifferenceKernelMatrix: dataset as a list of batches (createDataFromRange's batch sizes as coded,
      UNEQUAL when the batch size does not divide the number of points), DataView's
      (batch, positionInBatch) table as coded, index tuples, entry / row / matrix / flip.
   2. GaussianKernelMatrix: points + precomputed squared norms, the distance formula as coded
      (n_i - 2<x_i,x_j> + n_j) over Z (integer data: exact in double as well), an ABSTRACT exp [ex].
   3. PartlyPrecomputedMatrix over an abstract base: the constructor's row count from the cache size
      in bytes as coded (integer divisions, runtime check), isCached / entry / row.
   4. row(k,start,end,storage) and matrix(storage) of KernelMatrix / RegularizedKernelMatrix /
      ModifiedKernelMatrix / ExampleModifiedKernelMatrix AS CODED (the kernel row patched afterwards;
      KernelMatrix::matrix computes from the dataset in its original order), BlockMatrix2x2 over an
      abstract base, and the operation records [MatOps] of all of them, which plug them under the
      CachedMatrix / PrecomputedMatrix models of C09Comp.v. *)
From Coq Require Import List Arith ZArith Bool.
From SharkV Require Import ListAux C09Derived C09Comp.
Import ListNotations.

(* finite sums, inner product of integer points *)
Fixpoint zsum (n : nat) (f : nat -> Z) : Z :=
  match n with 0 => 0%Z | S m => (zsum m f + f m)%Z end.
Definition lin (dim : nat) (x y : list Z) : Z := zsum dim (fun t => (nth t x 0 * nth t y 0)%Z).

(* ================= datasets and DataView ================= *)
Section Data.
Variable P : Type.
Variable pd : P.

(* createDataFromRange(inputs, maximumBatchSize): sizes of the batches.  None = the C++ divides by
   zero (numPoints / batches with an empty range). *)
Definition batch_sizes (npts mb0 : nat) : option (list nat) :=
  let mb := if mb0 =? 0 then 256 else mb0 in
  let b1 := npts / mb in
  let batches := if b1 * mb <? npts then S b1 else b1 in
  if batches =? 0 then None else
  let opt := npts / batches in
  let rem := npts - batches * opt in
  Some (map (fun i => if i <? rem then S opt else opt) (seq 0 batches)).

Fixpoint split_batches (sizes : list nat) (pts : list P) : list (list P) :=
  match sizes with
  | [] => []
  | s :: r => firstn s pts :: split_batches r (skipn s pts)
  end.

(* DataView(dataset): for every element its batch and its position in the batch *)
Fixpoint view_from (i : nat) (bs : list (list P)) : list (nat * nat) :=
  match bs with
  | [] => []
  | b :: r => map (pair i) (seq 0 (length b)) ++ view_from (S i) r
  end.
Definition view_index (bs : list (list P)) : list (nat * nat) := view_from 0 bs.

(* getBatchElement(dataset.batch(b), p) *)
Definition elem (bs : list (list P)) (bp : nat * nat) : P := nth (snd bp) (nth (fst bp) bs []) pd.

(* ================= DifferenceKernelMatrix ================= *)
Variable k : P -> P -> Z.

Definition tup := ((nat * nat) * (nat * nat))%type.
Definition tup0 : tup := ((0, 0), (0, 0)).
Record dkm := mkDK { dk_data : list (list P); dk_idx : list tup }.

(* m_indices[i] = (batch(p.first), positionInBatch(p.first), batch(p.second), positionInBatch(p.second)) *)
Definition dk_init (bs : list (list P)) (pairs : list (nat * nat)) : dkm :=
  let view := view_index bs in
  mkDK bs (map (fun sg => (nth (fst sg) view (0, 0), nth (snd sg) view (0, 0))) pairs).

Definition dk_size (s : dkm) : nat := length (dk_idx s).

Definition dk_entry (s : dkm) (i j : nat) : Z :=
  let pi := nth i (dk_idx s) tup0 in let pj := nth j (dk_idx s) tup0 in
  let si := elem (dk_data s) (fst pi) in let gi := elem (dk_data s) (snd pi) in
  let sj := elem (dk_data s) (fst pj) in let gj := elem (dk_data s) (snd pj) in
  (k gi gj - k gi sj - k si gj + k si sj)%Z.

Definition dk_row (s : dkm) (i a e : nat) : list Z := map (dk_entry s i) (seq a (e - a)).
Definition dk_mat (s : dkm) : list (list Z) :=
  map (fun i => map (dk_entry s i) (seq 0 (dk_size s))) (seq 0 (dk_size s)).
Definition dk_flip (i j : nat) (s : dkm) : dkm := mkDK (dk_data s) (swapl tup0 i j (dk_idx s)).

Definition dk_ops : MatOps Z dkm :=
  {| gv := 0%Z; bsize := dk_size; bentry := dk_entry; browf := dk_row; bflip := dk_flip; bmat := dk_mat |}.
End Data.

(* ================= GaussianKernelMatrix ================= *)
Section Gauss.
Variable V : Type.
Variable ex : Z -> V.        (* d |-> exp(-gamma * d), the conversion to QpFloatType included *)
Variable vd : V.             (* uninitialised cell *)
Variable dim : nat.

Record gkm := mkG { g_x : list (list Z); g_n : list Z }.
(* x[i] = element i; m_squaredNorms(i) = inner_prod(x[i], x[i]) *)
Definition gk_init (pts : list (list Z)) : gkm := mkG pts (map (fun x => lin dim x x) pts).
Definition gk_size (s : gkm) : nat := length (g_x s).
(* double distance = m_squaredNorms(i) - 2*inner_prod(x[i],x[j]) + m_squaredNorms(j) *)
Definition gk_dist (s : gkm) (i j : nat) : Z :=
  (nth i (g_n s) 0 - 2 * lin dim (nth i (g_x s) []) (nth j (g_x s) []) + nth j (g_n s) 0)%Z.
Definition gk_entry (s : gkm) (i j : nat) : V := ex (gk_dist s i j).
Definition gk_row (s : gkm) (i a e : nat) : list V := map (fun j => ex (gk_dist s i j)) (seq a (e - a)).
(* matrix(): row(i,0,size(),&storage(i,0)) for every i *)
Definition gk_mat (s : gkm) : list (list V) := map (fun i => gk_row s i 0 (gk_size s)) (seq 0 (gk_size s)).
(* swap(x[i],x[j]); swap(m_squaredNorms[i],m_squaredNorms[j]) *)
Definition gk_flip (i j : nat) (s : gkm) : gkm := mkG (swapl [] i j (g_x s)) (swapl 0%Z i j (g_n s)).

Definition gk_ops : MatOps V gkm :=
  {| gv := vd; bsize := gk_size; bentry := gk_entry; browf := gk_row; bflip := gk_flip; bmat := gk_mat |}.
End Gauss.

(* ================= PartlyPrecomputedMatrix<Matrix> ================= *)
Section Partly.
Context {V B : Type} {M : MatOps V B}.

Inductive pp_res :=
| PPok (tab : list (list V))     (* m_cachedMatrix *)
| PPexc                          (* SHARK_RUNTIME_CHECK(m_nRows, "Cache size is smaller than the size of a row!") *)
| PPdiv0.                        (* cachesize / rowSizeBytes with an empty base matrix: division by zero *)

(* w = sizeof(QpFloatType), cacheBytes = cachesize (in bytes) *)
Definition pp_init (w cacheBytes : nat) (b : B) : pp_res :=
  let n := bsize b in
  let rowBytes := n * w in
  if rowBytes =? 0 then PPdiv0 else
  let r := cacheBytes / rowBytes in
  if r =? 0 then PPexc else
  let r' := if n <? r then n else r in
  PPok (map (fun i => map (bentry b i) (seq 0 n)) (seq 0 r')).

Definition pp_is_cached (tab : list (list V)) (k : nat) : bool := k <? length tab.
Definition pp_entry (b : B) (tab : list (list V)) (i j : nat) : V :=
  if pp_is_cached tab i then nth j (nth i tab []) gv else bentry b i j.
(* row(k, storage): m_cachedMatrix.size2() = base size cells *)
Definition pp_row (b : B) (tab : list (list V)) (k : nat) : list V :=
  if pp_is_cached tab k then map (fun j => nth j (nth k tab []) gv) (seq 0 (bsize b))
  else map (bentry b k) (seq 0 (bsize b)).
Definition pp_max_cache_size (b : B) (tab : list (list V)) : nat := length tab * bsize b.   (* values held *)
End Partly.

(* ================= rows / matrix() of the dm-based classes as coded ================= *)
Section Coded.
Variable k0 : nat -> nat -> Z.          (* kernel value of the ORIGINAL examples a, b *)

Definition dm_size (s : dm) : nat := length (pos s).

(* KernelMatrix::row, ::matrix (calculateRegularizedKernelMatrix(kernel, m_data, storage): the dataset,
   not the flipped pointer table x) *)
Definition k_row (s : dm) (i a e : nat) : list Z := map (e_kernel k0 s i) (seq a (e - a)).
Definition k_mat (s : dm) : list (list Z) := m_of (dm_size s) k0.

(* RegularizedKernelMatrix::row: m_matrix.row(...); if(k >= start && k < end) storage[k-start] += m_diagMod(k) *)
Definition reg_row (s : dm) (k a e : nat) : list Z :=
  let r := k_row s k a e in
  if (a <=? k) && (k <? e) then upd (k - a) (nth (k - a) r 0 + nth k (dmod s) 0)%Z r else r.
(* ::matrix: m_matrix.matrix(storage); storage(k,k) += m_diagMod(k) *)
Definition reg_mat (s : dm) : list (list Z) :=
  map (fun i => let r := nth i (k_mat s) [] in upd i (nth i r 0 + nth i (dmod s) 0)%Z r) (seq 0 (dm_size s)).

(* ModifiedKernelMatrix::row: kernel row, then storage[j-start] *= modifier(label_i, label_j) *)
Definition mod_row (eq ne : Z) (s : dm) (i a e : nat) : list Z :=
  map (fun jv => (snd jv * (if (nth i (labs s) 0 =? nth (fst jv) (labs s) 0)%nat then eq else ne))%Z)
      (combine (seq a (e - a)) (k_row s i a e)).
Definition mod_mat (eq ne : Z) (s : dm) : list (list Z) :=
  map (fun i => map (fun jv => (snd jv * (if (nth i (labs s) 0 =? nth (fst jv) (labs s) 0)%nat then eq else ne))%Z)
                    (combine (seq 0 (dm_size s)) (nth i (k_mat s) []))) (seq 0 (dm_size s)).

(* ExampleModifiedKernelMatrix::row / ::matrix: loops over entry(i,j) *)
Definition ex_row (s : dm) (i a e : nat) : list Z := map (e_ex k0 s i) (seq a (e - a)).
Definition ex_mat (s : dm) : list (list Z) :=
  map (fun i => map (e_ex k0 s i) (seq 0 (dm_size s))) (seq 0 (dm_size s)).

Definition kernel_ops : MatOps Z dm :=
  {| gv := 0%Z; bsize := dm_size; bentry := e_kernel k0; browf := k_row; bflip := dflip; bmat := k_mat |}.
Definition reg_ops : MatOps Z dm :=
  {| gv := 0%Z; bsize := dm_size; bentry := e_reg k0; browf := reg_row; bflip := dflip; bmat := reg_mat |}.
Definition mod_ops (eq ne : Z) : MatOps Z dm :=
  {| gv := 0%Z; bsize := dm_size; bentry := e_mod k0 eq ne; browf := mod_row eq ne; bflip := dflip; bmat := mod_mat eq ne |}.
Definition exmod_ops : MatOps Z dm :=
  {| gv := 0%Z; bsize := dm_size; bentry := e_ex k0; browf := ex_row; bflip := dflip; bmat := ex_mat |}.
End Coded.

(* ================= BlockMatrix2x2<Matrix> over an abstract base ================= *)
Section Block.
Context {V B : Type} {M : MatOps V B}.
Variable b : B.              (* *m_base: never flipped by the block matrix *)

(* m_mapping[i] = i; m_mapping[i + ic] = i *)
Definition blk_init : list nat := seq 0 (bsize b) ++ seq 0 (bsize b).
Definition blk_size (m : list nat) : nat := 2 * bsize b.
Definition blk_entry (m : list nat) (i j : nat) : V := bentry b (nth i m 0) (nth j m 0).
Definition blk_row (m : list nat) (i a e : nat) : list V :=
  map (fun j => bentry b (nth i m 0) (nth j m 0)) (seq a (e - a)).
Definition blk_mat (m : list nat) : list (list V) :=
  map (fun i => map (blk_entry m i) (seq 0 (blk_size m))) (seq 0 (blk_size m)).
Definition blk_flip (i j : nat) (m : list nat) : list nat := swapl 0 i j m.

Definition blk_ops : MatOps V (list nat) :=
  {| gv := gv; bsize := blk_size; bentry := blk_entry; browf := blk_row; bflip := blk_flip; bmat := blk_mat |}.
End Block.
