(* C07 — problem assembly model: how the kernel SVM trainers of Shark build the quadratic program
   they hand to QpSolver.  Definitions only (proofs: C07SetupProofs.v).

   Mirrors, as coded:
     CSvmTrainer::trainBinary / optimize          include/shark/Algorithms/Trainers/CSvmTrainer.h
       CSVMProblem (un-weighted data)              include/shark/Algorithms/QP/QpSolver.h
       GeneralQuadraticProblem (weighted data)     include/shark/Algorithms/QP/QpSolver.h
     AbstractSvmTrainer::setParameterVector        include/shark/Algorithms/Trainers/AbstractSvmTrainer.h
     EpsilonSvmTrainer::trainSVM                   include/shark/Algorithms/Trainers/EpsilonSvmTrainer.h
       BlockMatrix2x2                              include/shark/LinAlg/BlockMatrix2x2.h
     OneClassSvmTrainer::trainSVM                  include/shark/Algorithms/Trainers/OneClassSvmTrainer.h
       BoxedSVMProblem                             include/shark/Algorithms/QP/QpSolver.h

   The arithmetic is the abstract record [ops] of C08Model.v (the OCaml driver instantiates it with
   IEEE doubles: same operations in the same order as the C++; the proofs instantiate it with Q),
   extended by the constant 1.0, the conversion size_t -> double and std::exp.
   Per-variable arrays are functions of the index, as in C08Model.v. *)
From Coq Require Import Arith Bool List.
From SharkV Require Import C08Model.

Section Setup.
Variable A : Type.
Variable O : ops A.
Variable one : A.                 (* 1.0 *)
Variable ofnat : nat -> A.        (* (double) of a std::size_t *)
Variable expA : A -> A.           (* std::exp *)
Local Notation zero := (o_zero O).
Local Notation add := (o_add O).
Local Notation sub := (o_sub O).
Local Notation mul := (o_mul O).
Local Notation div := (o_div O).

(* unary minus of a double is exact; 0 - x is the same value for x <> 0 *)
Definition negA (x : A) : A := sub zero x.

(* the quadratic program as the solver receives it (the matrix is separate):
   maximise  lin.alpha - 1/2 alpha^T Q alpha   s.t.  lo <= alpha <= hi   [and, if q_eq, sum(alpha) = sum(q_init)]
   (the SMO steps of SvmProblem keep sum(alpha) fixed, so the right hand side of the equality
   constraint is whatever the initial point sums to) *)
Record qp := mkqp {
  q_dim  : nat;          (* dimensions() *)
  q_lin  : nat -> A;     (* linear *)
  q_lo   : nat -> A;     (* boxMin *)
  q_hi   : nat -> A;     (* boxMax *)
  q_init : nat -> A;     (* alpha handed to the solver (setInitialSolution) *)
  q_eq   : bool          (* true: SvmProblem (equality constraint), false: BoxConstrainedProblem *)
}.

(* ---- AbstractSvmTrainer ----
   setParameterVector: m_regularizers = (unconstrained ? exp(p) : p);
   CSVMProblem / GeneralQuadraticProblem: Cn = reg[0]; Cp = (reg.size() == 2) ? reg[1] : reg[0] *)
Definition reg_decode (unconstrained : bool) (p : A) : A := if unconstrained then expA p else p.
Definition reg_Cn (r0 r1 : A) (two : bool) : A := r0.
Definition reg_Cp (r0 r1 : A) (two : bool) : A := if two then r1 else r0.

(* ---- CSVMProblem (un-weighted): linear(i) = label ? 1.0 : -1.0;
        boxMin(i) = positive[i] ? 0.0 : -m_Cn;  boxMax(i) = positive[i] ? m_Cp : 0.0 *)
Definition csvm_lin (lab : nat -> bool) (i : nat) : A := if lab i then one else negA one.
Definition csvm_lo (lab : nat -> bool) (Cn : A) (i : nat) : A := if lab i then zero else negA Cn.
Definition csvm_hi (lab : nat -> bool) (Cp : A) (i : nat) : A := if lab i then Cp else zero.

(* ---- GeneralQuadraticProblem (weighted): boxMin(i) = label ? 0.0 : -Cn*weight;
        boxMax(i) = label ? Cp*weight : 0.0        ( -Cn*weight parses as (-Cn)*weight ) *)
Definition csvmw_lo (lab : nat -> bool) (Cn : A) (w : nat -> A) (i : nat) : A :=
  if lab i then zero else mul (negA Cn) (w i).
Definition csvmw_hi (lab : nat -> bool) (Cp : A) (w : nat -> A) (i : nat) : A :=
  if lab i then mul Cp (w i) else zero.

(* ---- CSvmTrainer::optimize, warm start (since /repo commits d631377a, 97947df9):
        alpha(i) = std::max(std::min(a, boxMax(i)), boxMin(i)) with the box OF THE PROBLEM
        (before d631377a: the class constants C-/C+, ignoring the example weights);
        cold start: KernelExpansion::setStructure zero-initialises alpha *)
Definition clip_box (a lo hi : A) : A := maxA O (minA O a hi) lo.

(* offset branch only (repair of the finding `equality:csvm*:bias1:warm2`): truncation can break
   sum(alpha) = 0, which SMO never restores, so the side with the larger sum is shrunk towards 0:
     for i: if (a > 0) sumPos += a; else sumNeg -= a;
     if (sumPos != sumNeg) { scalePos = sumPos > sumNeg ? sumNeg / sumPos : 1.0;
                             scaleNeg = sumNeg > sumPos ? sumPos / sumNeg : 1.0;
                             alpha(i) = a > 0 ? a * scalePos : a * scaleNeg; } *)
Fixpoint sum_pos (a : nat -> A) (m : nat) : A :=
  match m with
  | 0 => zero
  | S k => if o_ltb O zero (a k) then add (sum_pos a k) (a k) else sum_pos a k
  end.
Fixpoint sum_neg (a : nat -> A) (m : nat) : A :=
  match m with
  | 0 => zero
  | S k => if o_ltb O zero (a k) then sum_neg a k else sub (sum_neg a k) (a k)
  end.
Definition rebalance (n : nat) (a : nat -> A) (i : nat) : A :=
  let sp := sum_pos a n in
  let sn := sum_neg a n in
  if o_eqb O sp sn then a i
  else
    let scp := if o_ltb O sn sp then div sn sp else one in
    let scn := if o_ltb O sp sn then div sp sn else one in
    if o_ltb O zero (a i) then mul (a i) scp else mul (a i) scn.

(* bool truncated: set when the truncation loop changed some coefficient (svm.alpha()(i,0) != a);
   since /repo commit 73617c7d the rescaling runs under  if (truncated && sumPos != sumNeg)
   (an untruncated old solution is handed over unchanged: restarting from the optimum needs 0 steps) *)
Fixpoint truncated (p c : nat -> A) (m : nat) : bool :=
  match m with
  | 0 => false
  | S k => truncated p c k || negb (o_eqb O (c k) (p k))
  end.

Definition init_alpha (bias : bool) (n : nat) (prev : option (nat -> A)) (lo hi : nat -> A) (i : nat) : A :=
  match prev with
  | None => zero
  | Some p =>
    let clipped := fun k => clip_box (p k) (lo k) (hi k) in
    if bias && truncated p clipped n then rebalance n clipped i else clipped i
  end.

(* bias = m_trainOffset: SvmShrinkingProblem (equality constraint) / BoxConstrainedShrinkingProblem *)
Definition csvm_problem (bias : bool) (n : nat) (lab : nat -> bool) (Cn Cp : A)
                        (prev : option (nat -> A)) : qp :=
  let lo := csvm_lo lab Cn in
  let hi := csvm_hi lab Cp in
  mkqp n (csvm_lin lab) lo hi (init_alpha bias n prev lo hi) bias.

Definition csvmw_problem (bias : bool) (n : nat) (lab : nat -> bool) (Cn Cp : A) (w : nat -> A)
                         (prev : option (nat -> A)) : qp :=
  let lo := csvmw_lo lab Cn w in
  let hi := csvmw_hi lab Cp w in
  mkqp n (csvm_lin lab) lo hi (init_alpha bias n prev lo hi) bias.

(* ---- EpsilonSvmTrainer::trainSVM: 2n variables over BlockMatrix2x2,
        linear(i) = y_i - eps, linear(i+n) = y_i + eps,
        box(i) = [0, C], box(i+n) = [-C, 0], alpha = 0 (GeneralQuadraticProblem(matrix)) *)
Definition bidx (n i : nat) : nat := if i <? n then i else i - n.     (* BlockMatrix2x2::m_mapping *)
Definition block2 {B} (n : nat) (K : nat -> nat -> B) (i j : nat) : B := K (bidx n i) (bidx n j).
Definition svr_lin (n : nat) (y : nat -> A) (e : A) (i : nat) : A :=
  if i <? n then sub (y i) e else add (y (i - n)) e.
Definition svr_lo (n : nat) (C : A) (i : nat) : A := if i <? n then zero else negA C.
Definition svr_hi (n : nat) (C : A) (i : nat) : A := if i <? n then C else zero.
Definition svr_problem (n : nat) (y : nat -> A) (C e : A) : qp :=
  mkqp (n + n) (svr_lin n y e) (svr_lo n C) (svr_hi n C) (fun _ => zero) true.
(* column(svm.alpha(),0) = subrange(alpha,0,ic) + subrange(alpha,ic,2*ic) *)
Definition svr_coef (n : nat) (v : nat -> A) (i : nat) : A := add (v i) (v (i + n)).

(* ---- OneClassSvmTrainer::trainSVM: BoxedSVMProblem(matrix, repeat(0.0,ic), 0.0, 1.0/(m_nu*ic)),
        alpha = 1.0/quadratic.size() in every component *)
Definition oc_upper (n : nat) (nu : A) : A := div one (mul nu (ofnat n)).
Definition oc_problem (n : nat) (nu : A) : qp :=
  mkqp n (fun _ => zero) (fun _ => zero) (fun _ => oc_upper n nu) (fun _ => div one (ofnat n)) true.

End Setup.

Arguments q_dim {A}. Arguments q_lin {A}. Arguments q_lo {A}. Arguments q_hi {A}.
Arguments q_init {A}. Arguments q_eq {A}. Arguments mkqp {A}.
Arguments negA {A}. Arguments reg_decode {A}. Arguments reg_Cn {A}. Arguments reg_Cp {A}.
Arguments csvm_lin {A}. Arguments csvm_lo {A}. Arguments csvm_hi {A}.
Arguments csvmw_lo {A}. Arguments csvmw_hi {A}. Arguments clip_box {A}. Arguments init_alpha {A}.
Arguments sum_pos {A}. Arguments sum_neg {A}. Arguments rebalance {A}. Arguments truncated {A}.
Arguments csvm_problem {A}. Arguments csvmw_problem {A}.
Arguments svr_lin {A}. Arguments svr_lo {A}. Arguments svr_hi {A}. Arguments svr_problem {A}.
Arguments svr_coef {A}. Arguments oc_upper {A}. Arguments oc_problem {A}.
