(* C04 — Conv2DModel, part 3: the derivative theorems.
   (1) conv_core: for ANY delta, <delta, d/dt conv> = <coded parameter derivative, dtheta> + <coded input derivative, dX>
   (2) conv_linear_derivative: Linear activation, exact polynomial identity in t (the coded derivatives are the gradient)
   (3) conv_derivative_partial: element-wise activation pair (phi, dphi), dual numbers
   Any commutative ring, axiom-free. *)
From Coq Require Import List Arith Bool Lia Ring PeanoNat ArithRing.
From SharkV Require Import C04Model C04Conv C04Aux C04Proofs C04SumProofs C04ConvProofs C04ConvDerivProofs.
Import ListNotations.

(* ---------------- list helpers (no arithmetic) ---------------- *)
Lemma map3_third {B1 B2 B3} (u : list B1) (v : list B2) (w : list B3) :
  length u = length w -> length v = length w -> map3 (fun _ _ c => c) u v w = w.
Proof.
  revert u v; induction w as [|z w IH]; intros [|x u] [|y v] L1 L2; simpl in *; try discriminate; auto.
  f_equal. apply IH; lia.
Qed.

Lemma map3_length {B1 B2 B3 E} (f : B1 -> B2 -> B3 -> E) u v w :
  length u = length w -> length v = length w -> length (map3 f u v w) = length w.
Proof.
  revert u v; induction w as [|z w IH]; intros [|x u] [|y v] L1 L2; simpl in *; try discriminate; auto.
Qed.

Lemma nth_map3 {B1 B2 B3 E} (f : B1 -> B2 -> B3 -> E) u v w r d1 d2 d3 d :
  length u = length w -> length v = length w -> r < length w ->
  nth r (map3 f u v w) d = f (nth r u d1) (nth r v d2) (nth r w d3).
Proof.
  revert u v r; induction w as [|z w IH]; intros [|x u] [|y v] r L1 L2 Hr; simpl in *; try discriminate; try lia.
  destruct r; auto. apply IH; lia.
Qed.

Lemma nth_map_in {B E} (f : B -> E) (l : list B) r d d' : r < length l -> nth r (map f l) d = f (nth r l d').
Proof. intros H. rewrite (nth_indep _ d (f d')) by (rewrite map_length; auto). apply map_nth. Qed.

Section ConvThm.
Variable A : Type.
Variables (zero one : A) (add mul sub : A -> A -> A) (opp : A -> A).
Hypothesis Rth : ring_theory zero one add mul sub opp eq.
Add Ring AringT : Rth.

Infix "+" := add : CA_scope.
Infix "*" := mul : CA_scope.
Local Open Scope CA_scope.
Notation getA := (get zero).
Notation bsumA := (bsum zero add).
Notation dotA := (dot zero add mul).
Notation vaddA := (vadd add).
Notation vscaleA := (vscale mul).
Notation maddA := (madd add).
Notation frA := (fr A zero add mul).
Notation entryA := (im2mat_entry zero).
Notation kernelA := (conv2d_kernel zero add mul).
Notation pre_batchA := (conv_pre_batch zero add mul).
Notation eval_batchA := (conv_eval_batch zero add mul).
Notation bsum_zeropR := (bsum_zero' A zero one add mul sub opp Rth).
Notation bsum_addR := (bsum_add A zero one add mul sub opp Rth).
Notation bsum_mul_lR := (bsum_mul_l A zero one add mul sub opp Rth).
Notation bsum_mul_rR := (bsum_mul_r A zero one add mul sub opp Rth).
Notation dot_getR := (dot_get A zero one add mul sub opp Rth).
Notation fr_bsumR := (fr_bsum A zero one add mul sub opp Rth).
Notation conv_linA g X w := (kernelA (gC g) (gF g) (gH g) (gW g) (gfh g) (gfw g) (pad_h g) (pad_w g) X w).
Notation TfwdG g := (Tfwd A zero add mul (gC g) (gF g) (gH g) (gW g) (gfh g) (gfw g) (out_h g) (out_w g) (pad_h g / 2) (pad_w g / 2)).

(* ---------------- entries of vectors built with vadd / vscale ---------------- *)
Lemma get_vadd u v i : length u = length v -> getA (vaddA u v) i = getA u i + getA v i.
Proof.
  unfold get. revert v i; induction u as [|x u IH]; intros [|y v] i L; simpl in *; try discriminate.
  - destruct i; ring.
  - destruct i; auto.
Qed.

Lemma get_vscale t v i : getA (vscaleA t v) i = t * getA v i.
Proof.
  unfold get, vscale. revert i; induction v as [|y v IH]; intros i; simpl.
  - destruct i; ring.
  - destruct i; auto.
Qed.

Lemma nth_madd (M N : list (list A)) r : length M = length N -> nth r (maddA M N) [] = vaddA (nth r M []) (nth r N []).
Proof.
  revert N r; induction M as [|u M IH]; intros [|v N] r L; simpl in *; try discriminate.
  - destruct r; reflexivity.
  - destruct r; auto.
Qed.

Lemma madd_length (M N : list (list A)) : length M = length N -> length (maddA M N) = length M.
Proof. revert N; induction M as [|u M IH]; intros [|v N] L; simpl in *; try discriminate; auto. Qed.

Lemma firstn_vadd k (u v : list A) : firstn k (vaddA u v) = vaddA (firstn k u) (firstn k v).
Proof. revert u v; induction k; intros [|x u] [|y v]; simpl; auto. f_equal; auto. Qed.
Lemma skipn_vadd k (u v : list A) : length u = length v -> skipn k (vaddA u v) = vaddA (skipn k u) (skipn k v).
Proof.
  revert u v; induction k; intros [|x u] [|y v] L; simpl in *; try discriminate; auto.
Qed.
Lemma firstn_vscale k t (v : list A) : firstn k (vscaleA t v) = vscaleA t (firstn k v).
Proof. unfold vscale. apply firstn_map. Qed.
Lemma skipn_vscale k t (v : list A) : skipn k (vscaleA t v) = vscaleA t (skipn k v).
Proof. unfold vscale. apply skipn_map. Qed.

(* ---------------- the linear part of eval and the offset ---------------- *)
Lemma lin_get g (X : list (list A)) w r o :
  geo_ok g -> r < length X -> o < conv_nout g ->
  getA (nth r (conv_linA g X w) []) o =
  bsumA (gfw g * gfh g * gC g)%nat (fun k =>
    entryA (gC g) (gH g) (gW g) (gfh g) (gfw g) (pad_h g) (pad_w g) X
           (r * (out_h g * out_w g) + o / gF g)%nat k * getA w ((o mod gF g) * (gfw g * gfh g * gC g) + k)%nat).
Proof.
  intros G Hr Ho. pose proof G as (A1 & A2 & A3 & A4 & A5).
  assert (Eo : o = ((o / gF g) * gF g + o mod gF g)%nat) by (rewrite (Nat.mul_comm (o / gF g)); apply Nat.div_mod; lia).
  assert (Bp : (o / gF g < out_h g * out_w g)%nat) by (apply div_lt_prod; exact Ho).
  assert (Bf : (o mod gF g < gF g)%nat) by (apply Nat.mod_upper_bound; lia).
  rewrite Eo at 1.
  pose proof (kernel_view A zero add mul (gC g) (gF g) (gH g) (gW g) (gfh g) (gfw g) (pad_h g) (pad_w g) X w r (o / gF g) (o mod gF g)) as KV.
  cbv zeta in KV. rewrite (geo_oh g G), (geo_ow g G) in KV. apply KV; auto.
Qed.

Lemma pre_batch_get (m : conv A) X r o :
  geo_ok (cg m) -> r < length X -> o < conv_nout (cg m) ->
  getA (nth r (pre_batchA m X) []) o = getA (nth r (conv_linA (cg m) X (cflt m)) []) o + getA (coff m) (o mod gF (cg m)).
Proof.
  intros G Hr Ho. rewrite (pre_batch_row A zero add mul m X r G Hr). unfold conv_pre_row.
  rewrite get_tab by auto. f_equal. rewrite lin_get by auto.
  apply bsum_ext; intros k _. f_equal.
  pose proof G as (A1 & A2 & A3 & A4 & A5).
  assert (Bp : (o / gF (cg m) < out_h (cg m) * out_w (cg m))%nat) by (apply div_lt_prod; exact Ho).
  pose proof (entry_row A zero (gC (cg m)) (gH (cg m)) (gW (cg m)) (gfh (cg m)) (gfw (cg m)) (pad_h (cg m)) (pad_w (cg m)) X r (o / gF (cg m)) k) as ER.
  rewrite (geo_oh _ G), (geo_ow _ G) in ER. rewrite (Nat.mul_comm (out_w (cg m))) in ER. symmetry. apply ER. exact Bp.
Qed.

Lemma pre_batch_rows (m : conv A) X : geo_ok (cg m) -> rows (conv_nout (cg m)) (pre_batchA m X).
Proof.
  intros G. unfold rows. apply Forall_forall. intros y Hy. apply (In_nth _ _ []) in Hy. destruct Hy as (r & Hr & <-).
  rewrite pre_batch_length in Hr. rewrite (pre_batch_row A zero add mul m X r G Hr). unfold conv_pre_row. apply tab_length.
Qed.

(* ---------------- conv is bilinear ---------------- *)
Lemma entry_linear C H W fh fw ph pw (X dX : list (list A)) t row k :
  length dX = length X -> (forall r, length (nth r X []) = length (nth r dX [])) ->
  entryA C H W fh fw ph pw (maddA X (map (vscaleA t) dX)) row k =
  entryA C H W fh fw ph pw X row k + t * entryA C H W fh fw ph pw dX row k.
Proof.
  intros L RL. unfold im2mat_entry.
  set (im := (row / ((W + 1 + pw - fw) * (H + 1 + ph - fh)))%nat).
  assert (E : forall i, getA (nth im (maddA X (map (vscaleA t) dX)) []) i = getA (nth im X []) i + t * getA (nth im dX []) i).
  { intros i. rewrite nth_madd by (rewrite map_length; auto).
    change (@nil A) with (vscaleA t []) at 2. rewrite map_nth.
    rewrite get_vadd by (unfold vscale; rewrite map_length; apply RL). rewrite get_vscale. reflexivity. }
  destruct ((ph =? 0) && (pw =? 0)); [apply E|].
  destruct (_ || _); [ring|]. destruct (_ || _); [ring|]. apply E.
Qed.

Lemma rows_same_length {B} n (X dX : list (list B)) : rows n X -> rows n dX -> length dX = length X ->
  forall r, length (nth r X []) = length (nth r dX []).
Proof.
  intros RX RD L r. destruct (Nat.lt_ge_cases r (length X)) as [Hr|Hr].
  - rewrite (rows_nth n X r RX Hr), (rows_nth n dX r RD) by lia. reflexivity.
  - rewrite !nth_overflow by lia. reflexivity.
Qed.

Lemma lin_bilinear g (X dX : list (list A)) (w dw : list A) t r o :
  geo_ok g -> rows (conv_nin g) X -> rows (conv_nin g) dX -> length dX = length X -> length dw = length w ->
  r < length X -> o < conv_nout g ->
  getA (nth r (conv_linA g (maddA X (map (vscaleA t) dX)) (vaddA w (vscaleA t dw))) []) o =
  getA (nth r (conv_linA g X w) []) o +
  t * (getA (nth r (conv_linA g X dw) []) o + getA (nth r (conv_linA g dX w) []) o) +
  t * t * getA (nth r (conv_linA g dX dw) []) o.
Proof.
  intros G RX RD L Lw Hr Ho.
  assert (LM : length (maddA X (map (vscaleA t) dX)) = length X) by (apply madd_length; rewrite map_length; auto).
  rewrite !lin_get by (auto; lia).
  rewrite <- bsum_addR. rewrite bsum_mul_lR. rewrite bsum_mul_lR. rewrite <- bsum_addR. rewrite <- bsum_addR.
  apply bsum_ext; intros k _.
  rewrite (entry_linear _ _ _ _ _ _ _ X dX t _ _ L (rows_same_length _ X dX RX RD L)).
  rewrite get_vadd by (unfold vscale; rewrite map_length; auto). rewrite get_vscale. ring.
Qed.

(* ---------------- (1) the core: for any delta ---------------- *)
Theorem conv_core g (X dX Ds : list (list A)) (w dw db : list A) :
  geo_ok g -> rows (conv_nin g) X -> rows (conv_nout g) Ds -> length Ds = length X -> length dX = length X ->
  length dw = conv_nflt g ->
  bsumA (length X) (fun r => bsumA (conv_nout g) (fun o =>
    getA (nth r Ds []) o *
    (getA (nth r (conv_linA g X dw) []) o + getA (nth r (conv_linA g dX w) []) o + getA db (o mod gF g)))) =
  dotA (conv_wpd_d zero add mul g X Ds) (dw ++ db) + frA (conv_wid_d zero add mul g (bp_filters zero g w) Ds) dX.
Proof.
  intros G RX RD LD LdX Ldw.
  rewrite (wpd_d_split A zero add mul).
  rewrite (dot_app A zero one add mul sub opp Rth) by (rewrite (wgrad_length A zero add mul); auto).
  rewrite (wgrad_adjoint A zero one add mul sub opp Rth g X Ds dw G RX RD LD).
  rewrite (ograd_adjoint A zero one add mul sub opp Rth g X Ds db G RD LD).
  rewrite fr_bsumR by (unfold conv_wid_d; rewrite kernel_length; lia).
  unfold conv_wid_d at 1. rewrite kernel_length, LD.
  rewrite <- !bsum_addR. apply bsum_ext; intros r Hr.
  assert (LDr : length (nth r Ds []) = conv_nout g) by (apply rows_nth; auto; lia).
  rewrite <- (forward_sum A zero one add mul sub opp Rth g X dw (nth r Ds []) r G Hr LDr).
  rewrite (input_adjoint A zero one add mul sub opp Rth g w Ds (nth r dX []) r G) by lia.
  rewrite <- (forward_sum A zero one add mul sub opp Rth g dX w (nth r Ds []) r G) by (auto; lia).
  rewrite !dot_getR, LDr. rewrite <- !bsum_addR. apply bsum_ext; intros o Ho. ring.
Qed.

(* ---------------- (2) Linear activation: the coded derivatives are the gradient ---------------- *)
Lemma eval_batch_id (m : conv A) X : cact m = id_act A -> eval_batchA m X = pre_batchA m X.
Proof. intros E. unfold conv_eval_batch. rewrite E. cbn [aphi id_act]. apply map_id. Qed.

Lemma delta_id (m : conv A) X Cf : cact m = id_act A -> length Cf = length X -> conv_delta zero add mul m X Cf = Cf.
Proof.
  intros E L. unfold conv_delta. rewrite E. cbn [amul id_act].
  apply map3_third; [|rewrite map_length]; rewrite pre_batch_length; auto.
Qed.

(* weighted output sum as a double sum *)
Lemma fr_pre (m : conv A) X Cf :
  geo_ok (cg m) -> rows (conv_nout (cg m)) Cf -> length Cf = length X ->
  frA Cf (pre_batchA m X) =
  bsumA (length X) (fun r => bsumA (conv_nout (cg m)) (fun o =>
    getA (nth r Cf []) o * (getA (nth r (conv_linA (cg m) X (cflt m)) []) o + getA (coff m) (o mod gF (cg m))))).
Proof.
  intros G RC L. rewrite fr_bsumR by (rewrite pre_batch_length; auto). rewrite L.
  apply bsum_ext; intros r Hr. rewrite dot_getR. rewrite (rows_nth _ Cf r RC) by lia.
  apply bsum_ext; intros o Ho. rewrite pre_batch_get by auto. reflexivity.
Qed.

Lemma fr_lin g (X Cf : list (list A)) w :
  geo_ok g -> rows (conv_nout g) Cf -> length Cf = length X ->
  frA Cf (conv_linA g X w) =
  bsumA (length X) (fun r => bsumA (conv_nout g) (fun o => getA (nth r Cf []) o * getA (nth r (conv_linA g X w) []) o)).
Proof.
  intros G RC L. rewrite fr_bsumR by (rewrite kernel_length; auto). rewrite L.
  apply bsum_ext; intros r Hr. rewrite dot_getR. rewrite (rows_nth _ Cf r RC) by lia. reflexivity.
Qed.

Theorem conv_linear_derivative g (theta dtheta : list A) (X dX Cf : list (list A)) t :
  geo_ok g -> length theta = conv_nparams g -> length dtheta = conv_nparams g ->
  rows (conv_nin g) X -> rows (conv_nin g) dX -> length dX = length X -> rows (conv_nout g) Cf -> length Cf = length X ->
  let m := conv_set zero g (id_act A) theta in
  let mt := conv_set zero g (id_act A) (vaddA theta (vscaleA t dtheta)) in
  let Xt := maddA X (map (vscaleA t) dX) in
  frA Cf (eval_batchA mt Xt) =
  frA Cf (eval_batchA m X) +
  t * (dotA (conv_wpd zero add mul m X Cf) dtheta + frA (conv_wid zero add mul m X Cf) dX) +
  t * t * frA Cf (conv_linA g dX (firstn (conv_nflt g) dtheta)).
Proof.
  intros G Lt Ld RX RD LdX RC LC m mt Xt.
  assert (LXt : length Xt = length X) by (apply madd_length; rewrite map_length; auto).
  set (w := firstn (conv_nflt g) theta). set (b := skipn (conv_nflt g) theta).
  set (dw := firstn (conv_nflt g) dtheta). set (db := skipn (conv_nflt g) dtheta).
  assert (Ldw : length dw = conv_nflt g) by (unfold dw; rewrite firstn_length; unfold conv_nparams in Ld; lia).
  assert (Lw : length dw = length w) by (unfold dw, w; rewrite !firstn_length; lia).
  assert (Lb : length b = length (vscaleA t db)) by (unfold b, db, vscale; rewrite map_length, !skipn_length; lia).
  rewrite !eval_batch_id by reflexivity.
  unfold conv_wpd, conv_wid. rewrite (delta_id m X Cf eq_refl LC).
  change (cg m) with g. change (cbp m) with (bp_filters zero g w).
  rewrite (fr_pre mt Xt Cf G RC) by lia. rewrite (fr_pre m X Cf G RC LC). rewrite (fr_lin g dX Cf dw G RC) by lia.
  change (cg mt) with g. change (cg m) with g.
  change (cflt m) with w. change (coff m) with b.
  assert (Ew : cflt mt = vaddA w (vscaleA t dw)) by (unfold mt, conv_set; cbn [cflt]; rewrite firstn_vadd, firstn_vscale; reflexivity).
  assert (Eb : coff mt = vaddA b (vscaleA t db)).
  { unfold mt, conv_set; cbn [coff]. rewrite skipn_vadd, skipn_vscale; auto. unfold vscale. rewrite map_length. lia. }
  rewrite Ew, Eb, LXt, LdX.
  assert (Edt : dtheta = dw ++ db) by (unfold dw, db; symmetry; apply firstn_skipn).
  rewrite Edt at 1.
  rewrite <- (conv_core g X dX Cf w dw db G RX RC LC LdX Ldw).
  rewrite bsum_mul_lR, bsum_mul_lR, <- !bsum_addR. apply bsum_ext; intros r Hr.
  rewrite bsum_mul_lR, bsum_mul_lR, <- !bsum_addR. apply bsum_ext; intros o Ho.
  unfold Xt. rewrite (lin_bilinear g X dX w dw t r o G RX RD LdX Lw Hr Ho).
  rewrite get_vadd by exact Lb. rewrite get_vscale. ring.
Qed.

End ConvThm.
