(* C18 — serialization round-trips: executable model of an archive and of per-class read/write
   field sequences.  Definitions only; proofs are in C18Proofs.v.

   An archive is a list of tokens (the same model serves Boost's text and binary archives: both are
   a sequence of primitive items; a double is an *exact* token, mantissa * 2^exponent, because Boost
   text archives print 17 significant digits and binary archives copy the 8 bytes).

   A *kind* describes how one streamed item is laid out:
     nat / int / double / string / bool / opaque atom (enum, rng state, ...),
     vector with size prefix (std::vector, remora vector, the batch container of Data<>),
     fixed-length run without prefix (a loop over structure that the constructor fixes: layers of a
       ConcatenatedModel, sub-kernels of a sum/product kernel),
     matrix (rows, columns, then rows*columns items),
     nested object (right-nested pairs closed by KUnit, see KObj), optional (nullable shared pointer).

   A class is described by the ordered list of fields its write() streams and the list its read()
   streams (regenerated from /repo by tools/translate_serial.py into coq/gen/C18_<Class>.v), and by
   its non-static data members.  An object is a finite map member-name -> value; read() starts from a
   *fresh* object and overwrites exactly the members it streams. *)
From Coq Require Import List Arith Bool ZArith String.
Import ListNotations.
Open Scope string_scope.
Open Scope list_scope.
Notation length := List.length.

Inductive token :=
| Tnat  (n : nat)
| Tint  (z : Z)
| Tdbl  (m e : Z)
| Tstr  (s : string)
| Tbool (b : bool)
| Tatom (tag : string) (payload : Z).

Inductive kind :=
| KUnit
| KNat | KInt | KDbl | KStr | KBool
| KAtom (tag : string)
| KVec  (k : kind)
| KFix  (n : nat) (k : kind)
| KMat  (k : kind)
| KPair (a b : kind)
| KOpt  (k : kind).

Definition KObj (ks : list kind) : kind := fold_right KPair KUnit ks.
(* shark::Shape::serialize streams m_dims (std::vector<size_t>) and m_numElements *)
Definition KShape : kind := KObj [KVec KNat; KNat].

Inductive value :=
| VUnit
| VNat  (n : nat)
| VInt  (z : Z)
| VDbl  (m e : Z)
| VStr  (s : string)
| VBool (b : bool)
| VAtom (tag : string) (payload : Z)
| VList (l : list value)
| VMat  (r c : nat) (l : list value)
| VPair (a b : value)
| VNone
| VSome (v : value).

Fixpoint has_kind (k : kind) (v : value) : bool :=
  match k, v with
  | KUnit, VUnit => true
  | KNat, VNat _ => true
  | KInt, VInt _ => true
  | KDbl, VDbl _ _ => true
  | KStr, VStr _ => true
  | KBool, VBool _ => true
  | KAtom t, VAtom t' _ => String.eqb t t'
  | KVec k', VList l => forallb (has_kind k') l
  | KFix n k', VList l => Nat.eqb (length l) n && forallb (has_kind k') l
  | KMat k', VMat r c l => Nat.eqb (length l) (r * c) && forallb (has_kind k') l
  | KPair a b, VPair x y => has_kind a x && has_kind b y
  | KOpt _, VNone => true
  | KOpt k', VSome x => has_kind k' x
  | _, _ => false
  end.

Fixpoint encode (k : kind) (v : value) : list token :=
  match k, v with
  | KNat, VNat n => [Tnat n]
  | KInt, VInt z => [Tint z]
  | KDbl, VDbl m e => [Tdbl m e]
  | KStr, VStr s => [Tstr s]
  | KBool, VBool b => [Tbool b]
  | KAtom _, VAtom t p => [Tatom t p]
  | KVec k', VList l => Tnat (length l) :: flat_map (encode k') l
  | KFix _ k', VList l => flat_map (encode k') l
  | KMat k', VMat r c l => Tnat r :: Tnat c :: flat_map (encode k') l
  | KPair a b, VPair x y => encode a x ++ encode b y
  | KOpt _, VNone => [Tbool false]
  | KOpt k', VSome x => Tbool true :: encode k' x
  | _, _ => []
  end.

Definition decoder := list token -> option (value * list token).

Fixpoint decode_n (d : decoder) (n : nat) (ts : list token) : option (list value * list token) :=
  match n with
  | 0 => Some ([], ts)
  | S n' =>
    match d ts with
    | None => None
    | Some (v, ts') =>
      match decode_n d n' ts' with
      | None => None
      | Some (l, r) => Some (v :: l, r)
      end
    end
  end.

Fixpoint decode (k : kind) (ts : list token) : option (value * list token) :=
  match k with
  | KUnit => Some (VUnit, ts)
  | KNat => match ts with Tnat n :: r => Some (VNat n, r) | _ => None end
  | KInt => match ts with Tint z :: r => Some (VInt z, r) | _ => None end
  | KDbl => match ts with Tdbl m e :: r => Some (VDbl m e, r) | _ => None end
  | KStr => match ts with Tstr s :: r => Some (VStr s, r) | _ => None end
  | KBool => match ts with Tbool b :: r => Some (VBool b, r) | _ => None end
  | KAtom t => match ts with
               | Tatom t' p :: r => if String.eqb t t' then Some (VAtom t' p, r) else None
               | _ => None end
  | KVec k' => match ts with
               | Tnat n :: r =>
                 match decode_n (decode k') n r with
                 | Some (l, r') => Some (VList l, r')
                 | None => None
                 end
               | _ => None end
  | KFix n k' => match decode_n (decode k') n ts with
                 | Some (l, r') => Some (VList l, r')
                 | None => None
                 end
  | KMat k' => match ts with
               | Tnat r :: Tnat c :: rest =>
                 match decode_n (decode k') (r * c) rest with
                 | Some (l, r') => Some (VMat r c l, r')
                 | None => None
                 end
               | _ => None end
  | KPair a b => match decode a ts with
                 | Some (x, r) =>
                   match decode b r with
                   | Some (y, r') => Some (VPair x y, r')
                   | None => None
                   end
                 | None => None
                 end
  | KOpt k' => match ts with
               | Tbool false :: r => Some (VNone, r)
               | Tbool true :: r =>
                 match decode k' r with
                 | Some (x, r') => Some (VSome x, r')
                 | None => None
                 end
               | _ => None end
  end.

(* two distinct inhabitants of every kind except KUnit (used to build the witness object of the
   mismatch theorems: a member whose value differs from the fresh object's) *)
Fixpoint wit0 (k : kind) : value :=
  match k with
  | KUnit => VUnit | KNat => VNat 0 | KInt => VInt 0 | KDbl => VDbl 0 0 | KStr => VStr ""
  | KBool => VBool false | KAtom t => VAtom t 0
  | KVec _ => VList []
  | KFix n k' => VList (repeat (wit0 k') n)
  | KMat _ => VMat 0 0 []
  | KPair a b => VPair (wit0 a) (wit0 b)
  | KOpt _ => VNone
  end.

Fixpoint wit1 (k : kind) : value :=
  match k with
  | KUnit => VUnit | KNat => VNat 1 | KInt => VInt 1 | KDbl => VDbl 1 0 | KStr => VStr "x"
  | KBool => VBool true | KAtom t => VAtom t 1
  | KVec k' => VList [wit0 k']
  | KFix n k' => VList (repeat (wit1 k') n)
  | KMat k' => VMat 1 1 [wit0 k']
  | KPair a b => VPair (wit1 a) (wit1 b)
  | KOpt k' => VSome (wit0 k')
  end.

(* a kind that carries information: wit0 and wit1 differ *)
Fixpoint informative (k : kind) : bool :=
  match k with
  | KUnit => false
  | KFix n k' => negb (Nat.eqb n 0) && informative k'
  | KPair a b => informative a || informative b
  | _ => true
  end.

(* ---------------------------------------------------------------------------------------- *)
(* layouts: sequences of kinds, objects as value lists (the plain statement of the round trip) *)

Fixpoint write_vals (ks : list kind) (vs : list value) : list token :=
  match ks, vs with
  | k :: ks', v :: vs' => encode k v ++ write_vals ks' vs'
  | _, _ => []
  end.

Fixpoint read_vals (ks : list kind) (ts : list token) : option (list value * list token) :=
  match ks with
  | [] => Some ([], ts)
  | k :: ks' =>
    match decode k ts with
    | None => None
    | Some (v, r) =>
      match read_vals ks' r with
      | None => None
      | Some (vs, r') => Some (v :: vs, r')
      end
    end
  end.

Fixpoint typed_vals (ks : list kind) (vs : list value) : bool :=
  match ks, vs with
  | [], [] => true
  | k :: ks', v :: vs' => has_kind k v && typed_vals ks' vs'
  | _, _ => false
  end.

(* ---------------------------------------------------------------------------------------- *)
(* classes: named fields, objects as member maps *)

(* fname: the streamed expression, normalised ("m_best.point", "*mep_kernel", "m_base[*].weight");
   froot: the data member it belongs to ("m_best", "mep_kernel", "m_base");
   fguard: the conditions / loops it sits under, "" when unconditional. *)
Record field := F { fname : string; froot : string; fkind : kind; fguard : string }.

Definition obj := list (string * value).

Fixpoint lookup (n : string) (o : obj) : value :=
  match o with
  | [] => VUnit
  | (m, v) :: r => if String.eqb n m then v else lookup n r
  end.

Definition update (n : string) (v : value) (o : obj) : obj := (n, v) :: o.

Definition write_obj (fs : list field) (o : obj) : list token :=
  flat_map (fun f => encode (fkind f) (lookup (fname f) o)) fs.

Fixpoint read_obj (fs : list field) (o : obj) (ts : list token) : option (obj * list token) :=
  match fs with
  | [] => Some (o, ts)
  | f :: r =>
    match decode (fkind f) ts with
    | None => None
    | Some (v, ts') => read_obj r (update (fname f) v o) ts'
    end
  end.

Definition typed_obj (fs : list field) (o : obj) : bool :=
  forallb (fun f => has_kind (fkind f) (lookup (fname f) o)) fs.

Definition mem (s : string) (l : list string) : bool := existsb (String.eqb s) l.

(* every data member is streamed by write (as the root of some field) or is listed as transient *)
Definition covers (members : list string) (wf : list field) (transient : list string) : bool :=
  forallb (fun m => mem m (map froot wf) || mem m transient) members.

(* members that are neither streamed nor transient (what the translator prints on failure) *)
Definition uncovered (members : list string) (wf : list field) (transient : list string) : list string :=
  filter (fun m => negb (mem m (map froot wf) || mem m transient)) members.

(* the transient table must not go stale: every transient entry is a member and is not streamed *)
Definition transient_ok (members : list string) (wf : list field) (transient : list string) : bool :=
  forallb (fun t => mem t members && negb (mem t (map froot wf))) transient.

(* field lists that differ: position of the first difference (diagnostics) *)
Definition kind_eqb : kind -> kind -> bool :=
  fix go a b :=
    match a, b with
    | KUnit, KUnit | KNat, KNat | KInt, KInt | KDbl, KDbl | KStr, KStr | KBool, KBool => true
    | KAtom s, KAtom t => String.eqb s t
    | KVec x, KVec y => go x y
    | KFix n x, KFix m y => Nat.eqb n m && go x y
    | KMat x, KMat y => go x y
    | KPair x1 x2, KPair y1 y2 => go x1 y1 && go x2 y2
    | KOpt x, KOpt y => go x y
    | _, _ => false
    end.

Definition field_eqb (f g : field) : bool :=
  String.eqb (fname f) (fname g) && String.eqb (froot f) (froot g) &&
  kind_eqb (fkind f) (fkind g) && String.eqb (fguard f) (fguard g).

Fixpoint first_diff (rf wf : list field) (i : nat) : option nat :=
  match rf, wf with
  | [], [] => None
  | f :: r, g :: w => if field_eqb f g then first_diff r w (S i) else Some i
  | _, _ => Some i
  end.
