(* C16 — QpMcSimplexDecomp::shrink on the state model: the loops over the examples / the active list of one example
   keep the full invariant, move no value and keep the objective; the branch "a == C && up - g < 0" of case 1 (which
   would walk over avar[active]) is dead because up is the largest gradient of the example's active variables; an
   example is only removed when all its active variables are zero with negative gradient (repair 8a4e0090: the test
   down > 0 excludes a tiny positive variable hidden behind varsum == 0), a variable of a bounded simplex only when it
   is zero and its gradient is below that of every positive variable of the example. *)
From Coq Require Import QArith Qminmax Lqa Arith Bool List Lia.
From SharkV Require Import C08Model C08Defs C08Aux C08Proofs C07Proofs C16Model C16State C16Proofs C16ProofsMc C16StateDefs
  C16GradProofs C16SmoProofs C16SmoSimplexProofs C16TablesProofs C16DeactProofs C16UnshrinkProofs C16ShrinkProofs.
Import ListNotations.
Open Scope Q_scope.

Section SShrink.
Variable P ncl n : nat.
Variable C : Q.
Variable Mrow : nat -> list (nat * Q).
Variable Mdef : nat -> Q.
Variable K0 : nat -> nat -> Q.
Hypothesis HM : Mwf P Mrow.
Variable y0 : nat -> nat.
Variable lin0 : nat -> nat -> Q.

Notation Inv_tab := (Inv_tab P n).
Notation nv := (nv P n).
Notation mobj := (mobj P ncl n Mrow Mdef K0).
Notation Inv_all := (Inv_all P ncl n C Mrow Mdef K0 y0 lin0).
Notation Rel := (Rel P ncl n Mrow Mdef K0).
Notation same_vals := (same_vals P n).

(* ---------------- getSimplexMVP ---------------- *)
Lemma mvp_up_ge (s : qmst) e : forall m b, (b < m)%nat -> mgrad s (eavar s e b) <= mvp_up qops s e m.
Proof.
  induction m as [|m IH]; intros b Hb; [lia|]. cbn [mvp_up o_ltb qops].
  destruct (qltb_spec (mvp_up qops s e m) (mgrad s (eavar s e m))) as [[E H]|[E H]]; rewrite E.
  - destruct (Nat.eq_dec b m) as [->|N]; [lra|]. specialize (IH b ltac:(lia)). lra.
  - destruct (Nat.eq_dec b m) as [->|N]; [exact H|]. apply IH. lia.
Qed.

Lemma mvp_down_le (s : qmst) e : forall m b, (b < m)%nat -> 0 < malpha s (eavar s e b) ->
  mvp_down qops s e m <= mgrad s (eavar s e b).
Proof.
  induction m as [|m IH]; intros b Hb Ha; [lia|]. cbn [mvp_down o_ltb o_zero qops].
  destruct (qltb_spec 0 (malpha s (eavar s e m))) as [[E1 H1]|[E1 H1]]; rewrite E1; cbn [andb].
  - destruct (qltb_spec (mgrad s (eavar s e m)) (mvp_down qops s e m)) as [[E2 H2]|[E2 H2]]; rewrite E2.
    + destruct (Nat.eq_dec b m) as [->|N]; [lra|]. specialize (IH b ltac:(lia) Ha). lra.
    + destruct (Nat.eq_dec b m) as [->|N]; [exact H2|]. apply IH; [lia | exact Ha].
  - destruct (Nat.eq_dec b m) as [->|N]; [lra|]. apply IH; [lia | exact Ha].
Qed.

(* ---------------- soundness of the two shrinking decisions ---------------- *)

(* case 2 (as repaired by 8a4e0090): the whole example is removed only if every active variable is at zero - none is
   positive, however tiny - and every gradient is negative: no feasible step inside this example improves *)
Theorem simplex_case2_sound (s : qmst) e :
  (forall b, (b < eact s e)%nat -> 0 <= malpha s (eavar s e b)) ->
  let up := mvp_up qops s e (eact s e) in let down := mvp_down qops s e (eact s e) in
  o_eqb qops (evsum s e) 0 && o_ltb qops up 0 && o_ltb qops 0 down = true ->
  (forall b, (b < eact s e)%nat -> malpha s (eavar s e b) == 0 /\ mgrad s (eavar s e b) < 0) /\
  (forall d : nat -> Q, (forall b, (b < eact s e)%nat -> 0 <= malpha s (eavar s e b) + d b) ->
     forall b, (b < eact s e)%nat -> d b * mgrad s (eavar s e b) <= 0).
Proof.
  intros Hnn up down H. cbn [o_eqb o_ltb qops] in H.
  apply andb_true_iff in H. destruct H as [H H3]. apply andb_true_iff in H. destruct H as [_ H2].
  apply qltb_true in H2. apply qltb_true in H3.
  assert (X : forall b, (b < eact s e)%nat -> malpha s (eavar s e b) == 0 /\ mgrad s (eavar s e b) < 0).
  { intros b Hb. pose proof (mvp_up_ge s e _ b Hb) as U. fold up in U. split; [|lra].
    pose proof (Hnn b Hb) as N0.
    destruct (Qlt_le_dec 0 (malpha s (eavar s e b))) as [Pz|Z]; [|lra].
    pose proof (mvp_down_le s e _ b Hb Pz) as Dn. fold down in Dn. lra. }
  split; [exact X|]. intros d Hd b Hb. destruct (X b Hb) as [X1 X2]. specialize (Hd b Hb).
  assert (0 <= d b) by lra. assert (0 <= d b * (- mgrad s (eavar s e b))) by (apply Qmult_le_0_compat; lra). lra.
Qed.

(* case 1: in a simplex at its bound a variable is removed only if it is zero and its gradient is below `down`,
   the smallest gradient of the positive variables of the example: it cannot decrease, and increasing it at the
   expense of any positive variable of the example loses objective *)
Theorem simplex_case1_sound (s : qmst) e down v :
  (forall b, (b < eact s e)%nat -> 0 < malpha s (eavar s e b) -> down <= mgrad s (eavar s e b)) ->
  o_eqb qops (malpha s v) 0 && o_ltb qops (o_sub qops (mgrad s v) down) 0 = true ->
  malpha s v == 0 /\
  forall b, (b < eact s e)%nat -> 0 < malpha s (eavar s e b) -> mgrad s v - mgrad s (eavar s e b) < 0.
Proof.
  intros Hd H. cbn [o_eqb o_ltb o_sub qops] in H. apply andb_true_iff in H. destruct H as [H1 H2].
  apply qeqb_true in H1. apply qltb_true in H2. split; [exact H1|].
  intros b Hb Pz. specialize (Hd b Hb Pz). lra.
Qed.

(* ---------------- the composite deactivateVariable and the loops ---------------- *)
Lemma sdeact_var_actex (s : qmst) v : Inv_tab s -> (v < actvar s)%nat ->
  (actex s <= S (actex (sdeact_var P s v)))%nat /\
  (eact (deact_var s v) (vex s v) <> 0%nat -> sdeact_var P s v = deact_var s v).
Proof.
  intros I Hv. unfold sdeact_var.
  destruct (dv_counts s v) as (_ & K2 & _).
  destruct (Nat.eqb_spec (eact (deact_var s v) (vex s v)) 0) as [Z|N].
  - split; [|intro X; contradiction].
    destruct (deact_ex_plain P (deact_var s v) (vex s v)) as (_ & _ & _ & _ & _ & _ & X & _). rewrite X, K2. lia.
  - split; [rewrite K2; lia | reflexivity].
Qed.

Lemma sdeact_down_all e : forall q1 (s : qmst), Inv_all true s -> (e < actex s)%nat -> q1 = eact s e ->
  Inv_all true (sdeact_down P e q1 s) /\ Rel s (sdeact_down P e q1 s) /\ (actex s <= S (actex (sdeact_down P e q1 s)))%nat.
Proof.
  induction q1 as [|q IH]; intros s IA He Hq; cbn [sdeact_down].
  - split; [exact IA|]. split; [apply Rel_refl | lia].
  - pose proof IA as (I & _).
    assert (Hen : (e < n)%nat) by (pose proof (it_ae _ _ _ I); lia).
    assert (HqP : (q < P)%nat) by (pose proof (it_actle _ _ _ I e Hen); lia).
    set (v := eavar s e q).
    assert (Hv : (v < actvar s)%nat) by (apply (it_act _ _ _ I e q Hen HqP); lia).
    destruct (it_avar _ _ _ I e q Hen HqP) as (_ & Vex & Vidx). fold v in Vex, Vidx.
    destruct (sdeact_var_all P ncl n C Mrow Mdef K0 y0 lin0 true s v IA Hv) as [IA1 R1].
    destruct (sdeact_var_actex s v I Hv) as [A1 A2].
    destruct q as [|q'].
    + cbn [sdeact_down]. split; [exact IA1|]. split; [exact R1 | exact A1].
    + assert (Eact : eact (deact_var s v) e = S q').
      { rewrite dv_eact, Vex, Nat.eqb_refl. lia. }
      rewrite Vex in A2. rewrite (A2 ltac:(rewrite Eact; lia)) in *.
      destruct (dv_counts s v) as (_ & K2 & _).
      destruct (IH (deact_var s v) IA1) as (IA2 & R2 & A3).
      * rewrite K2. exact He.
      * symmetry. exact Eact.
      * split; [exact IA2|]. split; [apply (Rel_trans P ncl n Mrow Mdef K0 _ _ _ R1 R2) | rewrite K2 in A3; exact A3].
Qed.

Lemma case1_all up down e : forall p (s : qmst), Inv_all true s -> (e < actex s)%nat -> (p <= eact s e)%nat ->
  (forall b, (b < p)%nat -> mgrad s (eavar s e b) <= up) ->
  Inv_all true (sshrink_case1 qops P C up down e p s) /\ Rel s (sshrink_case1 qops P C up down e p s) /\
  (actex s <= S (actex (sshrink_case1 qops P C up down e p s)))%nat.
Proof.
  induction p as [|p IH]; intros s IA He Hp Hup; cbn [sshrink_case1].
  - split; [exact IA|]. split; [apply Rel_refl | lia].
  - pose proof IA as (I & _).
    assert (Hen : (e < n)%nat) by (pose proof (it_ae _ _ _ I); lia).
    assert (HpP : (p < P)%nat) by (pose proof (it_actle _ _ _ I e Hen); lia).
    set (v := eavar s e p).
    assert (Hv : (v < actvar s)%nat) by (apply (it_act _ _ _ I e p Hen HpP); lia).
    destruct (it_avar _ _ _ I e p Hen HpP) as (_ & Vex & Vidx). fold v in Vex, Vidx.
    destruct (o_eqb qops (malpha s v) (o_zero qops) && o_ltb qops (o_sub qops (mgrad s v) down) (o_zero qops)).
    + (* the variable is removed *)
      destruct (sdeact_var_all P ncl n C Mrow Mdef K0 y0 lin0 true s v IA Hv) as [IA1 R1].
      destruct (sdeact_var_actex s v I Hv) as [A1 A2].
      destruct p as [|p'].
      * cbn [sshrink_case1]. split; [exact IA1|]. split; [exact R1 | exact A1].
      * assert (Eact : eact (deact_var s v) e = (eact s e - 1)%nat).
        { rewrite dv_eact, Vex, Nat.eqb_refl. reflexivity. }
        rewrite Vex in A2. rewrite (A2 ltac:(rewrite Eact; lia)) in *.
        destruct (dv_counts s v) as (_ & K2 & _).
        destruct (IH (deact_var s v) IA1) as (IA2 & R2 & A3).
        -- rewrite K2. exact He.
        -- rewrite Eact. lia.
        -- intros b Hb.
           rewrite (dv_eavar P n s v I Hv e b Hen ltac:(lia)), dv_grad, sw_invol.
           rewrite Vex, Vidx. unfold tau. rewrite Nat.eqb_refl. unfold sw.
           destruct (Nat.eqb_spec b (S p')) as [X|_]; [lia|].
           destruct (Nat.eqb_spec b (eact s e - 1)) as [X|_]; [lia|]. apply Hup. lia.
        -- split; [exact IA2|]. split; [apply (Rel_trans P ncl n Mrow Mdef K0 _ _ _ R1 R2) | rewrite K2 in A3; exact A3].
    + destruct (o_eqb qops (malpha s v) C && o_ltb qops (o_sub qops up (mgrad s v)) (o_zero qops)) eqn:Dead.
      * (* dead branch *)
        exfalso. apply andb_true_iff in Dead. destruct Dead as [_ D2]. cbn [o_ltb o_sub o_zero qops] in D2.
        apply qltb_true in D2. pose proof (Hup p ltac:(lia)) as U. fold v in U. lra.
      * apply IH; try assumption; [lia | intros b Hb; apply Hup; lia].
Qed.

(* the branch that would call deactivateVariable(ex.avar[ex.active]) is never taken *)
Corollary sshrink_case1_dead (s : qmst) e p up : (forall b, (b < S p)%nat -> mgrad s (eavar s e b) <= up) ->
  o_eqb qops (malpha s (eavar s e p)) C && o_ltb qops (o_sub qops up (mgrad s (eavar s e p))) (o_zero qops) = false.
Proof.
  intros Hup. destruct (o_eqb qops (malpha s (eavar s e p)) C); cbn [andb]; [|reflexivity].
  cbn [o_ltb o_sub o_zero qops]. apply qltb_false. specialize (Hup p ltac:(lia)). lra.
Qed.

Lemma sshrink_example_all (s : qmst) e : Inv_all true s -> (e < actex s)%nat ->
  Inv_all true (sshrink_example qops P C s e) /\ Rel s (sshrink_example qops P C s e) /\
  (actex s <= S (actex (sshrink_example qops P C s e)))%nat.
Proof.
  intros IA He. unfold sshrink_example.
  destruct (o_ltb qops (o_zero qops) (mvp_down qops s e (eact s e)) && o_eqb qops (evsum s e) C &&
            o_ltb qops (o_zero qops) (o_sub qops (mvp_up qops s e (eact s e)) (mvp_down qops s e (eact s e)))).
  - apply case1_all; try assumption; [lia|]. intros b Hb. apply mvp_up_ge. exact Hb.
  - destruct (o_eqb qops (evsum s e) (o_zero qops) && o_ltb qops (mvp_up qops s e (eact s e)) (o_zero qops) &&
              o_ltb qops (o_zero qops) (mvp_down qops s e (eact s e))).
    + apply sdeact_down_all; try assumption. reflexivity.
    + split; [exact IA|]. split; [apply Rel_refl | lia].
Qed.

Lemma sshrink_loop_all : forall i (s : qmst), Inv_all true s -> (i <= actex s)%nat ->
  Inv_all true (sshrink_loop qops P C i s) /\ Rel s (sshrink_loop qops P C i s).
Proof.
  induction i as [|e IH]; intros s IA Hi; cbn [sshrink_loop].
  - split; [exact IA | apply Rel_refl].
  - destruct (sshrink_example_all s e IA ltac:(lia)) as (IA1 & R1 & A1).
    destruct (IH _ IA1 ltac:(lia)) as (IA2 & R2).
    split; [exact IA2 | apply (Rel_trans P ncl n Mrow Mdef K0 _ _ _ R1 R2)].
Qed.

Theorem simplex_shrink_all shrinking eps (s : qmst) : Inv_all true s ->
  let s' := simplex_shrinkQ P ncl n C Mrow Mdef K0 shrinking eps s in
  Inv_all true s' /\ same_vals s s' /\ mobj s' == mobj s.
Proof.
  intros IA s'. unfold s', simplex_shrinkQ, simplex_shrink.
  destruct shrinking; cbn [negb]; [|split; [exact IA | split; [apply same_vals_refl | reflexivity]]].
  set (s1 := if negb (munshr s) && o_ltb qops (skkt qops C s (actex s)) (o_mul qops (o_ten qops) eps)
             then set_unshr (unshrink qops P ncl n Mrow Mdef K0 s) true else s).
  assert (H1 : Inv_all true s1 /\ same_vals s s1 /\ mobj s1 == mobj s).
  { unfold s1. destruct (negb (munshr s) && o_ltb qops (skkt qops C s (actex s)) (o_mul qops (o_ten qops) eps)).
    - destruct (unshrink_all P ncl n C Mrow Mdef K0 HM y0 lin0 true s IA) as (A1 & _ & A3 & A4).
      split; [apply Inv_all_set_unshr; exact A1|]. split; [exact A3 | exact A4].
    - split; [exact IA | split; [apply same_vals_refl | reflexivity]]. }
  destruct H1 as (IA1 & SV1 & O1).
  destruct (sshrink_loop_all (actex s1) s1 IA1 (le_n _)) as [IA2 [SV2 O2]].
  split; [exact IA2|]. split; [apply (same_vals_vars_trans P n s s1 _ SV1 SV2) | rewrite O2; exact O1].
Qed.

End SShrink.
