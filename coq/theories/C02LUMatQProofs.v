(* C02 — LU solve with matrix right-hand sides over Qc: a concrete run (hypotheses of lu_solve_m_correct satisfiable). *)
From Coq Require Import QArith Qcanon List Lia.
From SharkV Require Import C02Model C02Proofs C02BlkModel C02Q C02QProofs C02LUMatModel.
Import ListNotations.
(* A3 X = B with X = [[1,0],[2,1],[3,-1]] (columns (1,2,3) and (0,1,-1)); block size 1 for trsm so the recursion is used *)
Definition ex_lum_B : list (vec Qc) :=
  [of_list Qc (qc_ops ex_sq) [qc_make 5 1; qc_make 3 1; qc_make 11 1]; of_list Qc (qc_ops ex_sq) [qc_make 2 1; qc_make 0 1; qc_make 2 1]].
Example ex_lu_solve_m :
  match getrf Qc (qc_ops ex_sq) qc_abs 1 1 3 ex_A3 with
  | LUOk _ LU P =>
    match lu_solve_m Qc (qc_ops ex_sq) 1 true LU P 3 ex_lum_B with
    | Some [x1; x2] => qc_eq_list (tab Qc 3 x1) [qc_make 1 1; qc_make 2 1; qc_make 3 1] = true /\
                       qc_eq_list (tab Qc 3 x2) [qc_make 0 1; qc_make 1 1; qc_make (-1) 1] = true
    | _ => False
    end
  | _ => False
  end.
Proof. vm_compute. split; reflexivity. Qed.
Lemma ex_lu_solve_m_satisfiable :
  exists LU P X, getrf Qc (qc_ops ex_sq) qc_abs 1 1 3 ex_A3 = LUOk Qc LU P /\ lu_solve_m Qc (qc_ops ex_sq) 1 true LU P 3 ex_lum_B = Some X.
Proof.
  pose proof ex_lu_solve_m as H. destruct (getrf Qc (qc_ops ex_sq) qc_abs 1 1 3 ex_A3) as [LU P| |]; try contradiction.
  destruct (lu_solve_m Qc (qc_ops ex_sq) 1 true LU P 3 ex_lum_B) as [X|] eqn:E; [|contradiction]. eauto.
Qed.
