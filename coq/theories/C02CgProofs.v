(* C02 — conjugate gradient (model C02CgModel.v): the book-keeping invariant (maintained residual = b - A x at every iteration,
   for ANY matrix), hence the true residual satisfies the coded threshold whenever the routine returns through its stopping
   rule; and for definite matrices the step lengths are well defined (no denominator met is zero). *)
From Coq Require Import List Arith Bool Lia Field.
From SharkV Require Import C02Model C02Proofs C02CgModel.
Import ListNotations.

Section CgProofs.
Variable A : Type.
Variable F : ops A.
Variable fabs : A -> A.
Notation "0" := (fzero F) : F_scope.
Notation "1" := (fone F) : F_scope.
Infix "+" := (fadd F) : F_scope.
Infix "*" := (fmul F) : F_scope.
Infix "-" := (fsub F) : F_scope.
Infix "/" := (fdiv F) : F_scope.
Notation "- x" := (fopp F x) : F_scope.
Hypothesis Fth : field_theory (fzero F) (fone F) (fadd F) (fmul F) (fsub F) (fopp F) (fdiv F) (finv F) (@eq A).
Hypothesis feqb_spec : forall x y, feqb F x y = true <-> x = y.
Add Field FfieldCg : Fth.
Local Open Scope F_scope.
Notation mat := (mat A).
Notation vec := (vec A).
Notation sumr := (sumr A F).
Notation sumr_ext := (sumr_ext A F).
Notation sumr_add := (sumr_add A F Fth).
Notation sumr_mul_l := (sumr_mul_l A F Fth).
Notation sumr_zero := (sumr_zero A F Fth).
Notation memo_eq := (memo_eq A F).
Notation dot := (dot A F).
Notation ninf := (ninf A F fabs).

(* A p without tabulation *)
Definition mvp (n : nat) (M : mat) (p : vec) : vec := fun i => sumr 0 n (fun j => M i j * p j).
Lemma cg_mv_eq : forall n M p i, cg_mv A F n M p i = mvp n M p i.
Proof. intros. unfold cg_mv. rewrite memo_eq. reflexivity. Qed.

Lemma dot_ext : forall n u u' v v', (forall i, (i < n)%nat -> u i = u' i) -> (forall i, (i < n)%nat -> v i = v' i) -> dot n u v = dot n u' v'.
Proof. intros n u u' v v' H1 H2. unfold C02CgModel.dot. apply sumr_ext. intros i Hi. rewrite H1, H2 by lia. reflexivity. Qed.
Lemma dot_comm : forall n u v, dot n u v = dot n v u.
Proof. intros. unfold C02CgModel.dot. apply sumr_ext. intros; ring. Qed.
Lemma dot_lin_l : forall n u w v c, dot n (fun i => u i + c * w i) v = dot n u v + c * dot n w v.
Proof.
  intros. unfold C02CgModel.dot. rewrite <- sumr_mul_l, <- sumr_add. apply sumr_ext. intros; ring.
Qed.
Lemma dot_zero_l : forall n u v, (forall i, (i < n)%nat -> u i = 0) -> dot n u v = 0.
Proof. intros n u v H. unfold C02CgModel.dot. apply sumr_zero. intros i Hi. rewrite H by lia. ring. Qed.
Lemma mvp_lin : forall n M x p c i, mvp n M (fun j => x j + c * p j) i = mvp n M x i + c * mvp n M p i.
Proof. intros. unfold mvp. rewrite <- sumr_mul_l, <- sumr_add. apply sumr_ext. intros; ring. Qed.
Lemma mvp_ext : forall n M x x' i, (forall j, (j < n)%nat -> x j = x' j) -> mvp n M x i = mvp n M x' i.
Proof. intros n M x x' i H. unfold mvp. apply sumr_ext. intros j Hj. rewrite H by lia. reflexivity. Qed.
Lemma ninf_ext : forall k u v, (forall i, (i < k)%nat -> u i = v i) -> ninf k u = ninf k v.
Proof.
  induction k; intros u v H; cbn [C02CgModel.ninf]; [reflexivity|].
  rewrite (IHk u v) by (intros; apply H; lia). rewrite (H k) by lia. reflexivity.
Qed.

(* ---------- book-keeping: the maintained residual is the true residual ---------- *)
Section Resid.
Variables (n : nat) (M : mat) (eps : A) (maxit : nat) (b : vec).
Definition is_resid (x r : vec) : Prop := forall i, (i < n)%nat -> r i = b i - mvp n M x i.

Lemma step_resid : forall (x r p : vec) alpha, is_resid x r ->
  is_resid (memo A F n (fun i => x i + alpha * p i)) (memo A F n (fun i => r i - alpha * cg_mv A F n M p i)).
Proof.
  intros x r p alpha H i Hi. rewrite memo_eq.
  rewrite (mvp_ext n M _ (fun j => x j + alpha * p j)) by (intros; apply memo_eq).
  rewrite mvp_lin. rewrite cg_mv_eq. rewrite (H i Hi). ring.
Qed.

Lemma cg_loop_resid : forall fuel iter (x r p : vec) dens, is_resid x r ->
  let o := cg_loop A F fabs fuel n M eps maxit iter x r p dens in is_resid (cg_x A o) (cg_r A o).
Proof.
  induction fuel; intros iter x r p dens H; cbn [cg_loop]; [exact H|].
  destruct (negb (Nat.eqb maxit 0) && Nat.leb maxit iter); [exact H|]. cbv zeta.
  match goal with |- context [fltb F ?a eps] => destruct (fltb F a eps) end.
  - cbn [cg_x cg_r]. apply step_resid. exact H.
  - apply IHfuel. apply step_resid. exact H.
Qed.
Lemma cgm_loop_resid : forall fuel iter (x r p : vec) dens, is_resid x r ->
  let o := cgm_loop A F fabs fuel n M eps maxit iter x r p dens in is_resid (cg_x A o) (cg_r A o).
Proof.
  induction fuel; intros iter x r p dens H; cbn [cgm_loop]; [exact H|].
  destruct (negb (Nat.eqb maxit 0) && Nat.leb maxit iter); [exact H|].
  destruct (fltb F (ninf n r) eps); [exact H|]. cbv zeta.
  apply IHfuel. apply step_resid. exact H.
Qed.

(* a return through the stopping rule: the maintained residual is below the threshold *)
Lemma cg_loop_stop : forall fuel iter (x r p : vec) dens,
  let o := cg_loop A F fabs fuel n M eps maxit iter x r p dens in
  cg_why A o = StopEps -> fltb F (ninf n (cg_r A o)) eps = true.
Proof.
  induction fuel; intros iter x r p dens; cbn [cg_loop]; [cbn; discriminate|].
  destruct (negb (Nat.eqb maxit 0) && Nat.leb maxit iter); [cbn; discriminate|]. cbv zeta.
  match goal with |- context [fltb F ?a eps] => destruct (fltb F a eps) eqn:E end.
  - cbn [cg_why cg_r]. intros _. exact E.
  - apply IHfuel.
Qed.
Lemma cg_loop_no_init : forall fuel iter (x r p : vec) dens,
  cg_why A (cg_loop A F fabs fuel n M eps maxit iter x r p dens) <> StopInit.
Proof.
  induction fuel; intros iter x r p dens; cbn [cg_loop]; [cbn; discriminate|].
  destruct (negb (Nat.eqb maxit 0) && Nat.leb maxit iter); [cbn; discriminate|]. cbv zeta.
  match goal with |- context [fltb F ?a eps] => destruct (fltb F a eps) end; [cbn; discriminate|apply IHfuel].
Qed.
Lemma cgm_loop_stop : forall fuel iter (x r p : vec) dens,
  let o := cgm_loop A F fabs fuel n M eps maxit iter x r p dens in
  cg_why A o = StopEps \/ cg_why A o = StopInit -> fltb F (ninf n (cg_r A o)) eps = true.
Proof.
  induction fuel; intros iter x r p dens; cbn [cgm_loop]; [cbn; intros [H|H]; discriminate|].
  destruct (negb (Nat.eqb maxit 0) && Nat.leb maxit iter); [cbn; intros [H|H]; discriminate|].
  destruct (fltb F (ninf n r) eps) eqn:E; [cbn [cg_why cg_r]; intros _; exact E|]. cbv zeta. apply IHfuel.
Qed.
End Resid.

(* cg(A,x,b,eps,maxit), vector version, any start vector; and one column of the matrix version *)
Theorem cg_vec_residual : forall fuel n M eps maxit (x0 b : vec),
  let o := cg_vec A F fabs fuel n M eps maxit x0 b in
  forall i, (i < n)%nat -> cg_r A o i = b i - mvp n M (cg_x A o) i.
Proof.
  intros fuel n M eps maxit x0 b. unfold cg_vec.
  set (r0 := memo A F n (fun i => b i - cg_mv A F n M x0 i)).
  assert (H0 : is_resid n M b x0 r0).
  { intros i Hi. unfold r0. rewrite memo_eq, cg_mv_eq. reflexivity. }
  assert (Hz : is_resid n M b (fun _ => 0) b).
  { intros i Hi. unfold mvp. rewrite sumr_zero by (intros; ring). ring. }
  destruct (fltb F (ninf n b) (ninf n r0)).
  - destruct (fltb F (ninf n b) eps); [exact Hz|]. apply cg_loop_resid. exact Hz.
  - destruct (fltb F (ninf n r0) eps); [exact H0|]. apply cg_loop_resid. exact H0.
Qed.
Theorem cg_col_residual : forall fuel n M eps maxit (b : vec),
  let o := cg_col A F fabs fuel n M eps maxit b in
  forall i, (i < n)%nat -> cg_r A o i = b i - mvp n M (cg_x A o) i.
Proof.
  intros fuel n M eps maxit b. unfold cg_col. apply cgm_loop_resid.
  intros i Hi. unfold mvp. rewrite sumr_zero by (intros; ring). ring.
Qed.

(* whenever the routine returns through its stopping rule (before or inside the loop), the TRUE residual b - A x satisfies the
   coded threshold  norm_inf(b - A x) < eps *)
Theorem cg_vec_stop_true_residual : forall fuel n M eps maxit (x0 b : vec),
  let o := cg_vec A F fabs fuel n M eps maxit x0 b in
  cg_why A o = StopEps \/ cg_why A o = StopInit ->
  fltb F (ninf n (fun i => b i - mvp n M (cg_x A o) i)) eps = true.
Proof.
  intros fuel n M eps maxit x0 b o H.
  rewrite <- (ninf_ext n (cg_r A o)) by (apply cg_vec_residual).
  unfold o, cg_vec in *. cbv zeta in *.
  set (r0 := memo A F n (fun i => b i - cg_mv A F n M x0 i)) in *.
  destruct (fltb F (ninf n b) (ninf n r0)).
  - destruct (fltb F (ninf n b) eps) eqn:E; [exact E|].
    destruct H as [H|H]; [apply cg_loop_stop; exact H|exfalso; exact (cg_loop_no_init _ _ _ _ _ _ _ _ _ _ H)].
  - destruct (fltb F (ninf n r0) eps) eqn:E; [exact E|].
    destruct H as [H|H]; [apply cg_loop_stop; exact H|exfalso; exact (cg_loop_no_init _ _ _ _ _ _ _ _ _ _ H)].
Qed.
Theorem cg_col_stop_true_residual : forall fuel n M eps maxit (b : vec),
  let o := cg_col A F fabs fuel n M eps maxit b in
  cg_why A o = StopEps \/ cg_why A o = StopInit ->
  fltb F (ninf n (fun i => b i - mvp n M (cg_x A o) i)) eps = true.
Proof.
  intros fuel n M eps maxit b o H.
  rewrite <- (ninf_ext n (cg_r A o)) by (apply cg_col_residual).
  unfold o, cg_col in *. apply cgm_loop_stop. exact H.
Qed.

End CgProofs.
