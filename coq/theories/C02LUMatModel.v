(* C02 — pivoting_lu_decomposition::solve with MATRIX right-hand sides (decompositions.hpp): executable model, definitions only.
     solve(B, left):  swap_rows(P,B); trsm<unit_lower,left>(LU,B); trsm<upper,left>(LU,B)          -> [lu_solve_m ... true]
     solve(B, right): trsm<upper,right>(LU,B); trsm<unit_lower,right>(LU,B); swap_columns_inverted(P,B) -> [lu_solve_m ... false]
   B is given by its columns (left) / rows (right); trsm is the blocked recursion of C02Model.v (tbs = its Block_Size);
   swap_rows on a matrix permutes every column like swap_rows on a vector, swap_columns_inverted every row like
   swap_rows_inverted on a vector. *)
From Coq Require Import List Arith Bool.
From SharkV Require Import C02Model C02BlkModel.
Import ListNotations.

Section LUMat.
Variable A : Type.
Variable F : ops A.
Definition lu_solve_m (tbs : nat) (left : bool) (LU : mat A) (P : pvec) (n : nat) (vs : list (vec A)) : option (list (vec A)) :=
  if left then
    match trsm A F tbs false true true LU n (map (swap_vec A F n n P) vs) with
    | None => None
    | Some Y => trsm A F tbs true false true LU n Y
    end
  else
    match trsm A F tbs true false false LU n vs with
    | None => None
    | Some Y =>
      match trsm A F tbs false true false LU n Y with
      | None => None
      | Some Z => Some (map (swap_vec_inv A F n n P) Z)
      end
    end.
End LUMat.
