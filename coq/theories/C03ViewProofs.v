(* C03 — DataView: the index triples built by the constructor address the elements in dataset order,
   subset views compose, and toDataset(view) holds the view's elements in view order. *)
From Coq Require Import List Arith Lia Bool Permutation.
From SharkV Require Import ListAux C03Model C03Proofs C12Model C12Proofs.
Import ListNotations.

Lemma map_nth_error_seq {A} (x : list A) : map (nth_error x) (seq 0 (length x)) = map Some x.
Proof.
  induction x as [|a x IH]; simpl; auto. f_equal. rewrite <- seq_shift, map_map. exact IH.
Qed.

Lemma map_add_seq pos n : map (fun j => pos + j) (seq 0 n) = seq pos n.
Proof.
  revert pos; induction n as [|n IH]; intros pos; simpl; auto.
  rewrite Nat.add_0_r. f_equal. rewrite <- seq_shift, map_map. rewrite <- (IH (S pos)).
  apply map_ext. intros; lia.
Qed.

Lemma nelems_app {A} (a b : @data A) : nelems (a ++ b) = nelems a + nelems b.
Proof. unfold nelems. rewrite elems_app, app_length. auto. Qed.

Section View.
Context {A : Type}.
Implicit Types (d : @data A) (v : list vindex).

(* the constructor loops, started behind the batches [pre] *)
Lemma view_batches_spec d : forall pre,
  map (view_get (pre ++ d)) (view_batches d (length pre) (nelems pre)) = map Some (elems d) /\
  map vi_dataset_index (view_batches d (length pre) (nelems pre)) = seq (nelems pre) (nelems d).
Proof.
  induction d as [|x r IH]; intros pre; simpl; [auto|].
  rewrite !map_app, !map_map. cbn [vi_dataset_index snd].
  specialize (IH (pre ++ [x])). rewrite app_length, nelems_app in IH. simpl in IH.
  replace (nelems [x]) with (length x) in IH by (unfold nelems, elems; simpl; rewrite app_nil_r; auto).
  rewrite Nat.add_1_r, <- app_assoc in IH. simpl in IH. destruct IH as [I1 I2].
  unfold vindex in *. split.
  - f_equal; [|exact I1].
    rewrite <- map_nth_error_seq. apply map_ext. intros j. simpl.
    rewrite nth_middle. reflexivity.
  - rewrite I2. rewrite map_add_seq.
    replace (nelems (x :: r)) with (length x + nelems r) by (unfold nelems, elems; simpl; rewrite app_length; auto).
    symmetry. apply seq_app.
Qed.

(* DataView(dataset): position p holds element p of the batch sequence and reports index p *)
Theorem view_of_spec d :
  map (view_get d) (view_of d) = map Some (elems d) /\
  map vi_dataset_index (view_of d) = seq 0 (nelems d).
Proof. exact (view_batches_spec d []). Qed.

Lemma view_of_length d : length (view_of d) = nelems d.
Proof.
  destruct (view_of_spec d) as [_ H]. apply (f_equal (@length nat)) in H.
  rewrite map_length, seq_length in H. exact H.
Qed.

(* a view entry is sound when it addresses the element whose dataset index it reports *)
Definition view_wf d v : Prop :=
  Forall (fun e => view_get d e = nth_error (elems d) (vi_dataset_index e) /\ vi_dataset_index e < nelems d) v.

Lemma wf_from_maps {E} (f : E -> option A) (g : E -> nat) l : forall xs0 xs,
  map f l = map Some xs -> map g l = seq (length xs0) (length xs) ->
  Forall (fun e => f e = nth_error (xs0 ++ xs) (g e) /\ g e < length (xs0 ++ xs)) l.
Proof.
  induction l as [|e l IH]; intros xs0 xs Hf Hg; [constructor|].
  destruct xs as [|a xs]; [discriminate|]. simpl in Hf, Hg. injection Hf as Hf1 Hf2. injection Hg as Hg1 Hg2.
  constructor.
  - rewrite Hf1, Hg1. rewrite nth_error_app2, Nat.sub_diag by lia. split; auto. rewrite app_length. simpl. lia.
  - specialize (IH (xs0 ++ [a]) xs Hf2). rewrite app_length in IH. simpl in IH. rewrite Nat.add_1_r in IH.
    specialize (IH Hg2). rewrite <- app_assoc in IH. exact IH.
Qed.

Theorem view_of_wf d : view_wf d (view_of d).
Proof.
  destruct (view_of_spec d) as [H1 H2]. exact (wf_from_maps _ _ _ [] (elems d) H1 H2).
Qed.

(* subset(view, indices) *)
Theorem view_subset_spec d v idx v' :
  view_wf d v -> view_subset v idx = Some v' ->
  view_wf d v' /\ length v' = length idx /\
  map vi_dataset_index v' = map (fun i => vi_dataset_index (nth i v (0, 0, 0))) idx.
Proof.
  unfold view_subset. intros W. destruct (forallb _ idx) eqn:F; [|discriminate]. intros [= <-].
  rewrite forallb_forall in F. split; [|split].
  - unfold view_wf in *. rewrite Forall_forall in *. intros e He. apply in_map_iff in He.
    destruct He as (i & <- & Hi). apply W. apply nth_In. apply Nat.ltb_lt. auto.
  - apply map_length.
  - apply map_map.
Qed.

(* a subset of a subset is the subset by the composed index vector *)
Theorem view_subset_compose v i1 i2 v1 v2 :
  view_subset v i1 = Some v1 -> view_subset v1 i2 = Some v2 ->
  view_subset v (map (fun j => nth j i1 0) i2) = Some v2.
Proof.
  unfold view_subset. destruct (forallb _ i1) eqn:F1; [|discriminate]. intros [= <-].
  rewrite map_length. destruct (forallb _ i2) eqn:F2; [|discriminate]. intros [= <-].
  rewrite forallb_forall in F1, F2.
  assert (forallb (fun i => i <? length v) (map (fun j => nth j i1 0) i2) = true) as ->.
  { apply forallb_forall. intros i Hi. apply in_map_iff in Hi. destruct Hi as (j & <- & Hj).
    apply F1. apply nth_In. apply Nat.ltb_lt. auto. }
  f_equal. rewrite map_map. apply map_ext_in. intros j Hj. apply F2, Nat.ltb_lt in Hj.
  symmetry. rewrite nth_indep with (d' := nth 0 v (0, 0, 0)) by (rewrite map_length; auto).
  apply (map_nth (fun i => nth i v (0, 0, 0))).
Qed.

Lemma all_some_wf dflt d v :
  view_wf d v ->
  all_some (map (view_get d) v) = Some (map (fun e => nth (vi_dataset_index e) (elems d) dflt) v).
Proof.
  induction 1 as [|e v [H1 H2] F IH]; simpl; auto.
  rewrite H1, (nth_error_nth' _ dflt H2), IH. reflexivity.
Qed.

End View.

(* SharedContainer::initializeBatches *)
Lemma sum_repeat x k : sum (repeat x k) = k * x.
Proof. induction k; simpl; auto. Qed.

Theorem init_sizes_spec n bs :
  0 < n -> sum (init_sizes n bs) = n /\ (forall s, In s (init_sizes n bs) -> 1 <= s /\ (0 < bs -> s <= bs)).
Proof.
  intros Hn. unfold init_sizes. destruct ((bs =? 0) || (n <? bs)) eqn:E.
  - simpl. split; [lia|]. intros s [<-|[]]. split; auto. intros Hb.
    apply orb_prop in E. destruct E as [E|E]; [apply Nat.eqb_eq in E; lia|apply Nat.ltb_lt in E; lia].
  - apply orb_false_elim in E. destruct E as [E1 E2]. apply Nat.eqb_neq in E1. apply Nat.ltb_ge in E2.
    fold (ceil_div n bs). destruct (ceil_div_bounds n bs ltac:(lia) Hn) as (B1 & B2 & B3).
    set (b := ceil_div n bs) in *. split.
    + rewrite sum_app, sum_repeat. simpl. nia.
    + intros s Hs. apply in_app_or in Hs. destruct Hs as [Hs|[<-|[]]].
      * apply repeat_spec in Hs. subst. lia.
      * nia.
Qed.

Section ToDataset.
Context {A : Type}.

(* toDataset(view, batchSize): the view's elements in view order, in batches of at most batchSize *)
Theorem to_dataset_spec (dflt : A) (d : @data A) v bs :
  view_wf d v ->
  exists d', to_dataset d v bs = Some d' /\
    elems d' = map (fun e => nth (vi_dataset_index e) (elems d) dflt) v /\
    sum (sizes d') = length v /\
    (v <> [] -> sizes d' = init_sizes (length v) bs) /\
    (forall s, In s (sizes d') -> 1 <= s /\ (0 < bs -> s <= bs)).
Proof.
  intros W. unfold to_dataset. destruct v as [|e v'] eqn:Ev.
  { exists []. simpl. repeat split; auto; try contradiction. }
  rewrite <- Ev in *. rewrite (all_some_wf dflt d v W).
  set (l := map _ v).
  assert (Hl : length l = length v) by (unfold l; apply map_length).
  assert (Hv : 0 < length v) by (rewrite Ev; simpl; lia).
  destruct (init_sizes_spec (length v) bs Hv) as [S1 S2].
  eexists. split; [reflexivity|]. split; [apply chunk_elems_all; lia|].
  rewrite chunk_sizes by lia. repeat split; auto; apply S2; auto.
Qed.

(* the index-based model of toDataset(subset(view, idx), bs) used since the first version of this check
   is the composition of the three view operations *)
Theorem view_to_dataset_is_composition (dflt : A) idx bs (d : @data A) :
  view_to_dataset dflt idx bs d =
  match view_subset (view_of d) idx with Some v => to_dataset d v bs | None => None end.
Proof.
  unfold view_to_dataset, view_subset. rewrite view_of_length.
  destruct (forallb _ idx) eqn:F; [|reflexivity].
  destruct idx as [|i0 idx'] eqn:Ei; [reflexivity|]. rewrite <- Ei in *.
  assert (W : view_wf d (map (fun i => nth i (view_of d) (0, 0, 0)) idx)).
  { assert (view_subset (view_of d) idx = Some (map (fun i => nth i (view_of d) (0, 0, 0)) idx)) as HS.
    { unfold view_subset. rewrite view_of_length, F. reflexivity. }
    exact (proj1 (view_subset_spec d _ _ _ (view_of_wf d) HS)). }
  unfold to_dataset. rewrite (all_some_wf dflt d _ W).
  assert (map (fun i => nth i (view_of d) (0, 0, 0)) idx <> []) as Hne by (rewrite Ei; discriminate).
  destruct (map (fun i => nth i (view_of d) (0, 0, 0)) idx) as [|e0 vv] eqn:Em; [congruence|].
  rewrite <- Em. rewrite !map_length. f_equal. f_equal.
  rewrite map_map. apply map_ext_in. intros i Hi.
  rewrite forallb_forall in F. apply F, Nat.ltb_lt in Hi.
  destruct (view_of_spec d) as [_ H2].
  assert (vi_dataset_index (nth i (view_of d) (0, 0, 0)) = i) as ->; [|reflexivity].
  rewrite <- (map_nth vi_dataset_index). rewrite H2. cbn [vi_dataset_index snd]. rewrite seq_nth; auto.
Qed.

End ToDataset.
