(* C08 — The SVM decomposition solver keeps its dual state consistent and never loses objective.
   Only statements + `exact`; proofs in C08Proofs.v / C08ProofsBox.v, executable model in C08Model.v,
   exact (Q) instantiation and invariant definitions in C08Defs.v.

   PROVED here (model of the code, exact arithmetic, every size n, every kernel matrix K0 that is
   symmetric, every state, every working set):
     * one SvmProblem::updateSMO step (Newton step along e_i - e_j with the 1e-12 floor, the clipping
       branches, early return, gradient update over the active set, flag update) keeps
       g = lin - K alpha on the active set, the box, sum(alpha), the bound flags, leaves every other
       variable, the permutation and the data alone, and does not decrease the dual objective when
       g_i >= g_j (floor included; no definiteness assumption is needed for this direction);
     * one BoxConstrainedProblem::updateSMO step (both the single-variable and the two-variable form) keeps
       the same invariants and does not decrease the objective, for every symmetric K with non-negative diagonal;
     * by induction over ALL operation histories of the solver without shrinking, for both problem types:
       invariants + monotone objective;
     * the analytic sub-solvers of the box-constrained problem: results stay in the box, the 1-D
       solver (as repaired: only Q <= 0 counts as flat; finding edge1d:tiny-Q) never loses objective for
       ANY curvature and returns the exact maximiser on the interval when Q > 0; the 2-D solver, as repaired by /repo commit
       bc5f2886 (finding F3: relative rank test, current point kept when no edge improves), never loses
       objective for ANY point in the box, gradient and 2x2 block with non-negative diagonal
       (C08_box2d_gain_nonneg, full statement) and in its edge branch returns a point at least as good as
       every edge candidate (C08_box2d_edges_best).
     * shrinking: a variable removed by testShrinkVariable admits no improving feasible first-order step
       at that moment (both problem types); unshrink() restores g = lin - K alpha for ALL variables
       from the edge gradient (given Inv_edge, Inv_grad on the active set, shrunk variables at a bound).
     * updateGradientEdge keeps the edge gradient = lin - K (alpha at bounds) over every SMO step of both kinds
       (C08_smo_step_keeps_edge); flipCoordinates keeps every invariant, the objective and alpha as a function
       of the ORIGINAL index (C08_flip_preserves); the shrink loop incl. the one-time unshrink (C08_shrink_preserves)
       and unshrink (C08_unshrink_preserves) keep the full invariant and do not move any variable;
     * C08_every_history (FULL statement): for both problem kinds, with and without shrinking, every operation
       history the solver loop can produce (SMO steps on working sets inside the active set, shrink calls with
       any eps, unshrink calls, in any order) preserves the full invariant (gradient on the active set, box,
       flags, shrunk variables at a bound, edge gradient, permutation, per-variable data travelling with the
       variable), never decreases the objective, preserves sum(alpha) for the equality-constrained problem and
       leaves every variable outside the working sets unchanged.
     * (extension, C08Reshrink.v / C08ReshrinkProofs.v) the composite inside shrink() - unshrink(); recompute largestUp /
       smallestDown over ALL variables; run the shrink loop again - removes only variables that cannot improve the
       objective in the state after the unshrink: each removed position carries the row (original index, alpha, gradient,
       box, flags) of a variable of the un-shrunk state that sits at a bound and has no feasible first-order ascent
       direction, with the maintained AND with the true gradient lin - K alpha (C08_reshrink_removes_only_unimprovable,
       C08_shrink_unshrink_branch_sound, C08_shrink_loop_removes_only_tested); a step of any length along such a pair does
       not raise the objective when the curvature along it is non-negative (C08_removed_pair_step_no_gain).
       C08_reshrink_stale_refuted: WITHOUT the recomputation (seeded change C08-5) a concrete consistent state exists where
       the composite removes a variable that can improve the objective by 1/4, and the as-coded composite keeps it.
     * (extension, C08Mutators.v / C08MutatorsProofs.v) the public mutators a caller may use between two solves of the
       same object keep the state invariant Inv_core incl. the edge-gradient relation: setLinear (C08_setLinear_preserves_inv,
       and the linear term seen through the ORIGINAL index changes for exactly that variable: C08_setLinear_data),
       activateVariable, flipCoordinates, scaleBoxConstraints (equal factors; different factors under the stated
       preconditions), setInitialSolution(alpha) on an object with identity permutation; hence every history interleaving
       updateSMO / shrink / unshrink with mutator calls keeps Inv_core (C08_every_history_with_mutators; between two
       mutator calls the solver segment is a history of C08_every_history: C08_history_solver_segment).
       Refuted variants: C08_setLinear_read_after_write_refuted (seeded change C08-6 breaks Inv_edge),
       C08_setInitialSolution_permuted_refuted (LATENT DEFECT of /repo: setInitialSolution(alpha) on an object whose
       variables were permuted by an earlier solve indexes matrix rows by position but alpha by original index).
   NOT modelled: setShrinking (m_shrink is a parameter of the model; setShrinking(true) after steps taken with m_shrink =
   false leaves the edge gradient stale - latent defect of /repo, see tools/c08.py LATENT_KEYS), the three-argument
   setInitialSolution, deactivateVariable of the shrinking strategy (the member does not compile).
   COMPARED / MONITORED on every run (tools/c08.py), not proved: the float instantiation of the same
   model (step, mstep, reshrink) agrees with the real solver step by step, on the mutator calls of the object-history
   stream and on every shrink event of the long stream; invariants re-evaluated on the implementation's
   snapshots with an independent kernel matrix; SHRINK-EVENT MONITOR (every variable removed by a shrink() call is at a
   bound and has no feasible first-order ascent direction w.r.t. the true gradient and the KKT bounds of the variables
   the decision was taken on); reused object vs fresh object built from the modified data; float drift. *)
From Coq Require Import QArith List.
From SharkV Require Import C08Model C08Defs C08Aux C07Proofs C08Proofs C08ProofsBox C08ProofsBoxStep C08ProofsShrink C08ProofsEdge C08ProofsFlip C08ProofsHist.
From SharkV Require Import C08Reshrink C08ReshrinkProofs C08Mutators C08MutatorsProofs.
Import ListNotations.
Open Scope Q_scope.

Theorem C08_smo_step_keeps_invariants_and_objective :
  forall (n : nat) (K0 : nat -> nat -> Q), Ksym K0 ->
  forall (s : qst) (i j : nat),
  (i < active s)%nat -> (j < active s)%nat -> (active s <= n)%nat -> i <> j ->
  Inv_grad n K0 s -> Inv_box n s -> Inv_flags n s -> grad s j <= grad s i ->
  let s' := svm_update qops K0 s i j in
  Inv_grad n K0 s' /\ Inv_box n s' /\ Inv_flags n s' /\
  sumn n (alpha s') == sumn n (alpha s) /\
  obj n K0 s <= obj n K0 s' /\
  (forall a, a <> i -> a <> j -> alpha s' a = alpha s a) /\
  lin s' = lin s /\ lo s' = lo s /\ hi s' = hi s /\ perm s' = perm s /\ active s' = active s /\
  unshr s' = unshr s /\ gedge s' = gedge s /\ (forall a, ~ (a < active s)%nat -> grad s' a = grad s a).
Proof. exact svm_update_preserves. Qed.
Print Assumptions C08_smo_step_keeps_invariants_and_objective.

(* every history of updateSMO / shrink / unshrink calls of the solver with shrinking switched off,
   from any consistent start (cold or warm): invariants, equality constraint, monotone objective *)
Theorem C08_every_history_noshrink :
  forall (n : nat) (K0 : nat -> nat -> Q), Ksym K0 ->
  forall (ops : list (op Q)) (s : qst),
  Inv_noshrink n K0 s -> wf_run n K0 true false s ops ->
  let s' := runQ n K0 true false s ops in
  Inv_noshrink n K0 s' /\ sumn n (alpha s') == sumn n (alpha s) /\ obj n K0 s <= obj n K0 s' /\
  lin s' = lin s /\ lo s' = lo s /\ hi s' = hi s /\ perm s' = perm s.
Proof. exact run_noshrink. Qed.
Print Assumptions C08_every_history_noshrink.

(* full statement for the 1-D sub-solver (as repaired: only Q <= 0 is treated as flat): from any point of
   the interval, for every gradient and EVERY curvature, the result stays in the interval and the objective
   does not decrease; for Q > 0 the result is the exact maximiser on the interval. *)
Theorem C08_edge_solver_in_box_and_gain :
  forall a g Q L U : QArith_base.Q, L <= a -> a <= U ->
  (L <= solve_edge qops a g Q L U /\ solve_edge qops a g Q L U <= U) /\
  0 <= gain1 g Q (solve_edge qops a g Q L U - a) /\
  (0 < Q -> forall x, L <= x -> x <= U -> gain1 g Q (x - a) <= gain1 g Q (solve_edge qops a g Q L U - a)).
Proof.
  intros a g Q L U H1 H2. split; [|split].
  - apply solve_edge_in_box. apply Qle_trans with a; assumption.
  - apply solve_edge_gain_nonneg_all; assumption.
  - intros HQ. apply solve_edge_optimal; assumption.
Qed.
Print Assumptions C08_edge_solver_in_box_and_gain.

(* regression: the former test Q < 1e-12 lost objective for 0 < Q < 1e-12 (finding edge1d:tiny-Q, repaired) *)
Theorem C08_edge_solver_old_threshold_refuted : exists a g Q L U : QArith_base.Q,
  L <= a /\ a <= U /\ 0 < Q /\ Q < qthr /\
  gain1 g Q (old_solve_edge a g Q L U - a) < 0 /\ 0 <= gain1 g Q (solve_edge qops a g Q L U - a).
Proof. exact solve_edge_old_threshold_refuted. Qed.
Print Assumptions C08_edge_solver_old_threshold_refuted.

Theorem C08_box2d_in_box : forall ai aj gi gj Qii Qij Qjj Li Ui Lj Uj : QArith_base.Q,
  Li <= Ui -> Lj <= Uj ->
  let r := solve_2d qops ai aj gi gj Qii Qij Qjj Li Ui Lj Uj in
  Li <= fst r /\ fst r <= Ui /\ Lj <= snd r /\ snd r <= Uj.
Proof. exact solve_2d_in_box. Qed.
Print Assumptions C08_box2d_in_box.

(* full statement: every point in the box, every gradient, every block with non-negative diagonal
   (hence every positive semi-definite block): the 2-D step never loses objective.  (False before /repo
   commit bc5f2886, finding F3; regression examples box2d_F3_witness_repaired / box2d_keep_point.) *)
Theorem C08_box2d_gain_nonneg : forall ai aj gi gj Qii Qij Qjj Li Ui Lj Uj : QArith_base.Q,
  Li <= ai -> ai <= Ui -> Lj <= aj -> aj <= Uj -> 0 <= Qii -> 0 <= Qjj ->
  let r := solve_2d qops ai aj gi gj Qii Qij Qjj Li Ui Lj Uj in
  0 <= gain2 qops gi gj Qii Qij Qjj (fst r - ai) (snd r - aj).
Proof. exact box2d_gain_nonneg. Qed.
Print Assumptions C08_box2d_gain_nonneg.

Theorem C08_box2d_edges_best : forall ai aj gi gj Qii Qij Qjj Li Ui Lj Uj : QArith_base.Q,
  Li <= ai -> ai <= Ui -> Lj <= aj -> aj <= Uj ->
  ~ free2d ai aj gi gj Qii Qij Qjj Li Ui Lj Uj ->
  let G := fun c : QArith_base.Q * QArith_base.Q =>
             gain2 qops gi gj Qii Qij Qjj (fst c - ai) (snd c - aj) in
  let r := solve_2d qops ai aj gi gj Qii Qij Qjj Li Ui Lj Uj in
  forall c, In c (edges2d qops ai aj gi gj Qii Qij Qjj Li Ui Lj Uj) -> G c <= G r.
Proof. exact box2d_edges_best. Qed.
Print Assumptions C08_box2d_edges_best.

(* one BoxConstrainedProblem::updateSMO step (i = j: solveQuadraticEdge; i <> j: solveQuadratic2DBox; gradient
   update over the active set; flags): for every symmetric K with non-negative diagonal, every consistent
   state and every working set inside the active set *)
Theorem C08_box_step_keeps_invariants_and_objective :
  forall (n : nat) (K0 : nat -> nat -> Q), Ksym K0 -> (forall p, 0 <= K0 p p) ->
  forall (s : qst) (i j : nat),
  (i < active s)%nat -> (j < active s)%nat -> (active s <= n)%nat ->
  Inv_grad n K0 s -> Inv_box n s -> Inv_flags n s ->
  let s' := box_update qops K0 s i j in
  Inv_grad n K0 s' /\ Inv_box n s' /\ Inv_flags n s' /\
  obj n K0 s <= obj n K0 s' /\
  (forall a, a <> i -> a <> j -> alpha s' a = alpha s a) /\
  lin s' = lin s /\ lo s' = lo s /\ hi s' = hi s /\ perm s' = perm s /\ active s' = active s /\
  unshr s' = unshr s /\ gedge s' = gedge s /\ (forall a, ~ (a < active s)%nat -> grad s' a = grad s a).
Proof. exact box_update_preserves. Qed.
Print Assumptions C08_box_step_keeps_invariants_and_objective.

(* every history of the box-constrained solver with shrinking switched off *)
Theorem C08_every_history_noshrink_box :
  forall (n : nat) (K0 : nat -> nat -> Q), Ksym K0 -> (forall p, 0 <= K0 p p) ->
  forall (ops : list (op Q)) (s : qst),
  Inv_noshrink n K0 s -> wf_run_box n K0 s ops ->
  let s' := runQ n K0 false false s ops in
  Inv_noshrink n K0 s' /\ obj n K0 s <= obj n K0 s' /\
  lin s' = lin s /\ lo s' = lo s /\ hi s' = hi s /\ perm s' = perm s.
Proof. exact run_noshrink_box. Qed.
Print Assumptions C08_every_history_noshrink_box.

(* a variable removed by the shrink test cannot take part in an improving feasible step *)
Theorem C08_shrink_sound_svm : forall (s : qst) (m a : nat),
  test_shrink qops true s a (largest_up qops s m) (smallest_down qops s m) = true ->
  (fl s a = true /\ forall d, (d < m)%nat -> fl s d = false -> grad s a - grad s d < 0) \/
  (fu s a = true /\ forall u, (u < m)%nat -> fu s u = false -> grad s u - grad s a < 0).
Proof. exact shrink_sound_svm. Qed.
Print Assumptions C08_shrink_sound_svm.

Theorem C08_shrink_sound_box : forall (s : qst) (a : nat) (lu sd : Q),
  test_shrink qops false s a lu sd = true ->
  (fl s a = true /\ grad s a < 0) \/ (fu s a = true /\ 0 < grad s a).
Proof. exact shrink_sound_box. Qed.
Print Assumptions C08_shrink_sound_box.

Theorem C08_unshrink_restores : forall (n : nat) (K0 : nat -> nat -> Q), Ksym K0 ->
  forall s : qst, Inv_grad n K0 s -> Inv_edge n K0 s -> Inv_shrunk n s ->
  let s' := unshrink qops n K0 s in
  Inv_grad_all n K0 s' /\ active s' = n /\ alpha s' = alpha s /\ perm s' = perm s /\
  lin s' = lin s /\ lo s' = lo s /\ hi s' = hi s /\ fl s' = fl s /\ fu s' = fu s /\ gedge s' = gedge s.
Proof. exact unshrink_restores. Qed.
Print Assumptions C08_unshrink_restores.

(* updateGradientEdge keeps the edge gradient consistent over one updateSMO (both kinds; i = j for the box kind) *)
Theorem C08_smo_step_keeps_edge :
  forall (n : nat) (K0 : nat -> nat -> Q), Ksym K0 ->
  forall (kind : bool) (s : qst) (i j : nat), Kok K0 kind ->
  (i < n)%nat -> (j < n)%nat -> wf_pair kind s i j ->
  Inv_edge n K0 s -> Inv_flags n s -> Inv_box n s ->
  Inv_edge n K0 (smo_step qops n K0 kind true s i j).
Proof. exact smo_step_keeps_edge. Qed.
Print Assumptions C08_smo_step_keeps_edge.

Theorem C08_flip_preserves :
  forall (n : nat) (K0 : nat -> nat -> Q) (s : qst) (i j : nat), (i < n)%nat -> (j < n)%nat ->
  let s' := flip s i j in
  (Inv_box n s -> Inv_box n s') /\ (Inv_flags n s -> Inv_flags n s') /\ (Inv_edge n K0 s -> Inv_edge n K0 s') /\
  (Inv_perm n s -> Inv_perm n s') /\ (forall lin0 lo0 hi0, Inv_data n lin0 lo0 hi0 s -> Inv_data n lin0 lo0 hi0 s') /\
  obj n K0 s' == obj n K0 s /\ sumn n (alpha s') == sumn n (alpha s) /\ (forall p, oalpha n s' p == oalpha n s p) /\
  ((i < active s)%nat -> (j < active s)%nat -> Inv_grad n K0 s -> Inv_grad n K0 s') /\
  active s' = active s /\ unshr s' = unshr s.
Proof. exact flip_preserves. Qed.
Print Assumptions C08_flip_preserves.

Theorem C08_shrink_preserves :
  forall (n : nat) (K0 : nat -> nat -> Q), Ksym K0 ->
  forall (kind : bool) (eps : Q) (s : qst), Inv_core n K0 true s ->
  let s' := shrink qops n K0 kind true eps s in
  Inv_core n K0 true s' /\ same_vars n K0 s s'.
Proof. exact shrink_preserves. Qed.
Print Assumptions C08_shrink_preserves.

Theorem C08_unshrink_preserves :
  forall (n : nat) (K0 : nat -> nat -> Q), Ksym K0 ->
  forall s : qst, Inv_core n K0 true s ->
  let u := unshrink qops n K0 s in
  Inv_core n K0 true u /\ Inv_grad_all n K0 u /\ same_vars n K0 s u /\ active u = n /\
  alpha u = alpha s /\ perm u = perm s /\ lin u = lin s /\ lo u = lo s /\ hi u = hi s /\
  fl u = fl s /\ fu u = fu s /\ gedge u = gedge s.
Proof. exact unshrink_preserves. Qed.
Print Assumptions C08_unshrink_preserves.

(* the full statement: every history, with or without shrinking, both problem kinds *)
Theorem C08_every_history :
  forall (n : nat) (K0 : nat -> nat -> Q), Ksym K0 ->
  forall kind : bool, Kok K0 kind ->
  forall (shr : bool) (lin0 lo0 hi0 : nat -> Q) (ops : list (op Q)) (s : qst),
  Inv_full n K0 shr lin0 lo0 hi0 s -> wf_runF n K0 kind shr s ops ->
  let s' := runQ n K0 kind shr s ops in
  Inv_full n K0 shr lin0 lo0 hi0 s' /\ obj n K0 s <= obj n K0 s' /\
  (kind = true -> sumn n (alpha s') == sumn n (alpha s)) /\
  (forall p, untouched n K0 kind p shr s ops -> oalpha n s' p == oalpha n s p).
Proof. exact run_full. Qed.
Print Assumptions C08_every_history.

Theorem C08_every_history_core :
  forall (n : nat) (K0 : nat -> nat -> Q), Ksym K0 ->
  forall kind : bool, Kok K0 kind ->
  forall (shr : bool) (ops : list (op Q)) (s : qst),
  Inv_core n K0 shr s -> wf_runF n K0 kind shr s ops ->
  let s' := runQ n K0 kind shr s ops in
  Inv_core n K0 shr s' /\ obj n K0 s <= obj n K0 s' /\
  (kind = true -> sumn n (alpha s') == sumn n (alpha s)) /\
  (Inv_perm n s -> Inv_perm n s') /\
  (forall lin0 lo0 hi0, Inv_data n lin0 lo0 hi0 s -> Inv_data n lin0 lo0 hi0 s') /\
  (forall p, untouched n K0 kind p shr s ops -> oalpha n s' p == oalpha n s p) /\
  frozen shr s s'.
Proof. exact run_core. Qed.
Print Assumptions C08_every_history_core.

(* ======================= extension: the un-shrink-and-re-shrink composite of shrink() ======================= *)

(* what the shrink loop removes: every position behind the new active-set size holds the row of a variable that was
   already shrunk or of one (among the visited positions) for which testShrinkVariable fired with the given bounds *)
Theorem C08_shrink_loop_removes_only_tested :
  forall (n : nat) (kind : bool) (lu sd : Q) (a : nat) (s : qst),
  (a <= active s)%nat -> (active s <= n)%nat ->
  let s' := shrink_loop qops kind lu sd a s in
  forall p : nat, (active s' <= p < n)%nat ->
  (exists b : nat, (active s <= b < n)%nat /\ row s' p = row s b) \/
  (exists b : nat, (b < a)%nat /\ test_shrink qops kind s b lu sd = true /\ row s' p = row s b).
Proof. exact shrink_loop_removed. Qed.
Print Assumptions C08_shrink_loop_removes_only_tested.

(* unshrink(); getMaxKKTViolations(.., dimensions()); shrink loop: every removed variable cannot improve the objective
   w.r.t. the state AFTER the unshrink (recomputed bounds), with the maintained and with the true gradient *)
Theorem C08_reshrink_removes_only_unimprovable :
  forall (n : nat) (K0 : nat -> nat -> Q), Ksym K0 ->
  forall (kind : bool) (s : qst), Inv_core n K0 true s ->
  let u := unshrink qops n K0 s in
  let s' := reshrink qops n K0 kind s in
  Inv_core n K0 true u /\ Inv_grad_all n K0 u /\ active u = n /\
  Inv_core n K0 true s' /\ same_vars n K0 s s' /\
  (forall p : nat, (active s' <= p < n)%nat ->
   exists b : nat, (b < n)%nat /\ row s' p = row u b /\
     cannot_improve_with n (grad u) kind u b /\ cannot_improve_with n (true_grad n K0 u) kind u b).
Proof. exact reshrink_sound. Qed.
Print Assumptions C08_reshrink_removes_only_unimprovable.

Theorem C08_shrink_unshrink_branch_sound :
  forall (n : nat) (K0 : nat -> nat -> Q), Ksym K0 ->
  forall (kind : bool) (eps : Q) (s : qst), Inv_core n K0 true s -> reshrink_due qops eps s = true ->
  let u := unshrink qops n K0 s in
  let s' := shrink qops n K0 kind true eps s in
  forall p : nat, (active s' <= p < n)%nat ->
  exists b : nat, (b < n)%nat /\ row s' p = row u b /\ cannot_improve_with n (true_grad n K0 u) kind u b.
Proof. exact shrink_reshrink_sound. Qed.
Print Assumptions C08_shrink_unshrink_branch_sound.

Theorem C08_removed_pair_step_no_gain :
  forall (n : nat) (K0 : nat -> nat -> Q), Ksym K0 ->
  forall (u : qst) (b d : nat) (t : Q), (b < n)%nat -> (d < n)%nat -> 0 <= t ->
  0 <= Kq K0 u b b + Kq K0 u d d - 2 * Kq K0 u b d ->
  true_grad n K0 u b - true_grad n K0 u d <= 0 ->
  objf n (Kq K0 u) (lin u) (two_pt (alpha u) b d t (- t)) <= objf n (Kq K0 u) (lin u) (alpha u).
Proof. exact pair_step_no_gain. Qed.
Print Assumptions C08_removed_pair_step_no_gain.

(* seeded change C08-5: with the bounds of the old active subset the composite removes a variable that CAN improve *)
Theorem C08_reshrink_stale_refuted :
  exists (n : nat) (K0 : nat -> nat -> Q) (s : qst) (eps : Q),
    Ksym K0 /\ (forall p q, 0 <= K0 p p + K0 q q - 2 * K0 p q) /\
    Inv_full n K0 true (lin s) (lo s) (hi s) s /\ reshrink_due qops eps s = true /\
    let u := unshrink qops n K0 s in
    let bad := reshrink_stale qops n K0 true s in
    let good := reshrink qops n K0 true s in
    exists p b d, (active bad <= p < n)%nat /\ (b < n)%nat /\ (d < n)%nat /\ row bad p = row u b /\
      fl u b = true /\ fu u b = false /\ fl u d = false /\
      0 < true_grad n K0 u b - true_grad n K0 u d /\
      obj n K0 u < objf n (Kq K0 u) (lin u) (two_pt (alpha u) b d (1 # 2) (- (1 # 2))) /\
      (forall a, (a < n)%nat -> lo u a <= two_pt (alpha u) b d (1 # 2) (- (1 # 2)) a <= hi u a) /\
      (exists q, (q < active good)%nat /\ perm good q = perm u b).
Proof. exact reshrink_stale_refuted. Qed.
Print Assumptions C08_reshrink_stale_refuted.

(* ======================= extension: mutators between two solves of the same object ======================= *)

Theorem C08_setLinear_preserves_inv :
  forall (n : nat) (K0 : nat -> nat -> Q) (s : qst) (i : nat) (v : Q) (shr : bool),
  Inv_core n K0 shr s -> Inv_core n K0 shr (set_linear qops s i v).
Proof. exact set_linear_preserves_inv. Qed.
Print Assumptions C08_setLinear_preserves_inv.

Theorem C08_setLinear_data :
  forall (n : nat) (s : qst) (i : nat) (v : Q) (lin0 lo0 hi0 : nat -> Q),
  (i < n)%nat -> Inv_perm n s -> Inv_data n lin0 lo0 hi0 s ->
  Inv_perm n (set_linear qops s i v) /\ Inv_data n (updf lin0 (perm s i) v) lo0 hi0 (set_linear qops s i v).
Proof. exact set_linear_data. Qed.
Print Assumptions C08_setLinear_data.

Theorem C08_activateVariable_preserves_inv :
  forall (n : nat) (K0 : nat -> nat -> Q) (shr : bool) (s : qst) (i : nat),
  Inv_core n K0 shr s -> Inv_core n K0 shr (activate_variable qops s i).
Proof. exact activate_preserves_inv. Qed.
Print Assumptions C08_activateVariable_preserves_inv.

Theorem C08_flipCoordinates_preserves_inv :
  forall (n : nat) (K0 : nat -> nat -> Q) (shr : bool) (s : qst) (i j : nat),
  (i < active s)%nat -> (j < active s)%nat -> Inv_core n K0 shr s -> Inv_core n K0 shr (flip s i j).
Proof. exact mflip_preserves_inv. Qed.
Print Assumptions C08_flipCoordinates_preserves_inv.

Theorem C08_scaleBoxConstraints_same_preserves_inv :
  forall (n : nat) (K0 : nat -> nat -> Q) (s : qst) (cp cn f v : Q),
  (forall a : nat, (a < n)%nat -> deact s a = false) -> f == v -> 0 < f ->
  Inv_core n K0 true s -> Inv_core n K0 true (scale_box qops n s cp cn f v).
Proof. exact scale_box_same_preserves_inv. Qed.
Print Assumptions C08_scaleBoxConstraints_same_preserves_inv.

Theorem C08_scaleBoxConstraints_diff_preserves_inv :
  forall (n : nat) (K0 : nat -> nat -> Q) (s : qst) (cp cn f v : Q),
  (forall a : nat, (a < n)%nat -> deact s a = false) -> ~ f == v ->
  (forall a : nat, (a < n)%nat -> lo s a * f <= alpha s a * v <= hi s a * f) ->
  (forall a : nat, (a < n)%nat -> alpha s a * v == lo s a * f \/ alpha s a * v == hi s a * f -> alpha s a * v == 0) ->
  active s = n -> Inv_core n K0 true s -> Inv_core n K0 true (scale_box qops n s cp cn f v).
Proof. exact scale_box_diff_preserves_inv. Qed.
Print Assumptions C08_scaleBoxConstraints_diff_preserves_inv.

Theorem C08_setInitialSolution_preserves_inv :
  forall (n : nat) (K0 : nat -> nat -> Q), Ksym K0 ->
  forall (s : qst) (arg : nat -> Q),
  (forall a : nat, (a < n)%nat -> perm s a = a) -> (forall a : nat, (a < n)%nat -> deact s a = false) ->
  (forall a : nat, (a < n)%nat -> lo s a <= arg a <= hi s a) -> active s = n ->
  Inv_core n K0 true (set_initial qops n K0 s arg) /\
  (forall a : nat, (a < n)%nat -> alpha (set_initial qops n K0 s arg) a = arg a).
Proof. exact set_initial_preserves_inv. Qed.
Print Assumptions C08_setInitialSolution_preserves_inv.

(* C08_every_history extended to histories that contain mutator calls (shrinking on, both problem kinds) *)
Theorem C08_every_history_with_mutators :
  forall (n : nat) (K0 : nat -> nat -> Q), Ksym K0 ->
  forall kind : bool, Kok K0 kind ->
  forall (hs : list (hop Q)) (s : qst),
  Inv_core n K0 true s -> wf_hrun n K0 kind s hs -> Inv_core n K0 true (hrun qops n K0 kind true s hs).
Proof. exact hrun_core. Qed.
Print Assumptions C08_every_history_with_mutators.

(* a segment of solver operations inside such a history is a history of C08_every_history (objective, sum, ...) *)
Theorem C08_history_solver_segment :
  forall (n : nat) (K0 : nat -> nat -> Q) (kind : bool) (ops : list (op Q)) (s : qst),
  hrun qops n K0 kind true s (map (@HSolver Q) ops) = runQ n K0 kind true s ops.
Proof. exact hrun_solver. Qed.
Print Assumptions C08_history_solver_segment.

(* seeded change C08-6 (setLinear reads linear(i) after writing it): the edge-gradient relation breaks *)
Theorem C08_setLinear_read_after_write_refuted :
  exists (n : nat) (K0 : nat -> nat -> Q) (s : qst) (i : nat) (v : Q),
    Ksym K0 /\ Inv_core n K0 true s /\ (i < n)%nat /\
    Inv_edge n K0 (set_linear qops s i v) /\ ~ Inv_edge n K0 (set_linear_read_after_write qops s i v).
Proof. exact set_linear_read_after_write_refuted. Qed.
Print Assumptions C08_setLinear_read_after_write_refuted.

(* latent defect of /repo: setInitialSolution(alpha) on an object whose variables are permuted *)
Theorem C08_setInitialSolution_permuted_refuted :
  exists (n : nat) (K0 : nat -> nat -> Q) (s : qst) (arg : nat -> Q),
    Ksym K0 /\ Inv_core n K0 true s /\ Inv_perm n s /\ active s = n /\
    (forall a, (a < n)%nat -> deact s a = false) /\
    (forall a, (a < n)%nat -> lo s a <= arg (perm s a) <= hi s a) /\
    ~ Inv_grad n K0 (set_initial qops n K0 s arg).
Proof. exact set_initial_permuted_refuted. Qed.
Print Assumptions C08_setInitialSolution_permuted_refuted.
