(* C01 — sparse storage and the sparse assignment kernels of remora, vector part.  Definitions only.

   Mirrors, operation by operation and loop by loop,
     include/shark/LinAlg/BLAS/cpu/sparse.hpp            BaseSparseVector<VectorStorage> (compressed_vector):
                                                         sorted index array + value array + nnz + capacity,
                                                         reserve, set_element, clear_range, clear, iterators;
     include/shark/LinAlg/BLAS/kernels/default/vector_assign.hpp
                                                         vector_assign           (dense|sparse <- dense|sparse)
                                                         vector_assign_functor   (dense|sparse <- dense|sparse).
   An iterator of the C++ code is a position into the two arrays; it is a `nat` here.  The arrays behind position
   nnz hold garbage in C++ and are not part of the model (no modelled operation reads them as long as every
   iterator stays in [0, nnz]; the one place where the code as written leaves that range is the last loop of the
   sparse<-sparse functor kernel, see `k_fun_ss` below).

   Values are Z.  A functor F of the C++ kernels is a function f : Z -> Z -> Z together with the boolean
   `rzi` = F::right_zero_identity (declared by add, subtract, multiply_and_add, ...; absent = false).

   Flag `fx`: true = the kernels as they stand now, i.e. after the repairs 88237f8b (D1: last loop of the
   sparse<-sparse functor kernel) and 245464d7 (D2: inserted value of the sparse<-dense functor kernel), both found
   with this model; false = the text of the kernels before these two commits (kept so that the defects stay refuted
   by theorems, like the `fx = false` rule table of C01Opt.v). *)
From Coq Require Import ZArith List Bool Arith Lia.
From SharkV Require Import ListAux.
Import ListNotations.
Open Scope Z_scope.

(* ---------- storage ---------- *)
Record svec := mkSV {
  sv_size : nat;                  (* m_size *)
  sv_cap  : nat;                  (* m_storage.capacity *)
  sv_el   : list (nat * Z)        (* (indices[k], values[k]) for k < nnz *)
}.

Definition sv_nnz (v : svec) : nat := length (sv_el v).
Definition sv_empty (n : nat) : svec := mkSV n 0 [].       (* compressed_vector(size): no buffers yet *)

Definition idx_at (l : list (nat * Z)) (p : nat) : nat := fst (nth p l (0%nat, 0)).   (* it.index() *)
Definition val_at (l : list (nat * Z)) (p : nat) : Z := snd (nth p l (0%nat, 0)).     (* *it *)

Fixpoint lookup (i : nat) (l : list (nat * Z)) : option Z :=
  match l with
  | [] => None
  | (j, x) :: t => if (i =? j)%nat then Some x else lookup i t
  end.

(* abstraction function: the vector a storage stands for; zero where no element is stored *)
Definition sden (v : svec) (i : nat) : Z :=
  match lookup i (sv_el v) with Some x => x | None => 0 end.
Definition stored (v : svec) (i : nat) : bool :=
  match lookup i (sv_el v) with Some _ => true | None => false end.

(* storage invariant: indices strictly increasing and below size, nnz <= capacity *)
Fixpoint sorted_in (lo hi : nat) (l : list (nat * Z)) : Prop :=
  match l with
  | [] => True
  | (i, _) :: t => (lo <= i)%nat /\ (i < hi)%nat /\ sorted_in (S i) hi t
  end.
Definition sv_inv (v : svec) : Prop :=
  sorted_in 0 (sv_size v) (sv_el v) /\ (sv_nnz v <= sv_cap v)%nat.

(* executable version of the invariant (used by the driver as a monitor of the model itself) *)
Fixpoint sorted_inb (lo hi : nat) (l : list (nat * Z)) : bool :=
  match l with
  | [] => true
  | (i, _) :: t => (lo <=? i)%nat && (i <? hi)%nat && sorted_inb (S i) hi t
  end.
Definition sv_invb (v : svec) : bool := sorted_inb 0 (sv_size v) (sv_el v) && (sv_nnz v <=? sv_cap v)%nat.

(* BaseSparseVector::reserve + VectorStorage::reserve *)
Definition sv_reserve (v : svec) (n : nat) : svec :=
  if (n <=? sv_cap v)%nat then v else mkSV (sv_size v) n (sv_el v).

(* *pos = value *)
Definition sv_setval (v : svec) (p : nat) (x : Z) : svec :=
  let l := sv_el v in
  mkSV (sv_size v) (sv_cap v) (firstn p l ++ (idx_at l p, x) :: skipn (S p) l).

(* BaseSparseVector::set_element(pos, index, value): returns the new storage and the iterator behind the element.
   max_nnz_capacity() = min(size, huge) = size. *)
Definition sv_set_element (v : svec) (pos idx : nat) (x : Z) : svec * nat :=
  let l := sv_el v in
  if negb (pos =? length l)%nat && (idx_at l pos =? idx)%nat then
    (sv_setval v pos x, S pos)
  else
    let v1 := if (length l =? sv_cap v)%nat
              then sv_reserve v (Nat.min (Nat.max 5 (2 * sv_cap v)) (sv_size v)) else v in
    (mkSV (sv_size v1) (sv_cap v1) (firstn pos l ++ (idx, x) :: skipn pos l), S pos).

(* clear_range(start, end): the elements behind `end` are copied down to `start` *)
Definition sv_clear_range (v : svec) (a b : nat) : svec :=
  mkSV (sv_size v) (sv_cap v) (firstn a (sv_el v) ++ skipn b (sv_el v)).
Definition sv_clear (v : svec) : svec := sv_clear_range v 0 (sv_nnz v).

(* user-level element insertion as the harness does it: advance an iterator to the first stored index >= idx,
   then set_element there *)
Fixpoint lower_bound (l : list (nat * Z)) (idx : nat) : nat :=
  match l with
  | [] => 0%nat
  | (j, _) :: t => if (j <? idx)%nat then S (lower_bound t idx) else 0%nat
  end.
Definition sv_put (v : svec) (idx : nat) (x : Z) : svec :=
  fst (sv_set_element v (lower_bound (sv_el v) idx) idx x).

(* dense vectors: list of values; v().clear() of a dense vector sets every element to zero *)
Definition dvec := list Z.
Definition dden (d : dvec) (i : nat) : Z := nth i d 0.
Definition dclear (d : dvec) : dvec := repeat 0 (length d).

(* ---------- plain assignment kernels: vector_assign ---------- *)

(* for(it in e) targetPos = v().set_element(targetPos, it.index(), *it) *)
Fixpoint sv_fill (v : svec) (pos : nat) (src : list (nat * Z)) : svec * nat :=
  match src with
  | [] => (v, pos)
  | (j, y) :: s => let '(v', p') := sv_set_element v pos j y in sv_fill v' p' s
  end.

(* sparse <- sparse *)
Definition k_assign_ss (v e : svec) : svec := fst (sv_fill (sv_clear v) 0 (sv_el e)).

(* dense <- sparse: v().clear(); v()(it.index()) = *it *)
Definition k_assign_ds (d : dvec) (e : svec) : dvec :=
  fold_left (fun acc jy => upd (fst jy) (snd jy) acc) (sv_el e) (dclear d).

(* sparse <- dense: clear, reserve(e.size()), set_element for EVERY index (zeros are stored too) *)
Fixpoint sv_fill_dense (v : svec) (pos i : nat) (src : list Z) : svec * nat :=
  match src with
  | [] => (v, pos)
  | y :: s => let '(v', p') := sv_set_element v pos i y in sv_fill_dense v' p' (S i) s
  end.
Definition k_assign_sd (v : svec) (e : dvec) : svec :=
  fst (sv_fill_dense (sv_reserve (sv_clear v) (length e)) 0 0 e).

(* ---------- functor kernels: vector_assign_functor ---------- *)

(* for(; n times; ++pos) d(pos) = g(d(pos)) *)
Fixpoint d_apply_n (g : Z -> Z) (d : dvec) (pos n : nat) : dvec :=
  match n with
  | O => d
  | S n' => d_apply_n g (upd pos (g (nth pos d 0)) d) (S pos) n'
  end.

(* dense <- sparse (as repaired by commit c4c2dce0): f(x,0) is applied to the positions without stored
   counterpart unless F::right_zero_identity.  The C++ inner loop runs `while pos != it.index()`; for sorted
   sources pos <= it.index() and the loop makes it.index()-pos steps, which is what `d_apply_n` does (for an
   unsorted source the C++ loop would not terminate; such sources violate the storage invariant). *)
Fixpoint fun_ds_loop (f : Z -> Z -> Z) (rzi : bool) (d : dvec) (pos : nat) (src : list (nat * Z)) : dvec * nat :=
  match src with
  | [] => (d, pos)
  | (j, y) :: s =>
      let d1 := if rzi then d else d_apply_n (fun x => f x 0) d pos (j - pos) in
      fun_ds_loop f rzi (upd j (f (nth j d1 0) y) d1) (S j) s
  end.
Definition k_fun_ds (f : Z -> Z -> Z) (rzi : bool) (d : dvec) (e : svec) : dvec :=
  let '(d1, pos) := fun_ds_loop f rzi d 0 (sv_el e) in
  if rzi then d1 else d_apply_n (fun x => f x 0) d1 pos (length d - pos).

(* sparse <- dense.  Before 245464d7 the missing elements were inserted with the value `val` (right for f = add
   only); now (D2): f(0,val). *)
Fixpoint fun_sd_loop (fx : bool) (f : Z -> Z -> Z) (v : svec) (it i : nat) (src : list Z) : svec :=
  match src with
  | [] => v
  | y :: s =>
      let l := sv_el v in
      if (it =? length l)%nat || negb (idx_at l it =? i)%nat then
        let '(v', it') := sv_set_element v it i (if fx then f 0 y else y) in
        fun_sd_loop fx f v' it' (S i) s
      else
        fun_sd_loop fx f (sv_setval v it (f (val_at l it) y)) (S it) (S i) s
  end.
Definition k_fun_sd (fx : bool) (f : Z -> Z -> Z) (v : svec) (e : dvec) : svec := fun_sd_loop fx f v 0 0 e.

(* sparse <- sparse: the merge loop `while(it != v().end() && ite != ite_end)`; every iteration consumes an
   element of the target or of the source, so fuel nnz(v)+nnz(e) is enough *)
Fixpoint fun_ss_main (fuel : nat) (f : Z -> Z -> Z) (v : svec) (it : nat) (s : list (nat * Z))
  : svec * nat * list (nat * Z) :=
  match fuel with
  | O => (v, it, s)
  | S k =>
      match s with
      | [] => (v, it, s)
      | (j, y) :: s' =>
          let l := sv_el v in
          if (it =? length l)%nat then (v, it, s)
          else
            let i := idx_at l it in
            if (i =? j)%nat then fun_ss_main k f (sv_setval v it (f (val_at l it) y)) (S it) s'
            else if (i <? j)%nat then fun_ss_main k f (sv_setval v it (f (val_at l it) 0)) (S it) s
            else let '(v', it') := sv_set_element v it j (f 0 y) in fun_ss_main k f v' it' s'
      end
  end.

(* for(; it != v().end(); ++it) *it = f( *it, zero) *)
Fixpoint sv_apply_n (g : Z -> Z) (v : svec) (it n : nat) : svec :=
  match n with
  | O => v
  | S n' => sv_apply_n g (sv_setval v it (g (val_at (sv_el v) it))) (S it) n'
  end.

(* last loop ("add missing elements").
   now (88237f8b):  for(; ite != ite_end; ++ite) it = v().set_element(it, ite.index(), f(zero, *ite));
   before:         for(; ite != ite_end; ++it, ++ite){ it = v().set_element(it, ite.index(), zero); *it = f( *it, *ite); }
     set_element returns the iterator BEHIND the new element, so `*it` is the slot behind the last stored element:
     the value is lost, the inserted element stays zero.  After `++it` the iterator is past end(); a second
     iteration is undefined behaviour (reads indices[nnz+1], copy_backward over a negative range) and is not modelled:
     the fx = false variant below performs the first iteration only. *)
Definition fun_ss_tail (fx : bool) (f : Z -> Z -> Z) (v : svec) (it : nat) (s : list (nat * Z)) : svec :=
  if fx then fst (sv_fill v it (map (fun jy => (fst jy, f 0 (snd jy))) s))
  else match s with
       | [] => v
       | (j, _) :: _ => fst (sv_set_element v it j 0)
       end.

Definition k_fun_ss (fx : bool) (f : Z -> Z -> Z) (v e : svec) : svec :=
  let '(v1, it, s) := fun_ss_main (sv_nnz v + sv_nnz e) f v 0 (sv_el e) in
  let v2 := sv_apply_n (fun x => f x 0) v1 it (sv_nnz v1 - it) in
  fun_ss_tail fx f v2 (sv_nnz v2) s.

(* bindings::apply / assign<F>(v, t): the scalar forms  x op= t  touch the STORED elements only *)
Definition k_apply_s (g : Z -> Z) (v : svec) : svec :=
  mkSV (sv_size v) (sv_cap v) (map (fun jy => (fst jy, g (snd jy))) (sv_el v)).
