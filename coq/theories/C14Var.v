(* C14 — variation and mating-selection operators as coded (definitions only).

   Operators/Recombination/SimulatedBinaryCrossover.h, Operators/Mutation/PolynomialMutation.h,
   Operators/Selection/TournamentSelection.h, Operators/Selection/ElitistSelection.h.

   Random draws are explicit arguments.  Every call of random::coinToss / random::uni consumes ONE canonical
   uniform draw u in [0,1) (std::generate_canonical): coinToss(rng,p) = (u < p), uni(rng,a,b) = u*(b-a)+a
   (libstdc++); the draws are a list that the operators consume from the left (an exhausted list yields `zero`).
   random::discrete (TournamentSelection) is modelled by its results: the drawn indices are the argument.
   Carrier: abstract type with the operations of the code (OCaml floats in the driver, Q in the proofs);
   std::pow is a Section variable. *)
From Coq Require Import List Arith Bool.
From SharkV Require Import ListAux.
Import ListNotations.

Section Variation.
  Variable T : Type.
  Variables zero one two half tol : T.            (* 0, 1, 2, 0.5, 1E-7 *)
  Variables add sub mul div : T -> T -> T.
  Variable abs : T -> T.
  Variable pow : T -> T -> T.
  Variable ltb : T -> T -> bool.

  Definition leb (x y : T) : bool := negb (ltb y x).          (* for non-NaN values *)
  Definition smax (a b : T) : T := if ltb a b then b else a.   (* std::max(a, b) *)
  Definition smin (a b : T) : T := if ltb b a then b else a.   (* std::min(a, b) *)
  Definition draw (us : list T) : T * list T := (hd zero us, tl us).
  Definition uni (u a b : T) : T := add (mul u (sub b a)) a.   (* uniform_real_distribution(a,b) *)

  (* ---- SimulatedBinaryCrossover: one coordinate.  expp = m_nc + 1, nexpp = -expp, iexpp = 1.0/expp *)
  Variables nexpp iexpp : T.

  Definition sbx_coord (prob lo hi x1 x2 : T) (us : list T) : T * T * list T :=
    let (u0, us1) := draw us in
    if negb (ltb u0 prob) then (x1, x2, us1)
    else
      let y1 := if ltb x2 x1 then x2 else x1 in
      let y2 := if ltb x2 x1 then x1 else x2 in
      if ltb (abs (sub y2 y1)) tol then (x1, x2, us1)
      else
        let beta1 := add one (div (mul two (sub y1 lo)) (sub y2 y1)) in
        let beta2 := add one (div (mul two (sub hi y2)) (sub y2 y1)) in
        let alpha1 := sub two (pow beta1 nexpp) in
        let alpha2 := sub two (pow beta2 nexpp) in
        let (u, us2) := draw us1 in
        let alpha1 := mul alpha1 u in
        let alpha2 := mul alpha2 u in
        let alpha1 := if ltb (div one alpha1) u then div one (sub two alpha1) else alpha1 in
        let alpha2 := if ltb (div one alpha2) u then div one (sub two alpha2) else alpha2 in
        let betaQ1 := pow alpha1 iexpp in
        let betaQ2 := pow alpha2 iexpp in
        let c1 := mul half (sub (add y1 y2) (mul betaQ1 (sub y2 y1))) in
        let c2 := mul half (add (add y1 y2) (mul betaQ2 (sub y2 y1))) in
        let (u2, us3) := draw us2 in
        let p1 := if ltb u2 half then c2 else c1 in
        let p2 := if ltb u2 half then c1 else c2 in
        (smin (smax p1 lo) hi, smin (smax p2 lo) hi, us3).

  (* operator()(rng, i1, i2): for i = 0 .. point1.size()-1 *)
  Fixpoint sbx (prob : T) (lower upper p1 p2 : list T) (us : list T) : list T * list T * list T :=
    match p1, p2, lower, upper with
    | x1 :: p1', x2 :: p2', lo :: lower', hi :: upper' =>
      let '(c1, c2, us') := sbx_coord prob lo hi x1 x2 us in
      let '(r1, r2, us'') := sbx prob lower' upper' p1' p2' us' in
      (c1 :: r1, c2 :: r2, us'')
    | _, _, _, _ => (p1, p2, us)
    end.

  (* ---- PolynomialMutator: one coordinate.  nm1 = m_nm + 1, inm1 = 1.0/(m_nm+1.0).
     Since /repo commit c8cdcf67 a coordinate whose interval is degenerate (upper == lower) and whose value is in
     range is left unchanged after the coin toss, and no further draw is consumed for it (before, the code divided
     by the width 0: 0/0 = NaN on doubles, not caught by the clipping). *)
  Variables nm1 inm1 : T.
  Variable eqb : T -> T -> bool.                  (* operator== *)

  Definition pm_coord (prob lo hi x : T) (us : list T) : T * list T :=
    let (u0, us1) := draw us in
    if ltb u0 prob then
      if ltb x lo || ltb hi x then
        let (u, us2) := draw us1 in (uni u lo hi, us2)
      else if eqb hi lo then (x, us1)
      else
        let delta1 := div (sub hi x) (sub hi lo) in
        let delta2 := div (sub x lo) (sub hi lo) in
        let (u, us2) := draw us1 in
        let deltaQ :=
          if leb u half then
            let delta := pow delta1 nm1 in
            sub (pow (add (mul two u) (mul (sub one (mul two u)) delta)) inm1) one
          else
            let delta := pow delta2 nm1 in
            sub one (pow (add (mul two (sub one u)) (mul (mul two (sub u half)) delta)) inm1) in
        let y := add x (mul deltaQ (sub hi lo)) in
        let y := if ltb y lo then lo else y in
        let y := if ltb hi y then hi else y in
        (y, us2)
    else (x, us1).

  Fixpoint pm (prob : T) (lower upper p : list T) (us : list T) : list T * list T :=
    match p, lower, upper with
    | x :: p', lo :: lower', hi :: upper' =>
      let (c, us') := pm_coord prob lo hi x us in
      let (r, us'') := pm prob lower' upper' p' us' in
      (c :: r, us'')
    | _, _, _ => (p, us)
    end.
End Variation.

(* ------------------------------------------------------------------------------------------ *)
(* TournamentSelection<Predicate>::operator()(rng, it, itE): result = first drawn; every further drawn
   individual replaces it iff predicate(drawn, result).  `better i j` = predicate(pop[i], pop[j]). *)
Definition tournament (better : nat -> nat -> bool) (drawn : list nat) : nat :=
  match drawn with
  | [] => 0
  | d0 :: rest => fold_left (fun res d => if better d res then d else res) rest d0
  end.

(* ElitistSelection<Ordering>::operator()(population, mu): order = std::sort of the positions by the
   ordering (Section variable: any routine), the first mu get selected() = true, the others false. *)
Section Elitist.
  Variable sort : list nat -> list nat.         (* positions 0..n-1, sorted by Ordering *)
  Definition elitist (n mu : nat) : list bool :=
    let order := sort (seq 0 n) in
    fold_left (fun s i => upd i false s) (skipn mu order)
              (fold_left (fun s i => upd i true s) (firstn mu order) (repeat false n)).
End Elitist.

(* insertion sort of positions by a key (what std::sort does on at most 16 elements: stable) *)
Fixpoint pos_insert (key : nat -> nat) (x : nat) (l : list nat) : list nat :=
  match l with
  | [] => [x]
  | y :: t => if key x <? key y then x :: l else y :: pos_insert key x t
  end.
Definition pos_isort (key : nat -> nat) (l : list nat) : list nat :=
  fold_left (fun acc x => pos_insert key x acc) l [].
