(* C13 — proofs for C13ContribMd.v: the contribution by hypervolume difference on the restricted set equals
   contrib_spec in every dimension; selection of the k smallest / largest entries of a list of (contribution, index)
   pairs. *)
From Coq Require Import List ZArith Lia Bool Arith Permutation Sorted.
From SharkV Require Import ListAux C13Model C13Proofs C13ProofsFast C13ProofsContrib C13Wfg C13WfgProofs C13Disp C13DispProofs.
From SharkV Require Import C13Dc C13DcProofs C13ContribMd.
Import ListNotations.

(* ---------------------------------------------------------------------------------------- *)
(* sorting pairs by key *)
Definition keyle (a b : kv) : Prop := (fst a <= fst b)%Z.

Lemma insert_kv_perm p l : Permutation (insert_kv p l) (p :: l).
Proof.
  induction l as [|q t IH]; cbn [insert_kv]; auto.
  destruct (fst p <? fst q)%Z; auto. rewrite IH. apply perm_swap.
Qed.

Lemma sort_kv_perm l : Permutation (sort_kv l) l.
Proof.
  induction l as [|p l IH]; cbn [sort_kv fold_right]; auto.
  fold (sort_kv l). rewrite insert_kv_perm. now constructor.
Qed.

Lemma insert_kv_sorted p l : StronglySorted keyle l -> StronglySorted keyle (insert_kv p l).
Proof.
  induction 1 as [|q t HS IH HF]; cbn [insert_kv]; [repeat constructor|].
  rewrite Forall_forall in HF. destruct (Z.ltb_spec (fst p) (fst q)).
  - constructor; [constructor; auto; now apply Forall_forall|].
    apply Forall_forall. intros x [<-|Hx]; unfold keyle in *; [lia|]. specialize (HF x Hx). lia.
  - constructor; auto. apply Forall_forall. intros x Hx.
    eapply Permutation_in in Hx; [|apply insert_kv_perm]. destruct Hx as [<-|Hx]; [unfold keyle; lia|auto].
Qed.

Lemma sort_kv_sorted l : StronglySorted keyle (sort_kv l).
Proof.
  induction l as [|p l IH]; cbn [sort_kv fold_right]; [constructor|].
  fold (sort_kv l). now apply insert_kv_sorted.
Qed.

Lemma sort_z_sorted_id s : StronglySorted Z.le s -> sort_z s = s.
Proof.
  induction 1 as [|a s HS IH HF]; auto. cbn [sort_z fold_right]. fold (sort_z s). rewrite IH.
  destruct s as [|b t]; auto. cbn [insert_z]. inversion HF; subst.
  destruct (Z.leb_spec a b); auto; lia.
Qed.

Lemma sorted_keys_are_sort_z (s : list kv) (vals : list Z) :
  StronglySorted keyle s -> Permutation (map fst s) vals -> map fst s = sort_z vals.
Proof.
  intros HS HP. rewrite <- (sort_z_perm_eq _ _ HP). symmetry. apply sort_z_sorted_id.
  apply C13HsspFrontProofs.SS_map. exact HS.
Qed.

Lemma NoDup_app_both {A} (a b : list A) : NoDup (a ++ b) -> NoDup a /\ NoDup b.
Proof.
  induction a as [|x a IH]; cbn [app]; intros H; [split; [constructor|auto]|].
  inversion H; subst. destruct (IH H3) as [H4 H5]. split; auto. constructor; auto.
  intros Hc. apply H2. apply in_or_app. auto.
Qed.

(* ---------------------------------------------------------------------------------------- *)
(* selection: any arrangement of the entries that is sorted by the contribution *)
Section Selection.
Variable vals : list Z.
Variable l s : list kv.
Hypothesis Hl : Permutation l (combine vals (seq 0 (length vals))).
Hypothesis Hs : Permutation s l.
Hypothesis Hsorted : StronglySorted keyle s.

Lemma sel_keys : map fst s = sort_z vals.
Proof.
  apply sorted_keys_are_sort_z; auto. rewrite Hs, Hl. rewrite map_fst_combine; auto. now rewrite seq_length.
Qed.

Lemma sel_length : length s = length vals.
Proof. transitivity (length (map fst s)); [symmetry; apply map_length|]. rewrite sel_keys. apply Permutation_length, sort_z_perm. Qed.

Lemma sel_entry v i : In (v, i) s -> i < length vals /\ v = nth i vals 0%Z.
Proof.
  intros Hin. apply (Permutation_in _ Hs) in Hin. apply (Permutation_in _ Hl) in Hin.
  destruct (In_nth _ _ (0%Z, 0) Hin) as [j [Hj Ej]]. rewrite combine_length, seq_length, Nat.min_id in Hj.
  rewrite combine_nth in Ej by now rewrite seq_length. rewrite seq_nth in Ej by auto. inversion Ej; subst. auto.
Qed.

Lemma sel_indices_nodup : NoDup (map snd s).
Proof.
  apply (Permutation_NoDup (l := seq 0 (length vals))); [|apply seq_NoDup].
  symmetry. rewrite Hs, Hl. rewrite map_snd_combine; auto. now rewrite seq_length.
Qed.

Lemma sel_smallest_values k : k <= length vals -> map fst (firstn k s) = smallest_k k vals.
Proof.
  intros Hk. rewrite (proj1 (smallest_k_extremal k vals Hk)).
  transitivity (firstn k (map fst s)); [symmetry; apply firstn_map|f_equal; apply sel_keys].
Qed.

Lemma sel_largest_values k : k <= length vals ->
  map fst (rev (skipn (length s - k) s)) = largest_k k vals.
Proof.
  intros Hk. rewrite (proj1 (largest_k_extremal k vals Hk)). rewrite firstn_rev, map_rev. f_equal.
  transitivity (skipn (length s - k) (map fst s)); [symmetry; apply skipn_map|].
  rewrite sel_length. f_equal; [|apply sel_keys]. f_equal.
  symmetry. apply Permutation_length, sort_z_perm.
Qed.
End Selection.

(* the coded selection on a list of (contribution, index) pairs that holds every index once *)
Theorem smallest_kv_spec vals l k :
  Permutation l (combine vals (seq 0 (length vals))) -> k <= length vals ->
  map fst (smallest_kv k l) = smallest_k k vals /\
  length (smallest_kv k l) = k /\
  NoDup (map snd (smallest_kv k l)) /\
  forall v i, In (v, i) (smallest_kv k l) -> i < length vals /\ v = nth i vals 0%Z.
Proof.
  intros Hl Hk. unfold smallest_kv.
  pose proof (sort_kv_perm l) as Hs. pose proof (sort_kv_sorted l) as HS.
  split; [apply (sel_smallest_values vals l); auto|]. split; [|split].
  - rewrite firstn_length, (sel_length vals l (sort_kv l)); auto. lia.
  - pose proof (sel_indices_nodup vals l (sort_kv l) Hl Hs) as HN.
    rewrite <- (firstn_skipn k (sort_kv l)), map_app in HN. apply NoDup_app_both in HN. tauto.
  - intros v i Hin. apply (sel_entry vals l (sort_kv l)); auto.
    rewrite <- (firstn_skipn k (sort_kv l)). apply in_or_app. now left.
Qed.

Theorem largest_kv_spec vals l k :
  Permutation l (combine vals (seq 0 (length vals))) -> k <= length vals ->
  map fst (largest_kv k l) = largest_k k vals /\
  length (largest_kv k l) = k /\
  NoDup (map snd (largest_kv k l)) /\
  forall v i, In (v, i) (largest_kv k l) -> i < length vals /\ v = nth i vals 0%Z.
Proof.
  intros Hl Hk.
  pose proof (sort_kv_perm l) as Hs. pose proof (sort_kv_sorted l) as HS.
  assert (HL : length l = length (sort_kv l)) by (symmetry; apply Permutation_length; auto).
  pose proof (sel_length vals l (sort_kv l) Hl Hs HS) as HLv.
  assert (E : largest_kv k l = rev (skipn (length (sort_kv l) - k) (sort_kv l))).
  { unfold largest_kv. f_equal. f_equal. f_equal. exact HL. }
  rewrite E. split; [apply (sel_largest_values vals l); auto|]. split; [|split].
  - rewrite rev_length, skipn_length. lia.
  - pose proof (sel_indices_nodup vals l (sort_kv l) Hl Hs) as HN.
    rewrite <- (firstn_skipn (length (sort_kv l) - k) (sort_kv l)), map_app in HN. apply NoDup_app_both in HN. destruct HN as [_ HN].
    rewrite map_rev. apply (Permutation_NoDup (l := map snd (skipn (length (sort_kv l) - k) (sort_kv l)))); auto.
    apply Permutation_rev.
  - intros v i Hin. apply (sel_entry vals l (sort_kv l)); auto. apply in_rev in Hin.
    rewrite <- (firstn_skipn (length (sort_kv l) - k) (sort_kv l)). apply in_or_app. now right.
Qed.

(* ---------------------------------------------------------------------------------------- *)
(* restrictSet *)
Lemma filter_perm {A} (f : A -> bool) l l' : Permutation l l' -> Permutation (filter f l) (filter f l').
Proof.
  induction 1 as [|x l l' HP IH|x y l|l l' l'' H1 IH1 H2 IH2]; cbn [filter]; auto.
  - destruct (f x); auto.
  - destruct (f x), (f y); auto. apply perm_swap.
  - etransitivity; eauto.
Qed.

Lemma swap_compact_perm {A} (keep : A -> bool) : forall fuel l, length l <= fuel ->
  Permutation (swap_compact keep fuel l) (filter keep l).
Proof.
  induction fuel as [|f IH]; intros l Hl.
  - destruct l; [constructor|cbn in Hl; lia].
  - destruct l as [|x t]; cbn [swap_compact filter]; [constructor|]. cbn [length] in Hl.
    destruct (keep x).
    + constructor. apply IH. lia.
    + destruct (rev t) as [|y r] eqn:E.
      * assert (t = []) by (rewrite <- (rev_involutive t), E; reflexivity). subst. constructor.
      * assert (Ht : t = rev r ++ [y]) by (rewrite <- (rev_involutive t), E; reflexivity).
        assert (HP : Permutation (y :: rev r) t).
        { rewrite Ht. apply Permutation_cons_append. }
        rewrite IH.
        -- apply filter_perm. auto.
        -- rewrite (Permutation_length HP). lia.
Qed.

Lemma restrict_set_perm ranks S p :
  ranks (map (fun q => pmax q p) S) = rank_list (map (fun q => pmax q p) S) ->
  Permutation (restrict_set ranks S p) (nd_front (map (fun q => pmax q p) S)).
Proof.
  intros HR. unfold restrict_set, nd_front. cbv zeta. rewrite HR. apply Permutation_map.
  apply swap_compact_perm. rewrite combine_length. lia.
Qed.

(* ---------------------------------------------------------------------------------------- *)
(* the contribution by difference *)
Local Open Scope Z_scope.

Theorem contrib_md_correct hv ranks ref S i :
  (forall L, same_dim (length ref) L -> ranks L = rank_list L) ->
  (forall S', below_ref ref S' -> hv ref S' = hv_spec ref S') ->
  below_ref ref S -> (i < length S)%nat ->
  contrib_md hv ranks ref S i = contrib_spec ref S i.
Proof.
  intros HR HV HB Hi. unfold contrib_md, contrib_spec. cbv zeta.
  set (p := nth i S []). set (S' := remove_nth i S).
  assert (HP : Permutation S (p :: S')) by (apply remove_nth_perm; auto).
  assert (HB' : below_ref ref (p :: S')).
  { intros q Hq. apply HB. eapply Permutation_in; [symmetry; exact HP|auto]. }
  assert (HBl : below_ref ref (map (fun q => pmax q p) S')) by (apply limited_below; auto).
  assert (HSD : same_dim (length ref) (map (fun q => pmax q p) S')) by (apply below_ref_same_dim; auto).
  pose proof (restrict_set_perm ranks S' p (HR _ HSD)) as HPr.
  rewrite HV.
  2:{ intros q Hq. apply (Permutation_in _ HPr) in Hq. apply (nd_front_incl (length ref)) in Hq; auto. }
  rewrite (hv_spec_perm _ _ _ HPr), (hv_spec_nd_front ref (length ref)) by auto.
  rewrite (hv_spec_perm _ _ _ HP), (hv_spec_incl_excl ref S' p HB'). lia.
Qed.

Theorem contribs_md_correct hv ranks ref S :
  (forall L, same_dim (length ref) L -> ranks L = rank_list L) ->
  (forall S', below_ref ref S' -> hv ref S' = hv_spec ref S') ->
  below_ref ref S ->
  contribs_md hv ranks ref S = combine (contribs_spec ref S) (seq 0 (length S)).
Proof.
  intros HR HV HB. unfold contribs_md, contribs_spec. rewrite combine_map_self.
  apply map_ext_in. intros i Hi. apply in_seq in Hi. f_equal. apply contrib_md_correct; auto. lia.
Qed.

(* the instance with the front ends of /repo *)
Theorem contribs_md_inst_correct hoy ref S :
  (2 <= length ref)%nat ->
  (length ref <> 4%nat \/ forall ref S, length ref = 4%nat -> below_ref ref S -> hoy ref S = hv_spec ref S) ->
  below_ref ref S ->
  contribs_md_inst hoy ref S = combine (contribs_spec ref S) (seq 0 (length S)).
Proof.
  intros Hd Hh HB. unfold contribs_md_inst. apply contribs_md_correct; auto.
  - intros L HL. apply (nds_front_eq_rank_list (length ref)); auto.
  - intros S' HB'. destruct Hh as [Hh|Hh]; [apply hv_dispatch_correct; auto|apply hv_dispatch_correct_all; auto].
Qed.

Lemma contribs_spec_length ref S : length (contribs_spec ref S) = length S.
Proof. unfold contribs_spec. now rewrite map_length, seq_length. Qed.

Theorem md_smallest_correct hoy ref S k :
  (2 <= length ref)%nat ->
  (length ref <> 4%nat \/ forall ref S, length ref = 4%nat -> below_ref ref S -> hoy ref S = hv_spec ref S) ->
  below_ref ref S -> (k <= length S)%nat ->
  let res := smallest_kv k (contribs_md_inst hoy ref S) in
  map fst res = smallest_k k (contribs_spec ref S) /\ length res = k /\ NoDup (map snd res) /\
  forall v i, In (v, i) res -> (i < length S)%nat /\ v = contrib_spec ref S i.
Proof.
  intros Hd Hh HB Hk res.
  destruct (smallest_kv_spec (contribs_spec ref S) (contribs_md_inst hoy ref S) k) as [A [B [C Dd]]].
  - rewrite contribs_md_inst_correct, contribs_spec_length; auto.
  - now rewrite contribs_spec_length.
  - split; auto. split; auto. split; auto. intros v i Hin. destruct (Dd v i Hin) as [H1 H2].
    rewrite contribs_spec_length in H1. split; auto. rewrite H2. unfold contribs_spec.
    rewrite (nth_indep _ 0 (contrib_spec ref S 0)) by (rewrite map_length, seq_length; auto).
    rewrite map_nth, seq_nth; auto.
Qed.

Theorem md_largest_correct hoy ref S k :
  (2 <= length ref)%nat ->
  (length ref <> 4%nat \/ forall ref S, length ref = 4%nat -> below_ref ref S -> hoy ref S = hv_spec ref S) ->
  below_ref ref S -> (k <= length S)%nat ->
  let res := largest_kv k (contribs_md_inst hoy ref S) in
  map fst res = largest_k k (contribs_spec ref S) /\ length res = k /\ NoDup (map snd res) /\
  forall v i, In (v, i) res -> (i < length S)%nat /\ v = contrib_spec ref S i.
Proof.
  intros Hd Hh HB Hk res.
  destruct (largest_kv_spec (contribs_spec ref S) (contribs_md_inst hoy ref S) k) as [A [B [C Dd]]].
  - rewrite contribs_md_inst_correct, contribs_spec_length; auto.
  - now rewrite contribs_spec_length.
  - split; auto. split; auto. split; auto. intros v i Hin. destruct (Dd v i Hin) as [H1 H2].
    rewrite contribs_spec_length in H1. split; auto. rewrite H2. unfold contribs_spec.
    rewrite (nth_indep _ 0 (contrib_spec ref S 0)) by (rewrite map_length, seq_length; auto).
    rewrite map_nth, seq_nth; auto.
Qed.

Example contrib_md_example :
  let S := [[0; 3; 2; 1; 1]; [1; 2; 3; 0; 1]; [2; 1; 0; 3; 1]; [1; 2; 3; 0; 1]; [3; 0; 1; 2; 0]] in
  let ref := [4; 4; 4; 4; 2] in
  below_ref ref S /\
  contribs_md_inst (fun _ _ => 0) ref S = [(12, 0%nat); (0, 1%nat); (12, 2%nat); (0, 3%nat); (36, 4%nat)] /\
  contribs_spec ref S = [12; 0; 12; 0; 36] /\
  smallest_kv 2 (contribs_md_inst (fun _ _ => 0) ref S) = [(0, 3%nat); (0, 1%nat)] /\
  largest_kv 2 (contribs_md_inst (fun _ _ => 0) ref S) = [(36, 4%nat); (12, 0%nat)].
Proof.
  cbv zeta. split.
  - intros p Hp. repeat (destruct Hp as [<-|Hp]; [repeat constructor; lia|]). destruct Hp.
  - repeat split; vm_compute; reflexivity.
Qed.
