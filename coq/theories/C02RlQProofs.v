(* C02 — right-looking blocked Cholesky over Qc: a run with block size 1 (recursion, trsm, syrk and the right-looking leaf all
   exercised) on ex_M = [[4,2],[2,5]], and the exact-square-root hypothesis on the returned factor. *)
From Coq Require Import QArith Qcanon List Lia.
From SharkV Require Import C02Model C02Proofs C02BlkModel C02Q C02QProofs C02RlModel C02RlProofs.
Import ListNotations.
Example ex_potrf_rec_rl_runs :
  match potrf_rec_rl Qc (qc_ops ex_sq) 1 1 2 2 0 2 ex_M with
  | BOk _ L => (qc_eqb (L 0 0)%nat (qc_make 2 1) && qc_eqb (L 1 0)%nat (qc_make 1 1) && qc_eqb (L 1 1)%nat (qc_make 2 1))%bool = true
  | _ => False
  end.
Proof. vm_compute. reflexivity. Qed.
Lemma ex_rl_hypotheses_satisfiable :
  exists L, potrf_rec_rl Qc (qc_ops ex_sq) 1 1 2 2 0 2 ex_M = BOk Qc L /\ rl_sqrt_exact Qc (qc_ops ex_sq) 2 ex_M L.
Proof.
  destruct (potrf_rec_rl Qc (qc_ops ex_sq) 1 1 2 2 0 2 ex_M) as [L| |] eqn:E.
  - exists L. split; [reflexivity|]. intros j Hj.
    assert (HL : forall i c, (i < 2)%nat -> (c < 2)%nat -> L i c = match potrf_rec_rl Qc (qc_ops ex_sq) 1 1 2 2 0 2 ex_M with BOk _ L' => L' i c | _ => Q2Qc 0 end)
      by (intros; rewrite E; reflexivity).
    destruct j as [|[|j]]; [| |lia]; cbv zeta.
    + cbn [sumr]. apply Qc_is_canon. vm_compute. reflexivity.
    + cbn [sumr Nat.leb]. rewrite (HL 1 0)%nat by lia. apply Qc_is_canon. vm_compute. reflexivity.
  - pose proof ex_potrf_rec_rl_runs as H. rewrite E in H. contradiction.
  - pose proof ex_potrf_rec_rl_runs as H. rewrite E in H. contradiction.
Qed.
