(* C19 — line-end conversion of a text file.  Definitions only.
   crlf: every LF becomes CR LF (what a Windows tool does to an exported file before it is imported again). *)
From Coq Require Import List NArith.
From SharkV Require Import C19Model.
Import ListNotations.

Definition crlf (s : list byte) : list byte :=
  flat_map (fun c => if (c =? 10)%N then [13%N; 10%N] else [c]) s.
