(* C10 — trust-region Newton: proofs about the model C10TrustRegion.v. *)
From Coq Require Import List QArith Qreduction Qabs Bool Arith Lia Lra Psatz.
From SharkV Require Import C10Model C10LsModel C10Gen C10LbfgsModel C10Proofs C10BfgsProofs C10LbfgsProofs C10CgProofs C10TrustRegion.
Import ListNotations.
Open Scope Q_scope.

(* ================= Part A: bookkeeping, for every number type ================= *)
Section GenericBook.
  Variable T : Type.
  Variable O : ops T.
  Variable leb : T -> T -> bool.
  Variables c099 c01 : T.
  Variable f : list T -> T.
  Variable fd : list T -> T * list T * list (list T).

  (* value, gradient and Hessian are the ones ONE evalDerivative call returns at the reported point *)
  Definition g_tr_consistent (s : gtr_state T) : Prop := fd (tr_pt s) = (tr_val s, tr_grad s, tr_hess s).

  Lemma g_tr_init_consistent : forall x0 d0, g_tr_consistent (tr_init T c01 fd x0 d0).
  Proof. intros x0 d0. unfold g_tr_consistent, tr_init. destruct (fd x0) as [[v g] H] eqn:E. cbn. exact E. Qed.

  Lemma g_tr_step_with_consistent : forall pred sol s,
    g_tr_consistent s -> g_tr_consistent (tr_step_with T O leb c099 f fd pred sol s).
  Proof.
    intros pred sol s Hs. unfold tr_step_with.
    destruct (o_eqb O pred (o_zero O)); [exact Hs|].
    destruct (leb (tr_ratio s) _).
    - destruct (fd (gvadd T O (tr_pt s) sol)) as [[v g] H] eqn:E. unfold g_tr_consistent. cbn. exact E.
    - unfold g_tr_consistent. cbn. exact Hs.
  Qed.

  Lemma g_tr_step_with_ratio : forall pred sol s, tr_ratio (tr_step_with T O leb c099 f fd pred sol s) = tr_ratio s.
  Proof.
    intros pred sol s. unfold tr_step_with.
    destruct (o_eqb O pred (o_zero O)); [reflexivity|].
    destruct (leb (tr_ratio s) _); [|reflexivity].
    destruct (fd (gvadd T O (tr_pt s) sol)) as [[v g] H]. reflexivity.
  Qed.

  Theorem g_tr_run_with_consistent : forall orc n x0 d0,
    let s := tr_run_with T O leb c099 f fd orc n (tr_init T c01 fd x0 d0) in
    g_tr_consistent s /\ tr_ratio s = c01.
  Proof.
    intros orc n x0 d0. induction n as [|n IH]; cbn [tr_run_with].
    - split; [apply g_tr_init_consistent|]. unfold tr_init. destruct (fd x0) as [[v g] H]. reflexivity.
    - cbv zeta in IH. destruct IH as [IH1 IH2].
      destruct (orc n _) as [pred sol]. split; [apply g_tr_step_with_consistent; exact IH1|].
      rewrite g_tr_step_with_ratio. exact IH2.
  Qed.

  Lemma g_tr_run_is_run_with : forall n s,
    tr_run T O leb c099 f fd n s =
    tr_run_with T O leb c099 f fd (fun _ s' => let r := tr_solve T O leb s' in (cg_pred r, cg_step r)) n s.
  Proof. induction n as [|n IH]; intros s; cbn [tr_run tr_run_with]; [reflexivity|]. rewrite IH. reflexivity. Qed.

  Theorem g_tr_run_consistent : forall n x0 d0,
    let s := tr_run T O leb c099 f fd n (tr_init T c01 fd x0 d0) in
    g_tr_consistent s /\ tr_ratio s = c01.
  Proof. intros n x0 d0. cbv zeta. rewrite g_tr_run_is_run_with. apply g_tr_run_with_consistent. Qed.
End GenericBook.

(* ================= Part B: the rational instance: radius, acceptance rule ================= *)
Lemma q_two_eq sq : g_two Q (qops sq) = 2. Proof. reflexivity. Qed.
Lemma q_four_eq sq : g_four Q (qops sq) = 4. Proof. reflexivity. Qed.
Lemma q_half_eq sq : g_half Q (qops sq) = (1 # 2). Proof. reflexivity. Qed.
Lemma q_quarter_eq sq : g_quarter Q (qops sq) = (1 # 4). Proof. reflexivity. Qed.
Lemma q_three_quarters_eq sq : g_three_quarters Q (qops sq) = (3 # 4). Proof. reflexivity. Qed.

Lemma Qle_bool_true a b : Qle_bool a b = true <-> a <= b. Proof. apply Qle_bool_iff. Qed.
Lemma Qle_bool_false a b : Qle_bool a b = false <-> b < a.
Proof.
  split; intros H.
  - apply Qnot_le_lt. intros C. apply Qle_bool_iff in C. congruence.
  - destruct (Qle_bool a b) eqn:E; [|reflexivity]. apply Qle_bool_iff in E. lra.
Qed.

Section QStep.
  Variable sq : Q -> Q.
  Variable f : vec -> Q.
  Variable fd : vec -> Q * vec * list vec.

  (* the new radius is the old one times 1/4, 1 or 2 *)
  Lemma q_new_delta_cases : forall delta rho sol,
    let d' := tr_new_delta Q (qops sq) q099 delta rho sol in
    d' == delta / 4 \/ d' = delta \/ d' == delta * 2.
  Proof.
    intros delta rho sol. unfold tr_new_delta. cbn [o_ltb o_div o_mul qops].
    rewrite q_four_eq, q_two_eq.
    destruct (qltb rho _); [left; apply qdiv_eq|].
    destruct (_ && _); [right; right; apply qmul_eq | right; left; reflexivity].
  Qed.

  Lemma q_new_delta_pos : forall delta rho sol, 0 < delta -> 0 < tr_new_delta Q (qops sq) q099 delta rho sol.
  Proof.
    intros delta rho sol Hd. destruct (q_new_delta_cases delta rho sol) as [E|[E|E]]; cbv zeta in E; rewrite E; try lra.
    apply Qlt_shift_div_l; lra.
  Qed.

  Lemma q_step_with_delta_cases : forall pred sol s,
    let d' := tr_delta (q_tr_step_with sq f fd pred sol s) in
    d' == tr_delta s / 4 \/ d' = tr_delta s \/ d' == tr_delta s * 2.
  Proof.
    intros pred sol s. unfold q_tr_step_with, tr_step_with.
    destruct (o_eqb _ pred _); [right; left; reflexivity|].
    destruct (Qle_bool (tr_ratio s) _).
    - destruct (fd _) as [[v g] H]. cbn [tr_delta]. apply q_new_delta_cases.
    - cbn [tr_delta]. apply q_new_delta_cases.
  Qed.

  Theorem q_step_with_radius_positive : forall pred sol s,
    0 < tr_delta s -> 0 < tr_delta (q_tr_step_with sq f fd pred sol s).
  Proof.
    intros pred sol s Hd. destruct (q_step_with_delta_cases pred sol s) as [E|[E|E]]; cbv zeta in E; rewrite E; try lra.
    apply Qlt_shift_div_l; lra.
  Qed.

  Theorem q_run_with_radius_positive : forall orc n x0 d0, 0 < d0 ->
    0 < tr_delta (q_tr_run_with sq f fd orc n (q_tr_init sq fd x0 d0)).
  Proof.
    intros orc n x0 d0 Hd. induction n as [|n IH]; unfold q_tr_run_with; cbn [tr_run_with].
    - unfold q_tr_init, tr_init. destruct (fd x0) as [[v g] H]. exact Hd.
    - destruct (orc n _) as [pred sol]. apply q_step_with_radius_positive. exact IH.
  Qed.

  (* ---- the acceptance rule ---- *)
  Definition q_accepted (pred : Q) (sol : vec) (s : tr_state) : bool :=
    negb (Qeq_bool pred 0) && Qle_bool (tr_ratio s) (qdiv (qsub (f (vadd (tr_pt s) sol)) (tr_val s)) pred).

  Lemma q_step_with_rejected : forall pred sol s, q_accepted pred sol s = false ->
    tr_pt (q_tr_step_with sq f fd pred sol s) = tr_pt s /\ tr_val (q_tr_step_with sq f fd pred sol s) = tr_val s.
  Proof.
    intros pred sol s. unfold q_accepted, q_tr_step_with, tr_step_with. cbn [o_eqb o_zero o_div o_sub qops].
    change (gvadd Q (qops sq)) with vadd.
    destruct (Qeq_bool pred 0); cbn [negb andb]; [intros _; split; reflexivity|].
    intros E. rewrite E. split; reflexivity.
  Qed.

  Lemma q_step_with_accepted : forall pred sol s, q_accepted pred sol s = true ->
    tr_pt (q_tr_step_with sq f fd pred sol s) = vadd (tr_pt s) sol /\
    tr_val (q_tr_step_with sq f fd pred sol s) = fst (fst (fd (vadd (tr_pt s) sol))).
  Proof.
    intros pred sol s. unfold q_accepted, q_tr_step_with, tr_step_with. cbn [o_eqb o_zero o_div o_sub qops].
    change (gvadd Q (qops sq)) with vadd.
    destruct (Qeq_bool pred 0); cbn [negb andb]; [discriminate|].
    intros E. rewrite E. destruct (fd _) as [[v g] H]. split; reflexivity.
  Qed.

  (* the objective is one function: operator() and evalDerivative return the same value *)
  Definition coherent : Prop := forall x, f x = fst (fst (fd x)).

  Lemma ratio_sign : forall a b r, 0 < r -> r <= a / b -> ~ b == 0 -> (b < 0 -> a < 0) /\ (0 < b -> 0 < a).
  Proof.
    intros a b r Hr Hle Hb.
    assert (E : a == (a / b) * b) by (field; exact Hb).
    split; intros Hs; rewrite E; nra.
  Qed.

  (* what the code guarantees: an accepted step changes the value in the direction of the PREDICTED change, whatever the
     sub-problem solver returned; the sign of the prediction is not tested *)
  Theorem q_step_with_accept_sign : forall pred sol s, coherent -> 0 < tr_ratio s -> q_accepted pred sol s = true ->
    let s' := q_tr_step_with sq f fd pred sol s in
    (pred < 0 -> tr_val s' < tr_val s) /\ (0 < pred -> tr_val s < tr_val s').
  Proof.
    intros pred sol s Hc Hr Ha. cbv zeta.
    destruct (q_step_with_accepted pred sol s Ha) as [_ Ev]. rewrite Ev, <- Hc.
    unfold q_accepted in Ha. apply andb_true_iff in Ha. destruct Ha as [Hn Hle].
    apply Qle_bool_true in Hle. rewrite qdiv_eq, qsub_eq in Hle.
    assert (Hb : ~ pred == 0). { intros C. apply Qeq_bool_iff in C. rewrite C in Hn. discriminate. }
    destruct (ratio_sign _ _ _ Hr Hle Hb) as [H1 H2]. split; intros Hs; [specialize (H1 Hs)|specialize (H2 Hs)]; lra.
  Qed.

  Theorem q_step_with_never_increases : forall pred sol s, coherent -> 0 < tr_ratio s -> pred <= 0 ->
    tr_val (q_tr_step_with sq f fd pred sol s) <= tr_val s.
  Proof.
    intros pred sol s Hc Hr Hp. destruct (q_accepted pred sol s) eqn:Ha.
    - destruct (q_step_with_accept_sign pred sol s Hc Hr Ha) as [H1 _].
      assert (Hb : ~ pred == 0).
      { unfold q_accepted in Ha. apply andb_true_iff in Ha. destruct Ha as [Hn _]. intros C. apply Qeq_bool_iff in C. rewrite C in Hn. discriminate. }
      apply Qlt_le_weak. apply H1. lra.
    - destruct (q_step_with_rejected pred sol s Ha) as [_ E]. rewrite E. lra.
  Qed.
End QStep.

(* ================= Part C: trustRegionCG ================= *)
(* ---- scalar facts about the border equation |z + tau d|^2 = D ---- *)
(* std::sqrt is right at y: the model needs it only at the one number whose root borderDistance takes *)
Definition sqrt_ok_at (sq : Q -> Q) (y : Q) : Prop := sq y * sq y == y /\ 0 <= sq y.

Lemma border_root : forall z2 zd d2 D r, 0 < d2 -> z2 < D ->
  let p := 2 * zd / d2 in
  r * r == (p / 2) * (p / 2) - (z2 - D) / d2 -> 0 <= r ->
  let tau := - p / 2 + r in
  z2 + 2 * tau * zd + tau * tau * d2 == D /\ 0 < tau.
Proof.
  intros z2 zd d2 D r Hd Hz p Hr Hr0 tau.
  assert (Hd' : ~ d2 == 0) by lra.
  assert (Ep : p * d2 == 2 * zd) by (unfold p; field; exact Hd').
  assert (Eq : (z2 - D) / d2 * d2 == z2 - D) by (field; exact Hd').
  set (q := (z2 - D) / d2) in *.
  assert (Hq : q < 0).
  { assert (q * d2 < 0) by lra. destruct (Qlt_le_dec q 0); [assumption|]. exfalso. nra. }
  split.
  - assert (E : tau * tau + p * tau + q == 0).
    { unfold tau. transitivity (r * r - ((p / 2) * (p / 2) - q)); [field|]. rewrite Hr. ring. }
    transitivity (z2 + (tau * tau + p * tau) * d2 + (p * d2 - 2 * zd) * (- tau)); [ring|].
    rewrite Ep. assert (E2 : tau * tau + p * tau == - q) by lra. rewrite E2. lra.
  - unfold tau. assert (H1 : (p / 2) * (p / 2) < r * r) by lra.
    assert (H2 : - p / 2 == - (p / 2)) by field. rewrite H2.
    destruct (Qlt_le_dec (p / 2) r) as [G|G]; [lra|]. exfalso.
    destruct (Qlt_le_dec (p / 2) 0); nra.
Qed.

(* the first crossing of the border comes before any later point outside: tau <= alpha *)
Lemma border_before : forall c b a D tau al, 0 <= a -> c < D -> 0 < tau -> 0 <= al ->
  c + b * tau + a * (tau * tau) == D -> D <= c + b * al + a * (al * al) -> tau <= al.
Proof.
  intros c b a D tau al Ha Hc Ht Hal Etau Hout.
  destruct (Qlt_le_dec al tau) as [L|L]; [|exact L]. exfalso.
  assert (E : (c + b * al + a * (al * al)) * tau == D * tau + (tau - al) * (c - D - a * (al * tau))).
  { transitivity (c * tau + al * (b * tau) + a * (al * al) * tau); [ring|].
    assert (Eb : b * tau == D - c - a * (tau * tau)) by lra. rewrite Eb. ring. }
  assert (0 <= a * (al * tau)) by (apply mul_nonneg; [assumption|apply mul_nonneg; lra]).
  assert ((tau - al) * (c - D - a * (al * tau)) < 0) by nra.
  assert (D * tau <= (c + b * al + a * (al * al)) * tau) by nra.
  lra.
Qed.

(* ---- vector facts ---- *)
Lemma normsq_axpy : forall s d t, length s = length d ->
  dot (vadd s (vscale t d)) (vadd s (vscale t d)) == dot s s + 2 * t * dot d s + t * t * dot d d.
Proof.
  intros s d t L.
  assert (L' : length s = length (vscale t d)) by (rewrite vscale_length; exact L).
  rewrite (dot_vadd_l s (vscale t d) _ L').
  rewrite (dot_vadd_r s s (vscale t d) L'), (dot_vadd_r (vscale t d) s (vscale t d) L').
  rewrite !dot_vscale_l, !dot_vscale_r. rewrite (dot_comm s d). ring.
Qed.

Lemma bil_vadd_r : forall n H z x y, symm n H -> length H = n -> length z = n -> length x = n -> length y = n ->
  bil H z (vadd x y) == bil H z x + bil H z y.
Proof.
  intros n H z x y S LH Lz Lx Ly.
  assert (L : length (vadd x y) = n) by (rewrite vadd_length; congruence).
  rewrite (S z _ Lz L). unfold bil at 1. rewrite dot_vadd_l by congruence.
  fold (bil H x z). fold (bil H y z). rewrite (S x z Lx Lz), (S y z Ly Lz). reflexivity.
Qed.

Lemma vzero_dot_r : forall a b, vzero a -> dot b a == 0.
Proof. intros a b Z. rewrite dot_comm. apply dot_zero_l. exact Z. Qed.

(* ---- the rational instance of the loop, in the vocabulary of C10Model.v ---- *)
Definition q_errdiff (step res g : vec) : Q := qdiv (qadd (dot res step) (dot g step)) 2.
Definition q_border_arg (sq : Q -> Q) : vec -> vec -> Q -> Q := tr_border_arg Q (qops sq).
Definition q_loop (sq : Q -> Q) (border : vec -> vec -> Q -> Q) := tr_cg_loop Q (qops sq) Qle_bool border.

Lemma q_loop_S : forall sq border k H g tol2 delta step res dir cur it,
  q_loop sq border (S k) H g tol2 delta step res dir cur it =
  let Hd := mv H dir in
  let normH := dot dir Hd in
  if Qle_bool normH 0 then
    let tau := border step dir delta in
    mkCG (q_errdiff (vadd step (vscale tau dir)) (vadd res (vscale tau Hd)) g) (vadd step (vscale tau dir)) 1 it (q_border_arg sq step dir delta)
  else
    let alpha := qdiv cur normH in
    let cand := vadd step (vscale alpha dir) in
    if Qle_bool (qmul delta delta) (dot cand cand) then
      let tau := border step dir delta in
      mkCG (q_errdiff (vadd step (vscale tau dir)) (vadd res (vscale tau Hd)) g) (vadd step (vscale tau dir)) 2 it (q_border_arg sq step dir delta)
    else
      let res' := vadd res (vscale alpha Hd) in
      let nr2 := dot res' res' in
      if qltb nr2 tol2 then mkCG (q_errdiff cand res' g) cand 3 (S it) 0
      else q_loop sq border k H g tol2 delta cand res' (vsub (vscale (qdiv nr2 cur) dir) res') nr2 (S it).
Proof. reflexivity. Qed.

Lemma q_border_eq : forall sq z d delta,
  q_border sq z d delta = qadd (qdiv (- qdiv (qmul 2 (dot d z)) (dot d d)) 2) (sq (q_border_arg sq z d delta)).
Proof. reflexivity. Qed.
Lemma q_border_old_eq : forall sq z d delta,
  q_border_old sq z d delta = qadd (qdiv (qdiv (qmul 2 (dot d z)) (dot d d)) 2) (sq (q_border_arg sq z d delta)).
Proof. reflexivity. Qed.
Lemma q_border_arg_eq : forall sq z d delta,
  q_border_arg sq z d delta ==
  (2 * dot d z / dot d d / 2) * (2 * dot d z / dot d d / 2) - (dot z z - delta * delta) / dot d d.
Proof.
  intros. unfold q_border_arg, tr_border_arg, tr_border_p, g_sqr, g_normsq. cbn [o_sub o_mul o_div qops].
  rewrite q_two_eq. change (gdot Q (qops sq)) with dot.
  rewrite qsub_eq, qmul_eq, !qdiv_eq, qmul_eq, qsub_eq, qmul_eq. reflexivity.
Qed.

Lemma Qdiv_zero_r : forall x y : Q, y == 0 -> x / y == 0.
Proof.
  intros x [yn yd] Hy. unfold Qeq in Hy. cbn in Hy. rewrite Z.mul_1_r in Hy. subst yn.
  unfold Qdiv, Qinv. cbn. ring.
Qed.

Lemma sq_zero : forall r : Q, r * r == 0 -> r == 0.
Proof. intros r Hr. destruct (Qmult_integral _ _ Hr); assumption. Qed.

Section CG.
  Variable sq : Q -> Q.
  Variable n : nat.
  Variable H : mat.
  Variable g : vec.
  Hypothesis Lg : length g = n.
  Hypothesis LH : length H = n.
  Hypothesis SH : symm n H.

  (* twice the model value g's + s'Hs/2 as errorDifference computes it from the running residual *)
  Definition phi2 (step res : vec) : Q := dot res step + dot g step.

  Record cg_inv (D : Q) (step res dir : vec) (cur : Q) : Prop := mkInv {
    inv_ls : length step = n; inv_lr : length res = n; inv_ld : length dir = n;
    inv_cur : cur == dot res res;
    inv_rd : dot res dir == - cur;
    inv_res : forall y, length y = n -> dot y res == dot y g + bil H y step;      (* residual = gradient + H step *)
    inv_in : dot step step < D;
    inv_phi : phi2 step res <= 0 }.

  Lemma Hd_length : forall dir, length (mv H dir) = n.
  Proof. intros. rewrite mv_length. exact LH. Qed.

  Lemma phi2_axpy : forall D step res dir cur t, cg_inv D step res dir cur ->
    phi2 (vadd step (vscale t dir)) (vadd res (vscale t (mv H dir))) == phi2 step res - 2 * t * cur + t * t * bil H dir dir.
  Proof.
    intros D step res dir cur t I. destruct I as [Ls Lr Ld Ec Erd Eres _ _].
    pose proof (Hd_length dir) as LHd.
    assert (L1 : length step = length (vscale t dir)) by (rewrite vscale_length; congruence).
    assert (L2 : length res = length (vscale t (mv H dir))) by (rewrite vscale_length; congruence).
    assert (A4 : dot (mv H dir) step == - cur - dot dir g).
    { rewrite dot_comm. fold (bil H step dir). rewrite (SH step dir Ls Ld).
      pose proof (Eres dir Ld) as E. rewrite (dot_comm dir res), Erd in E. lra. }
    assert (A5 : dot (mv H dir) dir == bil H dir dir) by (rewrite dot_comm; reflexivity).
    unfold phi2. rewrite (dot_vadd_l res _ _ L2), dot_vscale_l.
    rewrite (dot_vadd_r res step _ L1), (dot_vadd_r (mv H dir) step _ L1), (dot_vadd_r g step _ L1).
    rewrite !dot_vscale_r, A4, A5, Erd, (dot_comm dir g). ring.
  Qed.

  Lemma errdiff_eq : forall step res, q_errdiff step res g == phi2 step res / 2.
  Proof. intros. unfold q_errdiff, phi2. rewrite qdiv_eq, qadd_eq. reflexivity. Qed.

  Lemma cur_nonneg : forall D step res dir cur, cg_inv D step res dir cur -> 0 <= cur.
  Proof. intros D step res dir cur I. rewrite (inv_cur _ _ _ _ _ I). apply dot_self_nonneg. Qed.

  (* leaving through borderDistance (repaired formula) *)
  Lemma border_exit_good : forall delta step res dir cur, 0 < delta ->
    cg_inv (delta * delta) step res dir cur ->
    (bil H dir dir <= 0 \/
     (0 < bil H dir dir /\
      delta * delta <= dot (vadd step (vscale (qdiv cur (bil H dir dir)) dir)) (vadd step (vscale (qdiv cur (bil H dir dir)) dir)))) ->
    sqrt_ok_at sq (q_border_arg sq step dir delta) ->
    let tau := q_border sq step dir delta in
    dot (vadd step (vscale tau dir)) (vadd step (vscale tau dir)) <= delta * delta /\
    q_errdiff (vadd step (vscale tau dir)) (vadd res (vscale tau (mv H dir))) g <= 0.
  Proof.
    intros delta step res dir cur Hdl I Hcase [Hsq Hsq0] tau.
    pose proof (cur_nonneg _ _ _ _ _ I) as Hcur.
    pose proof (inv_in _ _ _ _ _ I) as Hin. pose proof (inv_phi _ _ _ _ _ I) as Hphi.
    assert (Lsd : length step = length dir) by (rewrite (inv_ls _ _ _ _ _ I), (inv_ld _ _ _ _ _ I); reflexivity).
    rewrite errdiff_eq, (phi2_axpy _ _ _ _ _ tau I), (normsq_axpy _ _ tau Lsd).
    set (z2 := dot step step) in *. set (zd := dot dir step) in *. set (d2 := dot dir dir) in *.
    set (nH := bil H dir dir) in *. set (P := phi2 step res) in *.
    assert (Etau : tau == - (2 * zd / d2) / 2 + sq (q_border_arg sq step dir delta)).
    { unfold tau. rewrite q_border_eq, qadd_eq, qdiv_eq, qdiv_eq, qmul_eq. reflexivity. }
    pose proof (q_border_arg_eq sq step dir delta) as Earg. fold zd d2 z2 in Earg.
    set (r := sq (q_border_arg sq step dir delta)) in *.
    destruct (Qlt_le_dec 0 d2) as [Hd2|Hd2].
    - (* a direction: tau is the positive root *)
      assert (Hr : r * r == (2 * zd / d2 / 2) * (2 * zd / d2 / 2) - (z2 - delta * delta) / d2) by (rewrite Hsq; exact Earg).
      destruct (border_root z2 zd d2 (delta * delta) r Hd2 Hin Hr Hsq0) as [Eroot Htau].
      cbv zeta in Eroot, Htau. rewrite <- Etau in Eroot, Htau.
      split; [rewrite Eroot; lra|].
      assert (Hchg : - 2 * tau * cur + tau * tau * nH <= 0).
      { destruct Hcase as [Hneg|[Hpos Hout]].
        - assert (tau * tau * nH <= 0) by (apply mul_nonneg_nonpos; [apply mul_nonneg; lra|exact Hneg]).
          assert (0 <= tau * cur) by (apply mul_nonneg; lra). lra.
        - fold nH in Hout. rewrite (normsq_axpy _ _ _ Lsd) in Hout. fold z2 zd d2 in Hout.
          set (al := qdiv cur nH) in *.
          assert (Eal : al == cur / nH) by (unfold al; apply qdiv_eq).
          assert (Hal : 0 <= al). { rewrite Eal. apply Qle_shift_div_l; lra. }
          assert (Haln : al * nH == cur). { rewrite Eal. field. lra. }
          assert (Hle : tau <= al).
          { apply (border_before z2 (2 * zd) d2 (delta * delta) tau al); lra. }
          assert (tau * (tau * nH) <= tau * cur).
          { apply Qmult_le_l; [exact Htau|]. rewrite <- Haln. apply Qmult_le_r; assumption. }
          assert (0 <= tau * cur) by (apply mul_nonneg; lra). lra. }
      apply Qle_shift_div_r; lra.
    - (* the zero direction (zero gradient in exact arithmetic): tau = 0 *)
      assert (Ed2 : d2 == 0) by (pose proof (dot_self_nonneg dir); unfold d2 in *; lra).
      assert (Zd : vzero dir) by (apply dot_self_zero_vzero; exact Ed2).
      assert (Ezd : zd == 0) by (apply dot_zero_l; exact Zd).
      assert (EnH : nH == 0) by (apply dot_zero_l; exact Zd).
      assert (Er : r == 0).
      { apply sq_zero. rewrite Hsq, Earg. rewrite !(Qdiv_zero_r _ d2 Ed2). reflexivity. }
      assert (Et : tau == 0). { rewrite Etau, Er, (Qdiv_zero_r _ d2 Ed2). field. }
      rewrite Et, Ezd, Ed2, EnH. split; [lra|]. apply Qle_shift_div_r; lra.
  Qed.

  Lemma inv_step : forall D step res dir cur, cg_inv D step res dir cur -> 0 < bil H dir dir ->
    let alpha := qdiv cur (bil H dir dir) in
    let cand := vadd step (vscale alpha dir) in
    let res' := vadd res (vscale alpha (mv H dir)) in
    let nr2 := dot res' res' in
    dot cand cand < D ->
    cg_inv D cand res' (vsub (vscale (qdiv nr2 cur) dir) res') nr2.
  Proof.
    intros D step res dir cur I HnH alpha cand res' nr2 Hin.
    pose proof I as [Ls Lr Ld Ec Erd Eres _ Hphi].
    pose proof (Hd_length dir) as LHd. pose proof (cur_nonneg _ _ _ _ _ I) as Hcur.
    assert (L1 : length step = length (vscale alpha dir)) by (rewrite vscale_length; congruence).
    assert (L2 : length res = length (vscale alpha (mv H dir))) by (rewrite vscale_length; congruence).
    assert (Lc : length cand = n) by (unfold cand; rewrite vadd_length; assumption).
    assert (Lr' : length res' = n) by (unfold res'; rewrite vadd_length; assumption).
    assert (Ea : alpha == cur / bil H dir dir) by (unfold alpha; apply qdiv_eq).
    assert (Ean : alpha * bil H dir dir == cur) by (rewrite Ea; field; lra).
    assert (E0 : dot res' dir == 0).
    { unfold res'. rewrite (dot_vadd_l res _ _ L2), dot_vscale_l, (dot_comm (mv H dir) dir).
      change (dot dir (mv H dir)) with (bil H dir dir). rewrite Erd. lra. }
    constructor.
    - exact Lc.
    - exact Lr'.
    - rewrite vsub_length; rewrite vscale_length; congruence.
    - reflexivity.
    - assert (L3 : length (vscale (qdiv nr2 cur) dir) = length res') by (rewrite vscale_length; congruence).
      rewrite (dot_vsub_r res' _ _ L3), dot_vscale_r, E0. unfold nr2. ring.
    - intros y Ly. unfold res', cand.
      rewrite (dot_vadd_r y res _ L2), dot_vscale_r.
      rewrite (bil_vadd_r n H y step (vscale alpha dir) SH LH Ly Ls) by (rewrite vscale_length; exact Ld).
      rewrite (bil_vscale_r n H y alpha dir SH Ly Ld). rewrite (Eres y Ly). unfold bil. ring.
    - exact Hin.
    - unfold cand, res'. rewrite (phi2_axpy _ _ _ _ _ alpha I).
      assert (0 <= alpha * cur). { apply mul_nonneg; [rewrite Ea; apply Qle_shift_div_l; lra|exact Hcur]. }
      assert (E : alpha * alpha * bil H dir dir == alpha * cur).
      { transitivity (alpha * (alpha * bil H dir dir)); [ring|]. rewrite Ean. reflexivity. }
      rewrite E. lra.
  Qed.

  (* what the theorems say about an answer of trustRegionCG *)
  Definition cg_good (D : Q) (r : tr_cg_result Q) : Prop := dot (cg_step r) (cg_step r) <= D /\ cg_pred r <= 0.

  Lemma q_loop_good : forall fuel tol2 delta step res dir cur it, 0 < delta ->
    cg_inv (delta * delta) step res dir cur ->
    let r := q_loop sq (q_border sq) fuel H g tol2 delta step res dir cur it in
    ((cg_exit r = 1 \/ cg_exit r = 2)%nat -> sqrt_ok_at sq (cg_sqarg r)) -> cg_good (delta * delta) r.
  Proof.
    induction fuel as [|k IH]; intros tol2 delta step res dir cur it Hd I.
    - cbv zeta. unfold q_loop, cg_good. cbn [tr_cg_loop cg_step cg_pred o_zero qops]. intros _.
      split; [apply Qlt_le_weak; exact (inv_in _ _ _ _ _ I)|lra].
    - rewrite q_loop_S. cbv zeta. unfold cg_good. change (dot dir (mv H dir)) with (bil H dir dir).
      destruct (Qle_bool (bil H dir dir) 0) eqn:E1.
      + cbn [cg_exit cg_sqarg cg_step cg_pred]. intros Hs. apply Qle_bool_true in E1.
        apply (border_exit_good delta step res dir cur Hd I); [left; exact E1|apply Hs; left; reflexivity].
      + apply Qle_bool_false in E1.
        destruct (Qle_bool (qmul delta delta) _) eqn:E2.
        * cbn [cg_exit cg_sqarg cg_step cg_pred]. intros Hs. apply Qle_bool_true in E2. rewrite qmul_eq in E2.
          apply (border_exit_good delta step res dir cur Hd I); [right; split; assumption|apply Hs; right; reflexivity].
        * apply Qle_bool_false in E2. rewrite qmul_eq in E2.
          pose proof (inv_step _ _ _ _ _ I E1 E2) as I'. cbv zeta in I'.
          destruct (qltb _ tol2).
          -- cbn [cg_exit cg_sqarg cg_step cg_pred]. intros _. split; [apply Qlt_le_weak; exact E2|].
             rewrite errdiff_eq. pose proof (inv_phi _ _ _ _ _ I'). apply Qle_shift_div_r; lra.
          -- apply IH; assumption.
  Qed.

  Lemma zeros_vzero : forall v : vec, vzero (map (fun _ => 0) v).
  Proof. induction v; constructor; [reflexivity|assumption]. Qed.

  Lemma mv_vzero : forall x, vzero x -> vzero (mv H x).
  Proof. intros x Z. unfold mv. apply Forall_forall. intros a Ha. apply in_map_iff in Ha. destruct Ha as [r [<- _]]. apply vzero_dot_r. exact Z. Qed.

  Lemma init_inv : forall delta, 0 < delta -> cg_inv (delta * delta) (map (fun _ => 0) g) g (vneg g) (dot g g).
  Proof.
    intros delta Hd. pose proof (zeros_vzero g) as Z.
    constructor.
    - rewrite map_length. exact Lg.
    - exact Lg.
    - rewrite vneg_length. exact Lg.
    - reflexivity.
    - apply dot_vneg_r.
    - intros y Ly. unfold bil. rewrite (vzero_dot_r _ y (mv_vzero _ Z)). ring.
    - rewrite (dot_zero_l _ _ Z). nra.
    - unfold phi2. rewrite !(vzero_dot_r _ _ Z). lra.
  Qed.

  (* trustRegionCG as repaired: the step stays inside the trust region and the predicted change is not positive *)
  Theorem q_cg_good : forall tol delta, 0 < delta ->
    let r := q_cg sq H g tol delta in
    ((cg_exit r = 1 \/ cg_exit r = 2)%nat -> sqrt_ok_at sq (cg_sqarg r)) -> cg_good (delta * delta) r.
  Proof.
    intros tol delta Hd. unfold q_cg, tr_cg, tr_cg_with. cbn [o_ltb qops].
    destruct (qltb _ _).
    - cbv zeta. unfold cg_good. cbn [cg_step cg_pred o_zero qops]. intros _. split; [rewrite (dot_zero_l _ _ (zeros_vzero g)); nra|lra].
    - apply (q_loop_good (10 * length g) _ delta _ _ _ _ _ Hd (init_inv delta Hd)).
  Qed.
End CG.

(* ================= Part D: whole steps and runs of the repaired code ================= *)
Section QRun.
  Variable sq : Q -> Q.
  Variable f : vec -> Q.
  Variable fd : vec -> Q * vec * list vec.

  (* the objective has dimension n and a symmetric Hessian *)
  Definition fd_shape (n : nat) : Prop :=
    forall x, length (snd (fst (fd x))) = n /\ length (snd (fd x)) = n /\ symm n (snd (fd x)).

  Definition sqrt_ok_for (r : tr_cg_result Q) : Prop := (cg_exit r = 1 \/ cg_exit r = 2)%nat -> sqrt_ok_at sq (cg_sqarg r).

  Lemma q_tr_step_unfold : forall s,
    q_tr_step sq f fd s = q_tr_step_with sq f fd (cg_pred (q_tr_solve sq s)) (cg_step (q_tr_solve sq s)) s.
  Proof. reflexivity. Qed.

  Theorem q_tr_step_good : forall n s, coherent f fd -> fd_shape n -> g_tr_consistent Q fd s ->
    0 < tr_delta s -> 0 < tr_ratio s -> sqrt_ok_for (q_tr_solve sq s) ->
    let r := q_tr_solve sq s in
    dot (cg_step r) (cg_step r) <= tr_delta s * tr_delta s /\ cg_pred r <= 0 /\
    tr_val (q_tr_step sq f fd s) <= tr_val s.
  Proof.
    intros n s Hc Hsh Hs Hd Hr Hsq r.
    destruct (Hsh (tr_pt s)) as [Lg [LH SH]]. unfold g_tr_consistent in Hs. rewrite Hs in Lg, LH, SH. cbn [fst snd] in Lg, LH, SH.
    destruct (q_cg_good sq n (tr_hess s) (tr_grad s) Lg LH SH (tr_tolerance Q (qops sq) (tr_grad s)) (tr_delta s) Hd Hsq) as [Hin Hp].
    split; [exact Hin|]. split; [exact Hp|].
    rewrite q_tr_step_unfold. apply q_step_with_never_increases; assumption.
  Qed.

  Lemma q_tr_run_is_run_with : forall n s,
    q_tr_run sq f fd n s = q_tr_run_with sq f fd (fun _ s' => (cg_pred (q_tr_solve sq s'), cg_step (q_tr_solve sq s'))) n s.
  Proof. intros. apply (g_tr_run_is_run_with Q (qops sq) Qle_bool q099 f fd). Qed.

  (* after init and after any number of steps: consistent state, the ratio set by init, a positive radius; the next step
     keeps its trial point inside the trust region, predicts no increase and does not increase the value *)
  Theorem q_tr_run_good : forall n x0 d0 k, coherent f fd -> fd_shape n -> 0 < d0 ->
    let s := q_tr_run sq f fd k (q_tr_init sq fd x0 d0) in
    g_tr_consistent Q fd s /\ 0 < tr_delta s /\
    (sqrt_ok_for (q_tr_solve sq s) ->
     let r := q_tr_solve sq s in
     dot (cg_step r) (cg_step r) <= tr_delta s * tr_delta s /\ cg_pred r <= 0 /\
     tr_val (q_tr_run sq f fd (S k) (q_tr_init sq fd x0 d0)) <= tr_val s).
  Proof.
    intros n x0 d0 k Hc Hsh Hd s.
    destruct (g_tr_run_consistent Q (qops sq) Qle_bool q099 q01 f fd k x0 d0) as [Cs Cr]. fold (q_tr_run sq f fd) in Cs, Cr. fold (q_tr_init sq fd) in Cs, Cr. fold s in Cs, Cr.
    assert (Dp : 0 < tr_delta s).
    { unfold s. rewrite q_tr_run_is_run_with. apply q_run_with_radius_positive. exact Hd. }
    split; [exact Cs|]. split; [exact Dp|]. intros Hsq.
    assert (Rp : 0 < tr_ratio s) by (rewrite Cr; reflexivity).
    exact (q_tr_step_good n s Hc Hsh Cs Dp Rp Hsq).
  Qed.
End QRun.

(* ================= Part E: examples and the regression witnesses of the repair fd35712b ================= *)
(* floor of the square root with 30 binary digits after the point: exact on squares of (small) rationals *)
Definition fsqrt (x : Q) : Q := Qred (Z.sqrt (Qnum x * Zpos (Qden x) * 4 ^ 30) # (Qden x * 2 ^ 30)).

Definition ex_H : mat := [[1; 0]; [0; 16]].
Definition ex_g : vec := [16 # 5; - (12 # 5)].

Lemma ex_H_symm : symm 2 ex_H.
Proof.
  intros y x Ly Lx. destruct y as [|y1 [|y2 [|]]]; try discriminate. destruct x as [|x1 [|x2 [|]]]; try discriminate.
  unfold bil, ex_H, mv. cbn [map dot]. rewrite !qadd_eq, !qmul_eq. ring.
Qed.

(* |g| = 4, tolerance 2, radius 25/12: the second CG iteration crosses the border.  Repaired formula: the step ends ON the
   border and predicts a decrease; the hypotheses of q_cg_good hold (the root is taken of the square of 236/783) *)
Example ex_cg_border_second_iteration :
  let r := q_cg fsqrt ex_H ex_g 2 (25 # 12) in
  cg_exit r = 2%nat /\ cg_iters r = 1%nat /\ sqrt_ok_at fsqrt (cg_sqarg r) /\ Qeq_bool (cg_sqarg r) ((236 # 783) * (236 # 783)) = true /\
  Qeq_bool (dot (cg_step r) (cg_step r)) ((25 # 12) * (25 # 12)) = true /\ cg_pred r < 0.
Proof. vm_compute. repeat split; try reflexivity; discriminate. Qed.

(* the formula before the repair on the same input: exact square root, and the step (-3, 1/6) has length > 3 with radius 25/12 *)
Example ex_cg_old_border_leaves_region_refuted :
  let r := q_cg_old fsqrt ex_H ex_g 2 (25 # 12) in
  cg_exit r = 2%nat /\ sqrt_ok_at fsqrt (cg_sqarg r) /\ cg_step r = [- (3 # 1); 1 # 6] /\
  (25 # 12) * (25 # 12) < dot (cg_step r) (cg_step r).
Proof. vm_compute. repeat split; try reflexivity; discriminate. Qed.

(* the objective of the failing input of the repaired defect: f(x, y) = (x^2 + 16 y^2) / 2, start (3, -1), radius 2 *)
Definition ex_f : vec -> Q := quad_f ex_H [0; 0].
Definition ex_fd : vec -> Q * vec * list vec := quad_fd ex_H [0; 0].
Definition ex_s0 : tr_state := q_tr_init fsqrt ex_fd [3; -1] 2.

Lemma ex_coherent : coherent ex_f ex_fd.
Proof. intros x. reflexivity. Qed.
Lemma ex_shape : fd_shape ex_fd 2.
Proof.
  intros x. unfold ex_fd, quad_fd. cbn [fst snd]. split; [|split; [reflexivity|exact ex_H_symm]].
  apply quad_grad_length; reflexivity.
Qed.

(* with the formula of before fd35712b the second step went from 3.946 to 7.39 (the C++ gave 12.5, 3.9464068, 7.3915939) and
   moved the point by more than 5 with radius 2; fsqrt rounds the irrational roots of this run down at 2^-30 *)
Example ex_old_formula_increases_value_refuted :
  let s1 := q_tr_step_old fsqrt ex_f ex_fd ex_s0 in
  let s2 := q_tr_step_old fsqrt ex_f ex_fd s1 in
  Qeq_bool (tr_val ex_s0) (25 # 2) = true /\ tr_val s1 < 4 /\ 7 < tr_val s2 /\ Qeq_bool (tr_delta s1) 2 = true /\
  5 * 5 < dot (vsub (tr_pt s2) (tr_pt s1)) (vsub (tr_pt s2) (tr_pt s1)).
Proof. vm_compute. repeat split; reflexivity. Qed.

(* the repaired step on the same input: 12.5 > value after one step > value after two steps, second step no longer than the radius
   (up to the 2^-30 of fsqrt) *)
Example ex_repaired_run_decreases :
  let s1 := q_tr_run fsqrt ex_f ex_fd 1 ex_s0 in
  let s2 := q_tr_run fsqrt ex_f ex_fd 2 ex_s0 in
  tr_val s2 < tr_val s1 /\ tr_val s1 < tr_val ex_s0 /\
  dot (vsub (tr_pt s2) (tr_pt s1)) (vsub (tr_pt s2) (tr_pt s1)) <= tr_delta s1 * tr_delta s1.
Proof. vm_compute. repeat split; try reflexivity; discriminate. Qed.
