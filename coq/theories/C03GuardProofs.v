(* C03 — shared batches: the only way a structural operation of the heap model fails although the value-semantics
   operation is defined is the independence check. *)
From Coq Require Import List Arith Bool Lia.
From SharkV Require Import ListAux C03Model C03Proofs C12Model C03Heap C03HeapProofs.
Import ListNotations.

Section P.
Context {A Sh : Type}.
Variable dflt : A.
Variable shape0 : Sh.
Notation state := (state A Sh).
Notation op := (op A Sh).
Notation hnd := (hnd shape0).
Notation contents := (contents shape0).
Notation step := (step dflt shape0).
Notation astep := (astep dflt shape0).
Notation independent := (independent shape0).

Theorem step_fails_only_by_the_independence_check (o : op) (st : state) :
  is_write o = false -> astep o (abs st) <> None -> step o st = None ->
  exists r, guarded o = Some r /\ valid st r = true /\ independent st r = false.
Proof.
  intros NW AS E. destruct o; simpl in NW; try discriminate; cbn [C03Heap.step C03Heap.astep guarded] in *;
    rewrite ?avalid_abs, ?aget_abs in AS; cbn [fst snd] in AS; unfold alloc in E; cbv beta iota in E.
  - destruct (valid st r); [|congruence]. destruct (create l m); congruence.
  - destruct (valid st r && valid st q); congruence.
  - destruct (valid st r); congruence.
  - unfold indexed_subset in AS. rewrite contents_length in AS.
    destruct (valid st r && valid st q); [|congruence]. simpl in E.
    destruct (forallb (fun i => i <? length (h_ids (hnd st r))) idx); congruence.
  - unfold indexed_subset in AS. rewrite contents_length in AS.
    destruct (valid st r && valid st q && valid st t && negb (r =? q) && negb (r =? t) && negb (q =? t)); [|congruence]. simpl in E.
    destruct (forallb (fun i => i <? length (h_ids (hnd st r))) idx); congruence.
  - unfold splice in AS. rewrite contents_length in AS.
    destruct (valid st r) eqn:Vr; [|simpl in AS; congruence]. destruct (valid st q); [|simpl in AS; congruence].
    destruct (negb (r =? q)); [|simpl in AS; congruence]. simpl in E, AS.
    destruct (independent st r) eqn:I; [|eauto]. simpl in E.
    destruct (b <=? length (h_ids (hnd st r))); congruence.
  - destruct (valid st r && valid st q && negb (r =? q)); congruence.
  - rewrite contents_length in AS. destruct (valid st r && valid st q && (b <? length (h_ids (hnd st q)))); congruence.
  - destruct (valid st r); [|congruence]. destruct (independent st r); congruence.
  - destruct (valid st r) eqn:Vr; [|congruence]. simpl in E. destruct (independent st r) eqn:I; [|eauto].
    destruct (repartition szs (contents st r)); congruence.
  - destruct (valid st r) eqn:Vr; [|congruence]. simpl in E. destruct (independent st r) eqn:I; [|eauto]. simpl in E.
    unfold split_batch in AS. rewrite contents_length in AS.
    destruct (b <? length (h_ids (hnd st r))); [|congruence].
    destruct (length (nth b (contents st r) []) <? k); [congruence|].
    destruct ((k =? 0) || (k =? length (nth b (contents st r) []))); congruence.
  - destruct (valid st r); [|congruence]. destruct (reorder dflt idx (contents st r)); congruence.
  - destruct (valid st r && forallb (fun i => i <? nelems (contents st r)) order && (sum bs =? length order)); congruence.
Qed.

End P.
