(* C20 — work split by thread number: generic executable model.  Definitions only.

   tools/translate_omp.py (split_sites) reads, from the clang AST of the CURRENT source, the integer
   expressions by which a routine hands every worker `t` of `n` its index range [s t, e t) and renders
   them as Gallina functions over nat into coq/gen/C20SplitDefs.v on every run.  This file holds what
   is independent of the source: what it means for such ranges to tile an interval, the list of
   indices a worker visits, a boolean decision procedure (used to refute a failed obligation on a
   concrete input and by the extracted driver), and the record through which the driver reaches the
   generated functions.

   C++ unsigned arithmetic = nat arithmetic provided (generated side obligations `*_safe`)
   no divisor is 0, no subtraction wraps, and every intermediate value stays below 2^64
   (`*_nowrap`: bounded by a polynomial of the inputs, which are < 2^31 because the sources cast them
   to int). *)
From Coq Require Import List Arith Bool PeanoNat.
Import ListNotations.

(* worker t visits s t, s t + 1, ..., e t - 1  (`for(i = start; i != end; ++i)`) *)
Definition split_range (s e : nat -> nat) (t : nat) : list nat := seq (s t) (e t - s t).

Definition split_ranges (n : nat) (s e : nat -> nat) : list (list nat) := map (split_range s e) (seq 0 n).

(* the n ranges [s 0,e 0), ..., [s (n-1), e (n-1)) follow each other without gap or overlap and
   together are exactly [lo, hi) *)
Definition tiles (lo hi n : nat) (s e : nat -> nat) : Prop :=
  (n = 0 -> lo = hi) /\
  (0 < n -> s 0 = lo) /\
  (forall t, t < n -> s t <= e t) /\
  (forall t, t + 1 < n -> e t = s (t + 1)) /\
  (forall t, t + 1 = n -> e t = hi).

(* decision procedure *)
Definition tiles_b (lo hi n : nat) (s e : nat -> nat) : bool :=
  match n with
  | 0 => lo =? hi
  | S m => (s 0 =? lo) && (e m =? hi) &&
           forallb (fun t => s t <=? e t) (seq 0 n) &&
           forallb (fun t => e t =? s (t + 1)) (seq 0 m)
  end.

(* two levels (SimpleNearestNeighbors: one slice of k cells per (pattern p, thread t)):
   the P outer ranges tile [0, cap) and, for each p, the T inner ranges tile the p-th outer range *)
Definition tiles2 (cap P T : nat) (ms me : nat -> nat) (s e : nat -> nat -> nat) : Prop :=
  tiles 0 cap P ms me /\ forall p, p < P -> tiles (ms p) (me p) T (s p) (e p).

Definition tiles2_b (cap P T : nat) (ms me : nat -> nat) (s e : nat -> nat -> nat) : bool :=
  tiles_b 0 cap P ms me && forallb (fun p => tiles_b (ms p) (me p) T (s p) (e p)) (seq 0 P).

(* ---------------------------------------------------------------- interface to the generated sites *)

(* a range site (ErrorFunction / NegativeLogLikelihood): x = the site's inputs in the order listed in
   the generated file (number of batches, SHARK_NUM_THREADS, ...) *)
Record split_site := SplitSite {
  ss_total : list nat -> nat;          (* size of the index space that must be covered *)
  ss_bound : list nat -> nat;          (* number of iterations of the parallel loop (workers) *)
  ss_lo : list nat -> nat -> nat;      (* first index of worker t *)
  ss_hi : list nat -> nat -> nat       (* one past the last index of worker t *)
}.

Definition site_ranges (st : split_site) (x : list nat) : list (list nat) :=
  split_ranges (ss_bound st x) (ss_lo st x) (ss_hi st x).

Definition site_tiles_b (st : split_site) (x : list nat) : bool :=
  tiles_b 0 (ss_total st x) (ss_bound st x) (ss_lo st x) (ss_hi st x).

(* a slice site (SimpleNearestNeighbors): cells of one array handed out per (outer index p, thread t) *)
Record slice_site := SliceSite {
  sl_cap : list nat -> nat;                    (* allocated cells *)
  sl_outer : list nat -> nat;                  (* P: number of outer indices *)
  sl_threads : list nat -> nat;                (* T: number of thread numbers that may occur *)
  sl_lo : list nat -> nat -> nat -> nat;       (* first cell of (p, t) *)
  sl_hi : list nat -> nat -> nat -> nat;       (* one past the last cell of (p, t) *)
  sl_mlo : list nat -> nat -> nat;             (* cells merged for p afterwards: [mlo p, mhi p) *)
  sl_mhi : list nat -> nat -> nat
}.

Definition slice_cells (st : slice_site) (x : list nat) (p t : nat) : list nat :=
  split_range (sl_lo st x p) (sl_hi st x p) t.

Definition slice_tiles_b (st : slice_site) (x : list nat) : bool :=
  tiles2_b (sl_cap st x) (sl_outer st x) (sl_threads st x) (sl_mlo st x) (sl_mhi st x) (sl_lo st x) (sl_hi st x).
