(* C13 — HypervolumeContributionMD.h (overloads with reference point) and the selection of the k smallest /
   largest contributors as coded: executable model (definitions only).

   smallest / largest (points, k, ref):
     for every i:  pointset := points without point i;  restrictSet(pointset, point_i);
                   result[i] = ( exp(sum(log(ref - point_i))) - hv(pointset, ref),  i )
     std::sort(result)  (KeyValuePair::operator< compares the keys only);
     smallest: the first k entries;   largest: the last k entries, reversed.
   restrictSet (pointset, point):
     every p := max(p, point);  nonDominatedSort;  swap-with-last compaction that keeps the points of rank 1
     (pos = 0, end = n; while pos != end: rank[pos] = 1 -> ++pos, otherwise --end and swap(pos, end)); erase [end, n).
   hv is the front end HypervolumeCalculator (model hv_dispatch of C13Disp.v), nonDominatedSort the sorting front end
   (model nds_front of C13Dc.v).  exp(sum(log(.))) is modelled by the exact product [box_vol] (the check compares this
   column at 1e-9 relative).  std::sort is modelled by a stable insertion sort on the keys; the theorems hold for
   every arrangement sorted by the key (the values are determined, the indices of equal contributions are not). *)
From Coq Require Import List ZArith Lia Bool Arith.
From SharkV Require Import ListAux C13Model C13Wfg C13Disp C13Dc.
Import ListNotations.

(* ---- sorting (contribution, index) pairs by the contribution *)
Definition kv := (Z * nat)%type.
Fixpoint insert_kv (p : kv) (l : list kv) : list kv :=
  match l with
  | [] => [p]
  | q :: t => if (fst p <? fst q)%Z then p :: l else q :: insert_kv p t
  end.
Definition sort_kv (l : list kv) : list kv := fold_right insert_kv [] l.

(* result.erase(result.begin()+k, result.end()) *)
Definition smallest_kv (k : nat) (l : list kv) : list kv := firstn k (sort_kv l).
(* result.erase(result.begin(), result.end()-k); std::reverse *)
Definition largest_kv (k : nat) (l : list kv) : list kv := rev (skipn (length l - k) (sort_kv l)).

(* ---- restrictSet *)
Fixpoint swap_compact {A} (keep : A -> bool) (fuel : nat) (l : list A) : list A :=
  match fuel with
  | O => []
  | S f =>
    match l with
    | [] => []
    | x :: t =>
      if keep x then x :: swap_compact keep f t
      else match rev t with
           | [] => []
           | y :: r => swap_compact keep f (y :: rev r)     (* the last element takes the place of x *)
           end
    end
  end.

Definition restrict_set (ranks : list point -> list nat) (S : list point) (p : point) : list point :=
  let L := map (fun q => pmax q p) S in
  map fst (swap_compact (fun qr : point * nat => Nat.eqb (snd qr) 1) (length L) (combine L (ranks L))).

Section Md.
Variable hv : point -> list point -> Z.          (* HypervolumeCalculator *)
Variable ranks : list point -> list nat.         (* nonDominatedSort *)

Definition contrib_md (ref : point) (S : list point) (i : nat) : Z :=
  let p := nth i S [] in
  (box_vol ref p - hv ref (restrict_set ranks (remove_nth i S) p))%Z.

Definition contribs_md (ref : point) (S : list point) : list kv :=
  map (fun i => (contrib_md ref S i, i)) (seq 0 (length S)).

Definition md_smallest (ref : point) (S : list point) (k : nat) : list kv := smallest_kv k (contribs_md ref S).
Definition md_largest (ref : point) (S : list point) (k : nat) : list kv := largest_kv k (contribs_md ref S).
End Md.

(* the extracted instance: front ends of /repo; HOY (4 objectives) is a parameter *)
Definition contribs_md_inst (hoy : point -> list point -> Z) : point -> list point -> list kv :=
  contribs_md (hv_dispatch hoy) nds_front.
