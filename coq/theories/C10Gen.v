(* C10 — model functions written ONCE over an abstract number type T (definitions only).
   The arithmetic is a record of operations [ops T].  C10LbfgsModel.v / C10AdamRprop.v instantiate it with the exact
   rationals of C10Model.v (qadd, qsub, qmul, ... : the theorems are about these instances); the extracted code is
   instantiated a second time by ocaml/c10_driver.ml with IEEE doubles, so that the very same Coq terms replay single
   steps of the real optimizers from the implementation's own previous state (tools/c10.py, tolerance 1e-10). *)
From Coq Require Import List Bool Arith.
Import ListNotations.

Record ops (T : Type) : Type := mkOps {
  o_zero : T; o_one : T;
  o_add : T -> T -> T; o_sub : T -> T -> T; o_mul : T -> T -> T; o_div : T -> T -> T; o_neg : T -> T;
  o_ltb : T -> T -> bool;          (* a < b *)
  o_eqb : T -> T -> bool;          (* a == b *)
  o_sqrt : T -> T;                 (* std::sqrt (Adam only; an arbitrary function in the rational instance) *)
  o_pow : T -> nat -> T }.         (* std::pow(a, k) for an unsigned counter k (Adam only) *)
Arguments o_zero {T}. Arguments o_one {T}. Arguments o_add {T}. Arguments o_sub {T}. Arguments o_mul {T}.
Arguments o_div {T}. Arguments o_neg {T}. Arguments o_ltb {T}. Arguments o_eqb {T}. Arguments o_sqrt {T}. Arguments o_pow {T}.

Section Generic.
  Variable T : Type.
  Variable O : ops T.
  Notation gvec := (list T).

  Fixpoint gvadd (a b : gvec) : gvec :=
    match a, b with x :: a', y :: b' => o_add O x y :: gvadd a' b' | _, _ => [] end.
  Fixpoint gvsub (a b : gvec) : gvec :=
    match a, b with x :: a', y :: b' => o_sub O x y :: gvsub a' b' | _, _ => [] end.
  Definition gvscale (t : T) (v : gvec) : gvec := map (o_mul O t) v.
  Definition gvneg (v : gvec) : gvec := map (o_neg O) v.
  Definition gvdiv (v : gvec) (b : T) : gvec := map (fun a => o_div O a b) v.
  Fixpoint gdot (a b : gvec) : T :=
    match a, b with x :: a', y :: b' => o_add O (o_mul O x y) (gdot a' b') | _, _ => o_zero O end.
  Definition gmin (a b : T) : T := if o_ltb O b a then b else a.      (* std::min(a, b) *)
  Definition gmax (a b : T) : T := if o_ltb O a b then b else a.      (* std::max(a, b) *)

  (* ================= LBFGS.cpp ================= *)
  Record glb_model : Type := mkLB {
    lb_hist : nat;                       (* m_numHist *)
    lb_bdiag : T;                        (* m_bdiag *)
    lb_thres : T;                        (* m_updThres *)
    lb_pairs : list (gvec * gvec) }.     (* (m_steps[i], m_gradientDifferences[i]), i = 0 (oldest) ... *)

  (* updateHist(y, step) *)
  Definition g_update_hist (m : glb_model) (y s : gvec) : glb_model :=
    let ys := gdot y s in
    if o_ltb O (lb_thres m) ys then
      let ps := if Nat.leb (lb_hist m) (length (lb_pairs m)) then tl (lb_pairs m) else lb_pairs m in
      mkLB (lb_hist m) (o_div O (gdot y y) ys) (lb_thres m) (ps ++ [(s, y)])
    else m.

  (* ---- multBInv: the two loops as coded ---- *)
  Definition g_rho (p : gvec * gvec) : T := o_div O (o_one O) (gdot (snd p) (fst p)).

  (* for (i = size; i > 0; --i): [rp] is the history NEWEST first; returns x and the alphas, newest first *)
  Fixpoint g_loop1 (rp : list (gvec * gvec)) (x : gvec) : gvec * list T :=
    match rp with
    | [] => (x, [])
    | p :: r =>
      let a := o_mul O (g_rho p) (gdot (fst p) x) in
      let '(x', al) := g_loop1 r (gvsub x (gvscale a (snd p))) in
      (x', a :: al)
    end.

  (* for (i = 0; i < size; ++i): history and alphas OLDEST first *)
  Fixpoint g_loop2 (ps : list (gvec * gvec)) (al : list T) (x : gvec) : gvec :=
    match ps, al with
    | p :: r, a :: al' =>
      let beta := o_mul O (g_rho p) (gdot (snd p) x) in
      g_loop2 r al' (gvadd x (gvscale (o_sub O a beta) (fst p)))
    | _, _ => x
    end.

  Definition g_mult_binv (bdiag : T) (ps : list (gvec * gvec)) (x : gvec) : gvec :=
    let '(q, al) := g_loop1 (rev ps) x in
    g_loop2 ps (rev al) (gvdiv q bdiag).

  (* ---- multB: compact representation ---- *)
  (* one processed history entry: y_j, beta_j = y_j's_j, the UNNORMALISED row a_j = B_j s_j, its normaliser s_j'a_j
     (the C++ stores a_j / sqrt(s_j'a_j) and uses A'A: the square root cancels) *)
  Definition g_row : Type := (gvec * T * gvec * T)%type.
  Definition g_yterms (proc : list g_row) (v acc : gvec) : gvec :=
    fold_left (fun acc (r : g_row) => let '(y, beta, _, _) := r in gvadd acc (gvscale (o_div O (gdot y v) beta) y)) proc acc.
  Definition g_aterms (proc : list g_row) (v acc : gvec) : gvec :=
    fold_left (fun acc (r : g_row) => let '(_, _, a, nn) := r in gvsub acc (gvscale (o_div O (gdot a v) nn) a)) proc acc.
  Definition g_bapply (bdiag : T) (proc : list g_row) (v : gvec) : gvec :=
    g_aterms proc v (g_yterms proc v (gvscale bdiag v)).
  Fixpoint g_build (bdiag : T) (ps : list (gvec * gvec)) (proc : list g_row) : list g_row :=
    match ps with
    | [] => proc
    | (s, y) :: r => let a := g_bapply bdiag proc s in g_build bdiag r (proc ++ [(y, gdot y s, a, gdot s a)])
    end.
  Definition g_mult_b (bdiag : T) (ps : list (gvec * gvec)) (x : gvec) : gvec :=
    g_bapply bdiag (g_build bdiag ps []) x.

  (* ---- getBoxConstrainedDirection (as coded after the repairs e082c2d6 and 42faa67e) ---- *)
  Variable eps : T.            (* the double 1e-13 *)

  (* true = "active" in the naming of the C++ (the variable may move) *)
  Fixpoint g_mask (l u x p0 : gvec) : list bool :=
    match l, u, x, p0 with
    | a :: l', b :: u', c :: x', p :: p0' =>
      negb ((o_ltb O (o_sub O c eps) a && o_ltb O p (o_zero O)) || (o_ltb O b (o_add O c eps) && o_ltb O (o_zero O) p))
      :: g_mask l' u' x' p0'
    | _, _, _, _ => []
    end.
  Fixpoint gvmask (m : list bool) (v : gvec) : gvec :=
    match m, v with
    | b :: m', a :: v' => (if b then a else o_zero O) :: gvmask m' v'
    | _, _ => []
    end.
  (* the feasibility test of the full quasi-Newton step, active coordinates only *)
  Fixpoint g_step_ok (m : list bool) (l u x st : gvec) : bool :=
    match m, l, u, x, st with
    | b :: m', a :: l', c :: u', xi :: x', si :: st' =>
      (negb b || negb (o_ltb O (o_add O (o_add O xi eps) si) a || o_ltb O c (o_add O (o_sub O xi eps) si)))
      && g_step_ok m' l' u' x' st'
    | _, _, _, _, _ => true
    end.
  (* the ratio test: largest alpha <= alpha0 with l <= x + alpha c <= u in the active coordinates, 0 if a bound is passed *)
  Fixpoint g_ratio (m : list bool) (l u x c : gvec) (alpha : T) : T :=
    match m, l, u, x, c with
    | b :: m', a :: l', bb :: u', xi :: x', ci :: c' =>
      let alpha' :=
        if negb b || o_eqb O ci (o_zero O) then alpha
        else if o_ltb O ci (o_zero O) then gmin alpha (gmax (o_zero O) (o_div O (o_sub O a xi) ci))
        else gmin alpha (gmax (o_zero O) (o_div O (o_sub O bb xi) ci)) in
      g_ratio m' l' u' x' c' alpha'
    | _, _, _, _, _ => alpha
    end.

  Definition g_box_dir (bdiag : T) (ps : list (gvec * gvec)) (l u x g : gvec) : gvec :=
    let m := g_mask l u x (gvneg g) in
    let p0 := gvmask m (gvneg g) in
    let step := gvmask m (g_mult_binv bdiag ps p0) in
    if g_step_ok m l u x step then step
    else
      let cauchy := gvdiv p0 (gdot p0 (g_mult_b bdiag ps p0)) in
      let alpha := g_ratio m l u x cauchy (o_one O) in
      if o_ltb O alpha (o_one O) then gvscale alpha cauchy
      else
        let point := gvadd x cauchy in
        let dir := gvsub step cauchy in
        let alpha2 := g_ratio m l u point dir (o_one O) in
        gvadd cauchy (gvscale alpha2 dir).

  (* which branch (coverage statistics of the check): 0 full step, 1 Cauchy step cut at a bound, 2 dog-leg *)
  Definition g_box_branch (bdiag : T) (ps : list (gvec * gvec)) (l u x g : gvec) : nat :=
    let m := g_mask l u x (gvneg g) in
    let p0 := gvmask m (gvneg g) in
    let step := gvmask m (g_mult_binv bdiag ps p0) in
    if g_step_ok m l u x step then 0
    else if o_ltb O (g_ratio m l u x (gvdiv p0 (gdot p0 (g_mult_b bdiag ps p0))) (o_one O)) (o_one O) then 1 else 2.
End Generic.

Arguments mkLB {T}. Arguments lb_hist {T}. Arguments lb_bdiag {T}. Arguments lb_thres {T}. Arguments lb_pairs {T}.
