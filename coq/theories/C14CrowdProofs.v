(* C14 — CrowdingDistance: the coded computation (C14Ind.cd_distances, rational instance) equals the
   definition of the crowding distance, for EVERY sort routine that returns a permutation ordered by key
   (std::sort compares keys only and leaves ties in an unspecified order).  Axiom-free (Q, lists).

   Definition (Deb et al.), relative to the per-objective orders order_i = sort(keys_i(front ++ archive)):
     a front member that is first or last of some order_i has distance `keep` (infinity);
     every other front member has distance  sum_i (key_i(next) - key_i(prev)) / (max_i - min_i).
   The code visits the objectives one after the other, overwrites with `keep`, and skips members whose
   accumulated value equals `keep`; the theorem says that this bookkeeping is exactly the definition, provided
   `keep` exceeds the number of objectives (DBL_MAX does). *)
From Coq Require Import List Arith Bool Lia ZArith QArith Qround Permutation Sorted Lqa.
From SharkV Require Import ListAux C13Model C13ProofsContrib C14Model C14Proofs C14Ind C14IndProofs.
Import ListNotations.
Close Scope Q_scope.

Definition qltb (x y : Q) : bool := negb (Qle_bool y x).
Definition qd0 : Q * nat := (0%Q, 0%nat).
Definition key_le (a b : Q * nat) : Prop := (fst a <= fst b)%Q.

Section CrowdQ.
  Variable keep : Q.
  Variable sort : list (Q * nat) -> list (Q * nat).
  Hypothesis sort_perm : forall l, Permutation (sort l) l.
  Hypothesis sort_sorted : forall l, StronglySorted key_le (sort l).

  Notation cdi := (cd_interior Q 0%Q keep Qplus Qminus Qdiv Qeq_bool).
  Notation cdo := (cd_objective Q 0%Q keep Qplus Qminus Qdiv Qeq_bool sort).
  Notation cdd := (cd_distances Q 0%Q keep Qplus Qminus Qdiv Qeq_bool sort).
  Notation keys := (cd_keys Q 0%Q).

  (* difference of the neighbours' keys of the element with index j, if it is an interior element *)
  Fixpoint nbr_diff (l : list (Q * nat)) (j : nat) : option Q :=
    match l with
    | a :: t => match t with
                | b :: c :: _ => if snd b =? j then Some (fst c - fst a)%Q else nbr_diff t j
                | _ => None
                end
    | [] => None
    end.

  Lemma nbr_diff_cons3 a b c l j :
    nbr_diff (a :: b :: c :: l) j = if snd b =? j then Some (fst c - fst a)%Q else nbr_diff (b :: c :: l) j.
  Proof. reflexivity. Qed.

  (* positional reading of nbr_diff *)
  Lemma nbr_diff_pos : forall l j v, nbr_diff l j = Some v ->
    exists p, 0 < p /\ p + 1 < length l /\ snd (nth p l qd0) = j /\
              v = (fst (nth (p + 1) l qd0) - fst (nth (p - 1) l qd0))%Q.
  Proof.
    induction l as [|a l IH]; intros j v H; [discriminate|].
    destruct l as [|b [|c l']]; try discriminate.
    rewrite nbr_diff_cons3 in H. destruct (Nat.eqb_spec (snd b) j) as [E|N].
    - injection H as <-. exists 1. simpl. repeat split; auto; lia.
    - destruct (IH j v H) as [p [P0 [P1 [Ps Pv]]]]. exists (Datatypes.S p).
      split; [lia|]. split; [simpl in *; lia|]. split; [exact Ps|].
      rewrite Pv. replace (Datatypes.S p + 1) with (Datatypes.S (p + 1)) by lia.
        replace (Datatypes.S p - 1) with (Datatypes.S (p - 1)) by lia. reflexivity.
  Qed.

  Lemma nbr_diff_none_iff : forall l j, NoDup (map snd l) ->
    (nbr_diff l j = None <-> forall p, 0 < p -> p + 1 < length l -> snd (nth p l qd0) <> j).
  Proof.
    induction l as [|a l IH]; intros j ND.
    - split; auto. intros _ p P0 H. simpl in H. lia.
    - destruct l as [|b [|c l']].
      + split; auto. intros _ p P0 H. simpl in H. lia.
      + split; auto. intros _ p P0 H. simpl in H. lia.
      + rewrite nbr_diff_cons3. inversion ND as [|? ? _ ND']; subst.
        destruct (Nat.eqb_spec (snd b) j) as [E|N].
        * split; [discriminate|]. intros H. exfalso. apply (H 1); simpl; auto; lia.
        * rewrite (IH j ND'). split.
          -- intros H [|[|p]] P0 P1; try lia; auto.
             apply (H (Datatypes.S p)); simpl in *; lia.
          -- intros H p P0 P1. apply (H (Datatypes.S p)); simpl in *; lia.
  Qed.

  (* an interior index does not occur again further right *)
  Lemma nbr_diff_tail a b t j : NoDup (map snd (a :: b :: t)) -> snd b = j -> nbr_diff (b :: t) j = None.
  Proof.
    intros ND E. apply nbr_diff_none_iff.
    - now inversion ND.
    - intros p P0 P1 Ep. inversion ND as [|? ? _ ND']; subst. simpl in ND'.
      inversion ND' as [|? ? NI _]; subst. apply NI.
      destruct p as [|p]; [lia|]. cbn [nth] in Ep. rewrite <- Ep. apply in_map. apply nth_In. simpl in P1. lia.
  Qed.

  (* ---- one interior sweep *)
  Lemma cdi_spec nF nrm : forall l d j, NoDup (map snd l) ->
    nth j (cdi nF nrm l d) 0%Q =
    match nbr_diff l j with
    | Some df => if (nF <=? j) || Qeq_bool (nth j d 0%Q) keep then nth j d 0%Q
                 else if j <? length d then (nth j d 0%Q + df / nrm)%Q else nth j d 0%Q
    | None => nth j d 0%Q
    end.
  Proof.
    induction l as [|a l IH]; intros d j ND; [reflexivity|].
    destruct l as [|b [|c l']]; try reflexivity.
    rewrite cd_interior_cons3, nbr_diff_cons3.
    assert (ND' : NoDup (map snd (b :: c :: l'))) by (now inversion ND).
    rewrite (IH _ j ND').
    destruct (Nat.eqb_spec (snd b) j) as [E|N].
    - rewrite (nbr_diff_tail a b (c :: l') j ND E). rewrite E.
      destruct ((nF <=? j) || Qeq_bool (nth j d 0%Q) keep); auto.
      rewrite nth_upd. rewrite Nat.eqb_refl. cbn [andb]. reflexivity.
    - assert (U : nth j (if (nF <=? snd b) || Qeq_bool (nth (snd b) d 0%Q) keep then d
                         else upd (snd b) (nth (snd b) d 0 + (fst c - fst a) / nrm)%Q d) 0%Q = nth j d 0%Q).
      { destruct (_ || _); auto. apply nth_upd_neq. auto. }
      assert (L : length (if (nF <=? snd b) || Qeq_bool (nth (snd b) d 0%Q) keep then d
                          else upd (snd b) (nth (snd b) d 0 + (fst c - fst a) / nrm)%Q d) = length d).
      { destruct (_ || _); auto. apply upd_length. }
      rewrite U, L. reflexivity.
  Qed.

  (* ---- one objective *)
  Definition is_bnd (order : list (Q * nat)) (j : nat) : bool :=
    (snd (hd qd0 order) =? j) || (snd (last order qd0) =? j).
  Definition range_of (order : list (Q * nat)) : Q :=
    (fst (last order qd0) - fst (hd qd0 order))%Q.
  Definition term_of (order : list (Q * nat)) (j : nat) : Q :=
    match nbr_diff order j with Some df => (df / range_of order)%Q | None => 0%Q end.

  Lemma cd_mark_nth nF e d j : j < nF -> j < length d ->
    nth j (cd_mark Q keep nF e d) 0%Q = if snd e =? j then keep else nth j d 0%Q.
  Proof.
    intros Hj Hd. unfold cd_mark. destruct (Nat.eqb_spec (snd e) j) as [->|N].
    - destruct (Nat.ltb_spec j nF); [|lia]. apply nth_upd_eq. auto.
    - destruct (_ <? _); auto. apply nth_upd_neq. auto.
  Qed.

  Lemma hd_not_interior (l : list (Q * nat)) j : NoDup (map snd l) -> snd (hd qd0 l) = j -> 2 <= length l ->
    nbr_diff l j = None.
  Proof.
    intros ND E L. apply nbr_diff_none_iff; auto. intros p P0 P1 Ep.
    destruct l as [|a l]; [simpl in L; lia|]. simpl in E. inversion ND as [|? ? NI _]; subst. apply NI.
    destruct p as [|p]; [lia|]. cbn [nth] in Ep. rewrite <- Ep. apply in_map, nth_In. simpl in P1. lia.
  Qed.

  Lemma last_nth {A} (d : A) l : last l d = nth (length l - 1) l d.
  Proof.
    induction l as [|a l IH]; [reflexivity|]. destruct l as [|b l]; [reflexivity|].
    change (last (a :: b :: l) d) with (last (b :: l) d). rewrite IH. simpl. now rewrite Nat.sub_0_r.
  Qed.

  Lemma last_not_interior (l : list (Q * nat)) j : NoDup (map snd l) -> snd (last l qd0) = j ->
    nbr_diff l j = None.
  Proof.
    intros ND E. apply nbr_diff_none_iff; auto. intros p P0 P1 Ep.
    rewrite last_nth in E.
    assert (p = length l - 1); [|lia].
    apply (proj1 (NoDup_nth (map snd l) 0) ND); try (rewrite map_length; lia).
    transitivity (snd (nth p l qd0)); [exact (map_nth snd l qd0 p)|].
    transitivity (snd (nth (length l - 1) l qd0)); [congruence|symmetry; exact (map_nth snd l qd0 (length l - 1))].
  Qed.

  Lemma cdo_spec F A d i j : length d = length F -> j < length F ->
    let order := sort (keys i F A) in
    nth j (cdo F A d i) 0%Q =
    if is_bnd order j then keep
    else if Qeq_bool (nth j d 0%Q) keep then nth j d 0%Q
    else match nbr_diff order j with Some df => (nth j d 0%Q + df / range_of order)%Q | None => nth j d 0%Q end.
  Proof.
    intros Ld Hj order. unfold cd_objective. fold order.
    assert (PK : Permutation (map snd order) (seq 0 (length F + length A))).
    { unfold order. rewrite (Permutation_map snd (sort_perm _)). unfold cd_keys.
      rewrite map_snd_combine; auto. now rewrite map_length, app_length, seq_length. }
    assert (ND : NoDup (map snd order)).
    { eapply Permutation_NoDup; [apply Permutation_sym; exact PK|apply seq_NoDup]. }
    assert (LO : length order = length F + length A).
    { rewrite <- (map_length snd), (Permutation_length PK), seq_length. reflexivity. }
    rewrite cdi_spec by auto. change (@pair Q nat 0%Q 0) with qd0.
    set (d1 := cd_mark Q keep (length F) (hd qd0 order) d).
    set (d2 := cd_mark Q keep (length F) (last order qd0) d1).
    assert (L1 : length d1 = length d) by apply cd_mark_length.
    assert (L2 : length d2 = length d) by (unfold d2; rewrite cd_mark_length; auto).
    assert (N2 : nth j d2 0%Q = if is_bnd order j then keep else nth j d 0%Q).
    { unfold d2, d1, is_bnd. rewrite !cd_mark_nth by (rewrite ?cd_mark_length; lia).
      destruct (snd (last order qd0) =? j); [now rewrite orb_true_r|]. rewrite orb_false_r. reflexivity. }
    unfold is_bnd in *. fold (range_of order).
    destruct (Nat.eqb_spec (snd (hd qd0 order)) j) as [E1|N1].
    - cbn [orb] in *. destruct (Nat.le_gt_cases 2 (length order)) as [G|G].
      + rewrite (hd_not_interior order j ND E1 G). exact N2.
      + assert (NB : nbr_diff order j = None).
        { destruct order as [|a [|b [|c o]]]; try reflexivity. simpl in G. lia. }
        rewrite NB. exact N2.
    - cbn [orb] in *. destruct (Nat.eqb_spec (snd (last order qd0)) j) as [E2|N2'].
      + rewrite (last_not_interior order j ND E2). exact N2.
      + rewrite N2. destruct (Nat.leb_spec (length F) j); [lia|]. cbn [orb].
        destruct (nbr_diff order j); [|destruct (Qeq_bool (nth j d 0%Q) keep); reflexivity].
        destruct (Qeq_bool (nth j d 0%Q) keep); auto.
        rewrite L2, Ld. destruct (Nat.ltb_spec j (length F)); [reflexivity|lia].
  Qed.

  (* ---- bounds of one term: sortedness gives 0 <= next - prev <= max - min *)
  Lemma q_frac_bounds (x y : Q) : (0 <= x)%Q -> (x <= y)%Q -> (0 <= x / y)%Q /\ (x / y <= 1)%Q.
  Proof.
    intros Hx Hy. destruct (Qlt_le_dec 0 y) as [Py|Ny].
    - split.
      + apply Qle_shift_div_l; auto. lra.
      + apply Qle_shift_div_r; auto. lra.
    - assert (Y0 : (y == 0)%Q) by lra.
      assert (E : (x / y == 0)%Q).
      { unfold Qdiv. rewrite Y0. unfold Qinv. simpl. ring. }
      rewrite E. split; lra.
  Qed.

  Lemma SS_nth (R : (Q * nat) -> (Q * nat) -> Prop) : forall l, StronglySorted R l ->
    forall a b, a < b -> b < length l -> R (nth a l qd0) (nth b l qd0).
  Proof.
    induction l as [|x l IH]; intros SS a b Hab Hb; [simpl in Hb; lia|].
    inversion SS as [|? ? SS' FA]; subst. destruct b as [|b]; [lia|]. destruct a as [|a].
    - cbn [nth]. rewrite Forall_forall in FA. apply FA. apply nth_In. simpl in Hb. lia.
    - cbn [nth]. apply IH; auto; simpl in Hb; lia.
  Qed.

  Lemma key_le_nth l : StronglySorted key_le l -> forall a b, a <= b -> b < length l ->
    (fst (nth a l qd0) <= fst (nth b l qd0))%Q.
  Proof.
    intros SS a b Hab Hb. destruct (Nat.eq_dec a b) as [->|N]; [apply Qle_refl|].
    apply (SS_nth key_le l SS a b); lia.
  Qed.

  Lemma term_bounds l j : StronglySorted key_le l -> (0 <= term_of l j)%Q /\ (term_of l j <= 1)%Q.
  Proof.
    intros SS. unfold term_of. destruct (nbr_diff l j) as [df|] eqn:E; [|split; lra].
    destruct (nbr_diff_pos l j df E) as [p [P0 [P1 [_ ->]]]].
    unfold range_of. rewrite last_nth.
    replace (hd qd0 l) with (nth 0 l qd0) by (destruct l; reflexivity).
    pose proof (key_le_nth l SS (p - 1) (p + 1) ltac:(lia) P1).
    pose proof (key_le_nth l SS 0 (p - 1) ltac:(lia) ltac:(lia)).
    pose proof (key_le_nth l SS (p + 1) (length l - 1) ltac:(lia) ltac:(lia)).
    apply q_frac_bounds; lra.
  Qed.

  (* ---- all objectives *)
  Definition order_of (F A : list (list Q)) (i : nat) : list (Q * nat) := sort (keys i F A).
  Definition bnd_any (F A : list (list Q)) (ob : list nat) (j : nat) : bool :=
    existsb (fun i => is_bnd (order_of F A i) j) ob.
  Definition sum_terms (F A : list (list Q)) (ob : list nat) (j : nat) : Q :=
    fold_left (fun acc i => (acc + term_of (order_of F A i) j)%Q) ob 0%Q.

  Lemma cdo_length F A d i : length (cdo F A d i) = length d.
  Proof. unfold cd_objective. now rewrite cd_interior_length, !cd_mark_length. Qed.

  Lemma fold_cdo_length F A : forall ob d, length (fold_left (cdo F A) ob d) = length d.
  Proof. induction ob as [|i ob IH]; intros d; simpl; auto. now rewrite IH, cdo_length. Qed.

  Lemma cd_fold_spec F A j : j < length F -> forall ob,
    (inject_Z (Z.of_nat (length ob)) < keep)%Q ->
    let D := fold_left (cdo F A) ob (repeat 0%Q (length F)) in
    (bnd_any F A ob j = true -> nth j D 0%Q = keep) /\
    (bnd_any F A ob j = false ->
       (nth j D 0%Q == sum_terms F A ob j)%Q /\
       (0 <= sum_terms F A ob j)%Q /\ (sum_terms F A ob j <= inject_Z (Z.of_nat (length ob)))%Q).
  Proof.
    intros Hj. induction ob as [|i ob IH] using rev_ind; intros HK; cbn zeta.
    - split; [discriminate|]. intros _. cbn [fold_left]. rewrite nth_repeat by auto.
      unfold sum_terms. cbn [fold_left length]. change (inject_Z (Z.of_nat 0)) with 0%Q. repeat split; try reflexivity; apply Qle_refl.
    - rewrite app_length in HK. cbn [length] in HK. rewrite Nat.add_1_r, Nat2Z.inj_succ, <- Z.add_1_r, inject_Z_plus in HK.
      change (inject_Z 1) with 1%Q in HK.
      assert (HK' : (inject_Z (Z.of_nat (length ob)) < keep)%Q) by lra.
      specialize (IH HK'). cbn zeta in IH. destruct IH as [IB IS].
      rewrite fold_left_app. cbn [fold_left].
      set (D := fold_left (cdo F A) ob (repeat 0%Q (length F))) in *.
      assert (LD : length D = length F) by (unfold D; rewrite fold_cdo_length; apply repeat_length).
      rewrite (cdo_spec F A D i j LD Hj). cbn zeta. fold (order_of F A i).
      unfold bnd_any in *. rewrite existsb_app. cbn [existsb]. rewrite orb_false_r.
      unfold sum_terms in *. rewrite fold_left_app. cbn [fold_left].
      rewrite app_length. cbn [length]. rewrite Nat.add_1_r, Nat2Z.inj_succ, <- Z.add_1_r, inject_Z_plus.
      change (inject_Z 1) with 1%Q.
      destruct (term_bounds (order_of F A i) j (sort_sorted _)) as [T0 T1].
      destruct (is_bnd (order_of F A i) j) eqn:BI.
      + rewrite orb_true_r. split; [reflexivity|discriminate].
      + rewrite orb_false_r.
        destruct (existsb (fun i0 => is_bnd (order_of F A i0) j) ob) eqn:BO.
        * rewrite (IB eq_refl). rewrite Qeq_bool_refl. split; [reflexivity|discriminate].
        * destruct (IS eq_refl) as [E [S0 S1]]. split; [discriminate|]. intros _.
          assert (NK : Qeq_bool (nth j D 0%Q) keep = false).
          { destruct (Qeq_bool (nth j D 0%Q) keep) eqn:QE; auto. apply Qeq_bool_eq in QE. lra. }
          rewrite NK. unfold term_of in *.
          destruct (nbr_diff (order_of F A i) j) as [df|]; simpl; repeat split; lra.
  Qed.

  (* the crowding distance of front member j by definition *)
  Definition cd_def (F A : list (list Q)) (j : nat) : Q :=
    let ob := seq 0 (length (hd [] F)) in
    if bnd_any F A ob j then keep else sum_terms F A ob j.

  Theorem cd_distances_meaning F A j :
    (inject_Z (Z.of_nat (length (hd [] F))) < keep)%Q -> j < length F ->
    (nth j (cdd F A) 0%Q == cd_def F A j)%Q /\
    (bnd_any F A (seq 0 (length (hd [] F))) j = true -> nth j (cdd F A) 0%Q = keep).
  Proof.
    intros HK Hj. unfold cd_distances, cd_def.
    pose proof (cd_fold_spec F A j Hj (seq 0 (length (hd [] F)))) as S. rewrite seq_length in S.
    specialize (S HK). cbn zeta in S. destruct S as [SB SS].
    destruct (bnd_any F A (seq 0 (length (hd [] F))) j).
    - split; [rewrite (SB eq_refl); reflexivity|auto].
    - split; [apply (SS eq_refl)|discriminate].
  Qed.

  (* leastContributor: the FIRST front member of minimal distance *)
  Notation cdlc := (cd_lc Q 0%Q keep Qplus Qminus Qdiv qltb Qeq_bool sort).

  Lemma qltb_leb x y : qltb x y = negb (Qle_bool y x).
  Proof. reflexivity. Qed.
  Lemma qle_total x y : Qle_bool x y = true \/ Qle_bool y x = true.
  Proof. rewrite !Qle_bool_iff. destruct (Qlt_le_dec x y); [left; lra|right; auto]. Qed.
  Lemma qle_trans x y z : Qle_bool x y = true -> Qle_bool y z = true -> Qle_bool x z = true.
  Proof. rewrite !Qle_bool_iff. apply Qle_trans. Qed.

  Theorem cd_lc_meaning F A :
    (inject_Z (Z.of_nat (length (hd [] F))) < keep)%Q -> 2 <= length F ->
    let i0 := cdlc F A in
    i0 < length F /\
    (forall j, j < length F -> (cd_def F A i0 <= cd_def F A j)%Q) /\
    (forall j, j < i0 -> (cd_def F A i0 < cd_def F A j)%Q).
  Proof.
    intros HK H2. cbn zeta. unfold cd_lc. destruct (Nat.ltb_spec (length F) 2); [lia|].
    assert (LD : length (cdd F A) = length F) by apply cd_distances_length.
    assert (ND : cdd F A <> []) by (intros E; rewrite E in LD; simpl in LD; lia).
    destruct (min_element_spec qltb Qle_bool qltb_leb qle_total qle_trans 0%Q (cdd F A) ND) as [Li [MIN FIRST]].
    set (i0 := min_element qltb (cdd F A)) in *. rewrite LD in Li, MIN.
    split; [exact Li|]. split.
    - intros j Hj. specialize (MIN j Hj). apply Qle_bool_iff in MIN.
      rewrite <- (proj1 (cd_distances_meaning F A i0 HK Li)), <- (proj1 (cd_distances_meaning F A j HK Hj)). exact MIN.
    - intros j Hj. specialize (FIRST j Hj).
      rewrite <- (proj1 (cd_distances_meaning F A i0 HK Li)), <- (proj1 (cd_distances_meaning F A j HK ltac:(lia))).
      apply Qnot_le_lt. intros LE. apply Qle_bool_iff in LE. congruence.
  Qed.
End CrowdQ.

(* ------------------------------------------------------------------------------------------ *)
(* the model's own sort routine (stable insertion sort) satisfies the two hypotheses *)
Lemma cd_insert_perm x l : Permutation (cd_insert Q qltb x l) (x :: l).
Proof.
  induction l as [|y l IH]; simpl; auto. destruct (qltb (fst x) (fst y)); auto.
  rewrite IH. apply perm_swap.
Qed.

Lemma cd_isort_perm l : Permutation (cd_isort Q qltb l) l.
Proof.
  unfold cd_isort.
  assert (G : forall acc, Permutation (fold_left (fun acc x => cd_insert Q qltb x acc) l acc) (l ++ acc)).
  { induction l as [|x l IH]; intros acc; simpl; auto.
    rewrite IH. rewrite cd_insert_perm. symmetry. apply Permutation_middle. }
  rewrite G. now rewrite app_nil_r.
Qed.

Lemma qltb_false x y : qltb x y = false -> (y <= x)%Q.
Proof. unfold qltb. intros H. apply negb_false_iff in H. now apply Qle_bool_iff. Qed.
Lemma qltb_true x y : qltb x y = true -> (x < y)%Q.
Proof.
  unfold qltb. intros H. apply negb_true_iff in H. apply Qnot_le_lt. intros L.
  apply Qle_bool_iff in L. congruence.
Qed.

Lemma cd_insert_sorted x l : StronglySorted key_le l -> StronglySorted key_le (cd_insert Q qltb x l).
Proof.
  induction l as [|y l IH]; intros SS; simpl; [repeat constructor|].
  inversion SS as [|? ? SS' FA]; subst. destruct (qltb (fst x) (fst y)) eqn:C.
  - apply qltb_true in C. constructor; auto. constructor.
    + unfold key_le. lra.
    + rewrite Forall_forall in *. intros z Hz. specialize (FA z Hz). unfold key_le in *. lra.
  - apply qltb_false in C. constructor; auto.
    rewrite Forall_forall in *. intros z Hz.
    apply (Permutation_in _ (cd_insert_perm x l)) in Hz. destruct Hz as [<-|Hz]; auto.
  Qed.

Lemma cd_isort_sorted l : StronglySorted key_le (cd_isort Q qltb l).
Proof.
  unfold cd_isort.
  assert (G : forall acc, StronglySorted key_le acc ->
              StronglySorted key_le (fold_left (fun acc x => cd_insert Q qltb x acc) l acc)).
  { induction l as [|x l IH]; intros acc SS; simpl; auto. apply IH. now apply cd_insert_sorted. }
  apply G. constructor.
Qed.

(* ------------------------------------------------------------------------------------------ *)
(* rational instance on integer objective vectors: a valid oracle for the selection theorems *)
Definition cq_pts (l : list point) : list (list Q) := map (map inject_Z) l.

Definition cdq_lcs (keep : Q) (F A : list point) (K : nat) : list nat :=
  cd_lcs Q 0%Q keep Qplus Qminus Qdiv qltb Qeq_bool (cd_isort Q qltb) (cq_pts F) (cq_pts A) K.

Theorem cdq_lcs_valid keep : valid_oracle (cdq_lcs keep).
Proof.
  intros F A K HK. unfold cdq_lcs.
  destruct (cd_lcs_valid Q 0%Q keep Qplus Qminus Qdiv qltb Qeq_bool (cd_isort Q qltb) (cq_pts F) (cq_pts A) K)
    as [L [ND IN]]; unfold cq_pts in *; rewrite ?map_length in *; auto.
Qed.

Theorem cdq_meaning keep F A :
  (inject_Z (Z.of_nat (length (hd [] (cq_pts F)))) < keep)%Q ->
  (forall j, j < length F ->
     (nth j (cd_distances Q 0%Q keep Qplus Qminus Qdiv Qeq_bool (cd_isort Q qltb) (cq_pts F) (cq_pts A)) 0%Q
      == cd_def keep (cd_isort Q qltb) (cq_pts F) (cq_pts A) j)%Q) /\
  (2 <= length F ->
   let i0 := cd_lc Q 0%Q keep Qplus Qminus Qdiv qltb Qeq_bool (cd_isort Q qltb) (cq_pts F) (cq_pts A) in
   i0 < length F /\
   (forall j, j < length F -> (cd_def keep (cd_isort Q qltb) (cq_pts F) (cq_pts A) i0
                               <= cd_def keep (cd_isort Q qltb) (cq_pts F) (cq_pts A) j)%Q) /\
   (forall j, j < i0 -> (cd_def keep (cd_isort Q qltb) (cq_pts F) (cq_pts A) i0
                         < cd_def keep (cd_isort Q qltb) (cq_pts F) (cq_pts A) j)%Q)).
Proof.
  intros HK. assert (LF : length (cq_pts F) = length F) by (unfold cq_pts; now rewrite map_length).
  split.
  - intros j Hj. apply (cd_distances_meaning keep _ cd_isort_perm cd_isort_sorted); auto. lia.
  - intros H2. rewrite <- LF. apply (cd_lc_meaning keep _ cd_isort_perm cd_isort_sorted); auto. lia.
Qed.

(* worked values: the front of the smoke test (stream I, line 1): distances [keep, 3/2, 5/4, keep] *)
Example crowding_example :
  let F := [[1; 5]; [2; 3]; [4; 2]; [5; 1]]%Z in
  map Qred (cd_distances Q 0%Q 1000%Q Qplus Qminus Qdiv Qeq_bool (cd_isort Q qltb) (cq_pts F) []) =
    [1000%Q; (3 # 2)%Q; (5 # 4)%Q; 1000%Q] /\
  cdq_lcs 1000%Q F [] 4 = [2; 1; 0; 3] /\
  map (fun j => Qred (cd_def 1000%Q (cd_isort Q qltb) (cq_pts F) [] j)) [0; 1; 2; 3] =
    [1000%Q; (3 # 2)%Q; (5 # 4)%Q; 1000%Q].
Proof. vm_compute. repeat split; reflexivity. Qed.

Theorem term_shape (l : list (Q * nat)) j :
  StronglySorted key_le l ->
  (0 <= term_of l j)%Q /\ (term_of l j <= 1)%Q /\
  forall df, nbr_diff l j = Some df ->
    term_of l j = (df / range_of l)%Q /\
    exists p, 0 < p /\ p + 1 < length l /\ snd (nth p l qd0) = j /\
              df = (fst (nth (p + 1) l qd0) - fst (nth (p - 1) l qd0))%Q.
Proof.
  intros SS. destruct (term_bounds l j SS) as [T0 T1]. repeat split; auto.
  - unfold term_of. now rewrite H.
  - now apply nbr_diff_pos.
Qed.
