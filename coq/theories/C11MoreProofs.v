(* C11 — more proofs over Q (axiom-free): the CMA corner c1 + cMu = 1, and VDCMA's restricted covariance. *)
From Coq Require Import List Arith Bool QArith Lia Lqa.
From SharkV Require Import C11Model C11Proofs.
Import ListNotations.

Section QMore.
Variables (sq ex : Q -> Q) (pw : Q -> Q -> Q).
Notation O := (QO sq ex pw).

Ltac rd := unfold vadd, vsub, vscale, vzero, vmul, madd, mscale, mzero, outer, mvec, quad, normsqr in *;
  cbn [dot vadd vsub vscale vmul map2 map mvec quad madd mscale outer repeat vzero mzero nth diagm
       o_zero o_one o_two o_add o_sub o_mul o_div QO normsqr length] in *.

(* ================================================================ (d) the corner c1 + cMu = 1 *)
(* a family of vectors has full rank: no non-zero x is orthogonal to all of them *)
Definition spans (n : nat) (vs : list (list Q)) :=
  forall x, length x = n -> nonzero x -> exists v, In v vs /\ ~ dot O v x == 0.

Lemma wsum_pos_ex ws : forall ys (g : list Q -> Q), 0 < wsum ws ys g -> exists y, In y ys /\ ~ g y == 0.
Proof.
  induction ws as [|w ws IH]; intros [|y ys] g H; cbn [wsum] in H; try lra.
  destruct (Qeq_dec (g y) 0) as [E|E].
  - destruct (IH ys g) as (y' & I & N); [rewrite E in H; lra|]. exists y'. split; [right|]; auto.
  - exists y. split; [left|]; auto.
Qed.

Lemma wsum_pos_of ws : forall ys (g : list Q -> Q) y,
  Forall (fun w => 0 < w) ws -> length ws = length ys -> (forall y, 0 <= g y) ->
  In y ys -> 0 < g y -> 0 < wsum ws ys g.
Proof.
  induction ws as [|w ws IH]; intros [|y0 ys] g y F L G I P; simpl in L; try discriminate; [destruct I|].
  inversion F; subst. cbn [wsum].
  assert (0 <= wsum ws ys g) as N.
  { apply wsum_nonneg; auto. eapply Forall_impl; [|eassumption]. intros ? HH; cbv beta in HH; lra. }
  destruct I as [->|I].
  - assert (0 < w * g y) by (apply Qmult_lt_0_compat; auto). lra.
  - assert (0 < wsum ws ys g) by (apply (IH ys g y); auto).
    assert (0 <= w * g y0) by (apply Qmult_le_0_compat; auto; lra). lra.
Qed.

Lemma sq_pos_of_ne (a : Q) : ~ a == 0 -> 0 < a * a.
Proof. intros N. destruct (Qlt_le_dec a 0); [nra|]. destruct (Qlt_le_dec 0 a); [nra|]. exfalso. apply N. lra. Qed.

(* positive SEMI-definite in the corner (and in general for c1 + cMu <= 1) *)
Lemma cov_update_corner_psd n c1 cmu delta s C p ws ys :
  isnn n C -> length p = n -> Forall (fun y => length y = n) ys ->
  posdef sq ex pw n C -> 0 <= c1 -> 0 <= cmu -> c1 + cmu <= 1 -> 0 <= delta -> 0 <= s ->
  Forall (fun w => 0 <= w) ws ->
  forall x, length x = n -> 0 <= quad O (cov_update O n c1 cmu delta s C p ws ys) x.
Proof.
  intros HC Hp Hy PD H1 Hm H1m Hd Hs Hw x Lx.
  rewrite (cov_update_quad_lemma sq ex pw n) by auto.
  assert (0 <= quad O C x) as Ha.
  { destruct (Forall_dec (fun a => a == 0) (fun a => Qeq_dec a 0) x) as [Z|NZ].
    - assert (quad O C x == 0) as ->; [|lra].
      clear - Z. unfold quad. generalize (mvec O C x). induction Z as [|a x E Z IH]; intros [|b m]; rd; try lra.
      rewrite E, IH. ring.
    - pose proof (PD x Lx NZ). lra. }
  assert (0 <= wsum ws ys (fun y => dot O y x * dot O y x)) as HW by (apply wsum_nonneg; auto; intros; nra).
  set (a := quad O C x) in *. set (W := wsum ws ys _) in *. set (b := dot O p x).
  assert (0 <= (1 - c1 - cmu) * a) by (apply Qmult_le_0_compat; lra).
  assert (0 <= c1 * (b * b + delta * a)) by (apply Qmult_le_0_compat; nra).
  assert (0 <= s * W) by (apply Qmult_le_0_compat; auto).
  lra.
Qed.

(* the generators of the update in the corner: the evolution path (if c1 > 0) and the selected steps *)
Definition corner_gens (c1 : Q) (p : list Q) (ys : list (list Q)) : list (list Q) :=
  if Qlt_le_dec 0 c1 then p :: ys else ys.

(* in the corner with hsig = 1 (delta = 0, no share of the old C is left) C' is positive definite
   IF AND ONLY IF the rank-one + rank-mu part has full rank *)
Lemma cov_update_corner_pd_iff n c1 cmu s C p ws ys :
  isnn n C -> length p = n -> Forall (fun y => length y = n) ys ->
  0 <= c1 -> c1 + cmu == 1 -> 0 < s -> Forall (fun w => 0 < w) ws -> length ws = length ys ->
  (posdef sq ex pw n (cov_update O n c1 cmu 0 s C p ws ys) <-> spans n (corner_gens c1 p ys)).
Proof.
  intros HC Hp Hy H1 E Hs Hw Lw.
  assert (forall x, quad O (cov_update O n c1 cmu 0 s C p ws ys) x ==
                    c1 * (dot O p x * dot O p x) + s * wsum ws ys (fun y => dot O y x * dot O y x)) as Q.
  { intros x. rewrite (cov_update_quad_lemma sq ex pw n) by auto.
    assert (1 - c1 - cmu == 0) as -> by lra. ring. }
  assert (forall x, 0 <= wsum ws ys (fun y => dot O y x * dot O y x)) as HW.
  { intros x. apply wsum_nonneg; [|intros; nra]. eapply Forall_impl; [|exact Hw]. intros ? HH; cbv beta in HH; lra. }
  unfold corner_gens. split.
  - intros PD x Lx Nx. pose proof (PD x Lx Nx) as P. rewrite Q in P.
    destruct (Qlt_le_dec 0 c1) as [Hc|Hc].
    + destruct (Qeq_dec (dot O p x) 0) as [Z|NZ].
      * rewrite Z in P. assert (0 < wsum ws ys (fun y => dot O y x * dot O y x)) as PW.
        { destruct (Qlt_le_dec 0 (wsum ws ys (fun y => dot O y x * dot O y x))); auto. exfalso. pose proof (HW x). nra. }
        destruct (wsum_pos_ex ws ys _ PW) as (y & I & N). exists y. split; [right; auto|]. intro Z'. apply N. rewrite Z'. ring.
      * exists p. split; [left|]; auto.
    + assert (c1 == 0) as C0 by lra. rewrite C0 in P.
      assert (0 < wsum ws ys (fun y => dot O y x * dot O y x)) as PW.
      { destruct (Qlt_le_dec 0 (wsum ws ys (fun y => dot O y x * dot O y x))); auto. exfalso. pose proof (HW x). nra. }
      destruct (wsum_pos_ex ws ys _ PW) as (y & I & N). exists y. split; auto. intro Z'. apply N. rewrite Z'. ring.
  - intros SP x Lx Nx. rewrite Q. destruct (SP x Lx Nx) as (v & I & N).
    pose proof (sq_pos_of_ne _ N) as PV. pose proof (HW x) as HWx.
    assert (0 <= c1 * (dot O p x * dot O p x)) as T1 by (apply Qmult_le_0_compat; auto; nra).
    assert (0 <= s * wsum ws ys (fun y => dot O y x * dot O y x)) as T2 by (apply Qmult_le_0_compat; auto; lra).
    assert (In v ys -> 0 < s * wsum ws ys (fun y => dot O y x * dot O y x)) as FromY.
    { intros Iy. apply Qmult_lt_0_compat; auto.
      apply (wsum_pos_of ws ys (fun y => dot O y x * dot O y x) v); auto. intros; nra. }
    destruct (Qlt_le_dec 0 c1) as [Hc|Hc].
    + destruct I as [<-|I].
      * assert (0 < c1 * (dot O p x * dot O p x)) by (apply Qmult_lt_0_compat; auto). lra.
      * pose proof (FromY I). lra.
    + pose proof (FromY I). lra.
Qed.

(* in the corner with hsig = 0 (delta > 0) and c1 > 0 the share c1*delta of the old C keeps C' positive definite *)
Lemma cov_update_corner_pd_delta n c1 cmu delta s C p ws ys :
  isnn n C -> length p = n -> Forall (fun y => length y = n) ys ->
  posdef sq ex pw n C -> 0 < c1 -> 0 <= cmu -> c1 + cmu <= 1 -> 0 < delta -> 0 <= s ->
  Forall (fun w => 0 <= w) ws ->
  posdef sq ex pw n (cov_update O n c1 cmu delta s C p ws ys).
Proof.
  intros HC Hp Hy PD H1 Hm H1m Hd Hs Hw x Lx Nx.
  rewrite (cov_update_quad_lemma sq ex pw n) by auto.
  pose proof (PD x Lx Nx) as Ha.
  assert (0 <= wsum ws ys (fun y => dot O y x * dot O y x)) as HW by (apply wsum_nonneg; auto; intros; nra).
  set (a := quad O C x) in *. set (W := wsum ws ys _) in *. set (b := dot O p x).
  assert (0 <= (1 - c1 - cmu) * a) by (apply Qmult_le_0_compat; lra).
  assert (0 < c1 * (b * b + delta * a)).
  { apply Qmult_lt_0_compat; auto. assert (0 < delta * a) by (apply Qmult_lt_0_compat; auto). nra. }
  assert (0 <= s * W) by (apply Qmult_le_0_compat; auto).
  lra.
Qed.

(* ================================================================ (c) VDCMA *)
(* D += D * meanS keeps D positive exactly when every component of meanS is > -1 *)
Lemma vd_D_update_pos_iff D : forall s, length D = length s -> Forall (fun d => 0 < d) D ->
  (Forall (fun d => 0 < d) (vd_D_update O D s) <-> Forall (fun si => -(1) < si) s).
Proof.
  induction D as [|d D IH]; intros [|si s] L F; simpl in L; try discriminate.
  - cbn. split; constructor.
  - inversion F as [|? ? Hd F']; subst. unfold vd_D_update in *. rd.
    specialize (IH s ltac:(lia) F'). split; intro H; inversion H; subst; constructor; try (apply IH; auto); nra.
Qed.

Lemma vd_D_update_nth D : forall s i, length D = length s ->
  nth i (vd_D_update O D s) 0 == nth i D 0 * (1 + nth i s 0).
Proof.
  induction D as [|d D IH]; intros [|si s] i L; simpl in L; try discriminate; unfold vd_D_update in *; rd.
  - destruct i; cbn; ring.
  - destruct i as [|i]; cbn [nth]; [ring|]. apply IH. lia.
Qed.

(* ---- the quadratic form of C = diag(D)^2 + (D*v)(D*v)^T *)
Lemma dot_cons0 r x0 xs : dot O (0 :: r) (x0 :: xs) == dot O r xs.
Proof. rd. ring. Qed.

Lemma bil_map_cons0 M : forall x' x0 xs, bil sq ex pw x' (map (cons 0) M) (x0 :: xs) == bil sq ex pw x' M xs.
Proof.
  induction M as [|r M IH]; intros [|a x'] x0 xs; unfold bil in *; rd; try reflexivity.
  rewrite IH. ring.
Qed.

Lemma bil_diagm d : forall x' x, length x = length d ->
  bil sq ex pw x' (diagm O d) x == dot O (vmul O d x') x.
Proof.
  induction d as [|a d IH]; intros [|b x'] [|x0 xs] L; simpl in L; try discriminate; unfold bil in *; rd; try reflexivity.
  change (repeat 0 (length d)) with (vzero O (length d)).
  rewrite (dot_vzero_l sq ex pw (length d) xs).
  change (dot O x' (map (fun r => dot O r (x0 :: xs)) (map (cons 0) (diagm O d))))
    with (bil sq ex pw x' (map (cons 0) (diagm O d)) (x0 :: xs)).
  rewrite bil_map_cons0. unfold bil. rd. rewrite IH by lia. ring.
Qed.

Lemma diagm_isnn d : isnn (length d) (diagm O d).
Proof.
  induction d as [|a d [L F]]; [split; [reflexivity|constructor]|].
  split; cbn [diagm length]; [rewrite map_length, L; reflexivity|].
  constructor; [cbn [length]; unfold vzero; rewrite repeat_length; reflexivity|].
  rewrite Forall_map. eapply Forall_impl; [|exact F]. intros r Hr. cbv beta in Hr. cbn [length]. lia.
Qed.

Lemma vmul_length u : forall v : list Q, length u = length v -> length (vmul O u v) = length u.
Proof. intros. unfold vmul. apply map2_length. auto. Qed.

Lemma dot_vmul_shift d : forall u x : list Q, dot O (vmul O d u) x == dot O u (vmul O d x).
Proof.
  induction d as [|a d IH]; intros u x.
  - unfold vmul. cbn [map2 dot]. rewrite (dot_nil_r sq ex pw u). reflexivity.
  - destruct u as [|b u]; [reflexivity|]. destruct x as [|c x]; [reflexivity|].
    unfold vmul in *. change (o_mul O) with Qmult in *. cbn [map2 dot o_mul o_add QO]. rewrite IH. ring.
Qed.

Lemma vd_cov_quad D : forall v x, length v = length D -> length x = length D ->
  quad O (vd_cov O D v) x ==
    normsqr O (vmul O D x) + dot O v (vmul O D x) * dot O v (vmul O D x).
Proof.
  intros v x Lv Lx. change (quad O (vd_cov O D v) x) with (bil sq ex pw x (vd_cov O D v) x). unfold vd_cov.
  assert (length (vmul O D D) = length D) as LDD by (apply vmul_length; auto).
  assert (length (vmul O D v) = length D) as LDv by (apply vmul_length; auto).
  rewrite bil_madd.
  2:{ apply (isnn_rows_eq (length D)); [rewrite <- LDD; apply diagm_isnn|apply isnn_outer; auto]. }
  rewrite bil_diagm by lia. rewrite bil_outer.
  rewrite (dot_comm sq ex pw x (vmul O D v)), !dot_vmul_shift.
  unfold normsqr.
  assert (dot O (vmul O D x) (vmul O D x) == dot O x (vmul O (vmul O D D) x)) as ->.
  { clear. revert x. induction D as [|a D IH]; intros [|c x]; rd; try reflexivity. rewrite IH. ring. }
  reflexivity.
Qed.

Lemma vmul_nonzero D : forall x : list Q, length x = length D -> Forall (fun d => ~ d == 0) D ->
  nonzero x -> nonzero (vmul O D x).
Proof.
  induction D as [|d D IH]; intros [|a x] L F N; simpl in L; try discriminate; [exact N|].
  inversion F as [|? ? Hd F']; subst. intro Z. rd. inversion Z as [|? ? Za Z']; subst. apply N. constructor.
  - destruct (Qeq_dec a 0) as [E|E]; auto. exfalso. apply Hd.
    destruct (Qeq_dec d 0) as [E'|E']; auto. exfalso.
    assert (0 < (d * a) * (d * a)) by (apply sq_pos_of_ne; intro; nra). nra.
  - destruct (Forall_dec (fun a => a == 0) (fun a => Qeq_dec a 0) x) as [Zx|NZx]; auto.
    exfalso. apply (IH x ltac:(lia) F' NZx). exact Z'.
Qed.

Lemma normsqr_pos (u : list Q) : nonzero u -> 0 < normsqr O u.
Proof.
  induction u as [|a u IH]; intros N; [exfalso; apply N; constructor|]. rd.
  pose proof (dot_self_nonneg sq ex pw u) as H0.
  destruct (Qeq_dec a 0) as [E|E].
  - assert (0 < dot O u u); [|nra]. apply IH. intro Z. apply N. constructor; auto.
  - pose proof (sq_pos_of_ne _ E). lra.
Qed.

(* whatever v is (so: whatever the v-update produced), C = D (I + v v^T) D is symmetric positive definite as soon
   as no component of D is zero *)
Lemma vd_cov_pd D (v : list Q) : length v = length D -> Forall (fun d => ~ d == 0) D ->
  posdef sq ex pw (length D) (vd_cov O D v).
Proof.
  intros Lv F x Lx Nx. rewrite vd_cov_quad by auto.
  pose proof (normsqr_pos _ (vmul_nonzero D x Lx F Nx)). nra.
Qed.

(* ... and a zero component of D makes it singular: the converse *)
Lemma vd_cov_pd_conv D (v : list Q) : length v = length D ->
  posdef sq ex pw (length D) (vd_cov O D v) -> Forall (fun d => ~ d == 0) D.
Proof.
  intros Lv PD. apply Forall_forall. intros d I Z.
  (* the unit vector at a zero component is in the kernel *)
  assert (exists x, length x = length D /\ nonzero x /\ Forall (fun a => a == 0) (vmul O D x)) as (x & Lx & Nx & Zx).
  { clear - I Z. induction D as [|a D IH]; [destruct I|]. destruct I as [->|I].
    - exists (1 :: repeat 0 (length D)). split; [cbn; rewrite repeat_length; auto|]. split.
      + intro F. inversion F; subst. lra.
      + rd. constructor; [rewrite Z; ring|]. clear. induction D as [|b D IH]; cbn; constructor; auto. ring.
    - destruct (IH I) as (x & Lx & Nx & Zx). exists (0 :: x). split; [cbn; auto|]. split.
      + intro F. inversion F; subst. auto.
      + rd. constructor; auto. ring. }
  pose proof (PD x Lx Nx) as P. rewrite vd_cov_quad in P by auto.
  assert (forall u w : list Q, Forall (fun a => a == 0) u -> dot O w u == 0) as DZ.
  { clear. intros u w F. revert w. induction F as [|a u E F IH]; intros [|b w]; rd; try reflexivity. rewrite E, IH. ring. }
  unfold normsqr in P. rewrite !(DZ _ _ Zx) in P. lra.
Qed.

Lemma vd_cov_sym D (v : list Q) : length v = length D -> msym sq ex pw (vd_cov O D v).
Proof.
  intros Lv i j. unfold vd_cov.
  assert (length (vmul O D D) = length D) as LDD by (apply vmul_length; auto).
  assert (length (vmul O D v) = length D) as LDv by (apply vmul_length; auto).
  rewrite !mget_madd by (apply (isnn_rows_eq (length D)); [rewrite <- LDD; apply diagm_isnn|apply isnn_outer; auto]).
  rewrite !mget_outer.
  assert (forall d i j, mget O (diagm O d) i j == mget O (diagm O d) j i) as SD.
  { clear. induction d as [|a d IH]; intros i j; [rewrite !mget_nil; reflexivity|].
    assert (forall M i j, mget O (map (cons 0) M) i (S j) == mget O M i j) as SH.
    { intros M i0 j0. unfold mget. revert i0. induction M as [|r M IHM]; intros [|i0]; cbn [map nth];
        try (destruct j0; reflexivity). apply IHM. }
    assert (forall M i, mget O (map (cons 0) M) i 0%nat == 0) as S0.
    { intros M i0. unfold mget. revert i0. induction M as [|r M IHM]; intros [|i0]; cbn [map nth]; try reflexivity. apply IHM. }
    destruct i as [|i], j as [|j]; cbn [diagm]; change (o_zero O) with 0; try reflexivity.
    - unfold mget at 1. cbn [nth]. rewrite (nth_vzero sq ex pw (length d) j).
      change (mget O ((a :: vzero O (length d)) :: map (cons 0) (diagm O d)) (S j) 0) with (mget O (map (cons 0) (diagm O d)) j 0).
      rewrite S0. reflexivity.
    - unfold mget at 2. cbn [nth]. rewrite (nth_vzero sq ex pw (length d) i).
      change (mget O ((a :: vzero O (length d)) :: map (cons 0) (diagm O d)) (S i) 0) with (mget O (map (cons 0) (diagm O d)) i 0).
      rewrite S0. reflexivity.
    - change (mget O ((a :: vzero O (length d)) :: map (cons 0) (diagm O d)) (S i) (S j)) with (mget O (map (cons 0) (diagm O d)) i (S j)).
      change (mget O ((a :: vzero O (length d)) :: map (cons 0) (diagm O d)) (S j) (S i)) with (mget O (map (cons 0) (diagm O d)) j (S i)).
      rewrite !SH. apply IH. }
  rewrite (SD _ i j). ring.
Qed.

End QMore.
