(* C19 — proofs about C19BigBatch.v:
   (1) saturation: for maximumBatchSize >= number of records the batch sizes do not depend on maximumBatchSize
       (C19_batches_saturate, init_sizes_saturate); hence the importers with the 64-bit batch size, which run the
       unary model with min(m, n+1), ARE the importers of C19Model.v at N.to_nat m;
   (2) std::size_t arithmetic: optimalBatchSizes / initializeBatches as coded never wrap for 64-bit arguments and compute
       opt_sizes / init_sizes; the round-up idiom (n + m - 1) / m is right iff n + m <= 2^64 and divides by zero otherwise;
   (3) the target object: no outcome depends on it; an importer that keeps the target on record-free input is refuted. *)
From Coq Require Import List Arith ZArith NArith Bool Lia.
From SharkV Require Import ListAux C03Model C03Proofs C19Model C19Proofs C19RoundTrip2 C19Batches C19BigBatch.
Import ListNotations.

(* ------------------------------------------------------------------------------------------------ *)
(* (1) saturation *)
Lemma batches_saturate n m : 1 <= m -> n <= m -> opt_sizes n m = Some (if n =? 0 then [] else [n]).
Proof.
  intros Hm Hn. unfold opt_sizes.
  destruct (Nat.eqb_spec m 0); [lia|]. destruct (Nat.eqb_spec n 0); [reflexivity|].
  assert (B : n / m + (if n mod m =? 0 then 0 else 1) = 1).
  { destruct (Nat.eq_dec n m) as [->|].
    - rewrite Nat.div_same, Nat.mod_same by lia. reflexivity.
    - rewrite Nat.div_small, Nat.mod_small by lia. destruct (Nat.eqb_spec n 0); lia. }
  rewrite B. rewrite Nat.div_1_r. cbn [seq map]. replace (n - 1 * n) with 0 by lia. reflexivity.
Qed.

Lemma cap_small m n : (m <= N.of_nat (S n))%N -> cap m n = N.to_nat m.
Proof. intros H. unfold cap. rewrite N.min_l by exact H. reflexivity. Qed.
Lemma cap_big m n : (N.of_nat (S n) < m)%N -> cap m n = S n /\ S n < N.to_nat m.
Proof. intros H. unfold cap. rewrite N.min_r by lia. rewrite Nat2N.id. split; [reflexivity|lia]. Qed.

Lemma opt_sizes_cap n m : opt_sizes n (cap m n) = opt_sizes n (N.to_nat m).
Proof.
  destruct (N.le_gt_cases m (N.of_nat (S n))) as [H|H].
  - rewrite cap_small by exact H. reflexivity.
  - destruct (cap_big _ _ H) as (-> & L). rewrite !batches_saturate by lia. reflexivity.
Qed.

Lemma batch_opt_cap {A} (rows : list A) m n : n = length rows -> batch_opt rows (cap m n) = batch_opt rows (N.to_nat m).
Proof. intros ->. unfold batch_opt. rewrite opt_sizes_cap. reflexivity. Qed.

Lemma init_sizes_saturate n b : n <= b -> init_sizes n b = [n].
Proof.
  intros H. unfold init_sizes. destruct (Nat.eqb_spec b 0); [reflexivity|]. cbn [orb].
  destruct (Nat.ltb_spec n b); [reflexivity|]. assert (n = b) by lia. subst n.
  rewrite Nat.div_same, Nat.mod_same by lia. cbn. f_equal. lia.
Qed.

Lemma init_sizes_cap n m : init_sizes n (cap m n) = init_sizes n (N.to_nat m).
Proof.
  destruct (N.le_gt_cases m (N.of_nat (S n))) as [H|H].
  - rewrite cap_small by exact H. reflexivity.
  - destruct (cap_big _ _ H) as (-> & L). rewrite !init_sizes_saturate by lia. reflexivity.
Qed.

Lemma post_data_cap rows m : post_data rows (cap m (length rows)) = post_data rows (N.to_nat m).
Proof. unfold post_data. destruct rows as [|r0 rest]; [reflexivity|]. rewrite batch_opt_cap by (rewrite map_length; reflexivity). reflexivity. Qed.

Lemma post_reg_cap first nout rows m : post_reg first nout rows (cap m (length rows)) = post_reg first nout rows (N.to_nat m).
Proof. unfold post_reg. destruct rows as [|r0 rest]; [reflexivity|]. rewrite batch_opt_cap by (rewrite map_length; reflexivity). reflexivity. Qed.

Lemma post_cls_cap rows m : post_cls rows (cap m (length rows)) = post_cls rows (N.to_nat m).
Proof.
  unfold post_cls. destruct rows as [|r0 rest]; [reflexivity|].
  rewrite batch_opt_cap; [reflexivity|]. unfold norm_labels. rewrite combine_length, !map_length. lia.
Qed.

Lemma post_scalar_cap {T} (vals : list T) m : post_scalar vals (cap m (length vals)) = post_scalar vals (N.to_nat m).
Proof. unfold post_scalar. destruct vals as [|v0 rest]; [reflexivity|]. rewrite batch_opt_cap by (rewrite map_length; reflexivity). reflexivity. Qed.

Lemma svm_build_cap {L} compressed hi m (labels : list L) pts on_empty n : n = length pts ->
  svm_build compressed hi (cap m n) labels pts on_empty = svm_build compressed hi (N.to_nat m) labels pts on_empty.
Proof. intros ->. unfold svm_build. rewrite init_sizes_cap. reflexivity. Qed.

Lemma post_svm_cls_coded_cap compressed hi m recs :
  post_svm_cls_coded compressed hi (cap m (length recs)) recs = post_svm_cls_coded compressed hi (N.to_nat m) recs.
Proof. unfold post_svm_cls_coded. destruct (svm_labels recs); [|reflexivity]. apply svm_build_cap. rewrite map_length. reflexivity. Qed.
Lemma post_svm_reg_coded_cap compressed hi m recs :
  post_svm_reg_coded compressed hi (cap m (length recs)) recs = post_svm_reg_coded compressed hi (N.to_nat m) recs.
Proof. unfold post_svm_reg_coded. apply svm_build_cap. rewrite map_length. reflexivity. Qed.
Lemma post_svm_cls_cap compressed hi m recs :
  post_svm_cls compressed hi (cap m (length recs)) recs = post_svm_cls compressed hi (N.to_nat m) recs.
Proof. unfold post_svm_cls. rewrite post_svm_cls_coded_cap. reflexivity. Qed.
Lemma post_svm_reg_cap compressed hi m recs :
  post_svm_reg compressed hi (cap m (length recs)) recs = post_svm_reg compressed hi (N.to_nat m) recs.
Proof. unfold post_svm_reg. rewrite post_svm_reg_coded_cap. reflexivity. Qed.

Lemma lift_ext {A B} (o : option A) (f g : A -> outcome B) : (forall a, f a = g a) -> lift o f = lift o g.
Proof. intros H. destruct o; [apply H|reflexivity]. Qed.

(* the importers with a binary batch size are the importers of C19Model.v *)
Theorem import_N_eq :
  (forall sep cm m s, csv_import_data_N sep cm m s = csv_import_data sep cm (N.to_nat m) s) /\
  (forall first nout sep cm m s, csv_import_reg_N first nout sep cm m s = csv_import_reg first nout sep cm (N.to_nat m) s) /\
  (forall first sep cm m s, csv_import_cls_N first sep cm m s = csv_import_cls first sep cm (N.to_nat m) s) /\
  (forall (T : Type) (lexT : list byte -> option (T * list byte)) cm m s,
     csv_import_scalar_N lexT cm m s = lift (read_scalars cm lexT s) (fun v => post_scalar v (N.to_nat m))) /\
  (forall compressed hi b s, svm_import_cls_N compressed hi b s = svm_import_cls compressed hi (N.to_nat b) s) /\
  (forall compressed hi b s, svm_import_reg_N compressed hi b s = svm_import_reg compressed hi (N.to_nat b) s) /\
  (forall compressed hi b s, svm_import_cls_coded_N compressed hi b s = svm_import_cls_coded compressed hi (N.to_nat b) s) /\
  (forall compressed hi b s, svm_import_reg_coded_N compressed hi b s = svm_import_reg_coded compressed hi (N.to_nat b) s).
Proof.
  repeat split; intros.
  - apply lift_ext. intros. apply post_data_cap.
  - apply lift_ext. intros. apply post_reg_cap.
  - apply lift_ext. intros. apply post_cls_cap.
  - apply lift_ext. intros. apply post_scalar_cap.
  - apply lift_ext. intros. apply post_svm_cls_cap.
  - apply lift_ext. intros. apply post_svm_reg_cap.
  - apply lift_ext. intros. apply post_svm_cls_coded_cap.
  - apply lift_ext. intros. apply post_svm_reg_coded_cap.
Qed.

(* totality for every 64-bit (indeed every binary) batch size >= 1: the statements of C19Proofs.v transported *)
Theorem csv_import_total_N sep cm m s : (1 <= m)%N ->
  match csv_import_data_N sep cm m s with
  | Ok d => exists rows, read_values cm sep s = Some rows /\ map snd (ds_elems d) = rows /\
                         wf_batches (N.to_nat m) (ds_batches d) /\ wf_dense_dim d /\ opt_batched (N.to_nat m) (ds_batches d)
  | Exc => True
  | Fault => False
  end.
Proof.
  intros Hm. destruct import_N_eq as (E & _). rewrite E.
  pose proof (csv_data_import_total sep cm (N.to_nat m) s ltac:(lia)) as T.
  destruct (csv_import_data sep cm (N.to_nat m) s) as [d| |] eqn:R; [|exact I|exact T].
  destruct T as (rows & A & B & C & D). exists rows. split; [exact A|]. split; [exact B|]. split; [exact C|]. split; [exact D|].
  destruct (csv_import_batches sep cm (N.to_nat m) s ltac:(lia)) as (Hb & _). apply Hb. exact R.
Qed.

(* ------------------------------------------------------------------------------------------------ *)
(* (2) size_t arithmetic *)
Local Open Scope N_scope.

Lemma W64_pos : W64 <> 0. Proof. discriminate. Qed.

Lemma wadd_small a b : a + b < W64 -> wadd a b = a + b.
Proof. intros H. unfold wadd. apply N.mod_small. exact H. Qed.
Lemma wmul_small a b : a * b < W64 -> wmul a b = a * b.
Proof. intros H. unfold wmul. apply N.mod_small. exact H. Qed.
Lemma wsub_small a b : b <= a -> a < W64 -> wsub a b = a - b.
Proof.
  intros Hb Ha. unfold wsub. rewrite (N.mod_small b) by lia.
  replace (a + (W64 - b)) with ((a - b) + 1 * W64) by lia.
  rewrite N.mod_add by exact W64_pos. apply N.mod_small. lia.
Qed.

(* the pure computation over N *)
Definition ceilN (n m : N) : N := n / m + (if n mod m =? 0 then 0 else 1).
Definition opt_sizesN (n m : N) : option (list N) :=
  if m =? 0 then None
  else if n =? 0 then Some []
  else let b := ceilN n m in
       Some (map (fun j => if j <? n - b * (n / b) then n / b + 1 else n / b) (nseq b)).

Lemma ceilN_bounds n m : 1 <= m -> 1 <= n -> 1 <= ceilN n m <= n.
Proof.
  intros Hm Hn. unfold ceilN.
  pose proof (N.mul_div_le n m ltac:(lia)) as L. pose proof (N.mod_eq n m ltac:(lia)) as E.
  pose proof (N.mod_upper_bound n m ltac:(lia)) as U.
  destruct (N.eqb_spec (n mod m) 0) as [Z|NZ].
  - assert (n / m <> 0) by (intros Q; rewrite Q in *; lia). nia.
  - nia.
Qed.

Lemma count_coded_ok n m : 1 <= m -> n < W64 -> count_coded n m = Some (ceilN n m).
Proof.
  intros Hm Hn. unfold count_coded, ceilN. destruct (N.eqb_spec m 0); [lia|]. f_equal.
  pose proof (N.mul_div_le n m ltac:(lia)) as L. pose proof (N.mod_eq n m ltac:(lia)) as E.
  rewrite wmul_small by nia. rewrite wsub_small by nia.
  replace (n - n / m * m) with (n mod m) by nia.
  destruct (N.eqb_spec (n mod m) 0) as [Z|NZ].
  - rewrite Z. cbn. lia.
  - destruct (N.ltb_spec 0 (n mod m)); [|lia]. apply wadd_small. nia.
Qed.

Lemma nseq_in j b : In j (nseq b) -> j < b.
Proof. unfold nseq. intros H. apply in_map_iff in H. destruct H as (k & <- & Hk). apply in_seq in Hk. lia. Qed.

Theorem opt_sizes64_pure n m : 1 <= m -> n < W64 -> opt_sizes64 n m = opt_sizesN n m.
Proof.
  intros Hm Hn. unfold opt_sizes64, opt_sizes64_with, opt_sizesN.
  destruct (N.eqb_spec m 0); [lia|]. destruct (N.eqb_spec n 0); [reflexivity|].
  rewrite count_coded_ok by assumption.
  destruct (ceilN_bounds n m Hm ltac:(lia)) as (B1 & B2). set (b := ceilN n m) in *.
  destruct (N.eqb_spec b 0); [lia|]. f_equal.
  pose proof (N.mul_div_le n b ltac:(lia)) as L.
  rewrite wmul_small by lia. rewrite wsub_small by lia.
  apply map_ext_in. intros j Hj.
  destruct (N.ltb_spec j (n - b * (n / b))); [|reflexivity]. apply wadd_small. nia.
Qed.

Lemma ltb_of_nat a b : (N.of_nat a <? N.of_nat b) = (a <? b)%nat.
Proof. destruct (N.ltb_spec (N.of_nat a) (N.of_nat b)), (Nat.ltb_spec a b); try reflexivity; lia. Qed.
Lemma eqb_of_nat a b : (N.of_nat a =? N.of_nat b) = (a =? b)%nat.
Proof. destruct (N.eqb_spec (N.of_nat a) (N.of_nat b)), (Nat.eqb_spec a b); try reflexivity; lia. Qed.

Lemma opt_sizesN_nat n m : opt_sizesN (N.of_nat n) (N.of_nat m) = option_map (map N.of_nat) (opt_sizes n m).
Proof.
  unfold opt_sizesN, opt_sizes. change 0 with (N.of_nat 0). rewrite !eqb_of_nat.
  destruct (m =? 0)%nat; [reflexivity|]. destruct (n =? 0)%nat; [reflexivity|]. cbn [option_map]. f_equal.
  set (b := (n / m + (if (n mod m =? 0)%nat then 0 else 1))%nat).
  assert (B : ceilN (N.of_nat n) (N.of_nat m) = N.of_nat b).
  { unfold ceilN, b. rewrite <- Nat2N.inj_mod, <- Nat2N.inj_div. change 0 with (N.of_nat 0). rewrite eqb_of_nat.
    rewrite Nat2N.inj_add. destruct (n mod m =? 0)%nat; reflexivity. }
  rewrite B. unfold nseq. rewrite Nat2N.id, !map_map. apply map_ext. intros j.
  rewrite <- Nat2N.inj_div, <- Nat2N.inj_mul, <- Nat2N.inj_sub, ltb_of_nat.
  destruct (j <? n - b * (n / b))%nat; [rewrite Nat2N.inj_add|]; reflexivity.
Qed.

(* detail::optimalBatchSizes in std::size_t arithmetic computes opt_sizes for ALL 64-bit arguments *)
Theorem opt_sizes64_correct n m : 1 <= m -> n < W64 ->
  opt_sizes64 n m = option_map (map N.of_nat) (opt_sizes (N.to_nat n) (N.to_nat m)).
Proof.
  intros Hm Hn. rewrite opt_sizes64_pure by assumption.
  rewrite <- (N2Nat.id n) at 1. rewrite <- (N2Nat.id m) at 1. apply opt_sizesN_nat.
Qed.

(* maximumBatchSize = 0 with at least one record divides by zero, in both variants *)
Lemma opt_sizes64_zero n : 1 <= n -> opt_sizes64 n 0 = None /\ opt_sizes64_idiom n 0 = None.
Proof. intros H. unfold opt_sizes64, opt_sizes64_idiom, opt_sizes64_with. destruct (N.eqb_spec n 0); [lia|]. split; reflexivity. Qed.

(* the round-up idiom *)
Lemma idiom_value n m : wsub (wadd n m) 1 = (n + m + (W64 - 1)) mod W64.
Proof.
  unfold wsub, wadd. rewrite (N.mod_small 1) by reflexivity.
  apply N.add_mod_idemp_l. exact W64_pos.
Qed.

Theorem count_idiom_ok n m : 1 <= n -> 1 <= m -> n + m <= W64 -> count_idiom n m = count_coded n m.
Proof.
  intros Hn Hm H. rewrite count_coded_ok by lia. unfold count_idiom, ceilN.
  destruct (N.eqb_spec m 0); [lia|]. f_equal. rewrite idiom_value.
  replace (n + m + (W64 - 1)) with ((n + m - 1) + 1 * W64) by lia.
  rewrite N.mod_add by exact W64_pos. rewrite N.mod_small by lia.
  pose proof (N.div_mod n m ltac:(lia)) as D. pose proof (N.mod_upper_bound n m ltac:(lia)) as U.
  destruct (N.eqb_spec (n mod m) 0) as [Z|NZ].
  - symmetry. rewrite N.add_0_r. apply (N.div_unique _ _ _ (m - 1)); [lia|].
    revert D Z. generalize (n / m) (n mod m). intros q r D Z. nia.
  - symmetry. apply (N.div_unique _ _ _ (n mod m - 1)); [lia|].
    revert D NZ U. generalize (n / m) (n mod m). intros q r D NZ U. nia.
Qed.

Theorem count_idiom_wraps n m : n < W64 -> m < W64 -> W64 < n + m -> count_idiom n m = Some 0.
Proof.
  intros Hn Hm H. unfold count_idiom. destruct (N.eqb_spec m 0); [lia|]. f_equal. rewrite idiom_value.
  replace (n + m + (W64 - 1)) with ((n + m - 1 - W64) + 2 * W64) by lia.
  rewrite N.mod_add by exact W64_pos. rewrite N.mod_small by lia.
  apply N.div_small. lia.
Qed.

(* with the idiom the batch-size routine divides by zero exactly when n + m - 1 wraps past 2^64 - 1 ... *)
Theorem opt_sizes64_idiom_faults n m : 1 <= n -> n < W64 -> m < W64 -> W64 < n + m -> opt_sizes64_idiom n m = None.
Proof.
  intros H1 Hn Hm H. unfold opt_sizes64_idiom, opt_sizes64_with. destruct (N.eqb_spec n 0); [lia|].
  rewrite count_idiom_wraps by assumption. reflexivity.
Qed.
(* ... and agrees with the code otherwise *)
Theorem opt_sizes64_idiom_ok n m : 1 <= m -> n + m <= W64 -> opt_sizes64_idiom n m = opt_sizes64 n m.
Proof.
  intros Hm H. unfold opt_sizes64_idiom, opt_sizes64, opt_sizes64_with. destruct (N.eqb_spec n 0); [reflexivity|].
  rewrite count_idiom_ok by lia. reflexivity.
Qed.

(* the witness: 2 records, maximumBatchSize = SIZE_MAX *)
Lemma idiom_refuted : opt_sizes64_idiom 2 (W64 - 1) = None /\ opt_sizes64 2 (W64 - 1) = Some [2].
Proof. split; vm_compute; reflexivity. Qed.

(* initializeBatches in std::size_t arithmetic *)
Definition init_sizesN (n b : N) : list N :=
  if (b =? 0) || (n <? b) then [n]
  else let nb := n / b + (if n mod b =? 0 then 0 else 1) in
       repeat b (N.to_nat (nb - 1)) ++ [n - (nb - 1) * b].

Theorem init_sizes64_pure n b : n < W64 -> init_sizes64 n b = init_sizesN n b.
Proof.
  intros Hn. unfold init_sizes64, init_sizesN. destruct (N.eqb_spec b 0); [reflexivity|]. cbn [orb].
  destruct (N.ltb_spec n b); [reflexivity|].
  pose proof (N.mul_div_le n b ltac:(lia)) as L. pose proof (N.mod_eq n b ltac:(lia)) as E.
  pose proof (N.mod_upper_bound n b ltac:(lia)) as U.
  assert (Q : 1 <= n / b). { apply N.div_le_lower_bound; lia. }
  assert (NB : wadd (n / b) (if 0 <? n mod b then 1 else 0) = n / b + (if n mod b =? 0 then 0 else 1)).
  { destruct (N.eqb_spec (n mod b) 0) as [Z|NZ].
    - rewrite Z. cbn. apply wadd_small. nia.
    - destruct (N.ltb_spec 0 (n mod b)); [|lia]. apply wadd_small. nia. }
  rewrite NB. set (nb := n / b + _) in *.
  assert (NB1 : 1 <= nb /\ (nb - 1) * b <= n /\ nb <= n).
  { unfold nb. destruct (N.eqb_spec (n mod b) 0); nia. }
  rewrite (wsub_small nb 1) by lia. rewrite wmul_small by nia. rewrite wsub_small by nia. reflexivity.
Qed.

Lemma repeat_map {A B} (f : A -> B) x k : map f (repeat x k) = repeat (f x) k.
Proof. induction k; cbn; [reflexivity|f_equal; exact IHk]. Qed.

Lemma init_sizesN_nat n b : init_sizesN (N.of_nat n) (N.of_nat b) = map N.of_nat (init_sizes n b).
Proof.
  unfold init_sizesN, init_sizes. change 0 with (N.of_nat 0). rewrite eqb_of_nat, ltb_of_nat.
  destruct ((b =? 0)%nat || (n <? b)%nat); [reflexivity|].
  set (nb := (n / b + (if (n mod b =? 0)%nat then 0 else 1))%nat).
  assert (B : N.of_nat n / N.of_nat b + (if N.of_nat n mod N.of_nat b =? N.of_nat 0 then N.of_nat 0 else 1) = N.of_nat nb).
  { unfold nb. rewrite <- Nat2N.inj_mod, <- Nat2N.inj_div, eqb_of_nat, Nat2N.inj_add. destruct (n mod b =? 0)%nat; reflexivity. }
  rewrite B. rewrite map_app, repeat_map. cbn [map]. f_equal.
  - f_equal. lia.
  - f_equal. lia.
Qed.

Theorem init_sizes64_correct n b : n < W64 -> init_sizes64 n b = map N.of_nat (init_sizes (N.to_nat n) (N.to_nat b)).
Proof.
  intros Hn. rewrite init_sizes64_pure by assumption.
  rewrite <- (N2Nat.id n) at 1. rewrite <- (N2Nat.id b) at 1. apply init_sizesN_nat.
Qed.

Local Close Scope N_scope.

(* the batches of the CSV importers ARE what optimalBatchSizes computes in size_t arithmetic, for every 64-bit batch size *)
Lemma opt_batched_64 {A} (m : N) (bs : list (list A)) : (1 <= m)%N -> (N.of_nat (length (concat bs)) < W64)%N ->
  opt_batched (N.to_nat m) bs -> opt_sizes64 (N.of_nat (length (concat bs))) m = Some (map N.of_nat (map (@length A) bs)).
Proof.
  intros Hm Hn H. rewrite opt_sizes64_correct by assumption. rewrite Nat2N.id. unfold opt_batched in H. rewrite H. reflexivity.
Qed.

Theorem csv_import_batches_64 sep cm m s : (1 <= m)%N ->
  (forall d, csv_import_data_N sep cm m s = Ok d -> (N.of_nat (length (ds_elems d)) < W64)%N ->
     opt_sizes64 (N.of_nat (length (ds_elems d))) m = Some (map N.of_nat (map (@length _) (ds_batches d)))) /\
  (forall first nout d, csv_import_reg_N first nout sep cm m s = Ok d -> (N.of_nat (length (ds_elems d)) < W64)%N ->
     opt_sizes64 (N.of_nat (length (ds_elems d))) m = Some (map N.of_nat (map (@length _) (ds_batches d)))) /\
  (forall first d, csv_import_cls_N first sep cm m s = Ok d -> (N.of_nat (length (ds_elems d)) < W64)%N ->
     opt_sizes64 (N.of_nat (length (ds_elems d))) m = Some (map N.of_nat (map (@length _) (ds_batches d)))) /\
  (forall (T : Type) (lexT : list byte -> option (T * list byte)) d,
     csv_import_scalar_N lexT cm m s = Ok d -> (N.of_nat (length (ds_elems d)) < W64)%N ->
     opt_sizes64 (N.of_nat (length (ds_elems d))) m = Some (map N.of_nat (map (@length _) (ds_batches d)))).
Proof.
  intros Hm. destruct import_N_eq as (E1 & E2 & E3 & E4 & _).
  destruct (csv_import_batches sep cm (N.to_nat m) s ltac:(lia)) as (B1 & B2 & B3 & B4).
  repeat split; intros.
  - apply opt_batched_64; try assumption. apply B1. rewrite <- E1. assumption.
  - apply opt_batched_64; try assumption. apply (B2 first nout). rewrite <- E2. assumption.
  - apply opt_batched_64; try assumption. apply (B3 first). rewrite <- E3. assumption.
  - apply opt_batched_64; try assumption. apply (B4 T lexT). rewrite <- E4. assumption.
Qed.

(* ------------------------------------------------------------------------------------------------ *)
(* (3) the target object *)
Theorem target_ignored :
  (forall t t' sep cm m s, csv_import_data_into t sep cm m s = csv_import_data_into t' sep cm m s) /\
  (forall t t' first nout sep cm m s, csv_import_reg_into t first nout sep cm m s = csv_import_reg_into t' first nout sep cm m s) /\
  (forall t t' first sep cm m s, csv_import_cls_into t first sep cm m s = csv_import_cls_into t' first sep cm m s) /\
  (forall t t' cm m s, csv_import_ints_into t cm m s = csv_import_ints_into t' cm m s) /\
  (forall t t' cm m s, csv_import_uints_into t cm m s = csv_import_uints_into t' cm m s) /\
  (forall t t' cm m s, csv_import_reals_into t cm m s = csv_import_reals_into t' cm m s) /\
  (forall t t' compressed hi b s, svm_import_cls_into t compressed hi b s = svm_import_cls_into t' compressed hi b s) /\
  (forall t t' compressed hi b s, svm_import_reg_into t compressed hi b s = svm_import_reg_into t' compressed hi b s).
Proof. repeat split. Qed.

(* an importer that returns without resetting the target on a record-free input is not an importer: with a target that
   holds one element and the empty input it reports one element for zero records, while the code reports none *)
Theorem noreset_refuted :
  let target := mkDs [[(tt, 7%Z)]] 0 in
  csv_import_scalar_noreset lex_int target 35%N 2%N [] = Ok target /\ ds_elems target <> [] /\
  read_scalars 35%N lex_int [] = Some [] /\
  csv_import_ints_into target 35%N 2%N [] = Ok (mkDs [] 0).
Proof. cbv zeta. repeat split; try (vm_compute; reflexivity). discriminate. Qed.
