(* C19 — export/import round trip of the CSV model, second part:
   - decimal printing of unsigned numbers (print_nat) is read back by the integer lexers;
   - a generic "file of printed records" lemma for the two file drivers of Csv.cpp (row % eol, do-while of records);
   - WHITE-SPACE separated files (unlabelled, regression);
   - CLASSIFICATION files, label first / last, separator character or white space, with the label
     normalisation of csvStringToData as coded: the imported label is  label - (smallest label of the file). *)
From Coq Require Import List Arith ZArith NArith Bool Lia DecimalN DecimalPos.
From SharkV Require Import ListAux C03Model C03Proofs C19Model C19Proofs C19RoundTrip.
Import ListNotations.
Local Open Scope N_scope.

(* ---------- decimal printing of naturals ---------- *)
Definition dstep (a : Z) (c : byte) : Z := (10 * a + (Z.of_N c - 48))%Z.

Lemma of_uint_acc_val u : forall acc, Zpos (Pos.of_uint_acc u acc) = fold_left dstep (uint_bytes u) (Zpos acc).
Proof.
  induction u; intros acc; cbn [Pos.of_uint_acc uint_bytes fold_left]; [reflexivity|..];
    rewrite IHu; f_equal; unfold dstep; lia.
Qed.

Lemma of_uint_val u : Z.of_N (Pos.of_uint u) = digits_val (uint_bytes u).
Proof.
  unfold digits_val. fold dstep.
  induction u; cbn [Pos.of_uint uint_bytes fold_left]; [reflexivity|exact IHu|..];
    cbn [Z.of_N]; rewrite of_uint_acc_val; reflexivity.
Qed.

Lemma print_nat_val n : digits_val (print_nat n) = Z.of_N n.
Proof. unfold print_nat. rewrite <- of_uint_val. change (Pos.of_uint (N.to_uint n)) with (N.of_uint (N.to_uint n)). rewrite DecimalN.Unsigned.of_to. reflexivity. Qed.

Lemma uint_bytes_digits u : digits (uint_bytes u).
Proof. induction u; cbn [uint_bytes]; constructor; auto. Qed.

Lemma print_nat_digits n : digits (print_nat n).
Proof. apply uint_bytes_digits. Qed.

Lemma print_nat_nonempty n : print_nat n <> [].
Proof.
  unfold print_nat. intros E.
  assert (U : N.to_uint n = Decimal.Nil) by (destruct (N.to_uint n); cbn in E; try discriminate; reflexivity).
  pose proof (DecimalN.Unsigned.of_to n) as H. rewrite U in H. cbn in H. subst n. discriminate.
Qed.

Lemma lex_sign_digit_head c r : is_digit c = true -> lex_sign (c :: r) = (None, c :: r).
Proof. intros H. destruct (digit_not_sign c H) as (A & B & _). cbn. rewrite A, B. reflexivity. Qed.

(* qi::int_ / qi::uint_ / the label lexeme read a printed unsigned number back *)
Lemma lex_int_print n rest : n <= 2147483647 -> nodigit_head rest ->
  lex_int (print_nat n ++ rest) = Some (Z.of_N n, rest).
Proof.
  intros Hn H. pose proof (print_nat_nonempty n) as NE. pose proof (print_nat_digits n) as D.
  pose proof (print_nat_val n) as V. unfold lex_int.
  destruct (print_nat n) as [|c ds] eqn:E; [contradiction|].
  inversion D as [|? ? Hc Dd]; subst. cbn [app]. rewrite (lex_sign_digit_head c _ Hc).
  change (c :: ds ++ rest) with ((c :: ds) ++ rest). rewrite (span_digits_app (c :: ds) rest D H).
  cbn [signed]. rewrite V. unfold in_int32.
  replace (-2147483648 <=? Z.of_N n)%Z with true by (symmetry; apply Z.leb_le; lia).
  replace (Z.of_N n <=? 2147483647)%Z with true by (symmetry; apply Z.leb_le; lia). reflexivity.
Qed.

Lemma lex_uint_print n rest : n <= 4294967295 -> nodigit_head rest ->
  lex_uint (print_nat n ++ rest) = Some (Z.of_N n, rest).
Proof.
  intros Hn H. pose proof (print_nat_nonempty n) as NE. pose proof (print_nat_digits n) as D.
  pose proof (print_nat_val n) as V. unfold lex_uint.
  rewrite (span_digits_app (print_nat n) rest D H).
  destruct (print_nat n) as [|c ds] eqn:E; [contradiction|].
  rewrite V. unfold in_uint32.
  replace (0 <=? Z.of_N n)%Z with true by (symmetry; apply Z.leb_le; lia).
  replace (Z.of_N n <=? 4294967295)%Z with true by (symmetry; apply Z.leb_le; lia). reflexivity.
Qed.

Definition nodot_head (s : list byte) : Prop := match s with c :: _ => (c =? 46) = false | [] => True end.

Lemma lex_label_print n rest : n <= 2147483647 -> nodigit_head rest -> nodot_head rest ->
  lex_label (print_nat n ++ rest) = Some (Z.of_N n, rest).
Proof.
  intros Hn H Hd. unfold lex_label. rewrite (lex_int_print n rest Hn H).
  destruct rest as [|c r]; [reflexivity|]. cbn in Hd. rewrite Hd. reflexivity.
Qed.

(* the double_ lexer reads a printed unsigned number as a number (this is why the label-last grammars look ahead) *)
Lemma lex_double_print_nat n rest :
  match rest with c :: _ => is_digit c = false /\ (c =? 46) = false /\ (c =? 101) = false /\ (c =? 69) = false | [] => True end ->
  lex_double (print_nat n ++ rest) = Some (NDec None (print_nat n) false [] None, rest).
Proof.
  intros H. pose proof (print_nat_nonempty n) as NE. pose proof (print_nat_digits n) as D.
  unfold lex_double.
  destruct (print_nat n) as [|c ds] eqn:E; [contradiction|].
  inversion D as [|? ? Hc Dd]; subst. cbn [app]. rewrite (lex_sign_digit_head c _ Hc).
  change (c :: ds ++ rest) with ((c :: ds) ++ rest).
  rewrite (span_digits_app (c :: ds) rest D ltac:(destruct rest; [exact I|apply H])).
  destruct rest as [|x r]; [reflexivity|]. destruct H as (_ & A & B & C). rewrite A.
  unfold lex_exp. rewrite B, C. reflexivity.
Qed.

(* ---------- generic file drivers ---------- *)
Section Gen.
Context {R R' : Type}.
Variable cm : byte.
Variable txt : R -> list byte.          (* the printed record, without the line end *)
Variable conv : R -> R'.                (* the record as the reader returns it *)
Variable good : R -> Prop.
Hypothesis CN : (cm =? 10) = false.

Definition export_gen (rows : list R) : list byte := concat (map (fun r => txt r ++ [10]) rows).

Lemma export_gen_cons r rows : export_gen (r :: rows) = txt r ++ 10 :: export_gen rows.
Proof. unfold export_gen. cbn [map concat]. rewrite <- app_assoc. reflexivity. Qed.

Lemma export_gen_length rows : (length rows <= length (export_gen rows))%nat.
Proof. induction rows as [|r rows IH]; [cbn; lia|]. rewrite export_gen_cons, app_length. cbn [length]. lia. Qed.

Lemma eol_sk_nl rest : eol_sk cm (10 :: rest) = Some rest.
Proof. unfold eol_sk. rewrite (sk_nl cm rest CN). reflexivity. Qed.

(* (row % eol) >> *eol  *)
Section FileList.
Variable row : list byte -> option (R' * list byte).
Hypothesis ROW : forall r rest, good r -> row (txt r ++ 10 :: rest) = Some (conv r, 10 :: rest).
Hypothesis ROWNIL : row [] = None.

Lemma rows_list_gen rows : forall fuel, (length rows < fuel)%nat -> Forall good rows ->
  rows_list cm row fuel (10 :: export_gen rows) = (map conv rows, [10]).
Proof.
  induction rows as [|r rows IH]; intros fuel Hf G; (destruct fuel as [|f]; [cbn in Hf; lia|]).
  - change (export_gen []) with (@nil byte). cbn [rows_list]. rewrite eol_sk_nl, ROWNIL. reflexivity.
  - inversion G as [|? ? Gr Gs]; subst. cbn [rows_list]. rewrite eol_sk_nl.
    rewrite export_gen_cons, (ROW r _ Gr). rewrite (IH f ltac:(cbn in Hf; lia) Gs). reflexivity.
Qed.

Lemma file_list_gen rows : rows <> [] -> Forall good rows -> file_list cm row (export_gen rows) = Some (map conv rows).
Proof.
  intros NE G. destruct rows as [|r rows]; [contradiction|]. inversion G as [|? ? Gr Gs]; subst.
  unfold file_list. rewrite export_gen_cons, (ROW r _ Gr).
  rewrite rows_list_gen; [| |exact Gs].
  2:{ rewrite app_length. cbn [length]. pose proof (export_gen_length rows). lia. }
  cbn [eols]. rewrite eol_sk_nl.
  destruct (length (txt r ++ 10 :: export_gen rows)); reflexivity.
Qed.
End FileList.

(* do { record } while (first != last) *)
Section Recs.
Variable rec : list byte -> option (R' * list byte).
Hypothesis REC : forall r rows, good r -> Forall good rows ->
  rec (txt r ++ 10 :: export_gen rows) = Some (conv r, export_gen rows).

Lemma recs_gen rows : forall fuel, (length rows <= fuel)%nat -> rows <> [] -> Forall good rows ->
  recs rec fuel (export_gen rows) = Some (map conv rows).
Proof.
  induction rows as [|r rows IH]; intros fuel Hf NE G; [contradiction|].
  destruct fuel as [|f]; [cbn in Hf; lia|]. inversion G as [|? ? Gr Gs]; subst.
  cbn [recs]. rewrite export_gen_cons, (REC r rows Gr Gs).
  destruct rows as [|r' rows'].
  - reflexivity.
  - destruct (export_gen (r' :: rows')) eqn:E.
    { exfalso. pose proof (export_gen_length (r' :: rows')) as L. rewrite E in L. cbn in L. lia. }
    rewrite (IH f ltac:(cbn in Hf |- *; lia) ltac:(discriminate) Gs). reflexivity.
Qed.
End Recs.
End Gen.

(* ---------- white-space separated files ---------- *)
(* separator: a blank that is not a line end (space, tab, VT, FF); comment character as for separator files *)
Definition ws_ok (sep cm : byte) : Prop :=
  is_space sep = true /\ is_eolc sep = false /\
  is_digit cm = false /\ (cm =? 43) = false /\ (cm =? 45) = false /\ (cm =? 10) = false.

Lemma space_not_digit c : is_space c = true -> is_digit c = false.
Proof. intros H. destruct (is_digit c) eqn:E; [|reflexivity]. rewrite (digit_not_space c E) in H. discriminate. Qed.

Lemma is_space_cases c : is_space c = true -> c = 9 \/ c = 10 \/ c = 11 \/ c = 12 \/ c = 13 \/ c = 32.
Proof.
  unfold is_space. intros H. apply orb_true_iff in H. destruct H as [H|H].
  - apply andb_true_iff in H. destruct H as (A & B). apply N.leb_le in A, B. lia.
  - apply N.eqb_eq in H. lia.
Qed.

Lemma space_not_dot c : is_space c = true -> (c =? 46) = false /\ (c =? 101) = false /\ (c =? 69) = false /\ (c =? 58) = false.
Proof. intros H. destruct (is_space_cases c H) as [->|[->|[->|[->|[->| ->]]]]]; repeat split. Qed.

Lemma lex_double_nl rest : lex_double (10 :: rest) = None.
Proof. reflexivity. Qed.

Section Ws.
Variables sep cm : byte.
Hypothesis OK : ws_ok sep cm.

Lemma ws_mode_true : ws_mode sep = true.
Proof. destruct OK as (A & _). unfold ws_mode. rewrite A. reflexivity. Qed.

Lemma sk_sep s : sk cm (sep :: s) = sk cm s.
Proof. destruct OK as (A & B & _). unfold sk. cbn [skipc]. rewrite A, B. reflexivity. Qed.

Lemma ws_cn : (cm =? 10) = false.
Proof. apply OK. Qed.

Lemma ws_sk_tok v rest : sci_tok v -> sk cm (print_num v ++ rest) = print_num v ++ rest.
Proof. destruct OK as (_ & _ & A & B & C & _). apply sk_tok; assumption. Qed.

Lemma ws_nodigit_tail vs rest : nodigit_head (tail_text sep vs ++ 10 :: rest).
Proof. destruct OK as (A & _). destruct vs; cbn; [reflexivity|apply space_not_digit; exact A]. Qed.

Lemma cell_ws_print v rest : sci_tok v -> nodigit_head rest -> cell_ws cm (print_num v ++ rest) = Some (v, rest).
Proof. intros T H. unfold cell_ws. rewrite (ws_sk_tok v rest T), (lex_print v rest T H). reflexivity. Qed.

Lemma cell_ws_nl rest : cell_ws cm (10 :: rest) = None.
Proof. unfold cell_ws. rewrite (sk_nl cm rest ws_cn). reflexivity. Qed.

Lemma cells_ws_print vs : forall fuel rest, (length vs < fuel)%nat -> Forall sci_tok vs ->
  cells_ws cm fuel (tail_text sep vs ++ 10 :: rest) = (vs, 10 :: rest).
Proof.
  induction vs as [|v vs IH]; intros fuel rest Hf T.
  - destruct fuel as [|f]; [lia|]. cbn [tail_text map concat app cells_ws]. rewrite cell_ws_nl. reflexivity.
  - destruct fuel as [|f]; [cbn in Hf; lia|]. inversion T as [|? ? Tv Tvs]; subst.
    change (tail_text sep (v :: vs)) with ((sep :: print_num v) ++ tail_text sep vs).
    rewrite <- app_assoc. cbn [app cells_ws].
    assert (E : cell_ws cm (sep :: print_num v ++ tail_text sep vs ++ 10 :: rest) = Some (v, tail_text sep vs ++ 10 :: rest)).
    { unfold cell_ws. rewrite sk_sep. apply (cell_ws_print v _ Tv (ws_nodigit_tail vs rest)). }
    rewrite E. rewrite (IH f rest ltac:(cbn in Hf; lia) Tvs). reflexivity.
Qed.

Lemma tail_len_lt vs rest : Nat.lt (length vs) (S (length (tail_text sep vs ++ 10 :: rest))).
Proof. rewrite app_length. pose proof (tail_text_length sep vs). lia. Qed.

Lemma row_ws_print r rest : good_row r -> row_ws cm (body sep r ++ 10 :: rest) = Some (r, 10 :: rest).
Proof.
  intros (NE & T). destruct r as [|v vs]; [contradiction|]. inversion T as [|? ? Tv Tvs]; subst.
  unfold body. rewrite join_cons, <- app_assoc. unfold row_ws.
  rewrite (cell_ws_print v _ Tv (ws_nodigit_tail vs rest)).
  rewrite (cells_ws_print vs _ rest (tail_len_lt vs rest) Tvs). reflexivity.
Qed.

Lemma export_data_gen rows : export_data sep rows = export_gen (body sep) rows.
Proof. reflexivity. Qed.

Theorem read_values_export_ws rows : rows <> [] -> Forall good_row rows ->
  read_values cm sep (export_data sep rows) = Some rows.
Proof.
  intros NE G. unfold read_values. rewrite ws_mode_true, export_data_gen.
  rewrite (file_list_gen cm (body sep) (fun r => r) good_row ws_cn (row_ws cm) row_ws_print eq_refl rows NE G).
  rewrite map_id. reflexivity.
Qed.
End Ws.

(* ---------- unlabelled and regression data: both kinds of separator ---------- *)
Definition sep_ok (sep cm : byte) : Prop := chars_ok sep cm \/ ws_ok sep cm.

Lemma read_values_export_any sep cm rows : sep_ok sep cm -> rows <> [] -> Forall good_row rows ->
  read_values cm sep (export_data sep rows) = Some rows.
Proof. intros [OK|OK]; [apply read_values_export|apply read_values_export_ws]; exact OK. Qed.

Lemma batch_opt_sizes {A} (rows : list A) m bs : batch_opt rows m = Some bs ->
  opt_sizes (length rows) m = Some (map (@length A) bs) /\ bs = chunk (map (@length A) bs) rows.
Proof.
  unfold batch_opt. destruct (opt_sizes (length rows) m) as [sz|] eqn:E; [|discriminate]. intros [= <-].
  destruct (opt_sizes_spec _ _ _ E) as (S1 & _).
  pose proof (chunk_sizes sz rows ltac:(lia)) as CS. unfold sizes in CS. rewrite CS. split; reflexivity.
Qed.

Theorem data_roundtrip_any sep cm rows d m : sep_ok sep cm -> (1 <= m)%nat -> (1 <= d)%nat -> rows <> [] ->
  Forall (fun r => length r = d /\ Forall sci_tok r) rows ->
  exists ds, csv_import_data sep cm m (export_data sep rows) = Ok ds /\
             map snd (ds_elems ds) = rows /\ ds_dim ds = Z.of_nat d /\
             opt_sizes (length rows) m = Some (map (@length _) (ds_batches ds)).
Proof.
  intros OK Hm Hd NE F.
  assert (G : Forall good_row rows).
  { eapply Forall_impl; [|exact F]. intros r (L & T). split; [|exact T]. intros ->. cbn in L. lia. }
  unfold csv_import_data. rewrite (read_values_export_any sep cm rows OK NE G). cbn [lift].
  unfold post_data. destruct rows as [|r0 rest]; [contradiction|].
  destruct (batch_opt _ m) as [bs|] eqn:E.
  2:{ apply batch_opt_none in E. lia. }
  assert (SL : same_len (length r0) (r0 :: rest) = true).
  { unfold same_len. apply forallb_forall. intros r Hr. rewrite Forall_forall in F.
    destruct (F r Hr) as (L & _). destruct (F r0 ltac:(left; reflexivity)) as (L0 & _). apply Nat.eqb_eq. lia. }
  rewrite SL. destruct (batch_opt_spec _ _ _ E) as (C & _). destruct (batch_opt_sizes _ _ _ E) as (OS & _).
  eexists. split; [reflexivity|]. unfold ds_elems. cbn [ds_batches ds_dim]. rewrite C.
  split; [rewrite map_map; cbn [snd]; apply map_id|]. split.
  - inversion F as [|? ? (L0 & _) _]; subst. reflexivity.
  - rewrite map_length in OS. exact OS.
Qed.

Theorem reg_roundtrip_any sep cm first nout rows d m : sep_ok sep cm ->
  (1 <= m)%nat -> (1 <= nout)%nat -> (1 <= d)%nat -> rows <> [] ->
  Forall (fun r => length (fst r) = nout /\ length (snd r) = d /\ Forall sci_tok (fst r) /\ Forall sci_tok (snd r)) rows ->
  exists ds, csv_import_reg first nout sep cm m (export_reg first sep rows) = Ok ds /\
             ds_elems ds = rows /\ ds_dim ds = Z.of_nat d /\
             opt_sizes (length rows) m = Some (map (@length _) (ds_batches ds)).
Proof.
  intros OK Hm Hn Hd NE F. rewrite export_reg_as_data.
  set (mrows := map (merge first) rows).
  assert (ML : forall r, In r mrows -> length r = (nout + d)%nat /\ Forall sci_tok r).
  { intros r Hr. apply in_map_iff in Hr. destruct Hr as (x & <- & Hx). rewrite Forall_forall in F.
    destruct (F x Hx) as (A & B & C & D). unfold merge. destruct first; rewrite app_length; split; try lia; apply Forall_app; auto. }
  assert (G : Forall good_row mrows).
  { apply Forall_forall. intros r Hr. destruct (ML r Hr) as (L & T). split; [|exact T]. intros ->. cbn in L. lia. }
  assert (NEm : mrows <> []). { unfold mrows. destruct rows; [contradiction|discriminate]. }
  unfold csv_import_reg. rewrite (read_values_export_any sep cm mrows OK NEm G). cbn [lift].
  unfold post_reg.
  destruct mrows as [|r0 rest] eqn:EM; [contradiction|].
  destruct (ML r0 ltac:(left; reflexivity)) as (L0 & _).
  destruct (Nat.leb_spec (length r0) nout) as [|_]; [lia|].
  destruct (batch_opt _ m) as [bs|] eqn:E.
  2:{ apply batch_opt_none in E. lia. }
  assert (SL : same_len (length r0) (r0 :: rest) = true).
  { unfold same_len. apply forallb_forall. intros r Hr. destruct (ML r Hr) as (L & _). apply Nat.eqb_eq. lia. }
  rewrite SL. destruct (batch_opt_spec _ _ _ E) as (C & _). destruct (batch_opt_sizes _ _ _ E) as (OS & _).
  eexists. split; [reflexivity|]. unfold ds_elems. cbn [ds_batches ds_dim]. rewrite C. split; [|split].
  - rewrite <- EM. unfold mrows. rewrite map_map. rewrite <- (map_id rows) at 2. apply map_ext_in.
    intros r Hr. apply split_merge. rewrite Forall_forall in F. apply (F r Hr).
  - f_equal. lia.
  - rewrite map_length in OS. rewrite <- EM in OS. unfold mrows in OS. rewrite map_length in OS. exact OS.
Qed.

(* ---------- classification files ---------- *)
(* the record of a classification file: label printed as an unsigned number, first or last *)
Definition cls_txt (first : bool) (sep : byte) (r : N * list num) : list byte :=
  join sep (if first then print_nat (fst r) :: map print_num (snd r) else map print_num (snd r) ++ [print_nat (fst r)]).

Lemma export_cls_gen first sep rows : export_cls first sep rows = export_gen (cls_txt first sep) rows.
Proof. reflexivity. Qed.

Definition good_cls (r : N * list num) : Prop := fst r <= 2147483647 /\ snd r <> [] /\ Forall sci_tok (snd r).
Definition zrec (r : N * list num) : Z * list num := (Z.of_N (fst r), snd r).

Lemma join_first sep t ts : ts <> [] -> join sep (t :: ts) = t ++ sep :: join sep ts.
Proof. destruct ts; [contradiction|reflexivity]. Qed.

Lemma join_last sep ts t : ts <> [] -> join sep (ts ++ [t]) = join sep ts ++ sep :: t.
Proof.
  induction ts as [|a ts IH]; [contradiction|]. intros _. destruct ts as [|b ts'].
  - reflexivity.
  - change ((a :: b :: ts') ++ [t]) with (a :: (b :: ts') ++ [t]).
    rewrite (join_first sep a ((b :: ts') ++ [t])) by (cbn; discriminate).
    rewrite IH by discriminate. rewrite (join_first sep a (b :: ts')) by discriminate.
    rewrite <- app_assoc. reflexivity.
Qed.

Lemma cls_txt_first sep l v vs : cls_txt true sep (l, v :: vs) = print_nat l ++ tail_text sep (v :: vs).
Proof.
  unfold cls_txt. cbn [fst snd]. rewrite join_first by (cbn; discriminate).
  change (join sep (map print_num (v :: vs))) with (join sep (map print_num (v :: vs))).
  rewrite join_cons. reflexivity.
Qed.

(* values followed by the separator: the text in front of a last-column label *)
Definition head_text (sep : byte) (vs : list num) : list byte := concat (map (fun v => print_num v ++ [sep]) vs).

Lemma join_head_text sep vs t : vs <> [] -> join sep (map print_num vs ++ [t]) = head_text sep vs ++ t.
Proof.
  induction vs as [|v vs IH]; [contradiction|]. intros _. destruct vs as [|w vs'].
  - cbn. rewrite app_nil_r, <- app_assoc. reflexivity.
  - change (map print_num (v :: w :: vs') ++ [t]) with (print_num v :: (map print_num (w :: vs') ++ [t])).
    rewrite join_first by (cbn; discriminate). rewrite IH by discriminate.
    change (head_text sep (v :: w :: vs')) with ((print_num v ++ [sep]) ++ head_text sep (w :: vs')).
    rewrite <- !app_assoc. reflexivity.
Qed.

Lemma cls_txt_last sep l vs : vs <> [] -> cls_txt false sep (l, vs) = head_text sep vs ++ print_nat l.
Proof. intros NE. unfold cls_txt. cbn [fst snd]. apply join_head_text. exact NE. Qed.

Lemma head_text_length sep vs : (length vs <= length (head_text sep vs))%nat.
Proof. unfold head_text. induction vs as [|v vs IH]; cbn [map concat length]; [lia|]. rewrite !app_length. cbn [length]. lia. Qed.

Lemma print_nat_head n : exists c r, print_nat n = c :: r /\ is_digit c = true.
Proof.
  pose proof (print_nat_nonempty n) as NE. pose proof (print_nat_digits n) as D.
  destruct (print_nat n) as [|c r]; [contradiction|]. inversion D; subst. eauto.
Qed.

Lemma sk_digit_head cm c r : is_digit cm = false -> is_digit c = true -> sk cm (c :: r) = c :: r.
Proof.
  intros A Hc. apply sk_nonblank; [apply digit_not_space; exact Hc|]. apply N.eqb_neq. intros ->. congruence.
Qed.

Lemma sk_print_nat cm n rest : is_digit cm = false -> sk cm (print_nat n ++ rest) = print_nat n ++ rest.
Proof. intros A. destruct (print_nat_head n) as (c & r & E & Hc). rewrite E. cbn [app]. apply sk_digit_head; assumption. Qed.

(* the text that follows a record: nothing, or the next record (a digit or a sign first) *)
Lemma export_gen_head {R} (txt : R -> list byte) rows :
  (forall r, In r rows -> exists c t, txt r = c :: t /\ (is_digit c = true \/ c = 43 \/ c = 45)) ->
  match export_gen txt rows with [] => True | c :: _ => is_digit c = true \/ c = 43 \/ c = 45 end.
Proof.
  intros H. destruct rows as [|r rows]; [exact I|]. rewrite export_gen_cons.
  destruct (H r ltac:(left; reflexivity)) as (c & t & E & Hc). rewrite E. exact Hc.
Qed.

Lemma sk_tokhead cm s : is_digit cm = false -> (cm =? 43) = false -> (cm =? 45) = false ->
  match s with [] => True | c :: _ => is_digit c = true \/ c = 43 \/ c = 45 end -> sk cm s = s.
Proof.
  intros A B C H. destruct s as [|c r]; [reflexivity|]. apply sk_nonblank.
  - destruct H as [H|[->| ->]]; [apply digit_not_space; exact H|reflexivity|reflexivity].
  - destruct H as [H|[->| ->]]; [apply N.eqb_neq; intros ->; congruence|rewrite N.eqb_sym; exact B|rewrite N.eqb_sym; exact C].
Qed.

Lemma eol_tokhead s : match s with [] => True | c :: _ => is_digit c = true \/ c = 43 \/ c = 45 end -> eol s = None.
Proof.
  destruct s as [|c r]; [reflexivity|]. intros H. unfold eol.
  assert ((c =? 13) = false /\ (c =? 10) = false) as (A & B).
  { destruct H as [H|[->| ->]]; [|split; reflexivity|split; reflexivity].
    unfold is_digit in H. apply andb_true_iff in H. destruct H as (H1 & H2). apply N.leb_le in H1, H2.
    split; apply N.eqb_neq; lia. }
  rewrite A, B. reflexivity.
Qed.

(* after the label of a last-column record: *eol, post-skip; the next record (or the end) is reached *)
Lemma eols_after cm rest : is_digit cm = false -> (cm =? 43) = false -> (cm =? 45) = false -> (cm =? 10) = false ->
  match rest with [] => True | c :: _ => is_digit c = true \/ c = 43 \/ c = 45 end ->
  sk cm (eols cm (S (length (10 :: rest))) (10 :: rest)) = rest.
Proof.
  intros A B C CN H. cbn [eols length]. rewrite (eol_sk_nl cm CN).
  assert (E : eol_sk cm rest = None).
  { unfold eol_sk. rewrite (sk_tokhead cm rest A B C H). destruct rest; [reflexivity|]. apply eol_tokhead. exact H. }
  rewrite E. apply sk_tokhead; assumption.
Qed.

Section ClsSep.
Variables sep cm : byte.
Hypothesis OK : chars_ok sep cm.
Hypothesis ND : (sep =? 46) = false.

Let cm_nd : is_digit cm = false. Proof. apply OK. Qed.
Let cm_np : (cm =? 43) = false. Proof. apply OK. Qed.
Let cm_nm : (cm =? 45) = false. Proof. apply OK. Qed.
Let cm_nn : (cm =? 10) = false. Proof. apply OK. Qed.
Let sep_nd : is_digit sep = false. Proof. apply OK. Qed.
Let sep_ns : is_space sep = false. Proof. apply OK. Qed.
Let sep_nc : (sep =? cm) = false. Proof. apply OK. Qed.

Lemma cell_opt_print v rest : sci_tok v -> nodigit_head rest -> cell_opt cm (print_num v ++ rest) = (v, rest).
Proof. intros T H. unfold cell_opt. rewrite (sk_tok cm v rest cm_nd cm_np cm_nm T), (lex_print v rest T H). reflexivity. Qed.

Lemma cells_first_sep_print vs : forall fuel rest, (length vs < fuel)%nat -> Forall sci_tok vs ->
  cells_first_sep cm sep fuel (tail_text sep vs ++ 10 :: rest) = (vs, 10 :: rest).
Proof.
  induction vs as [|v vs IH]; intros fuel rest Hf T.
  - destruct fuel as [|f]; [lia|]. cbn [tail_text map concat app cells_first_sep].
    rewrite (sk_nl cm rest cm_nn). rewrite (sep_not_nl sep cm OK). reflexivity.
  - destruct fuel as [|f]; [cbn in Hf; lia|]. inversion T as [|? ? Tv Tvs]; subst.
    change (tail_text sep (v :: vs)) with ((sep :: print_num v) ++ tail_text sep vs).
    rewrite <- app_assoc. cbn [app cells_first_sep].
    rewrite (sk_nonblank cm sep _ sep_ns sep_nc). rewrite N.eqb_refl.
    rewrite (cell_opt_print v _ Tv (nodigit_tail sep cm OK vs rest)).
    rewrite (IH f rest ltac:(cbn in Hf; lia) Tvs). reflexivity.
Qed.

Lemma row_first_sep_print r rest : good_cls r ->
  row_first_sep cm sep (cls_txt true sep r ++ 10 :: rest) = Some (zrec r, 10 :: rest).
Proof.
  destruct r as [l vs]. intros (Hl & NE & T). cbn [fst snd] in *. destruct vs as [|v vs]; [contradiction|].
  rewrite cls_txt_first, <- app_assoc. unfold row_first_sep.
  rewrite (sk_print_nat cm l _ cm_nd).
  rewrite (lex_label_print l _ Hl).
  2:{ cbn. exact sep_nd. }
  2:{ cbn. exact ND. }
  rewrite (cells_first_sep_print (v :: vs) _ rest); [reflexivity| |exact T].
  rewrite app_length. pose proof (tail_text_length sep (v :: vs)). lia.
Qed.

Lemma cells_last_sep_print vs : forall fuel l rest, (length vs < fuel)%nat -> Forall sci_tok vs ->
  cells_last_sep cm sep fuel (head_text sep vs ++ print_nat l ++ 10 :: rest) = (vs, print_nat l ++ 10 :: rest).
Proof.
  induction vs as [|v vs IH]; intros fuel l rest Hf T.
  - destruct fuel as [|f]; [lia|]. cbn [head_text map concat app cells_last_sep].
    unfold cell_last_sep, cell_opt. rewrite (sk_print_nat cm l _ cm_nd).
    rewrite (lex_double_print_nat l (10 :: rest) ltac:(repeat split)).
    rewrite (sk_nl cm rest cm_nn). rewrite (sep_not_nl sep cm OK). reflexivity.
  - destruct fuel as [|f]; [cbn in Hf; lia|]. inversion T as [|? ? Tv Tvs]; subst.
    change (head_text sep (v :: vs)) with ((print_num v ++ [sep]) ++ head_text sep vs).
    rewrite <- !app_assoc. cbn [app cells_last_sep].
    unfold cell_last_sep at 1. rewrite (cell_opt_print v (sep :: head_text sep vs ++ print_nat l ++ 10 :: rest) Tv sep_nd).
    rewrite (sk_nonblank cm sep _ sep_ns sep_nc). rewrite N.eqb_refl.
    rewrite (IH f l rest ltac:(cbn in Hf; lia) Tvs). reflexivity.
Qed.

Lemma cls_txt_head first r : good_cls r -> exists c t, cls_txt first sep r = c :: t /\ (is_digit c = true \/ c = 43 \/ c = 45).
Proof.
  destruct r as [l vs]. intros (_ & NE & T). cbn [fst snd] in *. destruct vs as [|v vs]; [contradiction|]. destruct first.
  - rewrite cls_txt_first. destruct (print_nat_head l) as (c & t & E & Hc). rewrite E. cbn [app]. eauto.
  - rewrite cls_txt_last by discriminate. inversion T as [|? ? Tv _]; subst.
    destruct (tok_head v Tv) as (c & t & E & Hc).
    change (head_text sep (v :: vs)) with ((print_num v ++ [sep]) ++ head_text sep vs). rewrite E. cbn [app]. eauto.
Qed.

Lemma next_head first rows : Forall good_cls rows ->
  match export_gen (cls_txt first sep) rows with [] => True | c :: _ => is_digit c = true \/ c = 43 \/ c = 45 end.
Proof. intros G. apply export_gen_head. intros r Hr. rewrite Forall_forall in G. apply cls_txt_head. auto. Qed.

Lemma rec_last_sep_print r rows : good_cls r -> Forall good_cls rows ->
  rec_last_sep cm sep (cls_txt false sep r ++ 10 :: export_gen (cls_txt false sep) rows) =
  Some (zrec r, export_gen (cls_txt false sep) rows).
Proof.
  destruct r as [l vs]. intros (Hl & NE & T) G. cbn [fst snd] in *.
  rewrite (cls_txt_last sep l vs NE), <- app_assoc. unfold rec_last_sep.
  set (rest := export_gen (cls_txt false sep) rows).
  rewrite (cells_last_sep_print vs _ l rest); [| |exact T].
  2:{ rewrite app_length. pose proof (head_text_length sep vs). lia. }
  rewrite (sk_print_nat cm l _ cm_nd).
  rewrite (lex_label_print l (10 :: rest) Hl ltac:(reflexivity) ltac:(reflexivity)).
  subst rest. unfold zrec. cbn [fst snd]. do 2 f_equal.
  apply (eols_after cm _ cm_nd cm_np cm_nm cm_nn (next_head false rows G)).
Qed.

Theorem read_points_export_sep first rows : rows <> [] -> Forall good_cls rows ->
  read_points cm sep first (export_cls first sep rows) = Some (map zrec rows).
Proof.
  intros NE G. destruct OK as (_ & S & Z & _). unfold read_points, ws_mode. rewrite S, Z. cbn [orb].
  rewrite export_cls_gen. destruct first.
  - apply (file_list_gen cm (cls_txt true sep) zrec good_cls cm_nn (row_first_sep cm sep) row_first_sep_print eq_refl rows NE G).
  - apply (recs_gen (cls_txt false sep) zrec good_cls (rec_last_sep cm sep) rec_last_sep_print rows); [|exact NE|exact G].
    pose proof (export_gen_length (cls_txt false sep) rows). lia.
Qed.
End ClsSep.

Section ClsWs.
Variables sep cm : byte.
Hypothesis OK : ws_ok sep cm.

Let cm_nd : is_digit cm = false. Proof. apply OK. Qed.
Let cm_np : (cm =? 43) = false. Proof. apply OK. Qed.
Let cm_nm : (cm =? 45) = false. Proof. apply OK. Qed.
Let cm_nn : (cm =? 10) = false. Proof. apply OK. Qed.
Let sep_sp : is_space sep = true. Proof. apply OK. Qed.

Lemma row_first_ws_print r rest : good_cls r ->
  row_first_ws cm (cls_txt true sep r ++ 10 :: rest) = Some (zrec r, 10 :: rest).
Proof.
  destruct r as [l vs]. intros (Hl & NE & T). cbn [fst snd] in *. destruct vs as [|v vs]; [contradiction|].
  rewrite cls_txt_first, <- app_assoc. unfold row_first_ws.
  rewrite (sk_print_nat cm l _ cm_nd).
  rewrite (lex_label_print l _ Hl).
  2:{ cbn. apply space_not_digit. exact sep_sp. }
  2:{ cbn. apply (space_not_dot sep sep_sp). }
  rewrite (cells_ws_print sep cm OK (v :: vs) _ rest); [reflexivity| |exact T].
  rewrite app_length. pose proof (tail_text_length sep (v :: vs)). lia.
Qed.

Definition tokhead (s : list byte) : Prop := match s with [] => False | c :: _ => is_digit c = true \/ c = 43 \/ c = 45 end.

Lemma tokhead_weak s : tokhead s -> match s with [] => True | c :: _ => is_digit c = true \/ c = 43 \/ c = 45 end.
Proof. destruct s; [contradiction|auto]. Qed.

Lemma at_line_end_sep X : tokhead X -> at_line_end cm (sep :: X) = false.
Proof.
  intros H. unfold at_line_end. rewrite (sk_sep sep cm OK).
  rewrite (sk_tokhead cm X cm_nd cm_np cm_nm (tokhead_weak X H)).
  destruct X as [|c r]; [contradiction|]. rewrite (eol_tokhead (c :: r) H). reflexivity.
Qed.

Definition last_text (l : N) (rest : list byte) (vs : list num) : list byte := head_text sep vs ++ print_nat l ++ 10 :: rest.

Lemma last_text_tokhead l rest vs : Forall sci_tok vs -> tokhead (last_text l rest vs).
Proof.
  intros T. unfold last_text. destruct vs as [|v vs].
  - cbn [head_text map concat app]. destruct (print_nat_head l) as (c & t & E & Hc). rewrite E. cbn. auto.
  - inversion T as [|? ? Tv _]; subst. destruct (tok_head v Tv) as (c & t & E & Hc).
    change (head_text sep (v :: vs)) with ((print_num v ++ [sep]) ++ head_text sep vs). rewrite E. cbn. exact Hc.
Qed.

Lemma cells_last_ws_print l rest vs : forall fuel s, sk cm s = last_text l rest vs -> (length vs < fuel)%nat -> Forall sci_tok vs ->
  exists t, cells_last_ws cm fuel s = (vs, t) /\ sk cm t = print_nat l ++ 10 :: rest.
Proof.
  induction vs as [|v vs IH]; intros fuel s Hs Hf T.
  - destruct fuel as [|f]; [lia|]. exists s. split; [|exact Hs]. cbn [cells_last_ws].
    unfold cell_last_ws. rewrite Hs. unfold last_text. cbn [head_text map concat app].
    rewrite (lex_double_print_nat l (10 :: rest) ltac:(repeat split)).
    unfold at_line_end. rewrite (sk_nl cm rest cm_nn). reflexivity.
  - destruct fuel as [|f]; [cbn in Hf; lia|]. inversion T as [|? ? Tv Tvs]; subst.
    assert (E : last_text l rest (v :: vs) = print_num v ++ sep :: last_text l rest vs).
    { unfold last_text. change (head_text sep (v :: vs)) with ((print_num v ++ [sep]) ++ head_text sep vs).
      rewrite <- !app_assoc. reflexivity. }
    cbn [cells_last_ws]. unfold cell_last_ws at 1. rewrite Hs, E.
    rewrite (lex_print v (sep :: last_text l rest vs) Tv (space_not_digit sep sep_sp)).
    rewrite (at_line_end_sep _ (last_text_tokhead l rest vs Tvs)).
    destruct (IH f (sep :: last_text l rest vs)) as (t & Ht & St); [| cbn in Hf; lia | exact Tvs |].
    { rewrite (sk_sep sep cm OK). apply (sk_tokhead cm _ cm_nd cm_np cm_nm). apply tokhead_weak. apply last_text_tokhead. exact Tvs. }
    exists t. rewrite Ht. split; [reflexivity|exact St].
Qed.

Lemma ws_cls_txt_head first r : good_cls r -> exists c t, cls_txt first sep r = c :: t /\ (is_digit c = true \/ c = 43 \/ c = 45).
Proof.
  destruct r as [l vs]. intros (_ & NE & T). cbn [fst snd] in *. destruct vs as [|v vs]; [contradiction|]. destruct first.
  - rewrite cls_txt_first. destruct (print_nat_head l) as (c & t & E & Hc). rewrite E. cbn [app]. eauto.
  - rewrite cls_txt_last by discriminate. inversion T as [|? ? Tv _]; subst.
    destruct (tok_head v Tv) as (c & t & E & Hc).
    change (head_text sep (v :: vs)) with ((print_num v ++ [sep]) ++ head_text sep vs). rewrite E. cbn [app]. eauto.
Qed.

Lemma ws_next_head first rows : Forall good_cls rows ->
  match export_gen (cls_txt first sep) rows with [] => True | c :: _ => is_digit c = true \/ c = 43 \/ c = 45 end.
Proof. intros G. apply export_gen_head. intros r Hr. rewrite Forall_forall in G. apply ws_cls_txt_head. auto. Qed.

Lemma rec_last_ws_print r rows : good_cls r -> Forall good_cls rows ->
  rec_last_ws cm (cls_txt false sep r ++ 10 :: export_gen (cls_txt false sep) rows) =
  Some (zrec r, export_gen (cls_txt false sep) rows).
Proof.
  destruct r as [l vs]. intros (Hl & NE & T) G. cbn [fst snd] in *.
  rewrite (cls_txt_last sep l vs NE), <- app_assoc. unfold rec_last_ws.
  fold (last_text l (export_gen (cls_txt false sep) rows) vs).
  destruct (cells_last_ws_print l (export_gen (cls_txt false sep) rows) vs
              (S (length (last_text l (export_gen (cls_txt false sep) rows) vs))) (last_text l (export_gen (cls_txt false sep) rows) vs))
    as (t & Ht & St); [| |exact T|].
  { apply (sk_tokhead cm _ cm_nd cm_np cm_nm). apply tokhead_weak. apply last_text_tokhead. exact T. }
  { unfold last_text. rewrite app_length. pose proof (head_text_length sep vs). lia. }
  rewrite Ht, St.
  rewrite (lex_label_print l (10 :: _) Hl ltac:(reflexivity) ltac:(reflexivity)).
  unfold zrec. cbn [fst snd]. do 2 f_equal.
  apply (eols_after cm _ cm_nd cm_np cm_nm cm_nn (ws_next_head false rows G)).
Qed.

Theorem read_points_export_ws first rows : rows <> [] -> Forall good_cls rows ->
  read_points cm sep first (export_cls first sep rows) = Some (map zrec rows).
Proof.
  intros NE G. unfold read_points. rewrite (ws_mode_true sep cm OK).
  rewrite export_cls_gen. destruct first.
  - apply (file_list_gen cm (cls_txt true sep) zrec good_cls cm_nn (row_first_ws cm) row_first_ws_print eq_refl rows NE G).
  - apply (recs_gen (cls_txt false sep) zrec good_cls (rec_last_ws cm) rec_last_ws_print rows); [|exact NE|exact G].
    pose proof (export_gen_length (cls_txt false sep) rows). lia.
Qed.
End ClsWs.

(* ---------- label normalisation of csvStringToData / libsvm_importer_classification on unsigned labels ---------- *)
Definition minstep (m l : Z) : Z := if (l =? -1)%Z then m else Z.min m l.

Lemma fold_min_in ls : forall a, fold_left minstep ls a = a \/ In (fold_left minstep ls a) ls.
Proof.
  induction ls as [|x ls IH]; intros a; cbn [fold_left]; [left; reflexivity|].
  destruct (IH (minstep a x)) as [E|I]; [|right; right; exact I].
  rewrite E. unfold minstep. destruct (x =? -1)%Z; [left; reflexivity|].
  destruct (Z.min_spec a x) as [(_ & ->)|(_ & ->)]; [left; reflexivity|right; left; reflexivity].
Qed.

Lemma has_minus1_nonneg ls : (forall l, In l ls -> (0 <= l)%Z) -> has_minus1 ls = false.
Proof.
  intros H. unfold has_minus1. destruct (existsb _ ls) eqn:E; [|reflexivity].
  apply existsb_exists in E. destruct E as (l & Hl & El). apply Z.eqb_eq in El. specialize (H l Hl). lia.
Qed.

Lemma min_label_unsigned (nl : list N) : nl <> [] -> (forall l, In l nl -> l <= 2147483647) ->
  exists mn, In mn nl /\ (forall l, In l nl -> mn <= l) /\ min_label (map Z.of_N nl) = Z.of_N mn.
Proof.
  intros NE B. set (ls := map Z.of_N nl). set (M := min_label ls).
  assert (LE : forall l, In l nl -> (M <= Z.of_N l)%Z).
  { intros l Hl. apply (min_label_le ls 2147483647%Z (Z.of_N l)); [apply in_map; exact Hl|lia]. }
  assert (IN : In M ls).
  { destruct (fold_min_in ls 2147483647%Z) as [E|I]; [|exact I].
    destruct nl as [|l0 nl']; [contradiction|].
    pose proof (LE l0 ltac:(left; reflexivity)) as L0. pose proof (B l0 ltac:(left; reflexivity)) as B0.
    unfold M, min_label in L0. fold minstep in L0. rewrite E in L0.
    assert (Z.of_N l0 = M) by (unfold M, min_label; fold minstep; rewrite E; lia).
    rewrite <- H. left. reflexivity. }
  apply in_map_iff in IN. destruct IN as (mn & Emn & Hmn). exists mn. split; [exact Hmn|]. split; [|symmetry; exact Emn].
  intros l Hl. specialize (LE l Hl). lia.
Qed.

Lemma norm_labels_unsigned (nl : list N) : nl <> [] -> (forall l, In l nl -> l <= 2147483647) ->
  exists mn, In mn nl /\ (forall l, In l nl -> mn <= l) /\
             labels_ok (map Z.of_N nl) = true /\
             norm_labels (map Z.of_N nl) = map (fun l => (Z.of_N l - Z.of_N mn)%Z) nl.
Proof.
  intros NE B. destruct (min_label_unsigned nl NE B) as (mn & I & L & E). exists mn. split; [exact I|]. split; [exact L|]. split.
  - unfold labels_ok. apply forallb_forall. intros z Hz. apply in_map_iff in Hz. destruct Hz as (l & <- & _). apply Z.leb_le. lia.
  - unfold norm_labels. rewrite E, has_minus1_nonneg.
    2:{ intros z Hz. apply in_map_iff in Hz. destruct Hz as (l & <- & _). lia. }
    rewrite map_map. reflexivity.
Qed.

Lemma combine_map_map {A B C} (f : A -> B) (g : A -> C) l : combine (map f l) (map g l) = map (fun x => (f x, g x)) l.
Proof. induction l as [|x l IH]; [reflexivity|]. cbn. rewrite IH. reflexivity. Qed.

Lemma map_eq_in {A B} (f g : A -> B) l x : map f l = map g l -> In x l -> f x = g x.
Proof. induction l as [|y l IH]; intros H Hx; [contradiction|]. cbn in H. injection H as H0 H1. destruct Hx as [->|Hx]; auto. Qed.

(* separators of a classification file: a separator character other than '.', or a blank *)
Definition cls_sep_ok (sep cm : byte) : Prop := (chars_ok sep cm /\ (sep =? 46) = false) \/ ws_ok sep cm.

Lemma read_points_export_any sep cm first rows : cls_sep_ok sep cm -> rows <> [] -> Forall good_cls rows ->
  read_points cm sep first (export_cls first sep rows) = Some (map zrec rows).
Proof. intros [(OK & ND)|OK]; [apply read_points_export_sep|apply read_points_export_ws]; assumption. Qed.

Theorem cls_roundtrip sep cm first rows d m : cls_sep_ok sep cm -> (1 <= m)%nat -> (1 <= d)%nat -> rows <> [] ->
  Forall (fun r => fst r <= 2147483647 /\ length (snd r) = d /\ Forall sci_tok (snd r)) rows ->
  exists ds mn, csv_import_cls first sep cm m (export_cls first sep rows) = Ok ds /\
    In mn (map fst rows) /\ (forall l, In l (map fst rows) -> mn <= l) /\
    ds_elems ds = map (fun r => ((Z.of_N (fst r) - Z.of_N mn)%Z, snd r)) rows /\
    ds_dim ds = Z.of_nat d /\
    opt_sizes (length rows) m = Some (map (@length _) (ds_batches ds)).
Proof.
  intros OK Hm Hd NE F.
  assert (G : Forall good_cls rows).
  { eapply Forall_impl; [|exact F]. intros r (Hl & L & T). split; [exact Hl|]. split; [|exact T]. intros E. rewrite E in L. cbn in L. lia. }
  unfold csv_import_cls. rewrite (read_points_export_any sep cm first rows OK NE G). cbn [lift].
  assert (ML : map fst (map zrec rows) = map Z.of_N (map fst rows)) by (rewrite !map_map; reflexivity).
  assert (MS : map snd (map zrec rows) = map snd rows) by (rewrite map_map; reflexivity).
  destruct (norm_labels_unsigned (map fst rows)) as (mn & I & L & LO & NL).
  { destruct rows; [contradiction|discriminate]. }
  { intros l Hl. apply in_map_iff in Hl. destruct Hl as (r & <- & Hr). rewrite Forall_forall in F. apply (F r Hr). }
  unfold post_cls. destruct (map zrec rows) as [|z0 zr] eqn:EZ.
  { destruct rows; [contradiction|discriminate]. }
  rewrite ML, MS, LO. cbn [negb]. rewrite NL.
  destruct (batch_opt _ m) as [bs|] eqn:E.
  2:{ apply batch_opt_none in E. lia. }
  assert (L0 : length (snd z0) = d).
  { destruct rows as [|r0 rows']; [contradiction|]. cbn in EZ. injection EZ as <- _. cbn [zrec snd].
    inversion F as [|? ? (_ & L0 & _) _]; subst. reflexivity. }
  assert (SL : same_len (length (snd z0)) (map snd rows) = true).
  { unfold same_len. apply forallb_forall. intros v Hv. apply in_map_iff in Hv. destruct Hv as (r & <- & Hr).
    rewrite Forall_forall in F. destruct (F r Hr) as (_ & Lr & _). apply Nat.eqb_eq. lia. }
  rewrite SL. destruct (batch_opt_spec _ _ _ E) as (C & _). destruct (batch_opt_sizes _ _ _ E) as (OS & _).
  exists (mkDs bs (Z.of_nat (length (snd z0)))), mn. split; [reflexivity|]. split; [exact I|]. split; [exact L|].
  unfold ds_elems. cbn [ds_batches ds_dim]. rewrite C. split; [|split].
  - rewrite map_map. apply (combine_map_map (fun r => (Z.of_N (fst r) - Z.of_N mn)%Z) snd rows).
  - rewrite L0. reflexivity.
  - rewrite combine_length, !map_length, Nat.min_id in OS. exact OS.
Qed.

(* the exact guarantee on labels: they come back unchanged iff class 0 occurs in the exported dataset
   (otherwise every label is lowered by the smallest one: known deviation C19-LABELSHIFT) *)
Corollary cls_roundtrip_labels sep cm first rows d m : cls_sep_ok sep cm -> (1 <= m)%nat -> (1 <= d)%nat -> rows <> [] ->
  Forall (fun r => fst r <= 2147483647 /\ length (snd r) = d /\ Forall sci_tok (snd r)) rows ->
  exists ds, csv_import_cls first sep cm m (export_cls first sep rows) = Ok ds /\
    map snd (ds_elems ds) = map snd rows /\
    (map fst (ds_elems ds) = map (fun r => Z.of_N (fst r)) rows <-> In 0 (map fst rows)).
Proof.
  intros OK Hm Hd NE F. destruct (cls_roundtrip sep cm first rows d m OK Hm Hd NE F) as (ds & mn & E & I & L & EL & _).
  exists ds. split; [exact E|]. rewrite EL, !map_map. cbn [fst snd]. split; [reflexivity|]. split.
  - intros H. apply in_map_iff in I. destruct I as (r & Er & Hr).
    assert (X : (Z.of_N (fst r) - Z.of_N mn = Z.of_N (fst r))%Z).
    { apply (map_eq_in _ _ rows r H Hr). }
    assert (M0 : mn = 0) by lia. rewrite M0 in Er. rewrite <- Er. apply in_map. exact Hr.
  - intros H0. assert (mn = 0) by (specialize (L 0 H0); lia). subst mn.
    apply map_ext. intros r. cbn. lia.
Qed.

(* hypotheses satisfiable: a comma / a blank, labels {0,2} / {1,2} *)
Lemma cls_sep_ok_comma : cls_sep_ok 44 35.
Proof. left. split; [apply chars_ok_comma_hash|reflexivity]. Qed.
Lemma cls_sep_ok_space : cls_sep_ok 32 35.
Proof. right. repeat split. Qed.
Lemma ws_ok_tab : ws_ok 9 35.
Proof. repeat split. Qed.
Lemma sep_ok_space : sep_ok 32 35.
Proof. right. repeat split. Qed.

Lemma cls_roundtrip_example :
  csv_import_cls false 32 35 2 (export_cls false 32 [(0, [tok_1_5]); (2, [tok_m2_25em3])]) =
    Ok (mkDs [[(0%Z, [tok_1_5]); (2%Z, [tok_m2_25em3])]] 1) /\
  csv_import_cls true 44 35 2 (export_cls true 44 [(1, [tok_1_5]); (2, [tok_m2_25em3])]) =
    Ok (mkDs [[(0%Z, [tok_1_5]); (1%Z, [tok_m2_25em3])]] 1).
Proof. vm_compute. split; reflexivity. Qed.
