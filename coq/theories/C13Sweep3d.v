(* C13 — HypervolumeCalculator3D.h as coded: executable model (definitions only).

   operator():  keep the points strictly below the reference point in all three objectives; empty -> 0;
                std::sort by the third objective; the first point opens the 2-D front
                (std::map first objective -> second objective), area = (r0-x0)(r1-y0), volume = 0;
                every further point x:
                   right = lower_bound(x[0]); t = "top": second objective of the left neighbour, of the
                   entry with the same key, or r1 when there is no left neighbour;
                   x[1] >= t: skip (dominated in the projection);
                   volume += area * (x[2] - prev_x2);
                   while right != end and right->second >= x[1]: area -= (next key or r0 - key)*(t - second); erase;
                   area += (next key or r0 - x[0]) * (t - x[1]);  front[x[0]] = x[1];  prev_x2 = x[2]
                volume += area * (r2 - prev_x2)

   The std::map is an association list with strictly increasing keys; lower_bound splits it into
   the entries with a smaller key and the rest, erase removes a prefix of the rest, operator[]
   is the sorted insert-or-assign [map_set].  The order std::sort leaves equal third objectives in is
   not specified: [sweep3d] takes the sorted arrangement as its argument (the theorems quantify over
   all of them); [hv3d] is the instance with the stable insertion sort. *)
From Coq Require Import List ZArith Lia Bool Arith.
From SharkV Require Import ListAux C13Model.
Import ListNotations.
Local Open Scope Z_scope.

Definition triple := (Z * Z * Z)%type.
Definition to_triple (p : point) : triple :=
  match p with [x; y; z] => (x, y, z) | _ => (0, 0, 0) end.
Definition third (p : triple) : Z := snd p.
Definition pair_of (p : triple) : Z * Z := fst p.

Definition front2 := list (Z * Z).

(* lower_bound(x): (entries with key < x,  second objective of the last of them or [prev],  rest) *)
Fixpoint split_lb (x prev : Z) (F : front2) : front2 * Z * front2 :=
  match F with
  | [] => ([], prev, [])
  | e :: F' =>
    if fst e <? x then let '(l, t, r) := split_lb x (snd e) F' in (e :: l, t, r)
    else ([], prev, F)
  end.

Definition next_key (r0 : Z) (F : front2) : Z := match F with e :: _ => fst e | [] => r0 end.

(* while (right != end && right->second >= x1) { area -= (r - key) * (t - second); erase } *)
Fixpoint remove_dom (r0 t x1 : Z) (rgt : front2) (area : Z) : Z * front2 :=
  match rgt with
  | e :: rgt' =>
    if x1 <=? snd e then remove_dom r0 t x1 rgt' (area - (next_key r0 rgt' - fst e) * (t - snd e))
    else (area, rgt)
  | [] => (area, [])
  end.

(* front2D[x] = y *)
Fixpoint map_set (x y : Z) (F : front2) : front2 :=
  match F with
  | [] => [(x, y)]
  | e :: F' => if fst e <? x then e :: map_set x y F'
               else if fst e =? x then (x, y) :: F' else (x, y) :: F
  end.

Record sw3 := { s_front : front2; s_area : Z; s_vol : Z; s_prev : Z }.

Definition sweep3_step (r0 r1 : Z) (st : sw3) (p : triple) : sw3 :=
  let '(x0, x1, x2) := p in
  let '(lft, tl, rgt) := split_lb x0 r1 (s_front st) in
  let t := match rgt with
           | e :: _ => if fst e =? x0 then snd e else tl
           | [] => tl
           end in
  if t <=? x1 then st
  else
    let vol := s_vol st + s_area st * (x2 - s_prev st) in
    let '(area, rgt') := remove_dom r0 t x1 rgt (s_area st) in
    {| s_front := map_set x0 x1 (lft ++ rgt');
       s_area := area + (next_key r0 rgt' - x0) * (t - x1);
       s_vol := vol;
       s_prev := x2 |}.

Definition sweep3d (r0 r1 r2 : Z) (L : list triple) : Z :=
  match L with
  | [] => 0
  | (x0, y0, z0) :: L' =>
    let st := fold_left (sweep3_step r0 r1) L'
                {| s_front := [(x0, y0)]; s_area := (r0 - x0) * (r1 - y0); s_vol := 0; s_prev := z0 |} in
    s_vol st + s_area st * (r2 - s_prev st)
  end.

Definition strict3 (r0 r1 r2 : Z) (p : triple) : bool :=
  let '(x, y, z) := p in (x <? r0) && (y <? r1) && (z <? r2).

Fixpoint insert_z3 (p : triple) (l : list triple) : list triple :=
  match l with
  | [] => [p]
  | q :: t => if third p <=? third q then p :: l else q :: insert_z3 p t
  end.
Definition sort_z3 (l : list triple) : list triple := fold_right insert_z3 [] l.

Definition hv3d (ref : point) (S : list point) : Z :=
  match ref with
  | [r0; r1; r2] => sweep3d r0 r1 r2 (sort_z3 (filter (strict3 r0 r1 r2) (map to_triple S)))
  | _ => 0
  end.
