(* C02 — conjugate gradient over Qc: the field-level hypotheses of C02CgSpdProofs.v hold (sums of squares), and a concrete run
   A = [[4,1],[1,3]], b = (1,2): two iterations, x = (1/11, 7/11), returned through the stopping rule. *)
From Coq Require Import QArith Qcanon List Lia.
From SharkV Require Import C02Model C02Proofs C02Q C02QProofs C02PstrfQProofs C02CgModel C02CgProofs C02CgSpdProofs.
Import ListNotations.

Local Open Scope Qc_scope.
Lemma qc_sumsq_nonneg : forall sq n (v : vec Qc), 0 <= sumr Qc (qc_ops sq) 0 n (fun i => fmul (qc_ops sq) (v i) (v i)).
Proof.
  intros sq n v. induction n; cbn [sumr Nat.leb]; [apply Qcle_refl|]. cbn [fadd fmul qc_ops].
  replace 0 with (0 + 0) by ring. apply Qcplus_le_compat; [exact IHn|apply qc_sq_nonneg].
Qed.
Lemma qc_sumsq_nz : forall sq n (v : vec Qc), nonzero Qc (qc_ops sq) n v -> dot Qc (qc_ops sq) n v v <> fzero (qc_ops sq).
Proof.
  intros sq n v [i [Hi Hv]]. unfold dot. induction n; [lia|]. cbn [sumr Nat.leb]. cbn [fadd fmul fzero qc_ops] in *.
  assert (P : forall x : Qc, x <> 0 -> 0 < x * x).
  { intros x Hx. destruct (Qcle_lt_or_eq _ _ (qc_sq_nonneg x)) as [L|E]; [exact L|]. symmetry in E. destruct (Qcmult_integral _ _ E); contradiction. }
  intros Z. destruct (Nat.eq_dec i n) as [->|N].
  - pose proof (P (v n) Hv) as Pn. pose proof (qc_sumsq_nonneg sq n v) as S. cbn [fmul qc_ops] in S.
    assert (L : 0 < sumr Qc (qc_ops sq) 0 n (fun i => v i * v i) + v n * v n).
    { eapply Qclt_le_trans; [exact Pn|]. replace (v n * v n) with (0 + v n * v n) at 1 by ring. apply Qcplus_le_compat; [exact S|apply Qcle_refl]. }
    rewrite Z in L. exact (Qclt_not_le _ _ L (Qcle_refl 0)).
  - assert (Hn : sumr Qc (qc_ops sq) 0 n (fun i => v i * v i) <> 0) by (apply IHn; lia).
    pose proof (qc_sumsq_nonneg sq n v) as S. cbn [fmul qc_ops] in S.
    destruct (Qcle_lt_or_eq _ _ S) as [L|E]; [|apply Hn; symmetry; exact E].
    assert (L2 : 0 < sumr Qc (qc_ops sq) 0 n (fun i => v i * v i) + v n * v n).
    { eapply Qclt_le_trans; [exact L|]. replace (sumr Qc (qc_ops sq) 0 n (fun i => v i * v i)) with (sumr Qc (qc_ops sq) 0 n (fun i => v i * v i) + 0) at 1 by ring.
      apply Qcplus_le_compat; [apply Qcle_refl|apply qc_sq_nonneg]. }
    rewrite Z in L2. exact (Qclt_not_le _ _ L2 (Qcle_refl 0)).
Qed.
Local Close Scope Qc_scope.

Definition cg_F := qc_ops ex_sq.
Definition ex_cg_A : mat Qc := of_rows Qc cg_F [[qc_make 4 1; qc_make 1 1]; [qc_make 1 1; qc_make 3 1]].
Definition ex_cg_b : vec Qc := of_list Qc cg_F [qc_make 1 1; qc_make 2 1].
Definition ex_cg_eps : Qc := qc_make 1 1024.
Example ex_cg_runs :
  let o := cg_solve_v Qc cg_F qc_abs 10 2 ex_cg_A ex_cg_eps 0 ex_cg_b in
  qc_eq_list (tab Qc 2 (cg_x Qc o)) [qc_make 1 11; qc_make 7 11] = true /\ cg_iters Qc o = 2%nat /\ cg_why Qc o = StopEps /\
  qc_eq_list (tab Qc 2 (cg_r Qc o)) [Q2Qc 0; Q2Qc 0] = true /\
  forallb (fun d => negb (qc_eqb d (Q2Qc 0))) (cg_dens Qc o) = true /\ length (cg_dens Qc o) = 4%nat.
Proof. vm_compute. repeat split; reflexivity. Qed.
(* the iterate after one step, exposed through max_iterations = 1 as the check does *)
Example ex_cg_first_iterate :
  let o := cg_solve_v Qc cg_F qc_abs 10 2 ex_cg_A ex_cg_eps 1 ex_cg_b in
  qc_eq_list (tab Qc 2 (cg_x Qc o)) [qc_make 1 4; qc_make 1 2] = true /\ cg_why Qc o = StopMaxit.
Proof. vm_compute. split; reflexivity. Qed.

(* ex_cg_A is definite: v^T A v = 3 x^2 + 2 y^2 + (x+y)^2 *)
Lemma ex_cg_definite : definite Qc cg_F 2 ex_cg_A.
Proof.
  intros v [i [Hi Hv]]. set (x := v 0%nat) in *. set (y := v 1%nat) in *.
  assert (E : dot Qc cg_F 2 v (mvp Qc cg_F 2 ex_cg_A v) = (x * x + x * x + x * x + (y * y + y * y) + (x + y) * (x + y))%Qc).
  { unfold dot, mvp. cbn [sumr Nat.leb]. unfold ex_cg_A, of_rows. cbn [nth]. cbn [fadd fmul fzero cg_F qc_ops]. fold x. fold y.
    replace (qc_make 4 1) with (1 + 1 + 1 + 1)%Qc by (apply Qc_is_canon; reflexivity).
    replace (qc_make 3 1) with (1 + 1 + 1)%Qc by (apply Qc_is_canon; reflexivity).
    replace (qc_make 1 1) with 1%Qc by (apply Qc_is_canon; reflexivity). ring. }
  rewrite E. cbn [fzero cg_F qc_ops]. intros Z.
  assert (P : forall t : Qc, t <> 0%Qc -> (0 < t * t)%Qc).
  { intros t Ht. destruct (Qcle_lt_or_eq _ _ (qc_sq_nonneg t)) as [L|E2]; [exact L|]. symmetry in E2. destruct (Qcmult_integral _ _ E2); contradiction. }
  pose proof (qc_sq_nonneg x) as Sx. pose proof (qc_sq_nonneg y) as Sy. pose proof (qc_sq_nonneg (x + y)%Qc) as Sxy.
  assert (Q0 : (0 < x * x + x * x + x * x + (y * y + y * y) + (x + y) * (x + y))%Qc).
  { assert (Hxy : x <> 0%Qc \/ y <> 0%Qc).
    { destruct i as [|[|i]]; [left; exact Hv|right; exact Hv|lia]. }
    assert (L : (0 < x * x + y * y)%Qc).
    { destruct Hxy as [H|H].
      - eapply Qclt_le_trans; [exact (P x H)|]. replace (x * x)%Qc with (x * x + 0)%Qc at 1 by ring. apply Qcplus_le_compat; [apply Qcle_refl|exact Sy].
      - eapply Qclt_le_trans; [exact (P y H)|]. replace (y * y)%Qc with (0 + y * y)%Qc at 1 by ring. apply Qcplus_le_compat; [exact Sx|apply Qcle_refl]. }
    eapply Qclt_le_trans; [exact L|].
    replace (x * x + x * x + x * x + (y * y + y * y) + (x + y) * (x + y))%Qc with ((x * x + y * y) + ((x * x + x * x + y * y) + (x + y) * (x + y)))%Qc by ring.
    replace (x * x + y * y)%Qc with ((x * x + y * y) + 0)%Qc at 1 by ring. apply Qcplus_le_compat; [apply Qcle_refl|].
    replace 0%Qc with (0 + 0)%Qc by ring. apply Qcplus_le_compat; [|exact Sxy].
    replace 0%Qc with (0 + 0 + 0)%Qc by ring. repeat apply Qcplus_le_compat; assumption. }
  rewrite Z in Q0. exact (Qclt_not_le _ _ Q0 (Qcle_refl 0%Qc)).
Qed.
