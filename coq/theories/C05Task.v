(* C05 — GaussianTaskKernel and MultiTaskKernel (include/shark/Models/Kernels/MultiTaskKernel.h).  Definitions only.
   GaussianTaskKernel is a DiscreteKernel whose table is computed from multi-task data (input, task index):
     computeMatrix(): M(s,t) = mean over all pairs (x in task s, x' in task t) of the input kernel k(x,x')   (0 if a task
       has no example; the C++ accumulates k(x_i,x_j), j < i, into both (t_i,t_j) and (t_j,t_i), i.e. it uses the symmetry
       of k), then for s <> t: table(s,t) = exp(-gamma * (M(i,i) + M(j,j) - 2 M(i,j))), i = max s t, j = min s t; table(s,s) = 1.
     M is the Gram matrix of the kernel mean embeddings of the tasks' empirical distributions.
   MultiTaskKernel(inputkernel, taskkernel) = ProductKernel of the input kernel on the inputs and the task kernel on the
   task indices. *)
From Coq Require Import List Arith Bool.
From SharkV Require Import C03Model C05Model.
Import ListNotations.

Section Task.
Variable A : Type.
Variables (zero one : A) (add mul sub div : A -> A -> A) (opp expA : A -> A).
Notation vec := (list A).
Notation mat := (list (list A)).

(* the inputs of the examples of task t *)
Definition members (data : list (vec * nat)) (t : nat) : list vec :=
  map fst (filter (fun e => snd e =? t) data).

(* mean of k over all pairs; 0 if one of the sets is empty (the entry is never touched) *)
Definition k_pset0 (k : vec -> vec -> A) (S T : list vec) : A :=
  match S, T with
  | [], _ => zero
  | _, [] => zero
  | _, _ => k_pset A zero one add mul div k S T
  end.

Definition gt_mean (k : vec -> vec -> A) (data : list (vec * nat)) (s t : nat) : A :=
  k_pset0 k (members data s) (members data t).

Definition gt_entry (k : vec -> vec -> A) (g : A) (data : list (vec * nat)) (s t : nat) : A :=
  if s =? t then one
  else let i := Nat.max s t in let j := Nat.min s t in
       expA (mul (opp g) (sub (add (gt_mean k data i i) (gt_mean k data j j)) (mul (two A one add) (gt_mean k data i j)))).

(* the table of the DiscreteKernel base class after computeMatrix() *)
Definition gt_matrix (k : vec -> vec -> A) (g : A) (data : list (vec * nat)) (nt : nat) : mat :=
  map (fun s => map (fun t => gt_entry k g data s t) (seq 0 nt)) (seq 0 nt).

(* MultiTaskKernel: ProductKernel [input kernel on .input; task kernel (a DiscreteKernel with table tbl) on .task] *)
Definition k_mtask (kin : vec -> vec -> A) (tbl : mat) : (vec * nat) -> (vec * nat) -> A :=
  k_prod A one mul (vec * nat) [k_pull A fst kin; k_pull A snd (k_disc A zero tbl)].

End Task.
