(* C15 — PCA::setData / encoder / decoder as coded (model C15PcaModel.v): proofs.
   Small-sample branch: IF the eigen-decomposition oracle fulfils its contract on the Gram-type matrix X0 X0^T / l it is given,
   the square root is exact on the values met and the eigenvalues below the rounding threshold are exactly zero, THEN the
   returned columns are orthonormal eigenvectors of the covariance matrix with the oracle's eigenvalues. *)
From Coq Require Import List Arith Bool QArith Lia Lqa Setoid.
From SharkV Require Import ListAux C03Model C15Model C15Aux C15Proofs C15ProofsLin C15PcaModel.
Import ListNotations.
Open Scope Q_scope.

(* ---------- tabulation is the identity ---------- *)
Lemma tabq_nth n (x : vecq) i : (i < n)%nat -> nth i (tabq n x) 0 = x i.
Proof.
  intros H. unfold tabq. rewrite (nth_indep _ 0 (x O)) by (rewrite map_length, seq_length; exact H).
  rewrite map_nth, seq_nth by exact H. reflexivity.
Qed.
Lemma memoq_eq n x i : memoq n x i = x i.
Proof.
  unfold memoq, memo_lq. destruct (Nat.ltb_spec i n) as [H|H]; [apply tabq_nth; exact H|reflexivity].
Qed.
Lemma memo2q_eq r c M i j : memo2q r c M i j = M i j.
Proof.
  unfold memo2q, memo2_lq. destruct (Nat.ltb_spec i r) as [Hi|Hi]; [|reflexivity].
  destruct (Nat.ltb_spec j c) as [Hj|Hj]; [|reflexivity]. cbn [andb].
  rewrite (nth_indep _ [] (tabq c (M O))) by (rewrite map_length, seq_length; exact Hi).
  rewrite (map_nth (fun i => tabq c (M i))), seq_nth by exact Hi. cbn [Nat.add]. apply tabq_nth. exact Hj.
Qed.

(* ---------- comparisons ---------- *)
Lemma qltb_true a b : qltb a b = true <-> a < b.
Proof.
  unfold qltb. rewrite negb_true_iff. split.
  - intros H. apply Qnot_le_lt. intros C. apply Qle_bool_iff in C. congruence.
  - intros H. destruct (Qle_bool b a) eqn:E; [|reflexivity]. apply Qle_bool_iff in E. exfalso. apply (Qlt_not_le _ _ H E).
Qed.
Lemma qltb_false a b : qltb a b = false <-> b <= a.
Proof.
  unfold qltb. rewrite negb_false_iff. apply Qle_bool_iff.
Qed.

(* ---------- sums ---------- *)
Lemma sumn_shift n f : sumn (S n) f == f O + sumn n (fun i => f (S i)).
Proof.
  induction n as [|n IH]; [rewrite sumn_S, !sumn_O; ring|].
  rewrite sumn_S, IH, (sumn_S n). ring.
Qed.
Lemma bsum_nth {X} (f : X -> Q) (xs : list X) (dflt : X) :
  bsum f xs == sumn (length xs) (fun a => f (nth a xs dflt)).
Proof.
  induction xs as [|x xs IH]; [reflexivity|].
  rewrite bsum_cons. cbn [length]. rewrite sumn_shift. cbn [nth]. rewrite IH. reflexivity.
Qed.
Lemma sumn_const n c : sumn n (fun _ => c) == inject_Z (Z.of_nat n) * c.
Proof.
  induction n as [|n IH]; [rewrite sumn_O; cbn; ring|].
  rewrite sumn_S, IH, Nat2Z.inj_succ, <- Z.add_1_r, inject_Z_plus. ring.
Qed.
Lemma sumn_nonpos n f : (forall j, (j < n)%nat -> f j <= 0) -> sumn n f <= 0.
Proof.
  induction n as [|n IH]; intros H; [rewrite sumn_O; lra|].
  rewrite sumn_S. specialize (H n (Nat.lt_succ_diag_r n)) as Hn.
  assert (sumn n f <= 0) by (apply IH; intros; apply H; lia). lra.
Qed.
Lemma sumn_sq_zero n f : sumn n (fun j => f j * f j) == 0 -> forall j, (j < n)%nat -> f j == 0.
Proof.
  induction n as [|n IH]; intros H j Hj; [lia|].
  rewrite sumn_S in H. pose proof (sumn_sq_nonneg n f). pose proof (sq_nonneg (f n)).
  destruct (Nat.eq_dec j n) as [->|Hne].
  - apply sq_zero. lra.
  - apply IH; [lra|lia].
Qed.
Lemma gram_sym d V i k : gram d V i k == gram d V k i.
Proof. unfold gram. apply sumn_ext_all; intros; ring. Qed.
Lemma sumn_delta_l n i a : (i < n)%nat -> sumn n (fun k => delta k i * a k) == a i.
Proof.
  intros H. rewrite <- (sumn_delta n i a H). apply sumn_ext_all; intros k. rewrite delta_sym. reflexivity.
Qed.

(* bilinear form through a matrix product:  (X^T u) . (X^T w)  =  u^T (X X^T) w *)
Lemma bilin d l (X : matq) (u w : vecq) :
  sumn d (fun j => sumn l (fun a => X a j * u a) * sumn l (fun b => X b j * w b))
  == sumn l (fun a => u a * sumn l (fun b => sumn d (fun j => X a j * X b j) * w b)).
Proof.
  rewrite (sumn_ext_all d _ (fun j => sumn l (fun a => sumn l (fun b => X a j * u a * (X b j * w b))))).
  2:{ intros j. apply sumn_mul. }
  rewrite sumn_swap. apply sumn_ext_all; intros a.
  rewrite sumn_swap. rewrite <- sumn_scal. apply sumn_ext_all; intros b.
  rewrite <- sumn_scal_r, <- sumn_scal. apply sumn_ext_all; intros j. ring.
Qed.

Lemma minus_sum_mul (a : Q) t f c : (a - sumn t f) * c == a * c - sumn t (fun k => f k * c).
Proof. rewrite sumn_scal_r. ring. Qed.
Lemma mul_minus_sum (a : Q) t f c : c * (a - sumn t f) == c * a - sumn t (fun k => c * f k).
Proof. rewrite sumn_scal. ring. Qed.

(* ---------- Gram-Schmidt pass against orthonormal columns ---------- *)
Definition dotc (d : nat) (w : vecq) (V : matq) (k : nat) : Q := sumn d (fun j => w j * V j k).

Lemma mgs_step_eq d V k dir j : mgs_step d V k dir j == dir j - dotc d dir V k * V j k.
Proof. unfold mgs_step. rewrite memoq_eq. rewrite Qred_correct. reflexivity. Qed.

Section Mgs.
Variables (d i : nat) (V : matq).
Hypothesis HG : forall k k', (k < i)%nat -> (k' < i)%nat -> gram d V k k' == delta k k'.

Lemma mgs_pass_eq t dir : (t <= i)%nat ->
  forall j, mgs_pass d V t dir j == dir j - sumn t (fun k => dotc d dir V k * V j k).
Proof.
  induction t as [|t IH]; intros Ht j.
  - cbn [mgs_pass]. rewrite sumn_O. ring.
  - cbn [mgs_pass]. rewrite mgs_step_eq, sumn_S.
    assert (Hd : dotc d (mgs_pass d V t dir) V t == dotc d dir V t).
    { unfold dotc at 1.
      rewrite (sumn_ext_all d _ (fun j => dir j * V j t - sumn t (fun k => dotc d dir V k * (V j k * V j t)))).
      2:{ intros j'. rewrite (IH (Nat.lt_le_incl _ _ Ht) j').
          rewrite minus_sum_mul.
          rewrite (sumn_ext_all t (fun i0 => dotc d dir V i0 * V j' i0 * V j' t) (fun k => dotc d dir V k * (V j' k * V j' t))) by (intros; ring).
          reflexivity. }
      rewrite sumn_minus. fold (dotc d dir V t).
      rewrite sumn_swap.
      rewrite (sumn_ext t _ (fun _ => 0)).
      2:{ intros k Hk. rewrite sumn_scal. fold (gram d V k t). rewrite HG by lia. unfold delta.
          destruct (Nat.eqb_spec k t); [lia|ring]. }
      rewrite sumn_zero. ring. }
    rewrite Hd, (IH (Nat.lt_le_incl _ _ Ht) j). ring.
Qed.

Definition gsproj (dir : vecq) (j : nat) : Q := dir j - sumn i (fun k => dotc d dir V k * V j k).

Lemma gsproj_orth dir k : (k < i)%nat -> dotc d (gsproj dir) V k == 0.
Proof.
  intros Hk. unfold dotc at 1, gsproj.
  rewrite (sumn_ext_all d _ (fun j => dir j * V j k - sumn i (fun k' => dotc d dir V k' * (V j k' * V j k)))).
  2:{ intros j. rewrite minus_sum_mul.
      rewrite (sumn_ext_all i (fun i0 => dotc d dir V i0 * V j i0 * V j k) (fun k' => dotc d dir V k' * (V j k' * V j k))) by (intros; ring).
      reflexivity. }
  rewrite sumn_minus, sumn_swap. fold (dotc d dir V k).
  rewrite (sumn_ext i _ (fun k' => delta k' k * dotc d dir V k')).
  2:{ intros k' Hk'. rewrite sumn_scal. fold (gram d V k' k). rewrite HG by assumption. ring. }
  rewrite (sumn_delta_l i k (fun k' => dotc d dir V k') Hk). ring.
Qed.

(* two passes = the projection (the second pass changes nothing) *)
Lemma mgs_two_passes dir j : mgs_pass d V i (mgs_pass d V i dir) j == gsproj dir j.
Proof.
  rewrite (mgs_pass_eq i _ (le_n i) j).
  rewrite (sumn_ext i _ (fun _ => 0)).
  2:{ intros k Hk.
      assert (E : dotc d (mgs_pass d V i dir) V k == 0).
      { rewrite <- (gsproj_orth dir k Hk). unfold dotc. apply sumn_ext_all; intros j'.
        rewrite (mgs_pass_eq i dir (le_n i) j'). reflexivity. }
      rewrite E. ring. }
  rewrite sumn_zero, (mgs_pass_eq i dir (le_n i) j). unfold gsproj. ring.
Qed.

(* squared norm of the projected unit vector e_b *)
Lemma gsproj_unit_norm b : (b < d)%nat ->
  sumn d (fun j => gsproj (fun j => delta b j) j * gsproj (fun j => delta b j) j) == 1 - sumn i (fun k => V b k * V b k).
Proof.
  intros Hb. set (e := fun j : nat => delta b j). set (p := gsproj e).
  assert (He : forall k, dotc d e V k == V b k).
  { intros k. unfold dotc, e. apply (sumn_delta d b (fun j => V j k) Hb). }
  rewrite (sumn_ext_all d _ (fun j => p j * e j - sumn i (fun k => dotc d e V k * (p j * V j k)))).
  2:{ intros j. unfold p at 2. unfold gsproj. rewrite mul_minus_sum.
      rewrite (sumn_ext_all i (fun i0 => p j * (dotc d e V i0 * V j i0)) (fun k => dotc d e V k * (p j * V j k))) by (intros; ring).
      reflexivity. }
  rewrite sumn_minus, sumn_swap.
  rewrite (sumn_ext i (fun j => sumn d (fun i0 => dotc d e V j * (p i0 * V i0 j))) (fun _ => 0)).
  2:{ intros k Hk. rewrite sumn_scal. fold (dotc d p V k). unfold p. rewrite (gsproj_orth e k Hk). ring. }
  rewrite sumn_zero.
  rewrite (sumn_ext_all d (fun j => p j * e j) (fun j => delta b j * p j)) by (intros; unfold e; ring).
  rewrite (sumn_delta d b p Hb). unfold p, gsproj, e. unfold delta at 1. rewrite Nat.eqb_refl.
  assert (E2 : sumn i (fun k => dotc d (fun j => delta b j) V k * V b k) == sumn i (fun k => V b k * V b k)).
  { apply sumn_ext_all; intros k. pose proof (He k) as Hk. unfold e in Hk. rewrite Hk. reflexivity. }
  rewrite E2. ring.
Qed.

(* the residuals add up to d - i *)
Lemma residual_sum : sumn d (fun j => 1 - sumn i (fun k => V j k * V j k)) == inject_Z (Z.of_nat d) - inject_Z (Z.of_nat i).
Proof.
  rewrite sumn_minus, sumn_const, sumn_swap.
  rewrite (sumn_ext i _ (fun _ => 1)).
  2:{ intros k Hk. fold (gram d V k k). rewrite HG by assumption. unfold delta. rewrite Nat.eqb_refl. reflexivity. }
  rewrite sumn_const. ring.
Qed.
End Mgs.

(* ---------- the search for the start vector ---------- *)
Lemma best_scan_spec res n :
  (forall j, (j < n)%nat -> res j <= snd (best_scan res n)) /\
  (best_scan res n = (O, - (1)) \/ ((fst (best_scan res n) < n)%nat /\ snd (best_scan res n) = res (fst (best_scan res n)))).
Proof.
  induction n as [|n [IH1 IH2]]; [split; [intros; lia|left; reflexivity]|].
  cbn [best_scan]. destruct (qltb (snd (best_scan res n)) (res n)) eqn:E.
  - apply qltb_true in E. cbn [fst snd]. split.
    + intros j Hj. destruct (Nat.eq_dec j n) as [->|Hne]; [lra|]. specialize (IH1 j ltac:(lia)). lra.
    + right. split; [lia|reflexivity].
  - apply qltb_false in E. split.
    + intros j Hj. destruct (Nat.eq_dec j n) as [->|Hne]; [exact E|]. apply IH1. lia.
    + destruct IH2 as [H|[H1 H2]]; [left; exact H|right; split; [lia|exact H2]].
Qed.

Lemma best_scan_pos res n : 0 < sumn n res ->
  (fst (best_scan res n) < n)%nat /\ 0 < res (fst (best_scan res n)).
Proof.
  intros Hs. destruct (best_scan_spec res n) as [H1 H2].
  assert (Hp : 0 < snd (best_scan res n)).
  { apply Qnot_le_lt. intros Hc. assert (sumn n res <= 0) by (apply sumn_nonpos; intros j Hj; specialize (H1 j Hj); lra). lra. }
  destruct H2 as [H|[Ha Hb]].
  - rewrite H in Hp. cbn [snd] in Hp. lra.
  - split; [exact Ha|]. rewrite <- Hb. exact Hp.
Qed.

(* ---------- the small-sample identities: X0 (l x d), S = X0 X0^T / cnt, (U, Dv) the oracle's answer on S ---------- *)
Section SmallSample.
Variables (d l : nat) (X0 U : matq) (Dv : vecq) (cnt : Q).
Hypothesis Hcnt : 0 < cnt.
Let Sg (a b : nat) : Q := sumn d (fun j => X0 a j * X0 b j) / cnt.
Let B (j i : nat) : Q := sumn l (fun a => X0 a j * U a i).
Let C (j j' : nat) : Q := sumn l (fun a => X0 a j * X0 a j') / cnt.
Hypothesis HUtU : forall i k, (i < l)%nat -> (k < l)%nat -> gram l U i k == delta i k.
Hypothesis HUUt : forall a b, (a < l)%nat -> (b < l)%nat -> sumn l (fun i => U a i * U b i) == delta a b.
Hypothesis Heig : forall i a, (i < l)%nat -> (a < l)%nat -> sumn l (fun b => Sg a b * U b i) == Dv i * U a i.

Lemma ss_eig_scaled i a : (i < l)%nat -> (a < l)%nat ->
  sumn l (fun b => sumn d (fun j => X0 a j * X0 b j) * U b i) == cnt * (Dv i * U a i).
Proof.
  intros Hi Ha. rewrite <- (Heig i a Hi Ha). rewrite <- sumn_scal. apply sumn_ext_all; intros b.
  unfold Sg. field. lra.
Qed.

(* back-mapped vectors are orthogonal with squared norm cnt * Dv *)
Lemma back_dot i k : (i < l)%nat -> (k < l)%nat -> sumn d (fun j => B j i * B j k) == cnt * Dv k * delta i k.
Proof.
  intros Hi Hk. unfold B. rewrite (bilin d l X0 (fun a => U a i) (fun b => U b k)).
  rewrite (sumn_ext l _ (fun a => cnt * Dv k * (U a i * U a k))).
  2:{ intros a Ha. rewrite (ss_eig_scaled k a Hk Ha). ring. }
  rewrite sumn_scal. fold (gram l U i k). rewrite (HUtU i k Hi Hk). reflexivity.
Qed.

(* they are eigenvectors of the covariance C = X0^T X0 / cnt *)
Lemma back_eigen i j : (i < l)%nat -> sumn d (fun j' => C j j' * B j' i) == Dv i * B j i.
Proof.
  intros Hi. unfold C, B.
  rewrite (sumn_ext_all d _ (fun j' => sumn l (fun a => sumn l (fun b => X0 a j * / cnt * (X0 a j' * (X0 b j' * U b i)))))).
  2:{ intros j'. unfold Qdiv. rewrite <- sumn_scal_r, sumn_mul. apply sumn_ext_all; intros a. apply sumn_ext_all; intros b. ring. }
  rewrite sumn_swap.
  rewrite (sumn_ext l _ (fun a => X0 a j * (Dv i * U a i))).
  2:{ intros a Ha. rewrite sumn_swap.
      rewrite (sumn_ext_all l _ (fun b => X0 a j * / cnt * (sumn d (fun j' => X0 a j' * X0 b j') * U b i))).
      2:{ intros b. rewrite <- sumn_scal_r, <- sumn_scal. apply sumn_ext_all; intros j'. ring. }
      rewrite sumn_scal, (ss_eig_scaled i a Hi Ha). field. lra. }
  rewrite <- sumn_scal. apply sumn_ext_all; intros a. ring.
Qed.

(* spectral decomposition of the covariance through the back-mapped vectors (uses U U^T = I) *)
Lemma back_spectral j j' : sumn l (fun i => B j i * B j' i) == cnt * C j j'.
Proof.
  unfold B, C.
  rewrite (sumn_ext_all l _ (fun i => sumn l (fun a => sumn l (fun b => X0 a j * U a i * (X0 b j' * U b i))))).
  2:{ intros i. apply sumn_mul. }
  rewrite sumn_swap.
  rewrite (sumn_ext l _ (fun a => X0 a j * X0 a j')).
  2:{ intros a Ha. rewrite sumn_swap.
      rewrite (sumn_ext l _ (fun b => delta a b * (X0 a j * X0 b j'))).
      2:{ intros b Hb. rewrite <- (HUUt a b Ha Hb), <- sumn_scal_r. apply sumn_ext_all; intros i. ring. }
      rewrite (sumn_delta l a (fun b => X0 a j * X0 b j') Ha). reflexivity. }
  field. lra.
Qed.

Lemma Dv_nonneg k : (k < l)%nat -> 0 <= Dv k.
Proof.
  intros Hk. pose proof (back_dot k k Hk Hk) as H. unfold delta in H. rewrite Nat.eqb_refl in H.
  pose proof (sumn_sq_nonneg d (fun j => B j k)) as Hs. rewrite H in Hs.
  destruct (Qlt_le_dec (Dv k) 0) as [Hn|Hp]; [|exact Hp]. exfalso.
  assert (cnt * Dv k * 1 < 0) by (setoid_replace (cnt * Dv k * 1) with (- (cnt * (- Dv k))) by ring;
    assert (0 < cnt * - Dv k) by (apply Qmult_lt_0_compat; lra); lra). lra.
Qed.

Lemma back_zero k : (k < l)%nat -> Dv k == 0 -> forall j, (j < d)%nat -> B j k == 0.
Proof.
  intros Hk Hz. apply sumn_sq_zero. rewrite (back_dot k k Hk Hk), Hz. ring.
Qed.

(* for a vector w orthogonal to every back-mapped vector (or the vector is zero): C w = 0 *)
Lemma cov_kills (w : vecq) j : (forall a, (a < l)%nat -> sumn d (fun j' => B j' a * w j') == 0) ->
  sumn d (fun j' => C j j' * w j') == 0.
Proof.
  intros H.
  assert (E : cnt * sumn d (fun j' => C j j' * w j') == 0).
  { rewrite <- sumn_scal.
    rewrite (sumn_ext_all d _ (fun j' => sumn l (fun i => B j i * (B j' i * w j')))).
    2:{ intros j'. rewrite <- (sumn_ext_all l (fun i => B j i * B j' i * w j')) by (intros; ring).
        rewrite sumn_scal_r, back_spectral. ring. }
    rewrite sumn_swap. rewrite <- (sumn_zero l). apply sumn_ext; intros i Hi.
    rewrite sumn_scal, (H i Hi). ring. }
  assert (~ cnt == 0) by lra.
  setoid_replace (sumn d (fun j' => C j j' * w j')) with (cnt * sumn d (fun j' => C j j' * w j') / cnt) by (field; assumption).
  rewrite E. field. assumption.
Qed.


(* ---------- the normalisation loop ---------- *)
Variable sq : Q -> Q.
Variable thr : Q.
Hypothesis Hld : (l <= d)%nat.
Hypothesis Hthr : 0 <= thr.
Hypothesis Hord : forall i, (S i < l)%nat -> Dv (S i) <= Dv i.
Hypothesis Htiny : forall i, (i < l)%nat -> Dv i <= thr -> Dv i == 0.

Definition sq_ok (met : list Q) : Prop := Forall (fun v => sq v * sq v == v) met.

Lemma Dv_mono i k : (i <= k)%nat -> (k < l)%nat -> Dv k <= Dv i.
Proof.
  induction k as [|k IH]; intros H1 H2.
  - assert (i = O) by lia. subst. lra.
  - destruct (Nat.eq_dec i (S k)) as [->|Hne]; [lra|].
    specialize (IH ltac:(lia) ltac:(lia)). specialize (Hord k H2). lra.
Qed.

Definition inv (n : nat) (st : pstate) : Prop :=
  match st with
  | (V, ev, met) =>
    (forall k j, (n <= k < l)%nat -> (j < d)%nat -> V j k == B j k) /\
    (forall k, (k < l)%nat -> ev k == Dv k) /\
    (forall i k, (i < n)%nat -> (k < n)%nat -> gram d V i k == delta i k) /\
    (forall k, (k < n)%nat -> thr < Dv k -> exists s, s * s == cnt * Dv k /\ forall j, (j < d)%nat -> V j k * s == B j k) /\
    (forall k j, (k < n)%nat -> (j < d)%nat -> sumn d (fun j' => C j j' * V j' k) == ev k * V j k)
  end.

Lemma sq_ok_app met v : sq_ok (met ++ [v]) -> sq_ok met /\ sq v * sq v == v.
Proof.
  unfold sq_ok. intros H. apply Forall_app in H. destruct H as [H1 H2]. split; [exact H1|]. inversion H2; assumption.
Qed.

Lemma set_col_same V n c j : memo2q d l (set_col V n c) j n = c j.
Proof. rewrite memo2q_eq. unfold set_col. rewrite Nat.eqb_refl. reflexivity. Qed.
Lemma set_col_other V n c j k : k <> n -> memo2q d l (set_col V n c) j k = V j k.
Proof. intros H. rewrite memo2q_eq. unfold set_col. destruct (Nat.eqb_spec k n); [contradiction|reflexivity]. Qed.

(* the new column c is a unit vector orthogonal to the columns before it: the Gram matrix grows *)
Lemma gram_extend V n c : (forall i k, (i < n)%nat -> (k < n)%nat -> gram d V i k == delta i k) ->
  sumn d (fun j => c j * c j) == 1 -> (forall k, (k < n)%nat -> sumn d (fun j => c j * V j k) == 0) ->
  forall i k, (i < S n)%nat -> (k < S n)%nat -> gram d (memo2q d l (set_col V n c)) i k == delta i k.
Proof.
  intros HG H1 H0 i k Hi Hk. unfold gram.
  destruct (Nat.eq_dec i n) as [->|Hin]; destruct (Nat.eq_dec k n) as [->|Hkn].
  - rewrite (sumn_ext_all d _ (fun j => c j * c j)) by (intros; rewrite !set_col_same; reflexivity).
    rewrite H1. unfold delta. rewrite Nat.eqb_refl. reflexivity.
  - rewrite (sumn_ext_all d _ (fun j => c j * V j k)) by (intros; rewrite set_col_same, set_col_other by exact Hkn; reflexivity).
    rewrite H0 by lia. unfold delta. destruct (Nat.eqb_spec n k); [congruence|reflexivity].
  - rewrite (sumn_ext_all d _ (fun j => c j * V j i)) by (intros; rewrite set_col_same, set_col_other by exact Hin; ring).
    rewrite H0 by lia. unfold delta. destruct (Nat.eqb_spec i n); [congruence|reflexivity].
  - rewrite (sumn_ext_all d _ (fun j => V j i * V j k)) by (intros; rewrite !set_col_other by assumption; reflexivity).
    apply HG; lia.
Qed.

Lemma nz_of_sq (s v : Q) : s * s == v -> 0 < v -> ~ s == 0.
Proof. intros H Hv Hs. rewrite Hs in H. lra. Qed.

Lemma ss_step_inv n st : (n < l)%nat -> inv n st -> sq_ok (snd (ss_step sq d l thr n st)) -> inv (S n) (ss_step sq d l thr n st).
Proof.
  intros Hn. destruct st as [[V ev] met]. intros (I1 & I2 & I3 & I4 & I5). unfold ss_step.
  destruct (qltb thr (ev n)) eqn:E.
  - (* D(n) > threshold: the back-mapped column is normalised *)
    apply qltb_true in E. rewrite (I2 n Hn) in E.
    cbn [snd]. intros Hok. apply sq_ok_app in Hok. destruct Hok as [_ Hsq].
    set (v := gram d V n n) in *. set (nr := sq v) in *.
    assert (Hv : v == cnt * Dv n).
    { unfold v, gram. rewrite (sumn_ext d _ (fun j => B j n * B j n)).
      2:{ intros j Hj. rewrite (I1 n j) by lia. reflexivity. }
      rewrite (back_dot n n Hn Hn). unfold delta. rewrite Nat.eqb_refl. ring. }
    assert (Hpos : 0 < cnt * Dv n) by (apply Qmult_lt_0_compat; lra).
    assert (Hnr : ~ nr == 0) by (apply (nz_of_sq nr v Hsq); lra).
    set (c := fun j => Qred (V j n / nr)).
    assert (Hc : forall j, c j == V j n / nr) by (intros; unfold c; apply Qred_correct).
    assert (Hprev : forall k, (k < n)%nat -> exists s, ~ s == 0 /\ forall j, (j < d)%nat -> V j k == B j k / s).
    { intros k Hk. assert (Hdk : thr < Dv k) by (pose proof (Dv_mono k n ltac:(lia) Hn); lra).
      destruct (I4 k Hk Hdk) as [s [Hs1 Hs2]].
      assert (Hs0 : ~ s == 0) by (apply (nz_of_sq s _ Hs1); apply Qmult_lt_0_compat; lra).
      exists s. split; [exact Hs0|]. intros j Hj. rewrite <- (Hs2 j Hj). field. exact Hs0. }
    repeat split.
    + intros k j Hk Hj. rewrite set_col_other by lia. apply I1; [lia|exact Hj].
    + exact I2.
    + apply gram_extend; [exact I3| |].
      * rewrite (sumn_ext_all d _ (fun j => V j n * V j n * / (nr * nr))).
        2:{ intros j. rewrite (Hc j). field. exact Hnr. }
        rewrite sumn_scal_r. fold (gram d V n n). fold v. rewrite Hsq. field. lra.
      * intros k Hk. destruct (Hprev k Hk) as [s [Hs0 Hs]].
        rewrite (sumn_ext d _ (fun j => B j n * B j k * / (nr * s))).
        2:{ intros j Hj. rewrite (Hc j), (Hs j Hj), (I1 n j) by lia. field. split; assumption. }
        rewrite sumn_scal_r, (back_dot n k Hn ltac:(lia)). unfold delta.
        destruct (Nat.eqb_spec n k); [lia|]. field. split; assumption.
    + intros k Hk Hdk. destruct (Nat.eq_dec k n) as [->|Hne].
      * exists nr. split; [rewrite Hsq; exact Hv|]. intros j Hj. rewrite set_col_same, (Hc j), <- (I1 n j) by lia. field. exact Hnr.
      * destruct (I4 k ltac:(lia) Hdk) as [s [Hs1 Hs2]]. exists s. split; [exact Hs1|].
        intros j Hj. rewrite set_col_other by exact Hne. apply Hs2. exact Hj.
    + intros k j Hk Hj. destruct (Nat.eq_dec k n) as [->|Hne].
      * rewrite set_col_same.
        rewrite (sumn_ext d _ (fun j' => C j j' * B j' n * / nr)).
        2:{ intros j' Hj'. rewrite set_col_same, (Hc j'), (I1 n j') by lia. field. exact Hnr. }
        rewrite sumn_scal_r, (back_eigen n j Hn), (I2 n Hn), (Hc j), (I1 n j) by lia. field. exact Hnr.
      * rewrite set_col_other by exact Hne.
        rewrite (sumn_ext_all d _ (fun j' => C j j' * V j' k)) by (intros; rewrite set_col_other by exact Hne; reflexivity).
        apply I5; [lia|exact Hj].
  - (* D(n) <= threshold: eigenvalue 0, the basis is completed *)
    apply qltb_false in E. rewrite (I2 n Hn) in E.
    assert (Hz : Dv n == 0) by (apply Htiny; assumption).
    assert (Hzero : forall a, (n <= a < l)%nat -> forall j, (j < d)%nat -> B j a == 0).
    { intros a Ha. apply back_zero; [lia|]. pose proof (Dv_mono n a ltac:(lia) ltac:(lia)). pose proof (Dv_nonneg a ltac:(lia)). lra. }
    set (res := memoq d (fun j => 1 - sumn n (fun k => V j k * V j k))).
    set (best := fst (best_scan res d)).
    set (e := fun j : nat => delta best j).
    set (dir := mgs_pass d V n (mgs_pass d V n e)).
    set (v := sumn d (fun j => dir j * dir j)). set (nr := sq v).
    cbn [snd]. intros Hok. apply sq_ok_app in Hok. destruct Hok as [_ Hsq]. fold nr in Hsq.
    assert (Hres : sumn d res == inject_Z (Z.of_nat d) - inject_Z (Z.of_nat n)).
    { rewrite <- (residual_sum d n V I3). apply sumn_ext_all; intros j. unfold res. rewrite memoq_eq. reflexivity. }
    assert (Hdn : 0 < sumn d res).
    { rewrite Hres. assert (inject_Z (Z.of_nat n) < inject_Z (Z.of_nat d)) by (rewrite <- Zlt_Qlt; lia). lra. }
    destruct (best_scan_pos res d Hdn) as [Hb Hrb]. fold best in Hb, Hrb.
    assert (Hdir : forall j, dir j == gsproj d n V e j) by (intros; apply (mgs_two_passes d n V I3)).
    assert (Hv : v == res best).
    { unfold v. rewrite (sumn_ext_all d _ (fun j => gsproj d n V e j * gsproj d n V e j)) by (intros j; rewrite (Hdir j); reflexivity).
      unfold e. rewrite (gsproj_unit_norm d n V I3 best Hb). unfold res. rewrite memoq_eq. reflexivity. }
    assert (Hnr : ~ nr == 0) by (apply (nz_of_sq nr v Hsq); lra).
    set (c := fun j => Qred (dir j / nr)).
    assert (Hc : forall j, c j == dir j / nr) by (intros; unfold c; apply Qred_correct).
    assert (Horth : forall k, (k < n)%nat -> sumn d (fun j => c j * V j k) == 0).
    { intros k Hk. rewrite (sumn_ext_all d _ (fun j => gsproj d n V e j * V j k * / nr)).
      2:{ intros j. rewrite (Hc j), (Hdir j). field. exact Hnr. }
      rewrite sumn_scal_r. fold (dotc d (gsproj d n V e) V k). rewrite (gsproj_orth d n V I3 e k Hk). ring. }
    assert (G' : forall i k, (i < S n)%nat -> (k < S n)%nat -> gram d (memo2q d l (set_col V n c)) i k == delta i k).
    { apply gram_extend; [exact I3| |exact Horth].
      rewrite (sumn_ext_all d _ (fun j => dir j * dir j * / (nr * nr))).
      2:{ intros j. rewrite (Hc j). field. exact Hnr. }
      rewrite sumn_scal_r. fold v. rewrite Hsq. field. lra. }
    repeat split.
    + intros k j Hk Hj. rewrite set_col_other by lia. apply I1; [lia|exact Hj].
    + intros k Hk. unfold set_at. destruct (Nat.eqb_spec k n) as [->|Hne]; [rewrite Hz; reflexivity|apply I2; exact Hk].
    + exact G'.
    + intros k Hk Hdk. destruct (Nat.eq_dec k n) as [->|Hne]; [lra|].
      destruct (I4 k ltac:(lia) Hdk) as [s [Hs1 Hs2]]. exists s. split; [exact Hs1|].
      intros j Hj. rewrite set_col_other by exact Hne. apply Hs2. exact Hj.
    + intros k j Hk Hj. unfold set_at. destruct (Nat.eqb_spec k n) as [->|Hne].
      * rewrite (cov_kills (fun j' => memo2q d l (set_col V n c) j' n) j); [ring|].
        intros a Ha. destruct (Nat.lt_ge_cases a n) as [Han|Han].
        -- destruct (Qlt_le_dec thr (Dv a)) as [Hda|Hda].
           ++ destruct (I4 a Han Hda) as [s [Hs1 Hs2]].
              rewrite (sumn_ext d _ (fun j' => s * (c j' * V j' a))).
              2:{ intros j' Hj'. rewrite set_col_same, <- (Hs2 j' Hj'). ring. }
              rewrite sumn_scal, (Horth a Han). ring.
           ++ rewrite <- (sumn_zero d). apply sumn_ext; intros j' Hj'.
              rewrite (back_zero a Ha (Htiny a Ha Hda) j' Hj'). ring.
        -- rewrite <- (sumn_zero d). apply sumn_ext; intros j' Hj'. rewrite (Hzero a ltac:(lia) j' Hj'). ring.
      * rewrite set_col_other by exact Hne.
        rewrite (sumn_ext_all d _ (fun j' => C j j' * V j' k)) by (intros; rewrite set_col_other by exact Hne; reflexivity).
        apply I5; [lia|exact Hj].
Qed.

Lemma ss_loop_met_prefix n st : exists r, snd (ss_loop sq d l thr n st) = snd st ++ r.
Proof.
  induction n as [|n [r IH]]; [exists []; rewrite app_nil_r; reflexivity|].
  cbn [ss_loop]. destruct (ss_loop sq d l thr n st) as [[V ev] met] eqn:E. cbn [snd] in IH. subst met.
  unfold ss_step. destruct (qltb thr (ev n)); cbn [snd]; eexists; rewrite <- app_assoc; reflexivity.
Qed.

Lemma ss_step_met_prefix n st : exists r, snd (ss_step sq d l thr n st) = snd st ++ r.
Proof.
  destruct st as [[V ev] met]. unfold ss_step. destruct (qltb thr (ev n)); cbn [snd]; eexists; reflexivity.
Qed.

Lemma ss_loop_inv n st : (n <= l)%nat -> inv O st -> sq_ok (snd (ss_loop sq d l thr n st)) -> inv n (ss_loop sq d l thr n st).
Proof.
  induction n as [|n IH]; intros Hn H0 Hok; [exact H0|].
  cbn [ss_loop] in *. apply ss_step_inv; [lia| |exact Hok].
  apply IH; [lia|exact H0|].
  destruct (ss_step_met_prefix n (ss_loop sq d l thr n st)) as [r Hr]. rewrite Hr in Hok.
  unfold sq_ok in *. apply Forall_app in Hok. tauto.
Qed.

(* the result of the loop started on the back-mapped vectors *)
Theorem ss_loop_correct (V0 : matq) : (forall j k, V0 j k == B j k) ->
  match ss_loop sq d l thr l (V0, Dv, []) with
  | (V, ev, met) =>
    sq_ok met ->
    (forall i k, (i < l)%nat -> (k < l)%nat -> gram d V i k == delta i k) /\
    (forall k j, (k < l)%nat -> (j < d)%nat -> sumn d (fun j' => C j j' * V j' k) == ev k * V j k) /\
    (forall k, (k < l)%nat -> ev k == Dv k)
  end.
Proof.
  intros HV0. destruct (ss_loop sq d l thr l (V0, Dv, [])) as [[V ev] met] eqn:E. intros Hok.
  assert (H0 : inv O (V0, Dv, [])).
  { cbn [inv]. split; [intros; apply HV0|]. split; [intros; reflexivity|]. split; [intros; lia|]. split; intros; lia. }
  pose proof (ss_loop_inv l (V0, Dv, []) (le_n l) H0) as H. rewrite E in H. cbn [snd] in H.
  destruct (H Hok) as (_ & I2 & I3 & _ & I5). repeat split; assumption.
Qed.

End SmallSample.

(* ---------- PCA::setData, small-sample branch ---------- *)
Lemma cen_eq d (D : @data (list Q)) a j : cen d D a j = feat j (nth a (elems D) []) - mean (feat j) D.
Proof. unfold cen. rewrite memo2q_eq, memoq_eq. reflexivity. Qed.

Lemma cov_cen d (D : @data (list Q)) j j' :
  cov (feat j) (feat j') D == sumn (nelems D) (fun a => cen d D a j * cen d D a j') / count D.
Proof.
  unfold cov. rewrite dsum_elems, (bsum_nth _ (elems D) []). unfold nelems.
  rewrite (sumn_ext_all (length (elems D)) _ (fun a => cen d D a j * cen d D a j')); [reflexivity|].
  intros a. rewrite !cen_eq. reflexivity.
Qed.

Lemma count_pos {X} (D : @data X) : (0 < nelems D)%nat -> 0 < count D.
Proof. intros H. unfold count. change 0 with (inject_Z 0). rewrite <- Zlt_Qlt. lia. Qed.

Lemma qmax0_nonneg x : 0 <= qmax0 x.
Proof. unfold qmax0. destruct (qltb x 0) eqn:E; [lra|apply qltb_false in E; exact E]. Qed.

Lemma ss_threshold_nonneg epsm d x : 0 <= epsm -> 0 <= ss_threshold epsm d x.
Proof.
  intros H. unfold ss_threshold. apply Qmult_le_0_compat; [apply Qmult_le_0_compat; [|exact H]|apply qmax0_nonneg].
  change 0 with (inject_Z 0). rewrite <- Zle_Qle. lia.
Qed.

Theorem pca_small_correct sq eig epsm d (D : @data (list Q)) :
  let l := nelems D in
  let M := ss_gram d l (count D) (cen d D) in
  let U := fst (eig l M) in
  let Dv := snd (eig l M) in
  (0 < l)%nat -> (l <= d)%nat -> 0 <= epsm ->
  eig_contract l M U Dv ->
  (forall i, (i < l)%nat -> Dv i <= ss_threshold epsm d (Dv O) -> Dv i == 0) ->
  match pca_small sq eig epsm d D with
  | (V, ev, met) =>
    Forall (fun v => sq v * sq v == v) met ->
    (forall i k, (i < l)%nat -> (k < l)%nat -> gram d V i k == delta i k) /\
    (forall i j, (i < l)%nat -> (j < d)%nat -> eig_residual d V ev D i j == 0) /\
    (forall k, (k < l)%nat -> ev k == Dv k) /\
    (forall k, (S k < l)%nat -> ev (S k) <= ev k)
  end.
Proof.
  intros l M U Dv Hl Hld He (HUtU & HUUt & Heig & Hord) Htiny.
  unfold pca_small. fold l. fold M. destruct (eig l M) as [U' Dv'] eqn:E. cbn [fst snd] in U, Dv. subst U Dv.
  pose proof (count_pos D Hl) as Hcnt.
  assert (Heig' : forall i a, (i < l)%nat -> (a < l)%nat ->
            sumn l (fun b => sumn d (fun j => cen d D a j * cen d D b j) / count D * U' b i) == Dv' i * U' a i).
  { intros i a Hi Ha. rewrite <- (Heig i a Hi Ha). apply sumn_ext_all; intros b. unfold M, ss_gram. rewrite memo2q_eq. reflexivity. }
  pose proof (ss_loop_correct d l (cen d D) U' Dv' (count D) Hcnt HUtU HUUt Heig' sq (ss_threshold epsm d (Dv' O)) Hld
                (ss_threshold_nonneg epsm d (Dv' O) He) Hord Htiny (ss_back d l (cen d D) U')) as H.
  destruct (ss_loop sq d l (ss_threshold epsm d (Dv' O)) l (ss_back d l (cen d D) U', Dv', [])) as [[V ev] met].
  intros Hok. destruct (H ltac:(intros; unfold ss_back; rewrite memo2q_eq; reflexivity) Hok) as (G & Ev & Eq).
  split; [exact G|]. split; [|split; [exact Eq|]].
  - intros i j Hi Hj. unfold eig_residual. rewrite <- (Ev i j Hi Hj).
    rewrite (sumn_ext_all d _ (fun j' => sumn l (fun a => cen d D a j * cen d D a j') / count D * V j' i)).
    2:{ intros j'. rewrite (cov_cen d D j j'). reflexivity. }
    ring.
  - intros k Hk. rewrite (Eq k ltac:(lia)), (Eq (S k) Hk). apply Hord. exact Hk.
Qed.

(* ---------- PCA::setData, standard branch: the oracle's answer is stored as it is ---------- *)
Theorem pca_std_correct eig d (D : @data (list Q)) :
  let M := pca_cov d D in
  eig_contract d M (fst (eig d M)) (snd (eig d M)) ->
  match pca_std eig d D with
  | (V, ev, met) =>
    met = [] /\
    (forall i k, (i < d)%nat -> (k < d)%nat -> gram d V i k == delta i k) /\
    (forall i j, (i < d)%nat -> (j < d)%nat -> eig_residual d V ev D i j == 0) /\
    (forall k, (S k < d)%nat -> ev (S k) <= ev k)
  end.
Proof.
  intros M (HUtU & _ & Heig & Hord). unfold pca_std. fold M. destruct (eig d M) as [U Dv]. cbn [fst snd] in *.
  split; [reflexivity|]. split; [exact HUtU|]. split; [|exact Hord].
  intros i j Hi Hj. unfold eig_residual. rewrite <- (Heig i j Hi Hj).
  rewrite (sumn_ext_all d _ (fun l => M j l * U l i)); [ring|].
  intros l. unfold M, pca_cov. rewrite memo2q_eq. reflexivity.
Qed.

(* ---------- PCA::setData (AUTO): both branches ---------- *)
Definition pca_ncols (d : nat) (D : @data (list Q)) : nat := if (nelems D <? d)%nat then nelems D else d.
Definition pca_oracle_matrix (d : nat) (D : @data (list Q)) : matq :=
  if (nelems D <? d)%nat then ss_gram d (nelems D) (count D) (cen d D) else pca_cov d D.

Theorem pca_setdata_correct sq eig epsm d (D : @data (list Q)) :
  let nv := pca_ncols d D in
  let M := pca_oracle_matrix d D in
  let Dv := snd (eig nv M) in
  (0 < nelems D)%nat -> 0 <= epsm ->
  eig_contract nv M (fst (eig nv M)) Dv ->
  ((nelems D < d)%nat -> forall i, (i < nv)%nat -> Dv i <= ss_threshold epsm d (Dv O) -> Dv i == 0) ->
  match pca_setdata sq eig epsm d D with
  | (V, ev, met) =>
    Forall (fun v => sq v * sq v == v) met ->
    (forall i k, (i < nv)%nat -> (k < nv)%nat -> gram d V i k == delta i k) /\
    (forall i j, (i < nv)%nat -> (j < d)%nat -> eig_residual d V ev D i j == 0) /\
    (forall k, (k < nv)%nat -> ev k == Dv k) /\
    (forall k, (S k < nv)%nat -> ev (S k) <= ev k)
  end.
Proof.
  cbv zeta. unfold pca_setdata, pca_ncols, pca_oracle_matrix. intros Hl He Hc Htiny.
  destruct (Nat.ltb_spec (nelems D) d) as [Hs|Hs].
  - exact (pca_small_correct sq eig epsm d D Hl (Nat.lt_le_incl _ _ Hs) He Hc (Htiny Hs)).
  - pose proof (pca_std_correct eig d D Hc) as H. unfold pca_std in *.
    destruct (eig d (pca_cov d D)) as [U Dv]. cbn [fst snd] in *. destruct H as (_ & G & E & O).
    intros _. split; [exact G|]. split; [exact E|]. split; [intros; reflexivity|exact O].
Qed.

(* ---------- encoder() / decoder() ---------- *)
Lemma enc_plain sq cut d V ev mu a x : apply_enc d (pca_encoder sq cut false d V ev mu) a x == pca_enc d V mu a x.
Proof.
  unfold apply_enc, pca_encoder, pca_enc. cbn [fst snd].
  rewrite (sumn_ext_all d (fun j => V j a * (x j - mu j)) (fun j => V j a * x j - V j a * mu j)) by (intros; ring).
  rewrite sumn_minus. ring.
Qed.
Lemma dec_plain sq cut m V ev mu j z : apply_dec m (pca_decoder sq cut false V ev mu) j z = pca_dec m V mu j z.
Proof. reflexivity. Qed.

(* without whitening: the pair built by encoder(m)/decoder(m) is the orthogonal projection onto the first m directions *)
Theorem pca_coded_projection sq cut d m V ev mu :
  (forall i k, (i < m)%nat -> (k < m)%nat -> gram d V i k == delta i k) ->
  let E := pca_encoder sq cut false d V ev mu in
  let Dc := pca_decoder sq cut false V ev mu in
  let P := fun x j => apply_dec m Dc j (fun a => apply_enc d E a x) in
  (forall z a, (a < m)%nat -> apply_enc d E a (fun j => apply_dec m Dc j z) == z a) /\
  (forall x j, P (P x) j == P x j) /\
  (forall x a, (a < m)%nat -> sumn d (fun j => V j a * (x j - P x j)) == 0).
Proof.
  intros HG E Dc P.
  assert (HP : forall x j, P x j == pca_proj d m V mu x j).
  { intros x j. unfold P, Dc, E. rewrite dec_plain. unfold pca_proj, pca_dec.
    rewrite (sumn_ext_all m _ (fun i => V j i * pca_enc d V mu i x)) by (intros; rewrite enc_plain; reflexivity). reflexivity. }
  split; [|split].
  - intros z a Ha. unfold E, Dc. rewrite enc_plain.
    rewrite <- (pca_enc_dec d m V mu HG z a Ha). unfold pca_enc. apply sumn_ext_all; intros j. rewrite dec_plain. reflexivity.
  - intros x j. rewrite (HP (P x) j).
    assert (Ex : forall j', pca_proj d m V mu (P x) j' == pca_proj d m V mu (pca_proj d m V mu x) j').
    { intros j'. unfold pca_proj, pca_dec.
      rewrite (sumn_ext_all m _ (fun i => V j' i * pca_enc d V mu i (pca_proj d m V mu x))); [reflexivity|].
      intros i. unfold pca_enc. rewrite (sumn_ext_all d _ (fun j0 => V j0 i * (pca_proj d m V mu x j0 - mu j0))); [reflexivity|].
      intros j0. rewrite (HP x j0). reflexivity. }
    rewrite (Ex j), (HP x j). destruct (pca_projection_partial d m V mu HG x) as (_ & H2 & _). apply H2.
  - intros x a Ha. destruct (pca_projection_partial d m V mu HG x) as (_ & _ & H3).
    rewrite <- (H3 a Ha). apply sumn_ext_all; intros j. rewrite (HP x j). reflexivity.
Qed.

(* with whitening: rows / columns of the directions whose eigenvalue is <= 1e-15 D(0) are cleared, the others are divided /
   multiplied by sqrt(D(a)) *)
Section Whitening.
Variables (sq : Q -> Q) (cut : Q) (d m : nat) (V : matq) (ev mu : vecq).
Hypothesis HG : forall i k, (i < m)%nat -> (k < m)%nat -> gram d V i k == delta i k.
Hypothesis Hsq : Forall (fun v => sq v * sq v == v) (pca_wh_met cut m ev).
Hypothesis Hcut : 0 <= cut.
Hypothesis Hev0 : 0 <= ev O.
Let E := pca_encoder sq cut true d V ev mu.
Let Dc := pca_decoder sq cut true V ev mu.
Let act (a : nat) : bool := negb (pca_cleared cut ev a).

Lemma wh_sq a : (a < m)%nat -> act a = true -> sq (ev a) * sq (ev a) == ev a /\ ~ sq (ev a) == 0.
Proof.
  intros Ha Hact. assert (H : sq (ev a) * sq (ev a) == ev a).
  { unfold pca_wh_met in Hsq. rewrite Forall_forall in Hsq. apply Hsq. apply in_map. apply filter_In. split; [|exact Hact].
    apply in_seq. lia. }
  split; [exact H|]. apply (nz_of_sq _ _ H).
  unfold act, pca_cleared in Hact. apply negb_true_iff in Hact.
  assert (~ ev a <= cut * ev O) by (intros C; apply Qle_bool_iff in C; congruence).
  assert (0 <= cut * ev O) by (apply Qmult_le_0_compat; assumption). lra.
Qed.

Lemma enc_wh a x : apply_enc d E a x == if act a then pca_enc d V mu a x / sq (ev a) else 0.
Proof.
  unfold apply_enc, E, pca_encoder, act. cbn [fst snd]. destruct (pca_cleared cut ev a); cbn [negb].
  - rewrite (sumn_ext_all d _ (fun _ => 0)) by (intros; ring). rewrite sumn_zero. ring.
  - unfold pca_enc.
    rewrite (sumn_ext_all d (fun j => V j a * (x j - mu j)) (fun j => V j a * x j - V j a * mu j)) by (intros; ring).
    rewrite sumn_minus.
    rewrite (sumn_ext_all d (fun j => V j a / sq (ev a) * x j) (fun j => V j a * x j * / sq (ev a))) by (intros; unfold Qdiv; ring).
    rewrite sumn_scal_r. unfold Qdiv. ring.
Qed.

Lemma dec_wh j z : apply_dec m Dc j z == pca_dec m V mu j (fun a => if act a then sq (ev a) * z a else 0).
Proof.
  unfold apply_dec, Dc, pca_decoder, pca_dec, act. cbn [fst snd].
  rewrite (sumn_ext_all m _ (fun a => V j a * (if negb (pca_cleared cut ev a) then sq (ev a) * z a else 0))); [reflexivity|].
  intros a. destruct (pca_cleared cut ev a); cbn [negb]; ring.
Qed.

(* encoder after decoder: the identity on the codes of the directions kept, 0 on the cleared ones *)
Theorem wh_enc_dec z a : (a < m)%nat -> apply_enc d E a (fun j => apply_dec m Dc j z) == if act a then z a else 0.
Proof.
  intros Ha. rewrite enc_wh. destruct (act a) eqn:Hact; [|reflexivity].
  destruct (wh_sq a Ha Hact) as [_ Hnz].
  assert (Ex : pca_enc d V mu a (fun j => apply_dec m Dc j z) == sq (ev a) * z a).
  { pose proof (pca_enc_dec d m V mu HG (fun a => if act a then sq (ev a) * z a else 0) a Ha) as Hp. cbv beta in Hp.
    rewrite Hact in Hp. rewrite <- Hp.
    unfold pca_enc. apply sumn_ext_all; intros j. rewrite dec_wh. reflexivity. }
  rewrite Ex. field. exact Hnz.
Qed.

(* decoder after encoder: the orthogonal projection onto the directions kept *)
Theorem wh_dec_enc x j : apply_dec m Dc j (fun a => apply_enc d E a x)
  == sumn m (fun a => if act a then V j a * pca_enc d V mu a x else 0) + mu j.
Proof.
  rewrite dec_wh. unfold pca_dec. apply Qplus_inj_r. apply sumn_ext; intros a Ha.
  destruct (act a) eqn:Hact; [|ring].
  destruct (wh_sq a Ha Hact) as [_ Hnz]. rewrite enc_wh, Hact. field. exact Hnz.
Qed.
End Whitening.

(* the whitened code of a direction kept has mean 0 and variance 1 on the training data *)
Theorem wh_code_variance sq cut d m V ev a (D : @data (list Q)) : ~ count D == 0 -> (a < m)%nat ->
  Forall (fun v => sq v * sq v == v) (pca_wh_met cut m ev) -> 0 <= cut -> 0 <= ev O ->
  pca_cleared cut ev a = false ->
  (forall j, (j < d)%nat -> eig_residual d V ev D a j == 0) -> gram d V a a == 1 ->
  let E := pca_encoder sq cut true d V ev (pca_mean d D) in
  mean (lin d (fst E) (snd E) a) D == 0 /\ var (lin d (fst E) (snd E) a) D == 1.
Proof.
  intros Hn Ha Hsq Hcut Hev0 Hcl HE HG E.
  assert (Hact : negb (pca_cleared cut ev a) = true) by (rewrite Hcl; reflexivity).
  destruct (wh_sq sq cut m ev Hsq Hcut Hev0 a Ha Hact) as [Hs Hnz].
  set (Wp := fun (a j : nat) => V j a).
  assert (Hlin : forall x, lin d (fst E) (snd E) a x == / sq (ev a) * lin d Wp (center_off d Wp D) a x + 0).
  { intros x. unfold lin, E, pca_encoder, center_off, Wp. cbn [fst snd]. rewrite Hcl.
    rewrite (sumn_ext_all d (fun j => V j a / sq (ev a) * feat j x) (fun j => V j a * feat j x * / sq (ev a))) by (intros; unfold Qdiv; ring).
    rewrite sumn_scal_r.
    rewrite (sumn_ext_all d (fun j => V j a * pca_mean d D j) (fun j => V j a * mean (feat j) D)) by (intros; unfold pca_mean; rewrite memoq_eq; reflexivity).
    unfold Qdiv. ring. }
  split.
  - rewrite (C15ProofsLin.mean_ext _ _ D Hlin), (affine_mean _ _ _ D Hn), (lin_mean d Wp _ a D Hn). unfold center_off. ring.
  - rewrite (var_ext _ _ D Hlin), (affine_var _ _ _ D Hn). unfold Wp. rewrite (pca_variance_is_eigenvalue d V ev a D Hn HE HG).
    rewrite <- Hs at 3. field. exact Hnz.
Qed.
