(* C13 — HypervolumeSubsetSelection2D (model C13Hssp.v): the selected points are at most k points of the set and no
   list of at most k points of the set has a larger hv_spec.  Axiom-free (lists, nat, Z).

   1. dynamic programme over the front (for ANY envelope routine satisfying env_ok, in particular the deque
      algorithm of the code: C13HsspEnvProofs.envelope_ok): after l-1 rounds h_i is the largest "volume left of x_i"
      of a chain of at most l front points ending in i, and back-tracking returns a chain that attains it;
   2. createFront (for ANY arrangement the sort may produce that is a permutation sorted by the first objective):
      the front is a chain (first objective non-decreasing, second strictly decreasing) of shifted points of the
      set that weakly dominates every point of the set;
   3. the volume of a chain (vertical strips, as the lines f_i accumulate it) is hv_spec of its points. *)
From Coq Require Import List ZArith Lia Bool Arith Permutation Sorted.
From SharkV Require Import ListAux C13Model C13Proofs C13WfgProofs C13Sweep3d C13Sweep3dProofs C13Hssp C13HsspEnvProofs.
Import ListNotations.
Local Open Scope Z_scope.

Definition dfp : fpt := (0, 0, 0%nat).

(* ---------------------------------------------------------------------------------------- *)
(* 1. the dynamic programme *)
Section DP.
Variable F : list fpt.
Let n := length F.
Definition X (q : nat) : Z := px (nth q F dfp).
Definition Y (q : nat) : Z := py (nth q F dfp).
Hypothesis Hx : forall i j, (i <= j < n)%nat -> X i <= X j.
Hypothesis Hy : forall i j, (i < j < n)%nat -> Y j < Y i.
Hypothesis Hneg : forall i, (i < n)%nat -> X i <= 0 /\ Y i <= 0.
Variable env : list line -> list Z -> list (Z * nat).
Hypothesis Henv : env_ok env.

(* position lists, LAST position first; volume left of the first objective of the last point *)
Fixpoint lvolR (r : list nat) : Z :=
  match r with
  | b :: (a :: _) as t => Y a * (X a - X b) + lvolR t
  | _ => 0
  end.
Definition total (r : list nat) : Z :=
  match r with [] => 0 | b :: _ => lvolR r + X b * Y b end.

Definition dchain (r : list nat) : Prop := StronglySorted (fun b a => (a < b)%nat) r /\ forall q, In q r -> (q < n)%nat.
Definition wchain (r : list nat) : Prop := StronglySorted (fun b a => (a <= b)%nat) r /\ forall q, In q r -> (q < n)%nat.

Lemma nth_mk_funs h j : length h = n -> (j < n)%nat ->
  nth j (mk_funs F h) dl = (- Y j, X j * Y j + nth j h 0, j).
Proof.
  intros Hh Hj. unfold mk_funs.
  set (g := fun phi : fpt * Z * nat => let '(p, hi, i) := phi in (- py p, px p * py p + hi, i)).
  rewrite (nth_indep _ dl (g (dfp, 0, 0%nat))).
  2:{ rewrite map_length, !combine_length, seq_length. fold n. lia. }
  rewrite map_nth. rewrite combine_nth by (rewrite combine_length, seq_length; fold n; lia).
  rewrite combine_nth by (fold n; lia). rewrite seq_nth by (fold n; lia). reflexivity.
Qed.

Lemma mk_funs_length h : length h = n -> length (mk_funs F h) = n.
Proof. intros Hh. unfold mk_funs. rewrite map_length, !combine_length, seq_length. fold n. lia. Qed.

Lemma nth_xs t : nth t (map px F) 0 = X t.
Proof. change 0 with (px dfp). now rewrite map_nth. Qed.

Lemma ev_fun h j x : length h = n -> (j < n)%nat ->
  ev (nth j (mk_funs F h) dl) x = Y j * (X j - x) + nth j h 0.
Proof. intros Hh Hj. rewrite nth_mk_funs by auto. unfold ev, la, lb. cbn [fst snd]. ring. Qed.

Lemma nth_map_snd (r : list (Z * nat)) t : nth t (map snd r) 0%nat = snd (nth t r d0).
Proof. change 0%nat with (snd d0). apply map_nth. Qed.
Lemma nth_map_fst (r : list (Z * nat)) t : nth t (map fst r) 0 = fst (nth t r d0).
Proof. change 0 with (fst d0). apply map_nth. Qed.

(* one round *)
Lemma round_spec h : length h = n ->
  let r := env (mk_funs F h) (map px F) in
  length r = n /\
  forall t, (t < n)%nat ->
    (nth t (map snd r) 0 <= t)%nat /\
    Y (nth t (map snd r) 0%nat) * (X (nth t (map snd r) 0%nat) - X t) + nth (nth t (map snd r) 0%nat) h 0 = nth t (map fst r) 0 /\
    forall j, (j <= t)%nat -> Y j * (X j - X t) + nth j h 0 <= nth t (map fst r) 0.
Proof.
  intros Hh. cbv zeta.
  destruct (Henv (mk_funs F h) (map px F)) as [HL HT].
  - rewrite mk_funs_length, map_length; auto.
  - intros i j Hij. rewrite mk_funs_length in Hij by auto. rewrite !nth_mk_funs by (auto; lia).
    unfold la. cbn [fst]. pose proof (Hy i j ltac:(lia)). lia.
  - intros i j Hij. rewrite map_length in Hij. fold n in Hij. rewrite !nth_xs. apply Hx. lia.
  - intros j Hj. rewrite mk_funs_length in Hj by auto. rewrite nth_mk_funs by auto. reflexivity.
  - rewrite map_length in HL, HT. fold n in HL, HT. split; auto.
    intros t Ht. destruct (HT t Ht) as [H1 [H2 H3]].
    rewrite !nth_map_snd, !nth_map_fst.
    rewrite nth_xs in H2, H3. split; auto. split.
    + rewrite <- H2. rewrite ev_fun by (auto; lia). reflexivity.
    + intros j Hj. specialize (H3 j Hj). rewrite ev_fun in H3 by (auto; lia). exact H3.
Qed.

(* table invariant after l-1 rounds *)
Record TInv (l : nat) (h : list Z) (chosen : list (list nat)) : Prop := {
  t_len : length h = n;
  t_pos : forall i, (i < n)%nat -> 0 <= nth i h 0;
  t_ub : forall r i, dchain (i :: r) -> (length (i :: r) <= l)%nat -> lvolR (i :: r) <= nth i h 0;
  t_at : forall i, (i < n)%nat ->
           exists r, backtrack chosen i = i :: r /\ wchain (i :: r) /\ length (i :: r) = l /\
                     lvolR (i :: r) = nth i h 0 }.

Lemma TInv_init : TInv 1 (repeat 0 n) [].
Proof.
  constructor.
  - apply repeat_length.
  - intros i Hi. rewrite nth_repeat. lia.
  - intros r i _ Hl. destruct r; [|cbn in Hl; lia]. cbn. rewrite nth_repeat. lia.
  - intros i Hi. exists []. cbn. split; auto. split; [|split; auto; now rewrite nth_repeat].
    split; [repeat constructor|]. intros q [<-|[]]. exact Hi.
Qed.

Lemma TInv_step l h chosen : (1 <= l)%nat -> TInv l h chosen ->
  let r := env (mk_funs F h) (map px F) in TInv (S l) (map fst r) (map snd r :: chosen).
Proof.
  intros Hl [TL TP TU TA]. cbv zeta.
  destruct (round_spec h TL) as [RL RT]. cbv zeta in RL, RT.
  set (r := env (mk_funs F h) (map px F)) in *.
  assert (GE : forall i, (i < n)%nat -> nth i h 0 <= nth i (map fst r) 0).
  { intros i Hi. destruct (RT i Hi) as [_ [_ H3]]. specialize (H3 i (le_n _)). nia. }
  constructor.
  - now rewrite map_length.
  - intros i Hi. specialize (TP i Hi). specialize (GE i Hi). lia.
  - intros c i HC Hlen. destruct HC as [HS HB].
    assert (Hi : (i < n)%nat) by (apply HB; now left).
    destruct (Nat.eq_dec (length (i :: c)) (S l)) as [E|NE].
    + destruct c as [|j c']; [cbn in E; lia|].
      apply StronglySorted_inv in HS. destruct HS as [HS' HF]. rewrite Forall_forall in HF.
      assert (Hj : (j < i)%nat) by (apply HF; now left).
      change (lvolR (i :: j :: c')) with (Y j * (X j - X i) + lvolR (j :: c')).
      assert (lvolR (j :: c') <= nth j h 0).
      { apply TU; [split; auto; intros q Hq; apply HB; now right|cbn [length] in *; lia]. }
      destruct (RT i Hi) as [_ [_ H3]]. specialize (H3 j ltac:(lia)). lia.
    + specialize (TU c i (conj HS HB) ltac:(lia)). specialize (GE i Hi). lia.
  - intros i Hi. destruct (RT i Hi) as [H1 [H2 _]]. set (j := nth i (map snd r) 0%nat) in *.
    destruct (TA j ltac:(lia)) as [rj [Hb [[HWs HWb] [Hlen Hv]]]].
    exists (j :: rj). cbn [backtrack]. fold j. rewrite Hb. split; auto. split; [|split].
    + split.
      * constructor; auto. apply Forall_forall. intros q [<-|Hq]; [lia|].
        apply StronglySorted_inv in HWs. destruct HWs as [_ HF]. rewrite Forall_forall in HF. specialize (HF q Hq). lia.
      * intros q [<-|Hq]; auto.
    + cbn [length] in *. lia.
    + change (lvolR (i :: j :: rj)) with (Y j * (X j - X i) + lvolR (j :: rj)). rewrite Hv. exact H2.
Qed.

Lemma rounds_spec : forall j l h chosen, (1 <= l)%nat -> TInv l h chosen ->
  TInv (l + j) (fst (rounds env j F h chosen)) (snd (rounds env j F h chosen)).
Proof.
  induction j as [|j IH]; intros l h chosen Hl HT; cbn [rounds fst snd].
  - now rewrite Nat.add_0_r.
  - replace (l + S j)%nat with (S l + j)%nat by lia. apply IH; [lia|]. now apply TInv_step.
Qed.

(* the last point *)
Lemma argmax_first_spec vals : vals <> [] -> (forall v, In v vals -> 0 <= v) ->
  (argmax_first vals < length vals)%nat /\
  forall i, (i < length vals)%nat -> nth i vals 0 <= nth (argmax_first vals) vals 0.
Proof.
  intros Hne Hpos. unfold argmax_first.
  set (stepf := fun (st : Z * nat * nat) (v : Z) => let '(res, cur, i) := st in
                  if res <? v then (v, i, S i) else (res, cur, S i)).
  assert (G : forall rest done res cur, vals = done ++ rest ->
     (done = [] /\ res = -1 /\ cur = 0%nat) \/
       ((cur < length done)%nat /\ res = nth cur vals 0 /\ forall t, (t < length done)%nat -> nth t vals 0 <= res) ->
     let '(res', cur', i') := fold_left stepf rest (res, cur, length done) in
     vals = [] \/
       ((cur' < length vals)%nat /\ res' = nth cur' vals 0 /\ forall t, (t < length vals)%nat -> nth t vals 0 <= res')).
  { induction rest as [|v rest IH]; intros done res cur Hv Hst; cbn [fold_left].
    - rewrite app_nil_r in Hv. subst done. destruct Hst as [[-> _]|H]; [left; auto|right; auto].
    - assert (Hv' : vals = (done ++ [v]) ++ rest) by (rewrite <- app_assoc; exact Hv).
      assert (Ev : nth (length done) vals 0 = v) by (rewrite Hv, app_nth2, Nat.sub_diag by lia; reflexivity).
      assert (Pv : 0 <= v) by (apply Hpos; rewrite Hv; apply in_or_app; right; now left).
      unfold stepf at 2.
      assert (Ld : length (done ++ [v]) = S (length done)) by (rewrite app_length; cbn; lia).
      destruct (Z.ltb_spec res v) as [Hlt|Hge].
      + specialize (IH (done ++ [v]) v (length done) Hv'). rewrite Ld in IH. apply IH. right.
        split; [lia|]. split; [now rewrite Ev|]. intros t Ht.
        destruct (Nat.eq_dec t (length done)) as [->|Hne']; [rewrite Ev; lia|].
        destruct Hst as [[-> _]|[_ [_ H]]]; [cbn in *; lia|]. specialize (H t ltac:(lia)). lia.
      + destruct Hst as [[_ [-> _]]|[H1 [H2 H3]]]; [lia|].
        specialize (IH (done ++ [v]) res cur Hv'). rewrite Ld in IH. apply IH. right.
        split; [lia|]. split; auto. intros t Ht.
        destruct (Nat.eq_dec t (length done)) as [->|Hne']; [rewrite Ev; lia|]. apply H3. lia. }
  specialize (G vals [] (-1) 0%nat eq_refl (or_introl (conj eq_refl (conj eq_refl eq_refl)))).
  cbn [length] in G. destruct (fold_left stepf vals (-1, 0%nat, 0%nat)) as [[res' cur'] i'].
  cbn [fst snd]. destruct G as [E|[H1 [H2 H3]]]; [congruence|]. split; auto.
  intros i Hi. rewrite <- H2. now apply H3.
Qed.

(* result of hyp_ssp: a weak chain of k positions whose total volume bounds every chain of at most k points *)
Theorem hyp_ssp_spec k : (1 <= k)%nat -> (1 <= n)%nat ->
  exists i r, hyp_ssp env F k = i :: r /\ wchain (i :: r) /\ length (i :: r) = k /\
    0 <= total (i :: r) /\
    forall c j, dchain (j :: c) -> (length (j :: c) <= k)%nat -> total (j :: c) <= total (i :: r).
Proof.
  intros Hk Hn. unfold hyp_ssp.
  pose proof (rounds_spec (k - 1) 1 (repeat 0 (length F)) [] (le_n _) TInv_init) as HT.
  destruct (rounds env (k - 1) F (repeat 0 (length F)) []) as [h chosen]. cbn [fst snd] in HT.
  replace (1 + (k - 1))%nat with k in HT by lia. destruct HT as [TL TP TU TA].
  set (g := fun ph : fpt * Z => px (fst ph) * py (fst ph) + snd ph).
  set (vals := map g (combine F h)).
  assert (VL : length vals = n) by (unfold vals; rewrite map_length, combine_length; fold n; lia).
  assert (VN : forall i, (i < n)%nat -> nth i vals 0 = X i * Y i + nth i h 0).
  { intros i Hi. unfold vals.
    rewrite (nth_indep _ 0 (g (dfp, 0))).
    2:{ rewrite map_length, combine_length. fold n. lia. }
    rewrite map_nth, combine_nth by (fold n; lia). reflexivity. }
  assert (VP : forall v, In v vals -> 0 <= v).
  { intros v Hv. destruct (In_nth vals v 0 Hv) as [i [Hi <-]]. rewrite VL in Hi. rewrite VN by auto.
    specialize (TP i Hi). destruct (Hneg i Hi). nia. }
  destruct (argmax_first_spec vals) as [A1 A2]; auto.
  { intros E. rewrite E in VL. cbn in VL. lia. }
  rewrite VL in A1, A2. set (i := argmax_first vals) in *.
  destruct (TA i A1) as [r [Hb [HW [Hlen Hv]]]].
  exists i, r. split; auto. split; auto. split; auto.
  assert (Tot : total (i :: r) = nth i vals 0) by (cbn [total]; rewrite Hv, VN by auto; ring).
  split.
  - rewrite Tot. apply VP, nth_In. lia.
  - intros c j HC Hl. rewrite Tot. cbn [total].
    assert (Hj : (j < n)%nat) by (apply HC; now left).
    specialize (TU c j HC Hl). specialize (A2 j Hj). rewrite VN in A2 by auto. lia.
Qed.
End DP.
