(* C02 — symm_pos_semi_definite_solver (the symm_semi_pos_def path of solve.hpp): executable model, definitions only.

   Mirrors  /repo/include/shark/LinAlg/BLAS/decompositions.hpp  symm_pos_semi_definite_solver:
     * constructor: m_factor = e; m_rank = kernels::pstrf<lower>(m_factor, m_permutation); if the rank is not full,
       L = columns(m_factor,0,m_rank); m_cholesky.decompose(prod(trans(L),L))  -- the return value of potrf is NOT looked
       at by cholesky_decomposition::decompose, the model goes on with the matrix potrf left behind  -> [semi_gram], [semi_decompose]
     * solve(b, left/right) for a vector: swap_rows(P,b); rank 0: b.clear(); full rank: trsv<lower,left>(m_factor,b),
       trsv<upper,left>(trans(m_factor),b); else z = L^T b, m_cholesky.solve(z) twice, b = L z; swap_rows_inverted(P,b)
                                                                                                  -> [semi_solve_with]
     * solve(A,b,symm_semi_pos_def,side)                                                          -> [semi_solve]
   Matrix right-hand sides (trsm instead of trsv, column by column / row by row through the transposition of solve(B,right))
   compute the same values in exact arithmetic; tools/c02.py applies the vector model to every column (row). *)
From Coq Require Import List Arith Bool.
From SharkV Require Import C02Model C02BlkModel C02PstrfModel C02RlModel.
Import ListNotations.

Section Semi.
Variable A : Type.
Variable F : ops A.
Variable fabs : A -> A.
Local Notation "0" := (fzero F).
Local Infix "+" := (fadd F).
Local Infix "*" := (fmul F).
Local Notation mat := (mat A).
Local Notation vec := (vec A).
Local Notation sumr := (sumr A F).

(* prod(trans(L),L) with L = columns(m_factor,0,r): r x r *)
Definition semi_gram (n r : nat) (L : mat) : mat := memo2 A F r (fun a b => sumr 0 n (fun i => L i a * L i b)).

Record semi_dec := mkSemi { sd_rank : nat; sd_factor : mat; sd_perm : pvec; sd_chol : mat; sd_piv : list A }.

(* psbs = block_size of pstrf (20), bs = block_size of potrf (32), tbs = Block_Size of trsm (32), o = storage of the matrices *)
Definition semi_decompose (psbs bs tbs : nat) (o : orient) (n : nat) (epsm : A) (M : mat) : option semi_dec :=
  match pstrf_full A F fabs psbs n epsm M with
  | (r, L, P, piv) =>
    if Nat.eqb r n then Some (mkSemi r L P L piv)          (* m_cholesky stays empty; not used *)
    else
      match potrf_blocked2 A F bs tbs false o r (semi_gram n r L) with
      | BOk _ Lc => Some (mkSemi r L P Lc piv)
      | BFail _ _ Lc => Some (mkSemi r L P Lc piv)           (* potrf's return value is ignored by decompose *)
      | BExc _ => None                                     (* exception out of trsm inside potrf *)
      end
  end.

Definition semi_solve_with (o : orient) (n r : nat) (L : mat) (P : pvec) (Lc : mat) (b : vec) : option vec :=
  let b1 := swap_vec A F n n P b in
  let res :=
    if Nat.eqb r 0 then Some (fun _ : nat => 0)
    else if Nat.eqb r n then chol_solve_with A F o L n b1
    else
      let z := memo A F r (fun a => sumr 0 n (fun i => L i a * b1 i)) in
      match chol_solve_with A F o Lc r z with
      | None => None
      | Some w1 =>
        match chol_solve_with A F o Lc r w1 with
        | None => None
        | Some w2 => Some (memo A F n (fun i => sumr 0 r (fun a => L i a * w2 a)))
        end
      end in
  match res with
  | None => None
  | Some y => Some (swap_vec_inv A F n n P y)
  end.

Definition semi_solve (psbs bs tbs : nat) (o : orient) (n : nat) (epsm : A) (M : mat) (b : vec) : option vec :=
  match semi_decompose psbs bs tbs o n epsm M with
  | None => None
  | Some d => semi_solve_with o n (sd_rank d) (sd_factor d) (sd_perm d) (sd_chol d) b
  end.

End Semi.
